(* OlaBase.Bytes: bytes as N, machine-width truncation, bounds-checked reads. *)
From Coq Require Export List NArith ZArith Bool Lia.
From Coq Require Import ZifyBool ZifyN ZifyNat.
Export ListNotations.
Local Open Scope N_scope.

Ltac Zify.zify_post_hook ::= Z.div_mod_to_equations.

Definition u8  (x : N) : N := x mod 256.
Definition u16 (x : N) : N := x mod 65536.
Definition u32 (x : N) : N := x mod 4294967296.
Definition u64 (x : N) : N := x mod 18446744073709551616.

(* unsigned subtraction as C does it on a w-bit unsigned type *)
Definition usub32 (a b : N) : N := u32 (a + 4294967296 - u32 b).

Definition byte_ok (b : N) : bool := b <? 256.
Definition bytes_ok (l : list N) : bool := forallb byte_ok l.

Definition len {A} (l : list A) : N := N.of_nat (length l).

(* bounds-checked read: None = outside the supplied bytes *)
Definition rd (l : list N) (i : N) : option N := nth_error l (N.to_nat i).

Definition take {A} (n : N) (l : list A) := firstn (N.to_nat n) l.
Definition drop {A} (n : N) (l : list A) := skipn (N.to_nat n) l.

Definition join16 (hi lo : N) : N := hi * 256 + lo.

Fixpoint sum_bytes (l : list N) : N :=
  match l with [] => 0 | x :: r => x + sum_bytes r end.

(* forces N, Z, positive, nat into every extraction *)
Definition io_witness : N * Z * nat := (N.div 7 2 + N.mul 1 1, 1%Z, 1%nat).

Lemma u8_lt x : u8 x < 256. Proof. unfold u8; lia. Qed.
Lemma u16_lt x : u16 x < 65536. Proof. unfold u16; lia. Qed.
Lemma u8_id x : x < 256 -> u8 x = x. Proof. unfold u8; intros; apply N.mod_small; lia. Qed.
Lemma u16_id x : x < 65536 -> u16 x = x. Proof. unfold u16; intros; apply N.mod_small; lia. Qed.
Lemma u32_id x : x < 4294967296 -> u32 x = x. Proof. unfold u32; intros; apply N.mod_small; lia. Qed.

Lemma len_app {A} (a b : list A) : len (a ++ b) = len a + len b.
Proof. unfold len; rewrite app_length; lia. Qed.
Lemma len_cons {A} (x : A) l : len (x :: l) = 1 + len l.
Proof. unfold len; cbn [length]; lia. Qed.
Lemma len_nil {A} : len (@nil A) = 0. Proof. reflexivity. Qed.

Lemma rd_some_lt l i x : rd l i = Some x -> i < len l.
Proof.
  unfold rd, len; intros H.
  assert (nth_error l (N.to_nat i) <> None) as H1 by congruence.
  apply nth_error_Some in H1; lia.
Qed.
Lemma rd_lt_some l i : i < len l -> exists x, rd l i = Some x.
Proof.
  unfold rd, len; intros H.
  destruct (nth_error l (N.to_nat i)) eqn:E; [eauto|].
  apply nth_error_None in E; lia.
Qed.
Lemma rd_none_ge l i : rd l i = None <-> len l <= i.
Proof. unfold rd, len; rewrite nth_error_None; lia. Qed.
Lemma rd_app_l a b i : i < len a -> rd (a ++ b) i = rd a i.
Proof. unfold rd, len; intros; apply nth_error_app1; lia. Qed.
Lemma rd_app_r a b i : len a <= i -> rd (a ++ b) i = rd b (i - len a).
Proof.
  unfold rd, len; intros; rewrite nth_error_app2 by lia. f_equal; lia.
Qed.

Lemma bytes_ok_app a b : bytes_ok (a ++ b) = bytes_ok a && bytes_ok b.
Proof. apply forallb_app. Qed.
Lemma bytes_ok_rd l i x : bytes_ok l = true -> rd l i = Some x -> x < 256.
Proof.
  unfold bytes_ok, rd; intros H E. rewrite forallb_forall in H.
  apply nth_error_In in E. apply H in E. unfold byte_ok in E. lia.
Qed.
Lemma sum_bytes_app a b : sum_bytes (a ++ b) = sum_bytes a + sum_bytes b.
Proof. induction a as [|x a IH]; cbn [sum_bytes app]; lia. Qed.
Lemma sum_bytes_bound l : bytes_ok l = true -> sum_bytes l <= 255 * len l.
Proof.
  induction l as [|x l IH]; cbn [sum_bytes bytes_ok forallb]; intros H.
  - cbn; lia.
  - apply andb_prop in H as [Hx Hl]. unfold byte_ok in Hx. rewrite len_cons.
    specialize (IH Hl). lia.
Qed.
Lemma take_len {A} n (l : list A) : n <= len l -> len (take n l) = n.
Proof. unfold take, len; intros; rewrite firstn_length; lia. Qed.
Lemma drop_len {A} n (l : list A) : len (drop n l) = len l - n.
Proof. unfold drop, len; rewrite skipn_length; lia. Qed.
Lemma take_drop {A} n (l : list A) : take n l ++ drop n l = l.
Proof. apply firstn_skipn. Qed.
Lemma take_app_exact {A} (a b : list A) : take (len a) (a ++ b) = a.
Proof.
  unfold take, len. rewrite Nat2N.id. rewrite firstn_app, Nat.sub_diag, firstn_all.
  cbn; apply app_nil_r.
Qed.
Lemma drop_app_exact {A} (a b : list A) : drop (len a) (a ++ b) = b.
Proof.
  unfold drop, len. rewrite Nat2N.id. rewrite skipn_app, Nat.sub_diag, skipn_all.
  reflexivity.
Qed.
Lemma bytes_ok_take_drop n l :
  bytes_ok l = true -> bytes_ok (take n l) = true /\ bytes_ok (drop n l) = true.
Proof.
  intros H. rewrite <- (take_drop n l), bytes_ok_app in H. apply andb_prop in H. exact H.
Qed.
