// Shared glue for correspondence harnesses: line protocol, hex helpers, watchdog.
#ifndef VERIF_HARNESS_VH_H_
#define VERIF_HARNESS_VH_H_
#include <signal.h>
#include <stdint.h>
#include <stdio.h>
#include <stdlib.h>
#include <string.h>
#include <unistd.h>
#include <fstream>
#include <iostream>
#include <sstream>
#include <string>
#include <vector>

namespace vh {

inline int hexval(char c) {
  if (c >= '0' && c <= '9') return c - '0';
  if (c >= 'a' && c <= 'f') return c - 'a' + 10;
  if (c >= 'A' && c <= 'F') return c - 'A' + 10;
  return -1;
}

// "-" denotes the empty byte string.
inline std::vector<uint8_t> unhex(const std::string &s) {
  std::vector<uint8_t> out;
  if (s == "-") return out;
  for (size_t i = 0; i + 1 < s.size(); i += 2)
    out.push_back(static_cast<uint8_t>(hexval(s[i]) * 16 + hexval(s[i + 1])));
  return out;
}

inline std::string hex(const uint8_t *d, size_t n) {
  static const char *digits = "0123456789abcdef";
  if (n == 0) return "-";
  std::string s;
  s.reserve(2 * n);
  for (size_t i = 0; i < n; i++) {
    s.push_back(digits[d[i] >> 4]);
    s.push_back(digits[d[i] & 15]);
  }
  return s;
}
inline std::string hex(const std::vector<uint8_t> &v) { return hex(v.data(), v.size()); }
inline std::string hex(const std::string &v) {
  return hex(reinterpret_cast<const uint8_t*>(v.data()), v.size());
}

inline std::vector<std::string> split(const std::string &s, char sep = ' ') {
  std::vector<std::string> out;
  std::string cur;
  for (size_t i = 0; i < s.size(); i++) {
    if (s[i] == sep) { out.push_back(cur); cur.clear(); } else { cur.push_back(s[i]); }
  }
  out.push_back(cur);
  return out;
}

inline unsigned long long num(const std::string &s) { return strtoull(s.c_str(), NULL, 10); }
inline long long snum(const std::string &s) { return strtoll(s.c_str(), NULL, 10); }

template <typename T>
inline std::string str(T v) { std::ostringstream o; o << v; return o.str(); }

// An exact-size heap copy so that ASan sees every over-read.
struct Exact {
  uint8_t *p;
  size_t n;
  explicit Exact(const std::vector<uint8_t> &v) : p(new uint8_t[v.size()]), n(v.size()) {
    if (n) memcpy(p, v.data(), n);
  }
  ~Exact() { delete[] p; }
 private:
  Exact(const Exact&);
};

inline void on_alarm(int) {
  const char msg[] = "\nALARM: case exceeded its watchdog\n";
  (void) !write(2, msg, sizeof(msg) - 1);
  _exit(142);
}

typedef std::string (*Handler)(const std::string &payload);

inline int run(int argc, char **argv, Handler h, unsigned watchdog_s = 20) {
  if (argc < 2) { fprintf(stderr, "usage: %s <cases>\n", argv[0]); return 2; }
  signal(SIGALRM, on_alarm);
  signal(SIGPIPE, SIG_IGN);
  std::ifstream in(argv[1]);
  std::string line;
  while (std::getline(in, line)) {
    if (line.empty()) continue;
    size_t sp = line.find(' ');
    std::string id = line.substr(0, sp);
    std::string payload = sp == std::string::npos ? "" : line.substr(sp + 1);
    printf("B %s\n", id.c_str());
    fflush(stdout);
    alarm(watchdog_s);
    std::string r = h(payload);
    alarm(0);
    printf("R %s %s\n", id.c_str(), r.c_str());
    fflush(stdout);
  }
  return 0;
}
}  // namespace vh
#endif  // VERIF_HARNESS_VH_H_
