(* C15 model driver.  payload: "<label> <bs> <nq> <ns> <op> <op> ..." (see harness.cpp for the
   op syntax).  After EVERY op the observers Size / Empty / AsIOVec of every buffer and the pool
   counters are evaluated through the extracted [step] and printed:
     o<k> = property-level observables of step k, i<k> = internal ones (block layout, pool). *)
let nat = nat_of_int
let parse_op_l (lq : int -> string -> nat) (ls : int -> string -> nat) (t : string) : op =
  match String.split_on_char ':' t with
  | ["qw"; i; h] -> QWrite (nat (ios i), bytes_of_hex h)
  | ["qb"; i; w; v] -> QWriteBE (nat (ios i), nat (ios w), n_of_string v)
  | ["qr"; i; n] -> QRead (nat (ios i), lq (ios i) n)
  | ["qs"; i; n] -> QReadStr (nat (ios i), lq (ios i) n)
  | ["qk"; i; n] -> QPeek (nat (ios i), lq (ios i) n)
  | ["qp"; i; n] -> QPop (nat (ios i), lq (ios i) n)
  | ["qm"; i; j] -> QAppendMove (nat (ios i), nat (ios j))
  | ["qc"; i] -> QClear (nat (ios i))
  | ["sw"; j; h] -> SWrite (nat (ios j), bytes_of_hex h)
  | ["sb"; j; w; v] -> SWriteBE (nat (ios j), nat (ios w), n_of_string v)
  | ["sr"; j; n] -> SRead (nat (ios j), ls (ios j) n)
  | ["ss"; j; n] -> SReadStr (nat (ios j), ls (ios j) n)
  | ["sp"; j; n] -> SPop (nat (ios j), ls (ios j) n)
  | ["sm"; j; i] -> SMove (nat (ios j), nat (ios i))
  | ["sd"; j] -> SDestroy (nat (ios j))
  | ["pg"] -> PoolPurge
  | ["pq"; _] | ["ps"; _] -> PoolPurge                      (* IOQueue::Purge() / IOStack::Purge() *)
  | ["qd"; i] -> QPeek (nat (ios i), lq (ios i) "4294967295")   (* IOQueue::Dump: Size + Peek of everything *)
  | ["sD"; j] -> SIOVec (nat (ios j))                          (* IOStack::Dump: Copy of every block *)
  | _ -> failwith ("bad op " ^ t)

(* lengths of any magnitude: executed as natlen (Len32.v, theorems c15_len_any...) *)
let blen (l : buffer list) (i : int) : nat = try buf_size (List.nth l i) with _ -> nat 0
let lenfor (l : buffer list) (i : int) (s : string) : nat = natlen (n_of_string s) (blen l i)
let parse_op_st (st : state) (t : string) : op = parse_op_l (lenfor st.s_q) (lenfor st.s_s) t
let parse_op2 (st : state2) (t : string) : op =
  parse_op_l (lenfor (List.map snd st.m_q)) (lenfor (List.map snd st.m_s)) t

let parse_mread (bound : nat) (t : string) : mread =
  let n = natlen (n_of_string (String.sub t 1 (String.length t - 1))) bound in
  match t.[0] with 'r' -> MRead n | 's' -> MStr n | _ -> MIn n

let parse_xop (st : state) (t : string) : xop =
  match String.split_on_char ':' t with
  | ["xs"; j] -> SendS (nat (ios j))
  | ["xq"; i] -> SendQ (nat (ios i))
  | ["xw"; k] -> PWrite (Some (lenfor st.s_q 0 k))
  | ["xe"] -> PWrite None
  | ["xl"] -> Limit
  | ["qi"; i; w] -> QIn (nat (ios i), nat (ios w))
  | ["mb"; h] -> MBuf (bytes_of_hex h, [])
  | ["mb"; h; sc] ->
    let d = bytes_of_hex h in
    MBuf (d, List.map (parse_mread (nat (List.length d))) (String.split_on_char ',' sc))
  | _ -> UOp (parse_op_st st t)

exception Hazard of string
let ok (r : 'a res) : 'a =
  match r with
  | Ok a -> a
  | Oob -> raise (Hazard "Oob")
  | OutOfFuel -> raise (Hazard "OutOfFuel")
  | Undef -> raise (Hazard "Undef")

let out_s (o : out) : string =
  match o with
  | ONone -> "."
  | OBytes l -> hex_of_bytes l
  | ONum n -> string_of_int (int_of_nat n)
  | OBool b -> bool01 b
  | OVec l -> String.concat "." (List.map hex_of_bytes l)

let out_tok (t : string) (o : out) : string =
  match o with
  | OVec l when String.length t > 1 && String.sub t 0 2 = "sD" -> hex_of_bytes (List.concat l)
  | _ -> out_s o

let xout_s (t : string) (y : xout) : string =
  match y with
  | XUser o -> out_tok t o
  | XBool b -> if b then "T" else "F"
  | XSent None -> "ERR"
  | XSent (Some l) -> hex_of_bytes l
  | XIn (ok, v) -> if ok then "v" ^ string_of_n v else "short"
  | XMB l ->
    let calls = match String.split_on_char ':' t with
      | [_; _; sc] -> String.split_on_char ',' sc | _ -> [] in
    String.concat "." (List.map2 (fun c o ->
      if c.[0] = 'i' then
        (if List.length o = ios (String.sub c 1 (String.length c - 1))
         then "v" ^ string_of_n (be_value o) else "short")
      else hex_of_bytes o) calls l)

let obs (st : state) (o : op) : out = snd (ok (step st o))

(* property-level: size, empty, concatenated iovec;  internal: segments and (first,last) *)
let buf_obs (st : state) (name : string) (sz : op) (em : op) (iv : op) (bl : buffer) =
  let segs = match obs st iv with OVec l -> l | _ -> [] in
  let spec = Printf.sprintf "%s:%s,%s,%s" name (out_s (obs st sz)) (out_s (obs st em))
      (hex_of_bytes (List.concat segs)) in
  let lay = String.concat "." (List.map (fun (f, l) ->
      Printf.sprintf "%d-%d" (int_of_nat f) (int_of_nat l)) (buf_layout bl)) in
  let inner = Printf.sprintf "%s:%s@%s" name (String.concat "." (List.map hex_of_bytes segs)) lay in
  spec, inner

let pools_of (m : string) : int list =
  if m = "-" then [] else List.init (String.length m) (fun k -> Char.code m.[k] - Char.code 'A')

let handle_c ?(sender : string option) ?(priv = false) (label, bsa, bsb, qm, sm, ops) : string =
  let qp = pools_of qm and sp = pools_of sm in
  let y = ref (yinit [nat (ios bsa); nat (ios bsb)] (List.map nat qp) (List.map nat sp)) in
  let st = ref !y.y_st in
  let b = Buffer.create 1024 in
  Buffer.add_string b ("class=" ^ label);
  let known = ref false in
  let obs2 o = snd (ok (step2 !st o)) in
  let one name sz em iv bl =
    let segs = match obs2 iv with OVec l -> l | _ -> [] in
    let spec = Printf.sprintf "%s:%s,%s,%s" name (out_s (obs2 sz)) (out_s (obs2 em))
        (hex_of_bytes (List.concat segs)) in
    let lay = String.concat "." (List.map (fun (f, l) ->
        Printf.sprintf "%d-%d" (int_of_nat f) (int_of_nat l)) (buf_layout bl)) in
    spec, Printf.sprintf "%s:%s@%s" name (String.concat "." (List.map hex_of_bytes segs)) lay in
  (try
    List.iteri (fun k t ->
      (try
        let ret =
          match sender with
          | None when priv && String.length t > 2 && String.sub t 0 3 = "sd:" ->
            st := ok (destroy_private !st (nat (ios (String.sub t 3 (String.length t - 3))))); "."
          | None ->
            let st', o = ok (step2 !st (parse_op2 !st t)) in
            st := st'; out_tok t o
          | Some max ->
            (* extended operation on the several-pools state (Sender2.ystep) *)
            let xo = match String.split_on_char ':' t with
              | ["xs"; j] -> SendS (nat (ios j))
              | ["xq"; i] -> SendQ (nat (ios i))
              | ["xw"; k] -> PWrite (Some (lenfor (List.map snd !st.m_q) 0 k))
              | ["xe"] -> PWrite None
              | ["xl"] -> Limit
              | ["qi"; i; w] -> QIn (nat (ios i), nat (ios w))
              | _ -> UOp (parse_op2 !st t) in
            let y', r = ok (ystep (n_of_string max) !y xo) in
            y := y'; st := y'.y_st; xout_s t r in
        let specs = ref [] and inners = ref [] in
        List.iteri (fun i (_, bl) ->
          let s, n = one (Printf.sprintf "q%d" i) (QSize (nat i)) (QEmpty (nat i)) (QIOVec (nat i)) bl in
          specs := s :: !specs; inners := n :: !inners) !st.m_q;
        List.iteri (fun j (_, bl) ->
          let s, n = one (Printf.sprintf "s%d" j) (SSize (nat j)) (SEmpty (nat j)) (SIOVec (nat j)) bl in
          specs := s :: !specs; inners := n :: !inners) !st.m_s;
        if not (acct2_ok !st) then known := true;
        Buffer.add_string b (Printf.sprintf ";o%d=%s/%s/held-nonempty%s%s" k ret
          (String.concat "/" (List.rev !specs)) (bool01 (noempty2_ok !st))
          (match sender with None -> ""
                           | Some _ -> Printf.sprintf "/assoc%s,reg%s" (bool01 !y.y_assoc) (bool01 !y.y_reg)));
        Buffer.add_string b (Printf.sprintf ";a%d=%s" k (String.concat "/" (List.mapi (fun k ((a, f), h) ->
          Printf.sprintf "P%d:%d,%d,%d" k (int_of_nat a) (int_of_nat f) (int_of_nat h)) (pool_obs !st))));
        Buffer.add_string b (Printf.sprintf ";i%d=%s" k (String.concat "/" (List.rev !inners)))
      with Hazard h ->
        Buffer.add_string b (Printf.sprintf ";o%d=HAZARD:%s" k h); raise Exit)) ops
  with Exit -> ());
  if !known then Buffer.add_string b ";known=C15-crosspool";
  Buffer.contents b

let handle (p : string) : string =
  match split p with
  | label :: bsa :: bsb :: qm :: sm :: max :: ops when label.[0] = 'Y' ->
    handle_c ~sender:max (label, bsa, bsb, qm, sm, ops)
  | label :: bsa :: bsb :: qm :: sm :: ops when label.[0] = 'C' -> handle_c (label, bsa, bsb, qm, sm, ops)
  | label :: _ :: _ :: ops when label.[0] = 'T' ->
    (* every run of every thread must give this trace: a default-constructed IOQueue and IOStack, each
       with a private pool of DEFAULT_BLOCK_SIZE = 1024-byte blocks *)
    handle_c ~priv:true (label, "1024", "1024", "A", "B", ops) ^ ";threads=ok;distinct=1"
  | [label; bsa; bsb; h; n] when label.[0] = 'P' ->
    (match cross_run (nat (ios bsa)) (nat (ios bsb)) (bytes_of_hex h) (nat (ios n)) with
     | Ok c ->
       Printf.sprintf "class=%s;read=%s;A=%d,%d;B=%d,%d,%d;Bpurged=%s%s" label (hex_of_bytes c.c_read)
         (int_of_nat c.c_allocA) (int_of_nat c.c_freeA) (int_of_nat c.c_allocB) (int_of_nat c.c_freeB)
         (int_of_nat c.c_heldB) (string_of_n c.c_allocB_purged)
         (if cross_acct_ok c then "" else ";known=C15-crosspool")
     | _ -> "class=" ^ label ^ ";HAZARD")
  | label :: bs :: nq :: ns :: max :: ops when label.[0] = 'X' ->
    let x = ref (xinit (nat (ios bs)) (nat (ios nq)) (nat (ios ns))) in
    let b = Buffer.create 1024 in
    Buffer.add_string b ("class=" ^ label);
    (try
      List.iteri (fun k t ->
        (try
          let x', y = ok (xstep (n_of_string max) !x (parse_xop !x.x_st t)) in
          x := x';
          let st = ref !x.x_st in
          let specs = ref [] and inners = ref [] in
          List.iteri (fun i bl ->
            let s, n = buf_obs !st (Printf.sprintf "q%d" i) (QSize (nat i)) (QEmpty (nat i))
                (QIOVec (nat i)) bl in
            specs := s :: !specs; inners := n :: !inners) !st.s_q;
          List.iteri (fun j bl ->
            let s, n = buf_obs !st (Printf.sprintf "s%d" j) (SSize (nat j)) (SEmpty (nat j))
                (SIOVec (nat j)) bl in
            specs := s :: !specs; inners := n :: !inners) !st.s_s;
          Buffer.add_string b (Printf.sprintf ";o%d=%s/%s/acct%s,held-nonempty%s/assoc%s,reg%s" k
            (xout_s t y) (String.concat "/" (List.rev !specs)) (bool01 (acct_ok !st))
            (bool01 (noempty_ok !st)) (bool01 !x.x_assoc) (bool01 !x.x_reg));
          Buffer.add_string b (Printf.sprintf ";i%d=%s/free%d,alloc%d" k
            (String.concat "/" (List.rev !inners)) (int_of_nat (free_blocks !st))
            (int_of_nat (blocks_allocated !st)))
        with Hazard h ->
          Buffer.add_string b (Printf.sprintf ";o%d=HAZARD:%s" k h); raise Exit)) ops
    with Exit -> ());
    Buffer.contents b
  | label :: bs :: nq :: ns :: ops ->
    let nq = ios nq and ns = ios ns in
    let st = ref (init (nat (ios bs)) (nat nq) (nat ns)) in
    let b = Buffer.create 1024 in
    Buffer.add_string b ("class=" ^ label);
    (try
      List.iteri (fun k t ->
        (try
          let st', o = ok (step !st (parse_op_st !st t)) in
          st := st';
          let specs = ref [] and inners = ref [] in
          List.iteri (fun i bl ->
            let s, n = buf_obs !st (Printf.sprintf "q%d" i) (QSize (nat i)) (QEmpty (nat i))
                (QIOVec (nat i)) bl in
            specs := s :: !specs; inners := n :: !inners) !st.s_q;
          List.iteri (fun j bl ->
            let s, n = buf_obs !st (Printf.sprintf "s%d" j) (SSize (nat j)) (SEmpty (nat j))
                (SIOVec (nat j)) bl in
            specs := s :: !specs; inners := n :: !inners) !st.s_s;
          Buffer.add_string b (Printf.sprintf ";o%d=%s/%s/acct%s,held-nonempty%s" k (out_tok t o)
            (String.concat "/" (List.rev !specs)) (bool01 (acct_ok !st)) (bool01 (noempty_ok !st)));
          Buffer.add_string b (Printf.sprintf ";i%d=%s/free%d,alloc%d" k
            (String.concat "/" (List.rev !inners)) (int_of_nat (free_blocks !st))
            (int_of_nat (blocks_allocated !st)))
        with Hazard h ->
          Buffer.add_string b (Printf.sprintf ";o%d=HAZARD:%s" k h); raise Exit)) ops
    with Exit -> ());
    Buffer.contents b
  | _ -> "bad-payload"
let () = vh_run handle
