(* C15 round 6: several pools WITH Purge, for histories in which no block migrates (every move is
   between buffers bound to the same pool): the one-pool accounting clause then holds exactly for
   every pool, Purge included. *)
From OlaBase Require Import Bytes.
From Coq Require Import Arith.
From C15 Require Import Model Spec ProofsBlock Proofs ProofsHetero Multi MultiSpec ProofsMulti.
Local Open Scope nat_scope.

(* operations allowed: everything of op_ok, Purge included, moves only within one pool *)
Definition op_ok3 (qp sp : list nat) (o : op) : Prop :=
  op_ok (length qp) (length sp) o /\
  match o with
  | QAppendMove i j => nth i qp 0 = nth j qp 0
  | SMove j i => nth j sp 0 = nth i qp 0
  | _ => True
  end.

Lemma upd_same_nth_error {A} (l : list A) i x : nth_error l i = Some x -> upd l i x = l.
Proof.
  revert i; induction l as [|y l IH]; intros [|i] H; cbn [nth_error upd] in *; try discriminate.
  - now inversion H.
  - now rewrite IH.
Qed.

Lemma on_q_tags st i f st' y :
  on_q st i f = Ok (st', y) ->
  map fst (m_q st') = map fst (m_q st) /\ map fst (m_s st') = map fst (m_s st).
Proof.
  unfold on_q, get2. destruct (nth_error (m_q st) i) as [[k bl]|] eqn:E; cbn [bind]; [|discriminate].
  destruct (nth_error (m_pools st) k); cbn [bind]; [|discriminate].
  destruct (f p bl) as [[[p' bl'] y']| | |]; cbn [bind]; try discriminate.
  intros H. inversion H; subst. cbn [m_q m_s]. split; [|reflexivity].
  rewrite map_upd. cbn [fst]. apply upd_same_nth_error.
  rewrite nth_error_map, E. reflexivity.
Qed.
Lemma on_s_tags st j f st' y :
  on_s st j f = Ok (st', y) ->
  map fst (m_q st') = map fst (m_q st) /\ map fst (m_s st') = map fst (m_s st).
Proof.
  unfold on_s, get2. destruct (nth_error (m_s st) j) as [[k bl]|] eqn:E; cbn [bind]; [|discriminate].
  destruct (nth_error (m_pools st) k); cbn [bind]; [|discriminate].
  destruct (f p bl) as [[[p' bl'] y']| | |]; cbn [bind]; try discriminate.
  intros H. inversion H; subst. cbn [m_q m_s]. split; [reflexivity|].
  rewrite map_upd. cbn [fst]. apply upd_same_nth_error.
  rewrite nth_error_map, E. reflexivity.
Qed.

Lemma step2_tags st o st' y :
  step2 st o = Ok (st', y) ->
  map fst (m_q st') = map fst (m_q st) /\ map fst (m_s st') = map fst (m_s st).
Proof.
  destruct o; unfold step2; try apply on_q_tags; try apply on_s_tags.
  - (* QAppendMove *)
    destruct (i =? j); [discriminate|]. unfold get2.
    destruct (nth_error (m_q st) i) as [[ka a]|] eqn:Ea; cbn [bind]; [|discriminate].
    destruct (nth_error (m_q st) j) as [[kb b]|] eqn:Eb; cbn [bind]; [|discriminate].
    intros H. inversion H; subst. cbn [m_q m_s]. split; [|reflexivity].
    rewrite !map_upd. cbn [fst].
    rewrite (upd_same_nth_error (map fst (m_q st)) i ka) by (rewrite nth_error_map, Ea; reflexivity).
    apply upd_same_nth_error. rewrite nth_error_map, Eb. reflexivity.
  - (* SMove *)
    unfold get2.
    destruct (nth_error (m_s st) j) as [[ks s]|] eqn:Es; cbn [bind]; [|discriminate].
    destruct (nth_error (m_q st) i) as [[kq q]|] eqn:Eq; cbn [bind]; [|discriminate].
    intros H. inversion H; subst. cbn [m_q m_s]. rewrite !map_upd. cbn [fst]. split.
    + apply upd_same_nth_error. rewrite nth_error_map, Eq. reflexivity.
    + apply upd_same_nth_error. rewrite nth_error_map, Es. reflexivity.
  - (* PoolPurge *)
    destruct (forallb _ _); [|discriminate]. intros H. inversion H; subst. split; reflexivity.
Qed.

Lemma sumf_purge l :
  Forall (fun p => length (p_free p) <= p_alloc p) l ->
  sumf p_alloc (map p_purge l) + sumf (fun p => length (p_free p)) l = sumf p_alloc l /\
  sumf (fun p => length (p_free p)) (map p_purge l) = 0.
Proof.
  unfold sumf. induction 1 as [|p l Hp Hl [IH1 IH2]]; cbn [map fold_right]; [split; reflexivity|].
  unfold p_purge at 1 3. cbn [p_alloc p_free length]. split; lia.
Qed.

Section Purge.
Variables (bss qp sp : list nat).
Notation np := (length bss).
Notation nq := (length qp).
Notation ns := (length sp).

(* the invariant of migration-free histories: no drift, and the buffers keep their pools *)
Definition K (st : state2) : Prop :=
  I2 np nq ns st (fun _ => 0%Z) /\ map fst (m_q st) = qp /\ map fst (m_s st) = sp.

Lemma tag_q st i : map fst (m_q st) = qp -> tag (m_q st) i = nth i qp 0.
Proof. intros <-. unfold tag. exact (eq_sym (map_nth fst (m_q st) dq i)). Qed.
Lemma tag_s st j : map fst (m_s st) = sp -> tag (m_s st) j = nth j sp 0.
Proof. intros <-. unfold tag. exact (eq_sym (map_nth fst (m_s st) dq j)). Qed.

Lemma op_eq_purge (o : op) : o = PoolPurge \/ o <> PoolPurge.
Proof. destruct o; (left; reflexivity) || (right; discriminate). Qed.

Lemma step3_sim st o :
  K st -> op_ok3 qp sp o ->
  exists st' y, step2 st o = Ok (st', y) /\ K st' /\ astep (abs2 st) o = (abs2 st', out_abs y).
Proof.
  intros (HI & Hq & Hs) [Hok Hmv].
  destruct (op_eq_purge o) as [->|Hne].
  - (* Purge *)
    assert (Hle : Forall (fun p => length (p_free p) <= p_alloc p) (m_pools st)).
    { apply Forall_forall. intros p Hp. destruct (In_nth _ _ dp Hp) as (k & Hk & <-).
      rewrite (i_np _ _ _ _ _ HI) in Hk. pose proof (i_pool _ _ _ _ _ HI k Hk) as E.
      unfold alloc2, free2 in E. fold dp in E. lia. }
    unfold step2.
    replace (forallb _ (m_pools st)) with true.
    2:{ symmetry. apply forallb_forall. intros p Hp. apply Nat.leb_le. exact (proj1 (Forall_forall _ _) Hle _ Hp). }
    eexists _, _. split; [reflexivity|]. split; [|reflexivity].
    destruct (sumf_purge _ Hle) as [S1 S2].
    destruct HI as [Hnp Hps Hnq Hqq Hns Hss Ht Hp].
    split; [|split; assumption]. constructor; cbn [m_pools m_q m_s]; try assumption.
    + now rewrite map_length.
    + apply Forall_forall. intros p Hin. apply in_map_iff in Hin. destruct Hin as (p0 & <- & Hin0).
      destruct (proj1 (Forall_forall _ _) Hps _ Hin0) as [Hb _]. split; [exact Hb|constructor].
    + unfold total_alloc, total_free, total_held in *. cbn [m_pools m_q m_s]. lia.
    + intros k Hk. specialize (Hp k Hk). unfold alloc2, free2 in *. rewrite !held2_sumf in *.
      cbn [m_pools m_q m_s] in *.
      change (p_new 0) with (p_purge (p_new 0)) at 1 2. rewrite !(map_nth p_purge).
      unfold p_purge. cbn [p_alloc p_free length].
      pose proof (proj1 (Forall_forall _ _) Hle (nth k (m_pools st) (p_new 0))) as Hl.
      specialize (Hl ltac:(apply nth_In; lia)). lia.
  - (* everything else: no migration *)
    destruct (step2_sim np nq ns st _ o HI (conj Hok Hne)) as (st' & y & E & HI' & A).
    exists st', y. split; [exact E|]. split; [|exact A].
    destruct (step2_tags _ _ _ _ E) as [T1 T2]. split; [|split; congruence].
    apply (I2_ext _ _ _ _ _ _ (fun k => eq_refl (0 + mig_delta st o k)%Z)) in HI'.
    eapply I2_ext; [|exact HI']. intros k. cbn beta.
    destruct o; cbn [mig_delta]; try reflexivity.
    + rewrite !(tag_q st _ Hq), Hmv. lia.
    + rewrite (tag_q st _ Hq), (tag_s st _ Hs), Hmv. lia.
Qed.

Lemma run3_sim : forall ops st,
  K st -> Forall (op_ok3 qp sp) ops ->
  exists st' outs, run2 st ops = Ok (st', outs) /\ K st' /\
                   arun (abs2 st) ops = (abs2 st', map out_abs outs).
Proof.
  induction ops as [|o r IH]; intros st H Hok.
  { exists st, []. split; [reflexivity|]. split; [assumption|reflexivity]. }
  inversion Hok as [|? ? Ho Hr]; subst.
  destruct (step3_sim st o H Ho) as (st1 & x & E1 & H1 & A1).
  destruct (IH st1 H1 Hr) as (st2 & xs & E2 & H2 & A2).
  exists st2, (x :: xs). cbn [run2 arun map]. rewrite E1. cbn [bind]. rewrite E2. cbn [bind].
  rewrite A1, A2. split; [reflexivity|]. split; [assumption|reflexivity].
Qed.

End Purge.

Lemma purge_exact bss qp sp ops :
  Forall (fun bs => 1 <= bs) bss ->
  Forall (fun k => k < length bss) qp -> Forall (fun k => k < length bss) sp ->
  Forall (op_ok3 qp sp) ops ->
  exists st outs, run2 (init2 bss qp sp) ops = Ok (st, outs) /\
    arun (ainit (length qp) (length sp)) ops = (abs2 st, map out_abs outs) /\
    (forall k, k < length bss -> alloc2 st k = free2 st k + held2 st k) /\
    total_alloc st = total_free st + total_held st.
Proof.
  intros Hb Hq Hs Hok.
  assert (K0 : K bss qp sp (init2 bss qp sp)).
  { split; [exact (I2_init bss qp sp Hb Hq Hs)|]. unfold init2. cbn [m_q m_s]. rewrite !map_map. cbn [fst].
    split; apply map_id. }
  destruct (run3_sim bss qp sp ops _ K0 Hok) as (st & outs & E & (HI & _ & _) & A).
  exists st, outs. split; [exact E|]. split; [rewrite <- abs2_init with (bss := bss); exact A|].
  split; [|exact (i_total _ _ _ _ _ HI)].
  intros k Hk. pose proof (i_pool _ _ _ _ _ HI k Hk). lia.
Qed.
