From OlaBase Require Import Bytes.
From Coq Require Import Arith.
From C15 Require Import Model Spec Sender ProofsBlock Len32.
Local Open Scope nat_scope.

Lemma natlen_clamp n bound : natlen (N.of_nat n) bound = clamp n bound.
Proof.
  unfold natlen, clamp. destruct (N.ltb_spec (N.of_nat bound) (N.of_nat n)), (Nat.ltb_spec bound n);
    try lia; try reflexivity; try apply Nat2N.id.
Qed.

(* a length above the bytes present behaves as "bytes present + 1" *)
Lemma buf_read_big : forall bl p n m,
  buf_size bl < n -> buf_size bl < m -> buf_read p bl n = buf_read p bl m.
Proof.
  induction bl as [|b r IH]; intros p n m Hn Hm; [reflexivity|].
  cbn [buf_read buf_size] in *.
  destruct (Nat.eqb_spec n 0); [lia|]. destruct (Nat.eqb_spec m 0); [lia|].
  unfold b_copy. fold (b_size b).
  rewrite (Nat.min_r n (b_size b)), (Nat.min_r m (b_size b)) by lia.
  unfold mem_read. destruct (b_first b + b_size b <=? length (b_data b)) eqn:E; [|reflexivity].
  cbn [bind]. apply Nat.leb_le in E.
  rewrite firstn_length, skipn_length. rewrite (Nat.min_l (b_size b)) by lia.
  destruct (b_pop_front b (b_size b)) as [b' k].
  destruct (b_empty b'); rewrite (IH _ (n - b_size b) (m - b_size b)) by lia; reflexivity.
Qed.

Lemma buf_read_clamp p bl n : buf_read p bl n = buf_read p bl (clamp n (buf_size bl)).
Proof.
  unfold clamp. destruct (Nat.ltb_spec (buf_size bl) n); [|reflexivity]. apply buf_read_big; lia.
Qed.

Lemma q_peek_big : forall bl n m,
  buf_size bl < n -> buf_size bl < m -> q_peek bl n = q_peek bl m.
Proof.
  induction bl as [|b r IH]; intros n m Hn Hm; [reflexivity|].
  cbn [q_peek buf_size] in *.
  destruct (Nat.eqb_spec n 0); [lia|]. destruct (Nat.eqb_spec m 0); [lia|].
  unfold b_copy. fold (b_size b).
  rewrite (Nat.min_r n (b_size b)), (Nat.min_r m (b_size b)) by lia.
  unfold mem_read. destruct (b_first b + b_size b <=? length (b_data b)) eqn:E; [|reflexivity].
  cbn [bind]. apply Nat.leb_le in E.
  rewrite firstn_length, skipn_length. rewrite (Nat.min_l (b_size b)) by lia.
  rewrite (IH (n - b_size b) (m - b_size b)) by lia. reflexivity.
Qed.

Lemma buf_pop_big : forall bl p n m,
  buf_size bl < n -> buf_size bl < m -> buf_pop p bl n = buf_pop p bl m.
Proof.
  induction bl as [|b r IH]; intros p n m Hn Hm; [reflexivity|].
  cbn [buf_pop buf_size] in *.
  destruct (Nat.eqb_spec n 0); [lia|]. destruct (Nat.eqb_spec m 0); [lia|].
  unfold b_pop_front. fold (b_size b).
  rewrite (Nat.min_r n (b_size b)), (Nat.min_r m (b_size b)) by lia.
  destruct (b_first b + b_size b =? b_last b); cbn [fst snd];
    match goal with |- context [b_empty ?x] => destruct (b_empty x) end;
    rewrite (IH _ (n - b_size b) (m - b_size b)) by lia; reflexivity.
Qed.

Lemma mb_read_big m n k :
  m_size m - m_cursor m < n -> m_size m - m_cursor m < k -> mb_read m n = mb_read m k.
Proof. intros Hn Hk. unfold mb_read. now rewrite !Nat.min_l by lia. Qed.

Lemma mb_run_clamp : forall script m,
  mb_run m script = mb_run m (map (clamp_mread (m_size m)) script).
Proof.
  induction script as [|r rest IH]; intros m; [reflexivity|].
  cbn [mb_run map].
  assert (E : mb_read m (mread_len r) = mb_read m (mread_len (clamp_mread (m_size m) r))).
  { destruct r as [n|n|n]; cbn [clamp_mread mread_len]; unfold clamp;
      (destruct (Nat.ltb_spec (m_size m) n); [apply mb_read_big; lia|reflexivity]). }
  rewrite <- E. unfold mb_read at 1 2.
  destruct (mem_read _ _ _) as [o| | |]; cbn [bind]; try reflexivity.
  rewrite (IH (mkM (m_data m) (m_size m) _)). reflexivity.
Qed.

(* the operations of the state model *)
Lemma step_clamp st o :
  step st o = step st
    match o with
    | QRead i n => QRead i (clamp n (buf_size (nth i (s_q st) [])))
    | QReadStr i n => QReadStr i (clamp n (buf_size (nth i (s_q st) [])))
    | QPeek i n => QPeek i (clamp n (buf_size (nth i (s_q st) [])))
    | QPop i n => QPop i (clamp n (buf_size (nth i (s_q st) [])))
    | SRead j n => SRead j (clamp n (buf_size (nth j (s_s st) [])))
    | SReadStr j n => SReadStr j (clamp n (buf_size (nth j (s_s st) [])))
    | SPop j n => SPop j (clamp n (buf_size (nth j (s_s st) [])))
    | o => o
    end.
Proof.
  assert (G : forall l i, match nth_error l i with Some b => Ok b | None => @Undef buffer end = getb l i)
    by reflexivity.
  assert (N0 : forall (l : list buffer) i b, nth_error l i = Some b -> nth i l [] = b)
    by (intros; now apply nth_error_nth).
  destruct o; try reflexivity; unfold step, getb;
    match goal with |- context [nth_error ?l ?i] => destruct (nth_error l i) as [bl|] eqn:E end;
    cbn [bind]; try reflexivity; rewrite (N0 _ _ _ E).
  - now rewrite <- buf_read_clamp.
  - rewrite !buf_read_str_eq. now rewrite <- buf_read_clamp.
  - unfold clamp. destruct (Nat.ltb_spec (buf_size bl) n); [|reflexivity].
    rewrite (q_peek_big bl n (S (buf_size bl))) by lia. reflexivity.
  - unfold clamp. destruct (Nat.ltb_spec (buf_size bl) n); [|reflexivity].
    rewrite (buf_pop_big bl _ n (S (buf_size bl))) by lia. reflexivity.
  - now rewrite <- buf_read_clamp.
  - rewrite !buf_read_str_eq. now rewrite <- buf_read_clamp.
  - unfold clamp. destruct (Nat.ltb_spec (buf_size bl) n); [|reflexivity].
    rewrite (buf_pop_big bl _ n (S (buf_size bl))) by lia. reflexivity.
Qed.

(* PerformWrite: the kernel never takes more than it is offered *)
Lemma pwrite_clamp max x k :
  xstep max x (PWrite (Some k)) =
  xstep max x (PWrite (Some (clamp k (buf_size (nth 0 (s_q (x_st x)) []))))).
Proof.
  unfold xstep. destruct (getb (s_q (x_st x)) 0) as [bl| | |] eqn:E; cbn [bind]; try reflexivity.
  assert (nth 0 (s_q (x_st x)) [] = bl) as ->.
  { unfold getb in E. destruct (nth_error (s_q (x_st x)) 0) eqn:E1; [|discriminate].
    inversion E; subst. now apply nth_error_nth. }
  destruct (buf_iovec bl) as [v| | |] eqn:Ev; cbn [bind]; try reflexivity.
  assert (Hl : length (concat v) <= buf_size bl).
  { clear E. revert v Ev. induction bl as [|b r IH]; intros v Ev; cbn [buf_iovec] in Ev.
    - inversion Ev. cbn. lia.
    - unfold b_view, mem_read in Ev. destruct (_ <=? _); cbn [bind] in Ev; [|discriminate].
      destruct (buf_iovec r) as [vs| | |]; cbn [bind] in Ev; try discriminate. inversion Ev; subst.
      cbn [concat buf_size]. rewrite app_length, firstn_length. specialize (IH vs eq_refl). lia. }
  unfold clamp. destruct (Nat.ltb_spec (buf_size bl) k); [|reflexivity].
  rewrite !Nat.min_r by lia. reflexivity.
Qed.

(* the same for the several-pools model *)
From C15 Require Import Multi MultiSpec.
Lemma step2_clamp st o :
  step2 st o = step2 st
    match o with
    | QRead i n => QRead i (clamp n (buf_size (blk (m_q st) i)))
    | QReadStr i n => QReadStr i (clamp n (buf_size (blk (m_q st) i)))
    | QPeek i n => QPeek i (clamp n (buf_size (blk (m_q st) i)))
    | QPop i n => QPop i (clamp n (buf_size (blk (m_q st) i)))
    | SRead j n => SRead j (clamp n (buf_size (blk (m_s st) j)))
    | SReadStr j n => SReadStr j (clamp n (buf_size (blk (m_s st) j)))
    | SPop j n => SPop j (clamp n (buf_size (blk (m_s st) j)))
    | o => o
    end.
Proof.
  assert (N0 : forall (l : list (nat * buffer)) i kb, nth_error l i = Some kb -> nth i l dq = kb)
    by (intros; now apply nth_error_nth).
  destruct o; try reflexivity; unfold step2, on_q, on_s, get2, blk;
    match goal with |- context [nth_error ?l ?i] => destruct (nth_error l i) as [[k bl]|] eqn:E end;
    cbn [bind]; try reflexivity; rewrite (N0 _ _ _ E); cbn [snd];
    destruct (nth_error (m_pools st) k) as [p|]; cbn [bind]; try reflexivity.
  - unfold m_read. now rewrite <- buf_read_clamp.
  - unfold m_read_str. rewrite !buf_read_str_eq. now rewrite <- buf_read_clamp.
  - unfold clamp. destruct (Nat.ltb_spec (buf_size bl) n); [|reflexivity].
    rewrite (q_peek_big bl n (S (buf_size bl))) by lia. reflexivity.
  - unfold m_pop, clamp. destruct (Nat.ltb_spec (buf_size bl) n); [|reflexivity].
    rewrite (buf_pop_big bl _ n (S (buf_size bl))) by lia. reflexivity.
  - unfold m_read. now rewrite <- buf_read_clamp.
  - unfold m_read_str. rewrite !buf_read_str_eq. now rewrite <- buf_read_clamp.
  - unfold m_pop, clamp. destruct (Nat.ltb_spec (buf_size bl) n); [|reflexivity].
    rewrite (buf_pop_big bl _ n (S (buf_size bl))) by lia. reflexivity.
Qed.
