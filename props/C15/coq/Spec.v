(* C15 abstract specification, written from the property text: a queue / stack is the list of
   bytes it holds, front first.  Queue writes go to the back, stack writes to the front, every
   read / pop takes from the front, block moves concatenate, scatter-gather export shows the
   whole content, and nothing else (pool, block layout) exists at this level. *)
From OlaBase Require Import Bytes.
From C15 Require Import Model.
Local Open Scope nat_scope.

Record astate := mkA { a_q : list (list N); a_s : list (list N) }.

Definition ainit (nq ns : nat) : astate := mkA (repeat [] nq) (repeat [] ns).

Definition geta (l : list (list N)) (i : nat) : list N := nth i l [].

Definition is_nil {A} (l : list A) : bool := match l with [] => true | _ => false end.

Definition aq (a : astate) (i : nat) (c : list N) : astate := mkA (upd (a_q a) i c) (a_s a).
Definition as_ (a : astate) (j : nat) (c : list N) : astate := mkA (a_q a) (upd (a_s a) j c).

Definition astep (a : astate) (o : op) : astate * out :=
  match o with
  | QWrite i d => (aq a i (geta (a_q a) i ++ d), ONone)
  | QWriteBE i w v => (aq a i (geta (a_q a) i ++ be_bytes w v), ONone)
  | QRead i n | QReadStr i n =>
    let c := geta (a_q a) i in (aq a i (skipn n c), OBytes (firstn n c))
  | QPeek i n => (a, OBytes (firstn n (geta (a_q a) i)))
  | QPop i n => (aq a i (skipn n (geta (a_q a) i)), ONone)
  | QIOVec i => (a, OBytes (geta (a_q a) i))
  | QAppendMove i j =>
    (mkA (upd (upd (a_q a) i (geta (a_q a) i ++ geta (a_q a) j)) j []) (a_s a), ONone)
  | QClear i => (aq a i [], ONone)
  | QSize i => (a, ONum (length (geta (a_q a) i)))
  | QEmpty i => (a, OBool (is_nil (geta (a_q a) i)))
  | SWrite j d => (as_ a j (d ++ geta (a_s a) j), ONone)
  | SWriteBE j w v => (as_ a j (be_bytes w v ++ geta (a_s a) j), ONone)
  | SRead j n | SReadStr j n =>
    let c := geta (a_s a) j in (as_ a j (skipn n c), OBytes (firstn n c))
  | SPop j n => (as_ a j (skipn n (geta (a_s a) j)), ONone)
  | SIOVec j => (a, OBytes (geta (a_s a) j))
  | SMove j i =>
    (mkA (upd (a_q a) i (geta (a_q a) i ++ geta (a_s a) j)) (upd (a_s a) j []), ONone)
  | SDestroy j => (as_ a j [], ONone)
  | SSize j => (a, ONum (length (geta (a_s a) j)))
  | SEmpty j => (a, OBool (is_nil (geta (a_s a) j)))
  | PoolPurge => (a, ONone)
  end.

Fixpoint arun (a : astate) (ops : list op) : astate * list out :=
  match ops with
  | [] => (a, [])
  | o :: r => let '(a1, x) := astep a o in let '(a2, xs) := arun a1 r in (a2, x :: xs)
  end.

(* the scatter-gather vectors are compared with the abstract content after concatenation *)
Definition out_abs (o : out) : out :=
  match o with OVec l => OBytes (concat l) | _ => o end.

(* an operation names buffers that exist; a queue is not moved onto itself *)
Definition op_ok (nq ns : nat) (o : op) : Prop :=
  match o with
  | QWrite i _ | QWriteBE i _ _ | QRead i _ | QReadStr i _ | QPeek i _ | QPop i _ | QIOVec i
  | QClear i | QSize i | QEmpty i => i < nq
  | QAppendMove i j => i < nq /\ j < nq /\ i <> j
  | SWrite j _ | SWriteBE j _ _ | SRead j _ | SReadStr j _ | SPop j _ | SIOVec j | SDestroy j
  | SSize j | SEmpty j => j < ns
  | SMove j i => j < ns /\ i < nq
  | PoolPurge => True
  end.

(* ------------------------------------------------------------------ written / consumed ledger *)
(* a buffer: queue i or stack j *)
Inductive kid := KQ (i : nat) | KS (j : nat).

Definition kid_ok (nq ns : nat) (k : kid) : Prop :=
  match k with KQ i => i < nq | KS j => j < ns end.

Definition content (a : astate) (k : kid) : list N :=
  match k with KQ i => geta (a_q a) i | KS j => geta (a_s a) j end.

Definition isq (k : kid) (i : nat) : bool := match k with KQ i' => i' =? i | KS _ => false end.
Definition iss (k : kid) (j : nat) : bool := match k with KS j' => j' =? j | KQ _ => false end.

(* bytes that operation o, executed in abstract state a, puts INTO buffer k *)
Definition put (a : astate) (o : op) (k : kid) : nat :=
  match o with
  | QWrite i d => if isq k i then length d else 0
  | QWriteBE i w v => if isq k i then length (be_bytes w v) else 0
  | QAppendMove i j => if isq k i then length (geta (a_q a) j) else 0
  | SMove j i => if isq k i then length (geta (a_s a) j) else 0
  | SWrite j d => if iss k j then length d else 0
  | SWriteBE j w v => if iss k j then length (be_bytes w v) else 0
  | _ => 0
  end.

(* bytes that operation o takes OUT OF buffer k: the bytes a read returns, the bytes a pop
   removes (at most what is there), everything on Clear / destruction / being moved away *)
Definition took (a : astate) (o : op) (k : kid) : nat :=
  match o with
  | QRead i n | QReadStr i n | QPop i n =>
    if isq k i then Nat.min n (length (geta (a_q a) i)) else 0
  | QClear i => if isq k i then length (geta (a_q a) i) else 0
  | QAppendMove i j => if isq k j then length (geta (a_q a) j) else 0
  | SRead j n | SReadStr j n | SPop j n =>
    if iss k j then Nat.min n (length (geta (a_s a) j)) else 0
  | SDestroy j => if iss k j then length (geta (a_s a) j) else 0
  | SMove j i => if iss k j then length (geta (a_s a) j) else 0
  | _ => 0
  end.

(* (bytes written into k, bytes consumed from k) along a history *)
Fixpoint ledger (a : astate) (ops : list op) (k : kid) : nat * nat :=
  match ops with
  | [] => (0, 0)
  | o :: r => let '(w, c) := ledger (fst (astep a o)) r k in (put a o k + w, took a o k + c)
  end.
