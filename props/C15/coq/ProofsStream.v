(* C15 round 2 proofs: BigEndianOutputStream -> IOQueue -> BigEndianInputStream round trip, and
   the same over a MemoryBuffer. *)
From OlaBase Require Import Bytes.
From Coq Require Import Arith.
From C15 Require Import Model Spec Sender ProofsBlock Proofs ProofsSender.
Local Open Scope nat_scope.

Definition wop (i : nat) (wv : nat * N) : xop := UOp (QWriteBE i (fst wv) (snd wv)).
Definition rop (i : nat) (wv : nat * N) : xop := QIn i (fst wv).
Definition rres (wv : nat * N) : xout := XIn true (snd wv mod 256 ^ N.of_nat (fst wv))%N.
Definition wire (vals : list (nat * N)) : list N := concat (map (fun wv => be_bytes (fst wv) (snd wv)) vals).

Lemma xrun_app max : forall a b x,
  xrun max x (a ++ b) =
  '(x1, y1) <- xrun max x a ;; '(x2, y2) <- xrun max x1 b ;; Ok (x2, y1 ++ y2).
Proof.
  induction a as [|o a IH]; intros b x; cbn [app xrun].
  - cbn [bind]. destruct (xrun max x b) as [[x2 y2]| | |]; reflexivity.
  - destruct (xstep max x o) as [[x1 y]| | |]; cbn [bind]; try reflexivity.
    rewrite IH. destruct (xrun max x1 a) as [[x2 y2]| | |]; cbn [bind]; try reflexivity.
    destruct (xrun max x2 b) as [[x3 y3]| | |]; reflexivity.
Qed.

Lemma axrun_app max : forall a b ax,
  axrun max ax (a ++ b) =
  (fst (axrun max (fst (axrun max ax a)) b), snd (axrun max ax a) ++ snd (axrun max (fst (axrun max ax a)) b)).
Proof.
  induction a as [|o a IH]; intros b ax; cbn [app axrun].
  - cbn [fst snd app]. now destruct (axrun max ax b).
  - destruct (axstep max ax o) as [a1 y]. rewrite IH.
    destruct (axrun max a1 a) as [a2 ys]. cbn [fst snd].
    destruct (axrun max a2 b) as [a3 zs]. reflexivity.
Qed.

Section RT.
Variables nq ns i : nat.
Variable max : N.
Hypothesis Hi : i < nq.

Lemma axstep_W ax w v :
  axstep max ax (wop i (w, v)) =
  (mkAX (aq (ax_a ax) i (geta (a_q (ax_a ax)) i ++ be_bytes w v)) (ax_assoc ax) (ax_queued ax) (ax_sent ax),
   XUser ONone).
Proof. reflexivity. Qed.

Lemma axstep_R ax w v :
  axstep max ax (rop i (w, v)) =
  (mkAX (aq (ax_a ax) i (skipn w (geta (a_q (ax_a ax)) i))) (ax_assoc ax) (ax_queued ax) (ax_sent ax),
   XIn (length (firstn w (geta (a_q (ax_a ax)) i)) =? w) (be_value (firstn w (geta (a_q (ax_a ax)) i)))).
Proof. reflexivity. Qed.

Lemma axrun_W : forall vals ax,
  awf nq ns (ax_a ax) ->
  snd (axrun max ax (map (wop i) vals)) = map (fun _ => XUser ONone) vals /\
  geta (a_q (ax_a (fst (axrun max ax (map (wop i) vals))))) i = geta (a_q (ax_a ax)) i ++ wire vals /\
  awf nq ns (ax_a (fst (axrun max ax (map (wop i) vals)))).
Proof.
  induction vals as [|[w v] vals IH]; intros ax Hw.
  { cbn. rewrite app_nil_r. tauto. }
  cbn [map axrun]. rewrite axstep_W.
  set (ax1 := mkAX _ _ _ _).
  assert (Hw1 : awf nq ns (ax_a ax1)).
  { destruct Hw as [Hq Hs]. unfold ax1, aq, awf. cbn [ax_a a_q a_s]. now rewrite upd_length. }
  destruct (IH ax1 Hw1) as (Ho & Hc & Hw2).
  destruct (axrun max ax1 (map (wop i) vals)) as [a2 ys]. cbn [fst snd] in *.
  split; [now rewrite Ho|]. split; [|exact Hw2].
  rewrite Hc. unfold ax1, aq. cbn [ax_a a_q].
  rewrite geta_upd_same by (destruct Hw; lia).
  unfold wire. cbn [map concat fst snd]. now rewrite app_assoc.
Qed.

Lemma axrun_R : forall vals ax rest,
  awf nq ns (ax_a ax) ->
  geta (a_q (ax_a ax)) i = wire vals ++ rest ->
  snd (axrun max ax (map (rop i) vals)) = map rres vals /\
  geta (a_q (ax_a (fst (axrun max ax (map (rop i) vals))))) i = rest.
Proof.
  induction vals as [|[w v] vals IH]; intros ax rest Hw Hc.
  { cbn. tauto. }
  cbn [map axrun]. rewrite axstep_R.
  set (ax1 := mkAX _ _ _ _).
  assert (Hw1 : awf nq ns (ax_a ax1)).
  { destruct Hw as [Hq Hs]. unfold ax1, aq, awf. cbn [ax_a a_q a_s]. now rewrite upd_length. }
  unfold wire in Hc. cbn [map concat fst snd] in Hc. fold (wire vals) in Hc. rewrite <- app_assoc in Hc.
  assert (Hf : firstn w (geta (a_q (ax_a ax)) i) = be_bytes w v).
  { rewrite Hc, firstn_app, be_bytes_length, Nat.sub_diag. cbn [firstn].
    rewrite app_nil_r. rewrite <- (be_bytes_length w v) at 1. apply firstn_all. }
  assert (Hs : skipn w (geta (a_q (ax_a ax)) i) = wire vals ++ rest).
  { rewrite Hc, skipn_app, be_bytes_length, Nat.sub_diag. cbn [skipn].
    rewrite <- (be_bytes_length w v) at 1. now rewrite skipn_all. }
  destruct (IH ax1 rest Hw1) as (Ho & Hr).
  { unfold ax1, aq. cbn [ax_a a_q]. rewrite geta_upd_same by (destruct Hw; lia). exact Hs. }
  destruct (axrun max ax1 (map (rop i) vals)) as [a2 ys]. cbn [fst snd] in *.
  split; [|exact Hr]. rewrite Ho. f_equal.
  rewrite Hf, be_bytes_length, Nat.eqb_refl, be_value_bytes. reflexivity.
Qed.

End RT.

Lemma stream_roundtrip bs nq ns max pre vals i x0 outs0 :
  1 <= bs -> 1 <= nq -> Forall (xop_ok nq ns) pre -> i < nq -> i <> 0 ->
  xrun max (xinit bs nq ns) pre = Ok (x0, outs0) ->
  abs_buf (nth i (s_q (x_st x0)) []) = [] ->
  exists x1 outs,
    xrun max x0 (map (wop i) vals ++ map (rop i) vals) = Ok (x1, outs) /\
    map xout_abs outs = map (fun _ => XUser ONone) vals ++ map rres vals /\
    abs_buf (nth i (s_q (x_st x1)) []) = [].
Proof.
  intros Hbs Hnq Hpre Hi Hi0 E0 Hempty.
  assert (R0 : xrel (xinit bs nq ns) (axinit nq ns)).
  { unfold xrel, xinit, axinit. cbn [x_st x_assoc x_reg ax_a ax_assoc]. now rewrite abs_init. }
  destruct (xrun_sim bs nq ns max Hbs Hnq pre (xinit bs nq ns) (axinit nq ns) (inv_init bs nq ns) R0 Hpre) as (x0' & o' & E0' & Hinv0 & _ & Rel0).
  rewrite E0 in E0'. inversion E0'; subst x0' o'. clear E0'.
  set (ax0 := fst (axrun max (axinit nq ns) pre)) in *.
  assert (A0 : ainv nq ns (axinit nq ns)).
  { assert (G0 : geta (a_q (ainit nq ns)) 0 = []) by exact (content_ainit nq ns (KQ 0)).
    unfold ainv, axinit. cbn [ax_a ax_assoc ax_queued ax_sent]. rewrite G0.
    split; [|split; reflexivity]. unfold awf, ainit. cbn [a_q a_s]. now rewrite !repeat_length. }
  pose proof (ainv_run bs nq ns max Hbs Hnq pre _ A0 Hpre) as (Hw0 & _). fold ax0 in Hw0.
  assert (Hok2 : Forall (xop_ok nq ns) (map (wop i) vals ++ map (rop i) vals)).
  { apply Forall_app. split; apply Forall_forall; intros o Ho; apply in_map_iff in Ho;
      destruct Ho as ([w v] & <- & _); cbn [wop rop xop_ok op_ok op_q0_free fst snd]; tauto. }
  destruct (xrun_sim bs nq ns max Hbs Hnq _ x0 ax0 Hinv0 Rel0 Hok2) as (x1 & outs & E1 & Hinv1 & Ho & (Ra & _)).
  exists x1, outs. split; [exact E1|].
  rewrite axrun_app in Ho, Ra. cbn [fst snd] in Ho, Ra.
  destruct (axrun_W nq ns i max Hi vals ax0 Hw0) as (HoW & HcW & HwW).
  assert (Hc0 : geta (a_q (ax_a ax0)) i = []).
  { destruct Rel0 as (Ra0 & _). rewrite <- Ra0, geta_q. exact Hempty. }
  rewrite Hc0 in HcW. cbn [app] in HcW.
  destruct (axrun_R nq ns i max Hi vals _ [] HwW) as (HoR & HcR).
  { now rewrite HcW, app_nil_r. }
  split.
  - now rewrite <- Ho, HoW, HoR.
  - rewrite <- geta_q, Ra. exact HcR.
Qed.

(* the same values through a MemoryBuffer over the serialised bytes *)
Lemma membuf_roundtrip : forall vals rest,
  mb_run (mb_new (wire vals ++ rest)) (map (fun wv => MIn (fst wv)) vals) =
  Ok (map (fun wv => be_bytes (fst wv) (snd wv)) vals).
Proof.
  intros vals rest. rewrite mb_new_spec. f_equal.
  revert rest. induction vals as [|[w v] vals IH]; intros rest; [reflexivity|].
  unfold wire. cbn [map concat fst snd mb_spec mread_len]. fold (wire vals). rewrite <- app_assoc.
  rewrite firstn_app, skipn_app, be_bytes_length, Nat.sub_diag. cbn [firstn skipn].
  rewrite app_nil_r. rewrite <- (be_bytes_length w v) at 1 3. rewrite firstn_all, skipn_all. cbn [app].
  now rewrite IH.
Qed.
