From OlaBase Require Import Bytes.
From Coq Require Import Arith.
From C15 Require Import Model Cross.
Local Open Scope nat_scope.

(* bytes are still conserved, but pool A never gets its two blocks back, pool B holds two free
   blocks it never allocated, and B.Purge() wraps B's counter to 2^32 - 2 *)
Lemma crosspool_refuted :
  exists c, cross_run 4 8 [1; 2; 3; 4; 5; 6]%N 16 = Ok c /\
            c_read c = [1; 2; 3; 4; 5; 6]%N /\
            (c_allocA c, c_freeA c) = (2, 0) /\ (c_allocB c, c_freeB c, c_heldB c) = (0, 2, 0) /\
            cross_acct_ok c = false /\ c_allocB_purged c = 4294967294%N.
Proof. eexists. vm_compute. repeat split. Qed.
