(* C15 final round: IOQueue::Dump / IOStack::Dump (common/io/IOQueue.cpp, IOStack.cpp) as model
   functions.  Both only call const observers of the blocks, so the state is returned as it was;
   what they hand to ola::FormatData is modelled, the text layout of FormatData is not.
     IOQueue::Dump: length = Size(); tmp = new uint8_t[length]; length = Peek(tmp, length); FormatData(tmp, length)
     IOStack::Dump: length = sum of block sizes; for every block: offset += Copy(tmp + offset, length - offset)
   No proofs here. *)
From OlaBase Require Import Bytes.
From Coq Require Import Arith.
From C15 Require Import Model.
Local Open Scope nat_scope.

Definition q_dump (bl : buffer) : res (list N) := q_peek bl (buf_size bl).

Fixpoint s_dump_loop (bl : buffer) (remaining : nat) : res (list N) :=
  match bl with
  | [] => Ok []
  | b :: r => o <- b_copy b remaining ;; o' <- s_dump_loop r (remaining - length o) ;; Ok (o ++ o')
  end.
Definition s_dump (bl : buffer) : res (list N) := s_dump_loop bl (buf_size bl).

(* as operations on the state: (state afterwards, bytes given to FormatData) *)
Definition dump_q (st : state) (i : nat) : res (state * list N) :=
  bl <- getb (s_q st) i ;; o <- q_dump bl ;; Ok (st, o).
Definition dump_s (st : state) (j : nat) : res (state * list N) :=
  bl <- getb (s_s st) j ;; o <- s_dump bl ;; Ok (st, o).
