(* C15 proofs, part 1: list segments, MemoryBlock operations, and one lemma per buffer method
   (Write / Read / Read(string) / Peek / Pop / AsIOVec / Clear of IOQueue and IOStack) stating
   hazard freedom, the effect on the abstract content, preservation of the block / pool
   invariants and the block accounting. *)
From OlaBase Require Import Bytes.
From Coq Require Import Arith.
From C15 Require Import Model Spec.
Local Open Scope nat_scope.

(* ------------------------------------------------------------------ list segments *)
Lemma skipn_skipn' {A} (a b : nat) (l : list A) : skipn a (skipn b l) = skipn (b + a) l.
Proof.
  revert l; induction b as [|b IH]; intros l; [reflexivity|].
  destruct l; cbn [skipn plus].
  - now rewrite skipn_nil.
  - apply IH.
Qed.

Definition seg {A} (f n : nat) (l : list A) : list A := firstn n (skipn f l).

Lemma seg_length {A} f n (l : list A) : f + n <= length l -> length (seg f n l) = n.
Proof. unfold seg; intros. rewrite firstn_length, skipn_length. lia. Qed.

Lemma firstn_plus {A} a b (m : list A) : firstn (a + b) m = firstn a m ++ firstn b (skipn a m).
Proof.
  revert m; induction a as [|a IH]; intros m; [reflexivity|].
  destruct m; cbn [plus firstn skipn app].
  - now rewrite firstn_nil.
  - f_equal. apply IH.
Qed.

Lemma seg_split {A} f a b (l : list A) : seg f (a + b) l = seg f a l ++ seg (f + a) b l.
Proof. unfold seg. rewrite <- skipn_skipn'. apply firstn_plus. Qed.

Lemma seg_zero {A} f (l : list A) : seg f 0 l = [].
Proof. reflexivity. Qed.

Lemma seg_app_l {A} f n (l1 l2 : list A) : f + n <= length l1 -> seg f n (l1 ++ l2) = seg f n l1.
Proof.
  unfold seg; intros. rewrite skipn_app, firstn_app, skipn_length.
  replace (f - length l1) with 0 by lia. replace (n - (length l1 - f)) with 0 by lia.
  cbn [skipn firstn]. now rewrite app_nil_r.
Qed.

Lemma seg_app_r {A} f n (l1 l2 : list A) :
  length l1 <= f -> seg f n (l1 ++ l2) = seg (f - length l1) n l2.
Proof. unfold seg; intros. rewrite skipn_app, (skipn_all2 l1) by lia. reflexivity. Qed.

Lemma seg_firstn {A} f n k (l : list A) : f + n <= k -> seg f n (firstn k l) = seg f n l.
Proof. unfold seg; intros. rewrite skipn_firstn_comm, firstn_firstn. f_equal. lia. Qed.

Lemma seg_skipn {A} f n k (l : list A) : seg f n (skipn k l) = seg (k + f) n l.
Proof. unfold seg. now rewrite skipn_skipn'. Qed.

Lemma seg_firstn_inner {A} f n k (l : list A) : k <= n -> firstn k (seg f n l) = seg f k l.
Proof. unfold seg; intros. rewrite firstn_firstn. f_equal. lia. Qed.

Lemma seg_skipn_inner {A} f n k (l : list A) : k <= n -> skipn k (seg f n l) = seg (f + k) (n - k) l.
Proof.
  intros. replace n with (k + (n - k)) at 1 by lia. rewrite seg_split.
  rewrite skipn_app. rewrite skipn_all2.
  2:{ unfold seg. rewrite firstn_length. lia. }
  cbn [app]. unfold seg at 1. rewrite firstn_length.
  destruct (le_lt_dec k (length (skipn f l))) as [Hk|Hk].
  - replace (k - Nat.min k (length (skipn f l))) with 0 by lia. reflexivity.
  - (* fewer than k elements after f: both sides are empty *)
    unfold seg. rewrite skipn_length in Hk.
    rewrite (skipn_all2 l (n:=f + k)) by lia. rewrite firstn_nil. now rewrite skipn_nil.
Qed.

(* ------------------------------------------------------------------ raw memory *)
Definition written (mem : list N) (off : nat) (src : list N) : list N :=
  firstn off mem ++ src ++ skipn (off + length src) mem.

Lemma mem_write_ok mem off src :
  off + length src <= length mem -> mem_write mem off src = Ok (written mem off src).
Proof. unfold mem_write, written; intros. destruct (Nat.leb_spec (off + length src) (length mem)); [reflexivity|lia]. Qed.

Lemma written_length mem off src : off + length src <= length mem -> length (written mem off src) = length mem.
Proof. unfold written; intros. rewrite !app_length, firstn_length, skipn_length. lia. Qed.

Lemma written_same mem off src :
  off + length src <= length mem -> seg off (length src) (written mem off src) = src.
Proof.
  unfold written; intros. rewrite seg_app_r by (rewrite firstn_length; lia).
  rewrite firstn_length. replace (off - Nat.min off (length mem)) with 0 by lia.
  rewrite seg_app_l by (cbn; lia). unfold seg. cbn [skipn]. apply firstn_all.
Qed.

Lemma written_before mem off src f n :
  off + length src <= length mem -> f + n <= off -> seg f n (written mem off src) = seg f n mem.
Proof.
  unfold written; intros. rewrite seg_app_l by (rewrite firstn_length; lia).
  apply seg_firstn. lia.
Qed.

Lemma written_after mem off src f n :
  off + length src <= length mem -> off + length src <= f -> seg f n (written mem off src) = seg f n mem.
Proof.
  unfold written; intros. rewrite seg_app_r by (rewrite firstn_length; lia).
  rewrite firstn_length. rewrite seg_app_r by lia. rewrite seg_skipn. f_equal. lia.
Qed.

Lemma mem_read_ok mem off n : off + n <= length mem -> mem_read mem off n = Ok (seg off n mem).
Proof. unfold mem_read, seg; intros. destruct (Nat.leb_spec (off + n) (length mem)); [reflexivity|lia]. Qed.

(* ------------------------------------------------------------------ blocks *)
(* the valid bytes of a block: [m_first, m_last) *)
Definition bc (b : block) : list N := seg (b_first b) (b_size b) (b_data b).

Definition shape (bs : nat) (b : block) : Prop := b_cap b = bs /\ length (b_data b) = bs.
(* a block held by a buffer: in bounds and NOT empty *)
Definition wfb (bs : nat) (b : block) : Prop := shape bs b /\ b_first b < b_last b /\ b_last b <= bs.
(* a block on the free list / fresh from the pool: reset *)
Definition freeb (bs : nat) (b : block) : Prop := shape bs b /\ b_first b = 0 /\ b_last b = 0.
(* a fresh block after SeekBack() *)
Definition sbb (bs : nat) (b : block) : Prop := shape bs b /\ b_first b = bs /\ b_last b = bs.

Lemma bc_length bs b : shape bs b -> b_first b <= b_last b <= bs -> length (bc b) = b_size b.
Proof. unfold bc, b_size, shape; intros [? ?] ?. apply seg_length. lia. Qed.

Lemma bc_empty b : b_first b = b_last b -> bc b = [].
Proof. unfold bc, b_size; intros ->. now rewrite Nat.sub_diag. Qed.

Lemma b_append_spec bs b d :
  shape bs b -> b_first b <= b_last b <= bs ->
  let n := Nat.min (length d) (bs - b_last b) in
  exists mem, b_append b d = Ok (mkB bs (b_first b) (b_last b + n) mem, n) /\ length mem = bs /\
              seg (b_first b) (b_last b + n - b_first b) mem = bc b ++ firstn n d.
Proof.
  destruct b as [cap fi la mem]; unfold shape, bc, b_size, b_append; cbn [b_cap b_first b_last b_data].
  intros [-> Hl] Hb. set (n := Nat.min (length d) (bs - la)).
  assert (Hn : length (firstn n d) = n) by (rewrite firstn_length; lia).
  assert (Hw : la + length (firstn n d) <= length mem) by lia.
  rewrite (mem_write_ok _ _ _ Hw). cbn [bind].
  exists (written mem la (firstn n d)). split; [reflexivity|]. split.
  - rewrite written_length by exact Hw. exact Hl.
  - replace (la + n - fi) with ((la - fi) + n) by lia. rewrite seg_split.
    rewrite written_before by lia. replace (fi + (la - fi)) with la by lia.
    rewrite <- Hn at 1. rewrite written_same by exact Hw. reflexivity.
Qed.

Lemma b_prepend_spec bs b d :
  shape bs b -> b_first b <= b_last b <= bs ->
  let n := Nat.min (length d) (b_first b) in
  exists mem, b_prepend b d = Ok (mkB bs (b_first b - n) (b_last b) mem, n) /\ length mem = bs /\
              seg (b_first b - n) (b_last b - (b_first b - n)) mem = skipn (length d - n) d ++ bc b.
Proof.
  destruct b as [cap fi la mem]; unfold shape, bc, b_size, b_prepend; cbn [b_cap b_first b_last b_data].
  intros [-> Hl] Hb. set (n := Nat.min (length d) fi).
  assert (Hn : length (skipn (length d - n) d) = n) by (rewrite skipn_length; lia).
  assert (Hw : (fi - n) + length (skipn (length d - n) d) <= length mem) by lia.
  rewrite (mem_write_ok _ _ _ Hw). cbn [bind].
  exists (written mem (fi - n) (skipn (length d - n) d)). split; [reflexivity|]. split.
  - rewrite written_length by exact Hw. exact Hl.
  - replace (la - (fi - n)) with (n + (la - fi)) by lia. rewrite seg_split.
    replace (fi - n + n) with fi by lia.
    rewrite (written_after _ _ _ fi) by lia.
    rewrite <- Hn at 2. rewrite written_same by exact Hw. reflexivity.
Qed.

Lemma b_copy_spec bs b n :
  shape bs b -> b_first b <= b_last b <= bs ->
  b_copy b n = Ok (seg (b_first b) (Nat.min n (b_size b)) (b_data b)).
Proof. unfold b_copy, b_size, shape; intros [? ?] ?. apply mem_read_ok. lia. Qed.

Lemma b_view_spec bs b : shape bs b -> b_first b <= b_last b <= bs -> b_view b = Ok (bc b).
Proof. unfold b_view, bc, b_size, shape; intros [? ?] ?. apply mem_read_ok. lia. Qed.

(* ------------------------------------------------------------------ pool *)
Definition wfbuf (bs : nat) (bl : buffer) : Prop := Forall (wfb bs) bl.
Definition wfpool (bs : nat) (p : pool) : Prop := p_bs p = bs /\ Forall (freeb bs) (p_free p).
(* the abstract content of a buffer: the valid bytes of its blocks, front first *)
Definition abs_buf (bl : buffer) : list N := flat_map bc bl.

(* block accounting across one method: allocated - free - held is unchanged
   (n = blocks held before, n' = after) *)
Definition acct (p : pool) (n : nat) (p' : pool) (n' : nat) : Prop :=
  p_alloc p' + length (p_free p) + n = p_alloc p + length (p_free p') + n'.

Lemma wfb_shape bs b : wfb bs b -> shape bs b /\ b_first b <= b_last b <= bs.
Proof. unfold wfb; intros (? & ? & ?). split; [assumption|lia]. Qed.
Lemma freeb_shape bs b : freeb bs b -> shape bs b /\ b_first b <= b_last b <= bs.
Proof. unfold freeb; intros (? & ? & ?). split; [assumption|lia]. Qed.
Lemma sbb_shape bs b : sbb bs b -> shape bs b /\ b_first b <= b_last b <= bs.
Proof. unfold sbb; intros (? & ? & ?). split; [assumption|lia]. Qed.

Lemma p_allocate_spec bs p :
  wfpool bs p -> exists p' b, p_allocate p = (p', b) /\ wfpool bs p' /\ freeb bs b /\ acct p 0 p' 1.
Proof.
  destruct p as [pbs fr al]; unfold wfpool, p_allocate, acct; cbn [p_bs p_free p_alloc].
  intros [-> Hf]. destruct fr as [|b r].
  - eexists _, _. split; [reflexivity|]. cbn [p_bs p_free p_alloc length].
    repeat split; try constructor; cbn [b_new b_cap b_data b_first b_last]; try reflexivity.
    + apply repeat_length.
    + lia.
  - inversion Hf; subst. eexists _, _. split; [reflexivity|]. cbn [p_bs p_free p_alloc length].
    split; [split; [reflexivity|assumption]|]. split; [assumption|]. lia.
Qed.

Lemma p_release_spec bs p b :
  wfpool bs p -> shape bs b -> wfpool bs (p_release p b) /\ acct p 1 (p_release p b) 0.
Proof.
  destruct p as [pbs fr al]; unfold wfpool, p_release, acct; cbn [p_bs p_free p_alloc].
  intros [-> Hf] Hs. split; [split; [reflexivity|]|].
  - apply Forall_app. split; [assumption|]. constructor; [|constructor].
    destruct b; unfold freeb, shape, b_reset in *; cbn in *. tauto.
  - rewrite app_length. cbn [length]. lia.
Qed.

Lemma abs_buf_app a b : abs_buf (a ++ b) = abs_buf a ++ abs_buf b.
Proof. apply flat_map_app. Qed.

Lemma abs_buf_cons b r : abs_buf (b :: r) = bc b ++ abs_buf r.
Proof. reflexivity. Qed.

Lemma unsnoc_app {A} (fr : list A) b : unsnoc (fr ++ [b]) = Some (fr, b).
Proof. induction fr as [|x fr IH]; cbn [app unsnoc]; [reflexivity|]. now rewrite IH. Qed.

Ltac fin := repeat match goal with |- _ /\ _ => split end;
            try assumption; try reflexivity; try (unfold acct in *; cbn [length] in *; lia).

(* ------------------------------------------------------------------ IOQueue::Write *)
Section WithBs.
Variable bs : nat.
Hypothesis Hbs : 1 <= bs.

Lemma q_write_loop_spec : forall fuel p fr b d,
  wfpool bs p -> wfbuf bs fr -> d <> [] ->
  (wfb bs b /\ length d < fuel) \/ (freeb bs b /\ length d <= fuel) ->
  exists p' bl', q_write_loop fuel p (fr ++ [b]) d = Ok (p', bl') /\ wfpool bs p' /\ wfbuf bs bl' /\
                 abs_buf bl' = abs_buf fr ++ bc b ++ d /\ acct p (S (length fr)) p' (length bl').
Proof.
  induction fuel as [|f IH]; intros p fr b d Hp Hfr Hd Hb.
  { exfalso. destruct d; [congruence|]. cbn [length] in Hb. destruct Hb as [[_ ?]|[_ ?]]; lia. }
  cbn [q_write_loop]. rewrite unsnoc_app.
  assert (shape bs b /\ b_first b <= b_last b <= bs) as [Hs Hr].
  { destruct Hb as [[Hb _]|[Hb _]]; [apply wfb_shape|apply freeb_shape]; exact Hb. }
  destruct (b_append_spec bs b d Hs Hr) as (mem & Ea & Hlm & Hseg).
  set (n := Nat.min (length d) (bs - b_last b)) in *.
  rewrite Ea. cbn [bind].
  set (b' := mkB bs (b_first b) (b_last b + n) mem) in *.
  assert (Hd1 : 1 <= length d) by (destruct d; [congruence|cbn [length]; lia]).
  assert (Hbc' : bc b' = bc b ++ firstn n d).
  { unfold bc at 1, b_size. cbn [b' b_first b_last b_data]. exact Hseg. }
  destruct (le_lt_dec (length d) (bs - b_last b)) as [Hfit|Hnofit].
  - (* everything fits *)
    assert (n = length d) as Hn by (unfold n; lia).
    rewrite Hn, skipn_all.
    assert (Hwb' : wfb bs b').
    { unfold wfb, shape; cbn [b' b_cap b_first b_last b_data]. repeat split; try assumption; lia. }
    exists p, (fr ++ [b']). split; [reflexivity|]. split; [assumption|]. split.
    { apply Forall_app. split; [assumption|]. constructor; [|constructor]. exact Hwb'. }
    split.
    + rewrite abs_buf_app. cbn [abs_buf flat_map]. rewrite app_nil_r.
      rewrite Hbc', Hn, firstn_all. reflexivity.
    + unfold acct. rewrite app_length. cbn [length]. lia.
  - (* block is full, continue in a new one *)
    assert (n = bs - b_last b) as Hn by (unfold n; lia).
    assert (Hwb' : wfb bs b').
    { unfold wfb, shape; cbn [b' b_cap b_first b_last b_data]. repeat split; try assumption; try lia.
      all: try (destruct Hb as [[(_ & ? & ?) _]|[(_ & ? & ?) _]]; lia). }
    assert (Hlen' : length (skipn n d) = length d - n) by apply skipn_length.
    destruct (skipn n d) as [|x d'] eqn:Ed; [cbn [length] in Hlen'; lia|].
    unfold q_append_block.
    destruct (p_allocate_spec bs p Hp) as (p1 & nb & Eal & Hp1 & Hnb & Hac1). rewrite Eal.
    assert (Hfr' : wfbuf bs (fr ++ [b'])).
    { apply Forall_app. split; [assumption|]. constructor; [exact Hwb'|constructor]. }
    destruct (IH p1 (fr ++ [b']) nb (x :: d') Hp1 Hfr') as (p' & bl' & Er & Hp' & Hbl' & Habs & Hac).
    { congruence. }
    { right. split; [exact Hnb|]. rewrite Hlen'.
      destruct Hb as [[_ ?]|[(_ & ? & ?) ?]]; lia. }
    exists p', bl'. split; [exact Er|]. split; [assumption|]. split; [assumption|]. split.
    + rewrite Habs, abs_buf_app. cbn [abs_buf flat_map]. rewrite app_nil_r.
      rewrite (bc_empty nb) by (destruct Hnb as (_ & -> & ->); reflexivity).
      rewrite Hbc'. cbn [app]. rewrite <- Ed. rewrite <- !app_assoc. rewrite firstn_skipn. reflexivity.
    + unfold acct in *. rewrite app_length in Hac. cbn [length] in Hac. lia.
Qed.

Lemma q_write_spec p bl d :
  wfpool bs p -> wfbuf bs bl ->
  exists p' bl', q_write p bl d = Ok (p', bl') /\ wfpool bs p' /\ wfbuf bs bl' /\
                 abs_buf bl' = abs_buf bl ++ d /\ acct p (length bl) p' (length bl').
Proof.
  intros Hp Hbl. unfold q_write. destruct d as [|x d].
  { exists p, bl. rewrite app_nil_r. fin. }
  destruct bl as [|b0 bl0].
  - unfold q_append_block.
    destruct (p_allocate_spec bs p Hp) as (p1 & nb & Eal & Hp1 & Hnb & Hac1). rewrite Eal.
    destruct (q_write_loop_spec (S (length (x :: d))) p1 [] nb (x :: d) Hp1) as (p' & bl' & Er & Hp' & Hbl' & Habs & Hac).
    { constructor. } { congruence. } { right. split; [exact Hnb|lia]. }
    cbn [app] in Er. exists p', bl'. fin.
    rewrite Habs. rewrite (bc_empty nb) by (destruct Hnb as (_ & -> & ->); reflexivity). reflexivity.
  - destruct (exists_last (l:=b0 :: bl0)) as (fr & b & E); [congruence|].
    rewrite E in *. apply Forall_app in Hbl. destruct Hbl as [Hfr Hb]. inversion Hb; subst.
    destruct (q_write_loop_spec (S (length (x :: d))) p fr b (x :: d) Hp Hfr) as (p' & bl' & Er & Hp' & Hbl' & Habs & Hac).
    { congruence. } { left. split; [assumption|lia]. }
    exists p', bl'. split; [exact Er|]. split; [assumption|]. split; [assumption|]. split.
    + rewrite Habs, abs_buf_app. cbn [abs_buf flat_map]. rewrite app_nil_r, <- app_assoc. reflexivity.
    + unfold acct in *. rewrite app_length. cbn [length] in *. lia.
Qed.

(* ------------------------------------------------------------------ IOStack::Write *)
Lemma b_seek_back_sbb b : freeb bs b -> sbb bs (b_seek_back b).
Proof. destruct b; unfold freeb, sbb, shape, b_seek_back; cbn. intros ((-> & ?) & _ & _). tauto. Qed.

Lemma s_write_loop_spec : forall fuel p b r d,
  wfpool bs p -> wfbuf bs r -> d <> [] ->
  (wfb bs b /\ length d < fuel) \/ (sbb bs b /\ length d <= fuel) ->
  exists p' bl', s_write_loop fuel p (b :: r) d = Ok (p', bl') /\ wfpool bs p' /\ wfbuf bs bl' /\
                 abs_buf bl' = d ++ bc b ++ abs_buf r /\ acct p (S (length r)) p' (length bl').
Proof.
  induction fuel as [|f IH]; intros p b r d Hp Hr Hd Hb.
  { exfalso. destruct d; [congruence|]. cbn [length] in Hb. destruct Hb as [[_ ?]|[_ ?]]; lia. }
  cbn [s_write_loop].
  assert (shape bs b /\ b_first b <= b_last b <= bs) as [Hs Hrg].
  { destruct Hb as [[Hb _]|[Hb _]]; [apply wfb_shape|apply sbb_shape]; exact Hb. }
  destruct (b_prepend_spec bs b d Hs Hrg) as (mem & Ea & Hlm & Hseg).
  set (n := Nat.min (length d) (b_first b)) in *.
  rewrite Ea. cbn [bind].
  set (b' := mkB bs (b_first b - n) (b_last b) mem) in *.
  assert (Hd1 : 1 <= length d) by (destruct d; [congruence|cbn [length]; lia]).
  assert (Hbc' : bc b' = skipn (length d - n) d ++ bc b).
  { unfold bc at 1, b_size. cbn [b' b_first b_last b_data]. exact Hseg. }
  destruct (le_lt_dec (length d) (b_first b)) as [Hfit|Hnofit].
  - assert (n = length d) as Hn by (unfold n; lia).
    rewrite Hn, Nat.sub_diag. cbn [firstn].
    assert (Hwb' : wfb bs b').
    { unfold wfb, shape; cbn [b' b_cap b_first b_last b_data]. repeat split; try assumption; try lia.
      all: try (destruct Hb as [[(_ & ? & ?) _]|[(_ & ? & ?) _]]; lia). }
    exists p, (b' :: r). split; [reflexivity|]. split; [assumption|]. split.
    { constructor; [|assumption]. exact Hwb'. }
    split.
    + rewrite abs_buf_cons. rewrite Hbc', Hn, Nat.sub_diag. cbn [skipn].
      now rewrite app_assoc.
    + unfold acct. cbn [length]. lia.
  - assert (n = b_first b) as Hn by (unfold n; lia).
    assert (Hwb' : wfb bs b').
    { unfold wfb, shape; cbn [b' b_cap b_first b_last b_data]. repeat split; try assumption; try lia.
      all: try (destruct Hb as [[(_ & ? & ?) _]|[(_ & ? & ?) _]]; lia). }
    assert (Hlen' : length (firstn (length d - n) d) = length d - n) by (rewrite firstn_length; lia).
    destruct (firstn (length d - n) d) as [|x d'] eqn:Ed; [cbn [length] in Hlen'; lia|].
    unfold s_prepend_block.
    destruct (p_allocate_spec bs p Hp) as (p1 & nb & Eal & Hp1 & Hnb & Hac1). rewrite Eal.
    assert (Hr' : wfbuf bs (b' :: r)) by (constructor; assumption).
    destruct (IH p1 (b_seek_back nb) (b' :: r) (x :: d') Hp1 Hr') as (p' & bl' & Er & Hp' & Hbl' & Habs & Hac).
    { congruence. }
    { right. split; [apply b_seek_back_sbb; exact Hnb|]. rewrite Hlen'.
      destruct Hb as [[_ ?]|[(_ & ? & ?) ?]]; lia. }
    exists p', bl'. split; [exact Er|]. split; [assumption|]. split; [assumption|]. split.
    + rewrite Habs, abs_buf_cons.
      rewrite (bc_empty (b_seek_back nb)) by (destruct (b_seek_back_sbb nb Hnb) as (_ & -> & ->); reflexivity).
      rewrite Hbc'. rewrite <- Ed. cbn [app]. rewrite <- !app_assoc.
      rewrite (app_assoc (firstn _ d)), firstn_skipn. reflexivity.
    + unfold acct in *. cbn [length] in Hac. lia.
Qed.

Lemma s_write_spec p bl d :
  wfpool bs p -> wfbuf bs bl ->
  exists p' bl', s_write p bl d = Ok (p', bl') /\ wfpool bs p' /\ wfbuf bs bl' /\
                 abs_buf bl' = d ++ abs_buf bl /\ acct p (length bl) p' (length bl').
Proof.
  intros Hp Hbl. unfold s_write. destruct d as [|x d].
  { exists p, bl. fin. }
  destruct bl as [|b r].
  - unfold s_prepend_block.
    destruct (p_allocate_spec bs p Hp) as (p1 & nb & Eal & Hp1 & Hnb & Hac1). rewrite Eal.
    destruct (s_write_loop_spec (S (length (x :: d))) p1 (b_seek_back nb) [] (x :: d) Hp1) as (p' & bl' & Er & Hp' & Hbl' & Habs & Hac).
    { constructor. } { congruence. } { right. split; [apply b_seek_back_sbb; exact Hnb|lia]. }
    exists p', bl'. fin.
    rewrite Habs.
    rewrite (bc_empty (b_seek_back nb)) by (destruct (b_seek_back_sbb nb Hnb) as (_ & -> & ->); reflexivity).
    reflexivity.
  - inversion Hbl; subst.
    destruct (s_write_loop_spec (S (length (x :: d))) p b r (x :: d) Hp) as (p' & bl' & Er & Hp' & Hbl' & Habs & Hac).
    { assumption. } { congruence. } { left. split; [assumption|lia]. }
    exists p', bl'. fin.
Qed.

End WithBs.

Section AnyBs.
Variable bs : nat.

(* ------------------------------------------------------------------ Read / Pop / Peek *)
Lemma wfb_reset_shape b : wfb bs b -> shape bs (mkB (b_cap b) 0 0 (b_data b)).
Proof. intros ((? & ?) & _). split; assumption. Qed.

Lemma buf_read_spec : forall bl p n,
  wfpool bs p -> wfbuf bs bl ->
  exists p' bl', buf_read p bl n = Ok (p', bl', firstn n (abs_buf bl)) /\ wfpool bs p' /\ wfbuf bs bl' /\
                 abs_buf bl' = skipn n (abs_buf bl) /\ acct p (length bl) p' (length bl').
Proof.
  induction bl as [|b r IH]; intros p n Hp Hbl.
  { exists p, []. cbn [buf_read abs_buf flat_map]. rewrite firstn_nil, skipn_nil.
    fin. }
  inversion Hbl as [|? ? Hb Hr]; subst.
  cbn [buf_read]. destruct (Nat.eqb_spec n 0) as [->|Hn0].
  { exists p, (b :: r). cbn [firstn skipn]. fin. }
  destruct (wfb_shape _ _ Hb) as [Hs Hrg].
  rewrite (b_copy_spec bs b n Hs Hrg). cbn [bind].
  assert (Hbl_ : length (bc b) = b_size b) by (apply (bc_length bs); assumption).
  destruct Hb as (_ & Hlt & Hle). destruct Hs as [Hcap Hdl].
  assert (Hlen : length (seg (b_first b) (Nat.min n (b_size b)) (b_data b)) = Nat.min n (b_size b)).
  { apply seg_length. unfold b_size. lia. }
  rewrite Hlen. unfold b_pop_front. fold (b_size b).
  rewrite (Nat.min_l (Nat.min n (b_size b)) (b_size b)) by lia.
  rewrite abs_buf_cons.
  destruct (le_lt_dec (b_size b) n) as [Hall|Hpart].
  - (* the whole block is consumed: reset, released *)
    rewrite (Nat.min_r n (b_size b)) by lia.
    replace (b_first b + b_size b) with (b_last b) by (unfold b_size; lia).
    rewrite Nat.eqb_refl. unfold b_empty. cbn [b_first b_last]. cbn [Nat.eqb].
    set (b0 := mkB (b_cap b) 0 0 (b_data b)).
    destruct (p_release_spec bs p b0 Hp) as [Hp1 Hac1]. { split; assumption. }
    destruct (IH (p_release p b0) (n - b_size b) Hp1 Hr) as (p' & bl' & Er & Hp' & Hbl' & Habs & Hac).
    rewrite Er. cbn [bind]. exists p', bl'. split.
    { f_equal. f_equal. rewrite firstn_app, Hbl_. rewrite (firstn_all2 (bc b)) by lia. reflexivity. }
    split; [assumption|]. split; [assumption|]. split.
    + rewrite Habs, skipn_app, Hbl_. rewrite (skipn_all2 (bc b)) by lia. reflexivity.
    + unfold acct in *. cbn [length]. lia.
  - (* part of the block: it stays, nothing further is read *)
    rewrite (Nat.min_l n (b_size b)) by lia.
    destruct (Nat.eqb_spec (b_first b + n) (b_last b)) as [E|_]; [unfold b_size in Hpart; lia|].
    unfold b_empty. cbn [b_first b_last].
    destruct (Nat.eqb_spec (b_last b) (b_first b + n)) as [E|_]; [unfold b_size in Hpart; lia|].
    destruct (IH p (n - n) Hp Hr) as (p' & bl' & Er & Hp' & Hbl' & Habs & Hac).
    rewrite Er. cbn [bind]. rewrite Nat.sub_diag in *. cbn [firstn skipn] in *.
    set (b' := mkB (b_cap b) (b_first b + n) (b_last b) (b_data b)).
    exists p', (b' :: bl'). split.
    { f_equal. f_equal. rewrite app_nil_r, firstn_app, Hbl_.
      replace (n - b_size b) with 0 by lia. cbn [firstn]. rewrite app_nil_r.
      unfold bc. rewrite seg_firstn_inner by lia. reflexivity. }
    split; [assumption|]. split.
    { constructor; [|assumption]. unfold wfb, shape, b_size in *. cbn [b' b_cap b_first b_last b_data].
      repeat split; try assumption; lia. }
    split.
    + rewrite abs_buf_cons, Habs, skipn_app, Hbl_. replace (n - b_size b) with 0 by lia. cbn [skipn].
      f_equal. unfold bc at 2. rewrite seg_skipn_inner by lia.
      unfold bc, b_size. cbn [b' b_first b_last b_data]. f_equal. lia.
    + unfold acct in *. cbn [length]. lia.
Qed.

Lemma buf_read_str_eq : forall bl p n, buf_read_str p bl n = buf_read p bl n.
Proof.
  induction bl as [|b r IH]; intros p n; [reflexivity|].
  cbn [buf_read_str buf_read]. destruct (n =? 0); [reflexivity|].
  unfold b_copy. fold (b_size b). rewrite (Nat.min_comm n (b_size b)).
  unfold mem_read. destruct (Nat.leb_spec (b_first b + Nat.min (b_size b) n) (length (b_data b))) as [H|H];
    [|reflexivity].
  cbn [bind]. rewrite firstn_length, skipn_length.
  rewrite (Nat.min_l (Nat.min (b_size b) n)) by lia.
  destruct (b_pop_front b (Nat.min (b_size b) n)) as [b' k]. rewrite !IH. reflexivity.
Qed.

Lemma q_peek_spec : forall bl n, wfbuf bs bl -> q_peek bl n = Ok (firstn n (abs_buf bl)).
Proof.
  induction bl as [|b r IH]; intros n Hbl.
  { cbn. now rewrite firstn_nil. }
  inversion Hbl as [|? ? Hb Hr]; subst.
  cbn [q_peek]. destruct (Nat.eqb_spec n 0) as [->|Hn0]; [reflexivity|].
  destruct (wfb_shape _ _ Hb) as [Hs Hrg].
  rewrite (b_copy_spec bs b n Hs Hrg). cbn [bind].
  assert (Hbl_ : length (bc b) = b_size b) by (apply (bc_length bs); assumption).
  destruct Hs as [Hcap Hdl].
  rewrite seg_length by (unfold b_size; lia).
  rewrite (IH _ Hr). cbn [bind]. f_equal.
  rewrite abs_buf_cons, firstn_app, Hbl_. f_equal.
  - destruct (le_lt_dec n (b_size b)).
    + rewrite Nat.min_l by lia. unfold bc. rewrite seg_firstn_inner by lia. reflexivity.
    + rewrite Nat.min_r by lia. rewrite (firstn_all2 (bc b)) by lia. reflexivity.
  - f_equal. lia.
Qed.

Lemma buf_pop_spec : forall bl p n,
  wfpool bs p -> wfbuf bs bl ->
  exists p' bl', buf_pop p bl n = (p', bl') /\ wfpool bs p' /\ wfbuf bs bl' /\
                 abs_buf bl' = skipn n (abs_buf bl) /\ acct p (length bl) p' (length bl').
Proof.
  induction bl as [|b r IH]; intros p n Hp Hbl.
  { exists p, []. cbn [buf_pop abs_buf flat_map]. rewrite skipn_nil. fin. }
  inversion Hbl as [|? ? Hb Hr]; subst.
  cbn [buf_pop]. destruct (Nat.eqb_spec n 0) as [->|Hn0].
  { exists p, (b :: r). cbn [skipn]. fin. }
  destruct (wfb_shape _ _ Hb) as [Hs Hrg].
  assert (Hbl_ : length (bc b) = b_size b) by (apply (bc_length bs); assumption).
  destruct Hb as (_ & Hlt & Hle). destruct Hs as [Hcap Hdl].
  unfold b_pop_front. fold (b_size b). rewrite abs_buf_cons.
  destruct (le_lt_dec (b_size b) n) as [Hall|Hpart].
  - rewrite (Nat.min_r n (b_size b)) by lia.
    replace (b_first b + b_size b) with (b_last b) by (unfold b_size; lia).
    rewrite Nat.eqb_refl. unfold b_empty. cbn [b_first b_last]. cbn [Nat.eqb].
    set (b0 := mkB (b_cap b) 0 0 (b_data b)).
    destruct (p_release_spec bs p b0 Hp) as [Hp1 Hac1]. { split; assumption. }
    destruct (IH (p_release p b0) (n - b_size b) Hp1 Hr) as (p' & bl' & Er & Hp' & Hbl' & Habs & Hac).
    rewrite Er. exists p', bl'. split; [reflexivity|].
    split; [assumption|]. split; [assumption|]. split.
    + rewrite Habs, skipn_app, Hbl_. rewrite (skipn_all2 (bc b)) by lia. reflexivity.
    + unfold acct in *. cbn [length]. lia.
  - rewrite (Nat.min_l n (b_size b)) by lia.
    destruct (Nat.eqb_spec (b_first b + n) (b_last b)) as [E|_]; [unfold b_size in Hpart; lia|].
    unfold b_empty. cbn [b_first b_last].
    destruct (Nat.eqb_spec (b_last b) (b_first b + n)) as [E|_]; [unfold b_size in Hpart; lia|].
    destruct (IH p (n - n) Hp Hr) as (p' & bl' & Er & Hp' & Hbl' & Habs & Hac).
    rewrite Er. rewrite Nat.sub_diag in *. cbn [skipn] in *.
    set (b' := mkB (b_cap b) (b_first b + n) (b_last b) (b_data b)).
    exists p', (b' :: bl'). split; [reflexivity|].
    split; [assumption|]. split.
    { constructor; [|assumption]. unfold wfb, shape, b_size in *. cbn [b' b_cap b_first b_last b_data].
      repeat split; try assumption; lia. }
    split.
    + rewrite abs_buf_cons, Habs, skipn_app, Hbl_. replace (n - b_size b) with 0 by lia. cbn [skipn].
      f_equal. unfold bc at 2. rewrite seg_skipn_inner by lia.
      unfold bc, b_size. cbn [b' b_first b_last b_data]. f_equal. lia.
    + unfold acct in *. cbn [length]. lia.
Qed.

(* ------------------------------------------------------------------ AsIOVec / Clear / Size / Empty *)
Lemma buf_iovec_spec : forall bl, wfbuf bs bl -> buf_iovec bl = Ok (map bc bl).
Proof.
  induction bl as [|b r IH]; intros Hbl; [reflexivity|].
  inversion Hbl as [|? ? Hb Hr]; subst. cbn [buf_iovec map].
  destruct (wfb_shape _ _ Hb) as [Hs Hrg]. rewrite (b_view_spec bs b Hs Hrg). cbn [bind].
  rewrite (IH Hr). reflexivity.
Qed.

Lemma concat_map_bc bl : concat (map bc bl) = abs_buf bl.
Proof. unfold abs_buf. now rewrite flat_map_concat_map. Qed.

Lemma buf_clear_spec : forall bl p,
  wfpool bs p -> wfbuf bs bl -> wfpool bs (buf_clear p bl) /\ acct p (length bl) (buf_clear p bl) 0.
Proof.
  unfold buf_clear. induction bl as [|b r IH]; intros p Hp Hbl.
  { cbn [fold_left length]. split; [assumption|]. unfold acct; lia. }
  inversion Hbl as [|? ? Hb Hr]; subst. cbn [fold_left].
  destruct (p_release_spec bs p b Hp) as [Hp1 Hac1]. { apply wfb_shape in Hb. tauto. }
  destruct (IH _ Hp1 Hr) as [Hp' Hac]. split; [assumption|].
  unfold acct in *. cbn [length]. lia.
Qed.

Lemma buf_size_spec : forall bl, wfbuf bs bl -> buf_size bl = length (abs_buf bl).
Proof.
  induction bl as [|b r IH]; intros Hbl; [reflexivity|].
  inversion Hbl as [|? ? Hb Hr]; subst. cbn [buf_size]. rewrite abs_buf_cons, app_length, (IH Hr).
  destruct (wfb_shape _ _ Hb) as [Hs Hrg]. now rewrite (bc_length bs b Hs Hrg).
Qed.

Lemma wfbuf_nonnil b r : wfbuf bs (b :: r) -> abs_buf (b :: r) <> [].
Proof.
  intros Hbl. inversion Hbl as [|? ? Hb Hr]; subst. rewrite abs_buf_cons.
  destruct (wfb_shape _ _ Hb) as [Hs Hrg]. pose proof (bc_length bs b Hs Hrg) as Hl.
  destruct Hb as (_ & ? & _). unfold b_size in Hl. destruct (bc b); [cbn [length] in Hl; lia|discriminate].
Qed.

Lemma q_empty_spec bl :
  wfbuf bs bl -> match bl with [] => true | _ => false end = is_nil (abs_buf bl).
Proof.
  destruct bl as [|b r]; intros H; [reflexivity|].
  apply wfbuf_nonnil in H. destruct (abs_buf (b :: r)); [congruence|reflexivity].
Qed.

Lemma s_empty_spec bl :
  wfbuf bs bl -> match bl with [] => true | _ => buf_size bl =? 0 end = is_nil (abs_buf bl).
Proof.
  destruct bl as [|b r]; intros H; [reflexivity|].
  rewrite (buf_size_spec _ H). apply wfbuf_nonnil in H.
  destruct (abs_buf (b :: r)); [congruence|reflexivity].
Qed.

End AnyBs.
