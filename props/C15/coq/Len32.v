(* C15 round 5: length arguments of any magnitude (UINT_MAX, 2^31, 2^32 - cursor, ...).
   The block-level model takes lengths as unary naturals, which cannot be executed for 2^32 - 1.
   [natlen n bound] replaces a length n (binary) that exceeds [bound] by bound + 1; the theorems
   of ProofsLen32.v show that every Read / Read(string) / Peek / Pop of a queue or stack, every
   MemoryBuffer read and every PerformWrite behaves for ANY length above the buffer's size exactly
   as for size + 1, so the model driver may execute the clamped length.  No proofs here. *)
From OlaBase Require Import Bytes.
From Coq Require Import Arith.
From C15 Require Import Model Sender.
Local Open Scope nat_scope.

Definition natlen (n : N) (bound : nat) : nat :=
  if (N.of_nat bound <? n)%N then S bound else N.to_nat n.

(* the same for lengths that are already naturals (used in the statements) *)
Definition clamp (n bound : nat) : nat := if bound <? n then S bound else n.

Definition clamp_mread (bound : nat) (r : mread) : mread :=
  match r with
  | MRead n => MRead (clamp n bound)
  | MStr n => MStr (clamp n bound)
  | MIn w => MIn (clamp w bound)
  end.
