(* C15 round 6: NonBlockingSender and BigEndianInputStream over SEVERAL pools: the extended
   operations of Sender.v executed on the several-pools state of Multi.v.  Queue 0 is the sender's
   m_output_buffer, bound to whatever pool it was constructed with; the stacks / queues handed to
   SendMessage may be bound to other pools (their blocks migrate into the output buffer and are
   released to ITS pool when PerformWrite pops them).  Same definitions as Sender.xstep with
   Model.step replaced by Multi.step2.  No proofs here. *)
From OlaBase Require Import Bytes.
From Coq Require Import Arith.
From C15 Require Import Model Spec Sender Multi.
Local Open Scope nat_scope.

Record ystate := mkY { y_st : state2; y_assoc : bool; y_reg : bool }.

Definition yinit (bss qp sp : list nat) : ystate := mkY (init2 bss qp sp) false false.

Definition getq0 (st : state2) : res buffer := '(_, bl) <- get2 (m_q st) 0 ;; Ok bl.

Definition y_q0_empty (st : state2) : res bool :=
  bl <- getq0 st ;; Ok (match bl with [] => true | _ => false end).

Definition y_associate (y : ystate) (st' : state2) : res ystate :=
  e <- y_q0_empty st' ;;
  Ok (if e then mkY st' (y_assoc y) (y_reg y) else mkY st' true true).

Definition y_limit_reached (max : N) (st : state2) : res bool :=
  bl <- getq0 st ;; Ok (max <=? size32 bl)%N.

Definition ystep (max : N) (y : ystate) (o : xop) : res (ystate * xout) :=
  let st := y_st y in
  match o with
  | UOp o => '(st', r) <- step2 st o ;; Ok (mkY st' (y_assoc y) (y_reg y), XUser r)
  | SendS j =>
    l <- y_limit_reached max st ;;
    if l then Ok (y, XBool false)
    else '(st', _) <- step2 st (SMove j 0) ;; y' <- y_associate y st' ;; Ok (y', XBool true)
  | SendQ i =>
    l <- y_limit_reached max st ;;
    if l then Ok (y, XBool false)
    else '(st', _) <- step2 st (QAppendMove 0 i) ;; y' <- y_associate y st' ;; Ok (y', XBool true)
  | PWrite r =>
    bl <- getq0 st ;; v <- buf_iovec bl ;;
    let all := concat v in
    '(st', sent) <- match r with
                    | None => Ok (st, None)
                    | Some k =>
                      let n := Nat.min k (length all) in
                      '(st', _) <- step2 st (QPop 0 n) ;; Ok (st', Some (firstn n all))
                    end ;;
    e <- y_q0_empty st' ;;
    Ok (if e && y_assoc y then mkY st' false false
        else mkY st' (y_assoc y) (y_reg y), XSent sent)
  | Limit => l <- y_limit_reached max st ;; Ok (y, XBool l)
  | QIn i w =>
    '(st', r) <- step2 st (QRead i w) ;;
    match r with
    | OBytes got => Ok (mkY st' (y_assoc y) (y_reg y), XIn (length got =? w) (be_value got))
    | _ => Undef
    end
  | MBuf d script => l <- mb_run (mb_new d) script ;; Ok (y, XMB l)
  end.

Fixpoint yrun (max : N) (y : ystate) (ops : list xop) : res (ystate * list xout) :=
  match ops with
  | [] => Ok (y, [])
  | o :: r => '(y1, x) <- ystep max y o ;; '(y2, xs) <- yrun max y1 r ;; Ok (y2, x :: xs)
  end.

(* extended operations over several pools: as xop_ok, and the application does not Purge *)
Definition yop_ok (nq ns : nat) (o : xop) : Prop :=
  xop_ok nq ns o /\ o <> UOp PoolPurge.
