(* C15 round 4 proofs, part 2: several pools, blocks of heterogeneous capacity, buffers bound to
   pools, moves between buffers of different pools.  Invariant, simulation of every operation of
   Multi.step2 by the byte-list specification, exact block accounting. *)
From OlaBase Require Import Bytes.
From Coq Require Import Arith.
From C15 Require Import Model Spec ProofsBlock Proofs ProofsHetero Multi MultiSpec.
Local Open Scope nat_scope.

(* ------------------------------------------------------------------ sums and lists *)
Lemma sumf_app {A} (f : A -> nat) a b : sumf f (a ++ b) = sumf f a + sumf f b.
Proof. unfold sumf. induction a as [|x a IH]; cbn [app fold_right]; [reflexivity|]. rewrite IH. lia. Qed.

Lemma sumf_upd {A} (f : A -> nat) l i v d :
  i < length l -> sumf f (upd l i v) + f (nth i l d) = sumf f l + f v.
Proof.
  unfold sumf. revert i; induction l as [|x l IH]; intros [|i] H; cbn [length] in H; try lia;
    cbn [upd fold_right nth].
  - lia.
  - specialize (IH i ltac:(lia)). lia.
Qed.

Lemma held2_sumf st k :
  held2 st k = sumf (fun kb => if fst kb =? k then length (snd kb) else 0) (m_q st ++ m_s st).
Proof.
  unfold held2, sumf. generalize (m_q st ++ m_s st) as l. intros l.
  induction l as [|x l IH]; [reflexivity|].
  cbn [fold_right]. rewrite IH. destruct x as [kx bx]. cbn [fst snd].
  destruct (Nat.eqb kx k); reflexivity.
Qed.

Lemma get2_ok {A} (l : list A) i d : i < length l -> get2 l i = Ok (nth i l d).
Proof.
  intros H. unfold get2. destruct (nth_error l i) eqn:E.
  - now rewrite (nth_error_nth _ _ _ E).
  - apply nth_error_None in E. lia.
Qed.

Lemma upd_nth_same {A} (l : list A) i d : upd l i (nth i l d) = l.
Proof. revert i; induction l as [|x l IH]; intros [|i]; cbn [upd nth]; try reflexivity. now rewrite IH. Qed.

Lemma geta_map2 l i : geta (map (fun kb : nat * buffer => abs_buf (snd kb)) l) i = abs_buf (snd (nth i l dq)).
Proof.
  unfold geta. change (@nil N) with ((fun kb : nat * buffer => abs_buf (snd kb)) dq).
  apply (map_nth (fun kb : nat * buffer => abs_buf (snd kb))).
Qed.

(* ------------------------------------------------------------------ invariant *)
Definition dp : pool := p_new 0.
Definition bufok (np : nat) (kb : nat * buffer) : Prop := fst kb < np /\ hwfbuf (snd kb).

Record I2 (np nq ns : nat) (st : state2) (g : nat -> Z) : Prop := mkI2 {
  i_np : length (m_pools st) = np;
  i_pools : Forall hwfpool (m_pools st);
  i_nq : length (m_q st) = nq;
  i_q : Forall (bufok np) (m_q st);
  i_ns : length (m_s st) = ns;
  i_s : Forall (bufok np) (m_s st);
  i_total : total_alloc st = total_free st + total_held st;
  i_pool : forall k, k < np ->
           (Z.of_nat (alloc2 st k) + g k = Z.of_nat (free2 st k) + Z.of_nat (held2 st k))%Z }.

Lemma I2_ext np nq ns st g g' : (forall k, g' k = g k) -> I2 np nq ns st g -> I2 np nq ns st g'.
Proof. intros E [? ? ? ? ? ? ? Hp]. constructor; try assumption. intros k Hk. rewrite E. now apply Hp. Qed.

Section MSim.
Variables np nq ns : nat.
Notation Inv := (I2 np nq ns).

(* the effect of one buffer-local method: pool k and buffer i (or j) are replaced *)
Lemma I2_upd_q st g i k bl p' bl' :
  Inv st g -> i < nq -> nth i (m_q st) dq = (k, bl) ->
  hwfpool p' -> hwfbuf bl' -> acct (nth k (m_pools st) dp) (length bl) p' (length bl') ->
  Inv (mkS2 (upd (m_pools st) k p') (upd (m_q st) i (k, bl')) (m_s st)) g.
Proof.
  intros [Hnp Hps Hnq Hq Hns Hs Ht Hp] Hi E Hp' Hbl' Hac.
  assert (Hk : k < np).
  { assert (Hin : In (nth i (m_q st) dq) (m_q st)) by (apply nth_In; lia). rewrite E in Hin.
    exact (proj1 (proj1 (Forall_forall _ _) Hq _ Hin)). }
  unfold acct in Hac.
  constructor; cbn [m_pools m_q m_s].
  - now rewrite upd_length.
  - apply Forall_upd; assumption.
  - now rewrite upd_length.
  - apply Forall_upd; [assumption|]. split; assumption.
  - assumption.
  - assumption.
  - unfold total_alloc, total_free, total_held in *. cbn [m_pools m_q m_s].
    pose proof (sumf_upd p_alloc (m_pools st) k p' dp ltac:(lia)) as A1.
    pose proof (sumf_upd (fun p => length (p_free p)) (m_pools st) k p' dp ltac:(lia)) as A2.
    pose proof (sumf_upd (fun kb : nat * buffer => length (snd kb)) (m_q st) i (k, bl') dq ltac:(lia)) as A3.
    rewrite E in A3. cbn [snd] in A3, A2. rewrite sumf_app in *. unfold buffer in *. lia.
  - intros k' Hk'. specialize (Hp k' Hk'). unfold alloc2, free2 in *. rewrite !held2_sumf in *.
    cbn [m_pools m_q m_s] in *. rewrite sumf_app in *.
    pose proof (sumf_upd (fun kb : nat * buffer => if fst kb =? k' then length (snd kb) else 0)
                  (m_q st) i (k, bl') dq ltac:(lia)) as A3.
    rewrite E in A3. cbn [fst snd] in A3.
    destruct (Nat.eq_dec k k') as [->|Hne].
    + rewrite nth_upd_same by lia. rewrite Nat.eqb_refl in A3. fold dp in Hp. unfold buffer in *. lia.
    + rewrite nth_upd_other by assumption. destruct (Nat.eqb_spec k k'); [contradiction|]. unfold buffer in *. lia.
Qed.

Lemma I2_upd_s st g j k bl p' bl' :
  Inv st g -> j < ns -> nth j (m_s st) dq = (k, bl) ->
  hwfpool p' -> hwfbuf bl' -> acct (nth k (m_pools st) dp) (length bl) p' (length bl') ->
  Inv (mkS2 (upd (m_pools st) k p') (m_q st) (upd (m_s st) j (k, bl'))) g.
Proof.
  intros [Hnp Hps Hnq Hq Hns Hs Ht Hp] Hj E Hp' Hbl' Hac.
  assert (Hk : k < np).
  { assert (Hin : In (nth j (m_s st) dq) (m_s st)) by (apply nth_In; lia). rewrite E in Hin.
    exact (proj1 (proj1 (Forall_forall _ _) Hs _ Hin)). }
  unfold acct in Hac.
  constructor; cbn [m_pools m_q m_s].
  - now rewrite upd_length.
  - apply Forall_upd; assumption.
  - assumption.
  - assumption.
  - now rewrite upd_length.
  - apply Forall_upd; [assumption|]. split; assumption.
  - unfold total_alloc, total_free, total_held in *. cbn [m_pools m_q m_s].
    pose proof (sumf_upd p_alloc (m_pools st) k p' dp ltac:(lia)) as A1.
    pose proof (sumf_upd (fun p => length (p_free p)) (m_pools st) k p' dp ltac:(lia)) as A2.
    pose proof (sumf_upd (fun kb : nat * buffer => length (snd kb)) (m_s st) j (k, bl') dq ltac:(lia)) as A3.
    rewrite E in A3. cbn [snd] in A3, A2. rewrite sumf_app in *. unfold buffer in *. lia.
  - intros k' Hk'. specialize (Hp k' Hk'). unfold alloc2, free2 in *. rewrite !held2_sumf in *.
    cbn [m_pools m_q m_s] in *. rewrite sumf_app in *.
    pose proof (sumf_upd (fun kb : nat * buffer => if fst kb =? k' then length (snd kb) else 0)
                  (m_s st) j (k, bl') dq ltac:(lia)) as A3.
    rewrite E in A3. cbn [fst snd] in A3.
    destruct (Nat.eq_dec k k') as [->|Hne].
    + rewrite nth_upd_same by lia. rewrite Nat.eqb_refl in A3. fold dp in Hp. unfold buffer in *. lia.
    + rewrite nth_upd_other by assumption. destruct (Nat.eqb_spec k k'); [contradiction|]. unfold buffer in *. lia.
Qed.

(* what a buffer-local method must satisfy (all of them do, ProofsHetero.v) *)
Definition mprem (f : pool -> buffer -> res (pool * buffer * out))
           (F : list N -> list N) (G : list N -> out) : Prop :=
  forall p bl, hwfpool p -> hwfbuf bl ->
  exists p' bl' y, f p bl = Ok (p', bl', y) /\ hwfpool p' /\ hwfbuf bl' /\
                   acct p (length bl) p' (length bl') /\
                   abs_buf bl' = F (abs_buf bl) /\ out_abs y = G (abs_buf bl).

Lemma nth_bufok st g i : Inv st g -> i < nq -> bufok np (nth i (m_q st) dq).
Proof.
  intros H Hi. apply (proj1 (Forall_forall _ _) (i_q _ _ _ _ _ H)). apply nth_In.
  rewrite (i_nq _ _ _ _ _ H). exact Hi.
Qed.
Lemma nth_bufok_s st g j : Inv st g -> j < ns -> bufok np (nth j (m_s st) dq).
Proof.
  intros H Hj. apply (proj1 (Forall_forall _ _) (i_s _ _ _ _ _ H)). apply nth_In.
  rewrite (i_ns _ _ _ _ _ H). exact Hj.
Qed.

Lemma on_q_sim st g i f F G :
  Inv st g -> i < nq -> mprem f F G ->
  exists st' y, on_q st i f = Ok (st', y) /\ Inv st' g /\
                abs2 st' = aq (abs2 st) i (F (geta (a_q (abs2 st)) i)) /\
                out_abs y = G (geta (a_q (abs2 st)) i).
Proof.
  intros H Hi Hf. pose proof (nth_bufok st g i H Hi) as [Hk Hw].
  destruct (nth i (m_q st) dq) as [k bl] eqn:E. cbn [fst snd] in Hk, Hw.
  assert (Hpk : hwfpool (nth k (m_pools st) dp)).
  { apply (proj1 (Forall_forall _ _) (i_pools _ _ _ _ _ H)). apply nth_In. rewrite (i_np _ _ _ _ _ H). exact Hk. }
  destruct (Hf _ _ Hpk Hw) as (p' & bl' & y & Ef & Hp' & Hbl' & Hac & Habs & Hy).
  unfold on_q. rewrite (get2_ok (m_q st) i dq) by (rewrite (i_nq _ _ _ _ _ H); exact Hi). rewrite E. cbn [bind].
  rewrite (get2_ok (m_pools st) k dp) by (rewrite (i_np _ _ _ _ _ H); exact Hk). cbn [bind].
  rewrite Ef. cbn [bind].
  eexists _, _. split; [reflexivity|]. split; [exact (I2_upd_q st g i k bl p' bl' H Hi E Hp' Hbl' Hac)|].
  unfold abs2. cbn [m_q m_s a_q a_s]. rewrite !geta_map2, E. cbn [snd].
  split; [|exact Hy]. unfold aq. cbn [a_q a_s]. rewrite map_upd. cbn [snd]. now rewrite Habs.
Qed.

Lemma on_s_sim st g j f F G :
  Inv st g -> j < ns -> mprem f F G ->
  exists st' y, on_s st j f = Ok (st', y) /\ Inv st' g /\
                abs2 st' = as_ (abs2 st) j (F (geta (a_s (abs2 st)) j)) /\
                out_abs y = G (geta (a_s (abs2 st)) j).
Proof.
  intros H Hj Hf. pose proof (nth_bufok_s st g j H Hj) as [Hk Hw].
  destruct (nth j (m_s st) dq) as [k bl] eqn:E. cbn [fst snd] in Hk, Hw.
  assert (Hpk : hwfpool (nth k (m_pools st) dp)).
  { apply (proj1 (Forall_forall _ _) (i_pools _ _ _ _ _ H)). apply nth_In. rewrite (i_np _ _ _ _ _ H). exact Hk. }
  destruct (Hf _ _ Hpk Hw) as (p' & bl' & y & Ef & Hp' & Hbl' & Hac & Habs & Hy).
  unfold on_s. rewrite (get2_ok (m_s st) j dq) by (rewrite (i_ns _ _ _ _ _ H); exact Hj). rewrite E. cbn [bind].
  rewrite (get2_ok (m_pools st) k dp) by (rewrite (i_np _ _ _ _ _ H); exact Hk). cbn [bind].
  rewrite Ef. cbn [bind].
  eexists _, _. split; [reflexivity|]. split; [exact (I2_upd_s st g j k bl p' bl' H Hj E Hp' Hbl' Hac)|].
  unfold abs2. cbn [m_q m_s a_q a_s]. rewrite !geta_map2, E. cbn [snd].
  split; [|exact Hy]. unfold as_. cbn [a_q a_s]. rewrite map_upd. cbn [snd]. now rewrite Habs.
Qed.

(* ------------------------------------------------------------------ the methods satisfy mprem *)
Lemma acct_refl p n : acct p n p n. Proof. unfold acct. lia. Qed.

Lemma prem_qwrite d :
  mprem (fun p bl => '(p', bl') <- q_write p bl d ;; Ok (p', bl', ONone)) (fun c => c ++ d) (fun _ => ONone).
Proof.
  intros p bl Hp Hb. destruct (hq_write_spec p bl d Hp Hb) as (p' & bl' & E & ? & ? & ? & ?).
  rewrite E. cbn [bind]. eexists _, _, _. split; [reflexivity|]. tauto.
Qed.
Lemma prem_swrite d :
  mprem (fun p bl => '(p', bl') <- s_write p bl d ;; Ok (p', bl', ONone)) (fun c => d ++ c) (fun _ => ONone).
Proof.
  intros p bl Hp Hb. destruct (hs_write_spec p bl d Hp Hb) as (p' & bl' & E & ? & ? & ? & ?).
  rewrite E. cbn [bind]. eexists _, _, _. split; [reflexivity|]. tauto.
Qed.
Lemma prem_read n : mprem (m_read n) (skipn n) (fun c => OBytes (firstn n c)).
Proof.
  intros p bl Hp Hb. destruct (hbuf_read_spec bl p n Hp Hb) as (p' & bl' & E & ? & ? & ? & ?).
  unfold m_read. rewrite E. cbn [bind]. eexists _, _, _. split; [reflexivity|]. cbn [out_abs]. tauto.
Qed.
Lemma prem_read_str n : mprem (m_read_str n) (skipn n) (fun c => OBytes (firstn n c)).
Proof.
  intros p bl Hp Hb. destruct (hbuf_read_spec bl p n Hp Hb) as (p' & bl' & E & ? & ? & ? & ?).
  unfold m_read_str. rewrite buf_read_str_eq, E. cbn [bind]. eexists _, _, _. split; [reflexivity|].
  cbn [out_abs]. tauto.
Qed.
Lemma prem_peek n :
  mprem (fun p bl => o <- q_peek bl n ;; Ok (p, bl, OBytes o)) (fun c => c) (fun c => OBytes (firstn n c)).
Proof.
  intros p bl Hp Hb. rewrite (hq_peek_spec bl n Hb). cbn [bind]. eexists _, _, _. split; [reflexivity|].
  cbn [out_abs]. pose proof (acct_refl p (length bl)). tauto.
Qed.
Lemma prem_pop n : mprem (m_pop n) (skipn n) (fun _ => ONone).
Proof.
  intros p bl Hp Hb. destruct (hbuf_pop_spec bl p n Hp Hb) as (p' & bl' & E & ? & ? & ? & ?).
  unfold m_pop. rewrite E. eexists _, _, _. split; [reflexivity|]. cbn [out_abs]. tauto.
Qed.
Lemma prem_iovec : mprem m_iovec (fun c => c) (fun c => OBytes c).
Proof.
  intros p bl Hp Hb. unfold m_iovec. rewrite (hbuf_iovec_spec bl Hb). cbn [bind].
  eexists _, _, _. split; [reflexivity|]. cbn [out_abs]. rewrite concat_map_bc.
  pose proof (acct_refl p (length bl)). tauto.
Qed.
Lemma prem_clear :
  mprem (fun p bl => Ok (buf_clear p bl, [], ONone)) (fun _ => []) (fun _ => ONone).
Proof.
  intros p bl Hp Hb. destruct (hbuf_clear_spec bl p Hp Hb) as [? ?].
  eexists _, _, _. split; [reflexivity|]. split; [assumption|]. split; [constructor|].
  split; [assumption|]. split; reflexivity.
Qed.
Lemma prem_size :
  mprem (fun p bl => Ok (p, bl, ONum (buf_size bl))) (fun c => c) (fun c => ONum (length c)).
Proof.
  intros p bl Hp Hb. eexists _, _, _. split; [reflexivity|]. cbn [out_abs]. rewrite (hbuf_size_spec bl Hb).
  pose proof (acct_refl p (length bl)). tauto.
Qed.
Lemma prem_qempty :
  mprem (fun p bl => Ok (p, bl, OBool (match bl with [] => true | _ => false end)))
        (fun c => c) (fun c => OBool (is_nil c)).
Proof.
  intros p bl Hp Hb. eexists _, _, _. split; [reflexivity|]. cbn [out_abs]. rewrite (hq_empty_spec bl Hb).
  pose proof (acct_refl p (length bl)). tauto.
Qed.
Lemma prem_sempty :
  mprem (fun p bl => Ok (p, bl, OBool (match bl with [] => true | _ => buf_size bl =? 0 end)))
        (fun c => c) (fun c => OBool (is_nil c)).
Proof.
  intros p bl Hp Hb. eexists _, _, _. split; [reflexivity|]. cbn [out_abs]. rewrite (hs_empty_spec bl Hb).
  pose proof (acct_refl p (length bl)). tauto.
Qed.

Lemma abs2_len_q st g : Inv st g -> length (a_q (abs2 st)) = nq.
Proof. intros H. unfold abs2. cbn [a_q]. rewrite map_length. apply (i_nq _ _ _ _ _ H). Qed.
Lemma abs2_len_s st g : Inv st g -> length (a_s (abs2 st)) = ns.
Proof. intros H. unfold abs2. cbn [a_s]. rewrite map_length. apply (i_ns _ _ _ _ _ H). Qed.

Lemma aq_same a i : aq a i (geta (a_q a) i) = a.
Proof. destruct a as [q s]. unfold aq, geta. cbn [a_q a_s]. now rewrite upd_nth_same. Qed.
Lemma as_same a j : as_ a j (geta (a_s a) j) = a.
Proof. destruct a as [q s]. unfold as_, geta. cbn [a_q a_s]. now rewrite upd_nth_same. Qed.

Ltac local_q H Hi P :=
  let st' := fresh "st'" in let y := fresh "y" in let E := fresh "E" in
  let H' := fresh "H'" in let Ha := fresh "Ha" in let Hy := fresh "Hy" in
  destruct (on_q_sim _ _ _ _ _ _ H Hi P) as (st' & y & E & H' & Ha & Hy);
  rewrite E; exists st', y; split; [reflexivity|]; split;
  [apply (I2_ext _ _ _ _ _ _ (fun k => Z.add_0_r _) H')
  |cbn [astep]; rewrite Ha, ?aq_same, ?as_same; try rewrite Hy; reflexivity].
Ltac local_s H Hj P :=
  let st' := fresh "st'" in let y := fresh "y" in let E := fresh "E" in
  let H' := fresh "H'" in let Ha := fresh "Ha" in let Hy := fresh "Hy" in
  destruct (on_s_sim _ _ _ _ _ _ H Hj P) as (st' & y & E & H' & Ha & Hy);
  rewrite E; exists st', y; split; [reflexivity|]; split;
  [apply (I2_ext _ _ _ _ _ _ (fun k => Z.add_0_r _) H')
  |cbn [astep]; rewrite Ha, ?aq_same, ?as_same; try rewrite Hy; reflexivity].

(* one operation *)
Lemma step2_sim st g o :
  Inv st g -> op_ok2 nq ns o ->
  exists st' y, step2 st o = Ok (st', y) /\
                Inv st' (fun k => (g k + mig_delta st o k)%Z) /\
                astep (abs2 st) o = (abs2 st', out_abs y).
Proof.
  intros H [Hok Hnp].
  destruct o as [i d|i w v|i n|i n|i n|i n|i|i j|i|i|i|j d|j w v|j n|j n|j n|j|j i|j|j|j|];
    cbn [op_ok] in Hok; unfold step2; cbn [mig_delta].
  - local_q H Hok (prem_qwrite d).
  - local_q H Hok (prem_qwrite (be_bytes w v)).
  - local_q H Hok (prem_read n).
  - local_q H Hok (prem_read_str n).
  - local_q H Hok (prem_peek n).
  - local_q H Hok (prem_pop n).
  - local_q H Hok prem_iovec.
  - (* QAppendMove: blocks of queue j join queue i, whatever their pools *)
    destruct Hok as (Hi & Hj & Hij).
    destruct (Nat.eqb_spec i j) as [?|_]; [contradiction|].
    pose proof (nth_bufok st g i H Hi) as [Hka Hwa]. pose proof (nth_bufok st g j H Hj) as [Hkb Hwb].
    destruct H as [Hnpl Hps Hnq Hq Hns Hs Ht Hp].
    rewrite (get2_ok (m_q st) i dq) by lia. rewrite (get2_ok (m_q st) j dq) by lia.
    unfold tag, blk.
    destruct (nth i (m_q st) dq) as [ka a] eqn:Ea. destruct (nth j (m_q st) dq) as [kb b] eqn:Eb.
    cbn [bind fst snd] in *.
    eexists _, _. split; [reflexivity|]. split.
    + constructor; cbn [m_pools m_q m_s]; try assumption.
      * now rewrite !upd_length.
      * apply Forall_upd; [apply Forall_upd; [assumption|]|]; split; cbn [fst snd]; try assumption.
        -- apply Forall_app. split; assumption.
        -- constructor.
      * unfold total_alloc, total_free, total_held in *. cbn [m_pools m_q m_s]. rewrite sumf_app in *.
        pose proof (sumf_upd (fun kb : nat * buffer => length (snd kb)) (m_q st) i (ka, a ++ b) dq ltac:(lia)) as A1.
        pose proof (sumf_upd (fun kb : nat * buffer => length (snd kb)) (upd (m_q st) i (ka, a ++ b)) j (kb, [])
                      dq ltac:(rewrite upd_length; lia)) as A2.
        rewrite nth_upd_other in A2 by assumption. rewrite Ea in A1. rewrite Eb in A2.
        cbn [snd length] in A1, A2. rewrite app_length in A1. unfold buffer in *. lia.
      * intros k Hk. specialize (Hp k Hk). unfold alloc2, free2 in *. rewrite !held2_sumf in *.
        cbn [m_pools m_q m_s] in *. rewrite sumf_app in *.
        pose proof (sumf_upd (fun kb : nat * buffer => if fst kb =? k then length (snd kb) else 0)
                      (m_q st) i (ka, a ++ b) dq ltac:(lia)) as A1.
        pose proof (sumf_upd (fun kb : nat * buffer => if fst kb =? k then length (snd kb) else 0)
                      (upd (m_q st) i (ka, a ++ b)) j (kb, []) dq ltac:(rewrite upd_length; lia)) as A2.
        rewrite nth_upd_other in A2 by assumption. rewrite Ea in A1. rewrite Eb in A2.
        cbn [fst snd length] in A1, A2. rewrite app_length in A1.
        unfold buffer in *. destruct (ka =? k), (kb =? k); lia.
    + cbn [astep out_abs]. unfold abs2. cbn [m_q m_s a_q a_s].
      rewrite !map_upd, !geta_map2, Ea, Eb. cbn [snd]. now rewrite abs_buf_app.
  - local_q H Hok prem_clear.
  - local_q H Hok prem_size.
  - local_q H Hok prem_qempty.
  - local_s H Hok (prem_swrite d).
  - local_s H Hok (prem_swrite (be_bytes w v)).
  - local_s H Hok (prem_read n).
  - local_s H Hok (prem_read_str n).
  - local_s H Hok (prem_pop n).
  - local_s H Hok prem_iovec.
  - (* SMove: MoveToIOQueue *)
    destruct Hok as (Hj & Hi).
    pose proof (nth_bufok_s st g j H Hj) as [Hks Hws]. pose proof (nth_bufok st g i H Hi) as [Hkq Hwq].
    destruct H as [Hnpl Hps Hnq Hq Hns Hs Ht Hp].
    rewrite (get2_ok (m_s st) j dq) by lia. rewrite (get2_ok (m_q st) i dq) by lia.
    unfold tag, blk.
    destruct (nth j (m_s st) dq) as [ks s] eqn:Es. destruct (nth i (m_q st) dq) as [kq q] eqn:Eq.
    cbn [bind fst snd] in *.
    eexists _, _. split; [reflexivity|]. split.
    + constructor; cbn [m_pools m_q m_s]; try assumption.
      * now rewrite upd_length.
      * apply Forall_upd; [assumption|]. split; cbn [fst snd]; [assumption|]. apply Forall_app. split; assumption.
      * now rewrite upd_length.
      * apply Forall_upd; [assumption|]. split; cbn [fst snd]; [assumption|constructor].
      * unfold total_alloc, total_free, total_held in *. cbn [m_pools m_q m_s]. rewrite sumf_app in *.
        pose proof (sumf_upd (fun kb : nat * buffer => length (snd kb)) (m_q st) i (kq, q ++ s) dq ltac:(lia)) as A1.
        pose proof (sumf_upd (fun kb : nat * buffer => length (snd kb)) (m_s st) j (ks, []) dq ltac:(lia)) as A2.
        rewrite Eq in A1. rewrite Es in A2. cbn [snd length] in A1, A2. rewrite app_length in A1. unfold buffer in *. lia.
      * intros k Hk. specialize (Hp k Hk). unfold alloc2, free2 in *. rewrite !held2_sumf in *.
        cbn [m_pools m_q m_s] in *. rewrite sumf_app in *.
        pose proof (sumf_upd (fun kb : nat * buffer => if fst kb =? k then length (snd kb) else 0)
                      (m_q st) i (kq, q ++ s) dq ltac:(lia)) as A1.
        pose proof (sumf_upd (fun kb : nat * buffer => if fst kb =? k then length (snd kb) else 0)
                      (m_s st) j (ks, []) dq ltac:(lia)) as A2.
        rewrite Eq in A1. rewrite Es in A2. cbn [fst snd length] in A1, A2. rewrite app_length in A1.
        unfold buffer in *. destruct (kq =? k), (ks =? k); lia.
    + cbn [astep out_abs]. unfold abs2. cbn [m_q m_s a_q a_s].
      rewrite !map_upd, !geta_map2, Es, Eq. cbn [snd]. now rewrite abs_buf_app.
  - local_s H Hok prem_clear.
  - local_s H Hok prem_size.
  - local_s H Hok prem_sempty.
  - congruence.
Qed.

Lemma run2_sim : forall ops st g,
  Inv st g -> Forall (op_ok2 nq ns) ops ->
  exists st' outs, run2 st ops = Ok (st', outs) /\
                   Inv st' (fun k => (g k + mig_run st ops k)%Z) /\
                   arun (abs2 st) ops = (abs2 st', map out_abs outs).
Proof.
  induction ops as [|o r IH]; intros st g H Hok.
  { exists st, []. split; [reflexivity|]. split; [|reflexivity].
    apply (I2_ext _ _ _ _ g); [|exact H]. intros k. cbn [mig_run]. lia. }
  inversion Hok as [|? ? Ho Hr]; subst.
  destruct (step2_sim st g o H Ho) as (st1 & x & E1 & H1 & A1).
  destruct (IH st1 _ H1 Hr) as (st2 & xs & E2 & H2 & A2).
  exists st2, (x :: xs). cbn [run2 arun map mig_run]. rewrite E1. cbn [bind]. rewrite E2. cbn [bind].
  rewrite A1, A2. split; [reflexivity|]. split; [|reflexivity].
  apply (I2_ext _ _ _ _ _ _ (fun k => Z.add_assoc _ _ _)). exact H2.
Qed.

End MSim.

(* ------------------------------------------------------------------ initial state *)
Lemma sumf_zero {A} (f : A -> nat) l : (forall x, In x l -> f x = 0) -> sumf f l = 0.
Proof.
  unfold sumf. induction l as [|x l IH]; intros H; cbn [fold_right]; [reflexivity|].
  rewrite (H x (or_introl eq_refl)), IH; [reflexivity|]. intros y Hy. apply H. now right.
Qed.

Lemma I2_init bss qp sp :
  Forall (fun bs => 1 <= bs) bss ->
  Forall (fun k => k < length bss) qp -> Forall (fun k => k < length bss) sp ->
  I2 (length bss) (length qp) (length sp) (init2 bss qp sp) (fun _ => 0%Z).
Proof.
  intros Hb Hq Hs. unfold init2.
  assert (Hbuf : forall l, Forall (fun k => k < length bss) l ->
                           Forall (bufok (length bss)) (map (fun k => (k, @nil block)) l)).
  { intros l Hl. apply Forall_forall. intros x Hx. apply in_map_iff in Hx. destruct Hx as (k & <- & Hk).
    split; cbn [fst snd]; [exact (proj1 (Forall_forall _ _) Hl _ Hk)|constructor]. }
  assert (Hz : forall (f : nat * buffer -> nat) l,
             (forall k, f (k, []) = 0) -> sumf f (map (fun k => (k, @nil block)) l) = 0).
  { intros f l Hf. apply sumf_zero. intros x Hx. apply in_map_iff in Hx. destruct Hx as (k & <- & _). apply Hf. }
  constructor; cbn [m_pools m_q m_s].
  - apply map_length.
  - apply Forall_forall. intros p Hp. apply in_map_iff in Hp. destruct Hp as (bs & <- & Hin).
    split; [exact (proj1 (Forall_forall _ _) Hb _ Hin)|constructor].
  - apply map_length.
  - apply Hbuf, Hq.
  - apply map_length.
  - apply Hbuf, Hs.
  - unfold total_alloc, total_free, total_held. cbn [m_pools m_q m_s].
    rewrite !sumf_zero; try reflexivity.
    + intros x Hx. apply in_app_or in Hx. destruct Hx as [Hx|Hx]; apply in_map_iff in Hx;
        destruct Hx as (k & <- & _); reflexivity.
    + intros p Hp. apply in_map_iff in Hp. destruct Hp as (bs & <- & _). reflexivity.
    + intros p Hp. apply in_map_iff in Hp. destruct Hp as (bs & <- & _). reflexivity.
  - intros k Hk. unfold alloc2, free2. rewrite held2_sumf. cbn [m_pools m_q m_s].
    change (p_new 0) with (p_new (@id nat 0)). unfold id.
    rewrite (map_nth p_new bss 0 k). cbn [p_new p_alloc p_free length].
    rewrite sumf_app, !Hz; [reflexivity| |]; intros k0; cbn [fst snd length]; destruct (k0 =? k); reflexivity.
Qed.

Lemma map_const_repeat {A B} (l : list A) (c : B) : map (fun _ => c) l = repeat c (length l).
Proof. induction l as [|x l IH]; cbn [map length repeat]; [reflexivity|]. now rewrite IH. Qed.

Lemma abs2_init bss qp sp : abs2 (init2 bss qp sp) = ainit (length qp) (length sp).
Proof.
  unfold abs2, init2, ainit. cbn [m_q m_s]. rewrite !map_map. cbn [snd abs_buf flat_map].
  now rewrite !map_const_repeat.
Qed.

(* ------------------------------------------------------------------ theorems over histories *)
Definition multi_ok (bss qp sp : list nat) (ops : list op) : Prop :=
  Forall (fun bs => 1 <= bs) bss /\
  Forall (fun k => k < length bss) qp /\ Forall (fun k => k < length bss) sp /\
  Forall (op_ok2 (length qp) (length sp)) ops.

Lemma multi_reach bss qp sp ops :
  multi_ok bss qp sp ops ->
  exists st outs, run2 (init2 bss qp sp) ops = Ok (st, outs) /\
    I2 (length bss) (length qp) (length sp) st (fun k => mig_run (init2 bss qp sp) ops k) /\
    arun (ainit (length qp) (length sp)) ops = (abs2 st, map out_abs outs).
Proof.
  intros (Hb & Hq & Hs & Hok).
  destruct (run2_sim _ _ _ ops _ _ (I2_init bss qp sp Hb Hq Hs) Hok) as (st & outs & E & HI & A).
  exists st, outs. split; [exact E|]. split.
  - apply (I2_ext _ _ _ _ _ _ (fun k => eq_sym (Z.add_0_l _))). exact HI.
  - rewrite <- abs2_init with (bss := bss). exact A.
Qed.

Lemma multi_refines bss qp sp ops :
  multi_ok bss qp sp ops ->
  exists st outs, run2 (init2 bss qp sp) ops = Ok (st, outs) /\
                  arun (ainit (length qp) (length sp)) ops = (abs2 st, map out_abs outs).
Proof. intros H. destruct (multi_reach _ _ _ _ H) as (st & outs & E & _ & A). eauto. Qed.

Lemma multi_accounting bss qp sp ops st outs :
  multi_ok bss qp sp ops -> run2 (init2 bss qp sp) ops = Ok (st, outs) ->
  total_alloc st = total_free st + total_held st /\
  (forall k, k < length bss ->
     (Z.of_nat (alloc2 st k) + mig_run (init2 bss qp sp) ops k =
      Z.of_nat (free2 st k) + Z.of_nat (held2 st k))%Z) /\
  (forall p b, In p (m_pools st) -> In b (p_free p) ->
     b_first b = 0 /\ b_last b = 0 /\ length (b_data b) = b_cap b /\ 1 <= b_cap b).
Proof.
  intros H E. destruct (multi_reach _ _ _ _ H) as (st' & outs' & E' & HI & _).
  rewrite E in E'. inversion E'; subst st' outs'.
  split; [exact (i_total _ _ _ _ _ HI)|]. split; [exact (i_pool _ _ _ _ _ HI)|].
  intros p b Hp Hb.
  pose proof (proj1 (Forall_forall _ _) (i_pools _ _ _ _ _ HI) _ Hp) as [_ Hf].
  pose proof (proj1 (Forall_forall _ _) Hf _ Hb) as ((_ & ?) & ? & ? & ?). tauto.
Qed.

Lemma multi_buffers bss qp sp ops st outs :
  multi_ok bss qp sp ops -> run2 (init2 bss qp sp) ops = Ok (st, outs) ->
  (forall i, i < length qp ->
     buf_size (blk (m_q st) i) = length (geta (a_q (fst (arun (ainit (length qp) (length sp)) ops))) i) /\
     exists v, buf_iovec (blk (m_q st) i) = Ok v /\ length v = length (blk (m_q st) i) /\
               Forall (fun s => s <> []) v /\
               concat v = geta (a_q (fst (arun (ainit (length qp) (length sp)) ops))) i) /\
  (forall j, j < length sp ->
     buf_size (blk (m_s st) j) = length (geta (a_s (fst (arun (ainit (length qp) (length sp)) ops))) j) /\
     exists v, buf_iovec (blk (m_s st) j) = Ok v /\ length v = length (blk (m_s st) j) /\
               Forall (fun s => s <> []) v /\
               concat v = geta (a_s (fst (arun (ainit (length qp) (length sp)) ops))) j) /\
  (forall kb b, In kb (m_q st ++ m_s st) -> In b (snd kb) ->
     b_first b < b_last b /\ b_last b <= b_cap b /\ length (b_data b) = b_cap b).
Proof.
  intros H E. destruct (multi_reach _ _ _ _ H) as (st' & outs' & E' & HI & A).
  rewrite E in E'. inversion E'; subst st' outs'. rewrite A. cbn [fst].
  assert (Hnon : forall bl, hwfbuf bl -> Forall (fun s : list N => s <> []) (map bc bl)).
  { intros bl Hw. apply Forall_forall. intros s Hs. apply in_map_iff in Hs. destruct Hs as (b & <- & Hb).
    pose proof (proj1 (Forall_forall _ _) Hw _ Hb) as Hwb.
    destruct (hwfb_shape _ Hwb) as [Hsh Hrg]. pose proof (bc_length _ b Hsh Hrg) as Hl.
    destruct Hwb as (_ & ? & _). unfold b_size in Hl. destruct (bc b); [cbn [length] in Hl; lia|discriminate]. }
  split; [|split].
  - intros i Hi. pose proof (nth_bufok _ _ _ st _ i HI Hi) as [_ Hw].
    unfold abs2. cbn [a_q]. rewrite geta_map2. fold (blk (m_q st) i) in *.
    split; [exact (hbuf_size_spec _ Hw)|].
    exists (map bc (blk (m_q st) i)). split; [exact (hbuf_iovec_spec _ Hw)|]. split; [apply map_length|].
    split; [exact (Hnon _ Hw)|apply concat_map_bc].
  - intros j Hj. pose proof (nth_bufok_s _ _ _ st _ j HI Hj) as [_ Hw].
    unfold abs2. cbn [a_s]. rewrite geta_map2. fold (blk (m_s st) j) in *.
    split; [exact (hbuf_size_spec _ Hw)|].
    exists (map bc (blk (m_s st) j)). split; [exact (hbuf_iovec_spec _ Hw)|]. split; [apply map_length|].
    split; [exact (Hnon _ Hw)|apply concat_map_bc].
  - intros kb b Hkb Hb.
    assert (Hw : hwfbuf (snd kb)).
    { apply in_app_or in Hkb. destruct Hkb as [Hkb|Hkb];
        [exact (proj2 (proj1 (Forall_forall _ _) (i_q _ _ _ _ _ HI) _ Hkb))
        |exact (proj2 (proj1 (Forall_forall _ _) (i_s _ _ _ _ _ HI) _ Hkb))]. }
    pose proof (proj1 (Forall_forall _ _) Hw _ Hb) as ((_ & ?) & ? & ?). tauto.
Qed.
