(* C15 round 4: vocabulary for the theorems about several pools (model: Multi.v).  No proofs. *)
From OlaBase Require Import Bytes.
From Coq Require Import Arith.
From C15 Require Import Model Spec ProofsBlock Multi.
Local Open Scope nat_scope.

Fixpoint run2 (st : state2) (ops : list op) : res (state2 * list out) :=
  match ops with
  | [] => Ok (st, [])
  | o :: r => '(st1, x) <- step2 st o ;; '(st2, xs) <- run2 st1 r ;; Ok (st2, x :: xs)
  end.

(* the bytes every buffer holds: [m_first, m_last) of its blocks, front first; pools are invisible *)
Definition abs2 (st : state2) : astate :=
  mkA (map (fun kb => abs_buf (snd kb)) (m_q st)) (map (fun kb => abs_buf (snd kb)) (m_s st)).

(* MemoryBlockPool::Purge is not part of these histories (its counter arithmetic is in Cross.v) *)
Definition op_ok2 (nq ns : nat) (o : op) : Prop := op_ok nq ns o /\ o <> PoolPurge.

Definition dq : nat * buffer := (0, []).
Definition tag (l : list (nat * buffer)) (i : nat) : nat := fst (nth i l dq).
Definition blk (l : list (nat * buffer)) (i : nat) : buffer := snd (nth i l dq).

(* per pool k: BlocksAllocated(), FreeBlocks() *)
Definition alloc2 (st : state2) (k : nat) : nat := p_alloc (nth k (m_pools st) (p_new 0)).
Definition free2 (st : state2) (k : nat) : nat := length (p_free (nth k (m_pools st) (p_new 0))).

(* totals over all pools / all buffers *)
Definition sumf {A} (f : A -> nat) (l : list A) : nat := fold_right (fun x a => f x + a) 0 l.
Definition total_alloc (st : state2) : nat := sumf p_alloc (m_pools st).
Definition total_free (st : state2) : nat := sumf (fun p => length (p_free p)) (m_pools st).
Definition total_held (st : state2) : nat := sumf (fun kb => length (snd kb)) (m_q st ++ m_s st).

(* MIGRATION.  The only operations that carry blocks from a buffer of one pool to a buffer of
   another are the two moves.  [mig_delta st o k] = blocks that operation o, executed in state st,
   brings INTO the buffers of pool k minus those it takes OUT of them; [mig_run] sums it over a
   history.  (A move between buffers of the same pool contributes 0.) *)
Definition mig_delta (st : state2) (o : op) (k : nat) : Z :=
  match o with
  | QAppendMove i j =>
    let n := Z.of_nat (length (blk (m_q st) j)) in
    ((if Nat.eqb (tag (m_q st) i) k then n else 0) - (if Nat.eqb (tag (m_q st) j) k then n else 0))%Z
  | SMove j i =>
    let n := Z.of_nat (length (blk (m_s st) j)) in
    ((if Nat.eqb (tag (m_q st) i) k then n else 0) - (if Nat.eqb (tag (m_s st) j) k then n else 0))%Z
  | _ => 0%Z
  end.

Fixpoint mig_run (st : state2) (ops : list op) (k : nat) : Z :=
  match ops with
  | [] => 0%Z
  | o :: r => match step2 st o with
              | Ok (st', _) => (mig_delta st o k + mig_run st' r k)%Z
              | _ => 0%Z
              end
  end.
