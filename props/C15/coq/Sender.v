(* C15 round 2 model: NonBlockingSender (common/io/NonBlockingSender.cpp) over
   ConnectedDescriptor::Send(IOQueue ptr) (common/io/Descriptor.cpp), BigEndianInputStream over an
   IOQueue and over a MemoryBuffer (include/ola/io/BigEndianStream.h, InputStream.h,
   MemoryBuffer.h), and the `unsigned int` arithmetic of IOQueue::Size().  No proofs here.

   The extended state is the state of Model.v (queues, stacks, one pool) in which QUEUE 0 IS THE
   SENDER'S PRIVATE m_output_buffer, plus m_associated and the SelectServer's write registration
   of the descriptor.  The descriptor's sendmsg()/writev() is an input: each PerformWrite carries
   the result the kernel gives, None = error (-1) or Some k = "accept up to k bytes" (a real
   sendmsg never accepts more than it was offered, so min k offered bytes are taken). *)
From OlaBase Require Import Bytes.
From Coq Require Import Arith.
From C15 Require Import Model Spec.
Local Open Scope nat_scope.

(* IOQueue::Size(): `unsigned int size = 0; for (...) size += block->Size();` *)
Definition size32 (bl : buffer) : N :=
  fold_left (fun acc b => u32 (acc + N.of_nat (b_size b))) bl 0%N.

(* ------------------------------------------------------------------ MemoryBuffer *)
Record mbuf := mkM { m_data : list N; m_size : nat; m_cursor : nat }.
Definition mb_new (d : list N) : mbuf := mkM d (length d) 0.
(* both Read overloads: data_size = min(m_size - m_cursor, length); copy; m_cursor += data_size *)
Definition mb_read (m : mbuf) (len : nat) : res (mbuf * list N) :=
  let n := Nat.min (m_size m - m_cursor m) len in
  o <- mem_read (m_data m) (m_cursor m) n ;;
  Ok (mkM (m_data m) (m_size m) (m_cursor m + n), o).

(* one call on a (BigEndianInputStream over a) MemoryBuffer *)
Inductive mread :=
| MRead (n : nat)          (* MemoryBuffer::Read(uint8_t ptr, n) *)
| MStr (n : nat)           (* ReadString(&s, n) -> MemoryBuffer::Read(string ptr, n) *)
| MIn (w : nat).           (* stream >> uintW_t: Read(&val, w) *)
Definition mread_len (r : mread) : nat := match r with MRead n | MStr n | MIn n => n end.

Fixpoint mb_run (m : mbuf) (script : list mread) : res (list (list N)) :=
  match script with
  | [] => Ok []
  | r :: rest => '(m', o) <- mb_read m (mread_len r) ;; os <- mb_run m' rest ;; Ok (o :: os)
  end.

(* NetworkToHost of the w bytes that were read into the value *)
Fixpoint be_value (l : list N) : N :=
  match l with
  | [] => 0%N
  | x :: r => (x * 256 ^ N.of_nat (length r) + be_value r)%N
  end.

(* ------------------------------------------------------------------ extended operations *)
Inductive xop :=
| UOp (o : op)                 (* the application builds messages in the other buffers *)
| SendS (j : nat)              (* sender.SendMessage(IOStack j) *)
| SendQ (i : nat)              (* sender.SendMessage(IOQueue i) *)
| PWrite (r : option nat)      (* on-writable callback -> PerformWrite(), kernel result r *)
| Limit                        (* sender.LimitReached() *)
| QIn (i w : nat)              (* BigEndianInputStream(queue i) >> uint{8w}_t *)
| MBuf (d : list N) (script : list mread).  (* a MemoryBuffer over d, then the calls of script *)

Inductive xout :=
| XUser (y : out)
| XBool (b : bool)
| XSent (r : option (list N))  (* bytes the descriptor accepted, None = error *)
| XIn (ok : bool) (v : N)      (* v is meaningful only when ok *)
| XMB (l : list (list N)).

Record xstate := mkX { x_st : state; x_assoc : bool; x_reg : bool }.

Definition xinit (bs nq ns : nat) : xstate := mkX (init bs nq ns) false false.

Definition q0_empty (st : state) : res bool :=                    (* m_output_buffer.Empty() *)
  bl <- getb (s_q st) 0 ;; Ok (match bl with [] => true | _ => false end).

(* AssociateIfRequired() *)
Definition associate (x : xstate) (st' : state) : res xstate :=
  e <- q0_empty st' ;;
  Ok (if e then mkX st' (x_assoc x) (x_reg x) else mkX st' true true).

(* LimitReached(): m_output_buffer.Size() >= m_max_buffer_size, both unsigned int *)
Definition limit_reached (max : N) (st : state) : res bool :=
  bl <- getb (s_q st) 0 ;; Ok (max <=? size32 bl)%N.

Definition xstep (max : N) (x : xstate) (o : xop) : res (xstate * xout) :=
  let st := x_st x in
  match o with
  | UOp o => '(st', y) <- step st o ;; Ok (mkX st' (x_assoc x) (x_reg x), XUser y)
  | SendS j =>
    l <- limit_reached max st ;;
    if l then Ok (x, XBool false)
    else '(st', _) <- step st (SMove j 0) ;; x' <- associate x st' ;; Ok (x', XBool true)
  | SendQ i =>
    l <- limit_reached max st ;;
    if l then Ok (x, XBool false)
    else '(st', _) <- step st (QAppendMove 0 i) ;; x' <- associate x st' ;; Ok (x', XBool true)
  | PWrite r =>
    (* ConnectedDescriptor::Send(IOQueue ptr): AsIOVec, sendmsg/writev, Pop(bytes_sent) *)
    bl <- getb (s_q st) 0 ;; v <- buf_iovec bl ;;
    let all := concat v in
    '(st', sent) <- match r with
                    | None => Ok (st, None)                         (* bytes_sent < 0: no Pop *)
                    | Some k =>
                      let n := Nat.min k (length all) in
                      '(st', _) <- step st (QPop 0 n) ;; Ok (st', Some (firstn n all))
                    end ;;
    e <- q0_empty st' ;;
    Ok (if e && x_assoc x then mkX st' false false            (* RemoveWriteDescriptor *)
        else mkX st' (x_assoc x) (x_reg x), XSent sent)
  | Limit => l <- limit_reached max st ;; Ok (x, XBool l)
  | QIn i w =>
    '(st', y) <- step st (QRead i w) ;;
    match y with
    | OBytes got => Ok (mkX st' (x_assoc x) (x_reg x), XIn (length got =? w) (be_value got))
    | _ => Undef
    end
  | MBuf d script => l <- mb_run (mb_new d) script ;; Ok (x, XMB l)
  end.

Fixpoint xrun (max : N) (x : xstate) (ops : list xop) : res (xstate * list xout) :=
  match ops with
  | [] => Ok (x, [])
  | o :: r => '(x1, y) <- xstep max x o ;; '(x2, ys) <- xrun max x1 r ;; Ok (x2, y :: ys)
  end.

(* ------------------------------------------------------------------ specification *)
(* Written from the property text: the sender's output buffer is a byte list (queue 0 of the
   abstract state); [ax_queued] records, in order, the content of every message SendMessage
   accepted; [ax_sent] records, in order, every byte the descriptor accepted. *)
Record axstate := mkAX { ax_a : astate; ax_assoc : bool; ax_queued : list N; ax_sent : list N }.

Definition axinit (nq ns : nat) : axstate := mkAX (ainit nq ns) false [] [].

(* what Size() reports for a buffer holding c *)
Definition alen32 (c : list N) : N := u32 (N.of_nat (length c)).

Fixpoint mb_spec (d : list N) (script : list mread) : list (list N) :=
  match script with
  | [] => []
  | r :: rest => firstn (mread_len r) d :: mb_spec (skipn (mread_len r) d) rest
  end.

Definition axstep (max : N) (ax : axstate) (o : xop) : axstate * xout :=
  let a := ax_a ax in
  let c0 := geta (a_q a) 0 in
  match o with
  | UOp o => let '(a', y) := astep a o in
             (mkAX a' (ax_assoc ax) (ax_queued ax) (ax_sent ax), XUser y)
  | SendS j =>
    if (max <=? alen32 c0)%N then (ax, XBool false)
    else let m := geta (a_s a) j in
         (mkAX (fst (astep a (SMove j 0))) (ax_assoc ax || negb (is_nil (c0 ++ m)))
               (ax_queued ax ++ m) (ax_sent ax), XBool true)
  | SendQ i =>
    if (max <=? alen32 c0)%N then (ax, XBool false)
    else let m := geta (a_q a) i in
         (mkAX (fst (astep a (QAppendMove 0 i))) (ax_assoc ax || negb (is_nil (c0 ++ m)))
               (ax_queued ax ++ m) (ax_sent ax), XBool true)
  | PWrite None =>
    (mkAX a (if is_nil c0 && ax_assoc ax then false else ax_assoc ax) (ax_queued ax) (ax_sent ax),
     XSent None)
  | PWrite (Some k) =>
    let n := Nat.min k (length c0) in
    (mkAX (fst (astep a (QPop 0 n)))
          (if is_nil (skipn n c0) && ax_assoc ax then false else ax_assoc ax)
          (ax_queued ax) (ax_sent ax ++ firstn n c0),
     XSent (Some (firstn n c0)))
  | Limit => (ax, XBool (max <=? alen32 c0)%N)
  | QIn i w =>
    let c := geta (a_q a) i in
    (mkAX (aq a i (skipn w c)) (ax_assoc ax) (ax_queued ax) (ax_sent ax),
     XIn (length (firstn w c) =? w) (be_value (firstn w c)))
  | MBuf d script => (ax, XMB (mb_spec d script))
  end.

Fixpoint axrun (max : N) (ax : axstate) (ops : list xop) : axstate * list xout :=
  match ops with
  | [] => (ax, [])
  | o :: r => let '(a1, y) := axstep max ax o in let '(a2, ys) := axrun max a1 r in (a2, y :: ys)
  end.

Definition xout_abs (y : xout) : xout :=
  match y with XUser y => XUser (out_abs y) | _ => y end.

(* the application never touches the sender's private buffer (queue 0) *)
Definition op_q0_free (o : op) : Prop :=
  match o with
  | QWrite i _ | QWriteBE i _ _ | QRead i _ | QReadStr i _ | QPeek i _ | QPop i _ | QIOVec i
  | QClear i | QSize i | QEmpty i => i <> 0
  | QAppendMove i j => i <> 0 /\ j <> 0
  | SMove _ i => i <> 0
  | _ => True
  end.

Definition xop_ok (nq ns : nat) (o : xop) : Prop :=
  match o with
  | UOp o => op_ok nq ns o /\ op_q0_free o
  | SendS j => j < ns
  | SendQ i => i < nq /\ i <> 0
  | QIn i _ => i < nq /\ i <> 0
  | PWrite _ | Limit | MBuf _ _ => True
  end.

(* the bytes the descriptor accepted over a history, read off the outputs *)
Fixpoint sent_of (ys : list xout) : list N :=
  match ys with
  | [] => []
  | XSent (Some l) :: r => l ++ sent_of r
  | _ :: r => sent_of r
  end.
