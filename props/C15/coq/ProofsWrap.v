(* C15 round 2 proofs: where `unsigned int` arithmetic is visible.  Lengths passed to Read / Pop /
   Write are unsigned int inputs and the loop counters never exceed them, MemoryBuffer keeps
   m_cursor <= m_size, so the only 32-bit quantities that can wrap are the SUM computed by
   IOQueue::Size() / IOStack::Size() (hence NonBlockingSender::LimitReached()) and the pool's
   m_blocks_allocated counter.  [size32] is Size() as the code computes it. *)
From OlaBase Require Import Bytes.
From Coq Require Import Arith.
From C15 Require Import Model Spec Sender ProofsBlock Proofs ProofsSender.
Local Open Scope nat_scope.

Lemma size32_wf bs bl :
  wfbuf bs bl -> size32 bl = (N.of_nat (length (abs_buf bl)) mod 2 ^ 32)%N.
Proof. intros H. rewrite size32_spec, (buf_size_spec bs bl H). reflexivity. Qed.

Lemma size32_guard bs bl :
  wfbuf bs bl -> (N.of_nat (length (abs_buf bl)) < 2 ^ 32)%N ->
  size32 bl = N.of_nat (length (abs_buf bl)) /\ size32 bl = N.of_nat (buf_size bl).
Proof.
  intros H Hlt. rewrite (size32_wf bs bl H), (buf_size_spec bs bl H).
  rewrite N.mod_small by exact Hlt. split; reflexivity.
Qed.

Lemma size32_thm bs nq ns ops st outs bl :
  1 <= bs -> Forall (op_ok nq ns) ops -> run (init bs nq ns) ops = Ok (st, outs) ->
  In bl (s_q st ++ s_s st) ->
  size32 bl = (N.of_nat (length (abs_buf bl)) mod 2 ^ 32)%N /\
  ((N.of_nat (length (abs_buf bl)) < 2 ^ 32)%N ->
   size32 bl = N.of_nat (length (abs_buf bl)) /\ size32 bl = N.of_nat (buf_size bl)).
Proof.
  intros Hbs Hok E Hin. destruct (reach_inv _ _ _ _ _ _ Hbs Hok E) as [Hi _].
  assert (Hw : wfbuf bs bl).
  { apply in_app_or in Hin. destruct Hin as [Hin|Hin];
      [exact (proj1 (Forall_forall _ _) (inv_q _ _ _ _ Hi) _ Hin)
      |exact (proj1 (Forall_forall _ _) (inv_s _ _ _ _ Hi) _ Hin)]. }
  split; [exact (size32_wf bs bl Hw)|exact (size32_guard bs bl Hw)].
Qed.

(* what goes wrong without the guard: a (well-formed) queue that holds exactly 2^32 bytes reports
   Size() = 0 while Empty() is false, and a sender with that queue as its output buffer says
   LimitReached() = false for a 1-byte limit *)
Lemma wrap_witness (K : nat) :
  N.of_nat K = (2 ^ 32)%N ->
  wfbuf K [mkB K 0 K (repeat 0%N K)] /\
  length (abs_buf [mkB K 0 K (repeat 0%N K)]) = K /\
  size32 [mkB K 0 K (repeat 0%N K)] = 0%N /\
  limit_reached 1 (mkS (p_new K) [[mkB K 0 K (repeat 0%N K)]] []) = Ok false.
Proof.
  intros HK. change (2 ^ 32)%N with 4294967296%N in HK.
  assert (Hw : wfbuf K [mkB K 0 K (repeat 0%N K)]).
  { constructor; [|constructor]. split; [split; [reflexivity|apply repeat_length]|].
    cbn [b_first b_last]. lia. }
  assert (Hs : buf_size [mkB K 0 K (repeat 0%N K)] = K).
  { change (buf_size [mkB K 0 K (repeat 0%N K)]) with ((K - 0) + 0). lia. }
  assert (H32 : size32 [mkB K 0 K (repeat 0%N K)] = 0%N).
  { rewrite size32_spec, Hs, HK. reflexivity. }
  split; [exact Hw|]. split; [now rewrite <- (buf_size_spec K _ Hw)|]. split; [exact H32|].
  unfold limit_reached. cbn [s_q getb nth_error bind]. now rewrite H32.
Qed.
