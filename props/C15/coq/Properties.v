(* C15 — IOQueue and IOStack conserve bytes and ordering.
   Only theorem statements here; proofs are in ProofsBlock.v / Proofs.v.

   Vocabulary (Model.v, Spec.v):
     init bs nq ns        nq IOQueues and ns IOStacks, all empty, sharing one MemoryBlockPool(bs)
     op                   Write / BigEndianOutputStream<< / Read(memory) / Read(string) /
                          Peek / Pop / AsIOVec / AppendMove / Clear / Size / Empty on queue i,
                          Write / << / Read x2 / Pop / AsIOVec / MoveToIOQueue / ~IOStack / Size /
                          Empty on stack j, MemoryBlockPool::Purge
     run st ops           the concrete model (blocks with m_first/m_last offsets and a byte array,
                          deques of blocks, the pool's free list and counter); its result is
                          Ok (state, outputs) or one of the hazards Oob / OutOfFuel / Undef
     arun a ops           the specification written from the property text: every buffer is a
                          list of bytes; queue writes append, stack writes prepend, reads / pops
                          take from the front, moves concatenate, AsIOVec shows everything
     op_ok nq ns o        o names buffers that exist; AppendMove is not given the queue itself
     abs st               the byte list of every buffer = concatenation of [m_first, m_last) of
                          its blocks, front block first (written out in c15_abs below)            *)
From OlaBase Require Import Bytes.
From C15 Require Import Model Spec Sender ProofsBlock Proofs ProofsSender ProofsStream ProofsWrap Cross ProofsCross
  ProofsHetero Multi MultiSpec ProofsMulti Len32 ProofsLen32
  ProofsStream ProofsPurge Sender2 ProofsSender2 Dump ProofsDump ProofsDestroy.
Local Open Scope nat_scope.

(* what "the bytes a buffer holds" means concretely *)
Theorem c15_abs : forall st,
  abs st =
  mkA (map (flat_map (fun b => firstn (b_last b - b_first b) (skipn (b_first b) (b_data b)))) (s_q st))
      (map (flat_map (fun b => firstn (b_last b - b_first b) (skipn (b_first b) (b_data b)))) (s_s st)).
Proof. exact (fun st => eq_refl). Qed.
Print Assumptions c15_abs.

(* Conservation and ordering.  For every pool block size >= 1, any number of queues and stacks
   over that pool and EVERY history of operations: no hazard occurs (no memcpy outside a block,
   no front()/back() of an empty deque, every Write loop terminates), and the history is matched
   step by step by the list specification: the final contents agree and every output of every
   operation (bytes returned by Read / Read(string) / Peek, Size, Empty, the concatenated iovec)
   is the one the specification gives.  Hence bytes come out exactly as they went in, in write
   order for a queue and newest write first for a stack, and a byte that was read or popped is
   gone (read returns firstn n, leaves skipn n). *)
Theorem c15_refines : forall bs nq ns ops,
  1 <= bs -> Forall (op_ok nq ns) ops ->
  exists st outs, run (init bs nq ns) ops = Ok (st, outs) /\
                  arun (ainit nq ns) ops = (abs st, map out_abs outs).
Proof. exact refines. Qed.
Print Assumptions c15_refines.

(* The same, one operation at a time from any state that satisfies the invariant (which every
   reachable state does, c15_reach_inv): abs commutes with every single operation. *)
Theorem c15_step : forall bs nq ns st o,
  1 <= bs -> inv bs nq ns st -> op_ok nq ns o ->
  exists st' x, step st o = Ok (st', x) /\ inv bs nq ns st' /\
                astep (abs st) o = (abs st', out_abs x).
Proof. exact (fun bs nq ns st o Hbs => step_sim bs nq ns Hbs st o). Qed.
Print Assumptions c15_step.

Theorem c15_reach_inv : forall bs nq ns ops st outs,
  1 <= bs -> Forall (op_ok nq ns) ops -> run (init bs nq ns) ops = Ok (st, outs) ->
  inv bs nq ns st /\ arun (ainit nq ns) ops = (abs st, map out_abs outs).
Proof. exact reach_inv. Qed.
Print Assumptions c15_reach_inv.

(* Size.  After every history, Size() of every buffer (the sum of m_last - m_first over its
   blocks) is the number of bytes the specification says it holds; by c15_ledger that number is
   bytes written minus bytes consumed. *)
Theorem c15_size : forall bs nq ns ops st outs,
  1 <= bs -> Forall (op_ok nq ns) ops -> run (init bs nq ns) ops = Ok (st, outs) ->
  (forall i, i < nq ->
     buf_size (nth i (s_q st) []) = length (geta (a_q (fst (arun (ainit nq ns) ops))) i)) /\
  (forall j, j < ns ->
     buf_size (nth j (s_s st) []) = length (geta (a_s (fst (arun (ainit nq ns) ops))) j)).
Proof. exact size_thm. Qed.
Print Assumptions c15_size.

(* Written minus consumed, at the level of the specification: for every buffer k the length of
   its content after a history equals the bytes put into it (writes, blocks moved in) minus the
   bytes taken out of it (bytes returned by reads, bytes popped, cleared, blocks moved out),
   both counted by [ledger] along the history. *)
Theorem c15_ledger : forall nq ns ops k,
  Forall (op_ok nq ns) ops -> kid_ok nq ns k ->
  let '(w, c) := ledger (ainit nq ns) ops k in
  length (content (fst (arun (ainit nq ns) ops)) k) + c = w.
Proof. exact ledger_thm. Qed.
Print Assumptions c15_ledger.

(* Pool.  After every history: allocated = free + held by buffers; no buffer holds an empty
   block (a block that was emptied by Read / Read(string) / Pop has left its buffer in the same
   operation, and by the first clause it is on the free list and not lost); held blocks are in
   bounds; every block on the free list is reset, so a re-used block never shows old bytes. *)
Theorem c15_pool : forall bs nq ns ops st outs,
  1 <= bs -> Forall (op_ok nq ns) ops -> run (init bs nq ns) ops = Ok (st, outs) ->
  blocks_allocated st = free_blocks st + in_use st /\
  (forall bl b, In bl (s_q st ++ s_s st) -> In b bl ->
     b_first b < b_last b /\ b_last b <= bs /\ b_cap b = bs /\ length (b_data b) = bs) /\
  (forall b, In b (p_free (s_pool st)) -> b_first b = 0 /\ b_last b = 0 /\ b_cap b = bs).
Proof. exact pool_thm. Qed.
Print Assumptions c15_pool.

(* Scatter-gather export.  After every history, AsIOVec of every buffer succeeds with one vector
   per block, none of them empty, and their concatenation is exactly the buffer's content. *)
Theorem c15_iovec : forall bs nq ns ops st outs,
  1 <= bs -> Forall (op_ok nq ns) ops -> run (init bs nq ns) ops = Ok (st, outs) ->
  (forall i, i < nq -> exists v,
     buf_iovec (nth i (s_q st) []) = Ok v /\ length v = length (nth i (s_q st) []) /\
     Forall (fun s => s <> []) v /\
     concat v = geta (a_q (fst (arun (ainit nq ns) ops))) i) /\
  (forall j, j < ns -> exists v,
     buf_iovec (nth j (s_s st) []) = Ok v /\ length v = length (nth j (s_s st) []) /\
     Forall (fun s => s <> []) v /\
     concat v = geta (a_s (fst (arun (ainit nq ns) ops))) j).
Proof. exact iovec_thm. Qed.
Print Assumptions c15_iovec.

(* ================================================================== round 2 ===================
   Sender.v: the extended state is the state above in which QUEUE 0 IS NonBlockingSender's private
   m_output_buffer, plus m_associated and the select server's write registration.  xop adds
   SendMessage(IOStack j) / SendMessage(IOQueue i) / PerformWrite with the kernel's answer as an
   input (None = sendmsg/writev failed, Some k = it accepts at most k bytes) / LimitReached /
   BigEndianInputStream(queue i) >> uintW / a MemoryBuffer with a script of reads; UOp o is any
   operation of the application on the OTHER buffers (xop_ok: it never touches queue 0).
   axrun is the specification: byte lists, plus two records written from the property text:
   ax_queued = the contents of the messages SendMessage accepted, in order; ax_sent = the bytes
   the descriptor accepted, in order. *)

(* NonBlockingSender conserves.  For every block size, any buffers, any limit, EVERY history of
   application operations, SendMessage calls, PerformWrite calls with ANY kernel answers (any
   partial length, zero, more than offered, errors), LimitReached calls and stream reads:
   no hazard; all outputs are the specification's; the bytes the descriptor accepted (sent_of
   outs, read off the PerformWrite outputs) followed by the bytes still pending in the output
   buffer are exactly the accepted messages in order - so what was sent is a prefix of what was
   queued, nothing is sent twice or dropped, and when the buffer is empty everything queued has
   been sent; a SendMessage refused by the limit leaves its message where it was (it is not in
   ax_queued and the specification state is unchanged); the descriptor is registered for
   writing exactly when bytes are pending; the pool accounting still holds. *)
Theorem c15_sender_conserves : forall bs nq ns max ops,
  1 <= bs -> 1 <= nq -> Forall (xop_ok nq ns) ops ->
  exists x outs,
    xrun max (xinit bs nq ns) ops = Ok (x, outs) /\
    let ax := fst (axrun max (axinit nq ns) ops) in
    let pending := abs_buf (nth 0 (s_q (x_st x)) []) in
    map xout_abs outs = snd (axrun max (axinit nq ns) ops) /\
    abs (x_st x) = ax_a ax /\
    sent_of outs ++ pending = ax_queued ax /\
    (pending = [] -> sent_of outs = ax_queued ax) /\
    x_assoc x = negb (is_nil pending) /\ x_reg x = x_assoc x /\
    inv bs nq ns (x_st x) /\
    blocks_allocated (x_st x) = free_blocks (x_st x) + in_use (x_st x).
Proof. exact sender_conserves. Qed.
Print Assumptions c15_sender_conserves.

(* Stream round trip.  In any state reached by any history, if queue i (not the sender's) is
   empty, then writing any values of any widths with BigEndianOutputStream and reading the same
   widths back with BigEndianInputStream succeeds (ok = true) with exactly the values written
   (modulo 256^w, i.e. the value itself when it fits the type), for every block size, and leaves
   the queue empty.  (The first |vals| outputs are the writes' void results.) *)
Theorem c15_stream_roundtrip : forall bs nq ns max pre (vals : list (nat * N)) i x0 outs0,
  1 <= bs -> 1 <= nq -> Forall (xop_ok nq ns) pre -> i < nq -> i <> 0 ->
  xrun max (xinit bs nq ns) pre = Ok (x0, outs0) ->
  abs_buf (nth i (s_q (x_st x0)) []) = [] ->
  exists x1 outs,
    xrun max x0 (map (fun wv => UOp (QWriteBE i (fst wv) (snd wv))) vals ++
                 map (fun wv => QIn i (fst wv)) vals) = Ok (x1, outs) /\
    map xout_abs outs =
      map (fun _ => XUser ONone) vals ++
      map (fun wv => XIn true (snd wv mod 256 ^ N.of_nat (fst wv))%N) vals /\
    abs_buf (nth i (s_q (x_st x1)) []) = [].
Proof. exact stream_roundtrip. Qed.
Print Assumptions c15_stream_roundtrip.

(* The same through a MemoryBuffer: over the serialised values (followed by anything) the reads
   of the same widths return exactly each value's big-endian bytes, whose decoded value
   (be_value, what NetworkToHost yields) is the value written. *)
Theorem c15_membuf_roundtrip : forall (vals : list (nat * N)) rest,
  mb_run (mb_new (concat (map (fun wv => be_bytes (fst wv) (snd wv)) vals) ++ rest))
         (map (fun wv => MIn (fst wv)) vals) =
  Ok (map (fun wv => be_bytes (fst wv) (snd wv)) vals) /\
  forall w v, be_value (be_bytes w v) = (v mod 256 ^ N.of_nat w)%N.
Proof. exact (fun vals rest => conj (membuf_roundtrip vals rest) be_value_bytes). Qed.
Print Assumptions c15_membuf_roundtrip.

(* A MemoryBuffer never reads outside its bytes, and every read (raw, string or >>) returns the
   next min(n, remaining) bytes and consumes exactly those: a short >> consumes what is left. *)
Theorem c15_membuf_total : forall d script, mb_run (mb_new d) script = Ok (mb_spec d script).
Proof. exact mb_new_spec. Qed.
Print Assumptions c15_membuf_total.

(* `unsigned int`.  Size() as the code computes it (size32: a 32-bit sum over the blocks) is the
   byte count modulo 2^32 after every history, and equals the byte count - and the unbounded
   Size of c15_size - under the explicit guard "this buffer holds fewer than 2^32 bytes".
   c15_sender_conserves needs no such guard: LimitReached is modelled with size32 and the
   specification uses the same wrapped count (alen32), so conservation holds even if it wraps. *)
Theorem c15_size32 : forall bs nq ns ops st outs bl,
  1 <= bs -> Forall (op_ok nq ns) ops -> run (init bs nq ns) ops = Ok (st, outs) ->
  In bl (s_q st ++ s_s st) ->
  size32 bl = (N.of_nat (length (abs_buf bl)) mod 2 ^ 32)%N /\
  ((N.of_nat (length (abs_buf bl)) < 2 ^ 32)%N ->
   size32 bl = N.of_nat (length (abs_buf bl)) /\ size32 bl = N.of_nat (buf_size bl)).
Proof. exact size32_thm. Qed.
Print Assumptions c15_size32.

(* What wraps when the guard is violated: a well-formed queue holding exactly 2^32 bytes
   reports Size() = 0 although it is not Empty(), and a sender whose output buffer it is answers
   LimitReached() = false for a limit of one byte. *)
Example c15_size32_wraps :
  let K := N.to_nat (2 ^ 32) in
  wfbuf K [mkB K 0 K (repeat 0%N K)] /\
  length (abs_buf [mkB K 0 K (repeat 0%N K)]) = K /\
  size32 [mkB K 0 K (repeat 0%N K)] = 0%N /\
  limit_reached 1 (mkS (p_new K) [[mkB K 0 K (repeat 0%N K)]] []) = Ok false.
Proof. exact (wrap_witness (N.to_nat (2 ^ 32)) (N2Nat.id (2 ^ 32))). Qed.

(* Buffers on DIFFERENT pools in one operation (all theorems above are about buffers sharing one
   pool, which is how the state is built: that is their guard).  The code does not check, the
   header only says the pools "should" be the same.  Faithful model of
     qa(&A).Write(6 bytes); qb(&B).AppendMove(&qa); qb.Read(16); B.Purge()
   with block sizes 4 and 8: the bytes still come out right, but the pool clause of the property
   is false - A never gets its two blocks back, B ends up with two free blocks it never
   allocated (allocated = free + held fails), and Purge() wraps B.BlocksAllocated() to 2^32 - 2.
   Known finding C15-crosspool (no small safe fix: blocks do not know their pool). *)
Theorem c15_crosspool_refuted :
  exists c, cross_run 4 8 [1; 2; 3; 4; 5; 6]%N 16 = Ok c /\
            c_read c = [1; 2; 3; 4; 5; 6]%N /\
            (c_allocA c, c_freeA c) = (2, 0) /\ (c_allocB c, c_freeB c, c_heldB c) = (0, 2, 0) /\
            cross_acct_ok c = false /\ c_allocB_purged c = 4294967294%N.
Proof. exact crosspool_refuted. Qed.
Print Assumptions c15_crosspool_refuted.

(* ================================================================== round 4 ===================
   SEVERAL POOLS (Multi.v / MultiSpec.v).  init2 bss qp sp: one MemoryBlockPool per entry of bss
   (its block size), one IOQueue per entry of qp and one IOStack per entry of sp, each bound to
   the pool whose index the entry gives.  step2 / run2 are the block-level model in which every
   method works against the buffer's OWN pool and AppendMove / MoveToIOQueue move blocks between
   buffers whatever their pools; blocks keep their own capacity, so free lists and buffers hold
   blocks of mixed capacities.  multi_ok: block sizes >= 1, pool indices exist, every operation
   names existing buffers, no self-AppendMove, no Purge (op_ok2).  The specification is the SAME
   byte-list specification arun as for one pool: it does not know about pools. *)

(* Conservation over any number of pools.  For EVERY history: no hazard, and the byte-list
   specification makes the same steps with the same outputs (abs2 commutes with every operation):
   bytes come out as they went in, in order, consumed at most once, also when the blocks that
   carry them were allocated by another pool, recycled through a foreign free list, or have a
   different size than the pool's nominal one.  (c15_ledger applies to arun unchanged: Size =
   written - consumed.) *)
Theorem c15_multi_refines : forall bss qp sp ops,
  multi_ok bss qp sp ops ->
  exists st outs, run2 (init2 bss qp sp) ops = Ok (st, outs) /\
                  arun (ainit (length qp) (length sp)) ops = (abs2 st, map out_abs outs).
Proof. exact multi_refines. Qed.
Print Assumptions c15_multi_refines.

(* The accounting that IS true of the code.  After every history: blocks allocated summed over
   all pools = free blocks summed over all pools + blocks held by all buffers (nothing leaks,
   nothing is double-counted); and for EACH pool k
       BlocksAllocated_k + migrated_k = FreeBlocks_k + blocks held by the buffers bound to k
   where migrated_k (mig_run) is the number of blocks the move operations of the history carried
   into buffers of pool k minus those they carried out of them - so the per-pool counters drift
   by exactly the blocks that migrated, and the one-pool clause allocated = free + held holds
   for every pool exactly when nothing migrated (c15_crosspool_refuted is the case -2 / +2).
   Every block on every free list is reset and in shape. *)
Theorem c15_multi_accounting : forall bss qp sp ops st outs,
  multi_ok bss qp sp ops -> run2 (init2 bss qp sp) ops = Ok (st, outs) ->
  total_alloc st = total_free st + total_held st /\
  (forall k, k < length bss ->
     (Z.of_nat (alloc2 st k) + mig_run (init2 bss qp sp) ops k =
      Z.of_nat (free2 st k) + Z.of_nat (held2 st k))%Z) /\
  (forall p b, In p (m_pools st) -> In b (p_free p) ->
     b_first b = 0 /\ b_last b = 0 /\ length (b_data b) = b_cap b /\ 1 <= b_cap b).
Proof. exact multi_accounting. Qed.
Print Assumptions c15_multi_accounting.

(* Size, iovec and block shape over several pools: after every history Size() of every buffer is
   the length of its specified content, AsIOVec exports one non-empty vector per block whose
   concatenation is the content, and every held block is non-empty and within its own capacity. *)
Theorem c15_multi_buffers : forall bss qp sp ops st outs,
  multi_ok bss qp sp ops -> run2 (init2 bss qp sp) ops = Ok (st, outs) ->
  (forall i, i < length qp ->
     buf_size (blk (m_q st) i) = length (geta (a_q (fst (arun (ainit (length qp) (length sp)) ops))) i) /\
     exists v, buf_iovec (blk (m_q st) i) = Ok v /\ length v = length (blk (m_q st) i) /\
               Forall (fun s => s <> []) v /\
               concat v = geta (a_q (fst (arun (ainit (length qp) (length sp)) ops))) i) /\
  (forall j, j < length sp ->
     buf_size (blk (m_s st) j) = length (geta (a_s (fst (arun (ainit (length qp) (length sp)) ops))) j) /\
     exists v, buf_iovec (blk (m_s st) j) = Ok v /\ length v = length (blk (m_s st) j) /\
               Forall (fun s => s <> []) v /\
               concat v = geta (a_s (fst (arun (ainit (length qp) (length sp)) ops))) j) /\
  (forall kb b, In kb (m_q st ++ m_s st) -> In b (snd kb) ->
     b_first b < b_last b /\ b_last b <= b_cap b /\ length (b_data b) = b_cap b).
Proof. exact multi_buffers. Qed.
Print Assumptions c15_multi_buffers.

(* non-vacuity: pools of 4- and 8-byte blocks, queue 0 on pool 0, queue 1 and stack 0 on pool 1;
   two 4-byte-pool blocks migrate into pool 1, are recycled through its free list and re-used by
   a later write on queue 1 (which then spans blocks of capacity 4, 4 and 8) *)
Definition ex_mops : list op :=
  [QWrite 0 [1;2;3;4;5;6]%N; QAppendMove 1 0; QRead 1 16;
   QWrite 1 [11;12;13;14;15;16;17;18;19;20]%N; QIOVec 1; SWrite 0 [30;31]%N; SMove 0 1; QRead 1 99].

Example ex_mok : multi_ok [4; 8] [0; 1] [1] ex_mops.
Proof.
  unfold multi_ok, ex_mops, op_ok2. cbn [length]. repeat split; repeat constructor; try lia; discriminate.
Qed.

Example ex_mrun :
  exists st, run2 (init2 [4; 8] [0; 1] [1]) ex_mops =
    Ok (st, [ONone; ONone; OBytes [1;2;3;4;5;6]%N; ONone;
             OVec [[11;12;13;14]; [15;16;17;18]; [19;20]]%N; ONone; ONone;
             OBytes [11;12;13;14;15;16;17;18;19;20;30;31]%N]) /\
    (alloc2 st 0, free2 st 0, held2 st 0, mig_run (init2 [4; 8] [0; 1] [1]) ex_mops 0) = (2, 0, 0, (-2)%Z) /\
    (alloc2 st 1, free2 st 1, held2 st 1, mig_run (init2 [4; 8] [0; 1] [1]) ex_mops 1) = (2, 4, 0, 2%Z).
Proof. eexists. vm_compute. repeat split. Qed.

(* ================================================================== round 5 ===================
   LENGTHS OF ANY MAGNITUDE.  All theorems above quantify over every natural length, so they
   already cover UINT_MAX, 2^31, 2^32 - cursor ...; what was missing is that the unary model cannot
   be EXECUTED for such lengths, so the correspondence never tried them.  These theorems make the
   big lengths executable: any length above the bytes a buffer holds behaves, for every Read /
   Read(string) / Peek / Pop of a queue or stack (one pool and several pools), every
   MemoryBuffer read and every PerformWrite, exactly as "bytes held + 1" (clamp n bound = n if
   n <= bound, else bound + 1; natlen is the same from a binary number).  Result AND state agree,
   also in the hazard cases, with no well-formedness assumption. *)
Theorem c15_len_any : forall st o,
  step st o = step st
    match o with
    | QRead i n => QRead i (clamp n (buf_size (nth i (s_q st) [])))
    | QReadStr i n => QReadStr i (clamp n (buf_size (nth i (s_q st) [])))
    | QPeek i n => QPeek i (clamp n (buf_size (nth i (s_q st) [])))
    | QPop i n => QPop i (clamp n (buf_size (nth i (s_q st) [])))
    | SRead j n => SRead j (clamp n (buf_size (nth j (s_s st) [])))
    | SReadStr j n => SReadStr j (clamp n (buf_size (nth j (s_s st) [])))
    | SPop j n => SPop j (clamp n (buf_size (nth j (s_s st) [])))
    | o => o
    end.
Proof. exact step_clamp. Qed.
Print Assumptions c15_len_any.

Theorem c15_len_any_multi : forall st o,
  step2 st o = step2 st
    match o with
    | QRead i n => QRead i (clamp n (buf_size (blk (m_q st) i)))
    | QReadStr i n => QReadStr i (clamp n (buf_size (blk (m_q st) i)))
    | QPeek i n => QPeek i (clamp n (buf_size (blk (m_q st) i)))
    | QPop i n => QPop i (clamp n (buf_size (blk (m_q st) i)))
    | SRead j n => SRead j (clamp n (buf_size (blk (m_s st) j)))
    | SReadStr j n => SReadStr j (clamp n (buf_size (blk (m_s st) j)))
    | SPop j n => SPop j (clamp n (buf_size (blk (m_s st) j)))
    | o => o
    end.
Proof. exact step2_clamp. Qed.
Print Assumptions c15_len_any_multi.

(* MemoryBuffer (any cursor position: the clamp bound is the buffer's total size, which is never
   below what remains) and PerformWrite; natlen agrees with clamp on every natural. *)
Theorem c15_len_any_membuf : forall script m,
  mb_run m script = mb_run m (map (clamp_mread (m_size m)) script).
Proof. exact mb_run_clamp. Qed.
Print Assumptions c15_len_any_membuf.

Theorem c15_len_any_pwrite : forall max x k,
  xstep max x (PWrite (Some k)) =
  xstep max x (PWrite (Some (clamp k (buf_size (nth 0 (s_q (x_st x)) []))))) /\
  forall n bound, natlen (N.of_nat n) bound = clamp n bound.
Proof. exact (fun max x k => conj (pwrite_clamp max x k) natlen_clamp). Qed.
Print Assumptions c15_len_any_pwrite.

(* ================================================================== round 6 ===================
   Purge over several pools.  step2's PoolPurge is Purge() of every pool (exact while no pool has
   more free blocks than it allocated; otherwise the counter wraps and the model stops, see
   c15_crosspool_refuted).  For every history - Purge included - in which no block migrates
   (op_ok3: every AppendMove / MoveToIOQueue is between buffers bound to the same pool), over any
   number of pools: no hazard, the byte-list specification is matched, and the ONE-POOL accounting
   clause holds exactly for EVERY pool: allocated = free + held by its buffers. *)
Theorem c15_multi_purge_exact : forall bss qp sp ops,
  Forall (fun bs => 1 <= bs) bss ->
  Forall (fun k => k < length bss) qp -> Forall (fun k => k < length bss) sp ->
  Forall (op_ok3 qp sp) ops ->
  exists st outs, run2 (init2 bss qp sp) ops = Ok (st, outs) /\
    arun (ainit (length qp) (length sp)) ops = (abs2 st, map out_abs outs) /\
    (forall k, k < length bss -> alloc2 st k = free2 st k + held2 st k) /\
    total_alloc st = total_free st + total_held st.
Proof. exact purge_exact. Qed.
Print Assumptions c15_multi_purge_exact.

(* NonBlockingSender over several pools (Sender2.v: the extended operations on the several-pools
   state; queue 0 = the sender's output buffer on its own pool, messages arrive from stacks and
   queues of ANY pool).  Same statement as c15_sender_conserves: accepted bytes ++ pending bytes =
   accepted messages in order, for every history and every script of kernel answers; registration
   iff pending; block totals balance (per pool they drift by the migrated blocks,
   c15_multi_accounting). *)
Theorem c15_sender_conserves_multi : forall bss qp sp max ops,
  ymulti_ok bss qp sp ops ->
  exists y outs,
    yrun max (yinit bss qp sp) ops = Ok (y, outs) /\
    let ax := fst (axrun max (axinit (length qp) (length sp)) ops) in
    let pending := abs_buf (blk (m_q (y_st y)) 0) in
    map xout_abs outs = snd (axrun max (axinit (length qp) (length sp)) ops) /\
    abs2 (y_st y) = ax_a ax /\
    sent_of outs ++ pending = ax_queued ax /\
    (pending = [] -> sent_of outs = ax_queued ax) /\
    y_assoc y = negb (is_nil pending) /\ y_reg y = y_assoc y /\
    total_alloc (y_st y) = total_free (y_st y) + total_held (y_st y).
Proof. exact sender2_conserves. Qed.
Print Assumptions c15_sender_conserves_multi.

(* Stream round trip on a queue of any pool after any several-pools history. *)
Theorem c15_stream_roundtrip_multi : forall bss qp sp max pre (vals : list (nat * N)) i y0 outs0,
  ymulti_ok bss qp sp pre -> i < length qp -> i <> 0 ->
  yrun max (yinit bss qp sp) pre = Ok (y0, outs0) ->
  abs_buf (blk (m_q (y_st y0)) i) = [] ->
  exists y1 outs,
    yrun max y0 (map (fun wv => UOp (QWriteBE i (fst wv) (snd wv))) vals ++
                 map (fun wv => QIn i (fst wv)) vals) = Ok (y1, outs) /\
    map xout_abs outs =
      map (fun _ => XUser ONone) vals ++
      map (fun wv => XIn true (snd wv mod 256 ^ N.of_nat (fst wv))%N) vals /\
    abs_buf (blk (m_q (y_st y1)) i) = [].
Proof. exact stream2_roundtrip. Qed.
Print Assumptions c15_stream_roundtrip_multi.

(* non-vacuity: sender on a 2-byte pool, messages from a stack and a queue on a 3-byte pool *)
Definition ex_yops : list xop :=
  [UOp (SWrite 0 [1;2;3;4]%N); SendS 0; UOp (QWrite 1 [5;6]%N); SendQ 1; PWrite (Some 3); PWrite None;
   PWrite (Some 9); UOp (QWriteBE 1 2 258%N); QIn 1 2].
Example ex_yok : ymulti_ok [2; 3] [0; 1] [1] ex_yops.
Proof.
  unfold ymulti_ok, ex_yops, yop_ok. cbn [length]. repeat split; repeat constructor; try lia; discriminate.
Qed.
Example ex_yrun :
  exists y, yrun 100 (yinit [2; 3] [0; 1] [1]) ex_yops =
    Ok (y, [XUser ONone; XBool true; XUser ONone; XBool true; XSent (Some [1;2;3]%N); XSent None;
            XSent (Some [4;5;6]%N); XUser ONone; XIn true 258]).
Proof. eexists. vm_compute. reflexivity. Qed.
Example ex_ok3 : Forall (op_ok3 [0; 1; 1] [1])
  [QWrite 1 [1;2;3]%N; QAppendMove 2 1; SWrite 0 [4]%N; SMove 0 2; QRead 2 9; PoolPurge; QWrite 0 [7]%N].
Proof. repeat constructor; cbn; lia. Qed.

(* ================================================================== final round ===============
   Dump is pure.  IOQueue::Dump (Size, then Peek of that many bytes) and IOStack::Dump (Copy of
   every block) as modelled in Dump.v: after EVERY history, on every queue and stack, Dump
   succeeds, hands exactly the buffer's specified content to FormatData, and the state it
   leaves - every buffer, every block, the pool's free list and counter - is the state it
   found (the text layout produced by FormatData itself is outside the model). *)
Theorem c15_dump_pure : forall bs nq ns ops st outs,
  1 <= bs -> Forall (op_ok nq ns) ops -> run (init bs nq ns) ops = Ok (st, outs) ->
  (forall i, i < nq -> dump_q st i = Ok (st, geta (a_q (fst (arun (ainit nq ns) ops))) i)) /\
  (forall j, j < ns -> dump_s st j = Ok (st, geta (a_s (fst (arun (ainit nq ns) ops))) j)).
Proof. exact dump_pure. Qed.
Print Assumptions c15_dump_pure.

(* A zero-length Write (also through BigEndianOutputStream with a zero-width value) on any existing
   queue or stack of ANY state - empty or not, reachable or not - returns the very same state:
   no block is allocated, no buffer, block, free list or counter changes, hence Size, Empty and
   AsIOVec are unchanged.  Second part: the same in the several-pools model. *)
Theorem c15_zero_write_noop : forall st,
  (forall i, i < length (s_q st) -> step st (QWrite i []) = Ok (st, ONone) /\
                                    forall v, step st (QWriteBE i 0 v) = Ok (st, ONone)) /\
  (forall j, j < length (s_s st) -> step st (SWrite j []) = Ok (st, ONone) /\
                                    forall v, step st (SWriteBE j 0 v) = Ok (st, ONone)).
Proof. exact zero_write_noop. Qed.
Print Assumptions c15_zero_write_noop.

Theorem c15_zero_write_noop_multi : forall st,
  (forall i k bl, nth_error (m_q st) i = Some (k, bl) -> k < length (m_pools st) ->
     step2 st (QWrite i []) = Ok (st, ONone)) /\
  (forall j k bl, nth_error (m_s st) j = Some (k, bl) -> k < length (m_pools st) ->
     step2 st (SWrite j []) = Ok (st, ONone)).
Proof. exact zero_write_noop2. Qed.
Print Assumptions c15_zero_write_noop_multi.

(* Destroying a default-constructed stack together with its private pool (Multi.destroy_private,
   used by the threaded cases).  In any state satisfying the several-pools invariant I2 (every
   state reached by a several-pools history does, with g = mig_run: ProofsMulti.multi_reach), if
   stack j is the only buffer bound to its pool k: the operation succeeds, the new pool k is
   empty (0 allocated, 0 free), every other pool is untouched, and the totals are short by
   exactly the blocks that had migrated out of the destroyed pool (- g k of them): they live on
   in other buffers and are counted by no pool any more - which is what the code does too. *)
Theorem c15_destroy_private_acct : forall np nq ns st g j k bl,
  I2 np nq ns st g -> nth_error (m_s st) j = Some (k, bl) -> held2 st k = length bl ->
  exists st', destroy_private st j = Ok st' /\
    (Z.of_nat (total_alloc st') - g k = Z.of_nat (total_free st') + Z.of_nat (total_held st'))%Z /\
    alloc2 st' k = 0 /\ free2 st' k = 0 /\
    (forall k', k' <> k -> alloc2 st' k' = alloc2 st k' /\ free2 st' k' = free2 st k').
Proof. exact destroy_private_acct. Qed.
Print Assumptions c15_destroy_private_acct.

(* ------------------------------------------------------------------ non-vacuity *)
(* a history that satisfies every hypothesis above and exercises block boundaries, a stack to
   queue move, a string read, a clear with pool re-use and a purge (block size 2) *)
Definition ex_ops : list op :=
  [QWrite 0 [1;2;3]%N; SWrite 0 [4;5;6]%N; SWrite 0 [7]%N; SMove 0 0; QReadStr 0 2; QPeek 0 9;
   QWrite 1 [8;9]%N; QClear 1; QWrite 1 [10]%N; QAppendMove 0 1; QIOVec 0; QSize 0; PoolPurge;
   QRead 0 9; QEmpty 0].

Example ex_ok : Forall (op_ok 2 1) ex_ops.
Proof. unfold ex_ops. repeat constructor. all: discriminate. Qed.

Example ex_run :
  exists st, run (init 2 2 1) ex_ops =
    Ok (st, [ONone; ONone; ONone; ONone; OBytes [1;2]%N; OBytes [3;7;4;5;6]%N; ONone; ONone; ONone;
             ONone; OVec [[3]; [7;4]; [5;6]; [10]]%N; ONum 6; ONone;
             OBytes [3;7;4;5;6;10]%N; OBool true]).
Proof. eexists. vm_compute. reflexivity. Qed.

Example ex_kid : kid_ok 2 1 (KQ 0) /\ kid_ok 2 1 (KS 0).
Proof. cbv. lia. Qed.

Example ex_inv : inv 2 2 1 (init 2 2 1).
Proof. exact (inv_init 2 2 1). Qed.

(* round 2: a sender history that satisfies xop_ok: two messages, a refused third (limit 4),
   partial writes of 0, 2 and "as much as there is", an error, a stream round trip *)
Definition ex_xops : list xop :=
  [UOp (SWrite 0 [1;2;3]%N); SendS 0; UOp (QWrite 1 [4;5]%N); SendQ 1; Limit;
   UOp (SWrite 0 [9]%N); SendS 0; PWrite (Some 0); PWrite (Some 2); PWrite None; PWrite (Some 99);
   SendS 0; PWrite (Some 1);
   UOp (QWriteBE 1 2 258%N); UOp (QWriteBE 1 4 16909060%N); QIn 1 2; QIn 1 4; QIn 1 1;
   MBuf [1;2;3]%N [MIn 2; MStr 5; MRead 1]].

Example ex_xok : Forall (xop_ok 2 1) ex_xops.
Proof. unfold ex_xops. repeat constructor. all: discriminate. Qed.

Example ex_xrun :
  exists x, xrun 4 (xinit 2 2 1) ex_xops =
    Ok (x, [XUser ONone; XBool true; XUser ONone; XBool true; XBool true;
            XUser ONone; XBool false; XSent (Some []); XSent (Some [1;2]%N); XSent None;
            XSent (Some [3;4;5]%N); XBool true; XSent (Some [9]%N);
            XUser ONone; XUser ONone; XIn true 258; XIn true 16909060; XIn false 0;
            XMB [[1;2]; [3]; []]%N]).
Proof. eexists. vm_compute. reflexivity. Qed.
