(* C15 — IOQueue and IOStack conserve bytes and ordering.
   Only theorem statements here; proofs are in ProofsBlock.v / Proofs.v.

   Vocabulary (Model.v, Spec.v):
     init bs nq ns        nq IOQueues and ns IOStacks, all empty, sharing one MemoryBlockPool(bs)
     op                   Write / BigEndianOutputStream<< / Read(memory) / Read(string) /
                          Peek / Pop / AsIOVec / AppendMove / Clear / Size / Empty on queue i,
                          Write / << / Read x2 / Pop / AsIOVec / MoveToIOQueue / ~IOStack / Size /
                          Empty on stack j, MemoryBlockPool::Purge
     run st ops           the concrete model (blocks with m_first/m_last offsets and a byte array,
                          deques of blocks, the pool's free list and counter); its result is
                          Ok (state, outputs) or one of the hazards Oob / OutOfFuel / Undef
     arun a ops           the specification written from the property text: every buffer is a
                          list of bytes; queue writes append, stack writes prepend, reads / pops
                          take from the front, moves concatenate, AsIOVec shows everything
     op_ok nq ns o        o names buffers that exist; AppendMove is not given the queue itself
     abs st               the byte list of every buffer = concatenation of [m_first, m_last) of
                          its blocks, front block first (written out in c15_abs below)            *)
From OlaBase Require Import Bytes.
From C15 Require Import Model Spec ProofsBlock Proofs.
Local Open Scope nat_scope.

(* what "the bytes a buffer holds" means concretely *)
Theorem c15_abs : forall st,
  abs st =
  mkA (map (flat_map (fun b => firstn (b_last b - b_first b) (skipn (b_first b) (b_data b)))) (s_q st))
      (map (flat_map (fun b => firstn (b_last b - b_first b) (skipn (b_first b) (b_data b)))) (s_s st)).
Proof. exact (fun st => eq_refl). Qed.
Print Assumptions c15_abs.

(* Conservation and ordering.  For every pool block size >= 1, any number of queues and stacks
   over that pool and EVERY history of operations: no hazard occurs (no memcpy outside a block,
   no front()/back() of an empty deque, every Write loop terminates), and the history is matched
   step by step by the list specification: the final contents agree and every output of every
   operation (bytes returned by Read / Read(string) / Peek, Size, Empty, the concatenated iovec)
   is the one the specification gives.  Hence bytes come out exactly as they went in, in write
   order for a queue and newest write first for a stack, and a byte that was read or popped is
   gone (read returns firstn n, leaves skipn n). *)
Theorem c15_refines : forall bs nq ns ops,
  1 <= bs -> Forall (op_ok nq ns) ops ->
  exists st outs, run (init bs nq ns) ops = Ok (st, outs) /\
                  arun (ainit nq ns) ops = (abs st, map out_abs outs).
Proof. exact refines. Qed.
Print Assumptions c15_refines.

(* The same, one operation at a time from any state that satisfies the invariant (which every
   reachable state does, c15_reach_inv): abs commutes with every single operation. *)
Theorem c15_step : forall bs nq ns st o,
  1 <= bs -> inv bs nq ns st -> op_ok nq ns o ->
  exists st' x, step st o = Ok (st', x) /\ inv bs nq ns st' /\
                astep (abs st) o = (abs st', out_abs x).
Proof. exact (fun bs nq ns st o Hbs => step_sim bs nq ns Hbs st o). Qed.
Print Assumptions c15_step.

Theorem c15_reach_inv : forall bs nq ns ops st outs,
  1 <= bs -> Forall (op_ok nq ns) ops -> run (init bs nq ns) ops = Ok (st, outs) ->
  inv bs nq ns st /\ arun (ainit nq ns) ops = (abs st, map out_abs outs).
Proof. exact reach_inv. Qed.
Print Assumptions c15_reach_inv.

(* Size.  After every history, Size() of every buffer (the sum of m_last - m_first over its
   blocks) is the number of bytes the specification says it holds; by c15_ledger that number is
   bytes written minus bytes consumed. *)
Theorem c15_size : forall bs nq ns ops st outs,
  1 <= bs -> Forall (op_ok nq ns) ops -> run (init bs nq ns) ops = Ok (st, outs) ->
  (forall i, i < nq ->
     buf_size (nth i (s_q st) []) = length (geta (a_q (fst (arun (ainit nq ns) ops))) i)) /\
  (forall j, j < ns ->
     buf_size (nth j (s_s st) []) = length (geta (a_s (fst (arun (ainit nq ns) ops))) j)).
Proof. exact size_thm. Qed.
Print Assumptions c15_size.

(* Written minus consumed, at the level of the specification: for every buffer k the length of
   its content after a history equals the bytes put into it (writes, blocks moved in) minus the
   bytes taken out of it (bytes returned by reads, bytes popped, cleared, blocks moved out),
   both counted by [ledger] along the history. *)
Theorem c15_ledger : forall nq ns ops k,
  Forall (op_ok nq ns) ops -> kid_ok nq ns k ->
  let '(w, c) := ledger (ainit nq ns) ops k in
  length (content (fst (arun (ainit nq ns) ops)) k) + c = w.
Proof. exact ledger_thm. Qed.
Print Assumptions c15_ledger.

(* Pool.  After every history: allocated = free + held by buffers; no buffer holds an empty
   block (a block that was emptied by Read / Read(string) / Pop has left its buffer in the same
   operation, and by the first clause it is on the free list and not lost); held blocks are in
   bounds; every block on the free list is reset, so a re-used block never shows old bytes. *)
Theorem c15_pool : forall bs nq ns ops st outs,
  1 <= bs -> Forall (op_ok nq ns) ops -> run (init bs nq ns) ops = Ok (st, outs) ->
  blocks_allocated st = free_blocks st + in_use st /\
  (forall bl b, In bl (s_q st ++ s_s st) -> In b bl ->
     b_first b < b_last b /\ b_last b <= bs /\ b_cap b = bs /\ length (b_data b) = bs) /\
  (forall b, In b (p_free (s_pool st)) -> b_first b = 0 /\ b_last b = 0 /\ b_cap b = bs).
Proof. exact pool_thm. Qed.
Print Assumptions c15_pool.

(* Scatter-gather export.  After every history, AsIOVec of every buffer succeeds with one vector
   per block, none of them empty, and their concatenation is exactly the buffer's content. *)
Theorem c15_iovec : forall bs nq ns ops st outs,
  1 <= bs -> Forall (op_ok nq ns) ops -> run (init bs nq ns) ops = Ok (st, outs) ->
  (forall i, i < nq -> exists v,
     buf_iovec (nth i (s_q st) []) = Ok v /\ length v = length (nth i (s_q st) []) /\
     Forall (fun s => s <> []) v /\
     concat v = geta (a_q (fst (arun (ainit nq ns) ops))) i) /\
  (forall j, j < ns -> exists v,
     buf_iovec (nth j (s_s st) []) = Ok v /\ length v = length (nth j (s_s st) []) /\
     Forall (fun s => s <> []) v /\
     concat v = geta (a_s (fst (arun (ainit nq ns) ops))) j).
Proof. exact iovec_thm. Qed.
Print Assumptions c15_iovec.

(* ------------------------------------------------------------------ non-vacuity *)
(* a history that satisfies every hypothesis above and exercises block boundaries, a stack to
   queue move, a string read, a clear with pool re-use and a purge (block size 2) *)
Definition ex_ops : list op :=
  [QWrite 0 [1;2;3]%N; SWrite 0 [4;5;6]%N; SWrite 0 [7]%N; SMove 0 0; QReadStr 0 2; QPeek 0 9;
   QWrite 1 [8;9]%N; QClear 1; QWrite 1 [10]%N; QAppendMove 0 1; QIOVec 0; QSize 0; PoolPurge;
   QRead 0 9; QEmpty 0].

Example ex_ok : Forall (op_ok 2 1) ex_ops.
Proof. unfold ex_ops. repeat constructor. all: discriminate. Qed.

Example ex_run :
  exists st, run (init 2 2 1) ex_ops =
    Ok (st, [ONone; ONone; ONone; ONone; OBytes [1;2]%N; OBytes [3;7;4;5;6]%N; ONone; ONone; ONone;
             ONone; OVec [[3]; [7;4]; [5;6]; [10]]%N; ONum 6; ONone;
             OBytes [3;7;4;5;6;10]%N; OBool true]).
Proof. eexists. vm_compute. reflexivity. Qed.

Example ex_kid : kid_ok 2 1 (KQ 0) /\ kid_ok 2 1 (KS 0).
Proof. cbv. lia. Qed.

Example ex_inv : inv 2 2 1 (init 2 2 1).
Proof. exact (inv_init 2 2 1). Qed.
