From OlaBase Require Import Bytes.
From C15 Require Import Model Spec Proofs.
