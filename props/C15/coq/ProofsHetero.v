(* C15 round 4 proofs, part 1: the method lemmas of ProofsBlock.v for blocks of HETEROGENEOUS
   capacity.  Every block carries its own capacity (b_cap, as a MemoryBlock carries m_data_end);
   a pool's free list may hold blocks of mixed capacities (after cross-pool releases); the pool's
   nominal block size only matters for blocks it creates.  [hwfb b] is [wfb (b_cap b) b]: the block
   lemmas of ProofsBlock.v are per block and are re-used at the block's own capacity; the buffer /
   pool level lemmas are re-proved here (same proof structure). *)
From OlaBase Require Import Bytes.
From Coq Require Import Arith.
From C15 Require Import Model Spec ProofsBlock.
Local Open Scope nat_scope.

Definition hwfb (b : block) : Prop := wfb (b_cap b) b.
Definition hfreeb (b : block) : Prop :=
  shape (b_cap b) b /\ b_first b = 0 /\ b_last b = 0 /\ 1 <= b_cap b.
Definition hsbb (b : block) : Prop :=
  shape (b_cap b) b /\ b_first b = b_cap b /\ b_last b = b_cap b /\ 1 <= b_cap b.
Definition hwfbuf (bl : buffer) : Prop := Forall hwfb bl.
Definition hwfpool (p : pool) : Prop := 1 <= p_bs p /\ Forall hfreeb (p_free p).

Lemma hwfb_shape b : hwfb b -> shape (b_cap b) b /\ b_first b <= b_last b <= b_cap b.
Proof. apply wfb_shape. Qed.
Lemma hfreeb_shape b : hfreeb b -> shape (b_cap b) b /\ b_first b <= b_last b <= b_cap b.
Proof. intros (? & ? & ? & ?). split; [assumption|lia]. Qed.
Lemma hsbb_shape b : hsbb b -> shape (b_cap b) b /\ b_first b <= b_last b <= b_cap b.
Proof. intros (? & ? & ? & ?). split; [assumption|lia]. Qed.
Lemma hfreeb_bc b : hfreeb b -> bc b = [].
Proof. intros (_ & H1 & H2 & _). apply bc_empty. congruence. Qed.
Lemma hsbb_bc b : hsbb b -> bc b = [].
Proof. intros (_ & H1 & H2 & _). apply bc_empty. congruence. Qed.

Lemma hp_allocate_spec p :
  hwfpool p -> exists p' b, p_allocate p = (p', b) /\ hwfpool p' /\ hfreeb b /\ acct p 0 p' 1.
Proof.
  destruct p as [pbs fr al]; unfold hwfpool, p_allocate, acct; cbn [p_bs p_free p_alloc].
  intros [Hbs Hf]. destruct fr as [|b r].
  - eexists _, _. split; [reflexivity|]. cbn [p_bs p_free p_alloc length].
    split; [split; [assumption|constructor]|]. split; [|lia].
    unfold hfreeb, shape, b_new. cbn [b_cap b_data b_first b_last]. rewrite repeat_length. tauto.
  - inversion Hf; subst. eexists _, _. split; [reflexivity|]. cbn [p_bs p_free p_alloc length].
    split; [split; assumption|]. split; [assumption|]. lia.
Qed.

Lemma hp_release_spec p b :
  hwfpool p -> shape (b_cap b) b -> 1 <= b_cap b ->
  hwfpool (p_release p b) /\ acct p 1 (p_release p b) 0.
Proof.
  destruct p as [pbs fr al]; unfold hwfpool, p_release, acct; cbn [p_bs p_free p_alloc].
  intros [Hbs Hf] Hs Hc. split; [split; [assumption|]|].
  - apply Forall_app. split; [assumption|]. constructor; [|constructor].
    destruct b; unfold hfreeb, shape, b_reset in *; cbn in *. tauto.
  - rewrite app_length. cbn [length]. lia.
Qed.

(* ------------------------------------------------------------------ IOQueue::Write *)

Lemma hq_write_loop_spec : forall fuel p fr b d,
  hwfpool p -> hwfbuf fr -> d <> [] ->
  (hwfb b /\ length d < fuel) \/ (hfreeb b /\ length d <= fuel) ->
  exists p' bl', q_write_loop fuel p (fr ++ [b]) d = Ok (p', bl') /\ hwfpool p' /\ hwfbuf bl' /\
                 abs_buf bl' = abs_buf fr ++ bc b ++ d /\ acct p (S (length fr)) p' (length bl').
Proof.
  induction fuel as [|f IH]; intros p fr b d Hp Hfr Hd Hb.
  { exfalso. destruct d; [congruence|]. cbn [length] in Hb. destruct Hb as [[_ ?]|[_ ?]]; lia. }
  cbn [q_write_loop]. rewrite unsnoc_app.
  assert (shape (b_cap b) b /\ b_first b <= b_last b <= b_cap b) as [Hs Hr].
  { destruct Hb as [[Hb _]|[Hb _]]; [apply hwfb_shape|apply hfreeb_shape]; exact Hb. }
  destruct (b_append_spec (b_cap b) b d Hs Hr) as (mem & Ea & Hlm & Hseg).
  set (n := Nat.min (length d) (b_cap b - b_last b)) in *.
  rewrite Ea. cbn [bind].
  set (b' := mkB (b_cap b) (b_first b) (b_last b + n) mem) in *.
  assert (Hd1 : 1 <= length d) by (destruct d; [congruence|cbn [length]; lia]).
  assert (Hbc' : bc b' = bc b ++ firstn n d).
  { unfold bc at 1, b_size. cbn [b' b_first b_last b_data]. exact Hseg. }
  destruct (le_lt_dec (length d) (b_cap b - b_last b)) as [Hfit|Hnofit].
  - (* everything fits *)
    assert (n = length d) as Hn by (unfold n; lia).
    rewrite Hn, skipn_all.
    assert (Hwb' : hwfb b').
    { unfold hwfb, wfb, shape; cbn [b' b_cap b_first b_last b_data]. repeat split; try assumption; lia. }
    exists p, (fr ++ [b']). split; [reflexivity|]. split; [assumption|]. split.
    { apply Forall_app. split; [assumption|]. constructor; [|constructor]. exact Hwb'. }
    split.
    + rewrite abs_buf_app. cbn [abs_buf flat_map]. rewrite app_nil_r.
      rewrite Hbc', Hn, firstn_all. reflexivity.
    + unfold acct. rewrite app_length. cbn [length]. lia.
  - (* block is full, continue in a new one *)
    assert (n = b_cap b - b_last b) as Hn by (unfold n; lia).
    assert (Hwb' : hwfb b').
    { unfold hwfb, wfb, shape; cbn [b' b_cap b_first b_last b_data]. repeat split; try assumption; try lia.
      all: try (destruct Hb as [[(_ & ? & ?) _]|[(_ & ? & ?) _]]; lia). }
    assert (Hlen' : length (skipn n d) = length d - n) by apply skipn_length.
    destruct (skipn n d) as [|x d'] eqn:Ed; [cbn [length] in Hlen'; lia|].
    unfold q_append_block.
    destruct (hp_allocate_spec p Hp) as (p1 & nb & Eal & Hp1 & Hnb & Hac1). rewrite Eal.
    assert (Hfr' : hwfbuf (fr ++ [b'])).
    { apply Forall_app. split; [assumption|]. constructor; [exact Hwb'|constructor]. }
    destruct (IH p1 (fr ++ [b']) nb (x :: d') Hp1 Hfr') as (p' & bl' & Er & Hp' & Hbl' & Habs & Hac).
    { congruence. }
    { right. split; [exact Hnb|]. rewrite Hlen'.
      destruct Hb as [[_ ?]|[(_ & ? & ?) ?]]; lia. }
    exists p', bl'. split; [exact Er|]. split; [assumption|]. split; [assumption|]. split.
    + rewrite Habs, abs_buf_app. cbn [abs_buf flat_map]. rewrite app_nil_r.
      rewrite (hfreeb_bc nb Hnb).
      rewrite Hbc'. cbn [app]. rewrite <- Ed. rewrite <- !app_assoc. rewrite firstn_skipn. reflexivity.
    + unfold acct in *. rewrite app_length in Hac. cbn [length] in Hac. lia.
Qed.

Lemma hq_write_spec p bl d :
  hwfpool p -> hwfbuf bl ->
  exists p' bl', q_write p bl d = Ok (p', bl') /\ hwfpool p' /\ hwfbuf bl' /\
                 abs_buf bl' = abs_buf bl ++ d /\ acct p (length bl) p' (length bl').
Proof.
  intros Hp Hbl. unfold q_write. destruct d as [|x d].
  { exists p, bl. rewrite app_nil_r. fin. }
  destruct bl as [|b0 bl0].
  - unfold q_append_block.
    destruct (hp_allocate_spec p Hp) as (p1 & nb & Eal & Hp1 & Hnb & Hac1). rewrite Eal.
    destruct (hq_write_loop_spec (S (length (x :: d))) p1 [] nb (x :: d) Hp1) as (p' & bl' & Er & Hp' & Hbl' & Habs & Hac).
    { constructor. } { congruence. } { right. split; [exact Hnb|lia]. }
    cbn [app] in Er. exists p', bl'. fin.
    rewrite Habs. rewrite (hfreeb_bc nb Hnb). reflexivity.
  - destruct (exists_last (l:=b0 :: bl0)) as (fr & b & E); [congruence|].
    rewrite E in *. apply Forall_app in Hbl. destruct Hbl as [Hfr Hb]. inversion Hb; subst.
    destruct (hq_write_loop_spec (S (length (x :: d))) p fr b (x :: d) Hp Hfr) as (p' & bl' & Er & Hp' & Hbl' & Habs & Hac).
    { congruence. } { left. split; [assumption|lia]. }
    exists p', bl'. split; [exact Er|]. split; [assumption|]. split; [assumption|]. split.
    + rewrite Habs, abs_buf_app. cbn [abs_buf flat_map]. rewrite app_nil_r, <- app_assoc. reflexivity.
    + unfold acct in *. rewrite app_length. cbn [length] in *. lia.
Qed.

(* ------------------------------------------------------------------ IOStack::Write *)
Lemma hb_seek_back_sbb b : hfreeb b -> hsbb (b_seek_back b).
Proof. destruct b; unfold hfreeb, hsbb, shape, b_seek_back; cbn. tauto. Qed.

Lemma hs_write_loop_spec : forall fuel p b r d,
  hwfpool p -> hwfbuf r -> d <> [] ->
  (hwfb b /\ length d < fuel) \/ (hsbb b /\ length d <= fuel) ->
  exists p' bl', s_write_loop fuel p (b :: r) d = Ok (p', bl') /\ hwfpool p' /\ hwfbuf bl' /\
                 abs_buf bl' = d ++ bc b ++ abs_buf r /\ acct p (S (length r)) p' (length bl').
Proof.
  induction fuel as [|f IH]; intros p b r d Hp Hr Hd Hb.
  { exfalso. destruct d; [congruence|]. cbn [length] in Hb. destruct Hb as [[_ ?]|[_ ?]]; lia. }
  cbn [s_write_loop].
  assert (shape (b_cap b) b /\ b_first b <= b_last b <= b_cap b) as [Hs Hrg].
  { destruct Hb as [[Hb _]|[Hb _]]; [apply hwfb_shape|apply hsbb_shape]; exact Hb. }
  destruct (b_prepend_spec (b_cap b) b d Hs Hrg) as (mem & Ea & Hlm & Hseg).
  set (n := Nat.min (length d) (b_first b)) in *.
  rewrite Ea. cbn [bind].
  set (b' := mkB (b_cap b) (b_first b - n) (b_last b) mem) in *.
  assert (Hd1 : 1 <= length d) by (destruct d; [congruence|cbn [length]; lia]).
  assert (Hbc' : bc b' = skipn (length d - n) d ++ bc b).
  { unfold bc at 1, b_size. cbn [b' b_first b_last b_data]. exact Hseg. }
  destruct (le_lt_dec (length d) (b_first b)) as [Hfit|Hnofit].
  - assert (n = length d) as Hn by (unfold n; lia).
    rewrite Hn, Nat.sub_diag. cbn [firstn].
    assert (Hwb' : hwfb b').
    { unfold hwfb, wfb, shape; cbn [b' b_cap b_first b_last b_data]. repeat split; try assumption; try lia.
      all: try (destruct Hb as [[(_ & ? & ?) _]|[(_ & ? & ?) _]]; lia). }
    exists p, (b' :: r). split; [reflexivity|]. split; [assumption|]. split.
    { constructor; [|assumption]. exact Hwb'. }
    split.
    + rewrite abs_buf_cons. rewrite Hbc', Hn, Nat.sub_diag. cbn [skipn].
      now rewrite app_assoc.
    + unfold acct. cbn [length]. lia.
  - assert (n = b_first b) as Hn by (unfold n; lia).
    assert (Hwb' : hwfb b').
    { unfold hwfb, wfb, shape; cbn [b' b_cap b_first b_last b_data]. repeat split; try assumption; try lia.
      all: try (destruct Hb as [[(_ & ? & ?) _]|[(_ & ? & ?) _]]; lia). }
    assert (Hlen' : length (firstn (length d - n) d) = length d - n) by (rewrite firstn_length; lia).
    destruct (firstn (length d - n) d) as [|x d'] eqn:Ed; [cbn [length] in Hlen'; lia|].
    unfold s_prepend_block.
    destruct (hp_allocate_spec p Hp) as (p1 & nb & Eal & Hp1 & Hnb & Hac1). rewrite Eal.
    assert (Hr' : hwfbuf (b' :: r)) by (constructor; assumption).
    destruct (IH p1 (b_seek_back nb) (b' :: r) (x :: d') Hp1 Hr') as (p' & bl' & Er & Hp' & Hbl' & Habs & Hac).
    { congruence. }
    { right. split; [apply hb_seek_back_sbb; exact Hnb|]. rewrite Hlen'.
      destruct Hb as [[_ ?]|[(_ & ? & ?) ?]]; lia. }
    exists p', bl'. split; [exact Er|]. split; [assumption|]. split; [assumption|]. split.
    + rewrite Habs, abs_buf_cons.
      rewrite (hsbb_bc _ (hb_seek_back_sbb nb Hnb)).
      rewrite Hbc'. rewrite <- Ed. cbn [app]. rewrite <- !app_assoc.
      rewrite (app_assoc (firstn _ d)), firstn_skipn. reflexivity.
    + unfold acct in *. cbn [length] in Hac. lia.
Qed.

Lemma hs_write_spec p bl d :
  hwfpool p -> hwfbuf bl ->
  exists p' bl', s_write p bl d = Ok (p', bl') /\ hwfpool p' /\ hwfbuf bl' /\
                 abs_buf bl' = d ++ abs_buf bl /\ acct p (length bl) p' (length bl').
Proof.
  intros Hp Hbl. unfold s_write. destruct d as [|x d].
  { exists p, bl. fin. }
  destruct bl as [|b r].
  - unfold s_prepend_block.
    destruct (hp_allocate_spec p Hp) as (p1 & nb & Eal & Hp1 & Hnb & Hac1). rewrite Eal.
    destruct (hs_write_loop_spec (S (length (x :: d))) p1 (b_seek_back nb) [] (x :: d) Hp1) as (p' & bl' & Er & Hp' & Hbl' & Habs & Hac).
    { constructor. } { congruence. } { right. split; [apply hb_seek_back_sbb; exact Hnb|lia]. }
    exists p', bl'. fin.
    rewrite Habs.
    rewrite (hsbb_bc _ (hb_seek_back_sbb nb Hnb)).
    reflexivity.
  - inversion Hbl; subst.
    destruct (hs_write_loop_spec (S (length (x :: d))) p b r (x :: d) Hp) as (p' & bl' & Er & Hp' & Hbl' & Habs & Hac).
    { assumption. } { congruence. } { left. split; [assumption|lia]. }
    exists p', bl'. fin.
Qed.


(* ------------------------------------------------------------------ Read / Pop / Peek *)

Lemma hbuf_read_spec : forall bl p n,
  hwfpool p -> hwfbuf bl ->
  exists p' bl', buf_read p bl n = Ok (p', bl', firstn n (abs_buf bl)) /\ hwfpool p' /\ hwfbuf bl' /\
                 abs_buf bl' = skipn n (abs_buf bl) /\ acct p (length bl) p' (length bl').
Proof.
  induction bl as [|b r IH]; intros p n Hp Hbl.
  { exists p, []. cbn [buf_read abs_buf flat_map]. rewrite firstn_nil, skipn_nil.
    fin. }
  inversion Hbl as [|? ? Hb Hr]; subst.
  cbn [buf_read]. destruct (Nat.eqb_spec n 0) as [->|Hn0].
  { exists p, (b :: r). cbn [firstn skipn]. fin. }
  destruct (hwfb_shape _ Hb) as [Hs Hrg].
  rewrite (b_copy_spec (b_cap b) b n Hs Hrg). cbn [bind].
  assert (Hbl_ : length (bc b) = b_size b) by (apply (bc_length (b_cap b)); assumption).
  destruct Hb as (_ & Hlt & Hle). destruct Hs as [Hcap Hdl].
  assert (Hlen : length (seg (b_first b) (Nat.min n (b_size b)) (b_data b)) = Nat.min n (b_size b)).
  { apply seg_length. unfold b_size. lia. }
  rewrite Hlen. unfold b_pop_front. fold (b_size b).
  rewrite (Nat.min_l (Nat.min n (b_size b)) (b_size b)) by lia.
  rewrite abs_buf_cons.
  destruct (le_lt_dec (b_size b) n) as [Hall|Hpart].
  - (* the whole block is consumed: reset, released *)
    rewrite (Nat.min_r n (b_size b)) by lia.
    replace (b_first b + b_size b) with (b_last b) by (unfold b_size; lia).
    rewrite Nat.eqb_refl. unfold b_empty. cbn [b_first b_last]. cbn [Nat.eqb].
    set (b0 := mkB (b_cap b) 0 0 (b_data b)).
    destruct (hp_release_spec p b0 Hp) as [Hp1 Hac1]. { split; assumption. } { cbn [b0 b_cap]. lia. }
    destruct (IH (p_release p b0) (n - b_size b) Hp1 Hr) as (p' & bl' & Er & Hp' & Hbl' & Habs & Hac).
    rewrite Er. cbn [bind]. exists p', bl'. split.
    { f_equal. f_equal. rewrite firstn_app, Hbl_. rewrite (firstn_all2 (bc b)) by lia. reflexivity. }
    split; [assumption|]. split; [assumption|]. split.
    + rewrite Habs, skipn_app, Hbl_. rewrite (skipn_all2 (bc b)) by lia. reflexivity.
    + unfold acct in *. cbn [length]. lia.
  - (* part of the block: it stays, nothing further is read *)
    rewrite (Nat.min_l n (b_size b)) by lia.
    destruct (Nat.eqb_spec (b_first b + n) (b_last b)) as [E|_]; [unfold b_size in Hpart; lia|].
    unfold b_empty. cbn [b_first b_last].
    destruct (Nat.eqb_spec (b_last b) (b_first b + n)) as [E|_]; [unfold b_size in Hpart; lia|].
    destruct (IH p (n - n) Hp Hr) as (p' & bl' & Er & Hp' & Hbl' & Habs & Hac).
    rewrite Er. cbn [bind]. rewrite Nat.sub_diag in *. cbn [firstn skipn] in *.
    set (b' := mkB (b_cap b) (b_first b + n) (b_last b) (b_data b)).
    exists p', (b' :: bl'). split.
    { f_equal. f_equal. rewrite app_nil_r, firstn_app, Hbl_.
      replace (n - b_size b) with 0 by lia. cbn [firstn]. rewrite app_nil_r.
      unfold bc. rewrite seg_firstn_inner by lia. reflexivity. }
    split; [assumption|]. split.
    { constructor; [|assumption]. unfold hwfb, wfb, shape, b_size in *. cbn [b' b_cap b_first b_last b_data].
      repeat split; try assumption; lia. }
    split.
    + rewrite abs_buf_cons, Habs, skipn_app, Hbl_. replace (n - b_size b) with 0 by lia. cbn [skipn].
      f_equal. unfold bc at 2. rewrite seg_skipn_inner by lia.
      unfold bc, b_size. cbn [b' b_first b_last b_data]. f_equal. lia.
    + unfold acct in *. cbn [length]. lia.
Qed.


Lemma hq_peek_spec : forall bl n, hwfbuf bl -> q_peek bl n = Ok (firstn n (abs_buf bl)).
Proof.
  induction bl as [|b r IH]; intros n Hbl.
  { cbn. now rewrite firstn_nil. }
  inversion Hbl as [|? ? Hb Hr]; subst.
  cbn [q_peek]. destruct (Nat.eqb_spec n 0) as [->|Hn0]; [reflexivity|].
  destruct (hwfb_shape _ Hb) as [Hs Hrg].
  rewrite (b_copy_spec (b_cap b) b n Hs Hrg). cbn [bind].
  assert (Hbl_ : length (bc b) = b_size b) by (apply (bc_length (b_cap b)); assumption).
  destruct Hs as [Hcap Hdl].
  rewrite seg_length by (unfold b_size; lia).
  rewrite (IH _ Hr). cbn [bind]. f_equal.
  rewrite abs_buf_cons, firstn_app, Hbl_. f_equal.
  - destruct (le_lt_dec n (b_size b)).
    + rewrite Nat.min_l by lia. unfold bc. rewrite seg_firstn_inner by lia. reflexivity.
    + rewrite Nat.min_r by lia. rewrite (firstn_all2 (bc b)) by lia. reflexivity.
  - f_equal. lia.
Qed.

Lemma hbuf_pop_spec : forall bl p n,
  hwfpool p -> hwfbuf bl ->
  exists p' bl', buf_pop p bl n = (p', bl') /\ hwfpool p' /\ hwfbuf bl' /\
                 abs_buf bl' = skipn n (abs_buf bl) /\ acct p (length bl) p' (length bl').
Proof.
  induction bl as [|b r IH]; intros p n Hp Hbl.
  { exists p, []. cbn [buf_pop abs_buf flat_map]. rewrite skipn_nil. fin. }
  inversion Hbl as [|? ? Hb Hr]; subst.
  cbn [buf_pop]. destruct (Nat.eqb_spec n 0) as [->|Hn0].
  { exists p, (b :: r). cbn [skipn]. fin. }
  destruct (hwfb_shape _ Hb) as [Hs Hrg].
  assert (Hbl_ : length (bc b) = b_size b) by (apply (bc_length (b_cap b)); assumption).
  destruct Hb as (_ & Hlt & Hle). destruct Hs as [Hcap Hdl].
  unfold b_pop_front. fold (b_size b). rewrite abs_buf_cons.
  destruct (le_lt_dec (b_size b) n) as [Hall|Hpart].
  - rewrite (Nat.min_r n (b_size b)) by lia.
    replace (b_first b + b_size b) with (b_last b) by (unfold b_size; lia).
    rewrite Nat.eqb_refl. unfold b_empty. cbn [b_first b_last]. cbn [Nat.eqb].
    set (b0 := mkB (b_cap b) 0 0 (b_data b)).
    destruct (hp_release_spec p b0 Hp) as [Hp1 Hac1]. { split; assumption. } { cbn [b0 b_cap]. lia. }
    destruct (IH (p_release p b0) (n - b_size b) Hp1 Hr) as (p' & bl' & Er & Hp' & Hbl' & Habs & Hac).
    rewrite Er. exists p', bl'. split; [reflexivity|].
    split; [assumption|]. split; [assumption|]. split.
    + rewrite Habs, skipn_app, Hbl_. rewrite (skipn_all2 (bc b)) by lia. reflexivity.
    + unfold acct in *. cbn [length]. lia.
  - rewrite (Nat.min_l n (b_size b)) by lia.
    destruct (Nat.eqb_spec (b_first b + n) (b_last b)) as [E|_]; [unfold b_size in Hpart; lia|].
    unfold b_empty. cbn [b_first b_last].
    destruct (Nat.eqb_spec (b_last b) (b_first b + n)) as [E|_]; [unfold b_size in Hpart; lia|].
    destruct (IH p (n - n) Hp Hr) as (p' & bl' & Er & Hp' & Hbl' & Habs & Hac).
    rewrite Er. rewrite Nat.sub_diag in *. cbn [skipn] in *.
    set (b' := mkB (b_cap b) (b_first b + n) (b_last b) (b_data b)).
    exists p', (b' :: bl'). split; [reflexivity|].
    split; [assumption|]. split.
    { constructor; [|assumption]. unfold hwfb, wfb, shape, b_size in *. cbn [b' b_cap b_first b_last b_data].
      repeat split; try assumption; lia. }
    split.
    + rewrite abs_buf_cons, Habs, skipn_app, Hbl_. replace (n - b_size b) with 0 by lia. cbn [skipn].
      f_equal. unfold bc at 2. rewrite seg_skipn_inner by lia.
      unfold bc, b_size. cbn [b' b_first b_last b_data]. f_equal. lia.
    + unfold acct in *. cbn [length]. lia.
Qed.

(* ------------------------------------------------------------------ AsIOVec / Clear / Size / Empty *)
Lemma hbuf_iovec_spec : forall bl, hwfbuf bl -> buf_iovec bl = Ok (map bc bl).
Proof.
  induction bl as [|b r IH]; intros Hbl; [reflexivity|].
  inversion Hbl as [|? ? Hb Hr]; subst. cbn [buf_iovec map].
  destruct (hwfb_shape _ Hb) as [Hs Hrg]. rewrite (b_view_spec (b_cap b) b Hs Hrg). cbn [bind].
  rewrite (IH Hr). reflexivity.
Qed.


Lemma hbuf_clear_spec : forall bl p,
  hwfpool p -> hwfbuf bl -> hwfpool (buf_clear p bl) /\ acct p (length bl) (buf_clear p bl) 0.
Proof.
  unfold buf_clear. induction bl as [|b r IH]; intros p Hp Hbl.
  { cbn [fold_left length]. split; [assumption|]. unfold acct; lia. }
  inversion Hbl as [|? ? Hb Hr]; subst. cbn [fold_left].
  destruct (hp_release_spec p b Hp) as [Hp1 Hac1]. { apply hwfb_shape in Hb. tauto. }
  { destruct Hb as (_ & ? & ?). lia. }
  destruct (IH _ Hp1 Hr) as [Hp' Hac]. split; [assumption|].
  unfold acct in *. cbn [length]. lia.
Qed.

Lemma hbuf_size_spec : forall bl, hwfbuf bl -> buf_size bl = length (abs_buf bl).
Proof.
  induction bl as [|b r IH]; intros Hbl; [reflexivity|].
  inversion Hbl as [|? ? Hb Hr]; subst. cbn [buf_size]. rewrite abs_buf_cons, app_length, (IH Hr).
  destruct (hwfb_shape _ Hb) as [Hs Hrg]. now rewrite (bc_length (b_cap b) b Hs Hrg).
Qed.

Lemma hwfbuf_nonnil b r : hwfbuf (b :: r) -> abs_buf (b :: r) <> [].
Proof.
  intros Hbl. inversion Hbl as [|? ? Hb Hr]; subst. rewrite abs_buf_cons.
  destruct (hwfb_shape _ Hb) as [Hs Hrg]. pose proof (bc_length (b_cap b) b Hs Hrg) as Hl.
  destruct Hb as (_ & ? & _). unfold b_size in Hl. destruct (bc b); [cbn [length] in Hl; lia|discriminate].
Qed.

Lemma hq_empty_spec bl :
  hwfbuf bl -> match bl with [] => true | _ => false end = is_nil (abs_buf bl).
Proof.
  destruct bl as [|b r]; intros H; [reflexivity|].
  apply hwfbuf_nonnil in H. destruct (abs_buf (b :: r)); [congruence|reflexivity].
Qed.

Lemma hs_empty_spec bl :
  hwfbuf bl -> match bl with [] => true | _ => buf_size bl =? 0 end = is_nil (abs_buf bl).
Proof.
  destruct bl as [|b r]; intros H; [reflexivity|].
  rewrite (hbuf_size_spec _ H). apply hwfbuf_nonnil in H.
  destruct (abs_buf (b :: r)); [congruence|reflexivity].
Qed.

