(* C15 round 6 proofs: sender conservation and stream round trip over several pools. *)
From OlaBase Require Import Bytes.
From Coq Require Import Arith.
From C15 Require Import Model Spec Sender ProofsBlock Proofs ProofsSender ProofsStream ProofsHetero
  Multi MultiSpec ProofsMulti Sender2.
Local Open Scope nat_scope.

Definition yrel (y : ystate) (ax : axstate) : Prop :=
  abs2 (y_st y) = ax_a ax /\ y_assoc y = ax_assoc ax /\ y_reg y = y_assoc y.

Lemma step2_qread_out st i w st' r : step2 st (QRead i w) = Ok (st', r) -> exists got, r = OBytes got.
Proof.
  unfold step2, on_q, m_read. destruct (get2 (m_q st) i) as [[k bl]| | |]; cbn [bind]; try discriminate.
  destruct (get2 (m_pools st) k); cbn [bind]; try discriminate.
  destruct (buf_read a bl w) as [[[p b] o]| | |]; cbn [bind]; try discriminate.
  intros E. inversion E. eauto.
Qed.

Section YSim.
Variables np nq ns : nat.
Variable max : N.
Hypothesis Hnq : 1 <= nq.
Definition Inv2 (st : state2) : Prop := exists g, I2 np nq ns st g.

Lemma q0_wf st g : I2 np nq ns st g -> hwfbuf (snd (nth 0 (m_q st) dq)).
Proof. intros H. exact (proj2 (nth_bufok np nq ns st g 0 H ltac:(lia))). Qed.

Lemma getq0_ok st g : I2 np nq ns st g -> getq0 st = Ok (snd (nth 0 (m_q st) dq)).
Proof.
  intros H. unfold getq0. rewrite (get2_ok (m_q st) 0 dq) by (rewrite (i_nq _ _ _ _ _ H); lia).
  destruct (nth 0 (m_q st) dq). reflexivity.
Qed.

Lemma geta2_q st i : geta (a_q (abs2 st)) i = abs_buf (snd (nth i (m_q st) dq)).
Proof. unfold abs2. cbn [a_q]. apply geta_map2. Qed.

Lemma y_q0_empty_spec st g :
  I2 np nq ns st g -> y_q0_empty st = Ok (is_nil (geta (a_q (abs2 st)) 0)).
Proof.
  intros H. unfold y_q0_empty. rewrite (getq0_ok st g H). cbn [bind]. f_equal.
  rewrite geta2_q. apply hq_empty_spec. exact (q0_wf st g H).
Qed.

Lemma y_limit_spec st g :
  I2 np nq ns st g -> y_limit_reached max st = Ok (max <=? alen32 (geta (a_q (abs2 st)) 0))%N.
Proof.
  intros H. unfold y_limit_reached. rewrite (getq0_ok st g H). cbn [bind]. f_equal.
  rewrite size32_spec, geta2_q. unfold alen32. now rewrite (hbuf_size_spec _ (q0_wf st g H)).
Qed.

Lemma abs2_lenq st g : I2 np nq ns st g -> length (a_q (abs2 st)) = nq.
Proof. apply abs2_len_q. Qed.

Lemma ystep_sim y ax o :
  Inv2 (y_st y) -> yrel y ax -> yop_ok nq ns o ->
  exists y' r, ystep max y o = Ok (y', r) /\ Inv2 (y_st y') /\
               snd (axstep max ax o) = xout_abs r /\ yrel y' (fst (axstep max ax o)).
Proof.
  intros [g H] (Ha & Has & Hreg) [Hok Hnp]. destruct y as [st assoc reg]. cbn [y_st y_assoc y_reg] in *.
  subst reg. destruct ax as [a aassoc queued sent]. cbn [ax_a ax_assoc] in *. subst a aassoc.
  pose proof (abs2_lenq st g H) as Hlen.
  destruct o as [o|j|i|r| |i w|d script]; cbn [xop_ok] in Hok; unfold ystep, axstep;
    cbn [y_st y_assoc y_reg ax_a ax_assoc ax_queued ax_sent].
  - (* UOp *)
    destruct Hok as [Hok _].
    assert (Hne : o <> PoolPurge) by (intros ->; apply Hnp; reflexivity).
    destruct (step2_sim np nq ns st g o H (conj Hok Hne)) as (st' & r & E & H' & A).
    rewrite E, A. cbn [bind]. eexists _, _. split; [reflexivity|]. split; [eexists; exact H'|].
    split; [reflexivity|]. cbn [fst]. repeat split.
  - (* SendS *)
    rewrite (y_limit_spec st g H). cbn [bind].
    destruct (max <=? alen32 (geta (a_q (abs2 st)) 0))%N.
    { eexists _, _. split; [reflexivity|]. split; [eexists; exact H|]. split; [reflexivity|]. repeat split. }
    destruct (step2_sim np nq ns st g (SMove j 0) H) as (st' & r & E & H' & A).
    { split; [cbn [op_ok]; lia|discriminate]. }
    rewrite E. cbn [bind]. unfold y_associate. rewrite (y_q0_empty_spec st' _ H'). cbn [bind].
    assert (Hc : geta (a_q (abs2 st')) 0 = geta (a_q (abs2 st)) 0 ++ geta (a_s (abs2 st)) j).
    { pose proof (f_equal fst A) as A1. cbn [fst astep] in A1. rewrite <- A1. cbn [a_q].
      apply geta_upd_same. lia. }
    rewrite Hc. eexists _, _. split; [reflexivity|]. split.
    { destruct (is_nil _); eexists; exact H'. }
    split; [reflexivity|]. cbn [fst]. rewrite A. cbn [fst].
    destruct (is_nil (geta (a_q (abs2 st)) 0 ++ geta (a_s (abs2 st)) j)); unfold yrel;
      cbn [y_st y_assoc y_reg ax_a ax_assoc negb]; rewrite ?orb_false_r, ?orb_true_r; repeat split.
  - (* SendQ *)
    destruct Hok as [Hi Hi0].
    rewrite (y_limit_spec st g H). cbn [bind].
    destruct (max <=? alen32 (geta (a_q (abs2 st)) 0))%N.
    { eexists _, _. split; [reflexivity|]. split; [eexists; exact H|]. split; [reflexivity|]. repeat split. }
    destruct (step2_sim np nq ns st g (QAppendMove 0 i) H) as (st' & r & E & H' & A).
    { split; [cbn [op_ok]; lia|discriminate]. }
    rewrite E. cbn [bind]. unfold y_associate. rewrite (y_q0_empty_spec st' _ H'). cbn [bind].
    assert (Hc : geta (a_q (abs2 st')) 0 = geta (a_q (abs2 st)) 0 ++ geta (a_q (abs2 st)) i).
    { pose proof (f_equal fst A) as A1. cbn [fst astep] in A1. rewrite <- A1. cbn [a_q].
      rewrite geta_upd_other by assumption. apply geta_upd_same. lia. }
    rewrite Hc. eexists _, _. split; [reflexivity|]. split.
    { destruct (is_nil _); eexists; exact H'. }
    split; [reflexivity|]. cbn [fst]. rewrite A. cbn [fst].
    destruct (is_nil (geta (a_q (abs2 st)) 0 ++ geta (a_q (abs2 st)) i)); unfold yrel;
      cbn [y_st y_assoc y_reg ax_a ax_assoc negb]; rewrite ?orb_false_r, ?orb_true_r; repeat split.
  - (* PWrite *)
    rewrite (getq0_ok st g H). cbn [bind].
    pose proof (q0_wf st g H) as Hw.
    rewrite (hbuf_iovec_spec _ Hw). cbn [bind]. rewrite concat_map_bc, <- geta2_q.
    destruct r as [k|].
    + set (n := Nat.min k (length (geta (a_q (abs2 st)) 0))).
      destruct (step2_sim np nq ns st g (QPop 0 n) H) as (st' & r & E & H' & A).
      { split; [cbn [op_ok]; lia|discriminate]. }
      rewrite E. cbn [bind]. rewrite (y_q0_empty_spec st' _ H'). cbn [bind].
      assert (Hc : geta (a_q (abs2 st')) 0 = skipn n (geta (a_q (abs2 st)) 0)).
      { pose proof (f_equal fst A) as A1. cbn [fst astep] in A1. rewrite <- A1. unfold aq. cbn [a_q].
        apply geta_upd_same. lia. }
      rewrite Hc. eexists _, _. split; [reflexivity|]. split.
      { destruct (is_nil _ && assoc); eexists; exact H'. }
      split; [reflexivity|]. cbn [fst]. rewrite A. cbn [fst].
      destruct (is_nil (skipn n (geta (a_q (abs2 st)) 0)) && assoc); unfold yrel;
        cbn [y_st y_assoc y_reg ax_a ax_assoc]; repeat split.
    + cbn [bind]. rewrite (y_q0_empty_spec st g H). cbn [bind].
      eexists _, _. split; [reflexivity|]. split.
      { destruct (is_nil _ && assoc); eexists; exact H. }
      split; [reflexivity|]. cbn [fst].
      destruct (is_nil (geta (a_q (abs2 st)) 0) && assoc); unfold yrel;
        cbn [y_st y_assoc y_reg ax_a ax_assoc]; repeat split.
  - (* Limit *)
    rewrite (y_limit_spec st g H). cbn [bind].
    eexists _, _. split; [reflexivity|]. split; [eexists; exact H|]. split; [reflexivity|]. repeat split.
  - (* QIn *)
    destruct Hok as [Hi Hi0].
    destruct (step2_sim np nq ns st g (QRead i w) H) as (st' & r & E & H' & A).
    { split; [cbn [op_ok]; lia|discriminate]. }
    destruct (step2_qread_out _ _ _ _ _ E) as (got & ->).
    rewrite E. cbn [bind].
    cbn [astep out_abs] in A.
    pose proof (f_equal fst A) as A1. pose proof (f_equal snd A) as A2. cbn [fst snd] in A1, A2.
    inversion A2 as [A3]. clear A2.
    eexists _, _. split; [reflexivity|]. split; [eexists; exact H'|].
    split; [reflexivity|]. cbn [fst]. unfold yrel.
    cbn [y_st y_assoc y_reg ax_a ax_assoc]. repeat split. now rewrite <- A1.
  - (* MBuf *)
    rewrite mb_new_spec. cbn [bind].
    eexists _, _. split; [reflexivity|]. split; [eexists; exact H|]. split; [reflexivity|]. repeat split.
Qed.

Lemma yop_xop o : yop_ok nq ns o -> xop_ok nq ns o. Proof. intros [? _]. assumption. Qed.

Lemma yrun_sim : forall ops y ax,
  Inv2 (y_st y) -> yrel y ax -> Forall (yop_ok nq ns) ops ->
  exists y' rs, yrun max y ops = Ok (y', rs) /\ Inv2 (y_st y') /\
                snd (axrun max ax ops) = map xout_abs rs /\ yrel y' (fst (axrun max ax ops)).
Proof.
  induction ops as [|o r IH]; intros y ax H R Hok.
  { exists y, []. split; [reflexivity|]. split; [assumption|]. split; [reflexivity|exact R]. }
  inversion Hok as [|? ? Ho Hr]; subst.
  destruct (ystep_sim y ax o H R Ho) as (y1 & x & E1 & H1 & O1 & R1).
  destruct (IH y1 (fst (axstep max ax o)) H1 R1 Hr) as (y2 & xs & E2 & H2 & O2 & R2).
  exists y2, (x :: xs). cbn [yrun axrun]. rewrite E1. cbn [bind]. rewrite E2. cbn [bind].
  destruct (axstep max ax o) as [a1 x1]. cbn [fst snd] in *.
  destruct (axrun max a1 r) as [a2 xs2]. cbn [fst snd map] in *.
  split; [reflexivity|]. split; [assumption|]. split; [congruence|assumption].
Qed.

End YSim.

Definition ymulti_ok (bss qp sp : list nat) (ops : list xop) : Prop :=
  Forall (fun bs => 1 <= bs) bss /\
  Forall (fun k => k < length bss) qp /\ Forall (fun k => k < length bss) sp /\
  1 <= length qp /\ Forall (yop_ok (length qp) (length sp)) ops.

Lemma yrel_init bss qp sp : yrel (yinit bss qp sp) (axinit (length qp) (length sp)).
Proof. unfold yrel, yinit, axinit. cbn [y_st y_assoc y_reg ax_a ax_assoc]. now rewrite abs2_init. Qed.

Lemma ainv_init nq ns : ainv nq ns (axinit nq ns).
Proof.
  assert (G0 : geta (a_q (ainit nq ns)) 0 = []) by exact (content_ainit nq ns (KQ 0)).
  unfold ainv, axinit. cbn [ax_a ax_assoc ax_queued ax_sent]. rewrite G0.
  split; [|split; reflexivity]. unfold awf, ainit. cbn [a_q a_s]. now rewrite !repeat_length.
Qed.

Lemma sender2_conserves bss qp sp max ops :
  ymulti_ok bss qp sp ops ->
  exists y outs,
    yrun max (yinit bss qp sp) ops = Ok (y, outs) /\
    let ax := fst (axrun max (axinit (length qp) (length sp)) ops) in
    let pending := abs_buf (blk (m_q (y_st y)) 0) in
    map xout_abs outs = snd (axrun max (axinit (length qp) (length sp)) ops) /\
    abs2 (y_st y) = ax_a ax /\
    sent_of outs ++ pending = ax_queued ax /\
    (pending = [] -> sent_of outs = ax_queued ax) /\
    y_assoc y = negb (is_nil pending) /\ y_reg y = y_assoc y /\
    total_alloc (y_st y) = total_free (y_st y) + total_held (y_st y).
Proof.
  intros (Hb & Hq & Hs & Hnq & Hok).
  assert (I0 : Inv2 (length bss) (length qp) (length sp) (y_st (yinit bss qp sp))).
  { eexists. exact (I2_init bss qp sp Hb Hq Hs). }
  destruct (yrun_sim _ _ _ max Hnq ops _ _ I0 (yrel_init bss qp sp) Hok)
    as (y & outs & E & [g Hi] & Ho & (Ra & Rs & Rr)).
  assert (Hokx : Forall (xop_ok (length qp) (length sp)) ops).
  { eapply Forall_impl; [|exact Hok]. intros o [? _]. assumption. }
  pose proof (ainv_run 1 (length qp) (length sp) max (le_n 1) Hnq ops _ (ainv_init _ _) Hokx) as (Hw & Hc & Has).
  pose proof (sent_run max ops (axinit (length qp) (length sp))) as Hsent. cbn [axinit ax_sent app] in Hsent.
  rewrite Ho, sent_of_abs in Hsent.
  exists y, outs. split; [exact E|]. cbn zeta.
  assert (Hp : abs_buf (blk (m_q (y_st y)) 0) =
               geta (a_q (ax_a (fst (axrun max (axinit (length qp) (length sp)) ops)))) 0).
  { rewrite <- Ra. unfold blk. now rewrite geta2_q. }
  rewrite Hp, <- Hsent in *.
  split; [now rewrite Ho|]. split; [exact Ra|]. split; [exact Hc|]. split.
  { intros E0. rewrite E0, app_nil_r in Hc. exact Hc. }
  split; [now rewrite Rs|]. split; [exact Rr|]. exact (i_total _ _ _ _ _ Hi).
Qed.

(* stream round trip on a queue of any pool, after any several-pools history *)
Lemma stream2_roundtrip bss qp sp max pre vals i y0 outs0 :
  ymulti_ok bss qp sp pre -> i < length qp -> i <> 0 ->
  yrun max (yinit bss qp sp) pre = Ok (y0, outs0) ->
  abs_buf (blk (m_q (y_st y0)) i) = [] ->
  exists y1 outs,
    yrun max y0 (map (wop i) vals ++ map (rop i) vals) = Ok (y1, outs) /\
    map xout_abs outs = map (fun _ => XUser ONone) vals ++ map rres vals /\
    abs_buf (blk (m_q (y_st y1)) i) = [].
Proof.
  intros (Hb & Hq & Hs & Hnq & Hpre) Hi Hi0 E0 Hempty.
  assert (I0 : Inv2 (length bss) (length qp) (length sp) (y_st (yinit bss qp sp))).
  { eexists. exact (I2_init bss qp sp Hb Hq Hs). }
  destruct (yrun_sim _ _ _ max Hnq pre _ _ I0 (yrel_init bss qp sp) Hpre) as (y0' & o' & E0' & Hinv0 & _ & Rel0).
  rewrite E0 in E0'. inversion E0'; subst y0' o'. clear E0'.
  set (ax0 := fst (axrun max (axinit (length qp) (length sp)) pre)) in *.
  assert (Hprex : Forall (xop_ok (length qp) (length sp)) pre).
  { eapply Forall_impl; [|exact Hpre]. intros o [? _]. assumption. }
  pose proof (ainv_run 1 (length qp) (length sp) max (le_n 1) Hnq pre _ (ainv_init _ _) Hprex) as (Hw0 & _).
  fold ax0 in Hw0.
  assert (Hok2 : Forall (yop_ok (length qp) (length sp)) (map (wop i) vals ++ map (rop i) vals)).
  { apply Forall_app. split; apply Forall_forall; intros o Ho; apply in_map_iff in Ho;
      destruct Ho as ([w v] & <- & _); (split; [cbn [wop rop xop_ok op_ok op_q0_free fst snd]; tauto|discriminate]). }
  destruct (yrun_sim _ _ _ max Hnq _ y0 ax0 Hinv0 Rel0 Hok2) as (y1 & outs & E1 & Hinv1 & Ho & (Ra & _)).
  exists y1, outs. split; [exact E1|].
  rewrite axrun_app in Ho, Ra. cbn [fst snd] in Ho, Ra.
  destruct (axrun_W (length qp) (length sp) i max Hi vals ax0 Hw0) as (HoW & HcW & HwW).
  assert (Hc0 : geta (a_q (ax_a ax0)) i = []).
  { destruct Rel0 as (Ra0 & _). rewrite <- Ra0, geta2_q. exact Hempty. }
  rewrite Hc0 in HcW. cbn [app] in HcW.
  destruct (axrun_R (length qp) (length sp) i max Hi vals _ [] HwW) as (HoR & HcR).
  { now rewrite HcW, app_nil_r. }
  split.
  - now rewrite <- Ho, HoW, HoR.
  - unfold blk. rewrite <- geta2_q, Ra. exact HcR.
Qed.
