From Coq Require Extraction.
From Coq Require Import ExtrOcamlBasic.
From OlaBase Require Import Bytes.
From C15 Require Import Model Sender Cross Multi Len32 Sender2.
Extraction Language OCaml.
Extraction "model.ml" io_witness N.div_eucl init step free_blocks blocks_allocated acct_ok
  noempty_ok buf_layout xinit xstep be_value size32 cross_run cross_acct_ok init2 step2 pool_obs acct2_ok noempty2_ok natlen buf_size yinit ystep destroy_private.
