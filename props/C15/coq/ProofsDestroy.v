(* C15 final round: what the block accounting looks like after a default-constructed stack is
   destroyed together with its private pool (Multi.destroy_private). *)
From OlaBase Require Import Bytes.
From Coq Require Import Arith.
From C15 Require Import Model Spec ProofsBlock Proofs ProofsHetero Multi MultiSpec ProofsMulti.
Local Open Scope nat_scope.

Lemma destroy_private_acct np nq ns st g j k bl :
  I2 np nq ns st g -> nth_error (m_s st) j = Some (k, bl) ->
  held2 st k = length bl ->                       (* the stack is the only buffer bound to pool k *)
  exists st', destroy_private st j = Ok st' /\
    (Z.of_nat (total_alloc st') - g k = Z.of_nat (total_free st') + Z.of_nat (total_held st'))%Z /\
    alloc2 st' k = 0 /\ free2 st' k = 0 /\
    (forall k', k' <> k -> alloc2 st' k' = alloc2 st k' /\ free2 st' k' = free2 st k').
Proof.
  intros [Hnp Hps Hnq Hq Hns Hs Ht Hp] E Hpriv.
  assert (Hj : j < length (m_s st)) by (apply nth_error_Some; congruence).
  assert (En : nth j (m_s st) dq = (k, bl)) by (now apply nth_error_nth).
  assert (Hk : k < np).
  { apply nth_error_In in E. exact (proj1 (proj1 (Forall_forall _ _) Hs _ E)). }
  unfold destroy_private, get2. rewrite E. cbn [bind].
  destruct (nth_error (m_pools st) k) as [p|] eqn:Ep; [|apply nth_error_None in Ep; lia]. cbn [bind].
  assert (Epn : nth k (m_pools st) dp = p) by (now apply nth_error_nth).
  eexists. split; [reflexivity|].
  specialize (Hp k Hk). unfold alloc2, free2 in *. fold dp in Hp. rewrite Epn in Hp.
  unfold total_alloc, total_free, total_held in *. cbn [m_pools m_q m_s].
  pose proof (sumf_upd p_alloc (m_pools st) k (p_new (p_bs p)) dp ltac:(lia)) as A1.
  pose proof (sumf_upd (fun p => length (p_free p)) (m_pools st) k (p_new (p_bs p)) dp ltac:(lia)) as A2.
  pose proof (sumf_upd (fun kb : nat * buffer => length (snd kb)) (m_s st) j (k, []) dq Hj) as A3.
  rewrite Epn in A1, A2. rewrite En in A3. cbn [snd length p_new p_alloc p_free] in A1, A2, A3.
  rewrite sumf_app in *. unfold buffer in *.
  split; [lia|].
  rewrite !nth_upd_same by lia. cbn [p_new p_alloc p_free length].
  split; [reflexivity|]. split; [reflexivity|].
  intros k' Hne. rewrite !nth_upd_other by congruence. split; reflexivity.
Qed.
