(* C15 round 2: buffers with DIFFERENT pools handed to one operation (IOQueue::AppendMove,
   IOStack::MoveToIOQueue, NonBlockingSender::SendMessage do not check).  The blocks change
   owner, and whoever empties them releases them to ITS OWN pool.  Faithful model of one such
   history, built from the method models of Model.v (which take the pool as an argument):
     MemoryBlockPool A(bsA), B(bsB); IOQueue qa(&A), qb(&B);
     qa.Write(d); qb.AppendMove(&qa); qb.Read(out, n); <observe>; B.Purge(); <observe>
   Purge() decrements the unsigned m_blocks_allocated once per free block. *)
From OlaBase Require Import Bytes.
From Coq Require Import Arith.
From C15 Require Import Model.
Local Open Scope nat_scope.

Record cobs := mkC {
  c_read : list N;           (* what qb.Read returned *)
  c_allocA : nat; c_freeA : nat;     (* A.BlocksAllocated(), A.FreeBlocks() after the read *)
  c_allocB : nat; c_freeB : nat;     (* B.BlocksAllocated(), B.FreeBlocks() after the read *)
  c_heldB : nat;                     (* blocks still in qb *)
  c_allocB_purged : N }.             (* B.BlocksAllocated() after B.Purge() *)

Definition cross_run (bsA bsB : nat) (d : list N) (n : nat) : res cobs :=
  '(pa, qa) <- q_write (p_new bsA) [] d ;;
  let qb := [] ++ qa in                                   (* qb.AppendMove(&qa); qa is now empty *)
  '(pb, qb', o) <- buf_read (p_new bsB) qb n ;;           (* releases to qb's pool: B *)
  Ok (mkC o (p_alloc pa) (length (p_free pa)) (p_alloc pb) (length (p_free pb)) (length qb')
          (usub32 (N.of_nat (p_alloc pb)) (N.of_nat (length (p_free pb))))).

(* the property's pool clause for pool B: allocated = free + held by its buffers *)
Definition cross_acct_ok (c : cobs) : bool := c_allocB c =? c_freeB c + c_heldB c.
