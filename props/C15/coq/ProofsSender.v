(* C15 round 2 proofs: NonBlockingSender / ConnectedDescriptor::Send / input streams /
   MemoryBuffer (model and specification in Sender.v). *)
From OlaBase Require Import Bytes.
From Coq Require Import Arith.
From C15 Require Import Model Spec Sender ProofsBlock Proofs.
Local Open Scope nat_scope.

(* ------------------------------------------------------------------ Size() in unsigned int *)
Lemma size32_acc : forall bl acc,
  fold_left (fun acc b => u32 (acc + N.of_nat (b_size b))) bl (u32 acc) =
  u32 (acc + N.of_nat (buf_size bl)).
Proof.
  induction bl as [|b r IH]; intros acc; cbn [fold_left buf_size].
  - f_equal. lia.
  - replace (u32 (u32 acc + N.of_nat (b_size b))) with (u32 (acc + N.of_nat (b_size b))).
    + rewrite IH. f_equal. lia.
    + unfold u32. now rewrite N.add_mod_idemp_l by discriminate.
Qed.

Lemma size32_spec bl : size32 bl = u32 (N.of_nat (buf_size bl)).
Proof. unfold size32. change 0%N with (u32 0) at 1. now rewrite size32_acc. Qed.

(* ------------------------------------------------------------------ MemoryBuffer *)
Lemma firstn_min_len {A} (l : list A) n : firstn (Nat.min (length l) n) l = firstn n l.
Proof.
  destruct (le_lt_dec (length l) n).
  - rewrite Nat.min_l by lia. now rewrite firstn_all, firstn_all2.
  - now rewrite Nat.min_r by lia.
Qed.
Lemma skipn_min_len {A} (l : list A) n : skipn (Nat.min (length l) n) l = skipn n l.
Proof.
  destruct (le_lt_dec (length l) n).
  - rewrite Nat.min_l by lia. now rewrite skipn_all, skipn_all2.
  - now rewrite Nat.min_r by lia.
Qed.

Lemma mb_run_spec : forall script d cur,
  cur <= length d ->
  mb_run (mkM d (length d) cur) script = Ok (mb_spec (skipn cur d) script).
Proof.
  induction script as [|r rest IH]; intros d cur Hc; [reflexivity|].
  cbn [mb_run mb_spec]. unfold mb_read. cbn [m_data m_size m_cursor].
  set (n := Nat.min (length d - cur) (mread_len r)).
  rewrite mem_read_ok by (unfold n; lia). cbn [bind].
  rewrite IH by (unfold n; lia). cbn [bind]. unfold seg.
  assert (Hl : length (skipn cur d) = length d - cur) by apply skipn_length.
  unfold n. rewrite <- Hl. rewrite firstn_min_len. f_equal. f_equal. f_equal.
  rewrite <- skipn_skipn'. apply skipn_min_len.
Qed.

Lemma mb_new_spec d script : mb_run (mb_new d) script = Ok (mb_spec d script).
Proof. unfold mb_new. now rewrite mb_run_spec by lia. Qed.

(* ------------------------------------------------------------------ big-endian values *)
Lemma be_bytes_length w v : length (be_bytes w v) = w.
Proof. induction w as [|w IH]; cbn [be_bytes length]; [reflexivity|]. now rewrite IH. Qed.

Lemma be_value_bytes : forall w v, be_value (be_bytes w v) = (v mod 256 ^ N.of_nat w)%N.
Proof.
  induction w as [|w IH]; intros v.
  - cbn. now rewrite N.mod_1_r.
  - cbn [be_bytes be_value]. rewrite be_bytes_length, IH.
    replace (N.of_nat (S w)) with (N.succ (N.of_nat w)) by lia.
    rewrite N.pow_succ_r'.
    rewrite (N.mul_comm 256). rewrite N.mod_mul_r by (try apply N.pow_nonzero; discriminate).
    lia.
Qed.

(* ------------------------------------------------------------------ simulation of one extended op *)
Definition xrel (x : xstate) (ax : axstate) : Prop :=
  abs (x_st x) = ax_a ax /\ x_assoc x = ax_assoc ax /\ x_reg x = x_assoc x.

Lemma step_qread_out st i w st' y : step st (QRead i w) = Ok (st', y) -> exists got, y = OBytes got.
Proof.
  unfold step. destruct (getb (s_q st) i); cbn [bind]; try discriminate.
  destruct (buf_read (s_pool st) a w) as [[[p bl] o]| | |]; cbn [bind]; try discriminate.
  intros E. inversion E. eauto.
Qed.

Section XSim.
Variables bs nq ns : nat.
Variable max : N.
Hypothesis Hbs : 1 <= bs.
Hypothesis Hnq : 1 <= nq.
Notation Inv := (inv bs nq ns).

Lemma getq0 st : Inv st -> getb (s_q st) 0 = Ok (nth 0 (s_q st) []).
Proof. intros H. apply getb_ok. rewrite (inv_nq _ _ _ _ H). lia. Qed.

Lemma q0_empty_spec st :
  Inv st -> q0_empty st = Ok (is_nil (geta (a_q (abs st)) 0)).
Proof.
  intros H. unfold q0_empty. rewrite (getq0 st H). cbn [bind]. f_equal.
  rewrite geta_q. apply (q_empty_spec bs). apply Forall_nth_d; [apply (inv_q _ _ _ _ H)|constructor].
Qed.

Lemma limit_spec st :
  Inv st -> limit_reached max st = Ok (max <=? alen32 (geta (a_q (abs st)) 0))%N.
Proof.
  intros H. unfold limit_reached. rewrite (getq0 st H). cbn [bind]. f_equal.
  rewrite size32_spec, geta_q. unfold alen32.
  rewrite (buf_size_spec bs); [reflexivity|].
  apply Forall_nth_d; [apply (inv_q _ _ _ _ H)|constructor].
Qed.

Lemma abs_len_q st : Inv st -> length (a_q (abs st)) = nq.
Proof. intros H. unfold abs. cbn [a_q]. rewrite map_length. apply (inv_nq _ _ _ _ H). Qed.

Lemma xstep_sim x ax o :
  Inv (x_st x) -> xrel x ax -> xop_ok nq ns o ->
  exists x' y, xstep max x o = Ok (x', y) /\ Inv (x_st x') /\
               snd (axstep max ax o) = xout_abs y /\ xrel x' (fst (axstep max ax o)).
Proof.
  intros H (Ha & Has & Hreg) Hok. destruct x as [st assoc reg]. cbn [x_st x_assoc x_reg] in *.
  subst reg. destruct ax as [a aassoc queued sent]. cbn [ax_a ax_assoc] in *. subst a aassoc.
  pose proof (abs_len_q st H) as Hlen.
  destruct o as [o|j|i|r| |i w|d script]; cbn [xop_ok] in Hok; unfold xstep, axstep;
    cbn [x_st x_assoc x_reg ax_a ax_assoc ax_queued ax_sent].
  - (* UOp *)
    destruct Hok as [Hok _].
    destruct (step_sim bs nq ns Hbs st o H Hok) as (st' & y & E & H' & A).
    rewrite E, A. cbn [bind]. eexists _, _. split; [reflexivity|]. split; [exact H'|].
    split; [reflexivity|]. cbn [fst]. repeat split.
  - (* SendS *)
    rewrite (limit_spec st H). cbn [bind].
    destruct (max <=? alen32 (geta (a_q (abs st)) 0))%N.
    { eexists _, _. split; [reflexivity|]. split; [exact H|]. split; [reflexivity|]. repeat split. }
    destruct (step_sim bs nq ns Hbs st (SMove j 0) H) as (st' & y & E & H' & A). { cbn [op_ok]. lia. }
    rewrite E. cbn [bind]. unfold associate. rewrite (q0_empty_spec st' H'). cbn [bind].
    assert (Hc : geta (a_q (abs st')) 0 = geta (a_q (abs st)) 0 ++ geta (a_s (abs st)) j).
    { pose proof (f_equal fst A) as A1. cbn [fst astep] in A1. rewrite <- A1. cbn [a_q].
      apply geta_upd_same. lia. }
    rewrite Hc. eexists _, _. split; [reflexivity|]. split.
    { destruct (is_nil _); exact H'. }
    split; [reflexivity|]. cbn [fst]. rewrite A. cbn [fst].
    destruct (is_nil (geta (a_q (abs st)) 0 ++ geta (a_s (abs st)) j)); unfold xrel;
      cbn [x_st x_assoc x_reg ax_a ax_assoc negb]; rewrite ?orb_false_r, ?orb_true_r; repeat split.
  - (* SendQ *)
    destruct Hok as [Hi Hi0].
    rewrite (limit_spec st H). cbn [bind].
    destruct (max <=? alen32 (geta (a_q (abs st)) 0))%N.
    { eexists _, _. split; [reflexivity|]. split; [exact H|]. split; [reflexivity|]. repeat split. }
    destruct (step_sim bs nq ns Hbs st (QAppendMove 0 i) H) as (st' & y & E & H' & A). { cbn [op_ok]. lia. }
    rewrite E. cbn [bind]. unfold associate. rewrite (q0_empty_spec st' H'). cbn [bind].
    assert (Hc : geta (a_q (abs st')) 0 = geta (a_q (abs st)) 0 ++ geta (a_q (abs st)) i).
    { pose proof (f_equal fst A) as A1. cbn [fst astep] in A1. rewrite <- A1. cbn [a_q].
      rewrite geta_upd_other by assumption. apply geta_upd_same. lia. }
    rewrite Hc. eexists _, _. split; [reflexivity|]. split.
    { destruct (is_nil _); exact H'. }
    split; [reflexivity|]. cbn [fst]. rewrite A. cbn [fst].
    destruct (is_nil (geta (a_q (abs st)) 0 ++ geta (a_q (abs st)) i)); unfold xrel;
      cbn [x_st x_assoc x_reg ax_a ax_assoc negb]; rewrite ?orb_false_r, ?orb_true_r; repeat split.
  - (* PWrite *)
    rewrite (getq0 st H). cbn [bind].
    assert (Hw : wfbuf bs (nth 0 (s_q st) [])) by (apply Forall_nth_d; [apply (inv_q _ _ _ _ H)|constructor]).
    rewrite (buf_iovec_spec bs _ Hw). cbn [bind]. rewrite concat_map_bc, <- geta_q.
    destruct r as [k|].
    + set (n := Nat.min k (length (geta (a_q (abs st)) 0))).
      destruct (step_sim bs nq ns Hbs st (QPop 0 n) H) as (st' & y & E & H' & A). { cbn [op_ok]. lia. }
      rewrite E. cbn [bind]. rewrite (q0_empty_spec st' H'). cbn [bind].
      assert (Hc : geta (a_q (abs st')) 0 = skipn n (geta (a_q (abs st)) 0)).
      { pose proof (f_equal fst A) as A1. cbn [fst astep] in A1. rewrite <- A1. unfold aq. cbn [a_q].
        apply geta_upd_same. lia. }
      rewrite Hc. eexists _, _. split; [reflexivity|]. split.
      { destruct (is_nil _ && assoc); exact H'. }
      split; [reflexivity|]. cbn [fst]. rewrite A. cbn [fst].
      destruct (is_nil (skipn n (geta (a_q (abs st)) 0)) && assoc); unfold xrel;
        cbn [x_st x_assoc x_reg ax_a ax_assoc]; repeat split.
    + cbn [bind]. rewrite (q0_empty_spec st H). cbn [bind].
      eexists _, _. split; [reflexivity|]. split.
      { destruct (is_nil _ && assoc); exact H. }
      split; [reflexivity|]. cbn [fst].
      destruct (is_nil (geta (a_q (abs st)) 0) && assoc); unfold xrel;
        cbn [x_st x_assoc x_reg ax_a ax_assoc]; repeat split.
  - (* Limit *)
    rewrite (limit_spec st H). cbn [bind].
    eexists _, _. split; [reflexivity|]. split; [exact H|]. split; [reflexivity|]. repeat split.
  - (* QIn *)
    destruct Hok as [Hi Hi0].
    destruct (step_sim bs nq ns Hbs st (QRead i w) H) as (st' & y & E & H' & A). { cbn [op_ok]. lia. }
    destruct (step_qread_out _ _ _ _ _ E) as (got & ->).
    rewrite E. cbn [bind].
    cbn [astep out_abs] in A.
    pose proof (f_equal fst A) as A1. pose proof (f_equal snd A) as A2. cbn [fst snd] in A1, A2.
    inversion A2 as [A3]. clear A2.
    eexists _, _. split; [reflexivity|]. split; [exact H'|].
    split; [reflexivity|]. cbn [fst]. unfold xrel.
    cbn [x_st x_assoc x_reg ax_a ax_assoc]. repeat split. now rewrite <- A1.
  - (* MBuf *)
    rewrite mb_new_spec. cbn [bind].
    eexists _, _. split; [reflexivity|]. split; [exact H|]. split; [reflexivity|]. repeat split.
Qed.

Lemma xrun_sim : forall ops x ax,
  Inv (x_st x) -> xrel x ax -> Forall (xop_ok nq ns) ops ->
  exists x' ys, xrun max x ops = Ok (x', ys) /\ Inv (x_st x') /\
                snd (axrun max ax ops) = map xout_abs ys /\ xrel x' (fst (axrun max ax ops)).
Proof.
  induction ops as [|o r IH]; intros x ax H R Hok.
  { exists x, []. split; [reflexivity|]. split; [assumption|]. split; [reflexivity|exact R]. }
  inversion Hok as [|? ? Ho Hr]; subst.
  destruct (xstep_sim x ax o H R Ho) as (x1 & y & E1 & H1 & O1 & R1).
  destruct (IH x1 (fst (axstep max ax o)) H1 R1 Hr) as (x2 & ys & E2 & H2 & O2 & R2).
  exists x2, (y :: ys). cbn [xrun axrun]. rewrite E1. cbn [bind]. rewrite E2. cbn [bind].
  destruct (axstep max ax o) as [a1 y1]. cbn [fst snd] in *.
  destruct (axrun max a1 r) as [a2 ys2]. cbn [fst snd map] in *.
  split; [reflexivity|]. split; [assumption|]. split; [congruence|assumption].
Qed.

(* ------------------------------------------------------------------ the specification conserves *)
Definition ainv (ax : axstate) : Prop :=
  awf nq ns (ax_a ax) /\
  ax_sent ax ++ geta (a_q (ax_a ax)) 0 = ax_queued ax /\
  ax_assoc ax = negb (is_nil (geta (a_q (ax_a ax)) 0)).

Lemma astep_q0_free a o :
  awf nq ns a -> op_ok nq ns o -> op_q0_free o ->
  geta (a_q (fst (astep a o))) 0 = geta (a_q a) 0.
Proof.
  intros [Hq Hs] Hok Hf.
  destruct o; cbn [op_ok op_q0_free] in *; cbn [astep fst]; unfold aq, as_; cbn [a_q a_s];
    rewrite ?geta_upd_other by lia; try reflexivity.
Qed.

Lemma is_nil_app {A} (a b : list A) : is_nil (a ++ b) = is_nil a && is_nil b.
Proof. destruct a; reflexivity. Qed.

Lemma ainv_step ax o : ainv ax -> xop_ok nq ns o -> ainv (fst (axstep max ax o)).
Proof.
  intros (Hw & Hc & Has) Hok. pose proof Hw as [Hq Hs].
  destruct ax as [a assoc queued sent]. cbn [ax_a ax_assoc ax_queued ax_sent] in *.
  destruct o as [o|j|i|r| |i w|d script]; cbn [xop_ok] in Hok; unfold axstep;
    cbn [ax_a ax_assoc ax_queued ax_sent].
  - destruct Hok as [Hok Hf]. pose proof (astep_q0_free a o Hw Hok Hf) as Hg.
    pose proof (awf_astep nq ns a o Hw) as Hw'.
    destruct (astep a o) as [a' y]. cbn [fst] in *. unfold ainv. cbn [ax_a ax_assoc ax_queued ax_sent].
    rewrite Hg. tauto.
  - destruct (max <=? alen32 (geta (a_q a) 0))%N; cbn [fst]; [unfold ainv; tauto|].
    unfold ainv. cbn [ax_a ax_assoc ax_queued ax_sent]. split; [apply awf_astep; exact Hw|].
    cbn [astep fst a_q]. rewrite geta_upd_same by lia. split.
    + rewrite <- Hc. now rewrite app_assoc.
    + rewrite Has, is_nil_app. destruct (is_nil (geta (a_q a) 0)); reflexivity.
  - destruct Hok as [Hi Hi0].
    destruct (max <=? alen32 (geta (a_q a) 0))%N; cbn [fst]; [unfold ainv; tauto|].
    unfold ainv. cbn [ax_a ax_assoc ax_queued ax_sent]. split; [apply awf_astep; exact Hw|].
    cbn [astep fst a_q]. rewrite geta_upd_other by assumption. rewrite geta_upd_same by lia. split.
    + rewrite <- Hc. now rewrite app_assoc.
    + rewrite Has, is_nil_app. destruct (is_nil (geta (a_q a) 0)); reflexivity.
  - destruct r as [k|]; cbn [fst]; unfold ainv; cbn [ax_a ax_assoc ax_queued ax_sent].
    + split; [apply awf_astep; exact Hw|].
      cbn [astep fst]. unfold aq. cbn [a_q]. rewrite geta_upd_same by lia. split.
      * rewrite <- Hc, <- app_assoc. now rewrite firstn_skipn.
      * rewrite Has. set (n := Nat.min k _).
        destruct (geta (a_q a) 0) as [|b c] eqn:E0.
        { rewrite skipn_nil. reflexivity. }
        destruct (skipn n (b :: c)); reflexivity.
    + split; [exact Hw|]. split; [exact Hc|]. rewrite Has.
      destruct (geta (a_q a) 0); reflexivity.
  - cbn [fst]. unfold ainv. tauto.
  - destruct Hok as [Hi Hi0]. cbn [fst]. unfold ainv, aq. cbn [ax_a ax_assoc ax_queued ax_sent a_q a_s].
    rewrite geta_upd_other by assumption. split; [|tauto].
    split; cbn [a_q a_s]; rewrite ?upd_length; assumption.
  - cbn [fst]. unfold ainv. tauto.
Qed.

Lemma ainv_run : forall ops ax,
  ainv ax -> Forall (xop_ok nq ns) ops -> ainv (fst (axrun max ax ops)).
Proof.
  induction ops as [|o r IH]; intros ax Hi Hok; [exact Hi|].
  inversion Hok as [|? ? Ho Hr]; subst. cbn [axrun].
  pose proof (ainv_step ax o Hi Ho) as H1. specialize (IH (fst (axstep max ax o)) H1 Hr).
  destruct (axstep max ax o) as [a1 y]. cbn [fst] in *.
  destruct (axrun max a1 r) as [a2 ys]. exact IH.
Qed.

(* the ghost [ax_sent] is exactly what the PerformWrite outputs say the descriptor accepted *)
Lemma sent_run : forall ops ax,
  ax_sent (fst (axrun max ax ops)) = ax_sent ax ++ sent_of (snd (axrun max ax ops)).
Proof.
  induction ops as [|o r IH]; intros ax; cbn [axrun].
  { cbn [fst snd sent_of]. now rewrite app_nil_r. }
  specialize (IH (fst (axstep max ax o))).
  assert (Hs : ax_sent (fst (axstep max ax o)) = ax_sent ax ++ sent_of [snd (axstep max ax o)]).
  { destruct o as [o|j|i|[k|]| |i w|d script]; unfold axstep; cbn [fst snd sent_of ax_sent];
      rewrite ?app_nil_r; try reflexivity.
    - destruct (astep (ax_a ax) o). cbn [fst snd sent_of ax_sent]. now rewrite app_nil_r.
    - destruct (max <=? _)%N; cbn [fst snd sent_of ax_sent]; now rewrite app_nil_r.
    - destruct (max <=? _)%N; cbn [fst snd sent_of ax_sent]; now rewrite app_nil_r. }
  destruct (axstep max ax o) as [a1 y]. cbn [fst snd] in *.
  destruct (axrun max a1 r) as [a2 ys]. cbn [fst snd] in *.
  rewrite IH, Hs. cbn [sent_of]. destruct y as [| |[l|]| |]; cbn [sent_of]; rewrite ?app_nil_r; try reflexivity.
  now rewrite app_assoc.
Qed.

Lemma sent_of_abs ys : sent_of (map xout_abs ys) = sent_of ys.
Proof.
  induction ys as [|y r IH]; [reflexivity|].
  destruct y as [| |[l|]| |]; cbn [map xout_abs sent_of]; now rewrite ?IH.
Qed.

End XSim.

(* ------------------------------------------------------------------ history-level theorem *)
Lemma sender_conserves bs nq ns max ops :
  1 <= bs -> 1 <= nq -> Forall (xop_ok nq ns) ops ->
  exists x outs,
    xrun max (xinit bs nq ns) ops = Ok (x, outs) /\
    let ax := fst (axrun max (axinit nq ns) ops) in
    let pending := abs_buf (nth 0 (s_q (x_st x)) []) in
    map xout_abs outs = snd (axrun max (axinit nq ns) ops) /\
    abs (x_st x) = ax_a ax /\
    sent_of outs ++ pending = ax_queued ax /\
    (pending = [] -> sent_of outs = ax_queued ax) /\
    x_assoc x = negb (is_nil pending) /\ x_reg x = x_assoc x /\
    inv bs nq ns (x_st x) /\
    blocks_allocated (x_st x) = free_blocks (x_st x) + in_use (x_st x).
Proof.
  intros Hbs Hnq Hok.
  assert (R0 : xrel (xinit bs nq ns) (axinit nq ns)).
  { unfold xrel, xinit, axinit. cbn [x_st x_assoc x_reg ax_a ax_assoc]. now rewrite abs_init. }
  destruct (xrun_sim bs nq ns max Hbs Hnq ops (xinit bs nq ns) (axinit nq ns) (inv_init bs nq ns) R0 Hok)
    as (x & outs & E & Hi & Ho & (Ra & Rs & Rr)).
  assert (A0 : ainv nq ns (axinit nq ns)).
  { assert (G0 : geta (a_q (ainit nq ns)) 0 = []) by exact (content_ainit nq ns (KQ 0)).
    unfold ainv, axinit. cbn [ax_a ax_assoc ax_queued ax_sent]. rewrite G0.
    split; [|split; reflexivity]. unfold awf, ainit. cbn [a_q a_s]. now rewrite !repeat_length. }
  pose proof (ainv_run bs nq ns max Hbs Hnq ops _ A0 Hok) as (Hw & Hc & Has).
  pose proof (sent_run max ops (axinit nq ns)) as Hsent. cbn [axinit ax_sent app] in Hsent.
  rewrite Ho, sent_of_abs in Hsent.
  exists x, outs. split; [exact E|]. cbn zeta.
  assert (Hp : abs_buf (nth 0 (s_q (x_st x)) []) = geta (a_q (ax_a (fst (axrun max (axinit nq ns) ops)))) 0).
  { rewrite <- Ra. now rewrite geta_q. }
  rewrite Hp, <- Hsent in *.
  split; [now rewrite Ho|]. split; [exact Ra|]. split; [exact Hc|]. split.
  { intros E0. rewrite E0, app_nil_r in Hc. exact Hc. }
  split; [now rewrite Rs|]. split; [exact Rr|]. split; [exact Hi|].
  exact (proj1 (inv_pool_facts _ _ _ _ Hi)).
Qed.
