(* C15 proofs, part 2: the state invariant, the simulation of every operation by the abstract
   list specification, and the history-level theorems. *)
From OlaBase Require Import Bytes.
From Coq Require Import Arith.
From C15 Require Import Model Spec ProofsBlock.
Local Open Scope nat_scope.

(* ------------------------------------------------------------------ lists of buffers *)
Definition held (l : list buffer) : nat := fold_right (fun bl a => length bl + a) 0 l.

Lemma held_app a b : held (a ++ b) = held a + held b.
Proof. unfold held. induction a as [|x a IH]; cbn [app fold_right]; [reflexivity|]. rewrite IH. lia. Qed.

Lemma upd_length {A} (l : list A) i v : length (upd l i v) = length l.
Proof. revert i; induction l as [|x l IH]; intros [|i]; cbn [upd length]; try reflexivity. now rewrite IH. Qed.

Lemma Forall_upd {A} (P : A -> Prop) l i v : Forall P l -> P v -> Forall P (upd l i v).
Proof.
  intros Hl Hv. revert i; induction Hl as [|x l Hx Hl IH]; intros [|i]; cbn [upd]; constructor; auto.
Qed.

Lemma map_upd {A B} (f : A -> B) l i v : map f (upd l i v) = upd (map f l) i (f v).
Proof. revert i; induction l as [|x l IH]; intros [|i]; cbn [upd map]; try reflexivity. now rewrite IH. Qed.

Lemma held_upd l i v : i < length l -> held (upd l i v) + length (nth i l []) = held l + length v.
Proof.
  unfold held. revert i; induction l as [|x l IH]; intros [|i] H; cbn [length] in H; try lia;
    cbn [upd fold_right nth].
  - lia.
  - specialize (IH i ltac:(lia)). lia.
Qed.

Lemma nth_upd_same {A} (l : list A) i v d : i < length l -> nth i (upd l i v) d = v.
Proof. revert i; induction l as [|x l IH]; intros [|i] H; cbn [length] in H; try lia; cbn [upd nth]; [reflexivity|]. apply IH. lia. Qed.

Lemma nth_upd_other {A} (l : list A) i j v d : i <> j -> nth j (upd l i v) d = nth j l d.
Proof.
  revert i j; induction l as [|x l IH]; intros [|i] [|j] H; cbn [upd nth]; try reflexivity; try congruence.
  apply IH. congruence.
Qed.

Lemma getb_ok l i : i < length l -> getb l i = Ok (nth i l []).
Proof.
  intros H. unfold getb. destruct (nth_error l i) eqn:E.
  - now rewrite (nth_error_nth _ _ _ E).
  - apply nth_error_None in E. lia.
Qed.

Lemma Forall_nth_d {A} (P : A -> Prop) l i d : Forall P l -> P d -> P (nth i l d).
Proof. intros Hl Hd. revert i; induction Hl; intros [|i]; cbn [nth]; auto. Qed.

Lemma geta_map l i : geta (map abs_buf l) i = abs_buf (nth i l []).
Proof. unfold geta. change (@nil N) with (abs_buf []). apply map_nth. Qed.

(* ------------------------------------------------------------------ invariant and abstraction *)
Record inv (bs nq ns : nat) (st : state) : Prop := mkInv {
  inv_pool : wfpool bs (s_pool st);
  inv_q : Forall (wfbuf bs) (s_q st);
  inv_s : Forall (wfbuf bs) (s_s st);
  inv_nq : length (s_q st) = nq;
  inv_ns : length (s_s st) = ns;
  inv_acct : p_alloc (s_pool st) = length (p_free (s_pool st)) + held (s_q st) + held (s_s st) }.

Definition abs (st : state) : astate := mkA (map abs_buf (s_q st)) (map abs_buf (s_s st)).

Lemma wfbuf_nil bs : wfbuf bs []. Proof. constructor. Qed.

Lemma inv_init bs nq ns : inv bs nq ns (init bs nq ns).
Proof.
  unfold init. constructor; cbn [s_pool s_q s_s p_new p_free p_alloc p_bs].
  - split; [reflexivity|constructor].
  - apply Forall_forall. intros x Hx. apply repeat_spec in Hx. subst. constructor.
  - apply Forall_forall. intros x Hx. apply repeat_spec in Hx. subst. constructor.
  - apply repeat_length.
  - apply repeat_length.
  - cbn [length]. assert (forall n, held (repeat [] n) = 0) as H.
    { induction n as [|n IH]; cbn; [reflexivity|exact IH]. }
    now rewrite !H.
Qed.

Lemma map_repeat' {A B} (f : A -> B) x n : map f (repeat x n) = repeat (f x) n.
Proof. induction n as [|n IH]; cbn [repeat map]; [reflexivity|]. now rewrite IH. Qed.

Lemma abs_init bs nq ns : abs (init bs nq ns) = ainit nq ns.
Proof. unfold abs, init, ainit. cbn [s_q s_s]. now rewrite !map_repeat'. Qed.

Section Sim.
Variables bs nq ns : nat.
Hypothesis Hbs : 1 <= bs.
Notation Inv := (inv bs nq ns).

Lemma inv_setq st i p' bl' :
  Inv st -> i < nq -> wfpool bs p' -> wfbuf bs bl' ->
  acct (s_pool st) (length (nth i (s_q st) [])) p' (length bl') -> Inv (setq st p' i bl').
Proof.
  intros [Hp Hq Hs Hnq Hns Hac] Hi Hp' Hbl' Hacct. unfold setq.
  constructor; cbn [s_pool s_q s_s]; try assumption.
  - apply Forall_upd; assumption.
  - now rewrite upd_length.
  - pose proof (held_upd (s_q st) i bl' ltac:(lia)). unfold acct in Hacct. lia.
Qed.

Lemma inv_sets st j p' bl' :
  Inv st -> j < ns -> wfpool bs p' -> wfbuf bs bl' ->
  acct (s_pool st) (length (nth j (s_s st) [])) p' (length bl') -> Inv (sets st p' j bl').
Proof.
  intros [Hp Hq Hs Hnq Hns Hac] Hj Hp' Hbl' Hacct. unfold sets.
  constructor; cbn [s_pool s_q s_s]; try assumption.
  - apply Forall_upd; assumption.
  - now rewrite upd_length.
  - pose proof (held_upd (s_s st) j bl' ltac:(lia)). unfold acct in Hacct. lia.
Qed.

Lemma abs_setq st p' i bl' : abs (setq st p' i bl') = aq (abs st) i (abs_buf bl').
Proof. unfold abs, setq, aq. cbn [s_q s_s a_q a_s]. now rewrite map_upd. Qed.
Lemma abs_sets st p' j bl' : abs (sets st p' j bl') = as_ (abs st) j (abs_buf bl').
Proof. unfold abs, sets, as_. cbn [s_q s_s a_q a_s]. now rewrite map_upd. Qed.

Lemma wf_nth_q st i : Inv st -> wfbuf bs (nth i (s_q st) []).
Proof. intros H. apply Forall_nth_d; [apply (inv_q _ _ _ _ H)|apply wfbuf_nil]. Qed.
Lemma wf_nth_s st j : Inv st -> wfbuf bs (nth j (s_s st) []).
Proof. intros H. apply Forall_nth_d; [apply (inv_s _ _ _ _ H)|apply wfbuf_nil]. Qed.

Lemma geta_q st i : geta (a_q (abs st)) i = abs_buf (nth i (s_q st) []).
Proof. apply geta_map. Qed.
Lemma geta_s st j : geta (a_s (abs st)) j = abs_buf (nth j (s_s st) []).
Proof. apply geta_map. Qed.

Ltac getq st i H := rewrite (getb_ok (s_q st) i) by (rewrite (inv_nq _ _ _ _ H); lia); cbn [bind].
Ltac gets st j H := rewrite (getb_ok (s_s st) j) by (rewrite (inv_ns _ _ _ _ H); lia); cbn [bind].

(* one operation: no hazard, the invariant is kept, and the abstract specification makes the
   same step with the same output *)
Lemma step_sim st o :
  Inv st -> op_ok nq ns o ->
  exists st' x, step st o = Ok (st', x) /\ Inv st' /\ astep (abs st) o = (abs st', out_abs x).
Proof.
  intros H Hok. pose proof (inv_pool _ _ _ _ H) as Hp.
  destruct o as [i d|i w v|i n|i n|i n|i n|i|i j|i|i|i|j d|j w v|j n|j n|j n|j|j i|j|j|j|];
    cbn [op_ok] in Hok; unfold step.
  - (* QWrite *)
    getq st i H.
    destruct (q_write_spec bs Hbs (s_pool st) _ d Hp (wf_nth_q st i H)) as (p' & bl' & E & Hp' & Hbl' & Habs & Hac).
    rewrite E. cbn [bind]. eexists _, _. split; [reflexivity|]. split.
    + apply inv_setq; assumption.
    + cbn [astep out_abs]. now rewrite abs_setq, geta_q, Habs.
  - (* QWriteBE *)
    getq st i H.
    destruct (q_write_spec bs Hbs (s_pool st) _ (be_bytes w v) Hp (wf_nth_q st i H)) as (p' & bl' & E & Hp' & Hbl' & Habs & Hac).
    rewrite E. cbn [bind]. eexists _, _. split; [reflexivity|]. split.
    + apply inv_setq; assumption.
    + cbn [astep out_abs]. now rewrite abs_setq, geta_q, Habs.
  - (* QRead *)
    getq st i H.
    destruct (buf_read_spec bs _ (s_pool st) n Hp (wf_nth_q st i H)) as (p' & bl' & E & Hp' & Hbl' & Habs & Hac).
    rewrite E. cbn [bind]. eexists _, _. split; [reflexivity|]. split.
    + apply inv_setq; assumption.
    + cbn [astep out_abs]. now rewrite abs_setq, geta_q, Habs.
  - (* QReadStr *)
    getq st i H. rewrite buf_read_str_eq.
    destruct (buf_read_spec bs _ (s_pool st) n Hp (wf_nth_q st i H)) as (p' & bl' & E & Hp' & Hbl' & Habs & Hac).
    rewrite E. cbn [bind]. eexists _, _. split; [reflexivity|]. split.
    + apply inv_setq; assumption.
    + cbn [astep out_abs]. now rewrite abs_setq, geta_q, Habs.
  - (* QPeek *)
    getq st i H. rewrite (q_peek_spec bs _ n (wf_nth_q st i H)). cbn [bind].
    eexists _, _. split; [reflexivity|]. split; [assumption|].
    cbn [astep out_abs]. now rewrite geta_q.
  - (* QPop *)
    getq st i H.
    destruct (buf_pop_spec bs _ (s_pool st) n Hp (wf_nth_q st i H)) as (p' & bl' & E & Hp' & Hbl' & Habs & Hac).
    rewrite E. eexists _, _. split; [reflexivity|]. split.
    + apply inv_setq; assumption.
    + cbn [astep out_abs]. now rewrite abs_setq, geta_q, Habs.
  - (* QIOVec *)
    getq st i H. rewrite (buf_iovec_spec bs _ (wf_nth_q st i H)). cbn [bind].
    eexists _, _. split; [reflexivity|]. split; [assumption|].
    cbn [astep out_abs]. now rewrite geta_q, concat_map_bc.
  - (* QAppendMove *)
    destruct Hok as (Hi & Hj & Hij).
    destruct (Nat.eqb_spec i j) as [?|_]; [contradiction|].
    getq st i H. getq st j H.
    eexists _, _. split; [reflexivity|]. split.
    + destruct H as [_ Hq Hs Hnq Hns Hac]. constructor; cbn [s_pool s_q s_s]; try assumption.
      * apply Forall_upd; [apply Forall_upd|apply wfbuf_nil]; [assumption|].
        apply Forall_app; split; (apply Forall_nth_d; [assumption|apply wfbuf_nil]).
      * now rewrite !upd_length.
      * pose proof (held_upd (s_q st) i (nth i (s_q st) [] ++ nth j (s_q st) []) ltac:(lia)) as H1.
        pose proof (held_upd (upd (s_q st) i (nth i (s_q st) [] ++ nth j (s_q st) [])) j []
                      ltac:(rewrite upd_length; lia)) as H2.
        rewrite nth_upd_other in H2 by assumption. rewrite app_length in H1. cbn [length] in H2. lia.
    + cbn [astep out_abs]. unfold abs. cbn [s_q s_s a_q a_s].
      rewrite !map_upd, abs_buf_app, !geta_map. reflexivity.
  - (* QClear *)
    getq st i H.
    destruct (buf_clear_spec bs _ (s_pool st) Hp (wf_nth_q st i H)) as [Hp' Hac].
    eexists _, _. split; [reflexivity|]. split.
    + apply inv_setq; try assumption. apply wfbuf_nil.
    + cbn [astep out_abs]. now rewrite abs_setq.
  - (* QSize *)
    getq st i H. eexists _, _. split; [reflexivity|]. split; [assumption|].
    cbn [astep out_abs]. now rewrite geta_q, (buf_size_spec bs _ (wf_nth_q st i H)).
  - (* QEmpty *)
    getq st i H. eexists _, _. split; [reflexivity|]. split; [assumption|].
    cbn [astep out_abs]. now rewrite geta_q, (q_empty_spec bs _ (wf_nth_q st i H)).
  - (* SWrite *)
    gets st j H.
    destruct (s_write_spec bs Hbs (s_pool st) _ d Hp (wf_nth_s st j H)) as (p' & bl' & E & Hp' & Hbl' & Habs & Hac).
    rewrite E. cbn [bind]. eexists _, _. split; [reflexivity|]. split.
    + apply inv_sets; assumption.
    + cbn [astep out_abs]. now rewrite abs_sets, geta_s, Habs.
  - (* SWriteBE *)
    gets st j H.
    destruct (s_write_spec bs Hbs (s_pool st) _ (be_bytes w v) Hp (wf_nth_s st j H)) as (p' & bl' & E & Hp' & Hbl' & Habs & Hac).
    rewrite E. cbn [bind]. eexists _, _. split; [reflexivity|]. split.
    + apply inv_sets; assumption.
    + cbn [astep out_abs]. now rewrite abs_sets, geta_s, Habs.
  - (* SRead *)
    gets st j H.
    destruct (buf_read_spec bs _ (s_pool st) n Hp (wf_nth_s st j H)) as (p' & bl' & E & Hp' & Hbl' & Habs & Hac).
    rewrite E. cbn [bind]. eexists _, _. split; [reflexivity|]. split.
    + apply inv_sets; assumption.
    + cbn [astep out_abs]. now rewrite abs_sets, geta_s, Habs.
  - (* SReadStr *)
    gets st j H. rewrite buf_read_str_eq.
    destruct (buf_read_spec bs _ (s_pool st) n Hp (wf_nth_s st j H)) as (p' & bl' & E & Hp' & Hbl' & Habs & Hac).
    rewrite E. cbn [bind]. eexists _, _. split; [reflexivity|]. split.
    + apply inv_sets; assumption.
    + cbn [astep out_abs]. now rewrite abs_sets, geta_s, Habs.
  - (* SPop *)
    gets st j H.
    destruct (buf_pop_spec bs _ (s_pool st) n Hp (wf_nth_s st j H)) as (p' & bl' & E & Hp' & Hbl' & Habs & Hac).
    rewrite E. eexists _, _. split; [reflexivity|]. split.
    + apply inv_sets; assumption.
    + cbn [astep out_abs]. now rewrite abs_sets, geta_s, Habs.
  - (* SIOVec *)
    gets st j H. rewrite (buf_iovec_spec bs _ (wf_nth_s st j H)). cbn [bind].
    eexists _, _. split; [reflexivity|]. split; [assumption|].
    cbn [astep out_abs]. now rewrite geta_s, concat_map_bc.
  - (* SMove *)
    destruct Hok as (Hj & Hi).
    gets st j H. getq st i H.
    eexists _, _. split; [reflexivity|]. split.
    + destruct H as [_ Hq Hs Hnq Hns Hac]. constructor; cbn [s_pool s_q s_s]; try assumption.
      * apply Forall_upd; [assumption|].
        apply Forall_app; split; (apply Forall_nth_d; [assumption|apply wfbuf_nil]).
      * apply Forall_upd; [assumption|apply wfbuf_nil].
      * now rewrite upd_length.
      * now rewrite upd_length.
      * pose proof (held_upd (s_q st) i (nth i (s_q st) [] ++ nth j (s_s st) []) ltac:(lia)) as H1.
        pose proof (held_upd (s_s st) j [] ltac:(lia)) as H2.
        rewrite app_length in H1. cbn [length] in H2. lia.
    + cbn [astep out_abs]. unfold abs. cbn [s_q s_s a_q a_s].
      rewrite !map_upd, abs_buf_app, !geta_map. reflexivity.
  - (* SDestroy *)
    gets st j H.
    destruct (buf_clear_spec bs _ (s_pool st) Hp (wf_nth_s st j H)) as [Hp' Hac].
    eexists _, _. split; [reflexivity|]. split.
    + apply inv_sets; try assumption. apply wfbuf_nil.
    + cbn [astep out_abs]. now rewrite abs_sets.
  - (* SSize *)
    gets st j H. eexists _, _. split; [reflexivity|]. split; [assumption|].
    cbn [astep out_abs]. now rewrite geta_s, (buf_size_spec bs _ (wf_nth_s st j H)).
  - (* SEmpty *)
    gets st j H. eexists _, _. split; [reflexivity|]. split; [assumption|].
    cbn [astep out_abs]. now rewrite geta_s, (s_empty_spec bs _ (wf_nth_s st j H)).
  - (* PoolPurge *)
    eexists _, _. split; [reflexivity|]. split; [|reflexivity].
    destruct H as [[Hpb Hpf] Hq Hs Hnq Hns Hac]. constructor; cbn [s_pool s_q s_s]; try assumption.
    + split; [exact Hpb|constructor].
    + unfold p_purge. cbn [p_alloc p_free length]. lia.
Qed.

(* every history *)
Lemma run_sim : forall ops st,
  Inv st -> Forall (op_ok nq ns) ops ->
  exists st' outs, run st ops = Ok (st', outs) /\ Inv st' /\
                   arun (abs st) ops = (abs st', map out_abs outs).
Proof.
  induction ops as [|o r IH]; intros st H Hok.
  { exists st, []. split; [reflexivity|]. split; [assumption|reflexivity]. }
  inversion Hok as [|? ? Ho Hr]; subst.
  destruct (step_sim st o H Ho) as (st1 & x & E1 & H1 & A1).
  destruct (IH st1 H1 Hr) as (st2 & xs & E2 & H2 & A2).
  exists st2, (x :: xs). cbn [run arun map]. rewrite E1. cbn [bind]. rewrite E2. cbn [bind].
  rewrite A1, A2. split; [reflexivity|]. split; [assumption|reflexivity].
Qed.

End Sim.

(* ------------------------------------------------------------------ history-level theorems *)
Lemma refines bs nq ns ops :
  1 <= bs -> Forall (op_ok nq ns) ops ->
  exists st outs, run (init bs nq ns) ops = Ok (st, outs) /\
                  arun (ainit nq ns) ops = (abs st, map out_abs outs).
Proof.
  intros Hbs Hok.
  destruct (run_sim bs nq ns Hbs ops (init bs nq ns) (inv_init bs nq ns) Hok) as (st & outs & E & _ & A).
  exists st, outs. rewrite <- abs_init with (bs := bs). split; assumption.
Qed.

Lemma reach_inv bs nq ns ops st outs :
  1 <= bs -> Forall (op_ok nq ns) ops -> run (init bs nq ns) ops = Ok (st, outs) ->
  inv bs nq ns st /\ arun (ainit nq ns) ops = (abs st, map out_abs outs).
Proof.
  intros Hbs Hok E.
  destruct (run_sim bs nq ns Hbs ops (init bs nq ns) (inv_init bs nq ns) Hok) as (st' & outs' & E' & Hi & A).
  rewrite E in E'. inversion E'; subst. rewrite <- abs_init with (bs := bs). split; assumption.
Qed.

(* ------------------------------------------------------------------ consequences of the invariant *)
Lemma in_use_held st : in_use st = held (s_q st) + held (s_s st).
Proof. unfold in_use. apply held_app. Qed.

Lemma inv_pool_facts bs nq ns st :
  inv bs nq ns st ->
  blocks_allocated st = free_blocks st + in_use st /\
  (forall bl b, In bl (s_q st ++ s_s st) -> In b bl ->
     b_first b < b_last b /\ b_last b <= bs /\ b_cap b = bs /\ length (b_data b) = bs) /\
  (forall b, In b (p_free (s_pool st)) -> b_first b = 0 /\ b_last b = 0 /\ b_cap b = bs).
Proof.
  intros [[Hpb Hpf] Hq Hs Hnq Hns Hac]. split; [|split].
  - unfold blocks_allocated, free_blocks. rewrite in_use_held. lia.
  - intros bl b Hbl Hb.
    assert (wfbuf bs bl) as Hw.
    { apply in_app_or in Hbl. destruct Hbl as [Hbl|Hbl];
        [exact (proj1 (Forall_forall _ _) Hq _ Hbl)|exact (proj1 (Forall_forall _ _) Hs _ Hbl)]. }
    pose proof (proj1 (Forall_forall _ _) Hw _ Hb) as ((? & ?) & ? & ?). tauto.
  - intros b Hb. pose proof (proj1 (Forall_forall _ _) Hpf _ Hb) as ((? & ?) & ? & ?). tauto.
Qed.

Lemma inv_bool_obs bs nq ns st : inv bs nq ns st -> acct_ok st = true /\ noempty_ok st = true.
Proof.
  intros H. destruct (inv_pool_facts _ _ _ _ H) as (Ha & Hh & _). split.
  - unfold acct_ok. apply Nat.eqb_eq. exact Ha.
  - unfold noempty_ok. apply forallb_forall. intros bl Hbl. apply forallb_forall. intros b Hb.
    destruct (Hh bl b Hbl Hb) as (Hlt & _). unfold b_empty.
    destruct (Nat.eqb_spec (b_last b) (b_first b)); [lia|reflexivity].
Qed.

Lemma inv_iovec bs nq ns st bl :
  inv bs nq ns st -> In bl (s_q st ++ s_s st) ->
  exists v, buf_iovec bl = Ok v /\ concat v = abs_buf bl /\ length v = length bl /\
            Forall (fun s => s <> []) v.
Proof.
  intros H Hbl.
  assert (wfbuf bs bl) as Hw.
  { apply in_app_or in Hbl. destruct Hbl as [Hbl|Hbl];
      [exact (proj1 (Forall_forall _ _) (inv_q _ _ _ _ H) _ Hbl)
      |exact (proj1 (Forall_forall _ _) (inv_s _ _ _ _ H) _ Hbl)]. }
  exists (map bc bl). split; [apply (buf_iovec_spec bs); exact Hw|]. split; [apply concat_map_bc|].
  split; [apply map_length|].
  apply Forall_forall. intros s Hs. apply in_map_iff in Hs. destruct Hs as (b & <- & Hb).
  pose proof (proj1 (Forall_forall _ _) Hw _ Hb) as Hwb.
  destruct (wfb_shape _ _ Hwb) as [Hsh Hrg]. pose proof (bc_length bs b Hsh Hrg) as Hl.
  destruct Hwb as (_ & ? & _). unfold b_size in Hl. destruct (bc b); [cbn [length] in Hl; lia|discriminate].
Qed.

Lemma inv_size bs nq ns st bl :
  inv bs nq ns st -> In bl (s_q st ++ s_s st) -> buf_size bl = length (abs_buf bl).
Proof.
  intros H Hbl. apply (buf_size_spec bs).
  apply in_app_or in Hbl. destruct Hbl as [Hbl|Hbl];
    [exact (proj1 (Forall_forall _ _) (inv_q _ _ _ _ H) _ Hbl)
    |exact (proj1 (Forall_forall _ _) (inv_s _ _ _ _ H) _ Hbl)].
Qed.

(* ------------------------------------------------------------------ theorems over histories *)
Lemma pool_thm bs nq ns ops st outs :
  1 <= bs -> Forall (op_ok nq ns) ops -> run (init bs nq ns) ops = Ok (st, outs) ->
  blocks_allocated st = free_blocks st + in_use st /\
  (forall bl b, In bl (s_q st ++ s_s st) -> In b bl ->
     b_first b < b_last b /\ b_last b <= bs /\ b_cap b = bs /\ length (b_data b) = bs) /\
  (forall b, In b (p_free (s_pool st)) -> b_first b = 0 /\ b_last b = 0 /\ b_cap b = bs).
Proof.
  intros Hbs Hok E. destruct (reach_inv _ _ _ _ _ _ Hbs Hok E) as [Hi _].
  exact (inv_pool_facts _ _ _ _ Hi).
Qed.

Lemma nth_In_app_l {A} (l l' : list A) i d : i < length l -> In (nth i l d) (l ++ l').
Proof. intros. apply in_or_app. left. now apply nth_In. Qed.
Lemma nth_In_app_r {A} (l l' : list A) i d : i < length l' -> In (nth i l' d) (l ++ l').
Proof. intros. apply in_or_app. right. now apply nth_In. Qed.

Lemma size_thm bs nq ns ops st outs :
  1 <= bs -> Forall (op_ok nq ns) ops -> run (init bs nq ns) ops = Ok (st, outs) ->
  (forall i, i < nq ->
     buf_size (nth i (s_q st) []) = length (geta (a_q (fst (arun (ainit nq ns) ops))) i)) /\
  (forall j, j < ns ->
     buf_size (nth j (s_s st) []) = length (geta (a_s (fst (arun (ainit nq ns) ops))) j)).
Proof.
  intros Hbs Hok E. destruct (reach_inv _ _ _ _ _ _ Hbs Hok E) as [Hi ->]. unfold abs. cbn [fst a_q a_s]. split.
  - intros i Hlt. rewrite geta_map. apply (inv_size _ _ _ _ _ Hi).
    apply nth_In_app_l. rewrite (inv_nq _ _ _ _ Hi). exact Hlt.
  - intros j Hlt. rewrite geta_map. apply (inv_size _ _ _ _ _ Hi).
    apply nth_In_app_r. rewrite (inv_ns _ _ _ _ Hi). exact Hlt.
Qed.

Lemma iovec_thm bs nq ns ops st outs :
  1 <= bs -> Forall (op_ok nq ns) ops -> run (init bs nq ns) ops = Ok (st, outs) ->
  (forall i, i < nq -> exists v,
     buf_iovec (nth i (s_q st) []) = Ok v /\ length v = length (nth i (s_q st) []) /\
     Forall (fun s => s <> []) v /\
     concat v = geta (a_q (fst (arun (ainit nq ns) ops))) i) /\
  (forall j, j < ns -> exists v,
     buf_iovec (nth j (s_s st) []) = Ok v /\ length v = length (nth j (s_s st) []) /\
     Forall (fun s => s <> []) v /\
     concat v = geta (a_s (fst (arun (ainit nq ns) ops))) j).
Proof.
  intros Hbs Hok E. destruct (reach_inv _ _ _ _ _ _ Hbs Hok E) as [Hi ->]. unfold abs. cbn [fst a_q a_s]. split.
  - intros i Hlt. rewrite geta_map.
    destruct (inv_iovec _ _ _ _ (nth i (s_q st) []) Hi) as (v & Ev & Hc & Hl & Hn).
    { apply nth_In_app_l. rewrite (inv_nq _ _ _ _ Hi). exact Hlt. }
    exists v. tauto.
  - intros j Hlt. rewrite geta_map.
    destruct (inv_iovec _ _ _ _ (nth j (s_s st) []) Hi) as (v & Ev & Hc & Hl & Hn).
    { apply nth_In_app_r. rewrite (inv_ns _ _ _ _ Hi). exact Hlt. }
    exists v. tauto.
Qed.

(* ------------------------------------------------------------------ ledger (specification level) *)
Definition awf (nq ns : nat) (a : astate) : Prop := length (a_q a) = nq /\ length (a_s a) = ns.

Lemma geta_upd_same l i v : i < length l -> geta (upd l i v) i = v.
Proof. apply nth_upd_same. Qed.
Lemma geta_upd_other l i k v : i <> k -> geta (upd l i v) k = geta l k.
Proof. apply nth_upd_other. Qed.

Lemma awf_astep nq ns a o : awf nq ns a -> awf nq ns (fst (astep a o)).
Proof.
  intros [Hq Hs]. destruct o; cbn [astep fst]; unfold aq, as_; split; cbn [a_q a_s]; rewrite ?upd_length; assumption.
Qed.

Ltac led_split :=
  repeat match goal with
         | |- context [Nat.eqb ?x ?y] => destruct (Nat.eqb_spec x y); subst
         end.

Lemma ledger_step nq ns a o k :
  awf nq ns a -> op_ok nq ns o -> kid_ok nq ns k ->
  length (content (fst (astep a o)) k) + took a o k = length (content a k) + put a o k.
Proof.
  intros [Hq Hs] Hok Hk.
  destruct o; destruct k as [k|k]; cbn [op_ok kid_ok] in *;
    cbn [astep fst]; unfold aq, as_; cbn [content put took isq iss a_q a_s]; led_split;
    rewrite ?geta_upd_same by (rewrite ?upd_length; lia);
    rewrite ?geta_upd_other by congruence;
    rewrite ?geta_upd_same by (rewrite ?upd_length; lia);
    rewrite ?app_length, ?skipn_length; cbn [length]; try lia.
Qed.

Lemma ledger_gen nq ns : forall ops a k,
  awf nq ns a -> Forall (op_ok nq ns) ops -> kid_ok nq ns k ->
  let '(w, c) := ledger a ops k in
  length (content (fst (arun a ops)) k) + c = length (content a k) + w.
Proof.
  induction ops as [|o r IH]; intros a k Ha Hok Hk.
  { cbn [ledger arun fst]. lia. }
  inversion Hok as [|? ? Ho Hr]; subst.
  cbn [ledger arun].
  pose proof (ledger_step nq ns a o k Ha Ho Hk) as Hs.
  specialize (IH (fst (astep a o)) k (awf_astep nq ns a o Ha) Hr Hk).
  destruct (astep a o) as [a1 x] eqn:E1. cbn [fst] in *.
  destruct (ledger a1 r k) as [w c]. destruct (arun a1 r) as [a2 xs]. cbn [fst] in *. lia.
Qed.

Lemma content_ainit nq ns k : content (ainit nq ns) k = [].
Proof.
  destruct k as [i|j]; unfold content, ainit, geta; cbn [a_q a_s].
  - destruct (le_lt_dec nq i); [rewrite nth_overflow by (rewrite repeat_length; lia); reflexivity|].
    apply (repeat_spec nq []). apply nth_In. rewrite repeat_length. lia.
  - destruct (le_lt_dec ns j); [rewrite nth_overflow by (rewrite repeat_length; lia); reflexivity|].
    apply (repeat_spec ns []). apply nth_In. rewrite repeat_length. lia.
Qed.

Lemma ledger_thm nq ns ops k :
  Forall (op_ok nq ns) ops -> kid_ok nq ns k ->
  let '(w, c) := ledger (ainit nq ns) ops k in
  length (content (fst (arun (ainit nq ns) ops)) k) + c = w.
Proof.
  intros Hok Hk.
  pose proof (ledger_gen nq ns ops (ainit nq ns) k) as H.
  destruct (ledger (ainit nq ns) ops k) as [w c].
  rewrite content_ainit in H. cbn [length] in H. apply H; try assumption.
  unfold awf, ainit. cbn [a_q a_s]. now rewrite !repeat_length.
Qed.
