From OlaBase Require Import Bytes.
From Coq Require Import Arith.
From C15 Require Import Model Spec ProofsBlock Proofs Dump Multi MultiSpec ProofsMulti ProofsPurge.
Local Open Scope nat_scope.

Lemma q_dump_spec bs bl : wfbuf bs bl -> q_dump bl = Ok (abs_buf bl).
Proof.
  intros H. unfold q_dump. rewrite (q_peek_spec bs bl _ H), (buf_size_spec bs bl H).
  now rewrite firstn_all.
Qed.

Lemma s_dump_loop_spec bs : forall bl n,
  wfbuf bs bl -> buf_size bl <= n -> s_dump_loop bl n = Ok (abs_buf bl).
Proof.
  induction bl as [|b r IH]; intros n Hw Hn; [reflexivity|].
  inversion Hw as [|? ? Hb Hr]; subst. cbn [s_dump_loop buf_size] in *.
  destruct (wfb_shape _ _ Hb) as [Hs Hrg].
  rewrite (b_copy_spec bs b n Hs Hrg). cbn [bind].
  rewrite Nat.min_r by lia.
  assert (Hl : length (seg (b_first b) (b_size b) (b_data b)) = b_size b).
  { destruct Hs as [_ Hd]. apply seg_length. unfold b_size. lia. }
  rewrite Hl, (IH (n - b_size b) Hr) by lia. reflexivity.
Qed.

Lemma s_dump_spec bs bl : wfbuf bs bl -> s_dump bl = Ok (abs_buf bl).
Proof. intros H. apply (s_dump_loop_spec bs); [exact H|lia]. Qed.

Lemma dump_pure bs nq ns ops st outs :
  1 <= bs -> Forall (op_ok nq ns) ops -> run (init bs nq ns) ops = Ok (st, outs) ->
  (forall i, i < nq -> dump_q st i = Ok (st, geta (a_q (fst (arun (ainit nq ns) ops))) i)) /\
  (forall j, j < ns -> dump_s st j = Ok (st, geta (a_s (fst (arun (ainit nq ns) ops))) j)).
Proof.
  intros Hbs Hok E. destruct (reach_inv _ _ _ _ _ _ Hbs Hok E) as [Hi ->]. unfold abs. cbn [fst a_q a_s].
  split.
  - intros i Hlt. unfold dump_q. rewrite getb_ok by (rewrite (inv_nq _ _ _ _ Hi); exact Hlt). cbn [bind].
    rewrite (q_dump_spec bs) by (apply Forall_nth_d; [apply (inv_q _ _ _ _ Hi)|constructor]).
    cbn [bind]. now rewrite geta_map.
  - intros j Hlt. unfold dump_s. rewrite getb_ok by (rewrite (inv_ns _ _ _ _ Hi); exact Hlt). cbn [bind].
    rewrite (s_dump_spec bs) by (apply Forall_nth_d; [apply (inv_s _ _ _ _ Hi)|constructor]).
    cbn [bind]. now rewrite geta_map.
Qed.

(* ------------------------------------------------------------------ zero-length writes *)
Lemma setq_same st i : setq st (s_pool st) i (nth i (s_q st) []) = st.
Proof. destruct st as [p q s]. unfold setq. cbn [s_pool s_q s_s]. now rewrite upd_nth_same. Qed.
Lemma sets_same st j : sets st (s_pool st) j (nth j (s_s st) []) = st.
Proof. destruct st as [p q s]. unfold sets. cbn [s_pool s_q s_s]. now rewrite upd_nth_same. Qed.

Lemma zero_write_noop st :
  (forall i, i < length (s_q st) -> step st (QWrite i []) = Ok (st, ONone) /\
                                    forall v, step st (QWriteBE i 0 v) = Ok (st, ONone)) /\
  (forall j, j < length (s_s st) -> step st (SWrite j []) = Ok (st, ONone) /\
                                    forall v, step st (SWriteBE j 0 v) = Ok (st, ONone)).
Proof.
  split; intros k Hk; (split; [|intros v]); unfold step; rewrite getb_ok by exact Hk;
    cbn [bind be_bytes q_write s_write]; now rewrite ?setq_same, ?sets_same.
Qed.

Lemma zero_write_noop2 st :
  (forall i k bl, nth_error (m_q st) i = Some (k, bl) -> k < length (m_pools st) ->
     step2 st (QWrite i []) = Ok (st, ONone)) /\
  (forall j k bl, nth_error (m_s st) j = Some (k, bl) -> k < length (m_pools st) ->
     step2 st (SWrite j []) = Ok (st, ONone)).
Proof.
  destruct st as [ps q s]. cbn [m_pools m_q m_s].
  split; intros i k bl E Hk; unfold step2, on_q, on_s, get2; cbn [m_pools m_q m_s]; rewrite E; cbn [bind];
    (destruct (nth_error ps k) as [p|] eqn:Ep; [|apply nth_error_None in Ep; lia]);
    cbn [bind q_write s_write m_pools m_q m_s];
    rewrite (upd_same_nth_error ps k p Ep), ?(upd_same_nth_error q i (k, bl) E), ?(upd_same_nth_error s i (k, bl) E);
    reflexivity.
Qed.
