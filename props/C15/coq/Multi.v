(* C15 round 3: several pools (different block sizes), every buffer bound to one of them, blocks
   moving between buffers of different pools (known finding C15-crosspool).  Executable model
   only, faithful to the unchanged code: it re-uses the method models of Model.v, which take the
   pool as an argument and work on blocks of any capacity (a block carries its own b_cap, as a
   MemoryBlock carries m_data_end), so a block released to a foreign pool and handed out again
   is filled up to ITS OWN size.  Theorems: ProofsHetero.v / ProofsMulti.v (c15_multi_* in Properties.v). *)
From OlaBase Require Import Bytes.
From Coq Require Import Arith.
From C15 Require Import Model.
Local Open Scope nat_scope.

(* a buffer and the index of the pool it was constructed with *)
Record state2 := mkS2 { m_pools : list pool; m_q : list (nat * buffer); m_s : list (nat * buffer) }.

Definition init2 (bss : list nat) (qp sp : list nat) : state2 :=
  mkS2 (map p_new bss) (map (fun k => (k, [])) qp) (map (fun k => (k, [])) sp).

Definition get2 {A} (l : list A) (i : nat) : res A :=
  match nth_error l i with Some x => Ok x | None => Undef end.

(* run a method of queue i against the queue's own pool *)
Definition on_q (st : state2) (i : nat) (f : pool -> buffer -> res (pool * buffer * out))
  : res (state2 * out) :=
  '(k, bl) <- get2 (m_q st) i ;; p <- get2 (m_pools st) k ;;
  '(p', bl', y) <- f p bl ;;
  Ok (mkS2 (upd (m_pools st) k p') (upd (m_q st) i (k, bl')) (m_s st), y).
Definition on_s (st : state2) (j : nat) (f : pool -> buffer -> res (pool * buffer * out))
  : res (state2 * out) :=
  '(k, bl) <- get2 (m_s st) j ;; p <- get2 (m_pools st) k ;;
  '(p', bl', y) <- f p bl ;;
  Ok (mkS2 (upd (m_pools st) k p') (m_q st) (upd (m_s st) j (k, bl')), y).

Definition m_read (n : nat) p bl := '(p', bl', o) <- buf_read p bl n ;; Ok (p', bl', OBytes o).
Definition m_read_str (n : nat) p bl := '(p', bl', o) <- buf_read_str p bl n ;; Ok (p', bl', OBytes o).
Definition m_pop (n : nat) (p : pool) (bl : buffer) : res (pool * buffer * out) :=
  let '(p', bl') := buf_pop p bl n in Ok (p', bl', ONone).
Definition m_iovec (p : pool) (bl : buffer) : res (pool * buffer * out) :=
  v <- buf_iovec bl ;; Ok (p, bl, OVec v).

Definition step2 (st : state2) (o : op) : res (state2 * out) :=
  match o with
  | QWrite i d => on_q st i (fun p bl => '(p', bl') <- q_write p bl d ;; Ok (p', bl', ONone))
  | QWriteBE i w v => on_q st i (fun p bl => '(p', bl') <- q_write p bl (be_bytes w v) ;; Ok (p', bl', ONone))
  | QRead i n => on_q st i (m_read n)
  | QReadStr i n => on_q st i (m_read_str n)
  | QPeek i n => on_q st i (fun p bl => o <- q_peek bl n ;; Ok (p, bl, OBytes o))
  | QPop i n => on_q st i (m_pop n)
  | QIOVec i => on_q st i m_iovec
  | QAppendMove i j =>
    if i =? j then Undef
    else '(ka, a) <- get2 (m_q st) i ;; '(kb, b) <- get2 (m_q st) j ;;
         Ok (mkS2 (m_pools st) (upd (upd (m_q st) i (ka, a ++ b)) j (kb, [])) (m_s st), ONone)
  | QClear i => on_q st i (fun p bl => Ok (buf_clear p bl, [], ONone))
  | QSize i => on_q st i (fun p bl => Ok (p, bl, ONum (buf_size bl)))
  | QEmpty i => on_q st i (fun p bl => Ok (p, bl, OBool (match bl with [] => true | _ => false end)))
  | SWrite j d => on_s st j (fun p bl => '(p', bl') <- s_write p bl d ;; Ok (p', bl', ONone))
  | SWriteBE j w v => on_s st j (fun p bl => '(p', bl') <- s_write p bl (be_bytes w v) ;; Ok (p', bl', ONone))
  | SRead j n => on_s st j (m_read n)
  | SReadStr j n => on_s st j (m_read_str n)
  | SPop j n => on_s st j (m_pop n)
  | SIOVec j => on_s st j m_iovec
  | SMove j i =>
    '(ks, s) <- get2 (m_s st) j ;; '(kq, q) <- get2 (m_q st) i ;;
    Ok (mkS2 (m_pools st) (upd (m_q st) i (kq, q ++ s)) (upd (m_s st) j (ks, [])), ONone)
  | SDestroy j => on_s st j (fun p bl => Ok (buf_clear p bl, [], ONone))
  | SSize j => on_s st j (fun p bl => Ok (p, bl, ONum (buf_size bl)))
  | SEmpty j =>
    on_s st j (fun p bl => Ok (p, bl, OBool (match bl with [] => true | _ => buf_size bl =? 0 end)))
  | PoolPurge =>
    (* Purge() of every pool.  m_blocks_allocated-- once per free block: exact as long as no pool
       has more free blocks than it allocated; otherwise the unsigned counter wraps (Cross.v,
       c15_crosspool_refuted) and this model stops *)
    if forallb (fun p => length (p_free p) <=? p_alloc p) (m_pools st)
    then Ok (mkS2 (map p_purge (m_pools st)) (m_q st) (m_s st), ONone)
    else Undef
  end.

(* per pool: BlocksAllocated(), FreeBlocks(), blocks held by the buffers constructed with it *)
Definition held2 (st : state2) (k : nat) : nat :=
  fold_right (fun kb a => if fst kb =? k then length (snd kb) + a else a) 0 (m_q st ++ m_s st).
Definition pool_obs (st : state2) : list (nat * nat * nat) :=
  map (fun kp => (p_alloc (snd kp), length (p_free (snd kp)), held2 st (fst kp)))
      (combine (seq 0 (length (m_pools st))) (m_pools st)).
Definition acct2_ok (st : state2) : bool :=
  forallb (fun t => match t with (a, f, h) => a =? f + h end) (pool_obs st).
Definition noempty2_ok (st : state2) : bool :=
  forallb (fun kb => forallb (fun b => negb (b_empty b)) (snd kb)) (m_q st ++ m_s st).

(* `delete stack; stack = new IOStack()` for a DEFAULT-constructed stack (threaded cases): ~IOStack
   releases the blocks to the stack's private pool and deletes that pool (which deletes its free
   blocks); the new stack owns a new, empty pool.  Executable model only: blocks that had migrated
   out of the private pool live on in other buffers, uncounted by any pool, so none of the
   accounting invariants is claimed across this operation. *)
Definition destroy_private (st : state2) (j : nat) : res state2 :=
  '(k, _) <- get2 (m_s st) j ;; p <- get2 (m_pools st) k ;;
  Ok (mkS2 (upd (m_pools st) k (p_new (p_bs p))) (m_q st) (upd (m_s st) j (k, []))).
