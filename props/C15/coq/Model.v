(* C15 concrete model: MemoryBlock / MemoryBlockPool / IOQueue / IOStack, written method for
   method from include/ola/io/MemoryBlock.h, include/ola/io/MemoryBlockPool.h,
   common/io/IOQueue.cpp, common/io/IOStack.cpp (with props/C15/fixes/01..03 applied; the three
   places are marked "fix NN").  No proofs here.

   Conventions.  Bytes are N, sizes / offsets / counts are nat (every `unsigned int` of the code
   that holds a length; the 2^32 wrap of those counters is NOT modelled: total buffered bytes and
   allocated blocks are assumed < 2^32).  Pointers into a block's array (m_first, m_last) are
   offsets from m_data; m_data_end is offset b_cap.  A std::deque<MemoryBlock*> is a `list block`
   with front = head: every MemoryBlock* is owned by exactly one deque or by the pool's free list,
   and every method below moves the pointer when the C++ moves it, so blocks are held by value.
   Hazards are explicit results: Oob (a memcpy range outside the block's array), OutOfFuel (a
   `while (true)` loop that did not finish within the fuel given), Undef (back()/front() of an
   empty deque, an operation on a buffer that does not exist, AppendMove of a queue onto
   itself - which iterates a deque while pushing to it). *)
From OlaBase Require Import Bytes.
From Coq Require Import Arith.
Local Open Scope nat_scope.

Inductive res (A : Type) : Type :=
| Ok (a : A)
| Oob
| OutOfFuel
| Undef.
Arguments Ok {A} a.
Arguments Oob {A}.
Arguments OutOfFuel {A}.
Arguments Undef {A}.

Definition bind {A B} (r : res A) (f : A -> res B) : res B :=
  match r with
  | Ok a => f a
  | Oob => Oob
  | OutOfFuel => OutOfFuel
  | Undef => Undef
  end.
Notation "x <- e ;; f" := (bind e (fun x => f))
  (at level 61, e at next level, right associativity).
Notation "' p <- e ;; f" := (bind e (fun x => match x with p => f end))
  (at level 61, p pattern, e at next level, right associativity).

(* ------------------------------------------------------------------ raw memory *)
(* memcpy(mem + off, src, |src|) *)
Definition mem_write (mem : list N) (off : nat) (src : list N) : res (list N) :=
  if off + length src <=? length mem
  then Ok (firstn off mem ++ src ++ skipn (off + length src) mem)
  else Oob.
(* memcpy(dst, mem + off, n) *)
Definition mem_read (mem : list N) (off n : nat) : res (list N) :=
  if off + n <=? length mem then Ok (firstn n (skipn off mem)) else Oob.

(* ------------------------------------------------------------------ MemoryBlock *)
Record block := mkB { b_cap : nat; b_first : nat; b_last : nat; b_data : list N }.

(* MemoryBlock(data, size): m_first = m_last = m_data.  `new uint8_t[size]` is uninitialised;
   modelled as zeros (the theorems show that nothing outside [first,last) is ever observed). *)
Definition b_new (size : nat) : block := mkB size 0 0 (repeat 0%N size).
Definition b_seek_back (b : block) : block := mkB (b_cap b) (b_cap b) (b_cap b) (b_data b).
Definition b_remaining (b : block) : nat := b_cap b - b_last b.      (* m_data_end - m_last *)
Definition b_size (b : block) : nat := b_last b - b_first b.         (* m_last - m_first *)
Definition b_empty (b : block) : bool := b_last b =? b_first b.
(* fix 02: void Reset() { m_first = m_data; m_last = m_data; } *)
Definition b_reset (b : block) : block := mkB (b_cap b) 0 0 (b_data b).

Definition b_append (b : block) (d : list N) : res (block * nat) :=
  let n := Nat.min (length d) (b_cap b - b_last b) in
  mem <- mem_write (b_data b) (b_last b) (firstn n d) ;;
  Ok (mkB (b_cap b) (b_first b) (b_last b + n) mem, n).

(* copies the LAST n bytes of d to [m_first - n, m_first) *)
Definition b_prepend (b : block) (d : list N) : res (block * nat) :=
  let n := Nat.min (length d) (b_first b) in                         (* m_first - m_data *)
  mem <- mem_write (b_data b) (b_first b - n) (skipn (length d - n) d) ;;
  Ok (mkB (b_cap b) (b_first b - n) (b_last b) mem, n).

Definition b_copy (b : block) (n : nat) : res (list N) :=
  mem_read (b_data b) (b_first b) (Nat.min n (b_last b - b_first b)).

Definition b_pop_front (b : block) (n : nat) : block * nat :=
  let k := Nat.min n (b_last b - b_first b) in
  let f := b_first b + k in
  if f =? b_last b then (mkB (b_cap b) 0 0 (b_data b), k)            (* reset *)
  else (mkB (b_cap b) f (b_last b) (b_data b), k).

(* what a consumer of (Data(), Size()) reads *)
Definition b_view (b : block) : res (list N) := mem_read (b_data b) (b_first b) (b_size b).

(* ------------------------------------------------------------------ MemoryBlockPool *)
Record pool := mkP { p_bs : nat; p_free : list block; p_alloc : nat }.

Definition p_new (bs : nat) : pool := mkP bs [] 0.

Definition p_allocate (p : pool) : pool * block :=
  match p_free p with
  | [] => (mkP (p_bs p) [] (S (p_alloc p)), b_new (p_bs p))
  | b :: r => (mkP (p_bs p) r (p_alloc p), b)                         (* front(); pop() *)
  end.

(* fix 02: Release resets the block before it joins the free list *)
Definition p_release (p : pool) (b : block) : pool :=
  mkP (p_bs p) (p_free p ++ [b_reset b]) (p_alloc p).

(* Purge(): delete every free block, m_blocks_allocated-- for each *)
Definition p_purge (p : pool) : pool := mkP (p_bs p) [] (p_alloc p - length (p_free p)).

(* ------------------------------------------------------------------ helpers *)
Fixpoint unsnoc {A} (l : list A) : option (list A * A) :=
  match l with
  | [] => None
  | x :: r => match unsnoc r with
              | None => Some ([], x)
              | Some (fr, y) => Some (x :: fr, y)
              end
  end.

Definition buffer := list block.          (* m_blocks, front first *)

(* Size(): sum of block sizes *)
Fixpoint buf_size (bl : buffer) : nat :=
  match bl with [] => 0 | b :: r => b_size b + buf_size r end.

(* ------------------------------------------------------------------ IOQueue *)
(* private AppendBlock() *)
Definition q_append_block (p : pool) (bl : buffer) : pool * buffer :=
  let '(p', b) := p_allocate p in (p', bl ++ [b]).

(* the `while (true)` of IOQueue::Write; d = data + bytes_written .. data + length *)
Fixpoint q_write_loop (fuel : nat) (p : pool) (bl : buffer) (d : list N) : res (pool * buffer) :=
  match fuel with
  | O => OutOfFuel
  | S f =>
    match unsnoc bl with
    | None => Undef
    | Some (fr, b) =>
      '(b', n) <- b_append b d ;;
      match skipn n d with
      | [] => Ok (p, fr ++ [b'])                                      (* bytes_written == length *)
      | d' => let '(p', bl') := q_append_block p (fr ++ [b']) in q_write_loop f p' bl' d'
      end
    end
  end.

Definition q_write (p : pool) (bl : buffer) (d : list N) : res (pool * buffer) :=
  match d with
  | [] => Ok (p, bl)                                                  (* fix 03: length == 0 *)
  | _ =>
    let '(p1, bl1) := match bl with [] => q_append_block p bl | _ => (p, bl) end in
    q_write_loop (S (length d)) p1 bl1 d
  end.

(* IOQueue::Read(uint8_t*, n) and IOStack::Read(uint8_t*, n): identical code *)
Fixpoint buf_read (p : pool) (bl : buffer) (n : nat) : res (pool * buffer * list N) :=
  match bl with
  | [] => Ok (p, [], [])
  | b :: r =>
    if n =? 0 then Ok (p, bl, [])                                     (* bytes_read == n *)
    else
      o <- b_copy b n ;;
      let '(b', _) := b_pop_front b (length o) in
      if b_empty b'
      then '(p', r', o') <- buf_read (p_release p b') r (n - length o) ;; Ok (p', r', o ++ o')
      else '(p', r', o') <- buf_read p r (n - length o) ;; Ok (p', b' :: r', o ++ o')
  end.

(* Read(std::string*, n) of both classes: identical code.  fix 01: PopFront(bytes_to_copy) *)
Fixpoint buf_read_str (p : pool) (bl : buffer) (n : nat) : res (pool * buffer * list N) :=
  match bl with
  | [] => Ok (p, [], [])
  | b :: r =>
    if n =? 0 then Ok (p, bl, [])                                     (* bytes_remaining == 0 *)
    else
      let k := Nat.min (b_size b) n in
      o <- mem_read (b_data b) (b_first b) k ;;                       (* append(Data(), k) *)
      let '(b', _) := b_pop_front b k in                              (* fix 01 *)
      if b_empty b'
      then '(p', r', o') <- buf_read_str (p_release p b') r (n - k) ;; Ok (p', r', o ++ o')
      else '(p', r', o') <- buf_read_str p r (n - k) ;; Ok (p', b' :: r', o ++ o')
  end.

(* IOQueue::Peek *)
Fixpoint q_peek (bl : buffer) (n : nat) : res (list N) :=
  match bl with
  | [] => Ok []
  | b :: r =>
    if n =? 0 then Ok []
    else o <- b_copy b n ;; o' <- q_peek r (n - length o) ;; Ok (o ++ o')
  end.

(* IOQueue::Pop and IOStack::Pop: identical code *)
Fixpoint buf_pop (p : pool) (bl : buffer) (n : nat) : pool * buffer :=
  match bl with
  | [] => (p, [])
  | b :: r =>
    if n =? 0 then (p, bl)
    else
      let '(b', k) := b_pop_front b n in
      if b_empty b'
      then buf_pop (p_release p b') r (n - k)
      else let '(p', r') := buf_pop p r (n - k) in (p', b' :: r')
  end.

(* AsIOVec of both classes: one (Data(), Size()) per block; read out as a consumer would *)
Fixpoint buf_iovec (bl : buffer) : res (list (list N)) :=
  match bl with
  | [] => Ok []
  | b :: r => v <- b_view b ;; vs <- buf_iovec r ;; Ok (v :: vs)
  end.

(* IOQueue::Clear, ~IOQueue, ~IOStack: release every block *)
Definition buf_clear (p : pool) (bl : buffer) : pool := fold_left p_release bl p.

(* ------------------------------------------------------------------ IOStack *)
Definition s_prepend_block (p : pool) (bl : buffer) : pool * buffer :=
  let '(p', b) := p_allocate p in (p', b_seek_back b :: bl).

(* d = data .. data + (length - bytes_written): the part still to be written *)
Fixpoint s_write_loop (fuel : nat) (p : pool) (bl : buffer) (d : list N) : res (pool * buffer) :=
  match fuel with
  | O => OutOfFuel
  | S f =>
    match bl with
    | [] => Undef
    | b :: r =>
      '(b', n) <- b_prepend b d ;;
      match firstn (length d - n) d with
      | [] => Ok (p, b' :: r)
      | d' => let '(p', bl') := s_prepend_block p (b' :: r) in s_write_loop f p' bl' d'
      end
    end
  end.

Definition s_write (p : pool) (bl : buffer) (d : list N) : res (pool * buffer) :=
  match d with
  | [] => Ok (p, bl)                                                  (* fix 03 *)
  | _ =>
    let '(p1, bl1) := match bl with [] => s_prepend_block p bl | _ => (p, bl) end in
    s_write_loop (S (length d)) p1 bl1 d
  end.

(* ------------------------------------------------------------------ several buffers, one pool *)
Record state := mkS { s_pool : pool; s_q : list buffer; s_s : list buffer }.

Definition init (bs nq ns : nat) : state := mkS (p_new bs) (repeat [] nq) (repeat [] ns).

Fixpoint upd {A} (l : list A) (i : nat) (v : A) : list A :=
  match l, i with
  | [], _ => []
  | _ :: r, O => v :: r
  | x :: r, S k => x :: upd r k v
  end.

Definition getb (l : list buffer) (i : nat) : res buffer :=
  match nth_error l i with Some b => Ok b | None => Undef end.

(* BigEndianOutputStream << (uintW_t) v : HostToNetwork then Write of the W bytes *)
Fixpoint be_bytes (w : nat) (v : N) : list N :=
  match w with
  | O => []
  | S k => ((v / 256 ^ N.of_nat k) mod 256)%N :: be_bytes k v
  end.

Inductive op :=
| QWrite (i : nat) (d : list N)
| QWriteBE (i w : nat) (v : N)
| QRead (i n : nat)
| QReadStr (i n : nat)
| QPeek (i n : nat)
| QPop (i n : nat)
| QIOVec (i : nat)
| QAppendMove (i j : nat)          (* queue i .AppendMove(&queue j) *)
| QClear (i : nat)
| QSize (i : nat)
| QEmpty (i : nat)
| SWrite (j : nat) (d : list N)
| SWriteBE (j w : nat) (v : N)
| SRead (j n : nat)
| SReadStr (j n : nat)
| SPop (j n : nat)
| SIOVec (j : nat)
| SMove (j i : nat)                (* stack j .MoveToIOQueue(&queue i) *)
| SDestroy (j : nat)               (* ~IOStack, then a new IOStack on the same pool *)
| SSize (j : nat)
| SEmpty (j : nat)
| PoolPurge.                       (* MemoryBlockPool::Purge(), IOQueue::Purge(), IOStack::Purge() *)

Inductive out :=
| ONone
| OBytes (l : list N)
| ONum (n : nat)
| OBool (b : bool)
| OVec (l : list (list N)).

Definition setq (st : state) (p : pool) (i : nat) (bl : buffer) : state :=
  mkS p (upd (s_q st) i bl) (s_s st).
Definition sets (st : state) (p : pool) (j : nat) (bl : buffer) : state :=
  mkS p (s_q st) (upd (s_s st) j bl).

Definition step (st : state) (o : op) : res (state * out) :=
  let p := s_pool st in
  match o with
  | QWrite i d =>
    bl <- getb (s_q st) i ;; '(p', bl') <- q_write p bl d ;; Ok (setq st p' i bl', ONone)
  | QWriteBE i w v =>
    bl <- getb (s_q st) i ;; '(p', bl') <- q_write p bl (be_bytes w v) ;; Ok (setq st p' i bl', ONone)
  | QRead i n =>
    bl <- getb (s_q st) i ;; '(p', bl', o) <- buf_read p bl n ;; Ok (setq st p' i bl', OBytes o)
  | QReadStr i n =>
    bl <- getb (s_q st) i ;; '(p', bl', o) <- buf_read_str p bl n ;; Ok (setq st p' i bl', OBytes o)
  | QPeek i n =>
    bl <- getb (s_q st) i ;; o <- q_peek bl n ;; Ok (st, OBytes o)
  | QPop i n =>
    bl <- getb (s_q st) i ;; let '(p', bl') := buf_pop p bl n in Ok (setq st p' i bl', ONone)
  | QIOVec i =>
    bl <- getb (s_q st) i ;; v <- buf_iovec bl ;; Ok (st, OVec v)
  | QAppendMove i j =>
    if i =? j then Undef
    else
      a <- getb (s_q st) i ;; b <- getb (s_q st) j ;;
      Ok (mkS p (upd (upd (s_q st) i (a ++ b)) j []) (s_s st), ONone)
  | QClear i =>
    bl <- getb (s_q st) i ;; Ok (setq st (buf_clear p bl) i [], ONone)
  | QSize i =>
    bl <- getb (s_q st) i ;; Ok (st, ONum (buf_size bl))
  | QEmpty i =>                                                        (* m_blocks.empty() *)
    bl <- getb (s_q st) i ;; Ok (st, OBool (match bl with [] => true | _ => false end))
  | SWrite j d =>
    bl <- getb (s_s st) j ;; '(p', bl') <- s_write p bl d ;; Ok (sets st p' j bl', ONone)
  | SWriteBE j w v =>
    bl <- getb (s_s st) j ;; '(p', bl') <- s_write p bl (be_bytes w v) ;; Ok (sets st p' j bl', ONone)
  | SRead j n =>
    bl <- getb (s_s st) j ;; '(p', bl', o) <- buf_read p bl n ;; Ok (sets st p' j bl', OBytes o)
  | SReadStr j n =>
    bl <- getb (s_s st) j ;; '(p', bl', o) <- buf_read_str p bl n ;; Ok (sets st p' j bl', OBytes o)
  | SPop j n =>
    bl <- getb (s_s st) j ;; let '(p', bl') := buf_pop p bl n in Ok (sets st p' j bl', ONone)
  | SIOVec j =>
    bl <- getb (s_s st) j ;; v <- buf_iovec bl ;; Ok (st, OVec v)
  | SMove j i =>
    s <- getb (s_s st) j ;; q <- getb (s_q st) i ;;
    Ok (mkS p (upd (s_q st) i (q ++ s)) (upd (s_s st) j []), ONone)
  | SDestroy j =>
    bl <- getb (s_s st) j ;; Ok (sets st (buf_clear p bl) j [], ONone)
  | SSize j =>
    bl <- getb (s_s st) j ;; Ok (st, ONum (buf_size bl))
  | SEmpty j =>                                                        (* m_blocks.empty() || Size() == 0 *)
    bl <- getb (s_s st) j ;;
    Ok (st, OBool (match bl with [] => true | _ => buf_size bl =? 0 end))
  | PoolPurge => Ok (mkS (p_purge p) (s_q st) (s_s st), ONone)
  end.

Fixpoint run (st : state) (ops : list op) : res (state * list out) :=
  match ops with
  | [] => Ok (st, [])
  | o :: r => '(st1, x) <- step st o ;; '(st2, xs) <- run st1 r ;; Ok (st2, x :: xs)
  end.

(* pool observers: FreeBlocks(), BlocksAllocated() *)
Definition free_blocks (st : state) : nat := length (p_free (s_pool st)).
Definition blocks_allocated (st : state) : nat := p_alloc (s_pool st).

(* blocks held by the buffers *)
Definition in_use (st : state) : nat :=
  fold_right (fun bl a => length bl + a) 0 (s_q st ++ s_s st).
(* the two pool clauses of the property as run-time observables (proved constantly true) *)
Definition acct_ok (st : state) : bool := blocks_allocated st =? free_blocks st + in_use st.
Definition noempty_ok (st : state) : bool :=
  forallb (forallb (fun b => negb (b_empty b))) (s_q st ++ s_s st).

(* internal observables for the correspondence harness: per block (first, last) *)
Definition buf_layout (bl : buffer) : list (nat * nat) := map (fun b => (b_first b, b_last b)) bl.
