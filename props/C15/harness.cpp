// C15 correspondence harness: real IOQueue / IOStack objects sharing one MemoryBlockPool.
// payload: "<label> <bs> <nq> <ns> <op> <op> ..." with ops (':'-separated fields)
//   qw:i:hex   queue i .Write(bytes)            sw:j:hex   stack j .Write(bytes)
//   qb:i:w:v   BigEndianOutputStream(queue i) << (uint{8w}_t) v     sb:j:w:v  same on stack j
//   qr:i:n     queue i .Read(uint8_t*, n)       sr:j:n     stack j .Read(uint8_t*, n)
//   qs:i:n     queue i .Read(std::string*, n)   ss:j:n     stack j .Read(std::string*, n)
//   qk:i:n     queue i .Peek(n)                 sp:j:n     stack j .Pop(n)
//   qp:i:n     queue i .Pop(n)                  sm:j:i     stack j .MoveToIOQueue(queue i)
//   qm:i:j     queue i .AppendMove(queue j)     sd:j       delete stack j; new IOStack(pool)
//   qc:i       queue i .Clear()                 pg         pool.Purge()
// After EVERY op: Size(), Empty(), AsIOVec() of every buffer, FreeBlocks(), BlocksAllocated().
// Output buffers for Read/Peek are exact-size heap arrays so that ASan sees any overrun.
#include <stdint.h>
#include <string.h>
#include <algorithm>
#include <deque>
#include <iostream>
#include <queue>
#include <sstream>
#include <string>
#include <vector>
#include "vh.h"
#include "ola/Logging.h"
#define private public
#include "ola/io/MemoryBlock.h"
#include "ola/io/MemoryBlockPool.h"
#include "ola/io/IOQueue.h"
#include "ola/io/IOStack.h"
#undef private
#include "ola/io/BigEndianStream.h"

using ola::io::IOQueue;
using ola::io::IOStack;
using ola::io::IOVec;
using ola::io::MemoryBlock;
using ola::io::MemoryBlockPool;
using std::string;
using std::vector;

struct World {
  MemoryBlockPool *pool;
  vector<IOQueue*> q;
  vector<IOStack*> s;
  ~World() {
    for (size_t i = 0; i < q.size(); i++) delete q[i];
    for (size_t i = 0; i < s.size(); i++) delete s[i];
    delete pool;
  }
};

template <typename T>
static void be_write(T *buf, unsigned w, unsigned long long v) {
  ola::io::BigEndianOutputStream out(buf);
  if (w == 1) out << static_cast<uint8_t>(v);
  else if (w == 2) out << static_cast<uint16_t>(v);
  else out << static_cast<uint32_t>(v);
}

template <typename T>
static string read_mem(T *buf, unsigned n) {
  uint8_t *dst = new uint8_t[n];
  unsigned r = buf->Read(dst, n);
  string s = r > n ? string("OVERRUN") : vh::hex(dst, r);
  delete[] dst;
  return s;
}

template <typename T>
static string read_str(T *buf, unsigned n) {
  string out("zz");                       // Read(std::string*) APPENDS
  unsigned r = buf->Read(&out, n);
  if (out.size() != 2 + r || out.substr(0, 2) != "zz") return "BADAPPEND";
  return vh::hex(out.substr(2));
}

// Size, Empty, concatenated iovec (property level) and segment / first-last layout (internal)
template <typename T>
static void observe(const T *buf, const string &name, std::ostringstream *spec,
                    std::ostringstream *inner, unsigned *blocks, bool *nonempty) {
  int cnt = -1;
  const IOVec *iov = buf->AsIOVec(&cnt);
  vector<uint8_t> all;
  string segs;
  for (int k = 0; k < cnt; k++) {
    const uint8_t *p = static_cast<const uint8_t*>(iov[k].iov_base);
    all.insert(all.end(), p, p + iov[k].iov_len);
    if (k) segs += ".";
    segs += vh::hex(p, iov[k].iov_len);
    if (iov[k].iov_len == 0) *nonempty = false;
  }
  if (cnt == 0 && iov != NULL) segs = "NONNULL";
  T::FreeIOVec(iov);
  *blocks += cnt;
  *spec << name << ":" << buf->Size() << "," << (buf->Empty() ? 1 : 0) << "," << vh::hex(all);
  *inner << name << ":" << segs << "@";
  for (size_t k = 0; k < buf->m_blocks.size(); k++) {
    const MemoryBlock *b = buf->m_blocks[k];
    if (k) *inner << ".";
    *inner << (b->m_first - b->m_data) << "-" << (b->m_last - b->m_data);
  }
}

static string handle(const string &payload) {
  vector<string> a = vh::split(payload);
  if (a.size() < 4) return "bad-payload";
  World w;
  w.pool = new MemoryBlockPool(vh::num(a[1]));
  for (unsigned i = 0; i < vh::num(a[2]); i++) w.q.push_back(new IOQueue(w.pool));
  for (unsigned i = 0; i < vh::num(a[3]); i++) w.s.push_back(new IOStack(w.pool));
  std::ostringstream res;
  res << "class=" << a[0];
  for (size_t k = 4; k < a.size(); k++) {
    vector<string> f = vh::split(a[k], ':');
    const string &op = f[0];
    unsigned x = f.size() > 1 ? vh::num(f[1]) : 0;
    unsigned n = f.size() > 2 && op != "qw" && op != "sw" ? vh::num(f[2]) : 0;
    string ret = ".";
    if (op == "qw" || op == "sw") {
      vector<uint8_t> d = vh::unhex(f[2]);
      vh::Exact e(d);
      if (op == "qw") w.q[x]->Write(e.p, e.n); else w.s[x]->Write(e.p, e.n);
    } else if (op == "qb") { be_write(w.q[x], n, vh::num(f[3]));
    } else if (op == "sb") { be_write(w.s[x], n, vh::num(f[3]));
    } else if (op == "qr") { ret = read_mem(w.q[x], n);
    } else if (op == "sr") { ret = read_mem(w.s[x], n);
    } else if (op == "qs") { ret = read_str(w.q[x], n);
    } else if (op == "ss") { ret = read_str(w.s[x], n);
    } else if (op == "qk") {
      uint8_t *dst = new uint8_t[n];
      unsigned r = w.q[x]->Peek(dst, n);
      ret = r > n ? string("OVERRUN") : vh::hex(dst, r);
      delete[] dst;
    } else if (op == "qp") { w.q[x]->Pop(n);
    } else if (op == "sp") { w.s[x]->Pop(n);
    } else if (op == "qm") { w.q[x]->AppendMove(w.q[n]);
    } else if (op == "sm") { w.s[x]->MoveToIOQueue(w.q[n]);
    } else if (op == "qc") { w.q[x]->Clear();
    } else if (op == "sd") { delete w.s[x]; w.s[x] = new IOStack(w.pool);
    } else if (op == "pg") { w.pool->Purge();
    } else { return "bad-op"; }
    std::ostringstream spec, inner;
    unsigned blocks = 0;
    bool nonempty = true;
    for (size_t i = 0; i < w.q.size(); i++) {
      spec << "/"; if (i) inner << "/";
      observe(w.q[i], "q" + vh::str(i), &spec, &inner, &blocks, &nonempty);
    }
    for (size_t j = 0; j < w.s.size(); j++) {
      spec << "/"; if (j || !w.q.empty()) inner << "/";
      observe(w.s[j], "s" + vh::str(j), &spec, &inner, &blocks, &nonempty);
    }
    unsigned fr = w.pool->FreeBlocks(), al = w.pool->BlocksAllocated();
    res << ";o" << (k - 4) << "=" << ret << spec.str() << "/acct" << (al == fr + blocks ? 1 : 0)
        << ",held-nonempty" << (nonempty ? 1 : 0);
    res << ";i" << (k - 4) << "=" << inner.str() << "/free" << fr << ",alloc" << al;
  }
  return res.str();
}

int main(int argc, char **argv) {
  ola::InitLogging(ola::OLA_LOG_NONE, ola::OLA_LOG_NULL);
  return vh::run(argc, argv, handle);
}
