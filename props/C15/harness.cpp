// C15 correspondence harness: real IOQueue / IOStack objects sharing one MemoryBlockPool.
// payload: "<label> <bs> <nq> <ns> <op> <op> ..." with ops (':'-separated fields)
//   qw:i:hex   queue i .Write(bytes)            sw:j:hex   stack j .Write(bytes)
//   qb:i:w:v   BigEndianOutputStream(queue i) << (uint{8w}_t) v     sb:j:w:v  same on stack j
//   qr:i:n     queue i .Read(uint8_t*, n)       sr:j:n     stack j .Read(uint8_t*, n)
//   qs:i:n     queue i .Read(std::string*, n)   ss:j:n     stack j .Read(std::string*, n)
//   qk:i:n     queue i .Peek(n)                 sp:j:n     stack j .Pop(n)
//   qp:i:n     queue i .Pop(n)                  sm:j:i     stack j .MoveToIOQueue(queue i)
//   qm:i:j     queue i .AppendMove(queue j)     sd:j       delete stack j; new IOStack(pool)
//   qc:i       queue i .Clear()                 pg         pool.Purge()
// Extended payload (label starts with 'X'): "<Xlabel> <bs> <nq> <ns> <max> <op> ..." - queue 0 is the
// m_output_buffer of a real NonBlockingSender(descriptor, mock select server, pool, max); extra ops
//   xs:j       sender.SendMessage(stack j)      xq:i       sender.SendMessage(queue i)
//   xw:k       descriptor becomes writable -> PerformWrite(); the kernel (interposed writev) accepts
//              min(k, offered) bytes            xe         same, writev fails with -1/EAGAIN
//   xl         sender.LimitReached()
//   qi:i:w     BigEndianInputStream(queue i) >> uint{8w}_t
//   mb:hex:c,c,..  MemoryBuffer over the bytes, then calls rN = Read(uint8_t*, N), sN = ReadString(N),
//              iW = BigEndianInputStream >> uint{8W}_t
// After EVERY op: Size(), Empty(), AsIOVec() of every buffer, FreeBlocks(), BlocksAllocated()
// (+ m_associated and the select server's write registration in extended mode).
// Output buffers for Read/Peek are exact-size heap arrays so that ASan sees any overrun.
#include <stdint.h>
#include <string.h>
#include <algorithm>
#include <deque>
#include <iostream>
#include <queue>
#include <sstream>
#include <string>
#include <vector>
#include "vh.h"
#include "ola/Logging.h"
#include "ola/StringUtils.h"
#define private public
#include "ola/io/MemoryBlock.h"
#include "ola/io/MemoryBlockPool.h"
#include "ola/io/IOQueue.h"
#include "ola/io/IOStack.h"
#undef private
#include "ola/io/BigEndianStream.h"
#include "ola/io/MemoryBuffer.h"
#include <errno.h>
#include <fcntl.h>
#include <pthread.h>
#include <set>
#include <sys/uio.h>
#include <unistd.h>
#define private public
#include "ola/io/NonBlockingSender.h"
#undef private
#include "ola/io/Descriptor.h"
#include "ola/io/SelectServerInterface.h"

using ola::io::IOQueue;
using ola::io::IOStack;
using ola::io::IOVec;
using ola::io::MemoryBlock;
using ola::io::MemoryBlockPool;
using std::string;
using std::vector;

// ---- the kernel side of the descriptor: scripted writev (linked with -Wl,--wrap=writev)
static bool g_scripted = false;
static long g_accept = 0;          // < 0: fail
static int g_calls = 0;
static vector<uint8_t> g_taken;
extern "C" ssize_t __real_writev(int fd, const struct iovec *iov, int iovcnt);
extern "C" ssize_t __wrap_writev(int fd, const struct iovec *iov, int iovcnt) {
  if (!g_scripted) return __real_writev(fd, iov, iovcnt);
  g_calls++;
  if (g_accept < 0) { errno = EAGAIN; return -1; }
  size_t left = g_accept;
  for (int k = 0; k < iovcnt && left; k++) {
    size_t n = std::min(left, static_cast<size_t>(iov[k].iov_len));
    const uint8_t *p = static_cast<const uint8_t*>(iov[k].iov_base);
    g_taken.insert(g_taken.end(), p, p + n);   // ASan checks the iovec really is readable
    left -= n;
  }
  return g_taken.size();
}

class ScriptedDescriptor: public ola::io::ConnectedDescriptor {
 public:
  explicit ScriptedDescriptor(int fd): m_fd(fd) {}
  ola::io::DescriptorHandle ReadDescriptor() const { return m_fd; }
  ola::io::DescriptorHandle WriteDescriptor() const { return m_fd; }
  bool Close() { return true; }
 protected:
  bool IsSocket() const { return false; }   // -> the writev() branch of Send(IOQueue*)
 private:
  int m_fd;
};

class MockSS: public ola::io::SelectServerInterface {
 public:
  MockSS(): registered(false) {}
  bool registered;
  bool AddReadDescriptor(ola::io::ReadFileDescriptor*) { return true; }
  bool AddReadDescriptor(ola::io::ConnectedDescriptor*, bool) { return true; }
  void RemoveReadDescriptor(ola::io::ReadFileDescriptor*) {}
  void RemoveReadDescriptor(ola::io::ConnectedDescriptor*) {}
  bool AddWriteDescriptor(ola::io::WriteFileDescriptor*) { registered = true; return true; }
  void RemoveWriteDescriptor(ola::io::WriteFileDescriptor*) { registered = false; }
  ola::thread::timeout_id RegisterRepeatingTimeout(unsigned int, ola::Callback0<bool>*) { return NULL; }
  ola::thread::timeout_id RegisterRepeatingTimeout(const ola::TimeInterval&, ola::Callback0<bool>*) { return NULL; }
  ola::thread::timeout_id RegisterSingleTimeout(unsigned int, ola::SingleUseCallback0<void>*) { return NULL; }
  ola::thread::timeout_id RegisterSingleTimeout(const ola::TimeInterval&, ola::SingleUseCallback0<void>*) { return NULL; }
  void RemoveTimeout(ola::thread::timeout_id) {}
  const ola::TimeStamp *WakeUpTime() const { return NULL; }
  void Execute(ola::BaseCallback0<void>*) {}
  void DrainCallbacks() {}
};

struct World {
  MemoryBlockPool *pool;
  MemoryBlockPool *pool2;          // 'C' payloads: pool B
  vector<int> qpool, spool;        // pool index of every buffer
  vector<IOQueue*> q;
  vector<IOStack*> s;
  ScriptedDescriptor *desc;
  MockSS *ss;
  ola::io::NonBlockingSender *sender;   // q[0] aliases sender->m_output_buffer when set
  int fd;
  World(): pool(NULL), pool2(NULL), desc(NULL), ss(NULL), sender(NULL), fd(-1) {}
  ~World() {
    for (size_t i = sender ? 1 : 0; i < q.size(); i++) delete q[i];
    delete sender; delete desc; delete ss;
    if (fd >= 0) close(fd);
    for (size_t i = 0; i < s.size(); i++) delete s[i];
    delete pool;
    delete pool2;
  }
};

template <typename T>
static void be_write(T *buf, unsigned w, unsigned long long v) {
  ola::io::BigEndianOutputStream out(buf);
  if (w == 1) out << static_cast<uint8_t>(v);
  else if (w == 2) out << static_cast<uint16_t>(v);
  else out << static_cast<uint32_t>(v);
}

// The destination is an exact-size heap array (ASan sees any overrun).  For lengths far beyond what the
// buffer can hold (UINT_MAX ...) the array is only `avail + 64` bytes: a correct implementation never
// writes more than `avail`, an incorrect one runs into the redzone.
template <typename T>
static string read_mem(T *buf, unsigned n, size_t avail) {
  size_t cap = std::min(static_cast<size_t>(n), avail + 64);
  uint8_t *dst = new uint8_t[cap];
  unsigned r = buf->Read(dst, n);
  string s = (r > n || r > cap) ? string("OVERRUN") : vh::hex(dst, r);
  delete[] dst;
  return s;
}

template <typename T>
static string read_str(T *buf, unsigned n) {
  string out("zz");                       // Read(std::string*) APPENDS
  unsigned r = buf->Read(&out, n);
  if (out.size() != 2 + r || out.substr(0, 2) != "zz") return "BADAPPEND";
  return vh::hex(out.substr(2));
}

template <typename T>
static string be_read(T *buf, unsigned w) {
  ola::io::BigEndianInputStream in(buf);
  bool ok;
  unsigned long long v;
  if (w == 1) { uint8_t x = 0xa5; ok = in >> x; v = x;
  } else if (w == 2) { uint16_t x = 0xa5a5; ok = in >> x; v = x;
  } else { uint32_t x = 0xa5a5a5a5; ok = in >> x; v = x; }
  return ok ? "v" + vh::str(v) : string("short");
}

static string membuf(const string &hexdata, const string &script) {
  vector<uint8_t> d = vh::unhex(hexdata);
  vh::Exact e(d);
  ola::io::MemoryBuffer mb(e.p, e.n);
  string out;
  vector<string> calls = vh::split(script, ',');
  for (size_t k = 0; k < calls.size(); k++) {
    if (calls[k].empty()) continue;
    unsigned n = vh::num(calls[k].substr(1));
    if (k) out += ".";
    if (calls[k][0] == 'r') out += read_mem(&mb, n, e.n);
    else if (calls[k][0] == 's') {
      ola::io::BigEndianInputStream in(&mb);
      string o("zz");
      unsigned r = in.ReadString(&o, n);
      out += (o.size() != 2 + r) ? string("BADAPPEND") : vh::hex(o.substr(2));
    }
    else out += be_read(&mb, n);
  }
  return out;
}

// Dump() must print exactly ola::FormatData of the buffer's bytes and change nothing
template <typename T>
static string dump_of(T *buf) {
  int cnt = 0;
  const IOVec *iov = buf->AsIOVec(&cnt);
  vector<uint8_t> all;
  for (int k = 0; k < cnt; k++) {
    const uint8_t *p = static_cast<const uint8_t*>(iov[k].iov_base);
    all.insert(all.end(), p, p + iov[k].iov_len);
  }
  T::FreeIOVec(iov);
  std::ostringstream got, want;
  buf->Dump(&got);
  ola::FormatData(&want, all.empty() ? NULL : &all[0], all.size());
  return got.str() == want.str() ? vh::hex(all) : string("DUMP-MISMATCH");
}

// Size, Empty, concatenated iovec (property level) and segment / first-last layout (internal)
template <typename T>
static void observe(const T *buf, const string &name, std::ostringstream *spec,
                    std::ostringstream *inner, unsigned *blocks, bool *nonempty) {
  int cnt = -1;
  const IOVec *iov = buf->AsIOVec(&cnt);
  vector<uint8_t> all;
  string segs;
  for (int k = 0; k < cnt; k++) {
    const uint8_t *p = static_cast<const uint8_t*>(iov[k].iov_base);
    all.insert(all.end(), p, p + iov[k].iov_len);
    if (k) segs += ".";
    segs += vh::hex(p, iov[k].iov_len);
    if (iov[k].iov_len == 0) *nonempty = false;
  }
  if (cnt == 0 && iov != NULL) segs = "NONNULL";
  T::FreeIOVec(iov);
  *blocks += cnt;
  *spec << name << ":" << buf->Size() << "," << (buf->Empty() ? 1 : 0) << "," << vh::hex(all);
  *inner << name << ":" << segs << "@";
  for (size_t k = 0; k < buf->m_blocks.size(); k++) {
    const MemoryBlock *b = buf->m_blocks[k];
    if (k) *inner << ".";
    *inner << (b->m_first - b->m_data) << "-" << (b->m_last - b->m_data);
  }
}

// "Pcross <bsA> <bsB> <hex> <n>": two pools, qa(&A).Write(bytes); qb(&B).AppendMove(&qa);
// qb.Read(n); observe; B.Purge(); observe   (known finding C15-crosspool)
static string crosspool(const vector<string> &a) {
  if (a.size() != 5) return "bad-payload";
  MemoryBlockPool A(vh::num(a[1])), B(vh::num(a[2]));
  std::ostringstream res;
  {
    IOQueue qa(&A), qb(&B);
    vector<uint8_t> d = vh::unhex(a[3]);
    vh::Exact e(d);
    qa.Write(e.p, e.n);
    qb.AppendMove(&qa);
    string got = read_mem(&qb, vh::num(a[4]), qb.Size());
    res << "class=" << a[0] << ";read=" << got << ";A=" << A.BlocksAllocated() << "," << A.FreeBlocks()
        << ";B=" << B.BlocksAllocated() << "," << B.FreeBlocks() << "," << qb.m_blocks.size();
    B.Purge();
    res << ";Bpurged=" << B.BlocksAllocated();
  }
  return res.str();
}

// ---- pools that are alive right now, over all threads ('T' payloads): a default-constructed buffer
// must own a pool nobody else uses
static pthread_mutex_t g_pool_mu = PTHREAD_MUTEX_INITIALIZER;
static std::multiset<const void*> g_live_pools;
static bool g_pool_shared = false;
static void pool_live(const void *p, bool on) {
  pthread_mutex_lock(&g_pool_mu);
  if (on) {
    if (g_live_pools.count(p)) g_pool_shared = true;
    g_live_pools.insert(p);
  } else {
    std::multiset<const void*>::iterator it = g_live_pools.find(p);
    if (it != g_live_pools.end()) g_live_pools.erase(it);
  }
  pthread_mutex_unlock(&g_pool_mu);
}

static string handle_impl(const vector<string> &a, bool thr);

// "T<label> <threads> <reps> ops": every thread runs the history <reps> times, each time on its OWN
// freshly default-constructed IOQueue q0 and IOStack s0 (each owns a private pool of 1024-byte blocks).
// Every run in every thread must give the trace the model gives (a correct tree can never fail this;
// on a tree where the buffers share hidden state, detection of the interference is probabilistic,
// the pool-identity check `distinct` is deterministic).
struct ThrArg { const vector<string> *a; unsigned reps; vector<string> out; volatile int *go; };
static void *thr_main(void *p) {
  ThrArg *t = static_cast<ThrArg*>(p);
  while (!*t->go) {}
  for (unsigned r = 0; r < t->reps; r++) t->out.push_back(handle_impl(*t->a, true));
  return NULL;
}
static string threaded(const vector<string> &a) {
  if (a.size() < 3) return "bad-payload";
  unsigned nt = vh::num(a[1]), reps = vh::num(a[2]);
  g_pool_shared = false;
  volatile int go = 0;
  vector<ThrArg> args(nt);
  vector<pthread_t> th(nt);
  for (unsigned t = 0; t < nt; t++) { args[t].a = &a; args[t].reps = reps; args[t].go = &go; }
  for (unsigned t = 0; t < nt; t++) pthread_create(&th[t], NULL, thr_main, &args[t]);
  go = 1;
  for (unsigned t = 0; t < nt; t++) pthread_join(th[t], NULL);
  string base = args[0].out.empty() ? string("class=") + a[0] : args[0].out[0];
  string verdict = "ok";
  for (unsigned t = 0; t < nt && verdict == "ok"; t++)
    for (unsigned r = 0; r < args[t].out.size(); r++)
      if (args[t].out[r] != base) { verdict = "MISMATCH-thread" + vh::str(t) + "-rep" + vh::str(r); break; }
  return base + ";threads=" + verdict + ";distinct=" + (g_pool_shared ? "0" : "1");
}

static string handle(const string &payload) {
  vector<string> a = vh::split(payload);
  if (!a.empty() && a[0][0] == 'P') return crosspool(a);
  if (!a.empty() && a[0][0] == 'T') return threaded(a);
  return handle_impl(a, false);
}

static string handle_impl(const vector<string> &a, bool thr) {
  if (a.size() < (thr ? 3 : 4)) return "bad-payload";
  // "<Ylabel> <bsA> <bsB> <qmask> <smask> <max> ops": two pools AND a NonBlockingSender whose output
  // buffer is queue 0 (on the pool qmask[0] names); the other buffers may be on the other pool
  const bool ymode = !thr && a[0][0] == 'Y';
  const bool ext = !thr && (a[0][0] == 'X' || ymode);
  const bool multi = thr || ymode || a[0][0] == 'C';   // "<Clabel> <bsA> <bsB> <qmask> <smask> ops": two pools
  const size_t first = thr ? 3 : ymode ? 6 : (ext || multi) ? 5 : 4;
  if (a.size() < first || (ext && !ymode && vh::num(a[2]) < 1)) return "bad-payload";
  World w;
  if (thr) {
    w.q.push_back(new IOQueue()); w.qpool.push_back(0);
    w.s.push_back(new IOStack()); w.spool.push_back(1);
    pool_live(w.q[0]->m_pool, true);
    pool_live(w.s[0]->m_pool, true);
  } else {
    w.pool = new MemoryBlockPool(vh::num(a[1]));
  }
  if (multi && !thr) {
    w.pool2 = new MemoryBlockPool(vh::num(a[2]));
    for (size_t i = 0; i < a[3].size() && a[3] != "-"; i++) {
      w.qpool.push_back(a[3][i] - 'A');
      if (ymode && i == 0) {
        w.fd = open("/dev/null", O_WRONLY);
        w.desc = new ScriptedDescriptor(w.fd);
        w.ss = new MockSS();
        w.sender = new ola::io::NonBlockingSender(w.desc, w.ss, a[3][0] == 'A' ? w.pool : w.pool2, vh::num(a[5]));
        w.q.push_back(&w.sender->m_output_buffer);
      } else {
        w.q.push_back(new IOQueue(a[3][i] == 'A' ? w.pool : w.pool2));
      }
    }
    for (size_t i = 0; i < a[4].size() && a[4] != "-"; i++) {
      w.spool.push_back(a[4][i] - 'A');
      w.s.push_back(new IOStack(a[4][i] == 'A' ? w.pool : w.pool2));
    }
  }
  if (ext && !ymode) {
    w.fd = open("/dev/null", O_WRONLY);
    w.desc = new ScriptedDescriptor(w.fd);
    w.ss = new MockSS();
    w.sender = new ola::io::NonBlockingSender(w.desc, w.ss, w.pool, vh::num(a[4]));
    w.q.push_back(&w.sender->m_output_buffer);
  }
  for (unsigned i = ext ? 1 : 0; !multi && i < vh::num(a[2]); i++) w.q.push_back(new IOQueue(w.pool));
  for (unsigned i = 0; !multi && i < vh::num(a[3]); i++) w.s.push_back(new IOStack(w.pool));
  std::ostringstream res;
  res << "class=" << a[0];
  for (size_t k = first; k < a.size(); k++) {
    vector<string> f = vh::split(a[k], ':');
    const string &op = f[0];
    unsigned x = f.size() > 1 && op != "mb" ? vh::num(f[1]) : 0;
    unsigned n = f.size() > 2 && op != "qw" && op != "sw" && op != "mb" ? vh::num(f[2]) : 0;
    string ret = ".";
    if (op == "qw" || op == "sw") {
      vector<uint8_t> d = vh::unhex(f[2]);
      vh::Exact e(d);
      if (op == "qw") w.q[x]->Write(e.p, e.n); else w.s[x]->Write(e.p, e.n);
    } else if (op == "qb") { be_write(w.q[x], n, vh::num(f[3]));
    } else if (op == "sb") { be_write(w.s[x], n, vh::num(f[3]));
    } else if (op == "qr") { ret = read_mem(w.q[x], n, w.q[x]->Size());
    } else if (op == "sr") { ret = read_mem(w.s[x], n, w.s[x]->Size());
    } else if (op == "qs") { ret = read_str(w.q[x], n);
    } else if (op == "ss") { ret = read_str(w.s[x], n);
    } else if (op == "qk") {
      size_t cap = std::min(static_cast<size_t>(n), static_cast<size_t>(w.q[x]->Size()) + 64);
      uint8_t *dst = new uint8_t[cap];
      unsigned r = w.q[x]->Peek(dst, n);
      ret = (r > n || r > cap) ? string("OVERRUN") : vh::hex(dst, r);
      delete[] dst;
    } else if (op == "qp") { w.q[x]->Pop(n);
    } else if (op == "sp") { w.s[x]->Pop(n);
    } else if (op == "qm") { w.q[x]->AppendMove(w.q[n]);
    } else if (op == "sm") { w.s[x]->MoveToIOQueue(w.q[n]);
    } else if (op == "qc") { w.q[x]->Clear();
    } else if (op == "sd" && thr) {
      pool_live(w.s[x]->m_pool, false);
      delete w.s[x];
      w.s[x] = new IOStack();
      pool_live(w.s[x]->m_pool, true);
    } else if (op == "sd") {
      delete w.s[x];
      w.s[x] = new IOStack(multi && w.spool[x] == 1 ? w.pool2 : w.pool);
    } else if (op == "pg") { w.pool->Purge(); if (w.pool2) w.pool2->Purge();
    } else if (op == "pq") { w.q[x]->Purge();
    } else if (op == "ps") { w.s[x]->Purge();
    } else if (op == "qd") { ret = dump_of(w.q[x]);
    } else if (op == "sD") { ret = dump_of(w.s[x]);
    } else if (op == "qi") { ret = be_read(w.q[x], n);
    } else if (op == "mb") { ret = membuf(f[1], f.size() > 2 ? f[2] : "");
    } else if (ext && op == "xs") { ret = w.sender->SendMessage(w.s[x]) ? "T" : "F";
    } else if (ext && op == "xq") { ret = w.sender->SendMessage(w.q[x]) ? "T" : "F";
    } else if (ext && op == "xl") { ret = w.sender->LimitReached() ? "T" : "F";
    } else if (ext && (op == "xw" || op == "xe")) {
      g_scripted = true; g_accept = op == "xe" ? -1 : static_cast<long>(x); g_calls = 0; g_taken.clear();
      w.desc->PerformWrite();             // runs the on-writable callback = sender.PerformWrite()
      g_scripted = false;
      if (g_calls != 1) ret = "WRITEV-CALLS" + vh::str(g_calls);
      else ret = op == "xe" ? string("ERR") : vh::hex(g_taken);
    } else { return "bad-op"; }
    std::ostringstream spec, inner;
    unsigned blocks = 0;
    bool nonempty = true;
    for (size_t i = 0; i < w.q.size(); i++) {
      spec << "/"; if (i) inner << "/";
      observe(w.q[i], "q" + vh::str(i), &spec, &inner, &blocks, &nonempty);
    }
    for (size_t j = 0; j < w.s.size(); j++) {
      spec << "/"; if (j || !w.q.empty()) inner << "/";
      observe(w.s[j], "s" + vh::str(j), &spec, &inner, &blocks, &nonempty);
    }
    if (multi) {
      res << ";o" << (k - first) << "=" << ret << spec.str() << "/held-nonempty" << (nonempty ? 1 : 0);
      if (w.sender) res << "/assoc" << (w.sender->m_associated ? 1 : 0) << ",reg" << (w.ss->registered ? 1 : 0);
      res << ";a" << (k - first) << "=";
      for (int pk = 0; pk < 2; pk++) {
        MemoryBlockPool *pp = thr ? (pk ? w.s[0]->m_pool : w.q[0]->m_pool) : (pk ? w.pool2 : w.pool);
        unsigned held = 0;
        for (size_t i = 0; i < w.q.size(); i++) if (w.qpool[i] == pk) held += w.q[i]->m_blocks.size();
        for (size_t j = 0; j < w.s.size(); j++) if (w.spool[j] == pk) held += w.s[j]->m_blocks.size();
        res << (pk ? "/" : "") << "P" << pk << ":" << pp->BlocksAllocated() << "," << pp->FreeBlocks() << "," << held;
      }
      res << ";i" << (k - first) << "=" << inner.str();
      continue;
    }
    unsigned fr = w.pool->FreeBlocks(), al = w.pool->BlocksAllocated();
    res << ";o" << (k - first) << "=" << ret << spec.str() << "/acct" << (al == fr + blocks ? 1 : 0)
        << ",held-nonempty" << (nonempty ? 1 : 0);
    if (ext) res << "/assoc" << (w.sender->m_associated ? 1 : 0) << ",reg" << (w.ss->registered ? 1 : 0);
    res << ";i" << (k - first) << "=" << inner.str() << "/free" << fr << ",alloc" << al;
  }
  if (thr) {
    pool_live(w.q[0]->m_pool, false);
    pool_live(w.s[0]->m_pool, false);
  }
  return res.str();
}

int main(int argc, char **argv) {
  ola::InitLogging(ola::OLA_LOG_NONE, ola::OLA_LOG_NULL);
  return vh::run(argc, argv, handle);
}
