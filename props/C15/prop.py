import itertools

ID = 'C15'
GROUPS = ['common']
CXX_SOURCES = []
WRAP = ['writev']      # the kernel side of ConnectedDescriptor::Send(IOQueue*) is scripted

RULE = ('operation histories on 1-3 IOQueues and 0-2 IOStacks sharing one MemoryBlockPool with block size 1-8: '
        'all histories of <= 3 ops over a 34-letter boundary alphabet (write / read lengths 0,1,bs,bs+1; quick bs=2, '
        'thorough bs=1..3 plus a 1/11 sample of depth 4) + random histories of up to 40 ops whose lengths are drawn from '
        '{0,1,bs-1,bs,bs+1,2bs,2bs+1,3bs+1} for writes and block size / current buffer size -1,+0,+1 for reads and pops + '
        'scenario families for block reuse / string reads / zero-length writes / stack-to-queue moves; '
        'extended histories (class X*) on a real NonBlockingSender whose output buffer is queue 0: messages built on '
        'stacks/queues, SendMessage(IOStack*/IOQueue*), PerformWrite with a scripted writev() result (0, 1, bs-1, bs, bs+1, '
        'pending-1, pending, pending+1, far more than offered, error), LimitReached with limits 0,1,bs,bs+1,2bs,2bs+1,7,10,1024, '
        'BigEndianOutputStream/BigEndianInputStream round trips across block boundaries incl. short reads, MemoryBuffer '
        'read scripts (Read, ReadString, >> past the end); two-pool histories (class C*: pools with different block sizes, '
        'blocks moved between buffers of different pools, consumed on the destination, then further writes aimed at multiples '
        'of both block sizes and reads on the destination; model faithful to the code: bytes conserved, pool counters per '
        'known finding C15-crosspool); buffers of 1023/1024/1025/3000 blocks on 1- and 4-byte pools (class big*/Xbig*: AsIOVec '
        'beyond IOV_MAX entries, Read/Pop/Peek/move, PerformWrite with a writev that accepts all it is offered); 32-bit boundary '
        'magnitudes (UINT_MAX, UINT_MAX-1, 2^32-size, 2^32-cursor and neighbours, 2^31, 2^31-1) for every length argument of '
        'Read/Read(string)/Peek/Pop, MemoryBuffer reads (also after the cursor moved), PerformWrite and the sender limit - executed '
        'by the model through natlen (c15_len_any*); threaded cases (class T*: 4 threads x 40-60 repetitions, each repetition on a '
        'freshly default-constructed IOQueue + IOStack with private 1024-byte-block pools, every run must give the model trace; '
        'pool identity of all live default-constructed buffers must be distinct; detection of cross-thread interference itself '
        'is probabilistic, the identity check is deterministic; incl. delete + re-create of the default-constructed stack and its '
        'pool); a NonBlockingSender on one pool fed from stacks / queues of another (class Y*: same scripted writes, limits and '
        'stream round trips as X*); two-pool histories WITH Purge whose moves stay inside one pool (class Csamepool: per-pool '
        'counters must be exact); IOQueue::Dump / IOStack::Dump (text must equal FormatData of the content, state unchanged) and '
        'IOQueue::Purge / IOStack::Purge in the one-pool histories; every observable compared after every op; non-trivial = at '
        'least one byte written and one byte read / peeked / accepted by the descriptor; distinct = distinct model output line')
ASSUMPTIONS = ['operator new does not fail',
               'several pools with Purge: c15_multi_purge_exact covers histories whose moves stay inside one pool (then every pool is exact); '
               'sender / streams over several pools: c15_sender_conserves_multi, c15_stream_roundtrip_multi (no application-level Purge); '
               'destroying a default-constructed buffer together with its private pool is an executable model only (Multi.destroy_private); '
               'not modelled: IOQueue::AppendBlock(MemoryBlock*) called directly (only through MoveToIOQueue), MemoryBlockPool::Purge(remaining) '
               'with remaining > 0 (no caller in the tree; remaining > FreeBlocks() would pop an empty std::queue), Dump text format (checked '
               'against ola::FormatData by the harness only)',
               'several pools: c15_multi_refines / c15_multi_accounting / c15_multi_buffers prove conservation, Size, iovec and the exact '
               'accounting (totals over all pools; per pool up to the migrated blocks) for the block-level model Multi.v over any number '
               'of pools with blocks of mixed capacities, for histories without Purge; the per-pool clause allocated = free + held is '
               'false there (known finding C15-crosspool, c15_crosspool_refuted incl. the Purge counter wrap); sender / stream theorems '
               'are stated for one pool;'
              ' the interposed writev accepts any number of iovec entries (a real kernel returns EINVAL above IOV_MAX = the scripted '
               'error path); AppendMove is never called with the queue itself (iterates a deque while pushing to it)',
               'lengths and counters are unbounded naturals in the block-level model; the only unsigned-int sums that can wrap '
               '(Size(), hence LimitReached(), and m_blocks_allocated) are treated explicitly: c15_size32 states Size() modulo 2^32 '
               'with the guard "buffer holds < 2^32 bytes", c15_size32_wraps shows the wrap, and c15_sender_conserves is proved '
               'with the wrapping Size(); more than 2^32 allocated blocks are not considered',
               'threads: the classes are documented as not thread safe; the check only requires that buffers which share NOTHING '
               'explicit (default-constructed, private pools) do not interfere across threads',
               'pool block size >= 1 (with block size 0 Write(non-empty) never returns; not exercised)',
               'NonBlockingSender: the application never touches the private m_output_buffer; the descriptor stays valid; '
               'the kernel accepts at most the bytes it was offered (writev/sendmsg contract)']
TRUSTED = ['modelled rather than verified: MemoryBlock.h (all methods), MemoryBlockPool.h (Allocate, Release, '
           'Purge, FreeBlocks, BlocksAllocated), IOQueue.cpp (Write, Read x2, Peek, Pop, AsIOVec, AppendBlock, '
           'AppendMove, Clear, Size, Empty), IOStack.cpp (Write, Read x2, Pop, AsIOVec, MoveToIOQueue, Size, '
           'Empty, destructor), BigEndianOutputStream operator<< and BigEndianInputStream operator>> for 8/16/32-bit values, '
           'InputStream::Extract/ReadString, MemoryBuffer (both Read overloads), NonBlockingSender (SendMessage x2, PerformWrite, '
           'LimitReached, AssociateIfRequired) and ConnectedDescriptor::Send(IOQueue*) (writev branch; the sendmsg branch differs '
           'only in the system call); blocks are held by value in the model (pointer aliasing / double ownership is left to ASan '
           'on the harness side)',
           'harness: writev() is interposed at link time (-Wl,--wrap=writev) to script the accepted length; the select server is a mock '
           'recording Add/RemoveWriteDescriptor']

LEVEL_TEXT = ('Coq theorems over an executable, block-level model of MemoryBlock / MemoryBlockPool / IOQueue / IOStack '
              '(first/last offsets, byte arrays, deques of blocks, free list), NonBlockingSender + ConnectedDescriptor::Send, '
              'BigEndian streams and MemoryBuffer: for every block size >= 1, any number of queues and stacks on one pool and '
              'EVERY operation history, no out-of-block copy / empty-deque access / non-terminating write loop occurs and the '
              'model is simulated step by step by a byte-list specification (queue = FIFO append, stack = prepend, reads and '
              'pops take a prefix exactly once, moves concatenate), with Size = written - consumed, allocated = free + held, no '
              'empty block ever held, free blocks reset, concat(AsIOVec) = content; for every message sequence and every script '
              'of partial / zero / failed writes the bytes the descriptor accepted followed by the pending bytes are exactly the '
              'accepted messages in order and the descriptor is registered for writing iff bytes are pending; stream write/read '
              'round trips return the values written for every block size.  Size() modulo 2^32 is stated with an explicit guard. '
              'The same refinement, Size and iovec theorems are proved over any number of pools with blocks of mixed capacities '
              '(c15_multi_*), with the accounting that is true there: totals balance, each pool is off by exactly the blocks that '
              'migrated.  Known finding (c15_crosspool_refuted): buffers on different pools break the per-pool accounting clause. '
              'The model is tied to the C++ by a differential correspondence check comparing every observable after every operation.')
LEVEL_NOTE = ('Trusted: Coq kernel, extraction (ExtrOcamlBasic), OCaml/C++ glue, generator coverage of the '
              'correspondence; model = code is validated by differential testing (ASan/UBSan build of the working tree), '
              'not proved.  Blocks are held by value, so pointer aliasing between deques is left to ASan; operator new never fails; '
              'all buffers in one history share one pool (the cross-pool case is a listed known finding) and AppendMove is never '
              'given the queue itself; the kernel side of the descriptor is an input script.')
TECHNIQUE = 'Coq refinement proof (block-level model vs byte-list spec, induction over histories) + extracted-model/implementation differential correspondence'
DESIGN_REF = 'DESIGN.md §4 C15'

# property-level observables are the o<k> keys (returned bytes, Size, Empty, concatenated iovec,
# allocated == free + held, no empty block held); i<k> keys are block layout / pool counters.
SPEC_KEYS = set('o%d' % i for i in range(0, 400)) | {'threads', 'distinct'}
INTERNAL_KEYS = []
PROC_TIMEOUT = 900


def hx(bs):
    return ''.join('%02x' % b for b in bs) if bs else '-'


class Gen(object):
    """Tracks abstract sizes so that lengths can be aimed at the current content."""

    def __init__(self, rng, bs, nq, ns):
        self.rng, self.bs, self.nq, self.ns = rng, bs, nq, ns
        self.qlo = 0          # 1 in extended mode: queue 0 is the sender's private buffer
        self.q = [0] * nq
        self.s = [0] * ns
        self.ctr = rng.randrange(256)
        self.ops = []

    def data(self, n):
        out = []
        for _ in range(n):
            self.ctr = (self.ctr + 1) & 255
            out.append(self.ctr)
        return out

    def wlen(self):
        bs = self.bs
        return self.rng.choice([0, 1, 1, bs - 1, bs, bs, bs + 1, 2 * bs, 2 * bs + 1, 3 * bs + 1,
                                self.rng.randrange(0, 3 * bs + 2)])

    def rlen(self, size):
        bs = self.bs
        if self.rng.random() < 0.06:
            # 32-bit boundary magnitudes: the length is an `unsigned int` everywhere
            return self.rng.choice([4294967295, 4294967294, 4294967296 - max(1, size), 4294967295 - size,
                                    2147483648, 2147483647, 4294967295 - bs])
        return max(0, self.rng.choice([0, 1, bs - 1, bs, bs + 1, size - 1, size, size, size + 1, size - bs,
                                       size // 2, 2 * bs, self.rng.randrange(0, size + 2)]))

    def emit(self, kind):
        r = self.rng
        if kind in ('qw', 'qb', 'qr', 'qs', 'qk', 'qp', 'qc'):
            i = r.randrange(self.qlo, self.nq)
            if kind == 'qw':
                n = self.wlen()
                self.q[i] += n
                self.ops.append('qw:%d:%s' % (i, hx(self.data(n))))
            elif kind == 'qb':
                w = r.choice([1, 2, 4])
                self.q[i] += w
                self.ops.append('qb:%d:%d:%d' % (i, w, r.choice([0, 1, 0x0102, 0x01020304, (1 << (8 * w)) - 1,
                                                                 r.randrange(1 << (8 * w))]) & ((1 << (8 * w)) - 1)))
            elif kind == 'qk':
                self.ops.append('qk:%d:%d' % (i, self.rlen(self.q[i])))
            elif kind == 'qc':
                self.q[i] = 0
                self.ops.append('qc:%d' % i)
            else:
                n = self.rlen(self.q[i])
                self.q[i] -= min(n, self.q[i])
                self.ops.append('%s:%d:%d' % (kind, i, n))
            return True
        if kind == 'qm':
            if self.nq - self.qlo < 2:
                return False
            i, j = r.sample(range(self.qlo, self.nq), 2)
            self.q[i] += self.q[j]
            self.q[j] = 0
            self.ops.append('qm:%d:%d' % (i, j))
            return True
        if kind == 'pg':
            self.ops.append('pg')
            return True
        if kind in ('qd', 'pq'):
            self.ops.append('%s:%d' % (kind, r.randrange(self.qlo, self.nq)))
            return True
        if kind in ('sD', 'ps'):
            if self.ns == 0:
                return False
            self.ops.append('%s:%d' % (kind, r.randrange(self.ns)))
            return True
        if self.ns == 0:
            return False
        j = r.randrange(self.ns)
        if kind == 'sw':
            n = self.wlen()
            self.s[j] += n
            self.ops.append('sw:%d:%s' % (j, hx(self.data(n))))
        elif kind == 'sb':
            w = r.choice([1, 2, 4])
            self.s[j] += w
            self.ops.append('sb:%d:%d:%d' % (j, w, r.randrange(1 << (8 * w))))
        elif kind == 'sd':
            self.s[j] = 0
            self.ops.append('sd:%d' % j)
        elif kind == 'sm':
            i = r.randrange(self.qlo, self.nq)
            self.q[i] += self.s[j]
            self.s[j] = 0
            self.ops.append('sm:%d:%d' % (j, i))
        else:
            n = self.rlen(self.s[j])
            self.s[j] -= min(n, self.s[j])
            self.ops.append('%s:%d:%d' % (kind, j, n))
        return True

    def payload(self, label):
        return '%s %d %d %d %s' % (label, self.bs, self.nq, self.ns, ' '.join(self.ops))


class XGen(Gen):
    """extended mode: queue 0 is NonBlockingSender::m_output_buffer"""

    def __init__(self, rng, bs, nq, ns, mx):
        Gen.__init__(self, rng, bs, nq, ns)
        self.qlo, self.mx = 1, mx

    def xemit(self, kind):
        r, bs = self.rng, self.bs
        if kind == 'xs':
            j = r.randrange(self.ns)
            self.ops.append('xs:%d' % j)
            if self.q[0] < self.mx:
                self.q[0] += self.s[j]; self.s[j] = 0
        elif kind == 'xq':
            i = r.randrange(1, self.nq)
            self.ops.append('xq:%d' % i)
            if self.q[0] < self.mx:
                self.q[0] += self.q[i]; self.q[i] = 0
        elif kind == 'xw':
            size = self.q[0]
            k = max(0, r.choice([0, 1, 1, bs - 1, bs, bs + 1, 2 * bs, size - 1, size, size, size + 1, size // 2,
                                 size - bs, 3000, 4294967295, 2147483648, r.randrange(0, size + 2)]))
            self.ops.append('xw:%d' % k)
            self.q[0] -= min(k, size)
        elif kind == 'xe':
            self.ops.append('xe')
        elif kind == 'xl':
            self.ops.append('xl')
        elif kind == 'qi':
            i = r.randrange(1, self.nq)
            w = r.choice([1, 2, 4])
            self.ops.append('qi:%d:%d' % (i, w))
            self.q[i] -= min(w, self.q[i])
        elif kind == 'mb':
            n = r.choice([0, 1, 2, 3, 4, 5, 7, 8, 9, r.randrange(0, 20)])
            calls, cur = [], 0
            for _ in range(r.randrange(0, 6)):
                c = r.choice('rsi')
                if c == 'i':
                    ln = r.choice([1, 2, 4])
                elif r.random() < 0.35:
                    # oversized 32-bit lengths, also AFTER the cursor has moved (2^32 - cursor and around it)
                    ln = r.choice([4294967295, 4294967294, 4294967296 - max(cur, 1), 4294967295 - cur, 4294967297 - max(cur, 2),
                                   2147483648, 4294967295 - n, 4294967296 - max(n, 1)])
                else:
                    ln = r.choice([0, 1, 2, n, n + 1, max(0, n - cur), max(0, n - cur) + 1, r.randrange(0, n + 2)])
                calls.append(c + str(ln))
                cur = min(n, cur + ln)
            self.ops.append('mb:%s:%s' % (hx(self.data(n)), ','.join(calls)) if calls else 'mb:%s' % hx(self.data(n)))
        else:
            return self.emit(kind)
        return True

    def payload(self, label):
        return 'X%s %d %d %d %d %s' % (label, self.bs, self.nq, self.ns, self.mx, ' '.join(self.ops))


XKINDS = ['qd', 'sD', 'sw', 'sw', 'sb', 'qw', 'qw', 'qb', 'xs', 'xs', 'xs', 'xq', 'xq', 'xw', 'xw', 'xw', 'xw', 'xe', 'xl',
          'qi', 'qi', 'mb', 'sp', 'qr', 'qp', 'qk', 'qs', 'sm', 'qm', 'qc', 'sd', 'pg', 'sr', 'ss']


def xcases(rng, count):
    for _ in range(count):
        bs = rng.choice([1, 2, 3, 4, 4, 5, 8])
        fam = rng.choice(['sender', 'sender', 'limit', 'drain', 'stream', 'mixed'])
        mx = rng.choice([0, 1, bs, 2 * bs + 1, 10, 1024, 4294967295, 2147483648]) if fam != 'limit' else rng.choice([1, bs, bs + 1, 2 * bs, 7])
        g = XGen(rng, bs, rng.choice([2, 3]), rng.choice([1, 2]), mx)
        if fam in ('sender', 'limit'):
            # messages built on stacks / queues, sent, written out in scripted pieces
            for _ in range(rng.randrange(1, 6)):
                for _ in range(rng.randrange(0, 3)):
                    g.xemit(rng.choice(['sw', 'sb', 'qw', 'qb', 'sw']))
                g.xemit(rng.choice(['xs', 'xs', 'xq', 'xl']))
                for _ in range(rng.randrange(0, 3)):
                    g.xemit(rng.choice(['xw', 'xw', 'xe', 'xl']))
        elif fam == 'drain':
            for _ in range(rng.randrange(1, 4)):
                g.xemit('sw'); g.xemit('xs')
            while g.q[0] > 0 and len(g.ops) < 40:
                g.xemit(rng.choice(['xw', 'xw', 'xe']))
            g.xemit('xw'); g.xemit('pg'); g.xemit('sw'); g.xemit('xs'); g.xemit('xw')
        elif fam == 'stream':
            # BigEndianOutputStream then BigEndianInputStream on the same queue, around block boundaries
            for _ in range(rng.randrange(1, 4)):
                ws = [rng.choice([1, 2, 4]) for _ in range(rng.randrange(1, 5))]
                for w in ws:
                    g.q[1] += w
                    g.ops.append('qb:1:%d:%d' % (w, rng.choice([0, 1, (1 << (8 * w)) - 1, 0x01020304 & ((1 << (8 * w)) - 1),
                                                                 rng.randrange(1 << (8 * w))])))
                if rng.random() < 0.3:
                    rng.shuffle(ws)
                for w in ws + ([rng.choice([1, 2, 4])] if rng.random() < 0.5 else []):
                    g.ops.append('qi:1:%d' % w)
                    g.q[1] -= min(w, g.q[1])
            g.xemit('mb')
        else:
            n = rng.choice([5, 10, 20, 40])
            tries = 0
            while len(g.ops) < n and tries < 4 * n:
                tries += 1
                g.xemit(rng.choice(XKINDS))
        yield g.payload('snd-' + fam if fam != 'stream' else 'stream')


def ccases(rng, count):
    """two pools with different block sizes; blocks move between buffers of different pools, are consumed on the
    destination (released into ITS pool), then the destination keeps writing / reading (known finding C15-crosspool:
    the pool counters go wrong, the BYTES must not)"""
    pairs = [(1, 2), (2, 1), (4, 8), (8, 4), (2, 3), (3, 2), (1, 4), (4, 1), (3, 8), (8, 3), (2, 5), (5, 2), (4, 4)]
    ckinds = [k for k in KINDS if k not in ('pg', 'pq', 'ps')]
    for _ in range(count):
        bsa, bsb = rng.choice(pairs)
        qm = rng.choice(['AB', 'AB', 'BA', 'ABB', 'AAB'])
        sm = rng.choice(['A', 'B', 'AB', 'BA'])
        g = Gen(rng, bsa, len(qm), len(sm))
        bsof = {'A': bsa, 'B': bsb}
        fam = rng.choice(['recycle', 'recycle', 'random'])
        if fam == 'recycle':
            for _ in range(rng.randrange(1, 4)):
                dst = rng.randrange(len(qm))
                # a source on the OTHER pool
                srcs = [('q', i) for i in range(len(qm)) if qm[i] != qm[dst]] + \
                       [('s', j) for j in range(len(sm)) if sm[j] != qm[dst]]
                kind, src = rng.choice(srcs)
                bs_s, bs_d = bsof[(qm if kind == 'q' else sm)[src]], bsof[qm[dst]]
                n = rng.choice([bs_s, 2 * bs_s, 3 * bs_s, bs_s + 1, 2 * bs_s + 1, 2 * bs_d, bs_s * bs_d, rng.randrange(1, 4 * max(bs_s, bs_d))])
                if kind == 'q':
                    g.ops.append('qw:%d:%s' % (src, hx(g.data(n)))); g.q[src] += n
                    g.ops.append('qm:%d:%d' % (dst, src)); g.q[dst] += g.q[src]; g.q[src] = 0
                else:
                    g.ops.append('sw:%d:%s' % (src, hx(g.data(n)))); g.s[src] += n
                    g.ops.append('sm:%d:%d' % (src, dst)); g.q[dst] += g.s[src]; g.s[src] = 0
                # consume on the destination: the foreign blocks land on the destination pool's free list
                g.ops.append('%s:%d:%d' % (rng.choice(['qr', 'qp', 'qs']), dst, rng.choice([g.q[dst], g.q[dst], g.q[dst] + 1, max(0, g.q[dst] - 1)])))
                g.q[dst] = 0 if g.ops[-1].endswith(':%d' % g.q[dst]) or g.ops[-1].endswith(':%d' % (g.q[dst] + 1)) else min(g.q[dst], 1)
                # now write on the destination with lengths aimed at both block sizes, and read it all back
                for _ in range(rng.randrange(1, 4)):
                    m = rng.choice([bs_d, 2 * bs_d, 3 * bs_d, bs_d + 1, 2 * bs_d + 1, bs_s, 2 * bs_s, 3 * bs_s, 2 * bs_s + 1,
                                    bs_s + bs_d, rng.randrange(1, 4 * max(bs_s, bs_d) + 2)])
                    g.ops.append('qw:%d:%s' % (dst, hx(g.data(m)))); g.q[dst] += m
                    if rng.random() < 0.3:
                        g.ops.append('qk:%d:%d' % (dst, g.q[dst]))
                g.ops.append('qr:%d:%d' % (dst, g.q[dst] + 1)); g.q[dst] = 0
        else:
            n = rng.choice([6, 12, 25])
            tries = 0
            while len(g.ops) < n and tries < 4 * n:
                tries += 1
                g.bs = rng.choice([bsa, bsb])
                g.emit(rng.choice(ckinds))
        if not g.ops:
            g.ops.append('qw:0:' + hx(g.data(bsa + bsb)))
        yield 'Ccross-%s %d %d %s %s %s' % (fam, bsa, bsb, qm, sm, ' '.join(g.ops))


def tcases(rng, count, threads, reps):
    """several threads, each running the history `reps` times on its own default-constructed IOQueue / IOStack"""
    # 'sd' = delete the default-constructed stack (and with it its private pool), then a new IOStack()
    kinds = ['qw', 'qw', 'sw', 'sw', 'qr', 'qs', 'qk', 'qp', 'sr', 'ss', 'sp', 'sd', 'qc', 'sm', 'qw', 'sw', 'qd', 'sD']
    for _ in range(count):
        g = Gen(rng, 1024, 1, 1)
        g.wlen = lambda: rng.choice([1, 3, 100, 1023, 1024, 1025, 2048, 2049, 2500, rng.randrange(1, 3000)])
        n = rng.choice([4, 8, 14])
        tries = 0
        while len(g.ops) < n and tries < 4 * n:
            tries += 1
            g.emit(rng.choice(kinds))
        if not any(t[:2] in ('qw', 'sw') for t in g.ops):
            g.ops.insert(0, 'qw:0:' + hx(g.data(1500)))
        yield 'Tthreads %d %d %s' % (threads, reps, ' '.join(g.ops))


def ycases(rng, count):
    """NonBlockingSender whose output buffer (queue 0) is on one pool, messages built on stacks / queues of the
    other pool (and of its own), scripted partial writes; plus stream round trips on foreign-pool queues"""
    pairs = [(1, 2), (2, 1), (4, 8), (8, 4), (2, 3), (3, 2), (1, 4), (4, 1), (3, 8), (8, 3), (4, 4)]
    for _ in range(count):
        bsa, bsb = rng.choice(pairs)
        qm = rng.choice(['AB', 'AB', 'BA', 'ABB', 'AAB', 'BAB'])
        sm = rng.choice(['B', 'A', 'AB', 'BA'])
        mx = rng.choice([1, bsa + bsb, 10, 1024, 4294967295])
        g = XGen(rng, bsa, len(qm), len(sm), mx)
        for _ in range(rng.randrange(1, 6)):
            for _ in range(rng.randrange(0, 3)):
                g.bs = rng.choice([bsa, bsb])
                g.xemit(rng.choice(['sw', 'sb', 'qw', 'qb', 'sw']))
            g.xemit(rng.choice(['xs', 'xs', 'xq', 'xl']))
            for _ in range(rng.randrange(0, 3)):
                g.bs = rng.choice([bsa, bsb])
                g.xemit(rng.choice(['xw', 'xw', 'xe', 'xl', 'qi', 'qd', 'sD', 'qr', 'sm', 'qm']))
        while g.q[0] > 0 and rng.random() < 0.7 and len(g.ops) < 60:
            g.xemit('xw')
        yield 'Ysnd2 %d %d %s %s %d %s' % (bsa, bsb, qm, sm, mx, ' '.join(g.ops))


def samepool(rng, count):
    """two pools, Purge included, moves only between buffers of the same pool: per-pool accounting must be exact"""
    for _ in range(count):
        bsa, bsb = rng.choice([(1, 2), (2, 1), (4, 8), (2, 3), (3, 2), (4, 4), (1, 4)])
        qm = rng.choice(['AAB', 'ABB', 'AABB', 'AB'])
        sm = rng.choice(['A', 'B', 'AB'])
        g = Gen(rng, bsa, len(qm), len(sm))
        n = rng.choice([6, 12, 25])
        tries = 0
        while len(g.ops) < n and tries < 6 * n:
            tries += 1
            g.bs = rng.choice([bsa, bsb])
            k = rng.choice(['qw', 'qw', 'sw', 'qr', 'qs', 'qp', 'qk', 'sr', 'sp', 'qc', 'sd', 'pg', 'pg', 'qm', 'sm', 'qd', 'sD', 'qb'])
            before = len(g.ops)
            g.emit(k)
            if len(g.ops) > before and k in ('qm', 'sm'):
                t = g.ops[-1].split(':')
                a, b = int(t[1]), int(t[2])
                same = (qm[a] == qm[b]) if k == 'qm' else (sm[a] == qm[b])
                if not same:
                    # undo: the generator's size tracking was updated by emit, redo it by hand
                    g.ops.pop()
                    if k == 'qm':
                        g.q[b] = 0  # conservative: sizes are only used to aim lengths
                    else:
                        g.s[a] = 0
        if not g.ops:
            g.ops.append('qw:0:' + hx(g.data(bsa + bsb)))
        yield 'Csamepool %d %d %s %s %s' % (bsa, bsb, qm, sm, ' '.join(g.ops))


def bigcases():
    """buffers spread over more than IOV_MAX (1024) blocks: AsIOVec must still export everything"""
    pat = lambda n: hx([(7 * k + (k >> 8)) & 255 for k in range(n)])
    for bs, blocks in [(1, 1023), (1, 1024), (1, 1025), (4, 1025), (1, 3000), (4, 3000)]:
        n = bs * blocks
        yield 'big-q-bs%d-%d %d 2 1 qw:0:%s qk:0:%d qr:0:1 qp:0:%d qs:0:3 qw:1:%s qm:1:0 qr:1:%d' % (
            bs, blocks, bs, pat(n), n, bs, hx([1, 2, 3]), n + 3)
        yield 'big-s-bs%d-%d %d 2 1 sw:0:%s sr:0:1 sp:0:%d ss:0:2 sm:0:0 qr:0:%d' % (bs, blocks, bs, pat(n), bs, n)
        if blocks >= 1025:
            # the interposed writev accepts everything it is offered (a real kernel answers EINVAL to more than
            # IOV_MAX entries, which is the scripted-error path 'xe' of other cases)
            yield 'Xbig-snd-bs%d-%d %d 2 1 1000000 sw:0:%s xs:0 xw:%d xw:%d qw:1:%s xq:1 xw:5 xw:%d' % (
                bs, blocks, bs, pat(n), 100000, 100000, pat(n), 100000)


KINDS = ['qd', 'sD', 'pq', 'ps', 'qw', 'qw', 'qw', 'qb', 'qr', 'qr', 'qs', 'qs', 'qk', 'qp', 'qc', 'qm', 'pg',
         'sw', 'sw', 'sw', 'sb', 'sr', 'ss', 'sp', 'sm', 'sm', 'sd']


def exhaustive(bs, depth):
    """every history of `depth` ops over a boundary alphabet, one queue + one stack (+ a second queue)"""
    d = lambda n, base: hx([(base + k) & 255 for k in range(n)])
    wl = sorted({0, 1, bs, bs + 1})
    rl = sorted({0, 1, bs, bs + 1})
    alpha = []
    for n in wl:
        alpha += ['qw:0:' + d(n, 0x10), 'sw:0:' + d(n, 0x40)]
    for n in rl:
        alpha += ['qr:0:%d' % n, 'qs:0:%d' % n, 'sr:0:%d' % n, 'ss:0:%d' % n]
    alpha += ['qp:0:1', 'sp:0:1', 'qk:0:%d' % (bs + 1), 'qc:0', 'sd:0', 'sm:0:0', 'qm:1:0', 'qm:0:1',
              'qw:1:' + d(1, 0x70), 'pg']
    for seq in itertools.product(alpha, repeat=depth):
        # histories that never write are covered at depth 1/2; skip them deeper
        if depth > 2 and not any(t[1] == 'w' and not t.endswith(':-') for t in seq):
            continue
        yield 'exh%d-bs%d %d 2 1 %s' % (depth, bs, bs, ' '.join(seq))


def scenarios(rng, count):
    for _ in range(count):
        bs = rng.choice([1, 2, 3, 4, 4, 5, 8])
        fam = rng.choice(['reuse', 'strread', 'zerowrite', 'move', 'stackq', 'fill'])
        g = Gen(rng, bs, 2, 1)
        if fam == 'reuse':
            # fill, release non-empty blocks (Clear / destructor), then reuse them with fewer bytes
            g.emit(rng.choice(['qw', 'sw'])); g.emit(rng.choice(['qw', 'sw', 'qr']))
            g.emit(rng.choice(['qc', 'sd'])); g.emit(rng.choice(['qc', 'sd', 'qw']))
            for _ in range(rng.randrange(2, 6)):
                g.emit(rng.choice(['qw', 'qw', 'sw', 'qr', 'qk', 'qs']))
        elif fam == 'strread':
            for _ in range(rng.randrange(2, 8)):
                g.emit(rng.choice(['qw', 'sw', 'qs', 'ss', 'qs', 'ss', 'qr', 'sr']))
        elif fam == 'zerowrite':
            for _ in range(rng.randrange(1, 6)):
                k = rng.choice(['z', 'z', 'qw', 'sw', 'qr', 'sr', 'sm', 'qm', 'qp'])
                if k == 'z':
                    g.ops.append(rng.choice(['qw:0:-', 'qw:1:-', 'sw:0:-']))
                else:
                    g.emit(k)
        elif fam == 'move':
            for _ in range(rng.randrange(3, 12)):
                g.emit(rng.choice(['qw', 'sw', 'sm', 'qm', 'qm', 'sm', 'qr', 'qw', 'qp', 'qk']))
        elif fam == 'stackq':
            # the NonBlockingSender pattern: build on a stack, move to the queue, drain the queue
            for _ in range(rng.randrange(1, 4)):
                for _ in range(rng.randrange(1, 4)):
                    g.emit(rng.choice(['sw', 'sb']))
                g.ops.append('sm:0:0'); g.q[0] += g.s[0]; g.s[0] = 0
                g.emit(rng.choice(['qp', 'qr', 'qw', 'qk']))
        else:
            # exactly fill blocks, then read them back in pieces around the block boundary
            for _ in range(rng.randrange(1, 4)):
                n = rng.choice([bs, 2 * bs, bs - 1, bs + 1])
                g.q[0] += max(n, 0)
                g.ops.append('qw:0:' + hx(g.data(max(n, 0))))
                for _ in range(rng.randrange(1, 4)):
                    g.emit(rng.choice(['qr', 'qp', 'qk', 'qs']))
        yield g.payload('scen-' + fam)


def gen_cases(rng, tier):
    quick = tier == 'quick'
    for bs in ([2] if quick else [1, 2, 3]):
        for depth in ((1, 2, 3) if quick else (1, 2, 3)):
            for c in exhaustive(bs, depth):
                yield c
    if not quick:
        # depth 4 over the full alphabet is 30^4; sample it
        pool4 = itertools.islice(exhaustive(2, 4), 0, None, 11)
        for c in pool4:
            yield c
    for c in scenarios(rng, 1500 if quick else 40000):
        yield c
    for c in bigcases():
        yield c
    for c in tcases(rng, 24 if quick else 150, 4, 40 if quick else 60):
        yield c
    for c in ccases(rng, 2500 if quick else 60000):
        yield c
    for c in samepool(rng, 1200 if quick else 30000):
        yield c
    for c in ycases(rng, 2000 if quick else 50000):
        yield c
    for c in xcases(rng, 4000 if quick else 100000):
        yield c
    for _ in range(3000 if quick else 120000):
        bs = rng.choice([1, 2, 3, 4, 5, 6, 7, 8])
        nq = rng.choice([1, 2, 2, 3])
        ns = rng.choice([0, 1, 1, 2])
        g = Gen(rng, bs, nq, ns)
        n = rng.choice([3, 6, 10, 20, 40])
        tries = 0
        while len(g.ops) < n and tries < 4 * n:
            tries += 1
            g.emit(rng.choice(KINDS))
        if not g.ops:
            g.ops.append('qw:0:' + hx(g.data(bs + 1)))
        yield g.payload('rand-bs%d' % bs)


def nontrivial(payload, md):
    ext = payload[0] in 'XC'
    toks = payload.split()[3 if payload[0] == 'T' else 6 if payload[0] == 'Y' else 5 if ext else 4:]
    wrote = any(t[:2] in ('qw', 'sw') and not t.endswith(':-') or t[:2] in ('qb', 'sb') for t in toks)
    if ext and not any(t[:2] == 'mb' for t in toks):
        # sender / stream histories: bytes written AND bytes that came out (descriptor, read or stream)
        pass
    got = False
    for k, v in md.items():
        if k[0] == 'o' and k[1:].isdigit():
            r = v.split('/', 1)[0]
            if r not in ('.', '-', 'T', 'F', 'ERR', 'short'):
                got = True
    return wrote and got
