// C12 correspondence harness: the real QueueingRDMController / DiscoverableQueueingRDMController over
// a scripted mock underlying controller that counts concurrently outstanding calls; user callbacks
// execute scripted follow-up operations (re-entrancy).  Payload format: see prop.py.
#include <stdint.h>
#include <algorithm>
#include <deque>
#include <map>
#include <memory>
#include <queue>
#include <set>
#include <sstream>
#include <string>
#include <utility>
#include <vector>
#define private public
#define protected public
#include "ola/rdm/QueueingRDMController.h"
#undef private
#undef protected
#include "ola/Callback.h"
#include "ola/Logging.h"
#include "ola/rdm/RDMCommand.h"
#include "ola/rdm/RDMControllerInterface.h"
#include "ola/rdm/RDMReply.h"
#include "ola/rdm/UID.h"
#include "ola/rdm/UIDSet.h"
#include "vh.h"

using namespace ola::rdm;  // NOLINT
using std::string;
using std::vector;

struct Reply { int st, ty, src, cc, mc, fill, len, fr; };
struct Op { char kind; vector<Op> cb; Reply r; };
struct MItem { bool sync; Reply r; };

static Reply parse_reply(const string &s) {
  vector<string> f = vh::split(s, '.');
  Reply r = {(int)vh::num(f[0]), (int)vh::num(f[1]), (int)vh::num(f[2]), (int)vh::num(f[3]),
             (int)vh::num(f[4]), (int)vh::num(f[5]), (int)vh::num(f[6]), (int)vh::num(f[7])};
  return r;
}
static vector<Op> parse_ops(const string &s, size_t *pos) {
  vector<Op> out;
  while (*pos < s.size() && s[*pos] != ')') {
    Op o; o.kind = s[(*pos)++];
    if (o.kind == 'S' || o.kind == 'F' || o.kind == 'I') {
      (*pos)++;
      o.cb = parse_ops(s, pos);
      (*pos)++;
    } else if (o.kind == 'D') {
      size_t e = s.find(';', *pos);
      o.r = parse_reply(s.substr(*pos, e - *pos));
      *pos = e + 1;
    }
    out.push_back(o);
  }
  return out;
}

static string rle(const uint8_t *d, unsigned n) {
  if (n == 0) return "e";
  std::ostringstream o;
  unsigned cur = d[0], cnt = 1;
  for (unsigned i = 1; i < n; i++) {
    if (d[i] == cur) { cnt++; } else { o << cur << "x" << cnt << "_"; cur = d[i]; cnt = 1; }
  }
  o << cur << "x" << cnt;
  return o.str();
}

class Mock;
struct World {
  QueueingRDMController *ctl;
  DiscoverableQueueingRDMController *dctl;
  Mock *mock;
  bool discov, paused, destroying;
  unsigned max;
  int next_id, next_did;
  int open;                       // accepted and not yet completed (harness' own count)
  vector<int> in_submit;          // ids whose SendRDMRequest call is on the stack
  std::set<int> dispatched;       // ids seen by the mock
  std::map<int, int> completions; // id -> count
  std::map<int, vector<uint8_t> > given;  // id -> data of every response the mock gave for it
  vector<int> accepted_done;      // ids of non-rejected completions in order
  vector<string> trace;
  vector<string> comps;           // property level: every completion (id:kind:status:type:data) in order
  unsigned conc, ps, dup, bad, rj, ddup;
  int cur_run;
  std::map<int, bool> ask_full, run_full, run_or;   // discovery: did -> asked full; run -> flag used / OR of asks served
  std::map<int, int> disc_done;
  std::set<int> null_ids;                     // requests submitted with a NULL callback
  bool rj_off;
  vector<int> pending_null;                   // NULL-callback requests not yet taken by a run
  std::map<int, vector<int> > run_nulls;      // run -> NULL-callback requests it took (all waiting at its start)
};
static World *W;
static void exec_ops(const vector<Op> &ops);

class Mock : public DiscoverableRDMControllerInterface {
 public:
  std::deque<std::pair<int, RDMCallback*> > out;
  std::deque<std::pair<int, RDMDiscoveryCallback*> > dout;
  std::deque<MItem> script;
  std::deque<bool> dscript;
  int nrun;
  Mock() : nrun(0) {}

  void NoteCall(const string &ev) {
    W->trace.push_back(ev);
    W->conc = std::max<unsigned>(W->conc, out.size() + dout.size());
    if (W->paused) W->ps++;
  }
  void SendRDMRequest(RDMRequest *request, RDMCallback *on_complete) {
    int id = request->ParamId();
    delete request;
    out.push_back(std::make_pair(id, on_complete));
    W->dispatched.insert(id);
    NoteCall("S" + vh::str(id));
    if (!script.empty()) {
      MItem it = script.front();
      script.pop_front();
      if (it.sync) Deliver(it.r);
    }
  }
  void Deliver(const Reply &r) {
    if (out.empty()) return;
    int id = out.front().first;
    RDMCallback *cb = out.front().second;
    out.pop_front();
    RDMFrames frames;
    uint8_t fd[2] = {0xcc, 1};
    for (int i = 0; i < r.fr; i++) frames.push_back(RDMFrame(fd, 2));
    RDMResponse *resp = NULL;
    if (r.ty != 9) {
      // the id of the answered request goes in front of the data, unless there is no data at all
      // (e.g. the empty last frame of an ACK_OVERFLOW sequence)
      vector<uint8_t> d;
      if (r.len > 0) { d.assign(1 + r.len, (uint8_t) r.fill); d[0] = (uint8_t) id; }
      // PID, destination UID, transaction number and sub-device vary with the fill byte so that the
      // parts of a sequence differ in them
      resp = new RDMResponse(UID(1, r.src), UID(2, 2 + r.fill % 3), r.fill % 5, r.ty, r.mc, r.fill % 4,
                             static_cast<RDMCommand::RDMCommandClass>(r.cc), 100 + r.fill % 7,
                             d.empty() ? NULL : d.data(), d.size());
      vector<uint8_t> &g = W->given[id];
      g.insert(g.end(), d.begin(), d.end());
    }
    RDMReply reply(static_cast<RDMStatusCode>(r.st), resp, frames);
    cb->Run(&reply);
  }
  void StartDisc(bool full, RDMDiscoveryCallback *cb) {
    int run = nrun++;
    W->run_full[run] = full;
    W->run_nulls[run].swap(W->pending_null);
    dout.push_back(std::make_pair(run, cb));
    NoteCall(full ? "X1" : "X0");
    if (!dscript.empty()) {
      bool sync = dscript.front();
      dscript.pop_front();
      if (sync) DeliverDisc();
    }
  }
  void RunFullDiscovery(RDMDiscoveryCallback *cb) { StartDisc(true, cb); }
  void RunIncrementalDiscovery(RDMDiscoveryCallback *cb) { StartDisc(false, cb); }
  void DeliverDisc() {
    if (dout.empty()) return;
    int run = dout.front().first;
    RDMDiscoveryCallback *cb = dout.front().second;
    dout.pop_front();
    int saved = W->cur_run;
    W->cur_run = run;
    UIDSet uids;
    uids.AddUID(UID(1, run));
    cb->Run(uids);
    // the NULL-callback requests this run took are satisfied by its completion
    vector<int> &nulls = W->run_nulls[run];
    for (size_t k = 0; k < nulls.size(); k++) {
      if (W->disc_done[nulls[k]]++ > 0) W->ddup++;
      W->run_or[run] = W->run_or[run] || W->ask_full[nulls[k]];
    }
    nulls.clear();
    W->cur_run = saved;
  }
};

struct ReqCtx { int id; const vector<Op> *cb; bool expect_reject; };
struct DiscCtx { int did; const vector<Op> *cb; };

static void OnComplete(ReqCtx *ctx, RDMReply *reply) {
  int id = ctx->id;
  const vector<Op> *cb = ctx->cb;
  bool in_own_submit = std::find(W->in_submit.begin(), W->in_submit.end(), id) != W->in_submit.end();
  int kind = 0;
  if (in_own_submit && !W->dispatched.count(id) &&
      reply->StatusCode() == RDM_FAILED_TO_SEND && reply->Response() == NULL) {
    kind = 1;     // rejected inside its own SendRDMRequest call
  } else if (W->destroying) {
    kind = 2;     // failed by the destructor
  }
  if ((kind == 1) != ctx->expect_reject) W->rj++;
  delete ctx;
  if (W->completions[id]++ > 0) W->dup++; else if (kind != 1) W->open--;
  if (kind != 1) W->accepted_done.push_back(id);
  std::ostringstream o;
  o << "C" << id << ":" << kind << ":" << static_cast<int>(reply->StatusCode()) << ":";
  const RDMResponse *rs = reply->Response();
  if (rs) {
    o << static_cast<int>(rs->ResponseType()) << "." << rs->SourceUID().DeviceId() << "."
      << static_cast<int>(rs->CommandClass()) << "." << static_cast<int>(rs->MessageCount()) << "."
      << rle(rs->ParamData(), rs->ParamDataSize());
    const vector<uint8_t> &g = W->given[id];
    if (g.size() != rs->ParamDataSize() ||
        (g.size() && memcmp(g.data(), rs->ParamData(), g.size()) != 0))
      W->bad++;
  } else {
    o << "n";
  }
  {
    std::ostringstream c;
    c << id << ":" << kind << ":" << static_cast<int>(reply->StatusCode()) << ":";
    if (rs) c << static_cast<int>(rs->ResponseType()) << "." << rs->SourceUID().DeviceId() << "."
              << static_cast<int>(rs->CommandClass()) << "." << static_cast<int>(rs->MessageCount()) << "."
              << rs->ParamId() << "." << rs->DestinationUID().DeviceId() << "."
              << static_cast<int>(rs->TransactionNumber()) << "." << rs->SubDevice() << ":"
              << rle(rs->ParamData(), rs->ParamDataSize());
    else c << "n";
    W->comps.push_back(c.str());
  }
  o << ":f" << reply->Frames().size();
  W->trace.push_back(o.str());
  exec_ops(*cb);   // completion callbacks are live, also when run by the destructor
}

static void OnDisc(DiscCtx *ctx, const UIDSet &uids) {
  int did = ctx->did;
  const vector<Op> *cb = ctx->cb;
  delete ctx;
  W->trace.push_back("K" + vh::str(did) + "@" + vh::str(W->cur_run));
  if (W->disc_done[did]++ > 0) W->ddup++;
  W->run_or[W->cur_run] = W->run_or[W->cur_run] || W->ask_full[did];
  exec_ops(*cb);
}

static void exec_op(const Op &o) {
  switch (o.kind) {
    case 'P': W->paused = true; W->ctl->Pause(); break;
    case 'R': W->paused = false; W->ctl->Resume(); break;
    case 's': {   // SendRDMRequest with a NULL on_complete: completes unobserved
      int id = W->next_id++;
      W->null_ids.insert(id);
      W->rj_off = true;   // the harness cannot count what it cannot see complete
      W->ctl->SendRDMRequest(new RDMGetRequest(UID(2, 2), UID(1, 1), 0, 1, 0, id, NULL, 0), NULL);
      break;
    }
    case 'S': {
      int id = W->next_id++;
      ReqCtx *ctx = new ReqCtx;
      ctx->id = id; ctx->cb = &o.cb;
      ctx->expect_reject = W->open >= static_cast<int>(W->max);
      bool expect = ctx->expect_reject;
      if (!expect) W->open++;
      W->in_submit.push_back(id);
      unsigned before = W->completions.count(id) ? W->completions[id] : 0;
      W->ctl->SendRDMRequest(
          new RDMGetRequest(UID(2, 2), UID(1, 1), 0, 1, 0, id, NULL, 0),
          ola::NewSingleCallback(&OnComplete, ctx));
      W->in_submit.erase(std::find(W->in_submit.begin(), W->in_submit.end(), id));
      // a request that had to be rejected must have completed inside the call
      if (expect && (W->completions.count(id) ? W->completions[id] : 0) == before) W->rj++;
      break;
    }
    case 'f': case 'i': {   // discovery with a NULL callback (what olad's periodic discovery does)
      if (!W->discov || W->destroying) break;
      int did = W->next_did++;
      W->ask_full[did] = (o.kind == 'f');
      W->pending_null.push_back(did);
      if (o.kind == 'f') W->dctl->RunFullDiscovery(NULL);
      else W->dctl->RunIncrementalDiscovery(NULL);
      break;
    }
    case 'F': case 'I': {
      if (!W->discov || W->destroying) break;   // the derived part of a dying object is gone
      DiscCtx *ctx = new DiscCtx;
      ctx->did = W->next_did++; ctx->cb = &o.cb;
      W->ask_full[ctx->did] = (o.kind == 'F');
      if (o.kind == 'F')
        W->dctl->RunFullDiscovery(ola::NewSingleCallback(&OnDisc, ctx));
      else
        W->dctl->RunIncrementalDiscovery(ola::NewSingleCallback(&OnDisc, ctx));
      break;
    }
    // the underlying controller does not answer a controller that is being destroyed
    case 'D': if (!W->destroying) W->mock->Deliver(o.r); break;
    case 'E': if (!W->destroying) W->mock->DeliverDisc(); break;
  }
}
static void exec_ops(const vector<Op> &ops) {
  for (size_t i = 0; i < ops.size(); i++) exec_op(ops[i]);
}

static string join(const vector<string> &v, const char *sep, const char *empty) {
  if (v.empty()) return empty;
  string s;
  for (size_t i = 0; i < v.size(); i++) { if (i) s += sep; s += v[i]; }
  return s;
}

static string handle(const string &p) {
  vector<string> a = vh::split(p);
  if (a.size() != 5) return "bad-payload";
  World w;
  W = &w;
  Mock mock;
  w.mock = &mock;
  w.max = vh::num(a[0]);
  w.discov = a[1] == "1";
  w.paused = w.destroying = false;
  w.next_id = w.next_did = 0; w.open = 0;
  w.conc = w.ps = w.dup = w.bad = w.rj = w.ddup = 0; w.rj_off = false; w.cur_run = -1;
  if (a[2] != "-") {
    vector<string> items = vh::split(a[2], ',');
    for (size_t i = 0; i < items.size(); i++) {
      MItem it; it.sync = items[i][0] == 'Y';
      if (it.sync) it.r = parse_reply(items[i].substr(1));
      mock.script.push_back(it);
    }
  }
  if (a[3] != "-") for (size_t i = 0; i < a[3].size(); i++) mock.dscript.push_back(a[3][i] == '1');
  vector<Op> ops;
  if (a[4] != "-") { size_t pos = 0; ops = parse_ops(a[4], &pos); }
  w.dctl = NULL;
  if (w.discov) {
    w.dctl = new DiscoverableQueueingRDMController(&mock, w.max);
    w.ctl = w.dctl;
  } else {
    w.ctl = new QueueingRDMController(&mock, w.max);
  }
  vector<string> traces, ints;
  for (size_t i = 0; i < ops.size(); i++) {
    w.trace.clear();
    exec_op(ops[i]);
    traces.push_back(join(w.trace, ",", "."));
    std::ostringstream o;
    o << (w.ctl->m_rdm_request_pending ? 1 : 0) << "." << (w.ctl->m_active ? 1 : 0) << "."
      << w.ctl->m_pending_requests.size() << "." << (w.ctl->m_response.get() ? 1 : 0) << "."
      << w.ctl->m_frames.size() << "."
      << (w.dctl ? w.dctl->m_pending_discovery_callbacks.size() : 0) << "."
      << (w.dctl ? w.dctl->m_discovery_callbacks.size() : 0);
    ints.push_back(o.str());
  }
  w.trace.clear();
  w.destroying = true;
  delete w.ctl;
  traces.push_back(join(w.trace, ",", "."));
  bool sorted = true;
  for (size_t i = 1; i < w.accepted_done.size(); i++)
    if (!(w.accepted_done[i - 1] < w.accepted_done[i])) sorted = false;
  unsigned lost = 0;
  for (int id = 0; id < w.next_id; id++)
    if (!w.null_ids.count(id) && (!w.completions.count(id) || w.completions[id] == 0)) lost++;
  // discovery coalescing: a run that served requests was full iff one of them asked for full;
  // no discovery callback ran twice
  unsigned dv = w.ddup;
  for (std::map<int, bool>::iterator it = w.run_or.begin(); it != w.run_or.end(); ++it)
    if (w.run_full[it->first] != it->second) dv++;
  std::ostringstream o;
  o << "t=" << join(traces, "/", "") << ";i=" << join(ints, "/", "") << ";conc=" << w.conc
    << ";ps=" << w.ps << ";dup=" << w.dup << ";ooo=" << (sorted ? 0 : 1) << ";bad=" << w.bad
    << ";lost=" << lost << ";rj=" << (w.rj_off ? 0 : w.rj) << ";dv=" << dv
    << ";comp=" << join(w.comps, ",", ".");
  W = NULL;
  return o.str();
}

int main(int argc, char **argv) {
  ola::InitLogging(ola::OLA_LOG_NONE, ola::OLA_LOG_NULL);
  return vh::run(argc, argv, handle);
}
