(* C12 model driver.  payload: "<max> <discov01> <mscript> <dscript> <ops>"  (see prop.py) *)
let rec repeat x n = if n <= 0 then [] else x :: repeat x (n - 1)
let parse_reply (s : string) : reply =
  match List.map ios (String.split_on_char '.' s) with
  | [st; ty; src; cc; mc; fill; ln; fr] ->
    { r_status = n_of_int st;
      r_resp = (if ty = 9 then None else
                  Some { rs_type = n_of_int ty; rs_src = n_of_int src; rs_cc = n_of_int cc;
                         rs_mc = n_of_int mc; rs_data = repeat (n_of_int fill) ln;
                         rs_hdr = (((n_of_int (100 + fill mod 7), n_of_int (2 + fill mod 3)),
                                    n_of_int (fill mod 5)), n_of_int (fill mod 4)) });
      r_frames = n_of_int fr }
  | _ -> failwith "bad reply"
(* ops grammar: P R E f i S(ops) F(ops) I(ops) D<reply>;   (f / i: discovery with a NULL callback) *)
let parse_ops (s : string) : op list =
  let n = String.length s in
  let pos = ref 0 in
  let rec ops () : op list =
    if !pos >= n || s.[!pos] = ')' then [] else begin
      let c = s.[!pos] in
      incr pos;
      let o = match c with
        | 'P' -> Pause | 'R' -> Resume | 'E' -> DeliverDisc
        | 'f' -> Disc (true, true, []) | 'i' -> Disc (false, true, [])
        | 's' -> Submit (true, [])
        | 'S' | 'F' | 'I' ->
          incr pos; (* '(' *)
          let cb = ops () in
          incr pos; (* ')' *)
          (match c with 'S' -> Submit (false, cb) | 'F' -> Disc (true, false, cb) | _ -> Disc (false, false, cb))
        | 'D' ->
          let e = String.index_from s !pos ';' in
          let r = parse_reply (String.sub s !pos (e - !pos)) in
          pos := e + 1; Deliver r
        | _ -> failwith "bad op" in
      let rest = ops () in
      o :: rest
    end in
  if s = "-" then [] else ops ()
let parse_ms (s : string) : mitem list =
  if s = "-" then [] else
    List.map (fun it -> if it = "L" then Later else Sync (parse_reply (String.sub it 1 (String.length it - 1))))
      (String.split_on_char ',' s)
let parse_ds (s : string) : bool list =
  if s = "-" then [] else List.init (String.length s) (fun i -> s.[i] = '1')

let rle (l : n list) : string =
  match List.map int_of_n l with
  | [] -> "e"
  | x :: r ->
    let b = Buffer.create 32 in
    let cur = ref x and cnt = ref 1 in
    let flush () = Buffer.add_string b (Printf.sprintf "%dx%d" !cur !cnt) in
    List.iter (fun y -> if y = !cur then incr cnt else (flush (); Buffer.add_char b '_'; cur := y; cnt := 1)) r;
    flush (); Buffer.contents b
let resp_s (r : reply) =
  match r.r_resp with
  | None -> "n"
  | Some rs -> Printf.sprintf "%d.%d.%d.%d.%s" (int_of_n rs.rs_type) (int_of_n rs.rs_src)
                 (int_of_n rs.rs_cc) (int_of_n rs.rs_mc) (rle rs.rs_data)
let ev_s (e : tev) =
  match e with
  | TSend id -> Printf.sprintf "S%d" (int_of_n id)
  | TDisc full -> if full then "X1" else "X0"
  | TComp c -> Printf.sprintf "C%d:%d:%d:%s:f%d" (int_of_n c.c_id) (int_of_n c.c_kind)
                 (int_of_n c.c_reply.r_status) (resp_s c.c_reply) (int_of_n c.c_reply.r_frames)
  | TDiscCb (did, run) -> Printf.sprintf "K%d@%d" (int_of_n did) (int_of_n run)
let comp_s (c : comp) =
  Printf.sprintf "%d:%d:%d:%s" (int_of_n c.c_id) (int_of_n c.c_kind) (int_of_n c.c_reply.r_status)
    (match c.c_reply.r_resp with None -> "n"
     | Some rs ->
       let (((pid, dst), tn), sub) = rs.rs_hdr in
       Printf.sprintf "%d.%d.%d.%d.%d.%d.%d.%d:%s" (int_of_n rs.rs_type) (int_of_n rs.rs_src) (int_of_n rs.rs_cc)
         (int_of_n rs.rs_mc) (int_of_n pid) (int_of_n dst) (int_of_n tn) (int_of_n sub) (rle rs.rs_data))
let comps_s (l : comp list) = match l with [] -> "." | _ -> String.concat "," (List.map comp_s l)
let trace_s (s : st) = match s.g_trace with [] -> "." | l -> String.concat "," (List.map ev_s l)
let int_s (s : st) =
  Printf.sprintf "%s.%s.%d.%s.%d.%d.%d" (bool01 s.s_pending) (bool01 s.s_active) (List.length s.s_queue)
    (bool01 (s.s_resp <> None)) (int_of_n s.s_nframes) (List.length s.s_pdisc) (List.length s.s_rdisc)

let count_ops (l : op list) =
  let rec go d l = List.fold_left (fun (n, re, dl) o ->
      match o with
      | Submit (_, cb) | Disc (_, _, cb) -> let (n', re', dl') = go (d + 1) cb in (n + 1 + n', re || re' || (d > 0), dl || dl')
      | Deliver _ | DeliverDisc -> (n + 1, re, dl || d > 0)
      | _ -> (n + 1, re || (d > 0), dl)) (0, false, false) l in
  go 0 l

let handle (p : string) : string =
  match split p with
  | [mx; dv; ms; ds; ops] ->
    let ops = parse_ops ops in
    let mscript = parse_ms ms in
    let s0 = init (n_of_int (ios mx)) (dv = "1") mscript (parse_ds ds) in
    let tr = ref [] and it = ref [] in
    let oof = ref false in
    let s = List.fold_left (fun s o ->
        if !oof then s else
          match exec_op s o with
          | None -> oof := true; s
          | Some s' -> tr := trace_s s' :: !tr; it := int_s s' :: !it; s') s0 ops in
    let sawresp = s.s_resp <> None in
    let fin = match destroy_run s with Some f -> f | None -> (oof := true; s) in
    tr := trace_s fin :: !tr;
    let done_ = fin.g_done in
    let ooo = if sorted_lt (accepted_ids done_) then 0 else 1 in
    let multi = List.exists (fun c -> List.length c.c_parts > 1) done_ in
    let err = List.exists (fun c -> int_of_n c.c_kind = 0 && c.c_reply.r_resp = None && int_of_n c.c_reply.r_frames >= 0
                                    && int_of_n c.c_reply.r_status <> 0) done_ in
    let rej = List.exists (fun c -> int_of_n c.c_kind = 1) done_ in
    let des = List.exists (fun c -> int_of_n c.c_kind = 2) done_ in
    let (nops, reent, _) = count_ops ops in
    let cls = Printf.sprintf "%s%s%s%s%s%s%s:%s"
        (if dv = "1" then "disc" else "base")
        (if reent then "+reent" else "") (if multi then "+ovf" else "") (if err then "+err" else "")
        (if rej then "+rej" else "") (if des then "+destroyed" else "")
        (if fin.g_runs <> [] then "+runs" else "")
        (if nops <= 5 then "short" else if nops <= 12 then "mid" else "long") in
    ignore sawresp;
    Printf.sprintf "t=%s;i=%s;conc=%d;ps=%d;dup=%d;ooo=%d;bad=%d;lost=%d;rj=%d;dv=%d;comp=%s%s%s;class=%s"
      (String.concat "/" (List.rev !tr)) (String.concat "/" (List.rev !it))
      (int_of_n fin.g_conc) (int_of_n fin.g_psends) (int_of_nat (dups done_)) ooo
      (int_of_nat (bad_data done_)) (int_of_nat (lost fin)) (int_of_n fin.g_rj) (int_of_nat (dv_of fin)) (comps_s (List.filter (fun c -> not (List.mem c.c_id fin.s_qnulls)) done_))
      (if !oof then ";oof=1" else "") (if fin.g_fatal then ";fatal=1" else "") cls
  | _ -> "bad-payload"
let () = vh_run handle
