(* C12: frame lemmas — what TakeNextAction and everything below it leave untouched. *)
From OlaBase Require Import Bytes.
From C12 Require Import Gen Model.
Local Open Scope N_scope.

Definition kframe (s s' : st) : Prop :=
  s_queue s' = s_queue s /\ s_resp s' = s_resp s /\ g_parts s' = g_parts s /\ g_from s' = g_from s /\
  g_done s' = g_done s /\ h_open s' = h_open s /\ g_rj s' = g_rj s /\ s_max s' = s_max s /\
  h_ndid s' = h_ndid s /\ g_ddone s' = g_ddone s /\ h_destroying s' = h_destroying s.

Lemma kframe_refl s : kframe s s.
Proof. unfold kframe; repeat split; reflexivity. Qed.

Lemma mock_send_kf id s ag s' ag' : mock_send id s ag = (s', ag') -> kframe s s'.
Proof.
  unfold mock_send, note_call, kframe. intros H. cbn in H.
  destruct (h_paused s); cbn in H; destruct (m_script s) as [|[r|] ms]; inversion H; subst; cbn;
    repeat split; reflexivity.
Qed.
Lemma maybe_send_kf s ag s' ag' : maybe_send s ag = (s', ag') -> kframe s s'.
Proof.
  unfold maybe_send. destruct (s_queue s) as [|[id cb] q] eqn:E; intros H.
  - inversion H; subst; apply kframe_refl.
  - apply mock_send_kf in H. unfold kframe in *. cbn in H. exact H.
Qed.
Lemma start_disc_kf s ag s' ag' : start_disc s ag = (s', ag') -> kframe s s'.
Proof.
  unfold start_disc, note_call, kframe. intros H. cbn in H.
  destruct (h_paused s); cbn in H; destruct (m_dscript s) as [|[|] ds]; inversion H; subst; cbn;
    repeat split; reflexivity.
Qed.
Lemma take_next_kf s ag s' ag' : take_next s ag = (s', ag') -> kframe s s'.
Proof.
  unfold take_next. intros H.
  destruct (negb (s_active s) || s_pending s || negb (is_nil (s_rdisc s))).
  - inversion H; subst; apply kframe_refl.
  - destruct (negb (is_nil (s_pdisc s))); [eapply start_disc_kf|eapply maybe_send_kf]; eauto.
Qed.
Lemma continue_overflow_kf s ag s' ag' : continue_overflow s ag = (s', ag') -> kframe s s'.
Proof.
  unfold continue_overflow. destruct (s_active s); intros H.
  - eapply maybe_send_kf; eauto.
  - inversion H; subst; apply kframe_refl.
Qed.
