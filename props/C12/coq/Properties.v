(* C12 — queued RDM requests complete exactly once, in order, one at a time.
   Only theorem statements; proofs are in ProofsT/B/C.v and Proofs.v.

   A history is a list of top-level operations (Model.op): Submit cb (cb = the operations the
   request's completion callback performs, recursively), Disc full cb, Pause, Resume, Deliver reply
   (the underlying controller answers later), DeliverDisc; together with the script of the mock
   underlying controller (per SendRDMRequest call: answer synchronously with a given reply, or later;
   per discovery run: finish synchronously or later), the queue limit and the controller class.
   `reachable max discov ms ds s ag` holds for every configuration (state s, call-stack agenda ag)
   that any such history can be in at any instant, inside re-entrant callbacks included.
   `run_history` runs a whole history and then destroys the controller. *)
From OlaBase Require Import Bytes.
From Coq Require Import Sorted.
From C12 Require Import Gen Model ProofsT ProofsB ProofsC Proofs.
Local Open Scope N_scope.

(* the constants the model and the statements below use are those of the headers *)
Theorem c12_consts :
  (RDM_COMPLETED_OK, RDM_FAILED_TO_SEND, RDM_INVALID_RESPONSE, RDM_ACK, ACK_OVERFLOW, MAX_OVERFLOW_SIZE,
   GET_COMMAND_RESPONSE, SET_COMMAND_RESPONSE) = (0, 2, 4, 0, 3, 4096, 33, 49).
Proof. reflexivity. Qed.
Print Assumptions c12_consts.

(* Every history, whatever the callbacks and the underlying controller do, runs to quiescence after
   every operation: the model never returns None (= OutOfFuel); every single step strictly decreases
   the measure used as fuel. *)
Theorem c12_total :
  (forall max discov ms ds h, run_history max discov ms ds h <> None) /\
  (forall s o, exec_op s o <> None) /\
  (forall s f ag s' ag', step s f ag = (s', ag') -> (measure s' ag' < measure s (f :: ag))%nat).
Proof.
  split; [exact run_history_total|]. split; [exact exec_op_total|exact step_decreases].
Qed.
Print Assumptions c12_total.

(* Exactly once, in order (partial: the clause "with its own reply" is not part of this theorem).
   After any history followed by destruction: every request ever submitted (ids 0 .. h_next-1, in
   submission order) has exactly one completion and nothing else was completed; the completions of
   the requests that were queued (everything except queue-full rejections) occur in strictly
   increasing id order, i.e. submission order; every completion that is not an answer delivered from
   the underlying controller (queue-full rejection, destruction) carries RDM_FAILED_TO_SEND and no
   response; nothing is left in the queue.  And at every instant of every history no request has
   completed twice and the queued requests completed so far did so in submission order. *)
Theorem c12_once_in_order_partial :
  (forall max discov ms ds h f,
     run_history max discov ms ds h = Some f ->
     (forall i, count_id i (g_done f) = if i <? h_next f then 1%nat else O) /\
     StronglySorted N.lt (accepted_ids (g_done f)) /\
     Forall (fun c => c_kind c = K_ANSWERED \/ c_reply c = mkReply RDM_FAILED_TO_SEND None 0) (g_done f) /\
     s_queue f = []) /\
  (forall max discov ms ds s ag,
     reachable max discov ms ds s ag ->
     (forall i, (count_id i (g_done s) <= 1)%nat) /\ StronglySorted N.lt (accepted_ids (g_done s))).
Proof.
  split.
  - intros max discov ms ds h f H. exact (history_final _ _ _ _ _ _ H).
  - intros max discov ms ds s ag H. exact (reach_once _ _ _ _ _ _ H).
Qed.
Print Assumptions c12_once_in_order_partial.

(* Nothing is sent while paused: at every instant of every history the user-level paused flag (set
   by the Pause operation, cleared by the Resume operation just before Resume() is called) is the
   negation of m_active, and the number of calls (SendRDMRequest / RunFull/IncrementalDiscovery) that
   reached the underlying controller while it was set is 0. *)
Theorem c12_paused : forall max discov ms ds s ag,
  reachable max discov ms ds s ag -> h_paused s = negb (s_active s) /\ g_psends s = 0.
Proof. exact reach_paused. Qed.
Print Assumptions c12_paused.

(* Non-vacuity: a history with a re-entrant submission, an ACK_OVERFLOW chain whose first part is
   answered synchronously inside a completion callback, pause/resume around a request in flight,
   discovery, a queue-full rejection and destruction with requests queued.  Requests 0,1,2 are answered
   in order (1 with the concatenated, tagged overflow data), 5 is rejected, 3 and 4 are failed by the
   destructor; one call outstanding at most, none sent while paused. *)
Example c12_example :
  let ack := mkReply 0 (Some (mkResp 0 1 33 0 [7])) 1 in
  let ovf := mkReply 0 (Some (mkResp 3 1 33 0 [5])) 1 in
  match run_history 2 true [Later; Sync ovf; Later; Later] [false]
          [Submit [Submit []]; Pause; Resume; Deliver ack; Deliver ack; Submit []; Submit [];
           Disc true []; Deliver ack; DeliverDisc; Submit []; Submit []] with
  | Some f => map (fun c => (c_id c, c_kind c,
                             match r_resp (c_reply c) with Some r => rs_data r | None => [] end))
                  (g_done f) =
              [(0, 0, [0; 7]); (1, 0, [1; 5; 1; 7]); (2, 0, [2; 7]); (5, 1, []); (3, 2, []); (4, 2, [])]
              /\ g_conc f = 1 /\ g_psends f = 0
  | None => False
  end.
Proof. vm_compute. repeat split. Qed.
