(* C12 — queued RDM requests complete exactly once, in order, one at a time.
   Only theorem statements; proofs are in ProofsT/F/A/B/C/D/R/E.v and Proofs.v.

   A history is a list of top-level operations (Model.op): Submit null cb (cb = the operations the
   request's completion callback performs, recursively; null = the caller passes a NULL callback), Disc full cb, Pause, Resume, Deliver reply
   (the underlying controller answers later), DeliverDisc; together with the script of the mock
   underlying controller (per SendRDMRequest call: answer synchronously with a given reply, or later;
   per discovery run: finish synchronously or later), the queue limit and the controller class.
   `reachable max discov ms ds s ag` holds for every configuration (state s, call-stack agenda ag)
   that any such history can be in at any instant, inside re-entrant callbacks included.
   `run_history` runs a whole history and then destroys the controller; the completion callbacks the
   destructor runs are live (they may submit, pause, resume), and every configuration inside the
   destructor is `reachable` too. *)
From OlaBase Require Import Bytes.
From Coq Require Import Sorted.
From C12 Require Import Gen Model ProofsT ProofsA ProofsB ProofsC ProofsD ProofsR ProofsE ProofsE2 ProofsP ProofsX Proofs.
Local Open Scope N_scope.

(* the constants the model and the statements below use are those of the headers *)
Theorem c12_consts :
  (RDM_COMPLETED_OK, RDM_FAILED_TO_SEND, RDM_INVALID_RESPONSE, RDM_ACK, ACK_OVERFLOW, MAX_OVERFLOW_SIZE,
   GET_COMMAND_RESPONSE, SET_COMMAND_RESPONSE) = (0, 2, 4, 0, 3, 4096, 33, 49).
Proof. reflexivity. Qed.
Print Assumptions c12_consts.

(* Every history, whatever the callbacks and the underlying controller do, runs to quiescence after
   every operation: the model never returns None (= OutOfFuel); every single step strictly decreases
   the measure used as fuel. *)
Theorem c12_total :
  (forall max discov ms ds h, run_history max discov ms ds h <> None) /\
  (forall s o, exec_op s o <> None) /\
  (forall s f ag s' ag', step s f ag = (s', ag') -> (measure s' ag' < measure s (f :: ag))%nat).
Proof.
  split; [exact run_history_total|]. split; [exact exec_op_total|exact step_decreases].
Qed.
Print Assumptions c12_total.

(* At most one request or discovery is outstanding on the underlying port at every instant of every
   history (m_out / m_dout = the calls the mock underlying controller has received and not yet
   answered); g_conc, the largest number of calls outstanding at once as counted by the mock at every
   call it receives (that call included), never exceeds 1; the in-flight flag is set exactly while a
   request is outstanding (until the destructor sets it to block all sending); while a discovery run
   is outstanding the set of running discovery entries (m_discovery_callbacks, NULL pointers
   included) is non-empty, so it blocks everything else even if every caller passed a NULL callback; and the "response but the queue was empty" (OLA_FATAL) and
   front()-of-empty-queue branches are never taken. *)
Theorem c12_one_outstanding : forall max discov ms ds s ag,
  reachable max discov ms ds s ag ->
  len (m_out s) + len (m_dout s) <= 1 /\ g_conc s <= 1 /\ g_fatal s = false /\
  (h_destroying s = false ->
   (s_pending s = true <-> m_out s <> []) /\ (m_dout s <> [] -> s_rdisc s <> [])).
Proof. exact reach_outstanding. Qed.
Print Assumptions c12_one_outstanding.

(* Exactly once, in order, each with its own reply.
   After any history followed by destruction: every request ever submitted - before or DURING the
   destruction, i.e. from a completion callback run by the destructor - (ids 0 .. h_next-1, in
   submission order) has exactly one completion and nothing else was completed; the completions of
   the requests that were queued (everything except queue-full rejections) occur in strictly
   increasing id order, i.e. submission order; every completion that is not an answer (queue-full
   rejection, destruction) carries RDM_FAILED_TO_SEND and no response; nothing is left queued.
   Own reply: every answered completion of request k was built only from answers that the underlying
   controller produced for dispatches of request k (c_from: the ids of the dispatches whose answers
   were consumed, recorded by the mock when it answers), and if it carries a response its parameter
   data is the concatenation of exactly those answers' data, each of which is empty or carries the tag
   k the mock put in front when answering a dispatch of k.
   A submission is rejected exactly when the number of accepted, uncompleted requests has reached
   the limit (h_open is the harness' own count, g_rj counts disagreements).
   And at every instant of every history no request has completed twice and the queued requests
   completed so far did so in submission order.  Histories contain re-entrant submissions at every
   callback point: the script of every completion callback (of an answered, rejected or destructor-
   failed request) and of every discovery callback is an arbitrary list of operations, Submit
   included, nested to any depth (see c12_example_reentrant). *)
Theorem c12_once_in_order :
  (forall max discov ms ds h f,
     run_history max discov ms ds h = Some f ->
     (forall i, count_id i (g_done f) = if i <? h_next f then 1%nat else O) /\
     StronglySorted N.lt (accepted_ids (g_done f)) /\
     Forall (fun c => c_kind c = K_ANSWERED \/ c_reply c = mkReply RDM_FAILED_TO_SEND None 0) (g_done f) /\
     s_queue f = [] /\
     Forall (fun c => c_kind c = K_ANSWERED ->
               c_from c <> [] /\ Forall (fun x => x = c_id c) (c_from c) /\
               match r_resp (c_reply c) with
               | Some rs => rs_data rs = concat (map rs_data (c_parts c)) /\
                            Forall (fun p => rs_data p = [] \/ exists d, rs_data p = c_id c :: d) (c_parts c) /\ c_parts c <> [] /\
                            (Forall (fun p => rs_src p = rs_src rs /\ rs_cc p = rs_cc rs) (c_parts c) /\
                             (forall f, hd_error (c_parts c) = Some f -> rs_hdr rs = rs_hdr f) /\
                             (forall l, hd_error (rev (c_parts c)) = Some l -> rs_mc rs = rs_mc l)) /\
                            ((2 <= length (c_parts c))%nat ->
                             len (rs_data rs) <= MAX_OVERFLOW_SIZE /\ rs_type rs = RDM_ACK /\
                             (rs_cc rs = GET_COMMAND_RESPONSE \/ rs_cc rs = SET_COMMAND_RESPONSE)) /\
                (forall p, c_parts c = [p] -> rs = p)
               | None => True
               end) (g_done f)) /\
  (forall max discov ms ds s ag,
     reachable max discov ms ds s ag ->
     (forall i, (count_id i (g_done s) <= 1)%nat) /\ StronglySorted N.lt (accepted_ids (g_done s)) /\
     h_open s = len (s_queue s) /\ g_rj s = 0).
Proof.
  split.
  - intros max discov ms ds h f H.
    destruct (history_final _ _ _ _ _ _ H) as (A & B & C & D).
    split; [exact A|]. split; [exact B|]. split; [exact C|]. split; [exact D|].
    destruct (history_reach _ _ _ _ _ _ H) as [Hr _]. exact (reach_own _ _ _ _ _ _ Hr).
  - intros max discov ms ds s ag H.
    destruct (reach_once _ _ _ _ _ _ H) as [A B]. destruct (reach_R _ _ _ _ _ _ H) as [C D]. auto.
Qed.
Print Assumptions c12_once_in_order.

(* ACK_OVERFLOW: at every instant of every history, every answered completion that carries a
   response has as parameter data the in-order concatenation of the parts it was built from (one
   part per answer consumed, each an answer to a dispatch of that same request; a part may be empty,
   e.g. the empty last ACK real responders send - the mock tags only non-empty data); it carries the
   source UID and command class common to all parts, the PID, destination UID, transaction number and sub-device (rs_hdr) of the first part and the
   message count of the last part; a response built from two or more parts is an RDM_ACK (never
   ACK_OVERFLOW) GET or SET response of at most MAX_OVERFLOW_SIZE (4096) bytes; a response built
   from a single answer is that answer, unchanged.  While a sequence
   is in progress the accumulator belongs to the request at the head of the queue and is the
   concatenation of the parts received so far; when no sequence is in progress nothing is
   accumulated.  (That a sequence yields exactly one completion - the combined response or a single
   error - is c12_once_in_order: each request completes exactly once.) *)
Theorem c12_overflow : forall max discov ms ds s ag,
  reachable max discov ms ds s ag ->
  Forall (fun c => c_kind c = K_ANSWERED ->
            match r_resp (c_reply c) with
            | Some rs => rs_data rs = concat (map rs_data (c_parts c)) /\
                         Forall (fun p => rs_data p = [] \/ exists d, rs_data p = c_id c :: d) (c_parts c) /\ c_parts c <> [] /\
                         (Forall (fun p => rs_src p = rs_src rs /\ rs_cc p = rs_cc rs) (c_parts c) /\
                          (forall f, hd_error (c_parts c) = Some f -> rs_hdr rs = rs_hdr f) /\
                          (forall l, hd_error (rev (c_parts c)) = Some l -> rs_mc rs = rs_mc l)) /\
                         ((2 <= length (c_parts c))%nat ->
                          len (rs_data rs) <= MAX_OVERFLOW_SIZE /\ rs_type rs = RDM_ACK /\
                          (rs_cc rs = GET_COMMAND_RESPONSE \/ rs_cc rs = SET_COMMAND_RESPONSE)) /\
                (forall p, c_parts c = [p] -> rs = p)
            | None => True
            end) (g_done s) /\
  (h_destroying s = false ->
  match s_resp s with
  | Some c => exists i cb rest, s_queue s = (i, cb) :: rest /\
                rs_data c = concat (map rs_data (g_parts s)) /\
                Forall (fun p => rs_data p = [] \/ exists d, rs_data p = i :: d) (g_parts s) /\ g_parts s <> [] /\
                (Forall (fun p => rs_src p = rs_src c /\ rs_cc p = rs_cc c) (g_parts s) /\
                 (forall f, hd_error (g_parts s) = Some f -> rs_hdr c = rs_hdr f) /\
                 (forall l, hd_error (rev (g_parts s)) = Some l -> rs_mc c = rs_mc l)) /\
                ((2 <= length (g_parts s))%nat ->
                 len (rs_data c) <= MAX_OVERFLOW_SIZE /\ rs_type c = RDM_ACK /\
                 (rs_cc c = GET_COMMAND_RESPONSE \/ rs_cc c = SET_COMMAND_RESPONSE)) /\
                (forall p, g_parts s = [p] -> c = p)
  | None => g_parts s = [] /\ g_from s = []
  end).
Proof.
  intros max discov ms ds s ag H. destruct (reach_D _ _ _ _ _ _ H) as [Hd Hr]. split.
  - eapply Forall_impl; [|exact Hd]. intros c Hc Hk. destruct (Hc Hk) as (_ & _ & Hx). exact Hx.
  - intros Hnd. specialize (Hr Hnd). destruct (s_resp s); [|exact Hr].
    destruct Hr as (i & cb & rest & Hq & Hok & _). exists i, cb, rest. split; [exact Hq|exact Hok].
Qed.
Print Assumptions c12_overflow.

(* Discovery (requests with a NULL callback included: such a request counts as satisfied, and is
   logged in g_ddone, when the completion of the run that took it passes its entry): at every instant
   of every history, the discovery requests made so far (numbered
   0 .. h_ndid-1 in request order) are, in order, exactly the requests taken by the runs started so
   far (run by run) followed by those still waiting - so every request is taken by exactly one run and
   a run takes all requests waiting when it starts (in particular all those queued while the previous
   run was in progress); every run served at least one request and was full iff one of the requests
   it took asked for full; no discovery callback has run twice; and every callback that has run was
   run by the completion of the run that took its request.  (With c12_one_outstanding: runs never
   overlap.) *)
Theorem c12_discovery_coalesce : forall max discov ms ds s ag,
  reachable max discov ms ds s ag ->
  flat_map (fun e : N * bool * list (bool * N) => map snd (snd e)) (g_runs s) ++
    map (fun e : bool * N * list op => snd (fst e)) (s_pdisc s) = nseq (N.to_nat (h_ndid s)) /\
  Forall (fun e : N * bool * list (bool * N) => snd (fst e) = existsb fst (snd e) /\ snd e <> []) (g_runs s) /\
  NoDup (map fst (g_ddone s)) /\
  Forall (fun x : N * N => exists full reqs, In (snd x, full, reqs) (g_runs s) /\ In (fst x) (map snd reqs))
         (g_ddone s).
Proof. exact reach_discovery. Qed.
Print Assumptions c12_discovery_coalesce.

(* Nothing is sent while paused: at every instant of every history the user-level paused flag (set
   by the Pause operation, cleared by the Resume operation just before Resume() is called) is the
   negation of m_active, and the number of calls (SendRDMRequest / RunFull/IncrementalDiscovery) that
   reached the underlying controller while it was set is 0. *)
Theorem c12_paused : forall max discov ms ds s ag,
  reachable max discov ms ds s ag -> h_paused s = negb (s_active s) /\ g_psends s = 0.
Proof. exact reach_paused. Qed.
Print Assumptions c12_paused.

(* CombineResponses exactly: two parts combine iff their data together is at most MAX_OVERFLOW_SIZE
   (4096 itself is accepted, 4097 is not - see c12_combine_limit), their source UIDs are equal and
   both are GET responses or both are SET responses; the result is then an RDM_ACK with the first
   part's source, class, PID, destination UID, transaction number and sub-device (rs_hdr), the second part's message count and the concatenated data. *)
Theorem c12_combine : forall a b c,
  combine a b = Some c <->
  (len (rs_data a) + len (rs_data b) <= MAX_OVERFLOW_SIZE /\ rs_src a = rs_src b /\
   ((rs_cc a = GET_COMMAND_RESPONSE /\ rs_cc b = GET_COMMAND_RESPONSE) \/
    (rs_cc a = SET_COMMAND_RESPONSE /\ rs_cc b = SET_COMMAND_RESPONSE)) /\
   c = mkResp RDM_ACK (rs_src a) (rs_cc a) (rs_mc b) (rs_data a ++ rs_data b) (rs_hdr a)).
Proof. exact combine_spec. Qed.
Print Assumptions c12_combine.

Example c12_combine_limit :
  let part n := mkResp 3 1 33 0 (repeat 7 n) (100, 2, 0, 0) in
  (exists c, combine (part 2048%nat) (part 2048%nat) = Some c /\ len (rs_data c) = 4096) /\
  combine (part 2048%nat) (part 2049%nat) = None.
Proof. split; [eexists; split; vm_compute; reflexivity|vm_compute; reflexivity]. Qed.

(* Nothing of an ACK_OVERFLOW session leaks into another request: whenever a partial response is
   held, it belongs to the request at the head of the queue, that request has not completed yet, and
   everything accumulated was answered to dispatches of that very request; whenever no partial response
   is held (in particular right after a session ended in a completion, an error or a combine failure)
   the accumulator ghosts are empty (second clause of c12_overflow). *)
Theorem c12_no_leak : forall max discov ms ds s ag c,
  reachable max discov ms ds s ag -> h_destroying s = false -> s_resp s = Some c ->
  exists i cb rest, s_queue s = (i, cb) :: rest /\ count_id i (g_done s) = O /\
    rs_data c = concat (map rs_data (g_parts s)) /\
    Forall (fun p => rs_data p = [] \/ exists d, rs_data p = i :: d) (g_parts s) /\
    Forall (fun x => x = i) (g_from s).
Proof.
  intros max discov ms ds s ag c Hr Hnd Hc.
  destruct (reach_no_leak _ _ _ _ _ _ _ Hr Hnd Hc) as (i & cb & rest & Hq & Hn & (Hd & Ht & _) & Hf).
  exists i, cb, rest. auto.
Qed.
Print Assumptions c12_no_leak.

(* Progress: at every instant of every history (outside destruction), if the controller is active,
   no request is in flight and no discovery is running, but a request or a discovery request is
   waiting, then a call of TakeNextAction() is still pending on the call stack (the tail of
   HandleRDMResponse or of DiscoveryComplete).  Hence after every top-level operation has returned
   (empty call stack) an active, idle controller has nothing waiting: every queued request has been
   sent and every discovery request - in particular all those queued while a discovery was running -
   has been handed to a run (which by c12_discovery_coalesce takes all of them at once). *)
Theorem c12_progress :
  (forall max discov ms ds s ag,
     reachable max discov ms ds s ag -> h_destroying s = false ->
     s_active s = true -> s_pending s = false -> s_rdisc s = [] ->
     (s_pdisc s <> [] \/ s_queue s <> []) ->
     Exists (fun f => match f with FTakeNext | FDiscDone => True | _ => False end) ag) /\
  (forall max discov ms ds s,
     reachable max discov ms ds s [] -> h_destroying s = false ->
     s_active s = true -> s_pending s = false -> s_rdisc s = [] ->
     s_pdisc s = [] /\ s_queue s = []).
Proof. split; [exact reach_progress|exact reach_quiescent]. Qed.
Print Assumptions c12_progress.

(* Nothing is sent while paused, step by step: a single step taken while the user-level paused flag
   is set (any step but the Resume() call itself) adds no SendRDMRequest / Run*Discovery call to the
   log of calls reaching the underlying controller, and its lists of outstanding calls can only lose
   their oldest entry (an answer being delivered). *)
Theorem c12_paused_step : forall max discov ms ds s f ag s' ag',
  reachable max discov ms ds s (f :: ag) -> h_paused s = true -> f <> FOp Resume ->
  step s f ag = (s', ag') ->
  length (filter (fun e => match e with TSend _ | TDisc _ => true | _ => false end) (g_trace s')) =
  length (filter (fun e => match e with TSend _ | TDisc _ => true | _ => false end) (g_trace s)) /\
  (m_out s' = m_out s \/ exists i, m_out s = i :: m_out s') /\
  (m_dout s' = m_dout s \/ exists x, m_dout s = x :: m_dout s').
Proof. exact reach_paused_step. Qed.
Print Assumptions c12_paused_step.

(* The verdict values the model driver prints next to the implementation's independently computed
   ones are constants: after every history followed by destruction there is no repeated completion, the
   queued requests completed in submission order, every delivered response is the concatenation of its
   own tagged parts, no request is lost, at most one call was ever outstanding, none was made while
   paused, the queue-full bookkeeping never disagreed and the fatal branch was not taken.  (Agreement
   on the SPEC keys dup, ooo, bad, lost, conc, ps, rj therefore means the implementation's values are
   0 resp. <= 1.) *)
Theorem c12_verdicts : forall max discov ms ds h f,
  run_history max discov ms ds h = Some f ->
  dups (g_done f) = O /\ sorted_lt (accepted_ids (g_done f)) = true /\ bad_data (g_done f) = O /\
  lost f = O /\ g_conc f <= 1 /\ g_psends f = 0 /\ g_rj f = 0 /\ g_fatal f = false.
Proof. exact history_verdicts. Qed.
Print Assumptions c12_verdicts.

(* The discovery verdict: at every quiescent configuration of every history (after any top-level
   operation, and after destruction) dv_of = 0, i.e. no discovery request was served twice, and every
   run that has served requests has served ALL the requests it took (requests with a callback and
   requests with a NULL callback alike) and was full iff one of them asked for full - a request queued
   behind a full one is not dropped.  (A request is taken by the first run started after it was queued:
   c12_discovery_coalesce; whether a run ever completes is up to the underlying controller, and the
   destructor does not run discovery callbacks.) *)
Theorem c12_discovery_verdict :
  (forall max discov ms ds s, reachable max discov ms ds s [] -> dv_of s = O) /\
  (forall max discov ms ds s,
     reachable max discov ms ds s [] ->
     forall run full reqs, In (run, full, reqs) (g_runs s) ->
       (forall q, In q reqs -> ~ In (snd q) (map fst (g_ddone s))) \/
       (forall q, In q reqs -> In (snd q, run) (g_ddone s))).
Proof.
  split; [exact reach_dv|].
  intros max discov ms ds s Hr run full reqs He.
  pose proof (reach_E _ _ _ _ _ _ Hr) as HE. pose proof (EP_nodup_runs _ _ _ _ _ _ _ HE) as Hnr.
  destruct (reach_Q _ _ _ _ _ _ Hr) as [_ Q8]. destruct HE as (_ & _ & _ & E4 & _).
  cbn [logs2] in Q8. destruct (Q8 _ He) as [Hn|Ha]; [left|right]; intros q Hq.
  - intros Hin. apply (Hn (snd q)); [unfold run_dids; cbn; apply in_map; exact Hq|].
    unfold Dset. cbn. rewrite app_nil_r. exact Hin.
  - assert (Hin : In (snd q) (map fst (g_ddone s))).
    { specialize (Ha (snd q)). unfold Dset in Ha. cbn in Ha. rewrite app_nil_r in Ha. apply Ha.
      unfold run_dids; cbn. apply in_map. exact Hq. }
    apply in_map_iff in Hin. destruct Hin as ([d r] & Hx1 & Hx2). cbn in Hx1. subst d.
    rewrite Forall_forall in E4. destruct (E4 _ Hx2) as (f' & reqs' & Hr' & Hd'). cbn in Hr', Hd'.
    assert (Heq : (r, f', reqs') = (run, full, reqs)).
    { eapply (flat_map_unique run_dids); [exact Hnr|exact Hr'|exact He| |]; unfold run_dids; cbn;
        [exact Hd'|apply in_map; exact Hq]. }
    inversion Heq; subst. exact Hx2.
Qed.
Print Assumptions c12_discovery_verdict.

(* Destruction at an arbitrary point: the controller may be destroyed after ANY prefix h1 of a history
   (whatever is in flight, queued, paused, mid-ACK_OVERFLOW or mid-discovery at that point): the run is
   defined, every request ever submitted - before or during the destruction - then has exactly one
   completion, nothing is left queued; and every single step the destructor takes adds no call to the
   underlying controller, leaves its outstanding lists alone, runs no discovery callback (the code does
   not complete pending discovery requests on destruction), and completes requests only with
   FAILED_TO_SEND (never as an answer).  Nothing happens afterwards: no operation follows destruction
   in any reachable configuration (R_op requires a live controller). *)
Theorem c12_destroy_anywhere :
  (forall max discov ms ds h1 (h2 : list op),
     exists f, run_history max discov ms ds h1 = Some f /\
       (forall i, count_id i (g_done f) = if i <? h_next f then 1%nat else O) /\
       s_queue f = [] /\ h_destroying f = true) /\
  (forall max discov ms ds s f ag s' ag',
     reachable max discov ms ds s (f :: ag) -> h_destroying s = true -> step s f ag = (s', ag') ->
     length (filter (fun e => match e with TSend _ | TDisc _ => true | _ => false end) (g_trace s')) =
     length (filter (fun e => match e with TSend _ | TDisc _ => true | _ => false end) (g_trace s)) /\
     m_out s' = m_out s /\ m_dout s' = m_dout s /\ g_ddone s' = g_ddone s /\
     (g_done s' = g_done s \/
      exists c, g_done s' = g_done s ++ [c] /\ c_reply c = mkReply RDM_FAILED_TO_SEND None 0 /\
                c_kind c <> K_ANSWERED)).
Proof.
  split.
  - intros max discov ms ds h1 _. destruct (destroy_after_prefix max discov ms ds h1) as (f & E & (A & _ & _ & D) & Hd).
    exists f. auto.
  - exact reach_dying_step.
Qed.
Print Assumptions c12_destroy_anywhere.

(* Re-entrant submission with other requests queued: request 0 is in flight and request 1 waits behind
   it when 0's completion callback submits 2 (whose own callback submits 4) and 3.  The head of the
   queue (1) is sent next, not the request just submitted; everything completes once, in submission
   order, each with its own answer; 4, still queued at the end, is failed by the destructor. *)
Example c12_example_reentrant :
  let ack := mkReply 0 (Some (mkResp 0 1 33 0 [7] (100, 2, 0, 0))) 1 in
  match run_history 3 false [] []
          [Submit false [Submit false [Submit false []]; Submit false []]; Submit false [];
           Deliver ack; Deliver ack; Deliver ack; Deliver ack] with
  | Some f => map (fun c => (c_id c, c_kind c,
                             match r_resp (c_reply c) with Some r => rs_data r | None => [] end)) (g_done f) =
              [(0, 0, [0; 7]); (1, 0, [1; 7]); (2, 0, [2; 7]); (3, 0, [3; 7]); (4, 2, [])] /\
              g_accepted f = [0; 1; 2; 3; 4] /\ g_conc f = 1
  | None => False
  end.
Proof. vm_compute. repeat split. Qed.

(* Discovery requests queued while the port is busy: incremental, full (its callback asks for another
   incremental run), incremental with a NULL callback.  One full run takes all three - the requests
   queued after the full one are not dropped - and serves all of them; the request made from the
   callback is served by the following, incremental run. *)
Example c12_example_discovery :
  let ack := mkReply 0 (Some (mkResp 0 1 33 0 [7] (100, 2, 0, 0))) 1 in
  match run_history 2 true [] [false; false]
          [Submit false []; Disc false false []; Disc true false [Disc false false []]; Disc false true [];
           Deliver ack; DeliverDisc; DeliverDisc] with
  | Some f => g_runs f = [(0, true, [(false, 0); (true, 1); (false, 2)]); (1, false, [(false, 3)])] /\
              g_ddone f = [(0, 0); (1, 0); (2, 0); (3, 1)] /\ dv_of f = O /\ g_conc f = 1
  | None => False
  end.
Proof. vm_compute. repeat split. Qed.

(* A run serving a discovery request started after that request was queued: the log of runs only grows,
   one record per step at most, and at the instant a run's record appears every request it takes has an
   id below the request counter (its Run*Discovery call has already happened) and has not been taken by
   any earlier run. *)
Theorem c12_discovery_run_after_queue : forall max discov ms ds s f ag s' ag',
  reachable max discov ms ds s (f :: ag) -> step s f ag = (s', ag') ->
  g_runs s' = g_runs s \/
  exists e, g_runs s' = g_runs s ++ [e] /\
    forall d, In d (map snd (snd e)) ->
      d < h_ndid s' /\
      ~ In d (flat_map (fun e : N * bool * list (bool * N) => map snd (snd e)) (g_runs s)).
Proof. exact reach_run_after_queue. Qed.
Print Assumptions c12_discovery_run_after_queue.

(* Resume() with discovery requests waiting: if no request is in flight and no discovery is running,
   the Resume() call itself starts a discovery run that takes all waiting requests - also when no RDM
   request is queued at all - and (c12_one_outstanding) it is the only call outstanding. *)
Theorem c12_resume_progress : forall max discov ms ds s ag s' ag',
  reachable max discov ms ds s (FOp Resume :: ag) ->
  s_pending s = false -> s_rdisc s = [] -> s_pdisc s <> [] ->
  step s (FOp Resume) ag = (s', ag') ->
  m_dout s' = m_dout s ++ [m_nrun s] /\ s_pdisc s' = [] /\ s_rdisc s' <> [] /\
  (exists full, g_runs s' = g_runs s ++ [(m_nrun s, full, map (fun e => fst e) (s_pdisc s))]) /\
  len (m_out s') + len (m_dout s') <= 1.
Proof.
  intros max discov ms ds s ag s' ag' Hr Hp Hrd Hpd H.
  destruct (resume_starts_disc _ _ _ _ Hp Hrd Hpd H) as (A & B & C & D).
  split; [exact A|]. split; [exact B|]. split; [exact C|]. split; [exact D|].
  pose proof (R_step _ _ _ _ _ _ _ _ _ Hr H) as Hr'.
  destruct (reach_outstanding _ _ _ _ _ _ Hr') as (Ho & _). exact Ho.
Qed.
Print Assumptions c12_resume_progress.

Example c12_example_resume :
  match exec_ops (init 3 true [] []) [Pause; Disc false true []; Disc true false []; Resume] with
  | Some s => g_trace s = [TDisc true] /\ m_dout s = [0] /\ s_pdisc s = [] /\
              map (fun e => (fst (fst e), snd (fst e), map snd (snd e))) (g_runs s) = [(0, true, [0; 1])]
  | None => False
  end.
Proof. vm_compute. repeat split. Qed.

(* Finishing an ACK_OVERFLOW sequence while paused sends nothing: the step that delivers an answer of
   the underlying controller while the paused flag is set (in particular the last part of a sequence,
   whose completion callback then runs) adds no call to the underlying controller; the answered call
   leaves the outstanding list and nothing enters it. *)
Theorem c12_paused_after_overflow : forall max discov ms ds s r ag s' ag',
  reachable max discov ms ds s (FOp (Deliver r) :: ag) -> h_paused s = true ->
  step s (FOp (Deliver r)) ag = (s', ag') ->
  length (filter (fun e => match e with TSend _ | TDisc _ => true | _ => false end) (g_trace s')) =
  length (filter (fun e => match e with TSend _ | TDisc _ => true | _ => false end) (g_trace s)) /\
  (m_out s' = m_out s \/ exists i, m_out s = i :: m_out s') /\
  (m_dout s' = m_dout s \/ exists x, m_dout s = x :: m_dout s').
Proof.
  intros max discov ms ds s r ag s' ag' Hr Hp H.
  eapply reach_paused_step; [exact Hr|exact Hp|discriminate|exact H].
Qed.
Print Assumptions c12_paused_after_overflow.

Example c12_example_paused_overflow :
  let ack := mkReply 0 (Some (mkResp 0 1 33 0 [7] (100, 2, 0, 0))) 1 in
  let ovf := mkReply 0 (Some (mkResp 3 1 33 0 [5] (100, 2, 0, 0))) 1 in
  match exec_ops (init 3 false [] []) [Submit false []; Deliver ovf; Pause; Submit false []; Deliver ack] with
  | Some s => map (fun e => match e with TSend i => (1, i) | TComp c => (2, c_id c) | _ => (0, 0) end)
                  (g_trace s) = [(2, 0)] /\        (* the last operation only ran the completion callback *)
              m_out s = [] /\ map fst (s_queue s) = [1] /\ s_pending s = false
  | None => False
  end.
Proof. vm_compute. repeat split. Qed.

(* Non-vacuity: a history with a re-entrant submission, an ACK_OVERFLOW chain whose first part is
   answered synchronously inside a completion callback, pause/resume around a request in flight,
   a full discovery with a callback and an incremental one with a NULL callback coalesced into one full
   run, a queue-full rejection and destruction with requests queued.  Requests 0,1,2 are answered
   in order (1 from an ACK_OVERFLOW part and an EMPTY final ACK: delivered as RDM_ACK with the data of
   part 1, the PID of part 1 and the message count of the last part), 5 is rejected, 3 and 4 are failed by the
   destructor, whose run of 3's callback submits 6 (and calls Resume), whose callback submits 7 -
   both failed by the destructor too (request 5, the rejected one, was submitted with a NULL callback:
   its ignored script would have paused); one call outstanding at most, none sent while paused. *)
Example c12_example :
  let ack := mkReply 0 (Some (mkResp 0 1 33 0 [7] (100, 2, 0, 0))) 1 in
  let ovf := mkReply 0 (Some (mkResp 3 1 33 4 [5] (101, 3, 7, 5))) 1 in
  let last := mkReply 0 (Some (mkResp 0 1 33 9 [] (102, 4, 8, 6))) 1 in   (* empty last frame of the sequence *)
  match run_history 2 true [Later; Sync ovf; Later; Later] [false]
          [Submit false [Submit false []]; Pause; Resume; Deliver ack; Deliver last; Submit false []; Submit false [];
           Disc true false []; Disc false true []; Deliver ack; DeliverDisc; Submit false [Submit false [Submit false []]; Resume]; Submit true [Pause]] with
  | Some f => map (fun c => (c_id c, c_kind c,
                             match r_resp (c_reply c) with
                             | Some r => (rs_type r, rs_mc r, rs_hdr r, rs_data r) | None => (9, 0, (0, 0, 0, 0), []) end))
                  (g_done f) =
              [(0, 0, (0, 0, (100, 2, 0, 0), [0; 7])); (1, 0, (0, 9, (101, 3, 7, 5), [1; 5])); (2, 0, (0, 0, (100, 2, 0, 0), [2; 7]));
               (5, 1, (9, 0, (0, 0, 0, 0), [])); (3, 2, (9, 0, (0, 0, 0, 0), [])); (4, 2, (9, 0, (0, 0, 0, 0), []));
               (6, 2, (9, 0, (0, 0, 0, 0), [])); (7, 2, (9, 0, (0, 0, 0, 0), []))]
              /\ g_conc f = 1 /\ g_psends f = 0 /\ g_rj f = 0 /\ dv_of f = O /\
              map (fun e => (fst (fst e), snd (fst e), map snd (snd e))) (g_runs f) = [(0, true, [0; 1])] /\
              g_ddone f = [(0, 0); (1, 0)] /\ s_nulls f = [1] /\ s_qnulls f = [5]
  | None => False
  end.
Proof. vm_compute. repeat split. Qed.
