From OlaBase Require Import Bytes.
From C12 Require Import Gen Model Proofs.
Local Open Scope N_scope.
Theorem c12_consts :
  (RDM_COMPLETED_OK, RDM_FAILED_TO_SEND, RDM_INVALID_RESPONSE, RDM_ACK, ACK_OVERFLOW, MAX_OVERFLOW_SIZE,
   GET_COMMAND_RESPONSE, SET_COMMAND_RESPONSE) = (0, 2, 4, 0, 3, 4096, 33, 49).
Proof. reflexivity. Qed.
Print Assumptions c12_consts.
