(* C12: at most one call outstanding on the underlying port; the OLA_FATAL branch is unreachable.
   The invariant is a predicate AP on seven projections of the state and on the number of pending
   DiscoveryComplete tails (FDiscDone frames) in the agenda; every model function gets one small
   lemma (its effect on those projections) and AP is carried through by state-free lemmas. *)
From OlaBase Require Import Bytes.
From C12 Require Import Gen Model.
Local Open Scope N_scope.

Fixpoint ndone (ag : list frame) : nat :=
  match ag with [] => O | FDiscDone :: r => S (ndone r) | _ :: r => ndone r end.
Lemma ndone_app a b : ndone (a ++ b) = (ndone a + ndone b)%nat.
Proof. induction a as [|[]]; cbn [ndone app]; lia. Qed.
Lemma ndone_fop cb : ndone (map FOp cb) = O.
Proof. induction cb; cbn; auto. Qed.
Lemma ndone_frames nulls run l :
  ndone (disc_frames nulls run l) = O.
Proof.
  unfold disc_frames in *. induction l as [|[? [cb|]] l IH]; cbn [flat_map snd fst]; auto.
  rewrite ndone_app. cbn [ndone]. rewrite ndone_fop. auto.
Qed.

Definition AP (o d : list N) (p : bool) (q : list (N * list op)) (r : list (N * option (list op)))
              (c : N) (f : bool) (n : nat) : Prop :=
  ((o = [] /\ p = false) \/
   (exists i cb rest, o = [i] /\ p = true /\ d = [] /\ q = (i, cb) :: rest)) /\
  (d = [] \/ (exists x, d = [x] /\ o = [] /\ r <> [])) /\
  (n <= 1)%nat /\ (n = 1%nat -> d = [] /\ r <> []) /\ c <= 1 /\ f = false.

Definition InvA (s : st) (ag : list frame) : Prop :=
  AP (m_out s) (m_dout s) (s_pending s) (s_queue s) (s_rdisc s) (g_conc s) (g_fatal s) (ndone ag).

(* ---- state-free lemmas ---- *)
Lemma AP_idle_o o d p q r c f n : AP o d p q r c f n -> p = false -> o = [].
Proof. intros ([[? ?]|(i & cb & rest & ? & ? & _)] & _) Hp; congruence. Qed.
Lemma AP_o_nil_p o d p q r c f n : AP o d p q r c f n -> o = [] -> p = false.
Proof. intros ([[? ?]|(i & cb & rest & ? & ? & _)] & _) Hp; congruence. Qed.
Lemma AP_rnil_d o d p q r c f n : AP o d p q r c f n -> r = [] -> d = [].
Proof. intros (_ & [?|(x & ? & ? & ?)] & _) Hr; congruence. Qed.

Lemma AP_send o d p q r c f n id cb rest :
  AP o d p q r c f n -> o = [] -> d = [] -> q = (id, cb) :: rest ->
  AP (o ++ [id]) d true q r (N.max c (len (o ++ [id]) + len d)) f n.
Proof.
  intros (HO & HD & Hn & Hn1 & Hc & Hf) -> -> ->. unfold AP. cbn.
  split; [right; exists id, cb, rest; auto|].
  split; [left; auto|]. split; [auto|]. split; [intros Hx; destruct (Hn1 Hx); auto|].
  split; [lia|auto].
Qed.
Lemma AP_disc o d p q r c f n x reqs :
  AP o d p q r c f n -> o = [] -> d = [] -> r = [] -> reqs <> [] ->
  AP o (d ++ [x]) p q (r ++ reqs) (N.max c (len o + len (d ++ [x]))) f n.
Proof.
  intros (HO & HD & Hn & Hn1 & Hc & Hf) -> -> -> Hr. unfold AP. cbn.
  destruct HO as [[_ Hp]|(i & cb & rest & ? & _)]; [|discriminate].
  split; [left; auto|].
  split; [right; exists x; auto|]. split; [auto|].
  split; [intros Hx; destruct (Hn1 Hx); congruence|]. split; [lia|auto].
Qed.
Lemma AP_pop o d p q r c f n : AP o d p q r c f n -> o = [] -> AP o d false (tl q) r c f n.
Proof.
  intros (HO & HD & Hn & Hn1 & Hc & Hf) ->. unfold AP.
  split; [left; auto|]. auto.
Qed.
Lemma AP_qapp o d p q r c f n e : AP o d p q r c f n -> AP o d p (q ++ [e]) r c f n.
Proof.
  intros (HO & HD & Hn & Hn1 & Hc & Hf). unfold AP.
  split; [|auto]. destruct HO as [?|(i & cb & rest & ? & ? & ? & ->)]; [left; auto|].
  right. exists i, cb, (rest ++ [e]). auto.
Qed.
Lemma AP_discdone o d p q r c f n : AP o d p q r c f (S n) -> AP o d p q [] c f n.
Proof.
  intros (HO & HD & Hn & Hn1 & Hc & Hf). unfold AP.
  assert (n = O) by lia. subst n. destruct (Hn1 eq_refl) as [Hd _].
  split; [auto|]. split; [left; auto|]. split; [lia|]. split; [intros; lia|auto].
Qed.
Lemma AP_deliver i rest d p q r c f n :
  AP (i :: rest) d p q r c f n ->
  rest = [] /\ d = [] /\ (exists cb q', q = (i, cb) :: q') /\ AP [] d false q r c f n.
Proof.
  intros (HO & HD & Hn & Hn1 & Hc & Hf).
  destruct HO as [[? _]|(i0 & cb & q' & Ho & Hp & Hd & Hq)]; [discriminate|].
  inversion Ho; subst. split; [auto|]. split; [auto|]. split; [eauto|].
  unfold AP. split; [left; auto|]. split; [left; auto|]. auto.
Qed.
Lemma map_erase_nonnil (l : list (N * option (list op))) :
  l <> [] -> map (fun e => (fst e, @None (list op))) l <> [].
Proof. destruct l; cbn; congruence. Qed.
Lemma AP_deliverdisc o x rest p q r c f n :
  AP o (x :: rest) p q r c f n ->
  AP o rest p q (map (fun e => (fst e, @None (list op))) r) c f (S n).
Proof.
  intros (HO & HD & Hn & Hn1 & Hc & Hf).
  destruct HD as [?|(y & Hd & Ho & Hr)]; [discriminate|]. inversion Hd; subst.
  assert (n = O). { destruct n as [|[|]]; auto; [destruct (Hn1 eq_refl); discriminate|lia]. }
  subst n. destruct HO as [[_ Hp]|(i & cb & q' & ? & _)]; [|discriminate].
  unfold AP. split; [left; auto|]. split; [left; auto|]. split; [lia|].
  split; [intros _; split; auto using map_erase_nonnil|auto].
Qed.
Lemma AP_n o d p q r c f n n' : n' = n -> AP o d p q r c f n -> AP o d p q r c f n'.
Proof. intros ->; auto. Qed.

(* ---- the model functions ---- *)
Lemma mock_send_eff id s ag s' ag' : mock_send id s ag = (s', ag') ->
  m_out s' = m_out s ++ [id] /\ m_dout s' = m_dout s /\ s_pending s' = s_pending s /\
  s_queue s' = s_queue s /\ s_rdisc s' = s_rdisc s /\
  g_conc s' = N.max (g_conc s) (len (m_out s ++ [id]) + len (m_dout s)) /\ g_fatal s' = g_fatal s /\
  ndone ag' = ndone ag.
Proof.
  unfold mock_send, note_call. intros H. cbn in H.
  destruct (h_paused s); cbn in H; destruct (m_script s) as [|[r|] ms]; inversion H; subst; cbn;
    repeat split; reflexivity.
Qed.
Lemma maybe_send_A s ag s' ag' :
  InvA s ag -> m_out s = [] -> m_dout s = [] -> maybe_send s ag = (s', ag') -> InvA s' ag'.
Proof.
  unfold maybe_send. intros HA Ho Hd H. destruct (s_queue s) as [|[id cb] q] eqn:Eq.
  - inversion H; subst; auto.
  - apply mock_send_eff in H. cbn in H. destruct H as (E1 & E2 & E3 & E4 & E5 & E6 & E7 & En).
    unfold InvA in *. rewrite E1, E2, E3, E4, E5, E6, E7, En.
    eapply AP_send; eauto.
Qed.
Lemma start_disc_eff s ag s' ag' : start_disc s ag = (s', ag') ->
  m_out s' = m_out s /\ m_dout s' = m_dout s ++ [m_nrun s] /\ s_pending s' = s_pending s /\
  s_queue s' = s_queue s /\
  s_rdisc s' = s_rdisc s ++ map (fun e : bool * N * list op => (snd (fst e), Some (snd e))) (s_pdisc s) /\
  g_conc s' = N.max (g_conc s) (len (m_out s) + len (m_dout s ++ [m_nrun s])) /\
  g_fatal s' = g_fatal s /\ ndone ag' = ndone ag.
Proof.
  unfold start_disc, note_call. intros H. cbn in H.
  destruct (h_paused s); cbn in H; destruct (m_dscript s) as [|[|] ds]; inversion H; subst; cbn;
    repeat split; reflexivity.
Qed.
Lemma is_nil_false {A} (l : list A) : is_nil l = false -> l <> [].
Proof. destruct l; cbn; congruence. Qed.
Lemma is_nil_true {A} (l : list A) : is_nil l = true -> l = [].
Proof. destruct l; cbn; congruence. Qed.
Lemma map_nonnil {A B} (f : A -> B) l : l <> [] -> map f l <> [].
Proof. destruct l; cbn; congruence. Qed.

Lemma take_next_A s ag s' ag' : InvA s ag -> take_next s ag = (s', ag') -> InvA s' ag'.
Proof.
  unfold take_next. intros HA H.
  destruct (negb (s_active s) || s_pending s || negb (is_nil (s_rdisc s))) eqn:G.
  - inversion H; subst; auto.
  - apply orb_false_iff in G. destruct G as [G Gr]. apply orb_false_iff in G. destruct G as [_ Gp].
    apply negb_false_iff, is_nil_true in Gr.
    assert (Ho : m_out s = []) by (eapply AP_idle_o; eauto).
    assert (Hd : m_dout s = []) by (eapply AP_rnil_d; eauto).
    destruct (negb (is_nil (s_pdisc s))) eqn:Gd.
    + apply negb_true_iff, is_nil_false in Gd.
      apply start_disc_eff in H. destruct H as (E1 & E2 & E3 & E4 & E5 & E6 & E7 & En).
      unfold InvA in *. rewrite E1, E2, E3, E4, E5, E6, E7, En.
      apply AP_disc; auto using map_nonnil.
    + eapply maybe_send_A; eauto.
Qed.
Lemma continue_overflow_A s ag s' ag' :
  InvA s ag -> m_out s = [] -> m_dout s = [] -> continue_overflow s ag = (s', ag') -> InvA s' ag'.
Proof.
  unfold continue_overflow. intros HA Ho Hd H. destruct (s_active s).
  - eapply maybe_send_A; eauto.
  - inversion H; subst; auto.
Qed.
Lemma run_callback_A rep parts fr s ag s' ag' :
  InvA s ag -> m_out s = [] -> s_queue s <> [] ->
  run_callback rep parts fr s ag = (s', ag') -> InvA s' ag'.
Proof.
  unfold run_callback. intros HA Ho Hq H. destruct (s_queue s) as [|[id cb] q] eqn:Eq; [congruence|].
  inversion H; subst. unfold InvA in *. cbn. rewrite ndone_app, ndone_fop. cbn.
  rewrite Eq in HA. pose proof (AP_o_nil_p _ _ _ _ _ _ _ _ HA Ho) as Hp.
  apply AP_pop in HA; auto. rewrite Hp. exact HA.
Qed.

(* HandleRDMResponse: entered with the answered call already removed from the mock's list *)
Lemma handle_A from rep s ag s' ag' :
  AP (m_out s) (m_dout s) false (s_queue s) (s_rdisc s) (g_conc s) (g_fatal s) (ndone ag) ->
  m_out s = [] -> m_dout s = [] -> s_queue s <> [] ->
  handle from rep s ag = (s', ag') -> InvA s' ag'.
Proof.
  unfold handle. intros HA Ho Hd Hq H.
  destruct (is_nil (s_queue (set_s_pending false s))) eqn:Enil.
  { cbn in Enil. apply is_nil_true in Enil. congruence. }
  repeat match type of H with
  | context [match ?x with _ => _ end] => destruct x eqn:?
  end;
  try (apply run_callback_A in H; [exact H|unfold InvA; cbn; exact HA|cbn; exact Ho|cbn; exact Hq]);
  try (apply continue_overflow_A in H; [exact H|unfold InvA; cbn; exact HA|cbn; exact Ho|cbn; exact Hd]).
Qed.

Lemma step_A s f ag s' ag' :
  InvA s (f :: ag) -> h_destroying s = false -> step s f ag = (s', ag') -> InvA s' ag'.
Proof.
  intros HA Hnd H.
  destruct f as [[sn cb|full nl cb| | |r|]| | | |]; cbn [step do_op] in H; rewrite ?Hnd in H; cbn [negb andb] in H;
    rewrite ?andb_true_r in H; unfold InvA in HA; cbn [ndone] in HA.
  - destruct (s_max s <=? len (s_queue s)).
    + inversion H; subst. unfold InvA. cbn. rewrite ndone_app, ndone_fop. exact HA.
    + eapply take_next_A; [|exact H]. unfold InvA. cbn. apply AP_qapp. exact HA.
  - destruct (s_discov s).
    + eapply take_next_A; [|exact H]. unfold InvA. cbn. exact HA.
    + inversion H; subst. exact HA.
  - inversion H; subst. unfold InvA. cbn. exact HA.
  - eapply take_next_A; [|exact H]. unfold InvA. cbn. exact HA.
  - destruct (m_out s) as [|i rest] eqn:Eo.
    + inversion H; subst. unfold InvA. rewrite Eo. exact HA.
    + apply AP_deliver in HA. destruct HA as (-> & Hd & (cb & q' & Hq) & HA).
      eapply handle_A; [| | | |exact H]; cbn; auto. congruence.
  - destruct (m_dout s) as [|x rest] eqn:Ed.
    + inversion H; subst. unfold InvA. rewrite Ed. exact HA.
    + unfold disc_complete in H. inversion H; subst. unfold InvA. cbn.
      rewrite ndone_app, ndone_frames. cbn [ndone plus]. eapply AP_deliverdisc. exact HA.
  - eapply take_next_A; [|exact H]. exact HA.
  - inversion H; subst. unfold InvA. cbn. exact HA.
  - eapply take_next_A; [|exact H]. unfold InvA. cbn. eapply AP_discdone. exact HA.
  - inversion H; subst. exact HA.
Qed.

(* ---- destruction ---- *)
Lemma mock_send_hd id s ag s' ag' : mock_send id s ag = (s', ag') -> h_destroying s' = h_destroying s.
Proof.
  unfold mock_send, note_call. intros H. cbn in H.
  destruct (h_paused s); cbn in H; destruct (m_script s) as [|[r|] ms]; inversion H; subst; reflexivity.
Qed.
Lemma maybe_send_hd s ag s' ag' : maybe_send s ag = (s', ag') -> h_destroying s' = h_destroying s.
Proof.
  unfold maybe_send. destruct (s_queue s) as [|[id cb] q]; intros H.
  - inversion H; subst; reflexivity.
  - apply mock_send_hd in H. exact H.
Qed.
Lemma start_disc_hd s ag s' ag' : start_disc s ag = (s', ag') -> h_destroying s' = h_destroying s.
Proof.
  unfold start_disc, note_call. intros H. cbn in H.
  destruct (h_paused s); cbn in H; destruct (m_dscript s) as [|[|] ds]; inversion H; subst; reflexivity.
Qed.
Lemma take_next_hd s ag s' ag' : take_next s ag = (s', ag') -> h_destroying s' = h_destroying s.
Proof.
  unfold take_next. intros H.
  destruct (negb (s_active s) || s_pending s || negb (is_nil (s_rdisc s))).
  - inversion H; subst; reflexivity.
  - destruct (negb (is_nil (s_pdisc s))); [eapply start_disc_hd|eapply maybe_send_hd]; eauto.
Qed.
Lemma continue_overflow_hd s ag s' ag' :
  continue_overflow s ag = (s', ag') -> h_destroying s' = h_destroying s.
Proof.
  unfold continue_overflow. destruct (s_active s); intros H.
  - eapply maybe_send_hd; eauto.
  - inversion H; subst; reflexivity.
Qed.
Lemma run_callback_hd rep parts fr s ag s' ag' :
  run_callback rep parts fr s ag = (s', ag') -> h_destroying s' = h_destroying s.
Proof.
  unfold run_callback. intros H. destruct (s_queue s) as [|[id cb] q]; inversion H; subst; reflexivity.
Qed.
Lemma handle_hd from rep s ag s' ag' : handle from rep s ag = (s', ag') -> h_destroying s' = h_destroying s.
Proof.
  unfold handle. intros H.
  destruct (is_nil (s_queue (set_s_pending false s))).
  { inversion H; subst. reflexivity. }
  repeat match type of H with
  | context [match ?x with _ => _ end] => destruct x eqn:?
  end;
  try (apply run_callback_hd in H; exact H);
  try (apply continue_overflow_hd in H; exact H).
Qed.
Lemma step_hd s f ag s' ag' : step s f ag = (s', ag') -> h_destroying s' = h_destroying s.
Proof.
  intros H. destruct f as [[sn cb|full nl cb| | |r|]| | | |]; cbn [step do_op] in H.
  - destruct (s_max s <=? len (s_queue s)).
    + inversion H; subst; reflexivity.
    + apply take_next_hd in H. exact H.
  - destruct (s_discov s && negb (h_destroying s)).
    + apply take_next_hd in H. exact H.
    + inversion H; subst; reflexivity.
  - inversion H; subst; reflexivity.
  - apply take_next_hd in H. exact H.
  - destruct (h_destroying s) eqn:E; [inversion H; subst; exact E|].
    destruct (m_out s).
    + inversion H; subst; exact E.
    + apply handle_hd in H. rewrite H. exact E.
  - destruct (h_destroying s) eqn:E; [inversion H; subst; exact E|].
    destruct (m_dout s).
    + inversion H; subst; exact E.
    + unfold disc_complete in H. inversion H; subst. exact E.
  - apply take_next_hd in H. exact H.
  - inversion H; subst; reflexivity.
  - apply take_next_hd in H. exact H.
  - destruct (h_destroying s) eqn:E.
    + unfold destroy_next in H. destruct (s_queue s) as [|[id cb] q]; inversion H; subst; exact E.
    + inversion H; subst; exact E.
Qed.

Lemma take_next_blocked s ag : s_pending s = true -> take_next s ag = (s, ag).
Proof. unfold take_next. intros ->. rewrite orb_true_r. reflexivity. Qed.

(* while the destructor runs: sending is blocked, the mock's lists do not change, the agenda holds
   only user operations and the destructor's loop, which is its last frame until the queue is empty *)
Definition AD (s : st) : Prop :=
  s_pending s = true /\ len (m_out s) + len (m_dout s) <= 1 /\ g_conc s <= 1 /\ g_fatal s = false.
Definition dframe (f : frame) : Prop := match f with FOp _ | FDestroy => True | _ => False end.
Definition dag (ag : list frame) : Prop := Forall dframe ag.
Definition dend (s : st) (ag : list frame) : Prop :=
  (exists pre, ag = pre ++ [FDestroy]) \/ (ag = [] /\ s_queue s = []).

Definition InvA2 (s : st) (ag : list frame) : Prop :=
  (h_destroying s = false /\ InvA s ag) \/
  (h_destroying s = true /\ AD s /\ dag ag /\ dend s ag).

Lemma dag_fop cb : dag (map FOp cb).
Proof. unfold dag. induction cb; cbn; constructor; cbn; auto. Qed.
Lemma dend_tail s f ag : f <> FDestroy -> dend s (f :: ag) -> exists pre, ag = pre ++ [FDestroy].
Proof.
  intros Hf [(pre & E)|[E _]]; [|discriminate].
  destruct pre as [|x pre]; cbn in E; inversion E; subst; [congruence|eauto].
Qed.
Lemma dend_push (s' : st) X ag : (exists pre, ag = pre ++ [FDestroy]) -> dend s' (X ++ ag).
Proof. intros (pre & ->). left. exists (X ++ pre). rewrite app_assoc. reflexivity. Qed.

Lemma step_AD s f ag s' ag' :
  h_destroying s = true -> AD s -> dag (f :: ag) -> dend s (f :: ag) -> step s f ag = (s', ag') ->
  AD s' /\ dag ag' /\ dend s' ag'.
Proof.
  intros Hd (Hp & Hl & Hc & Hf) Hdag Hend H. unfold dag in Hdag. inversion Hdag as [|? ? Hdf Hdag']; subst.
  destruct f as [[sn cb|full nl cb| | |r|]| | | |]; cbn in Hdf; try contradiction; cbn [step do_op] in H;
    rewrite ?Hd in H; cbn [negb andb] in H; rewrite ?andb_false_r in H.
  - assert (Ht : exists pre, ag = pre ++ [FDestroy]) by (eapply dend_tail; [|exact Hend]; discriminate).
    destruct (s_max s <=? len (s_queue s)).
    + inversion H; subst. split; [unfold AD; cbn; auto|]. split.
      * apply Forall_app; split; [apply dag_fop|exact Hdag'].
      * apply dend_push; exact Ht.
    + rewrite take_next_blocked in H by (cbn; exact Hp). inversion H; subst.
      split; [unfold AD; cbn; auto|]. split; [exact Hdag'|]. apply (dend_push _ [] _ Ht).
  - assert (Ht : exists pre, ag = pre ++ [FDestroy]) by (eapply dend_tail; [|exact Hend]; discriminate). inversion H; subst.
    split; [unfold AD; auto|]. split; [exact Hdag'|]. apply (dend_push _ [] _ Ht).
  - assert (Ht : exists pre, ag = pre ++ [FDestroy]) by (eapply dend_tail; [|exact Hend]; discriminate). inversion H; subst.
    split; [unfold AD; cbn; auto|]. split; [exact Hdag'|]. apply (dend_push _ [] _ Ht).
  - assert (Ht : exists pre, ag = pre ++ [FDestroy]) by (eapply dend_tail; [|exact Hend]; discriminate).
    rewrite take_next_blocked in H by (cbn; exact Hp). inversion H; subst.
    split; [unfold AD; cbn; auto|]. split; [exact Hdag'|]. apply (dend_push _ [] _ Ht).
  - assert (Ht : exists pre, ag = pre ++ [FDestroy]) by (eapply dend_tail; [|exact Hend]; discriminate). inversion H; subst.
    split; [unfold AD; auto|]. split; [exact Hdag'|]. apply (dend_push _ [] _ Ht).
  - assert (Ht : exists pre, ag = pre ++ [FDestroy]) by (eapply dend_tail; [|exact Hend]; discriminate). inversion H; subst.
    split; [unfold AD; auto|]. split; [exact Hdag'|]. apply (dend_push _ [] _ Ht).
  - unfold destroy_next in H. destruct (s_queue s) as [|[id cb] q] eqn:Eq.
    + inversion H; subst. split; [unfold AD; auto|]. split; [exact Hdag'|].
      destruct Hend as [(pre & E)|[E _]]; [|discriminate].
      destruct pre as [|x pre]; cbn in E; inversion E; subst.
      * right. split; [reflexivity|exact Eq].
      * left. exists pre. reflexivity.
    + inversion H; subst. split; [unfold AD; cbn; auto|]. split.
      * apply Forall_app; split; [apply dag_fop|]. constructor; [exact I|exact Hdag'].
      * left. destruct Hend as [(pre & E)|[E _]]; [|discriminate].
        destruct pre as [|x pre]; cbn in E; inversion E; subst.
        -- exists (map FOp cb). reflexivity.
        -- exists (map FOp cb ++ FDestroy :: pre). rewrite <- app_assoc. reflexivity.
Qed.

Lemma step_A2 s f ag s' ag' : InvA2 s (f :: ag) -> step s f ag = (s', ag') -> InvA2 s' ag'.
Proof.
  intros [[Hnd HA]|(Hd & HAD & Hdag & Hend)] H.
  - left. split; [rewrite (step_hd _ _ _ _ _ H); exact Hnd|]. eapply step_A; eauto.
  - right. split; [rewrite (step_hd _ _ _ _ _ H); exact Hd|]. eapply step_AD; eauto.
Qed.

Lemma InvA2_destroy s : h_destroying s = false -> InvA s [] -> InvA2 (start_destroy s) [FDestroy].
Proof.
  intros Hnd (HO & HD & _ & _ & Hc & Hf). right. split; [reflexivity|].
  split.
  { unfold AD, start_destroy; cbn. split; [reflexivity|]. split; [|auto].
    destruct HO as [[Ho _]|(i & cb & rest & Ho & _ & Hdd & _)]; destruct HD as [Hd|(x & Hd & _ & _)];
      try congruence; rewrite Ho, Hd; cbn; lia. }
  split; [repeat constructor|]. left. exists []. reflexivity.
Qed.
