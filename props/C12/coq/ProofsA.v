From OlaBase Require Import Bytes.
From C12 Require Import Gen Model.
Local Open Scope N_scope.

Ltac unf := unfold step, do_op, handle, continue_overflow, disc_complete, run_callback, take_next,
  start_disc, maybe_send, mock_send, note_call in *.

(* destruct every match / if of the equation H : f ... = (s', ag'), normalising projections *)
Ltac split_eq H :=
  cbn in H;
  repeat (match type of H with
          | context [match ?x with _ => _ end] => destruct x eqn:?; cbn in H
          | context [if ?x then _ else _] => destruct x eqn:?; cbn in H
          end);
  inversion H; subst; clear H.

Fixpoint ndone (ag : list frame) : nat :=
  match ag with [] => 0 | FDiscDone :: r => S (ndone r) | _ :: r => ndone r end.
Lemma ndone_app a b : ndone (a ++ b) = (ndone a + ndone b)%nat.
Proof. induction a as [|[]]; cbn [ndone app]; lia. Qed.
Lemma ndone_fop cb : ndone (map FOp cb) = 0%nat.
Proof. induction cb; cbn; auto. Qed.
Lemma ndone_frames run l :
  ndone (flat_map (fun e : N * option (list op) => match snd e with
        | Some cb => FDiscLog (fst e) run :: map FOp cb | None => [] end) l) = 0%nat.
Proof.
  induction l as [|[? [cb|]] l IH]; cbn [flat_map snd fst]; auto.
  rewrite ndone_app. cbn [ndone]. rewrite ndone_fop. auto.
Qed.

Definition InvA (s : st) (ag : list frame) : Prop :=
  ((m_out s = [] /\ s_pending s = false) \/
   (exists i cb rest, m_out s = [i] /\ s_pending s = true /\ m_dout s = [] /\
                      s_queue s = (i, cb) :: rest)) /\
  (m_dout s = [] \/ (exists r, m_dout s = [r] /\ m_out s = [] /\ s_rdisc s <> [])) /\
  (ndone ag <= 1)%nat /\
  (ndone ag = 1%nat -> m_dout s = [] /\ s_rdisc s <> []) /\
  g_conc s <= 1 /\ g_fatal s = false.

Lemma map_erase_nonnil (l : list (N * option (list op))) :
  l <> [] -> map (fun e => (fst e, @None (list op))) l <> [].
Proof. destruct l; cbn; congruence. Qed.
Lemma app_nonnil_r {A} (a b : list A) : b <> [] -> a ++ b <> [].
Proof. destruct a; cbn; congruence. Qed.
Lemma map_nonnil {A B} (f : A -> B) l : l <> [] -> map f l <> [].
Proof. destruct l; cbn; congruence. Qed.
Lemma is_nil_false {A} (l : list A) : is_nil l = false -> l <> [].
Proof. destruct l; cbn; congruence. Qed.
Lemma is_nil_true {A} (l : list A) : is_nil l = true -> l = [].
Proof. destruct l; cbn; congruence. Qed.

Lemma app_single_nonnil {A} (l : list A) x : l ++ [x] <> [].
Proof. destruct l; cbn; congruence. Qed.

Lemma step_A s f ag s' ag' : InvA s (f :: ag) -> step s f ag = (s', ag') -> InvA s' ag'.
Proof.
  unfold InvA. intros (Hout & Hdout & Hn & Hd & Hc & Hf) H.
  unf.
  destruct f as [[cb|full cb| | |r|]| | |]; cbn [ndone] in Hn, Hd; cbn in H.
  all: destruct Hout as [(Ho1 & Ho2)|(i0 & cb0 & rest0 & Ho1 & Ho2 & Ho3 & Ho4)];
       destruct Hdout as [Hd1|(r0 & Hd1 & Hd2 & Hd3)]; try congruence.
  all: rewrite ?Ho1, ?Ho2, ?Hd1, ?Ho4 in H.
  all: split_eq H.
  all: cbn.
  all: rewrite ?ndone_app, ?ndone_fop, ?ndone_frames; cbn [ndone].
  all: repeat match goal with
       | H : negb _ = true |- _ => apply negb_true_iff in H
       | H : negb _ = false |- _ => apply negb_false_iff in H
       | H : _ || _ = false |- _ => apply orb_false_iff in H; destruct H
       | H : is_nil _ = true |- _ => apply is_nil_true in H
       | H : is_nil _ = false |- _ => apply is_nil_false in H
       | H : _ ++ [_] = [] |- _ => exfalso; exact (app_single_nonnil _ _ H)
       end.
  all: subst; cbn in *.
  all: try (rewrite ?Ho1, ?Hd1, ?Ho4 in *; cbn in * ).
  all: try discriminate.
  all: repeat match goal with
       | H : _ :: _ = _ :: _ |- _ => inversion H; subst; clear H
       | H : (_, _) = (_, _) |- _ => inversion H; subst; clear H
       end.
  all: try match goal with
       | Hd : (ndone ?a = 1%nat -> _) |- _ =>
         destruct (Nat.eq_dec (ndone a) 1) as [Hx|Hx]; [destruct (Hd Hx) as [Hx1 Hx2]|]; clear Hd
       | Hd : (S (ndone ?a) = 1%nat -> _) |- _ =>
         destruct (Nat.eq_dec (ndone a) 0) as [Hx|Hx]; [destruct (Hd (f_equal S Hx)) as [Hx1 Hx2]|]; clear Hd
       end.
  all: try congruence.
  all: try (exfalso; lia).
  all: (split; [|split; [|split; [|split; [|split]]]]).
  all: try lia.
  all: try congruence.
  all: try solve [left; split; [reflexivity | congruence]].
  all: try solve [right; do 3 eexists; repeat split; try reflexivity; try eassumption; congruence].
  all: try solve [left; reflexivity].
  all: try solve [right; eexists; repeat split; try reflexivity;
                  auto using map_erase_nonnil, app_nonnil_r, map_nonnil].
  all: try solve [intro Hy; first [ exfalso; lia | exfalso; congruence
                  | split; [congruence | auto using map_erase_nonnil, app_nonnil_r, map_nonnil] ]].
Qed.
