From OlaBase Require Import Bytes.
From C12 Require Import Gen Model.
Local Open Scope N_scope.

Ltac unf := unfold step, do_op, handle, continue_overflow, disc_complete, run_callback, take_next,
  start_disc, maybe_send, mock_send, note_call in *.

(* ---------- termination ---------- *)
Lemma wag_app a b : wag (a ++ b) = (wag a + wag b)%nat.
Proof. induction a; cbn [wag app]; lia. Qed.
Lemma wag_map_fop cb : wag (map FOp cb) = wops cb.
Proof. induction cb; cbn [wag map wops wframe]; lia. Qed.
Lemma wq_app a b : wq (a ++ b) = (wq a + wq b)%nat.
Proof. induction a as [|[? ?] a IH]; cbn [wq app]; lia. Qed.
Lemma wpd_app a b : wpd (a ++ b) = (wpd a + wpd b)%nat.
Proof. induction a as [|[? ?] a IH]; cbn [wpd app]; lia. Qed.
Lemma wrd_app a b : wrd (a ++ b) = (wrd a + wrd b)%nat.
Proof. induction a as [|[? [?|]] a IH]; cbn [wrd app]; lia. Qed.
Lemma wrd_reqs l : wrd (map (fun e : bool * N * list op => (snd (fst e), Some (snd e))) l) = wpd l.
Proof. induction l as [|[[? ?] ?] l IH]; cbn [wrd wpd map fst snd]; lia. Qed.
Lemma wrd_erase l : wrd (map (fun e : N * option (list op) => (fst e, @None (list op))) l) = 0%nat.
Proof. induction l as [|[? ?] l IH]; cbn [wrd map fst snd]; lia. Qed.
Lemma wag_disc_frames nulls run l :
  (wag (disc_frames nulls run l) <= wrd l)%nat.
Proof.
  unfold disc_frames in *. induction l as [|[? [cb|]] l IH]; cbn [flat_map wrd snd fst]; try (cbn; lia).
  rewrite wag_app. cbn [wag wframe]. rewrite wag_map_fop. lia.
Qed.

Lemma mock_send_w id s ag s' ag' :
  mock_send id s ag = (s', ag') -> (measure s' ag' <= measure s ag)%nat.
Proof.
  unfold mock_send, note_call, measure, wst. intros H. cbn in H.
  destruct (h_paused s); cbn in H;
  destruct (m_script s) as [|[r|] ms] eqn:E; inversion H; subst; cbn; rewrite ?E; cbn; lia.
Qed.
Lemma maybe_send_w s ag s' ag' :
  maybe_send s ag = (s', ag') -> (measure s' ag' <= measure s ag)%nat.
Proof.
  unfold maybe_send. destruct (s_queue s) as [|[id cb] q] eqn:E; intros H.
  - inversion H; subst; lia.
  - apply mock_send_w in H. unfold measure, wst in *. cbn in H. lia.
Qed.
Lemma start_disc_w s ag s' ag' :
  start_disc s ag = (s', ag') -> (measure s' ag' <= measure s ag)%nat.
Proof.
  unfold start_disc, note_call, measure, wst. intros H. cbn in H.
  destruct (h_paused s); cbn in H;
  destruct (m_dscript s) as [|[|] ds] eqn:E; inversion H; subst; cbn; rewrite ?E; cbn;
  rewrite ?wrd_app, ?wrd_reqs; lia.
Qed.
Lemma take_next_w s ag s' ag' :
  take_next s ag = (s', ag') -> (measure s' ag' <= measure s ag)%nat.
Proof.
  unfold take_next. intros H.
  destruct (negb (s_active s) || s_pending s || negb (is_nil (s_rdisc s))).
  - inversion H; subst; lia.
  - destruct (negb (is_nil (s_pdisc s))); [eapply start_disc_w|eapply maybe_send_w]; eauto.
Qed.
Lemma run_callback_w rep parts fr s ag s' ag' :
  s_queue s <> [] ->
  run_callback rep parts fr s ag = (s', ag') -> (measure s' ag' + 2 <= measure s ag)%nat.
Proof.
  unfold run_callback, measure, wst. intros Hq H.
  destruct (s_queue s) as [|[id cb] q] eqn:E; [congruence|].
  inversion H; subst; cbn. rewrite wag_app, wag_map_fop. lia.
Qed.
Lemma continue_overflow_w s ag s' ag' :
  continue_overflow s ag = (s', ag') -> (measure s' ag' <= measure s ag)%nat.
Proof.
  unfold continue_overflow. destruct (s_active s); intros H.
  - eapply maybe_send_w; eauto.
  - inversion H; subst; lia.
Qed.
Lemma handle_w from rep s ag s' ag' :
  handle from rep s ag = (s', ag') -> (measure s' ag' <= measure s ag)%nat.
Proof.
  unfold handle. intros H.
  destruct (is_nil (s_queue (set_s_pending false s))) eqn:Eq.
  { inversion H; subst. unfold measure, wst; cbn; lia. }
  assert (Hq : s_queue s <> []). { cbn in Eq. destruct (s_queue s); [discriminate|congruence]. }
  repeat match type of H with
  | context [match ?x with _ => _ end] => destruct x eqn:?
  end;
  try (apply run_callback_w in H; [|cbn; assumption]; unfold measure, wst in *; cbn in *; lia);
  try (apply continue_overflow_w in H; unfold measure, wst in *; cbn in *; lia).
Qed.
Lemma disc_complete_w run s ag s' ag' :
  disc_complete run s ag = (s', ag') -> (measure s' ag' <= measure s ag + 2)%nat.
Proof.
  unfold disc_complete, measure, wst. intros H. inversion H; subst; cbn.
  rewrite wag_app, wrd_erase. cbn [wag wframe].
  pose proof (wag_disc_frames (s_nulls s) run (s_rdisc s)). lia.
Qed.

Lemma destroy_next_w s ag s' ag' :
  destroy_next s ag = (s', ag') -> (measure s' ag' < measure s (FDestroy :: ag))%nat.
Proof.
  unfold destroy_next. intros H. destruct (s_queue s) as [|[id cb] q] eqn:E.
  - inversion H; subst. unfold measure; cbn. lia.
  - inversion H; subst. unfold measure, wst; cbn. rewrite E. cbn. rewrite wag_app, wag_map_fop. cbn. lia.
Qed.

Lemma step_decreases s f ag s' ag' :
  step s f ag = (s', ag') -> (measure s' ag' < measure s (f :: ag))%nat.
Proof.
  destruct f as [o| | | |]; cbn [step]; intros H.
  - destruct o as [sn cb|full nl cb| | |r|]; cbn [do_op] in H.
    + destruct sn; destruct (s_max s <=? len (s_queue s)).
      * inversion H; subst. unfold measure, wst; cbn. fold (wops cb). lia.
      * apply take_next_w in H. unfold measure, wst in *; cbn in *. rewrite wq_app in H. cbn in H.
        fold (wops cb). lia.
      * inversion H; subst. unfold measure, wst; cbn. rewrite wag_app, wag_map_fop.
        fold (wops cb). lia.
      * apply take_next_w in H. unfold measure, wst in *; cbn in *. rewrite wq_app in H. cbn in H.
        fold (wops cb). lia.
    + destruct (s_discov s && negb (h_destroying s)).
      * apply take_next_w in H. unfold measure, wst in *; cbn in *. rewrite wpd_app in H.
        destruct nl; cbn in H; fold (wops cb); fold (wops cb) in H; lia.
      * inversion H; subst. unfold measure; cbn. lia.
    + inversion H; subst. unfold measure, wst; cbn. lia.
    + apply take_next_w in H. unfold measure, wst in *; cbn in *. lia.
    + destruct (h_destroying s); [inversion H; subst; unfold measure; cbn; lia|].
      destruct (m_out s) eqn:E.
      * inversion H; subst. unfold measure; cbn. lia.
      * apply handle_w in H. unfold measure, wst in *; cbn in *. lia.
    + destruct (h_destroying s); [inversion H; subst; unfold measure; cbn; lia|].
      destruct (m_dout s) eqn:E.
      * inversion H; subst. unfold measure; cbn. lia.
      * apply disc_complete_w in H. unfold measure, wst in *; cbn in *. lia.
  - apply take_next_w in H. unfold measure in *; cbn in *. lia.
  - inversion H; subst. unfold measure, wst; cbn. lia.
  - apply take_next_w in H. unfold measure, wst in *; cbn in *. lia.
  - destruct (h_destroying s); [apply destroy_next_w; exact H|].
    inversion H; subst. unfold measure; cbn. lia.
Qed.

Lemma run_enough : forall fuel s ag, (measure s ag <= fuel)%nat -> run fuel s ag <> None.
Proof.
  induction fuel as [|k IH]; intros s ag Hm.
  - destruct ag as [|f ag]; cbn; [discriminate|].
    exfalso. unfold measure in Hm. cbn in Hm. destruct f as [[]| | | |]; cbn in Hm; lia.
  - destruct ag as [|f ag]; cbn [run]; [discriminate|].
    destruct (step s f ag) as [s' ag'] eqn:E. apply step_decreases in E. apply IH. lia.
Qed.
