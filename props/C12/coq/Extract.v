From Coq Require Extraction.
From Coq Require Import ExtrOcamlBasic.
From OlaBase Require Import Bytes.
From C12 Require Import Gen Model.
Extraction Language OCaml.
Extraction "model.ml" io_witness N.div_eucl init exec_op destroy_run dups sorted_lt accepted_ids
  bad_data lost measure dv_of.
