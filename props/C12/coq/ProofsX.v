(* C12: corollaries - Resume() starts a waiting discovery; a run only takes requests that were already
   queued; the log of runs only grows by appending. *)
From OlaBase Require Import Bytes.
From C12 Require Import Gen Model ProofsA ProofsE.
Local Open Scope N_scope.

Lemma take_next_starts s ag :
  s_active s = true -> s_pending s = false -> s_rdisc s = [] -> s_pdisc s <> [] ->
  take_next s ag = start_disc s ag.
Proof.
  unfold take_next. intros -> -> -> Hd. cbn [negb orb is_nil].
  destruct (s_pdisc s); [congruence|reflexivity].
Qed.

Lemma resume_starts_disc s ag s' ag' :
  s_pending s = false -> s_rdisc s = [] -> s_pdisc s <> [] ->
  step s (FOp Resume) ag = (s', ag') ->
  m_dout s' = m_dout s ++ [m_nrun s] /\ s_pdisc s' = [] /\ s_rdisc s' <> [] /\
  exists full, g_runs s' = g_runs s ++ [(m_nrun s, full, map (fun e => fst e) (s_pdisc s))].
Proof.
  intros Hp Hr Hd H. cbn [step do_op] in H.
  rewrite take_next_starts in H; [|reflexivity|exact Hp|exact Hr|exact Hd].
  apply start_disc_eff in H. destruct H as (K1 & K2 & K3 & _ & _ & K6 & _). cbn in K1, K2, K3, K6.
  split; [exact K6|]. split; [exact K2|].
  split; [rewrite K3, Hr; cbn [app]; apply map_nonnil; exact Hd|].
  eexists. exact K1.
Qed.

(* the log of runs only grows, one record at a time *)
Definition runs_step (s s' : st) : Prop :=
  g_runs s' = g_runs s \/ exists e, g_runs s' = g_runs s ++ [e].
Lemma runs_ef s s' : eframe s s' -> runs_step s s'.
Proof. intros (K1 & _). left. exact K1. Qed.
Lemma take_next_runs s ag s' ag' : take_next s ag = (s', ag') -> runs_step s s'.
Proof.
  unfold take_next. intros H.
  destruct (negb (s_active s) || s_pending s || negb (is_nil (s_rdisc s))).
  - inversion H; subst. left; reflexivity.
  - destruct (negb (is_nil (s_pdisc s))).
    + apply start_disc_eff in H. destruct H as (K1 & _). right. eexists. exact K1.
    + apply maybe_send_ef in H. destruct H. apply runs_ef. assumption.
Qed.
Lemma step_runs s f ag s' ag' : step s f ag = (s', ag') -> runs_step s s'.
Proof.
  intros H. destruct f as [[sn cb|full nl cb| | |r|]| | | |]; cbn [step do_op] in H.
  - destruct (s_max s <=? len (s_queue s)).
    + inversion H; subst. left; reflexivity.
    + apply take_next_runs in H. exact H.
  - destruct (s_discov s && negb (h_destroying s)).
    + apply take_next_runs in H. exact H.
    + inversion H; subst. left; reflexivity.
  - inversion H; subst. left; reflexivity.
  - apply take_next_runs in H. exact H.
  - destruct (h_destroying s); [inversion H; subst; left; reflexivity|].
    destruct (m_out s).
    + inversion H; subst. left; reflexivity.
    + apply handle_ef in H. destruct H as [H _]. apply runs_ef in H. exact H.
  - destruct (h_destroying s); [inversion H; subst; left; reflexivity|].
    destruct (m_dout s).
    + inversion H; subst. left; reflexivity.
    + unfold disc_complete in H. inversion H; subst. left; reflexivity.
  - apply take_next_runs in H. exact H.
  - inversion H; subst. left; reflexivity.
  - apply take_next_runs in H. exact H.
  - destruct (h_destroying s); [|inversion H; subst; left; reflexivity].
    unfold destroy_next in H. destruct (s_queue s) as [|[id cb] q]; inversion H; subst; left; reflexivity.
Qed.

(* every request a run has taken has an id below the request counter: it had been queued *)
Lemma runs_below s ag :
  EI s ag -> forall e, In e (g_runs s) -> forall d, In d (run_dids e) -> d < h_ndid s.
Proof.
  intros (E1 & _) e He d Hd.
  assert (Hin : In d (nseq (N.to_nat (h_ndid s)))).
  { rewrite <- E1. apply in_or_app. left. apply in_flat_map. eauto. }
  pose proof (nseq_lt (N.to_nat (h_ndid s))) as Hf. rewrite Forall_forall in Hf. apply Hf in Hin. lia.
Qed.
