(* C12: nothing reaches the underlying controller while the user-level paused flag is set. *)
From OlaBase Require Import Bytes.
From C12 Require Import Gen Model.
Local Open Scope N_scope.

Definition InvB (s : st) : Prop := h_paused s = negb (s_active s) /\ g_psends s = 0.
Definition bview (s : st) := (h_paused s, s_active s, g_psends s).

Lemma InvB_view s s' : bview s' = bview s -> InvB s -> InvB s'.
Proof. unfold bview, InvB. intros E [H1 H2]. inversion E as [[E1 E2 E3]]. split; congruence. Qed.

Lemma mock_send_B id s ag s' ag' :
  h_paused s = false -> mock_send id s ag = (s', ag') -> bview s' = bview s.
Proof.
  unfold mock_send, note_call, bview. intros Hp H. cbn in H. rewrite Hp in H. cbn in H.
  destruct (m_script s) as [|[r|] ms]; inversion H; subst; reflexivity.
Qed.
Lemma maybe_send_B s ag s' ag' :
  h_paused s = false -> maybe_send s ag = (s', ag') -> bview s' = bview s.
Proof.
  unfold maybe_send. intros Hp H. destruct (s_queue s) as [|[id cb] q].
  - inversion H; subst; reflexivity.
  - apply mock_send_B in H; [|exact Hp]. rewrite H. reflexivity.
Qed.
Lemma start_disc_B s ag s' ag' :
  h_paused s = false -> start_disc s ag = (s', ag') -> bview s' = bview s.
Proof.
  unfold start_disc, note_call, bview. intros Hp H. cbn in H. rewrite Hp in H. cbn in H.
  destruct (m_dscript s) as [|[|] ds]; inversion H; subst; reflexivity.
Qed.
Lemma take_next_B s ag s' ag' :
  h_paused s = negb (s_active s) -> take_next s ag = (s', ag') -> bview s' = bview s.
Proof.
  unfold take_next. intros Hp H.
  destruct (s_active s) eqn:Ea; cbn in H.
  - cbn in Hp. destruct (s_pending s || negb (is_nil (s_rdisc s))).
    + inversion H; subst; reflexivity.
    + destruct (negb (is_nil (s_pdisc s))); [eapply start_disc_B|eapply maybe_send_B]; eauto.
  - inversion H; subst; reflexivity.
Qed.
Lemma continue_overflow_B s ag s' ag' :
  h_paused s = negb (s_active s) -> continue_overflow s ag = (s', ag') -> bview s' = bview s.
Proof.
  unfold continue_overflow. intros Hp H. destruct (s_active s) eqn:Ea.
  - eapply maybe_send_B; eauto.
  - inversion H; subst; reflexivity.
Qed.
Lemma run_callback_B rep parts fr s ag s' ag' :
  run_callback rep parts fr s ag = (s', ag') -> bview s' = bview s.
Proof.
  unfold run_callback. intros H. destruct (s_queue s) as [|[id cb] q]; inversion H; subst; reflexivity.
Qed.
Lemma handle_B from rep s ag s' ag' :
  h_paused s = negb (s_active s) -> handle from rep s ag = (s', ag') -> bview s' = bview s.
Proof.
  unfold handle. intros Hp H.
  destruct (is_nil (s_queue (set_s_pending false s))).
  { inversion H; subst. reflexivity. }
  repeat match type of H with
  | context [match ?x with _ => _ end] => destruct x eqn:?
  end;
  try (apply run_callback_B in H; rewrite H; reflexivity);
  try (apply continue_overflow_B in H; [rewrite H; reflexivity|exact Hp]).
Qed.

Lemma step_B s f ag s' ag' : InvB s -> step s f ag = (s', ag') -> InvB s'.
Proof.
  intros HB H. pose proof HB as [Hp Hs].
  destruct f as [[sn cb|full nl cb| | |r|]| | | |]; cbn [step do_op] in H.
  - destruct (s_max s <=? len (s_queue s)).
    + inversion H; subst. eapply InvB_view; [|exact HB]. reflexivity.
    + apply take_next_B in H; [|exact Hp]. eapply InvB_view; [|exact HB]. rewrite H. reflexivity.
  - destruct (s_discov s && negb (h_destroying s)).
    + apply take_next_B in H; [|exact Hp]. eapply InvB_view; [|exact HB]. rewrite H. reflexivity.
    + inversion H; subst. exact HB.
  - inversion H; subst. split; cbn; auto.
  - apply take_next_B in H; [|reflexivity]. unfold bview in H. cbn in H. inversion H as [[E1 E2 E3]].
    split; [rewrite E1, E2; reflexivity | congruence].
  - destruct (h_destroying s); [inversion H; subst; exact HB|].
    destruct (m_out s).
    + inversion H; subst. exact HB.
    + apply handle_B in H; [|exact Hp]. eapply InvB_view; [|exact HB]. rewrite H. reflexivity.
  - destruct (h_destroying s); [inversion H; subst; exact HB|].
    destruct (m_dout s).
    + inversion H; subst. exact HB.
    + unfold disc_complete in H. inversion H; subst. eapply InvB_view; [|exact HB]. reflexivity.
  - apply take_next_B in H; [|exact Hp]. eapply InvB_view; [|exact HB]. exact H.
  - inversion H; subst. eapply InvB_view; [|exact HB]. reflexivity.
  - apply take_next_B in H; [|exact Hp]. eapply InvB_view; [|exact HB]. rewrite H. reflexivity.
  - destruct (h_destroying s); [|inversion H; subst; exact HB].
    unfold destroy_next in H. destruct (s_queue s) as [|[id cb] q]; inversion H; subst; [exact HB|].
    eapply InvB_view; [|exact HB]. reflexivity.
Qed.
