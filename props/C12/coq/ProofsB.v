From OlaBase Require Import Bytes.
From Coq Require Import Sorted.
From C12 Require Import Gen Model.
Local Open Scope N_scope.

Ltac unf := unfold step, do_op, handle, continue_overflow, disc_complete, run_callback, take_next,
  start_disc, maybe_send, mock_send, note_call in *.
Ltac split_eq H :=
  cbn in H;
  repeat (match type of H with
          | context [match ?x with _ => _ end] => destruct x eqn:?; cbn in H
          | context [if ?x then _ else _] => destruct x eqn:?; cbn in H
          end);
  inversion H; subst; clear H.

(* ---------- nothing is sent while paused ---------- *)
Definition InvB (s : st) : Prop := h_paused s = negb (s_active s) /\ g_psends s = 0.

Lemma step_B s f ag s' ag' : InvB s -> step s f ag = (s', ag') -> InvB s'.
Proof.
  unfold InvB. intros (Hp & Hs) H. unf.
  destruct f as [[cb|full cb| | |r|]| | |]; cbn in H.
  all: rewrite ?Hp in H.
  all: split_eq H; cbn.
  all: repeat match goal with
       | H : negb _ = true |- _ => apply negb_true_iff in H
       | H : negb _ = false |- _ => apply negb_false_iff in H
       | H : _ || _ = false |- _ => apply orb_false_iff in H; destruct H
       end.
  all: try congruence.
  all: split; try congruence; try lia.
  all: try (rewrite Hp; congruence).
  all: try (destruct (s_active s); cbn in *; congruence).
Qed.

