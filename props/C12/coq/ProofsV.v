(* C12: the verdict values the model driver prints are constants (so agreement of the
   implementation's independently computed verdict keys with them means those are 0 / <= 1). *)
From OlaBase Require Import Bytes.
From Coq Require Import Sorted.
From C12 Require Import Gen Model ProofsD.
Local Open Scope N_scope.

Lemma dups_zero l : (forall i, (count_id i l <= 1)%nat) -> dups l = O.
Proof.
  induction l as [|c r IH]; intros H; cbn [dups]; [reflexivity|].
  assert (Hr : forall i, (count_id i r <= 1)%nat).
  { intros i. specialize (H i). cbn [count_id] in H. lia. }
  rewrite (IH Hr). specialize (H (c_id c)). cbn [count_id] in H. rewrite N.eqb_refl in H.
  assert (count_id (c_id c) r = O) by lia. rewrite H0. reflexivity.
Qed.

Lemma filter_none {A} (f : A -> bool) l : (forall x, In x l -> f x = false) -> filter f l = [].
Proof.
  induction l as [|a l IH]; intros H; cbn; [reflexivity|].
  rewrite (H a (or_introl eq_refl)). apply IH. intros x Hx. apply H. right. exact Hx.
Qed.

Lemma lost_zero s :
  (forall i, count_id i (g_done s) = if i <? h_next s then 1%nat else O) -> lost s = O.
Proof.
  intros H. unfold lost. rewrite filter_none; [reflexivity|].
  intros x Hx. apply in_map_iff in Hx. destruct Hx as (k & <- & Hk). apply in_seq in Hk.
  rewrite H. destruct (N.ltb_spec (N.of_nat k) (h_next s)); [reflexivity|lia].
Qed.

Lemma comp_data_ok_true c :
  comp_ok c -> (c_kind c = K_ANSWERED \/ c_reply c = mkReply RDM_FAILED_TO_SEND None 0) ->
  comp_data_ok c = true.
Proof.
  intros Hok Hk. unfold comp_data_ok.
  destruct (r_resp (c_reply c)) as [rs|] eqn:Er; [|reflexivity].
  destruct Hk as [Hk|Hk]; [|rewrite Hk in Er; discriminate].
  destruct (Hok Hk) as (_ & _ & Hr). rewrite Er in Hr. destruct Hr as (Hd & Ht & _).
  apply andb_true_intro. split.
  - destruct (list_eq_dec N.eq_dec (rs_data rs) (concat (map rs_data (c_parts c)))); [reflexivity|contradiction].
  - apply forallb_forall. intros p Hp. rewrite Forall_forall in Ht. specialize (Ht p Hp).
    destruct Ht as [->|(d & ->)]; [reflexivity|apply N.eqb_refl].
Qed.
Lemma bad_zero l :
  Forall comp_ok l ->
  Forall (fun c => c_kind c = K_ANSWERED \/ c_reply c = mkReply RDM_FAILED_TO_SEND None 0) l ->
  bad_data l = O.
Proof.
  intros H1 H2. unfold bad_data. rewrite filter_none; [reflexivity|].
  intros c Hc. rewrite Forall_forall in H1, H2. rewrite comp_data_ok_true; auto.
Qed.

Lemma sorted_lt_true l : StronglySorted N.lt l -> sorted_lt l = true.
Proof.
  induction 1 as [|a l Hs IH Ha]; [reflexivity|]. cbn [sorted_lt].
  destruct l as [|b l]; [reflexivity|]. inversion Ha; subst.
  apply andb_true_intro. split; [apply N.ltb_lt; assumption|exact IH].
Qed.
