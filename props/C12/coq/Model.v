(* C12 — executable model of ola::rdm::QueueingRDMController and
   DiscoverableQueueingRDMController (common/rdm/QueueingRDMController.cpp, with the fixes of
   props/C12/fixes applied), of RDMResponse::CombineResponses (common/rdm/RDMCommand.cpp), and of the
   scripted mock underlying controller / scripted user callbacks of the correspondence harness.

   Re-entrancy is first class.  Every C++ call that can re-enter the controller (a user completion
   callback, a synchronous answer of the underlying controller) is a *frame* on an explicit agenda
   (= the C++ call stack, innermost first); `step` executes one frame, `run` iterates it on fuel and
   returns None (= OutOfFuel) only if the fuel was too small (Proofs: never, for fuel = measure).
   User callbacks are scripts: the list of operations the callback performs on the controller.

   Fields s_xxx: the C++ members.  m_xxx: the mock underlying controller.  h_xxx: harness bookkeeping.
   g_xxx: ghost logs used by the theorems / printed by the driver (no influence on the others). *)
From OlaBase Require Import Bytes.
From C12 Require Import Gen.
Local Open Scope N_scope.

(* An RDM response as far as CombineResponses / HandleRDMResponse look at it. *)
Record resp := mkResp {
  rs_type : N;        (* ResponseType(): RDM_ACK, ACK_TIMER, NACK_REASON, ACK_OVERFLOW *)
  rs_src : N;         (* SourceUID() *)
  rs_cc : N;          (* CommandClass() *)
  rs_mc : N;          (* MessageCount() *)
  rs_data : list N;   (* ParamData() *)
  rs_hdr : N * N * N * N }.  (* (ParamId(), DestinationUID(), TransactionNumber(), SubDevice()) *)

Record reply := mkReply {
  r_status : N;            (* StatusCode() *)
  r_resp : option resp;    (* Response(), None = NULL *)
  r_frames : N }.          (* Frames().size() *)

(* what the mock underlying controller does with one SendRDMRequest call *)
Inductive mitem := Sync (r : reply) | Later.

Inductive op :=
| Submit (null : bool) (cb : list op) (* SendRDMRequest(new request, callback running cb); null: the
                                        caller passes a NULL on_complete (cb is then ignored) *)
| Disc (full null : bool) (cb : list op)  (* RunFullDiscovery / RunIncrementalDiscovery; null: the
                                           caller passes a NULL callback (cb is then ignored) *)
| Pause
| Resume
| Deliver (r : reply)   (* the underlying controller answers its oldest outstanding request *)
| DeliverDisc.          (* the underlying controller finishes its oldest outstanding discovery *)

Inductive frame :=
| FOp (o : op)
| FTakeNext                   (* the pending call of TakeNextAction() after a callback returned *)
| FDiscLog (null : bool) (did run : N)  (* DiscoveryComplete loop: entry of discovery request did; its
                                           callback runs unless the pointer is NULL *)
| FDiscDone                   (* DiscoveryComplete: m_discovery_callbacks.clear(); TakeNextAction() *)
| FDestroy.                   (* ~QueueingRDMController: the loop that fails what is (still) queued *)

Record comp := mkComp {
  c_id : N;
  c_kind : N;                 (* 0 answered, 1 rejected (queue full), 2 destroyed *)
  c_reply : reply;
  c_parts : list resp;        (* ghost: the responses (as handed out by the mock) this completion was built from *)
  c_from : list N }.          (* ghost: ids of the dispatches whose answers (as handed out by the mock) built it *)

Inductive tev :=
| TSend (id : N)              (* underlying SendRDMRequest called with a copy of request id *)
| TDisc (full : bool)         (* underlying RunFull/IncrementalDiscovery called *)
| TComp (c : comp)            (* user completion callback of a request runs *)
| TDiscCb (did run : N).      (* user discovery callback runs *)

Record st := mkSt {
  s_max : N;
  s_discov : bool;
  s_queue : list (N * list op);
  s_pending : bool;
  s_active : bool;
  s_resp : option resp;
  s_nframes : N;
  s_pdisc : list (bool * N * list op);
  s_rdisc : list (N * option (list op));
  m_out : list N;
  m_dout : list N;
  m_script : list mitem;
  m_dscript : list bool;
  m_nrun : N;
  h_next : N;
  h_ndid : N;
  h_paused : bool;
  g_parts : list resp;
  g_conc : N;
  g_psends : N;
  g_fatal : bool;
  g_accepted : list N;
  g_done : list comp;
  g_runs : list (N * bool * list (bool * N));
  g_ddone : list (N * N);
  g_trace : list tev;
  g_from : list N;
  h_open : N;
  g_rj : N;
  h_destroying : bool;
  s_nulls : list N;
  s_qnulls : list N
}.

Definition set_s_max (v : N) (s : st) : st :=
  mkSt v (s_discov s) (s_queue s) (s_pending s) (s_active s) (s_resp s) (s_nframes s) (s_pdisc s) (s_rdisc s) (m_out s) (m_dout s) (m_script s) (m_dscript s) (m_nrun s) (h_next s) (h_ndid s) (h_paused s) (g_parts s) (g_conc s) (g_psends s) (g_fatal s) (g_accepted s) (g_done s) (g_runs s) (g_ddone s) (g_trace s) (g_from s) (h_open s) (g_rj s) (h_destroying s) (s_nulls s) (s_qnulls s).
Definition set_s_discov (v : bool) (s : st) : st :=
  mkSt (s_max s) v (s_queue s) (s_pending s) (s_active s) (s_resp s) (s_nframes s) (s_pdisc s) (s_rdisc s) (m_out s) (m_dout s) (m_script s) (m_dscript s) (m_nrun s) (h_next s) (h_ndid s) (h_paused s) (g_parts s) (g_conc s) (g_psends s) (g_fatal s) (g_accepted s) (g_done s) (g_runs s) (g_ddone s) (g_trace s) (g_from s) (h_open s) (g_rj s) (h_destroying s) (s_nulls s) (s_qnulls s).
Definition set_s_queue (v : list (N * list op)) (s : st) : st :=
  mkSt (s_max s) (s_discov s) v (s_pending s) (s_active s) (s_resp s) (s_nframes s) (s_pdisc s) (s_rdisc s) (m_out s) (m_dout s) (m_script s) (m_dscript s) (m_nrun s) (h_next s) (h_ndid s) (h_paused s) (g_parts s) (g_conc s) (g_psends s) (g_fatal s) (g_accepted s) (g_done s) (g_runs s) (g_ddone s) (g_trace s) (g_from s) (h_open s) (g_rj s) (h_destroying s) (s_nulls s) (s_qnulls s).
Definition set_s_pending (v : bool) (s : st) : st :=
  mkSt (s_max s) (s_discov s) (s_queue s) v (s_active s) (s_resp s) (s_nframes s) (s_pdisc s) (s_rdisc s) (m_out s) (m_dout s) (m_script s) (m_dscript s) (m_nrun s) (h_next s) (h_ndid s) (h_paused s) (g_parts s) (g_conc s) (g_psends s) (g_fatal s) (g_accepted s) (g_done s) (g_runs s) (g_ddone s) (g_trace s) (g_from s) (h_open s) (g_rj s) (h_destroying s) (s_nulls s) (s_qnulls s).
Definition set_s_active (v : bool) (s : st) : st :=
  mkSt (s_max s) (s_discov s) (s_queue s) (s_pending s) v (s_resp s) (s_nframes s) (s_pdisc s) (s_rdisc s) (m_out s) (m_dout s) (m_script s) (m_dscript s) (m_nrun s) (h_next s) (h_ndid s) (h_paused s) (g_parts s) (g_conc s) (g_psends s) (g_fatal s) (g_accepted s) (g_done s) (g_runs s) (g_ddone s) (g_trace s) (g_from s) (h_open s) (g_rj s) (h_destroying s) (s_nulls s) (s_qnulls s).
Definition set_s_resp (v : option resp) (s : st) : st :=
  mkSt (s_max s) (s_discov s) (s_queue s) (s_pending s) (s_active s) v (s_nframes s) (s_pdisc s) (s_rdisc s) (m_out s) (m_dout s) (m_script s) (m_dscript s) (m_nrun s) (h_next s) (h_ndid s) (h_paused s) (g_parts s) (g_conc s) (g_psends s) (g_fatal s) (g_accepted s) (g_done s) (g_runs s) (g_ddone s) (g_trace s) (g_from s) (h_open s) (g_rj s) (h_destroying s) (s_nulls s) (s_qnulls s).
Definition set_s_nframes (v : N) (s : st) : st :=
  mkSt (s_max s) (s_discov s) (s_queue s) (s_pending s) (s_active s) (s_resp s) v (s_pdisc s) (s_rdisc s) (m_out s) (m_dout s) (m_script s) (m_dscript s) (m_nrun s) (h_next s) (h_ndid s) (h_paused s) (g_parts s) (g_conc s) (g_psends s) (g_fatal s) (g_accepted s) (g_done s) (g_runs s) (g_ddone s) (g_trace s) (g_from s) (h_open s) (g_rj s) (h_destroying s) (s_nulls s) (s_qnulls s).
Definition set_s_pdisc (v : list (bool * N * list op)) (s : st) : st :=
  mkSt (s_max s) (s_discov s) (s_queue s) (s_pending s) (s_active s) (s_resp s) (s_nframes s) v (s_rdisc s) (m_out s) (m_dout s) (m_script s) (m_dscript s) (m_nrun s) (h_next s) (h_ndid s) (h_paused s) (g_parts s) (g_conc s) (g_psends s) (g_fatal s) (g_accepted s) (g_done s) (g_runs s) (g_ddone s) (g_trace s) (g_from s) (h_open s) (g_rj s) (h_destroying s) (s_nulls s) (s_qnulls s).
Definition set_s_rdisc (v : list (N * option (list op))) (s : st) : st :=
  mkSt (s_max s) (s_discov s) (s_queue s) (s_pending s) (s_active s) (s_resp s) (s_nframes s) (s_pdisc s) v (m_out s) (m_dout s) (m_script s) (m_dscript s) (m_nrun s) (h_next s) (h_ndid s) (h_paused s) (g_parts s) (g_conc s) (g_psends s) (g_fatal s) (g_accepted s) (g_done s) (g_runs s) (g_ddone s) (g_trace s) (g_from s) (h_open s) (g_rj s) (h_destroying s) (s_nulls s) (s_qnulls s).
Definition set_m_out (v : list N) (s : st) : st :=
  mkSt (s_max s) (s_discov s) (s_queue s) (s_pending s) (s_active s) (s_resp s) (s_nframes s) (s_pdisc s) (s_rdisc s) v (m_dout s) (m_script s) (m_dscript s) (m_nrun s) (h_next s) (h_ndid s) (h_paused s) (g_parts s) (g_conc s) (g_psends s) (g_fatal s) (g_accepted s) (g_done s) (g_runs s) (g_ddone s) (g_trace s) (g_from s) (h_open s) (g_rj s) (h_destroying s) (s_nulls s) (s_qnulls s).
Definition set_m_dout (v : list N) (s : st) : st :=
  mkSt (s_max s) (s_discov s) (s_queue s) (s_pending s) (s_active s) (s_resp s) (s_nframes s) (s_pdisc s) (s_rdisc s) (m_out s) v (m_script s) (m_dscript s) (m_nrun s) (h_next s) (h_ndid s) (h_paused s) (g_parts s) (g_conc s) (g_psends s) (g_fatal s) (g_accepted s) (g_done s) (g_runs s) (g_ddone s) (g_trace s) (g_from s) (h_open s) (g_rj s) (h_destroying s) (s_nulls s) (s_qnulls s).
Definition set_m_script (v : list mitem) (s : st) : st :=
  mkSt (s_max s) (s_discov s) (s_queue s) (s_pending s) (s_active s) (s_resp s) (s_nframes s) (s_pdisc s) (s_rdisc s) (m_out s) (m_dout s) v (m_dscript s) (m_nrun s) (h_next s) (h_ndid s) (h_paused s) (g_parts s) (g_conc s) (g_psends s) (g_fatal s) (g_accepted s) (g_done s) (g_runs s) (g_ddone s) (g_trace s) (g_from s) (h_open s) (g_rj s) (h_destroying s) (s_nulls s) (s_qnulls s).
Definition set_m_dscript (v : list bool) (s : st) : st :=
  mkSt (s_max s) (s_discov s) (s_queue s) (s_pending s) (s_active s) (s_resp s) (s_nframes s) (s_pdisc s) (s_rdisc s) (m_out s) (m_dout s) (m_script s) v (m_nrun s) (h_next s) (h_ndid s) (h_paused s) (g_parts s) (g_conc s) (g_psends s) (g_fatal s) (g_accepted s) (g_done s) (g_runs s) (g_ddone s) (g_trace s) (g_from s) (h_open s) (g_rj s) (h_destroying s) (s_nulls s) (s_qnulls s).
Definition set_m_nrun (v : N) (s : st) : st :=
  mkSt (s_max s) (s_discov s) (s_queue s) (s_pending s) (s_active s) (s_resp s) (s_nframes s) (s_pdisc s) (s_rdisc s) (m_out s) (m_dout s) (m_script s) (m_dscript s) v (h_next s) (h_ndid s) (h_paused s) (g_parts s) (g_conc s) (g_psends s) (g_fatal s) (g_accepted s) (g_done s) (g_runs s) (g_ddone s) (g_trace s) (g_from s) (h_open s) (g_rj s) (h_destroying s) (s_nulls s) (s_qnulls s).
Definition set_h_next (v : N) (s : st) : st :=
  mkSt (s_max s) (s_discov s) (s_queue s) (s_pending s) (s_active s) (s_resp s) (s_nframes s) (s_pdisc s) (s_rdisc s) (m_out s) (m_dout s) (m_script s) (m_dscript s) (m_nrun s) v (h_ndid s) (h_paused s) (g_parts s) (g_conc s) (g_psends s) (g_fatal s) (g_accepted s) (g_done s) (g_runs s) (g_ddone s) (g_trace s) (g_from s) (h_open s) (g_rj s) (h_destroying s) (s_nulls s) (s_qnulls s).
Definition set_h_ndid (v : N) (s : st) : st :=
  mkSt (s_max s) (s_discov s) (s_queue s) (s_pending s) (s_active s) (s_resp s) (s_nframes s) (s_pdisc s) (s_rdisc s) (m_out s) (m_dout s) (m_script s) (m_dscript s) (m_nrun s) (h_next s) v (h_paused s) (g_parts s) (g_conc s) (g_psends s) (g_fatal s) (g_accepted s) (g_done s) (g_runs s) (g_ddone s) (g_trace s) (g_from s) (h_open s) (g_rj s) (h_destroying s) (s_nulls s) (s_qnulls s).
Definition set_h_paused (v : bool) (s : st) : st :=
  mkSt (s_max s) (s_discov s) (s_queue s) (s_pending s) (s_active s) (s_resp s) (s_nframes s) (s_pdisc s) (s_rdisc s) (m_out s) (m_dout s) (m_script s) (m_dscript s) (m_nrun s) (h_next s) (h_ndid s) v (g_parts s) (g_conc s) (g_psends s) (g_fatal s) (g_accepted s) (g_done s) (g_runs s) (g_ddone s) (g_trace s) (g_from s) (h_open s) (g_rj s) (h_destroying s) (s_nulls s) (s_qnulls s).
Definition set_g_parts (v : list resp) (s : st) : st :=
  mkSt (s_max s) (s_discov s) (s_queue s) (s_pending s) (s_active s) (s_resp s) (s_nframes s) (s_pdisc s) (s_rdisc s) (m_out s) (m_dout s) (m_script s) (m_dscript s) (m_nrun s) (h_next s) (h_ndid s) (h_paused s) v (g_conc s) (g_psends s) (g_fatal s) (g_accepted s) (g_done s) (g_runs s) (g_ddone s) (g_trace s) (g_from s) (h_open s) (g_rj s) (h_destroying s) (s_nulls s) (s_qnulls s).
Definition set_g_conc (v : N) (s : st) : st :=
  mkSt (s_max s) (s_discov s) (s_queue s) (s_pending s) (s_active s) (s_resp s) (s_nframes s) (s_pdisc s) (s_rdisc s) (m_out s) (m_dout s) (m_script s) (m_dscript s) (m_nrun s) (h_next s) (h_ndid s) (h_paused s) (g_parts s) v (g_psends s) (g_fatal s) (g_accepted s) (g_done s) (g_runs s) (g_ddone s) (g_trace s) (g_from s) (h_open s) (g_rj s) (h_destroying s) (s_nulls s) (s_qnulls s).
Definition set_g_psends (v : N) (s : st) : st :=
  mkSt (s_max s) (s_discov s) (s_queue s) (s_pending s) (s_active s) (s_resp s) (s_nframes s) (s_pdisc s) (s_rdisc s) (m_out s) (m_dout s) (m_script s) (m_dscript s) (m_nrun s) (h_next s) (h_ndid s) (h_paused s) (g_parts s) (g_conc s) v (g_fatal s) (g_accepted s) (g_done s) (g_runs s) (g_ddone s) (g_trace s) (g_from s) (h_open s) (g_rj s) (h_destroying s) (s_nulls s) (s_qnulls s).
Definition set_g_fatal (v : bool) (s : st) : st :=
  mkSt (s_max s) (s_discov s) (s_queue s) (s_pending s) (s_active s) (s_resp s) (s_nframes s) (s_pdisc s) (s_rdisc s) (m_out s) (m_dout s) (m_script s) (m_dscript s) (m_nrun s) (h_next s) (h_ndid s) (h_paused s) (g_parts s) (g_conc s) (g_psends s) v (g_accepted s) (g_done s) (g_runs s) (g_ddone s) (g_trace s) (g_from s) (h_open s) (g_rj s) (h_destroying s) (s_nulls s) (s_qnulls s).
Definition set_g_accepted (v : list N) (s : st) : st :=
  mkSt (s_max s) (s_discov s) (s_queue s) (s_pending s) (s_active s) (s_resp s) (s_nframes s) (s_pdisc s) (s_rdisc s) (m_out s) (m_dout s) (m_script s) (m_dscript s) (m_nrun s) (h_next s) (h_ndid s) (h_paused s) (g_parts s) (g_conc s) (g_psends s) (g_fatal s) v (g_done s) (g_runs s) (g_ddone s) (g_trace s) (g_from s) (h_open s) (g_rj s) (h_destroying s) (s_nulls s) (s_qnulls s).
Definition set_g_done (v : list comp) (s : st) : st :=
  mkSt (s_max s) (s_discov s) (s_queue s) (s_pending s) (s_active s) (s_resp s) (s_nframes s) (s_pdisc s) (s_rdisc s) (m_out s) (m_dout s) (m_script s) (m_dscript s) (m_nrun s) (h_next s) (h_ndid s) (h_paused s) (g_parts s) (g_conc s) (g_psends s) (g_fatal s) (g_accepted s) v (g_runs s) (g_ddone s) (g_trace s) (g_from s) (h_open s) (g_rj s) (h_destroying s) (s_nulls s) (s_qnulls s).
Definition set_g_runs (v : list (N * bool * list (bool * N))) (s : st) : st :=
  mkSt (s_max s) (s_discov s) (s_queue s) (s_pending s) (s_active s) (s_resp s) (s_nframes s) (s_pdisc s) (s_rdisc s) (m_out s) (m_dout s) (m_script s) (m_dscript s) (m_nrun s) (h_next s) (h_ndid s) (h_paused s) (g_parts s) (g_conc s) (g_psends s) (g_fatal s) (g_accepted s) (g_done s) v (g_ddone s) (g_trace s) (g_from s) (h_open s) (g_rj s) (h_destroying s) (s_nulls s) (s_qnulls s).
Definition set_g_ddone (v : list (N * N)) (s : st) : st :=
  mkSt (s_max s) (s_discov s) (s_queue s) (s_pending s) (s_active s) (s_resp s) (s_nframes s) (s_pdisc s) (s_rdisc s) (m_out s) (m_dout s) (m_script s) (m_dscript s) (m_nrun s) (h_next s) (h_ndid s) (h_paused s) (g_parts s) (g_conc s) (g_psends s) (g_fatal s) (g_accepted s) (g_done s) (g_runs s) v (g_trace s) (g_from s) (h_open s) (g_rj s) (h_destroying s) (s_nulls s) (s_qnulls s).
Definition set_g_trace (v : list tev) (s : st) : st :=
  mkSt (s_max s) (s_discov s) (s_queue s) (s_pending s) (s_active s) (s_resp s) (s_nframes s) (s_pdisc s) (s_rdisc s) (m_out s) (m_dout s) (m_script s) (m_dscript s) (m_nrun s) (h_next s) (h_ndid s) (h_paused s) (g_parts s) (g_conc s) (g_psends s) (g_fatal s) (g_accepted s) (g_done s) (g_runs s) (g_ddone s) v (g_from s) (h_open s) (g_rj s) (h_destroying s) (s_nulls s) (s_qnulls s).
Definition set_g_from (v : list N) (s : st) : st :=
  mkSt (s_max s) (s_discov s) (s_queue s) (s_pending s) (s_active s) (s_resp s) (s_nframes s) (s_pdisc s) (s_rdisc s) (m_out s) (m_dout s) (m_script s) (m_dscript s) (m_nrun s) (h_next s) (h_ndid s) (h_paused s) (g_parts s) (g_conc s) (g_psends s) (g_fatal s) (g_accepted s) (g_done s) (g_runs s) (g_ddone s) (g_trace s) v (h_open s) (g_rj s) (h_destroying s) (s_nulls s) (s_qnulls s).
Definition set_h_open (v : N) (s : st) : st :=
  mkSt (s_max s) (s_discov s) (s_queue s) (s_pending s) (s_active s) (s_resp s) (s_nframes s) (s_pdisc s) (s_rdisc s) (m_out s) (m_dout s) (m_script s) (m_dscript s) (m_nrun s) (h_next s) (h_ndid s) (h_paused s) (g_parts s) (g_conc s) (g_psends s) (g_fatal s) (g_accepted s) (g_done s) (g_runs s) (g_ddone s) (g_trace s) (g_from s) v (g_rj s) (h_destroying s) (s_nulls s) (s_qnulls s).
Definition set_g_rj (v : N) (s : st) : st :=
  mkSt (s_max s) (s_discov s) (s_queue s) (s_pending s) (s_active s) (s_resp s) (s_nframes s) (s_pdisc s) (s_rdisc s) (m_out s) (m_dout s) (m_script s) (m_dscript s) (m_nrun s) (h_next s) (h_ndid s) (h_paused s) (g_parts s) (g_conc s) (g_psends s) (g_fatal s) (g_accepted s) (g_done s) (g_runs s) (g_ddone s) (g_trace s) (g_from s) (h_open s) v (h_destroying s) (s_nulls s) (s_qnulls s).
Definition set_h_destroying (v : bool) (s : st) : st :=
  mkSt (s_max s) (s_discov s) (s_queue s) (s_pending s) (s_active s) (s_resp s) (s_nframes s) (s_pdisc s) (s_rdisc s) (m_out s) (m_dout s) (m_script s) (m_dscript s) (m_nrun s) (h_next s) (h_ndid s) (h_paused s) (g_parts s) (g_conc s) (g_psends s) (g_fatal s) (g_accepted s) (g_done s) (g_runs s) (g_ddone s) (g_trace s) (g_from s) (h_open s) (g_rj s) v (s_nulls s) (s_qnulls s).
Definition set_s_nulls (v : list N) (s : st) : st :=
  mkSt (s_max s) (s_discov s) (s_queue s) (s_pending s) (s_active s) (s_resp s) (s_nframes s) (s_pdisc s) (s_rdisc s) (m_out s) (m_dout s) (m_script s) (m_dscript s) (m_nrun s) (h_next s) (h_ndid s) (h_paused s) (g_parts s) (g_conc s) (g_psends s) (g_fatal s) (g_accepted s) (g_done s) (g_runs s) (g_ddone s) (g_trace s) (g_from s) (h_open s) (g_rj s) (h_destroying s) v (s_qnulls s).
Definition set_s_qnulls (v : list N) (s : st) : st :=
  mkSt (s_max s) (s_discov s) (s_queue s) (s_pending s) (s_active s) (s_resp s) (s_nframes s) (s_pdisc s) (s_rdisc s) (m_out s) (m_dout s) (m_script s) (m_dscript s) (m_nrun s) (h_next s) (h_ndid s) (h_paused s) (g_parts s) (g_conc s) (g_psends s) (g_fatal s) (g_accepted s) (g_done s) (g_runs s) (g_ddone s) (g_trace s) (g_from s) (h_open s) (g_rj s) (h_destroying s) (s_nulls s) v.

Definition K_ANSWERED : N := 0.
Definition K_REJECTED : N := 1.
Definition K_DESTROYED : N := 2.

Definition is_nil {A} (l : list A) : bool := match l with [] => true | _ => false end.

Definition init (max : N) (discov : bool) (ms : list mitem) (ds : list bool) : st :=
  mkSt max discov [] false true None 0 [] [] [] [] ms ds 0 0 0 false [] 0 0 false [] [] [] [] [] [] 0 0 false [] [].

(* RDMResponse::CombineResponses *)
Definition combine (a b : resp) : option resp :=
  let n := len (rs_data a) + len (rs_data b) in
  if MAX_OVERFLOW_SIZE <? n then None
  else if negb (rs_src a =? rs_src b) then None
  else if (rs_cc a =? GET_COMMAND_RESPONSE) && (rs_cc b =? GET_COMMAND_RESPONSE) then
    Some (mkResp RDM_ACK (rs_src a) GET_COMMAND_RESPONSE (rs_mc b) (rs_data a ++ rs_data b) (rs_hdr a))
  else if (rs_cc a =? SET_COMMAND_RESPONSE) && (rs_cc b =? SET_COMMAND_RESPONSE) then
    Some (mkResp RDM_ACK (rs_src a) SET_COMMAND_RESPONSE (rs_mc b) (rs_data a ++ rs_data b) (rs_hdr a))
  else None.

(* ---- the mock underlying controller ---- *)

(* bookkeeping at every call reaching the underlying port: trace, concurrency (this call included),
   calls made while the user-level paused flag is set *)
Definition note_call (e : tev) (s : st) : st :=
  let s := set_g_trace (g_trace s ++ [e]) s in
  let s := set_g_conc (N.max (g_conc s) (len (m_out s) + len (m_dout s))) s in
  if h_paused s then set_g_psends (g_psends s + 1) s else s.

(* MockController::SendRDMRequest(copy of request id, m_callback) *)
Definition mock_send (id : N) (s : st) (ag : list frame) : st * list frame :=
  let s := set_m_out (m_out s ++ [id]) s in
  let s := note_call (TSend id) s in
  match m_script s with
  | Sync r :: ms => (set_m_script ms s, FOp (Deliver r) :: ag)
  | Later :: ms => (set_m_script ms s, ag)
  | [] => (s, ag)
  end.

(* the mock writes the id of the request it answers in front of the parameter data, unless the
   answer carries no parameter data at all (e.g. the empty last frame of an ACK_OVERFLOW sequence) *)
Definition tag (id : N) (r : reply) : reply :=
  match r_resp r with
  | None => r
  | Some rs => mkReply (r_status r)
                 (Some (mkResp (rs_type rs) (rs_src rs) (rs_cc rs) (rs_mc rs)
                               (match rs_data rs with [] => [] | _ => id :: rs_data rs end) (rs_hdr rs)))
                 (r_frames r)
  end.

(* ---- QueueingRDMController ---- *)

(* MaybeSendRDMRequest + DispatchNextRequest *)
Definition maybe_send (s : st) (ag : list frame) : st * list frame :=
  match s_queue s with
  | [] => (s, ag)
  | (id, _) :: _ => mock_send id (set_s_pending true s) ag
  end.

(* DiscoverableQueueingRDMController::StartRDMDiscovery *)
Definition start_disc (s : st) (ag : list frame) : st * list frame :=
  let full := existsb (fun e => fst (fst e)) (s_pdisc s) in
  let reqs := map (fun e => (snd (fst e), Some (snd e))) (s_pdisc s) in
  let run := m_nrun s in
  let s := set_g_runs (g_runs s ++ [(run, full, map (fun e => fst e) (s_pdisc s))]) s in
  let s := set_s_rdisc (s_rdisc s ++ reqs) s in
  let s := set_s_pdisc [] s in
  let s := set_m_nrun (run + 1) s in
  let s := set_m_dout (m_dout s ++ [run]) s in
  let s := note_call (TDisc full) s in
  match m_dscript s with
  | true :: ds => (set_m_dscript ds s, FOp DeliverDisc :: ag)
  | false :: ds => (set_m_dscript ds s, ag)
  | [] => (s, ag)
  end.

(* TakeNextAction + CheckForBlockingCondition of the Discoverable class; for the base class
   (s_discov = false) s_pdisc and s_rdisc stay empty and this is exactly the base-class code. *)
Definition take_next (s : st) (ag : list frame) : st * list frame :=
  if negb (s_active s) || s_pending s || negb (is_nil (s_rdisc s)) then (s, ag)
  else if negb (is_nil (s_pdisc s)) then start_disc s ag
  else maybe_send s ag.

(* a completion is visible to the user (trace) unless the request was submitted with a NULL callback *)
Definition log_comp (c : comp) (s : st) : st :=
  set_g_trace (if existsb (N.eqb (c_id c)) (s_qnulls s) then g_trace s else g_trace s ++ [TComp c]) s.

(* RunCallback(reply): pops the front request and runs its completion callback *)
Definition run_callback (rep : reply) (parts : list resp) (froms : list N) (s : st) (ag : list frame)
  : st * list frame :=
  match s_queue s with
  | [] => (set_g_fatal true s, ag)      (* front() of an empty queue: callers exclude it *)
  | (id, cb) :: rest =>
    let c := mkComp id K_ANSWERED rep parts froms in
    let s := set_s_queue rest s in
    let s := set_h_open (h_open s - 1) s in
    let s := set_g_done (g_done s ++ [c]) s in
    let s := log_comp c s in
    (s, map FOp cb ++ ag)
  end.

(* continuation of an ACK_OVERFLOW sequence (fix 02: keep the in-flight flag, honour Pause) *)
Definition continue_overflow (s : st) (ag : list frame) : st * list frame :=
  if s_active s then maybe_send s ag else (s, ag).

(* HandleRDMResponse(reply) *)
Definition handle (from : N) (rep : reply) (s : st) (ag : list frame) : st * list frame :=
  let s := set_s_pending false s in
  let froms := g_from s ++ [from] in
  if is_nil (s_queue s) then (set_g_fatal true s, ag)   (* OLA_FATAL: response but queue empty *)
  else
    match s_resp s with
    | Some acc =>
      match (if r_status rep =? RDM_COMPLETED_OK then r_resp rep else None) with
      | None =>
        (* failed part way through an ACK_OVERFLOW *)
        let nf := s_nframes s + r_frames rep in
        let s := set_g_from [] (set_g_parts [] (set_s_nframes 0 (set_s_resp None s))) in
        run_callback (mkReply (r_status rep) None nf) [] froms s (FTakeNext :: ag)
      | Some rs =>
        let nf := s_nframes s + r_frames rep in
        let parts := g_parts s ++ [rs] in
        match combine acc rs with
        | None =>
          let s := set_g_from [] (set_g_parts [] (set_s_nframes 0 (set_s_resp None s))) in
          run_callback (mkReply RDM_INVALID_RESPONSE None nf) [] froms s (FTakeNext :: ag)
        | Some c =>
          if negb (rs_type rs =? ACK_OVERFLOW) then
            let s := set_g_from [] (set_g_parts [] (set_s_nframes 0 (set_s_resp None s))) in
            run_callback (mkReply RDM_COMPLETED_OK (Some c) nf) parts froms s (FTakeNext :: ag)
          else
            continue_overflow (set_g_from froms (set_g_parts parts (set_s_nframes nf (set_s_resp (Some c) s)))) ag
        end
      end
    | None =>
      match (if r_status rep =? RDM_COMPLETED_OK then r_resp rep else None) with
      | Some rs =>
        if rs_type rs =? ACK_OVERFLOW then
          (* start of an ACK_OVERFLOW sequence *)
          continue_overflow (set_g_from froms (set_g_parts [rs]
                               (set_s_nframes (r_frames rep) (set_s_resp (Some rs) s)))) ag
        else run_callback rep [rs] froms s (FTakeNext :: ag)
      | None =>
        run_callback rep (match r_resp rep with Some rs => [rs] | None => [] end) froms s
                     (FTakeNext :: ag)
      end
    end.

(* DiscoveryComplete: run every callback of m_discovery_callbacks (single-use callbacks: an entry
   that has run is None), then clear and TakeNextAction *)
(* m_discovery_callbacks holds one pointer per request taken by the run, NULL pointers included (a
   discovery whose callers all passed NULL still keeps the vector non-empty while it runs).  In the
   model an entry is (id, Some ops) until DiscoveryComplete has passed it and (id, None) afterwards;
   the ids whose pointer is NULL are in s_nulls (their ops are []). *)
Definition is_null (nulls : list N) (d : N) : bool := existsb (N.eqb d) nulls.
Definition disc_frames (nulls : list N) (run : N) (r : list (N * option (list op))) : list frame :=
  flat_map (fun e => match snd e with
                     | Some cb => FDiscLog (is_null nulls (fst e)) (fst e) run :: map FOp cb
                     | None => [] end) r.
Definition disc_complete (run : N) (s : st) (ag : list frame) : st * list frame :=
  let frames := disc_frames (s_nulls s) run (s_rdisc s) in
  let s := set_s_rdisc (map (fun e => (fst e, None)) (s_rdisc s)) s in
  (s, frames ++ FDiscDone :: ag).

Definition do_op (o : op) (s : st) (ag : list frame) : st * list frame :=
  match o with
  | Pause => (set_h_paused true (set_s_active false s), ag)
  | Resume => take_next (set_s_active true (set_h_paused false s)) ag   (* fix 01 *)
  | Submit null cb0 =>
    let cb := if null then [] else cb0 in
    let id := h_next s in
    (* harness bookkeeping: it expects a rejection iff its own count of accepted, uncompleted
       requests has reached the limit; g_rj counts the disagreements *)
    let expect := s_max s <=? h_open s in
    let full := s_max s <=? len (s_queue s) in
    let s := set_h_next (id + 1) s in
    let s := set_s_qnulls (if null then s_qnulls s ++ [id] else s_qnulls s) s in
    let s := set_h_open (if expect then h_open s else h_open s + 1) s in
    let s := set_g_rj (if Bool.eqb expect full then g_rj s else g_rj s + 1) s in
    if full then
      let c := mkComp id K_REJECTED (mkReply RDM_FAILED_TO_SEND None 0) [] [] in
      let s := set_g_done (g_done s ++ [c]) s in
      let s := log_comp c s in
      (s, map FOp cb ++ ag)
    else
      let s := set_s_queue (s_queue s ++ [(id, cb)]) s in
      let s := set_g_accepted (g_accepted s ++ [id]) s in
      take_next s ag
  | Disc full null cb =>
    (* during ~QueueingRDMController the derived part of the object is gone: not a legal call *)
    if s_discov s && negb (h_destroying s) then
      let did := h_ndid s in
      let s := set_h_ndid (did + 1) s in
      let s := set_s_pdisc (s_pdisc s ++ [(full, did, if null then [] else cb)]) s in
      let s := set_s_nulls (if null then s_nulls s ++ [did] else s_nulls s) s in
      take_next s ag
    else (s, ag)
  | Deliver r =>
    (* the underlying controller does not answer a controller that is being destroyed *)
    if h_destroying s then (s, ag) else
    match m_out s with
    | [] => (s, ag)
    | i :: rest => handle i (tag i r) (set_m_out rest s) ag
    end
  | DeliverDisc =>
    if h_destroying s then (s, ag) else
    match m_dout s with
    | [] => (s, ag)
    | run :: rest => disc_complete run (set_m_dout rest s) ag
    end
  end.

(* one iteration of the destructor's loop (fix 04: the request is popped before its callback runs) *)
Definition destroy_next (s : st) (ag : list frame) : st * list frame :=
  match s_queue s with
  | [] => (s, ag)
  | (id, cb) :: rest =>
    let c := mkComp id K_DESTROYED (mkReply RDM_FAILED_TO_SEND None 0) [] [] in
    let s := set_s_queue rest s in
    let s := set_h_open (h_open s - 1) s in
    let s := set_g_done (g_done s ++ [c]) s in
    let s := log_comp c s in
    (s, map FOp cb ++ FDestroy :: ag)
  end.

Definition step (s : st) (f : frame) (ag : list frame) : st * list frame :=
  match f with
  | FOp o => do_op o s ag
  | FTakeNext => take_next s ag
  | FDiscLog null did run =>
    (* the request is satisfied by this run; a user callback runs (and is observed) unless NULL *)
    (set_g_trace (if null then g_trace s else g_trace s ++ [TDiscCb did run])
                 (set_g_ddone (g_ddone s ++ [(did, run)]) s), ag)
  | FDiscDone => take_next (set_s_rdisc [] s) ag
  | FDestroy => if h_destroying s then destroy_next s ag else (s, ag)   (* only the destructor pushes it *)
  end.

(* None = OutOfFuel *)
Fixpoint run (fuel : nat) (s : st) (ag : list frame) : option st :=
  match ag with
  | [] => Some s
  | f :: ag' =>
    match fuel with
    | O => None
    | S k => let (s', ag'') := step s f ag' in run k s' ag''
    end
  end.

(* ---- termination measure ---- *)
Fixpoint wop (o : op) : nat :=
  match o with
  | Submit _ cb => 3 + (fix wl (l : list op) := match l with [] => 0 | x :: r => wop x + wl r end) cb
  | Disc _ _ cb => 3 + (fix wl (l : list op) := match l with [] => 0 | x :: r => wop x + wl r end) cb
  | Pause => 1
  | Resume => 1
  | Deliver _ => 3
  | DeliverDisc => 3
  end%nat.
Fixpoint wops (l : list op) : nat := match l with [] => 0 | x :: r => wop x + wops r end%nat.
Definition wframe (f : frame) : nat :=
  match f with FOp o => wop o | FTakeNext => 1 | FDiscLog _ _ _ => 1 | FDiscDone => 2 | FDestroy => 1 end%nat.
Fixpoint wag (l : list frame) : nat := match l with [] => 0 | x :: r => wframe x + wag r end%nat.
Fixpoint wq (l : list (N * list op)) : nat :=
  match l with [] => 0 | (_, cb) :: r => 2 + wops cb + wq r end%nat.
Fixpoint wpd (l : list (bool * N * list op)) : nat :=
  match l with [] => 0 | (_, cb) :: r => 2 + wops cb + wpd r end%nat.
Fixpoint wrd (l : list (N * option (list op))) : nat :=
  match l with [] => 0 | (_, Some cb) :: r => 2 + wops cb + wrd r | (_, None) :: r => wrd r end%nat.
Fixpoint wms (l : list mitem) : nat :=
  match l with [] => 0 | Sync _ :: r => 4 + wms r | Later :: r => wms r end%nat.
Fixpoint wds (l : list bool) : nat :=
  match l with [] => 0 | true :: r => 4 + wds r | false :: r => wds r end%nat.
Definition wst (s : st) : nat :=
  (wq (s_queue s) + wpd (s_pdisc s) + wrd (s_rdisc s) + wms (m_script s) + wds (m_dscript s))%nat.
Definition measure (s : st) (ag : list frame) : nat := (wst s + wag ag)%nat.

(* one top-level operation of a history, run to quiescence *)
Definition exec_op (s : st) (o : op) : option st :=
  run (measure s [FOp o]) (set_g_trace [] s) [FOp o].

Fixpoint exec_ops (s : st) (l : list op) : option st :=
  match l with
  | [] => Some s
  | o :: r => match exec_op s o with None => None | Some s' => exec_ops s' r end
  end.

(* ~QueueingRDMController (with fix 04): sending is blocked (m_rdm_request_pending = true), then every
   queued request, the one in flight included, is popped and completed with RDM_FAILED_TO_SEND, in
   queue order.  The completion callbacks are live: what they submit is queued (or rejected) and
   failed by the same loop; Pause/Resume only flip m_active; discovery calls and answers of the
   underlying controller are not executed during destruction. *)
Definition start_destroy (s : st) : st :=
  set_g_trace [] (set_h_destroying true (set_s_pending true s)).
Definition destroy_run (s : st) : option st :=
  run (measure (start_destroy s) [FDestroy]) (start_destroy s) [FDestroy].

Definition run_history (max : N) (discov : bool) (ms : list mitem) (ds : list bool) (h : list op)
  : option st :=
  match exec_ops (init max discov ms ds) h with
  | None => None
  | Some s => destroy_run s
  end.

(* ---- instance checkers on the logs (printed by the driver; proved constant in Proofs) ---- *)
Fixpoint count_id (i : N) (l : list comp) : nat :=
  match l with [] => O | c :: r => Nat.add (if N.eqb (c_id c) i then 1%nat else O) (count_id i r) end.
(* completions of an id that had completed before *)
Fixpoint dups (l : list comp) : nat :=
  match l with
  | [] => O
  | c :: r => Nat.add (if Nat.ltb 0 (count_id (c_id c) r) then 1%nat else O) (dups r)
  end.
(* accepted (not rejected) completions out of submission order *)
Fixpoint sorted_lt (l : list N) : bool :=
  match l with
  | [] => true
  | x :: r => match r with [] => true | y :: _ => (x <? y) && sorted_lt r end
  end.
Definition accepted_ids (l : list comp) : list N :=
  map c_id (filter (fun c => negb (c_kind c =? K_REJECTED)) l).
(* an answered completion carrying a response: data = concatenation of its parts, each part
   tagged with the completing request's id *)
Definition comp_data_ok (c : comp) : bool :=
  match r_resp (c_reply c) with
  | None => true
  | Some rs =>
    (if list_eq_dec N.eq_dec (rs_data rs) (concat (map rs_data (c_parts c))) then true else false) &&
    forallb (fun p => match rs_data p with x :: _ => x =? c_id c | [] => true end) (c_parts c)
  end.
Definition bad_data (l : list comp) : nat := length (filter (fun c => negb (comp_data_ok c)) l).
(* submitted ids without a completion *)
Definition lost (s : st) : nat :=
  length (filter (fun i => Nat.eqb (count_id i (g_done s)) 0) (map N.of_nat (seq 0 (N.to_nat (h_next s))))).

(* discovery verdict as the harness computes it: callbacks run twice + runs that served callbacks
   and whose full flag differs from the OR of what the served requests asked for *)
Fixpoint ddups (l : list (N * N)) : nat :=
  match l with
  | [] => O
  | e :: r => Nat.add (if existsb (fun x => fst x =? fst e) r then 1%nat else O) (ddups r)
  end.
Definition dv_of (s : st) : nat :=
  Nat.add (ddups (g_ddone s))
    (length (filter (fun e : N * bool * list (bool * N) =>
       let run := fst (fst e) in
       let served := filter (fun q : bool * N =>
                       existsb (fun x => (fst x =? snd q) && (snd x =? run)) (g_ddone s)) (snd e) in
       negb (is_nil served) && negb (Bool.eqb (snd (fst e)) (existsb fst served))) (g_runs s))).
