(* C12: the queue-full bookkeeping of the harness never disagrees with the controller (verdict rj). *)
From OlaBase Require Import Bytes.
From C12 Require Import Gen Model ProofsF.
Local Open Scope N_scope.

Definition RI (s : st) : Prop := h_open s = len (s_queue s) /\ g_rj s = 0.

Lemma RI_frame s s' : kframe s s' -> RI s -> RI s'.
Proof. unfold kframe, RI. intros (K1 & _ & _ & _ & _ & K6 & K7 & _). rewrite K1, K6, K7. auto. Qed.

Definition rpop (s s' : st) : Prop :=
  (s_queue s' = s_queue s /\ h_open s' = h_open s /\ g_rj s' = g_rj s) \/
  (exists e, s_queue s = e :: s_queue s' /\ h_open s' = h_open s - 1 /\ g_rj s' = g_rj s).

Lemma run_callback_R rep parts fr s ag s' ag' :
  s_queue s <> [] -> run_callback rep parts fr s ag = (s', ag') -> rpop s s'.
Proof.
  unfold run_callback, rpop. intros Hq H. destruct (s_queue s) as [|[id cb] q] eqn:E; [congruence|].
  inversion H; subst. right. exists (id, cb). cbn. auto.
Qed.
Lemma rpop_frame s s' : kframe s s' -> rpop s s'.
Proof. unfold kframe, rpop. intros (K1 & _ & _ & _ & _ & K6 & K7 & _). left. auto. Qed.

Lemma handle_R from rep s ag s' ag' :
  s_queue s <> [] -> handle from rep s ag = (s', ag') -> rpop s s'.
Proof.
  unfold handle. intros Hq H.
  destruct (is_nil (s_queue (set_s_pending false s))) eqn:Enil.
  { cbn in Enil. destruct (s_queue s); [congruence|discriminate]. }
  repeat match type of H with
  | context [match ?x with _ => _ end] => destruct x eqn:?
  end;
  try (apply run_callback_R in H; [exact H|cbn; exact Hq]);
  try (apply continue_overflow_kf in H; apply rpop_frame in H; exact H).
Qed.

Lemma RI_rpop s s' : RI s -> rpop s s' -> RI s'.
Proof.
  unfold RI, rpop. intros [Ho Hr] [(E1 & E2 & E3)|(e & E1 & E2 & E3)].
  - rewrite E1, E2, E3. auto.
  - rewrite E2, E3, Ho, E1, len_cons. split; [lia|auto].
Qed.

Lemma step_R s f ag s' ag' : RI s -> step s f ag = (s', ag') -> RI s'.
Proof.
  intros HR H. pose proof HR as [Ho Hr].
  destruct f as [[sn cb|full nl cb| | |r|]| | | |]; cbn [step do_op] in H.
  - rewrite Ho in H. destruct (s_max s <=? len (s_queue s)) eqn:E.
    + inversion H; subst. unfold RI. cbn. auto.
    + apply take_next_kf in H. eapply RI_frame; [exact H|]. unfold RI. cbn.
      rewrite len_app, Ho. cbn. split; [reflexivity|auto].
  - destruct (s_discov s && negb (h_destroying s)).
    + apply take_next_kf in H. eapply RI_frame; [exact H|]. exact HR.
    + inversion H; subst. exact HR.
  - inversion H; subst. exact HR.
  - apply take_next_kf in H. eapply RI_frame; [exact H|]. exact HR.
  - destruct (h_destroying s); [inversion H; subst; exact HR|].
    destruct (m_out s) as [|i rest] eqn:Eo.
    + inversion H; subst. exact HR.
    + destruct (s_queue s) eqn:Eq.
      * (* no request queued: the OLA_FATAL branch, nothing changes *)
        unfold handle in H. cbn in H. rewrite Eq in H. cbn in H. inversion H; subst.
        unfold RI. cbn. rewrite Eq. auto.
      * apply handle_R in H; [|cbn; rewrite Eq; discriminate].
        eapply RI_rpop; [|exact H]. exact HR.
  - destruct (h_destroying s); [inversion H; subst; exact HR|].
    destruct (m_dout s) as [|x rest].
    + inversion H; subst. exact HR.
    + unfold disc_complete in H. inversion H; subst. exact HR.
  - apply take_next_kf in H. eapply RI_frame; [exact H|exact HR].
  - inversion H; subst. exact HR.
  - apply take_next_kf in H. eapply RI_frame; [exact H|]. exact HR.
  - destruct (h_destroying s); [|inversion H; subst; exact HR].
    unfold destroy_next in H. destruct (s_queue s) as [|[id cb] q] eqn:Eq; inversion H; subst; [exact HR|].
    eapply RI_rpop; [exact HR|]. right. exists (id, cb). cbn. rewrite Eq. auto.
Qed.

Lemma RI_init max discov ms ds : RI (init max discov ms ds).
Proof. unfold RI, init; cbn. auto. Qed.
Lemma RI_trace l s : RI s -> RI (set_g_trace l s).
Proof. unfold RI; cbn; auto. Qed.
