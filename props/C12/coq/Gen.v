(* REGENERATED from the repository headers on every run. Do not edit.  *)
From Coq Require Import NArith.
Local Open Scope N_scope.
Definition RDM_COMPLETED_OK : N := 0.
Definition RDM_FAILED_TO_SEND : N := 2.
Definition RDM_INVALID_RESPONSE : N := 4.
Definition RDM_ACK : N := 0.
Definition ACK_OVERFLOW : N := 3.
Definition MAX_OVERFLOW_SIZE : N := 4096.
Definition GET_COMMAND_RESPONSE : N := 33.
Definition SET_COMMAND_RESPONSE : N := 49.
