(* C12: progress (nothing waits while the port is idle and the controller active), the step-level
   form of "nothing is sent while paused", and CombineResponses characterised exactly. *)
From OlaBase Require Import Bytes.
From C12 Require Import Gen Model ProofsF ProofsA ProofsB.
Local Open Scope N_scope.

(* ---------- progress ---------- *)
Definition idle (s : st) : Prop := s_active s = true /\ s_pending s = false /\ s_rdisc s = [].
Definition waiting (s : st) : Prop := s_pdisc s <> [] \/ s_queue s <> [].
(* frames that end in a call of TakeNextAction() *)
Definition tframe (f : frame) : Prop := match f with FTakeNext | FDiscDone => True | _ => False end.
Definition WI (s : st) (ag : list frame) : Prop := idle s -> waiting s -> Exists tframe ag.

Definition pframe (s s' : st) : Prop :=
  s_active s' = s_active s /\ s_pending s' = s_pending s /\ s_rdisc s' = s_rdisc s /\
  s_pdisc s' = s_pdisc s /\ s_queue s' = s_queue s.

Lemma WI_keep s s' f X ag :
  pframe s s' -> ~ tframe f -> WI s (f :: ag) -> WI s' (X ++ ag).
Proof.
  unfold pframe, WI, idle, waiting. intros (K1 & K2 & K3 & K4 & K5) Hf H. rewrite K1, K2, K3, K4, K5.
  intros Hi Hw. specialize (H Hi Hw). inversion H; subst; [contradiction|].
  apply Exists_app. right. assumption.
Qed.
Lemma WI_not s ag : ~ (idle s /\ waiting s) -> WI s ag.
Proof. unfold WI. intros H Hi Hw. exfalso. apply H. split; assumption. Qed.

Lemma mock_send_pf id s ag s' ag' : mock_send id s ag = (s', ag') -> pframe s s'.
Proof.
  unfold mock_send, note_call, pframe. intros H. cbn in H.
  destruct (h_paused s); cbn in H; destruct (m_script s) as [|[r|] ms]; inversion H; subst; cbn;
    repeat split; reflexivity.
Qed.
Lemma maybe_send_post s ag s' ag' :
  s_pdisc s = [] -> maybe_send s ag = (s', ag') -> ~ (idle s' /\ waiting s').
Proof.
  unfold maybe_send. intros Hp H. destruct (s_queue s) as [|[id cb] q] eqn:Eq.
  - inversion H; subst. unfold waiting. rewrite Hp, Eq. intros [_ [Hx|Hx]]; congruence.
  - apply mock_send_pf in H. destruct H as (_ & K2 & _). cbn in K2.
    unfold idle. intros [(_ & Hx & _) _]. congruence.
Qed.
Lemma start_disc_rdisc s ag s' ag' :
  s_pdisc s <> [] -> start_disc s ag = (s', ag') -> s_rdisc s' <> [].
Proof.
  intros Hp H. apply start_disc_eff in H. destruct H as (_ & _ & _ & _ & E5 & _). rewrite E5.
  destruct (s_pdisc s); [congruence|]. destruct (s_rdisc s); cbn; congruence.
Qed.
Lemma take_next_post s ag s' ag' : take_next s ag = (s', ag') -> ~ (idle s' /\ waiting s').
Proof.
  unfold take_next. intros H.
  destruct (negb (s_active s) || s_pending s || negb (is_nil (s_rdisc s))) eqn:G.
  - inversion H; subst. unfold idle. intros [(Ha & Hp & Hr) _]. rewrite Ha, Hp, Hr in G. discriminate.
  - destruct (negb (is_nil (s_pdisc s))) eqn:Gd.
    + apply negb_true_iff, is_nil_false in Gd. apply (start_disc_rdisc _ _ _ _ Gd) in H.
      unfold idle. intros [(_ & _ & Hr) _]. congruence.
    + apply negb_false_iff, is_nil_true in Gd. eapply maybe_send_post; eauto.
Qed.
Lemma continue_overflow_post s ag s' ag' :
  s_queue s <> [] -> continue_overflow s ag = (s', ag') -> ~ idle s'.
Proof.
  unfold continue_overflow. intros Hq H. destruct (s_active s) eqn:Ea.
  - unfold maybe_send in H. destruct (s_queue s) as [|[id cb] q]; [congruence|].
    apply mock_send_pf in H. destruct H as (_ & K2 & _). cbn in K2.
    unfold idle, not. intros (_ & Hx & _). congruence.
  - inversion H; subst. unfold idle, not. intros (Hx & _). congruence.
Qed.
Lemma run_callback_tf rep parts fr s ag s' ag' :
  s_queue s <> [] -> run_callback rep parts fr s (FTakeNext :: ag) = (s', ag') -> Exists tframe ag'.
Proof.
  unfold run_callback. intros Hq H. destruct (s_queue s) as [|[id cb] q]; [congruence|].
  inversion H; subst. apply Exists_app. right. constructor. exact I.
Qed.
Lemma handle_W from rep s ag s' ag' :
  s_queue s <> [] -> handle from rep s ag = (s', ag') -> Exists tframe ag' \/ ~ idle s'.
Proof.
  unfold handle. intros Hq H.
  destruct (is_nil (s_queue (set_s_pending false s))) eqn:Enil.
  { cbn in Enil. apply is_nil_true in Enil. congruence. }
  repeat match type of H with
  | context [match ?x with _ => _ end] => destruct x eqn:?
  end;
  try (left; eapply run_callback_tf; [|exact H]; cbn; exact Hq);
  try (right; eapply continue_overflow_post; [|exact H]; cbn; exact Hq).
Qed.

Lemma step_W s f ag s' ag' :
  InvA s (f :: ag) -> h_destroying s = false -> WI s (f :: ag) -> step s f ag = (s', ag') -> WI s' ag'.
Proof.
  intros HA Hnd HW H.
  destruct f as [[sn cb|full nl cb| | |r|]| | | |]; cbn [step do_op] in H; rewrite ?Hnd in H;
    cbn [negb andb] in H; rewrite ?andb_true_r in H.
  - destruct (s_max s <=? len (s_queue s)).
    + inversion H; subst. refine (WI_keep _ _ _ (map FOp (if sn then [] else cb)) _ _ _ HW); [unfold pframe; cbn; repeat split; reflexivity|cbn; tauto].
    + apply WI_not. eapply take_next_post; eauto.
  - destruct (s_discov s).
    + apply WI_not. eapply take_next_post; eauto.
    + inversion H; subst. refine (WI_keep _ _ _ [] _ _ _ HW); [unfold pframe; cbn; repeat split; reflexivity|cbn; tauto].
  - inversion H; subst. apply WI_not. unfold idle; cbn. intros [(Hx & _) _]. discriminate.
  - apply WI_not. eapply take_next_post; eauto.
  - destruct (m_out s) as [|i rest] eqn:Eo.
    + inversion H; subst. refine (WI_keep _ _ _ [] _ _ _ HW); [unfold pframe; cbn; repeat split; reflexivity|cbn; tauto].
    + unfold InvA in HA. cbn [ndone] in HA. rewrite Eo in HA. apply AP_deliver in HA.
      destruct HA as (_ & _ & (cb & q' & Hq) & _).
      apply handle_W in H; [|cbn; rewrite Hq; discriminate].
      destruct H as [H|H]; [intros _ _; exact H|apply WI_not; tauto].
  - destruct (m_dout s) as [|x rest].
    + inversion H; subst. refine (WI_keep _ _ _ [] _ _ _ HW); [unfold pframe; cbn; repeat split; reflexivity|cbn; tauto].
    + unfold disc_complete in H. inversion H; subst. intros _ _.
      apply Exists_app. right. constructor. exact I.
  - apply WI_not. eapply take_next_post; eauto.
  - inversion H; subst. refine (WI_keep _ _ _ [] _ _ _ HW); [unfold pframe; cbn; repeat split; reflexivity|cbn; tauto].
  - apply WI_not. eapply take_next_post; eauto.
  - inversion H; subst. refine (WI_keep _ _ _ [] _ _ _ HW); [unfold pframe; cbn; repeat split; reflexivity|cbn; tauto].
Qed.

(* ---------- nothing is sent while paused, step by step ---------- *)
Definition is_call (e : tev) : bool := match e with TSend _ | TDisc _ => true | _ => false end.
Definition calls (l : list tev) : nat := length (filter is_call l).
Arguments calls : simpl never.
Lemma calls_snoc l e : is_call e = false -> calls (l ++ [e]) = calls l.
Proof. unfold calls. intros H. rewrite filter_app. cbn. rewrite H. rewrite app_nil_r. reflexivity. Qed.

Definition quiet (s s' : st) : Prop :=
  calls (g_trace s') = calls (g_trace s) /\
  (m_out s' = m_out s \/ exists i, m_out s = i :: m_out s') /\
  (m_dout s' = m_dout s \/ exists x, m_dout s = x :: m_dout s').
Lemma quiet_refl s : quiet s s.
Proof. unfold quiet. auto. Qed.

Lemma take_next_inactive s ag : s_active s = false -> take_next s ag = (s, ag).
Proof. unfold take_next. intros ->. reflexivity. Qed.
Lemma continue_overflow_inactive s ag : s_active s = false -> continue_overflow s ag = (s, ag).
Proof. unfold continue_overflow. intros ->. reflexivity. Qed.

Definition qsame (s s' : st) : Prop :=
  calls (g_trace s') = calls (g_trace s) /\ m_out s' = m_out s /\ m_dout s' = m_dout s.
Lemma run_callback_q rep parts fr s ag s' ag' : run_callback rep parts fr s ag = (s', ag') -> qsame s s'.
Proof.
  unfold run_callback, qsame. intros H. destruct (s_queue s) as [|[id cb] q]; inversion H; subst; cbn.
  - auto.
  - unfold log_comp; cbn. destruct (existsb _ _); cbn; [|rewrite calls_snoc by reflexivity]; auto.
Qed.
Lemma qsame_trans a b c : qsame a b -> qsame b c -> qsame a c.
Proof. unfold qsame. intros (A1 & A2 & A3) (B1 & B2 & B3). repeat split; congruence. Qed.
Lemma handle_q from rep s ag s' ag' :
  s_active s = false -> handle from rep s ag = (s', ag') -> qsame s s'.
Proof.
  unfold handle. intros Ha H.
  destruct (is_nil (s_queue (set_s_pending false s))).
  { inversion H; subst. unfold qsame; cbn; auto. }
  repeat match type of H with
  | context [match ?x with _ => _ end] => destruct x eqn:?
  end;
  try (apply run_callback_q in H; eapply qsame_trans; [|exact H]; unfold qsame; cbn; auto);
  try (rewrite continue_overflow_inactive in H by (cbn; exact Ha); inversion H; subst; unfold qsame; cbn; auto).
Qed.

Lemma step_quiet s f ag s' ag' :
  s_active s = false -> f <> FOp Resume -> step s f ag = (s', ag') -> quiet s s'.
Proof.
  intros Ha Hf H.
  destruct f as [[sn cb|full nl cb| | |r|]| | | |]; cbn [step do_op] in H; try congruence.
  - destruct (s_max s <=? len (s_queue s)).
    + inversion H; subst. unfold quiet, log_comp; cbn. destruct (existsb _ _); cbn; [|rewrite calls_snoc by reflexivity]; auto.
    + rewrite take_next_inactive in H by (cbn; exact Ha). inversion H; subst. unfold quiet; cbn. auto.
  - destruct (s_discov s && negb (h_destroying s)).
    + rewrite take_next_inactive in H by (cbn; exact Ha). inversion H; subst. unfold quiet; cbn. auto.
    + inversion H; subst. apply quiet_refl.
  - inversion H; subst. unfold quiet; cbn. auto.
  - destruct (h_destroying s); [inversion H; subst; apply quiet_refl|].
    destruct (m_out s) as [|i rest] eqn:Eo.
    + inversion H; subst. apply quiet_refl.
    + apply handle_q in H; [|cbn; exact Ha]. destruct H as (H1 & H2 & H3). cbn in H1, H2, H3.
      unfold quiet. rewrite H1, H2, H3, Eo. split; [reflexivity|]. split; [right; eauto|auto].
  - destruct (h_destroying s); [inversion H; subst; apply quiet_refl|].
    destruct (m_dout s) as [|x rest] eqn:Ed.
    + inversion H; subst. apply quiet_refl.
    + unfold disc_complete in H. inversion H; subst. unfold quiet; cbn. rewrite Ed.
      split; [reflexivity|]. split; [auto|right; eauto].
  - rewrite take_next_inactive in H by exact Ha. inversion H; subst. apply quiet_refl.
  - inversion H; subst. unfold quiet; cbn. destruct null; [|rewrite calls_snoc by reflexivity]; auto.
  - rewrite take_next_inactive in H by (cbn; exact Ha). inversion H; subst. unfold quiet; cbn. auto.
  - destruct (h_destroying s); [|inversion H; subst; apply quiet_refl].
    unfold destroy_next in H. destruct (s_queue s) as [|[id cb] q]; inversion H; subst; [apply quiet_refl|].
    unfold quiet, log_comp; cbn. destruct (existsb _ _); cbn; [|rewrite calls_snoc by reflexivity]; auto.
Qed.

(* ---------- CombineResponses, exactly ---------- *)
Lemma combine_spec a b c :
  combine a b = Some c <->
  (len (rs_data a) + len (rs_data b) <= MAX_OVERFLOW_SIZE /\ rs_src a = rs_src b /\
   ((rs_cc a = GET_COMMAND_RESPONSE /\ rs_cc b = GET_COMMAND_RESPONSE) \/
    (rs_cc a = SET_COMMAND_RESPONSE /\ rs_cc b = SET_COMMAND_RESPONSE)) /\
   c = mkResp RDM_ACK (rs_src a) (rs_cc a) (rs_mc b) (rs_data a ++ rs_data b) (rs_hdr a)).
Proof.
  unfold combine. split.
  - intros H.
    destruct (MAX_OVERFLOW_SIZE <? len (rs_data a) + len (rs_data b)) eqn:E; [discriminate|].
    apply N.ltb_ge in E.
    destruct (rs_src a =? rs_src b) eqn:Es; cbn [negb] in H; [|discriminate]. apply N.eqb_eq in Es.
    destruct ((rs_cc a =? GET_COMMAND_RESPONSE) && (rs_cc b =? GET_COMMAND_RESPONSE)) eqn:Eg.
    + apply andb_prop in Eg. destruct Eg as [Ea Eb]. apply N.eqb_eq in Ea, Eb.
      inversion H; subst. rewrite Ea. auto 10.
    + destruct ((rs_cc a =? SET_COMMAND_RESPONSE) && (rs_cc b =? SET_COMMAND_RESPONSE)) eqn:Eg2; [|discriminate].
      apply andb_prop in Eg2. destruct Eg2 as [Ea Eb]. apply N.eqb_eq in Ea, Eb.
      inversion H; subst. rewrite Ea. auto 10.
  - intros (Hl & Hs & Hc & ->).
    apply N.ltb_ge in Hl. rewrite Hl. apply N.eqb_eq in Hs. rewrite Hs. cbn [negb].
    destruct Hc as [[Ea Eb]|[Ea Eb]]; rewrite Ea, Eb.
    + rewrite !N.eqb_refl. reflexivity.
    + rewrite !N.eqb_refl. cbn. reflexivity.
Qed.

(* ---------- while the destructor runs ---------- *)
Definition fts : reply := mkReply RDM_FAILED_TO_SEND None 0.
Definition dying_step (s s' : st) : Prop :=
  calls (g_trace s') = calls (g_trace s) /\ m_out s' = m_out s /\ m_dout s' = m_dout s /\
  g_ddone s' = g_ddone s /\
  (g_done s' = g_done s \/ exists c, g_done s' = g_done s ++ [c] /\ c_reply c = fts /\ c_kind c <> K_ANSWERED).

Lemma step_dying s f ag s' ag' :
  h_destroying s = true -> s_pending s = true -> dframe f -> step s f ag = (s', ag') -> dying_step s s'.
Proof.
  intros Hd Hp Hdf H. unfold dying_step.
  destruct f as [[sn cb|full nl cb| | |r|]| | | |]; cbn in Hdf; try contradiction; cbn [step do_op] in H;
    rewrite ?Hd in H; cbn [negb andb] in H; rewrite ?andb_false_r in H.
  - destruct (s_max s <=? len (s_queue s)).
    + inversion H; subst. unfold log_comp; cbn.
      split; [destruct (existsb _ _); cbn; [|rewrite calls_snoc by reflexivity]; reflexivity|].
      repeat split; auto. right. eexists. split; [reflexivity|]. split; [reflexivity|discriminate].
    + rewrite take_next_blocked in H by (cbn; exact Hp). inversion H; subst. cbn. repeat split; auto.
  - inversion H; subst. repeat split; auto.
  - inversion H; subst. cbn. repeat split; auto.
  - rewrite take_next_blocked in H by (cbn; exact Hp). inversion H; subst. cbn. repeat split; auto.
  - inversion H; subst. repeat split; auto.
  - inversion H; subst. repeat split; auto.
  - unfold destroy_next in H. destruct (s_queue s) as [|[id cb] q]; inversion H; subst; [repeat split; auto|].
    unfold log_comp; cbn.
    split; [destruct (existsb _ _); cbn; [|rewrite calls_snoc by reflexivity]; reflexivity|].
    repeat split; auto. right. eexists. split; [reflexivity|]. split; [reflexivity|discriminate].
Qed.
