From OlaBase Require Import Bytes.
From Coq Require Import Sorted.
From C12 Require Import Gen Model.
Local Open Scope N_scope.

Ltac unf := unfold step, do_op, handle, continue_overflow, disc_complete, run_callback, take_next,
  start_disc, maybe_send, mock_send, note_call in *.
Ltac split_eq H :=
  cbn in H;
  repeat (match type of H with
          | context [match ?x with _ => _ end] => destruct x eqn:?; cbn in H
          | context [if ?x then _ else _] => destruct x eqn:?; cbn in H
          end);
  inversion H; subst; clear H.

(* ---------- exactly once, in order ---------- *)
Fixpoint count_q (i : N) (q : list (N * list op)) : nat :=
  match q with [] => O | e :: r => Nat.add (if N.eqb (fst e) i then 1%nat else O) (count_q i r) end.

Definition fts : reply := mkReply RDM_FAILED_TO_SEND None 0.

Record InvC (s : st) : Prop := {
  C_cnt : forall i, Nat.add (count_id i (g_done s)) (count_q i (s_queue s)) =
                    (if i <? h_next s then 1%nat else O);
  C_acc : g_accepted s = accepted_ids (g_done s) ++ map fst (s_queue s);
  C_sorted : StronglySorted N.lt (g_accepted s);
  C_bound : Forall (fun i => i < h_next s) (g_accepted s);
  C_kind : Forall (fun c => c_kind c = K_ANSWERED \/ c_reply c = fts) (g_done s) }.

Definition cview (s : st) := (g_done s, s_queue s, h_next s, g_accepted s).

Definition ctrans (s s' : st) : Prop :=
  cview s' = cview s \/
  (exists id cb rest rep parts fr, s_queue s = (id, cb) :: rest /\
     cview s' = (g_done s ++ [mkComp id K_ANSWERED rep parts fr], rest, h_next s, g_accepted s)) \/
  cview s' = (g_done s ++ [mkComp (h_next s) K_REJECTED fts [] []], s_queue s, h_next s + 1, g_accepted s) \/
  (exists cb, cview s' = (g_done s, s_queue s ++ [(h_next s, cb)], h_next s + 1,
                          g_accepted s ++ [h_next s])) \/
  (exists id cb rest, s_queue s = (id, cb) :: rest /\
     cview s' = (g_done s ++ [mkComp id K_DESTROYED fts [] []], rest, h_next s, g_accepted s)).

Lemma mock_send_cv id s ag s' ag' : mock_send id s ag = (s', ag') -> cview s' = cview s.
Proof.
  unfold mock_send, note_call, cview. intros H. cbn in H.
  destruct (h_paused s); cbn in H; destruct (m_script s) as [|[r|] ms]; inversion H; subst; reflexivity.
Qed.
Lemma maybe_send_cv s ag s' ag' : maybe_send s ag = (s', ag') -> cview s' = cview s.
Proof.
  unfold maybe_send. destruct (s_queue s) as [|[id cb] q] eqn:E; intros H.
  - inversion H; subst; reflexivity.
  - apply mock_send_cv in H. rewrite H. reflexivity.
Qed.
Lemma start_disc_cv s ag s' ag' : start_disc s ag = (s', ag') -> cview s' = cview s.
Proof.
  unfold start_disc, note_call, cview. intros H. cbn in H.
  destruct (h_paused s); cbn in H; destruct (m_dscript s) as [|[|] ds]; inversion H; subst; reflexivity.
Qed.
Lemma take_next_cv s ag s' ag' : take_next s ag = (s', ag') -> cview s' = cview s.
Proof.
  unfold take_next. intros H.
  destruct (negb (s_active s) || s_pending s || negb (is_nil (s_rdisc s))).
  - inversion H; subst; reflexivity.
  - destruct (negb (is_nil (s_pdisc s))); [eapply start_disc_cv|eapply maybe_send_cv]; eauto.
Qed.
Lemma continue_overflow_cv s ag s' ag' : continue_overflow s ag = (s', ag') -> cview s' = cview s.
Proof.
  unfold continue_overflow. destruct (s_active s); intros H.
  - eapply maybe_send_cv; eauto.
  - inversion H; subst; reflexivity.
Qed.
Definition cpop (s s' : st) : Prop :=
  cview s' = cview s \/
  (exists id cb rest rep parts fr, s_queue s = (id, cb) :: rest /\
     cview s' = (g_done s ++ [mkComp id K_ANSWERED rep parts fr], rest, h_next s, g_accepted s)).
Lemma run_callback_cv rep parts fr s ag s' ag' : run_callback rep parts fr s ag = (s', ag') -> cpop s s'.
Proof.
  unfold run_callback, cpop. intros H.
  destruct (s_queue s) as [|[id cb] q] eqn:E.
  - inversion H; subst. left. reflexivity.
  - inversion H; subst. right. exists id, cb, q, rep, parts, fr. split; [reflexivity|].
    unfold cview; cbn. reflexivity.
Qed.
Lemma cpop_eqv s0 s s' : cview s0 = cview s -> cpop s0 s' -> cpop s s'.
Proof.
  unfold cpop, cview. intros E [H|(id & cb & rest & rep & parts & fr & Hq & H)]; inversion E as [[E1 E2 E3 E4]].
  - left. congruence.
  - right. exists id, cb, rest, rep, parts, fr. split; congruence.
Qed.
Lemma handle_cv from rep s ag s' ag' : handle from rep s ag = (s', ag') -> cpop s s'.
Proof.
  unfold handle. intros H.
  destruct (is_nil (s_queue (set_s_pending false s))).
  { inversion H; subst. left. reflexivity. }
  repeat match type of H with
  | context [match ?x with _ => _ end] => destruct x eqn:?
  end;
  try (apply run_callback_cv in H; eapply cpop_eqv; [|exact H]; reflexivity);
  try (apply continue_overflow_cv in H; left; rewrite H; reflexivity).
Qed.

Lemma step_ctrans s f ag s' ag' : step s f ag = (s', ag') -> ctrans s s'.
Proof.
  intros H. unfold ctrans.
  assert (Hpop : forall s0, cview s0 = cview s -> cpop s0 s' ->
     cview s' = cview s \/
     (exists id cb rest rep parts fr, s_queue s = (id, cb) :: rest /\
        cview s' = (g_done s ++ [mkComp id K_ANSWERED rep parts fr], rest, h_next s, g_accepted s)) \/
     cview s' = (g_done s ++ [mkComp (h_next s) K_REJECTED fts [] []], s_queue s, h_next s + 1, g_accepted s) \/
     (exists cb, cview s' = (g_done s, s_queue s ++ [(h_next s, cb)], h_next s + 1,
                          g_accepted s ++ [h_next s])) \/
     (exists id cb rest, s_queue s = (id, cb) :: rest /\
        cview s' = (g_done s ++ [mkComp id K_DESTROYED fts [] []], rest, h_next s, g_accepted s))).
  { intros s0 E Hp. apply (cpop_eqv _ _ _ E) in Hp. destruct Hp as [Hp|Hp]; auto. }
  destruct f as [[sn cb|full nl cb| | |r|]| | | |]; cbn [step do_op] in H.
  - destruct (s_max s <=? len (s_queue s)).
    + inversion H; subst. right; right; left. reflexivity.
    + apply take_next_cv in H. right; right; right; left. eexists. rewrite H. reflexivity.
  - destruct (s_discov s && negb (h_destroying s)).
    + apply take_next_cv in H. left. rewrite H. reflexivity.
    + inversion H; subst. left; reflexivity.
  - inversion H; subst. left; reflexivity.
  - apply take_next_cv in H. left. rewrite H. reflexivity.
  - destruct (h_destroying s); [inversion H; subst; left; reflexivity|].
    destruct (m_out s).
    + inversion H; subst. left; reflexivity.
    + apply handle_cv in H. eapply Hpop; [|exact H]. reflexivity.
  - destruct (h_destroying s); [inversion H; subst; left; reflexivity|].
    destruct (m_dout s).
    + inversion H; subst. left; reflexivity.
    + unfold disc_complete in H. inversion H; subst. left; reflexivity.
  - apply take_next_cv in H. left. rewrite H. reflexivity.
  - inversion H; subst. left; reflexivity.
  - apply take_next_cv in H. left. rewrite H. reflexivity.
  - destruct (h_destroying s); [|inversion H; subst; left; reflexivity].
    unfold destroy_next in H. destruct (s_queue s) as [|[id cb] q] eqn:Eq; inversion H; subst; [left; reflexivity|].
    right; right; right; right. exists id, cb, q. split; [reflexivity|]. unfold cview, fts; cbn. reflexivity.
Qed.

Lemma count_id_app i a b : count_id i (a ++ b) = Nat.add (count_id i a) (count_id i b).
Proof. induction a; cbn [count_id app]; lia. Qed.
Lemma count_q_app i a b : count_q i (a ++ b) = Nat.add (count_q i a) (count_q i b).
Proof. induction a; cbn [count_q app]; lia. Qed.
Lemma accepted_ids_app a b : accepted_ids (a ++ b) = accepted_ids a ++ accepted_ids b.
Proof. unfold accepted_ids. rewrite filter_app, map_app. reflexivity. Qed.
Lemma ss_snoc l x : StronglySorted N.lt l -> Forall (fun i => i < x) l -> StronglySorted N.lt (l ++ [x]).
Proof.
  induction 1 as [|a l Hs IH Ha]; intros Hf; cbn.
  - constructor; constructor.
  - inversion Hf; subst. constructor; auto.
    apply Forall_app. split; auto.
Qed.

Lemma ctrans_C s s' : InvC s -> ctrans s s' -> InvC s'.
Proof.
  intros [Hcnt Hacc Hso Hb Hk] Ht. unfold ctrans, cview in Ht.
  destruct Ht as [E|[(id & cb & rest & rep & parts & fr & Eq & E)|[E|[(cb & E)|(id & cb & rest & Eq & E)]]]]; inversion E as [[E1 E2 E3 E4]];
    clear E.
  - constructor; rewrite ?E1, ?E2, ?E3, ?E4; auto.
  - constructor; rewrite ?E1, ?E2, ?E3, ?E4; auto.
    + intros i. specialize (Hcnt i). rewrite Eq in Hcnt. rewrite count_id_app. cbn in *. lia.
    + rewrite Hacc, Eq, accepted_ids_app. cbn. rewrite <- app_assoc. reflexivity.
    + apply Forall_app; split; auto.
  - constructor; rewrite ?E1, ?E2, ?E3, ?E4; auto.
    + intros i. specialize (Hcnt i). rewrite count_id_app. cbn.
      destruct (N.eqb_spec (h_next s) i), (N.ltb_spec i (h_next s)), (N.ltb_spec i (h_next s + 1)); lia.
    + rewrite accepted_ids_app. cbn. rewrite app_nil_r. auto.
    + eapply Forall_impl; [|exact Hb]. cbn; intros; lia.
    + apply Forall_app; split; auto; constructor; auto; try (right; reflexivity).
  - constructor; rewrite ?E1, ?E2, ?E3, ?E4; auto.
    + intros i. specialize (Hcnt i). rewrite count_q_app. cbn.
      destruct (N.eqb_spec (h_next s) i), (N.ltb_spec i (h_next s)), (N.ltb_spec i (h_next s + 1)); lia.
    + rewrite Hacc, map_app. cbn. rewrite app_assoc. reflexivity.
    + apply ss_snoc; auto.
    + apply Forall_app; split.
      * eapply Forall_impl; [|exact Hb]. cbn; intros; lia.
      * constructor; [lia|constructor].
  - constructor; rewrite ?E1, ?E2, ?E3, ?E4; auto.
    + intros i. specialize (Hcnt i). rewrite Eq in Hcnt. rewrite count_id_app. cbn in *. lia.
    + rewrite Hacc, Eq, accepted_ids_app. cbn. rewrite <- app_assoc. reflexivity.
    + apply Forall_app; split; auto.
Qed.

Lemma InvC_init max discov ms ds : InvC (init max discov ms ds).
Proof.
  constructor; cbn; auto.
  - intros i. destruct (N.ltb_spec i 0); [lia|reflexivity].
  - constructor.
Qed.

Lemma InvC_trace l s : InvC s -> InvC (set_g_trace l s).
Proof. intros [? ? ? ? ?]; constructor; cbn; auto. Qed.
