(* C12: every answered completion is built from the answers the mock produced for dispatches of that
   very request; an ACK_OVERFLOW chain is delivered as the in-order concatenation of its parts. *)
From OlaBase Require Import Bytes.
From C12 Require Import Gen Model ProofsF ProofsA.
Local Open Scope N_scope.

Definition tagged (i : N) (p : list N) : Prop := p = [] \/ exists d, p = i :: d.
Definition ptag (i : N) (r : resp) : Prop := tagged i (rs_data r).

(* what CombineResponses keeps of the parts: source UID and command class (equal in all parts), the
   PID of the first part, the message count of the last part *)
Definition meta_ok (rs : resp) (parts : list resp) : Prop :=
  Forall (fun r => rs_src r = rs_src rs /\ rs_cc r = rs_cc rs) parts /\
  (forall f, hd_error parts = Some f -> rs_hdr rs = rs_hdr f) /\
  (forall l, hd_error (rev parts) = Some l -> rs_mc rs = rs_mc l).

Definition resp_ok (i : N) (rs : resp) (parts : list resp) : Prop :=
  rs_data rs = concat (map rs_data parts) /\ Forall (ptag i) parts /\ parts <> [] /\ meta_ok rs parts /\
  ((2 <= length parts)%nat ->
   len (rs_data rs) <= MAX_OVERFLOW_SIZE /\ rs_type rs = RDM_ACK /\
   (rs_cc rs = GET_COMMAND_RESPONSE \/ rs_cc rs = SET_COMMAND_RESPONSE)) /\
  (forall p, parts = [p] -> rs = p).   (* a single answer is passed on as it is *)

Definition comp_ok (c : comp) : Prop :=
  c_kind c = K_ANSWERED ->
  c_from c <> [] /\ Forall (fun x => x = c_id c) (c_from c) /\
  match r_resp (c_reply c) with
  | Some rs => resp_ok (c_id c) rs (c_parts c)
  | None => True
  end.

Definition DI (s : st) : Prop :=
  Forall comp_ok (g_done s) /\
  (h_destroying s = false ->
  match s_resp s with
  | Some c => exists i cb rest, s_queue s = (i, cb) :: rest /\ resp_ok i c (g_parts s) /\
                                Forall (fun x => x = i) (g_from s) /\ g_from s <> []
  | None => g_parts s = [] /\ g_from s = []
  end).

Lemma DI_frame s s' : kframe s s' -> DI s -> DI s'.
Proof.
  unfold kframe, DI. intros (K1 & K2 & K3 & K4 & K5 & _ & _ & _ & _ & _ & K11). rewrite K1, K2, K3, K4, K5, K11. auto.
Qed.

Lemma combine_some a b c : combine a b = Some c ->
  rs_data c = rs_data a ++ rs_data b /\ len (rs_data c) <= MAX_OVERFLOW_SIZE /\ rs_type c = RDM_ACK /\
  rs_src c = rs_src a /\ rs_src b = rs_src a /\ rs_cc c = rs_cc a /\ rs_cc b = rs_cc a /\
  rs_hdr c = rs_hdr a /\ rs_mc c = rs_mc b /\
  (rs_cc c = GET_COMMAND_RESPONSE \/ rs_cc c = SET_COMMAND_RESPONSE).
Proof.
  unfold combine. intros H.
  destruct (MAX_OVERFLOW_SIZE <? len (rs_data a) + len (rs_data b)) eqn:E; [discriminate|].
  apply N.ltb_ge in E.
  destruct (rs_src a =? rs_src b) eqn:Es; cbn [negb] in H; [|discriminate]. apply N.eqb_eq in Es.
  destruct ((rs_cc a =? GET_COMMAND_RESPONSE) && (rs_cc b =? GET_COMMAND_RESPONSE)) eqn:Eg.
  - apply andb_prop in Eg. destruct Eg as [Ea Eb]. apply N.eqb_eq in Ea, Eb.
    inversion H; subst; cbn. rewrite len_app. repeat split; auto; congruence.
  - destruct ((rs_cc a =? SET_COMMAND_RESPONSE) && (rs_cc b =? SET_COMMAND_RESPONSE)) eqn:Eg2; [|discriminate].
    apply andb_prop in Eg2. destruct Eg2 as [Ea Eb]. apply N.eqb_eq in Ea, Eb.
    inversion H; subst; cbn. rewrite len_app. repeat split; auto; congruence.
Qed.

Lemma tag_resp i r rs : r_resp (tag i r) = Some rs -> tagged i (rs_data rs).
Proof.
  unfold tag, tagged. destruct (r_resp r) as [rs0|] eqn:E; cbn; intros H.
  - inversion H; subst; cbn. destruct (rs_data rs0); [left; reflexivity|right; eexists; reflexivity].
  - rewrite E in H. discriminate.
Qed.

Lemma concat_snoc {A} (l : list (list A)) x : concat (l ++ [x]) = concat l ++ x.
Proof. rewrite concat_app. cbn. rewrite app_nil_r. reflexivity. Qed.
Lemma snoc_nonnil {A} (l : list A) x : l ++ [x] <> [].
Proof. destruct l; cbn; congruence. Qed.
Lemma forall_snoc {A} (P : A -> Prop) l x : Forall P l -> P x -> Forall P (l ++ [x]).
Proof. intros. apply Forall_app; split; auto. Qed.

Lemma resp_ok_single i rs : tagged i (rs_data rs) -> resp_ok i rs [rs].
Proof.
  intros Ht. unfold resp_ok, meta_ok. cbn. rewrite app_nil_r.
  split; [reflexivity|]. split; [constructor; [exact Ht|constructor]|]. split; [discriminate|].
  split.
  - split; [constructor; [split; reflexivity|constructor]|].
    split; intros x Hx; inversion Hx; subst; reflexivity.
  - split; [intros; lia|]. intros p Hp. inversion Hp. reflexivity.
Qed.

Lemma resp_ok_snoc i acc rs c parts :
  resp_ok i acc parts -> combine acc rs = Some c -> tagged i (rs_data rs) -> resp_ok i c (parts ++ [rs]).
Proof.
  intros (Hdat & Htag & Hnn & (Hall & Hpid & Hmc) & _) Hc Ht.
  apply combine_some in Hc.
  destruct Hc as (Ecd & Ecl & Ect & Esc & Esb & Ecc & Ecb & Epid & Emc & Eget).
  unfold resp_ok, meta_ok. rewrite map_app, concat_app. cbn. rewrite app_nil_r.
  split; [rewrite Ecd, Hdat; reflexivity|].
  split; [apply forall_snoc; [exact Htag|exact Ht]|].
  split; [apply snoc_nonnil|].
  split.
  - split.
    + apply forall_snoc.
      * eapply Forall_impl; [|exact Hall]. cbn. intros r [H1 H2]. split; congruence.
      * split; congruence.
    + split.
      * intros f Hf. destruct parts as [|p parts]; [congruence|]. cbn in Hf. rewrite Epid. apply Hpid. exact Hf.
      * intros l Hl. rewrite rev_app_distr in Hl. cbn in Hl. inversion Hl; subst. exact Emc.
  - split; [intros _; auto|]. intros p Hp. exfalso.
    destruct parts as [|x parts]; [congruence|]. cbn in Hp. inversion Hp. destruct parts; discriminate.
Qed.

(* RunCallback from a state whose accumulator has been cleared *)
Lemma run_callback_D rep parts fr s ag s' ag' i cb rest :
  Forall comp_ok (g_done s) -> s_resp s = None -> g_parts s = [] -> g_from s = [] ->
  s_queue s = (i, cb) :: rest -> comp_ok (mkComp i K_ANSWERED rep parts fr) ->
  run_callback rep parts fr s ag = (s', ag') -> DI s'.
Proof.
  unfold run_callback. intros Hd Hr Hp Hf Hq Hc H. rewrite Hq in H. inversion H; subst.
  unfold DI. cbn. rewrite Hr. split; [apply forall_snoc; auto|auto].
Qed.

Lemma handle_D i r s ag s' ag' cb rest :
  DI s -> h_destroying s = false -> s_queue s = (i, cb) :: rest -> handle i (tag i r) s ag = (s', ag') -> DI s'.
Proof.
  unfold handle. intros [Hdone Hresp] Hnd Hq H. specialize (Hresp Hnd).
  remember (set_s_pending false s) as s0 eqn:Es0.
  assert (Q0 : s_queue s0 = (i, cb) :: rest) by (subst s0; exact Hq).
  assert (D0 : g_done s0 = g_done s) by (subst s0; reflexivity).
  assert (R0 : s_resp s0 = s_resp s) by (subst s0; reflexivity).
  assert (P0 : g_parts s0 = g_parts s) by (subst s0; reflexivity).
  assert (F0 : g_from s0 = g_from s) by (subst s0; reflexivity).
  clear Es0. rewrite Q0 in H. cbn [is_nil] in H.
  rewrite R0, P0, F0 in H.
  destruct (s_resp s) as [acc|] eqn:Er.
  - (* inside a sequence *)
    destruct Hresp as (i0 & cb0 & rest0 & Hq0 & Hacc & Hfr & Hfn).
    rewrite Hq in Hq0. inversion Hq0; subst i0 cb0 rest0. clear Hq0.
    assert (Hfr' : Forall (fun x => x = i) (g_from s ++ [i])) by (apply forall_snoc; auto).
    destruct (if r_status (tag i r) =? RDM_COMPLETED_OK then r_resp (tag i r) else None) as [rs|] eqn:Ers.
    + assert (Hrs : r_resp (tag i r) = Some rs).
      { destruct (r_status (tag i r) =? RDM_COMPLETED_OK); [exact Ers|discriminate]. }
      apply tag_resp in Hrs.
      destruct (combine acc rs) as [c|] eqn:Ec.
      * assert (Hok : resp_ok i c (g_parts s ++ [rs])).
        { eapply resp_ok_snoc; [exact Hacc|exact Ec|exact Hrs]. }
        destruct (negb (rs_type rs =? ACK_OVERFLOW)).
        -- eapply run_callback_D; [| | | | |  |exact H]; cbn; auto.
           ++ rewrite D0; exact Hdone.
           ++ exact Q0.
           ++ unfold comp_ok; cbn. intros _. split; [apply snoc_nonnil|]. split; [exact Hfr'|exact Hok].
        -- apply continue_overflow_kf in H. eapply DI_frame; [exact H|].
           unfold DI. cbn. rewrite D0. split; [exact Hdone|].
           exists i, cb, rest. split; [exact Q0|]. split; [exact Hok|]. split; [exact Hfr'|apply snoc_nonnil].
      * eapply run_callback_D; [| | | | | |exact H]; cbn; auto.
        -- rewrite D0; exact Hdone.
        -- exact Q0.
        -- unfold comp_ok; cbn. intros _. split; [apply snoc_nonnil|]. split; [exact Hfr'|exact I].
    + eapply run_callback_D; [| | | | | |exact H]; cbn; auto.
      * rewrite D0; exact Hdone.
      * exact Q0.
      * unfold comp_ok; cbn. intros _. split; [apply snoc_nonnil|]. split; [exact Hfr'|exact I].
  - (* no sequence in progress *)
    destruct Hresp as [Hp Hf]. rewrite Hf in *. cbn [app] in *.
    destruct (if r_status (tag i r) =? RDM_COMPLETED_OK then r_resp (tag i r) else None) as [rs|] eqn:Ers.
    + assert (Hrs : r_resp (tag i r) = Some rs).
      { destruct (r_status (tag i r) =? RDM_COMPLETED_OK); [exact Ers|discriminate]. }
      pose proof (tag_resp _ _ _ Hrs) as Htg.
      assert (Hok : resp_ok i rs [rs]) by (apply resp_ok_single; exact Htg).
      destruct (rs_type rs =? ACK_OVERFLOW).
      * apply continue_overflow_kf in H. eapply DI_frame; [exact H|].
        unfold DI. cbn. rewrite D0. split; [exact Hdone|].
        exists i, cb, rest. split; [exact Q0|]. split; [exact Hok|]. split; [constructor; auto|discriminate].
      * eapply run_callback_D; [rewrite D0; exact Hdone|congruence|congruence|congruence|exact Q0| |exact H].
        unfold comp_ok; cbn. intros _. split; [discriminate|]. split; [constructor; auto|].
           rewrite Hrs. exact Hok.
    + eapply run_callback_D; [rewrite D0; exact Hdone|congruence|congruence|congruence|exact Q0| |exact H].
      unfold comp_ok; cbn. intros _. split; [discriminate|]. split; [constructor; auto|].
        destruct (r_resp (tag i r)) as [rs|] eqn:Hrs; [|exact I].
        apply resp_ok_single. exact (tag_resp _ _ _ Hrs).
Qed.

Lemma comp_ok_rejected id r : comp_ok (mkComp id K_REJECTED r [] []).
Proof. unfold comp_ok; cbn. intros H; discriminate. Qed.

Lemma DI_qapp s e q' :
  DI s -> s_queue q' = s_queue s ++ [e] -> s_resp q' = s_resp s -> g_parts q' = g_parts s ->
  g_from q' = g_from s -> g_done q' = g_done s -> h_destroying q' = h_destroying s -> DI q'.
Proof.
  unfold DI. intros [Hd Hr] E1 E2 E3 E4 E5 E6. rewrite E1, E2, E3, E4, E5, E6. split; [exact Hd|].
  intros Hnd. specialize (Hr Hnd). destruct (s_resp s); [|exact Hr].
  destruct Hr as (i & cb & rest & Hq & H). exists i, cb, (rest ++ [e]). rewrite Hq. split; [reflexivity|exact H].
Qed.

Lemma comp_ok_destroyed id r : comp_ok (mkComp id K_DESTROYED r [] []).
Proof. unfold comp_ok; cbn. intros H; discriminate. Qed.

Lemma step_D s f ag s' ag' : InvA2 s (f :: ag) -> DI s -> step s f ag = (s', ag') -> DI s'.
Proof.
  intros HA2 HD H.
  destruct f as [[sn cb|full nl cb| | |r|]| | | |]; cbn [step do_op] in H.
  - destruct (s_max s <=? len (s_queue s)).
    + inversion H; subst. unfold DI in *. cbn. destruct HD as [Hd Hr]. split; [|exact Hr].
      apply forall_snoc; [exact Hd|apply comp_ok_rejected].
    + apply take_next_kf in H. eapply DI_frame; [exact H|].
      eapply DI_qapp; [exact HD| | | | | |]; reflexivity.
  - destruct (s_discov s && negb (h_destroying s)).
    + apply take_next_kf in H. eapply DI_frame; [exact H|]. unfold DI in *. cbn. exact HD.
    + inversion H; subst. exact HD.
  - inversion H; subst. unfold DI in *. cbn. exact HD.
  - apply take_next_kf in H. eapply DI_frame; [exact H|]. unfold DI in *. cbn. exact HD.
  - destruct (h_destroying s) eqn:Hdes; [inversion H; subst; exact HD|].
    destruct (m_out s) as [|i rest] eqn:Eo.
    + inversion H; subst. exact HD.
    + destruct HA2 as [[_ HA]|[Hd _]]; [|congruence].
      unfold InvA in HA. cbn [ndone] in HA. rewrite Eo in HA. apply AP_deliver in HA.
      destruct HA as (_ & _ & (cb & q' & Hq) & _).
      eapply (handle_D i r (set_m_out rest s)); [|exact Hdes|exact Hq|exact H]. unfold DI in *. cbn. exact HD.
  - destruct (h_destroying s) eqn:Hdes; [inversion H; subst; exact HD|].
    destruct (m_dout s) as [|x rest].
    + inversion H; subst. exact HD.
    + unfold disc_complete in H. inversion H; subst. unfold DI in *. cbn. exact HD.
  - apply take_next_kf in H. eapply DI_frame; [exact H|exact HD].
  - inversion H; subst. unfold DI in *. cbn. exact HD.
  - apply take_next_kf in H. eapply DI_frame; [exact H|]. unfold DI in *. cbn. exact HD.
  - destruct (h_destroying s) eqn:Hdes; [|inversion H; subst; exact HD].
    unfold destroy_next in H. destruct (s_queue s) as [|[id cb] q]; inversion H; subst; [exact HD|].
    destruct HD as [Hd _]. unfold DI. cbn. split.
    + apply forall_snoc; [exact Hd|apply comp_ok_destroyed].
    + intros Hx. congruence.
Qed.

Lemma DI_init max discov ms ds : DI (init max discov ms ds).
Proof. unfold DI, init; cbn. auto. Qed.
Lemma DI_trace l s : DI s -> DI (set_g_trace l s).
Proof. unfold DI; cbn; auto. Qed.
Lemma DI_destroy s : DI s -> DI (start_destroy s).
Proof. unfold DI, start_destroy; cbn. intros [Hd _]. split; [exact Hd|]. intros Hx; discriminate. Qed.
