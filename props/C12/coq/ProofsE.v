(* C12: discovery requests — every request is taken by exactly one run of the underlying
   controller, a run takes all requests waiting at its start and is full iff one of them asked for
   full, every discovery callback runs at most once and is run by the run that took it. *)
From OlaBase Require Import Bytes.
From Coq Require Import Permutation.
From C12 Require Import Gen Model ProofsA.
Local Open Scope N_scope.

Fixpoint nseq (k : nat) : list N :=
  match k with O => [] | S k' => nseq k' ++ [N.of_nat k'] end.
Lemma nseq_succ n : nseq (N.to_nat (n + 1)) = nseq (N.to_nat n) ++ [n].
Proof. rewrite N.add_1_r, N2Nat.inj_succ. cbn [nseq]. rewrite N2Nat.id. reflexivity. Qed.
Lemma nseq_lt k : Forall (fun x => (N.to_nat x < k)%nat) (nseq k).
Proof.
  induction k; cbn [nseq]; [constructor|]. apply Forall_app; split.
  - eapply Forall_impl; [|exact IHk]. cbn; intros; lia.
  - constructor; [rewrite Nat2N.id; lia|constructor].
Qed.
Lemma nodup_snoc {A} (l : list A) x : NoDup l -> ~ In x l -> NoDup (l ++ [x]).
Proof.
  induction l as [|a l IH]; cbn; intros Hn Hx.
  - constructor; [intros []|constructor].
  - inversion Hn; subst. constructor.
    + rewrite in_app_iff. intros [H|[H|[]]]; [auto|subst; apply Hx; left; auto].
    + apply IH; auto.
Qed.
Lemma nseq_nodup k : NoDup (nseq k).
Proof.
  induction k; cbn [nseq]; [constructor|]. apply nodup_snoc; [exact IHk|].
  intros Hin. pose proof (nseq_lt k) as Hf. rewrite Forall_forall in Hf. apply Hf in Hin.
  rewrite Nat2N.id in Hin. lia.
Qed.

Fixpoint logs2 (ag : list frame) : list (N * N) :=
  match ag with [] => [] | FDiscLog _ d r :: t => (d, r) :: logs2 t | _ :: t => logs2 t end.
Lemma logs2_app a b : logs2 (a ++ b) = logs2 a ++ logs2 b.
Proof. induction a as [|[]]; cbn [logs2 app]; auto. rewrite IHa. reflexivity. Qed.
Lemma logs2_fop cb : logs2 (map FOp cb) = [].
Proof. induction cb; cbn; auto. Qed.
Fixpoint somes (r : list (N * option (list op))) : list N :=
  match r with [] => [] | (d, Some _) :: t => d :: somes t | (_, None) :: t => somes t end.
Lemma somes_app a b : somes (a ++ b) = somes a ++ somes b.
Proof. induction a as [|[? [?|]]]; cbn [somes app]; auto. rewrite IHa. reflexivity. Qed.
Lemma somes_erase r : somes (map (fun e : N * option (list op) => (fst e, @None (list op))) r) = [].
Proof. induction r as [|[? ?]]; cbn; auto. Qed.
Definition pdids (p : list (bool * N * list op)) : list N := map (fun e => snd (fst e)) p.
Lemma somes_reqs p :
  somes (map (fun e : bool * N * list op => (snd (fst e), Some (snd e))) p) = pdids p.
Proof. induction p as [|[[? ?] ?]]; cbn; auto. cbn in IHp. rewrite IHp. reflexivity. Qed.
Lemma logs2_frames nulls run r :
  logs2 (disc_frames nulls run r)
  = map (fun d => (d, run)) (somes r).
Proof.
  unfold disc_frames in *. induction r as [|[d [cb|]] r IH]; cbn [flat_map snd fst somes map]; auto.
  cbn [app logs2]. rewrite logs2_app, logs2_fop, IH. reflexivity.
Qed.

Definition rrec := (N * bool * list (bool * N))%type.
Definition run_dids (e : rrec) : list N := map snd (snd e).
Definition run_ok (e : rrec) : Prop := snd (fst e) = existsb fst (snd e) /\ snd e <> [].
Definition in_run (did run : N) (runs : list rrec) : Prop :=
  exists full reqs, In (run, full, reqs) runs /\ In did (map snd reqs).
Lemma in_run_app did run runs e : in_run did run runs -> in_run did run (runs ++ [e]).
Proof. intros (f & q & H1 & H2). exists f, q. split; [apply in_or_app; auto|auto]. Qed.

Definition EP (runs : list rrec) (p : list (bool * N * list op)) (r : list (N * option (list op)))
              (nd : N) (dd : list (N * N)) (dout : list N) (lg : list (N * N)) : Prop :=
  flat_map run_dids runs ++ pdids p = nseq (N.to_nat nd) /\
  Forall run_ok runs /\
  Permutation (map fst dd ++ map fst lg ++ somes r ++ pdids p) (nseq (N.to_nat nd)) /\
  Forall (fun x => in_run (fst x) (snd x) runs) dd /\
  Forall (fun x => in_run (fst x) (snd x) runs) lg /\
  match dout with
  | [] => somes r = []
  | run :: _ => Forall (fun d => in_run d run runs) (somes r)
  end.

Definition EI (s : st) (ag : list frame) : Prop :=
  EP (g_runs s) (s_pdisc s) (s_rdisc s) (h_ndid s) (g_ddone s) (m_dout s) (logs2 ag).

(* ---- state-free lemmas ---- *)
Lemma EP_request runs p r nd dd dout lg full cb :
  EP runs p r nd dd dout lg -> EP runs (p ++ [(full, nd, cb)]) r (nd + 1) dd dout lg.
Proof.
  intros (E1 & E2 & E3 & E4 & E5 & E6). unfold EP, pdids in *. rewrite map_app, nseq_succ. cbn [map fst snd].
  split; [rewrite app_assoc, E1; reflexivity|]. split; [exact E2|].
  split; [|auto].
  rewrite !app_assoc. apply Permutation_app_tail. rewrite <- !app_assoc. exact E3.
Qed.

Lemma existsb_map {A B} (f : A -> B) g l : existsb g (map f l) = existsb (fun x => g (f x)) l.
Proof. induction l; cbn; auto. rewrite IHl. reflexivity. Qed.

Lemma EP_start runs p nd dd lg nr :
  EP runs p [] nd dd [] lg -> p <> [] ->
  EP (runs ++ [(nr, existsb (fun e : bool * N * list op => fst (fst e)) p, map (fun e => fst e) p)])
     [] ([] ++ map (fun e : bool * N * list op => (snd (fst e), Some (snd e))) p) nd dd ([] ++ [nr]) lg.
Proof.
  intros (E1 & E2 & E3 & E4 & E5 & E6) Hp. unfold EP. cbn [app].
  assert (Hd : run_dids (nr, existsb (fun e : bool * N * list op => fst (fst e)) p, map (fun e => fst e) p)
               = pdids p).
  { unfold run_dids, pdids. cbn [snd]. rewrite map_map. reflexivity. }
  split.
  { rewrite flat_map_app. cbn [flat_map]. rewrite Hd. change (pdids []) with (@nil N). rewrite !app_nil_r. exact E1. }
  split.
  { apply Forall_app; split; [exact E2|]. constructor; [|constructor].
    unfold run_ok. cbn [fst snd]. split; [rewrite existsb_map; reflexivity|].
    destruct p; cbn; congruence. }
  split.
  { rewrite somes_reqs. change (pdids []) with (@nil N). rewrite app_nil_r. cbn [somes app] in E3. exact E3. }
  split; [eapply Forall_impl; [|exact E4]; intros; apply in_run_app; auto|].
  split; [eapply Forall_impl; [|exact E5]; intros; apply in_run_app; auto|].
  rewrite somes_reqs. apply Forall_forall. intros d Hin.
  eexists _, _. split; [apply in_or_app; right; left; reflexivity|].
  rewrite map_map. exact Hin.
Qed.

Lemma EP_complete runs p r nd dd x rest lg :
  EP runs p r nd dd (x :: rest) lg ->
  EP runs p (map (fun e : N * option (list op) => (fst e, @None (list op))) r) nd dd rest
     (map (fun d => (d, x)) (somes r) ++ lg).
Proof.
  intros (E1 & E2 & E3 & E4 & E5 & E6). unfold EP. rewrite somes_erase.
  split; [exact E1|]. split; [exact E2|].
  split.
  { rewrite map_app, map_map. cbn [fst]. rewrite map_id. cbn [app].
    eapply Permutation_trans; [|exact E3].
    apply Permutation_app_head. rewrite !app_assoc. apply Permutation_app_tail.
    apply Permutation_app_comm. }
  split; [exact E4|].
  split.
  { apply Forall_app; split; [|exact E5]. apply Forall_forall. intros [d y] Hin.
    apply in_map_iff in Hin. destruct Hin as (d0 & Heq & Hin). inversion Heq; subst. cbn.
    rewrite Forall_forall in E6. apply E6. exact Hin. }
  destruct rest; [reflexivity|constructor].
Qed.

Lemma EP_log runs p r nd dd dout lg d y :
  EP runs p r nd dd dout ((d, y) :: lg) -> EP runs p r nd (dd ++ [(d, y)]) dout lg.
Proof.
  intros (E1 & E2 & E3 & E4 & E5 & E6). unfold EP. inversion E5; subst.
  split; [exact E1|]. split; [exact E2|].
  split; [rewrite map_app, <- app_assoc; exact E3|].
  split; [apply Forall_app; split; [exact E4|constructor; [assumption|constructor]]|].
  split; [assumption|exact E6].
Qed.

Lemma EP_done runs p r nd dd lg :
  EP runs p r nd dd [] lg -> EP runs p [] nd dd [] lg.
Proof.
  intros (E1 & E2 & E3 & E4 & E5 & E6). unfold EP. rewrite E6 in E3. cbn [somes]. auto 10.
Qed.

(* ---- the model functions ---- *)
Definition eframe (s s' : st) : Prop :=
  g_runs s' = g_runs s /\ s_pdisc s' = s_pdisc s /\ s_rdisc s' = s_rdisc s /\ h_ndid s' = h_ndid s /\
  g_ddone s' = g_ddone s /\ m_dout s' = m_dout s.
Lemma eframe_refl s : eframe s s.
Proof. unfold eframe; repeat split; reflexivity. Qed.
Lemma EI_frame s s' ag ag' : eframe s s' -> logs2 ag' = logs2 ag -> EI s ag -> EI s' ag'.
Proof. unfold eframe, EI. intros (K1 & K2 & K3 & K4 & K5 & K6) K7. rewrite K1, K2, K3, K4, K5, K6, K7. auto. Qed.

Lemma mock_send_ef id s ag s' ag' : mock_send id s ag = (s', ag') -> eframe s s' /\ logs2 ag' = logs2 ag.
Proof.
  unfold mock_send, note_call, eframe. intros H. cbn in H.
  destruct (h_paused s); cbn in H; destruct (m_script s) as [|[r|] ms]; inversion H; subst; cbn;
    repeat split; reflexivity.
Qed.
Lemma maybe_send_ef s ag s' ag' : maybe_send s ag = (s', ag') -> eframe s s' /\ logs2 ag' = logs2 ag.
Proof.
  unfold maybe_send. destruct (s_queue s) as [|[id cb] q]; intros H.
  - inversion H; subst. split; [apply eframe_refl|reflexivity].
  - apply mock_send_ef in H. unfold eframe in *. cbn in H. exact H.
Qed.
Lemma continue_overflow_ef s ag s' ag' :
  continue_overflow s ag = (s', ag') -> eframe s s' /\ logs2 ag' = logs2 ag.
Proof.
  unfold continue_overflow. destruct (s_active s); intros H.
  - eapply maybe_send_ef; eauto.
  - inversion H; subst. split; [apply eframe_refl|reflexivity].
Qed.
Lemma run_callback_ef rep parts fr s ag s' ag' :
  run_callback rep parts fr s ag = (s', ag') -> eframe s s' /\ logs2 ag' = logs2 ag.
Proof.
  unfold run_callback. intros H. destruct (s_queue s) as [|[id cb] q]; inversion H; subst.
  - split; [unfold eframe; cbn; repeat split; reflexivity|reflexivity].
  - split; [unfold eframe; cbn; repeat split; reflexivity|]. rewrite logs2_app, logs2_fop. reflexivity.
Qed.
Lemma eframe_trans a b c : eframe a b -> eframe b c -> eframe a c.
Proof.
  unfold eframe. intros (A1 & A2 & A3 & A4 & A5 & A6) (B1 & B2 & B3 & B4 & B5 & B6).
  repeat split; congruence.
Qed.
Lemma handle_ef from rep s ag s' ag' :
  handle from rep s ag = (s', ag') -> eframe s s' /\ logs2 ag' = logs2 ag.
Proof.
  unfold handle. intros H.
  destruct (is_nil (s_queue (set_s_pending false s))).
  { inversion H; subst. split; [unfold eframe; cbn; repeat split; reflexivity|reflexivity]. }
  repeat match type of H with
  | context [match ?x with _ => _ end] => destruct x eqn:?
  end;
  try (apply run_callback_ef in H; destruct H as [H1 H2]; split; [|exact H2];
       eapply eframe_trans; [|exact H1]; unfold eframe; cbn; repeat split; reflexivity);
  try (apply continue_overflow_ef in H; destruct H as [H1 H2]; split; [|exact H2];
       eapply eframe_trans; [|exact H1]; unfold eframe; cbn; repeat split; reflexivity).
Qed.

Lemma start_disc_eff s ag s' ag' : start_disc s ag = (s', ag') ->
  g_runs s' = g_runs s ++ [(m_nrun s, existsb (fun e : bool * N * list op => fst (fst e)) (s_pdisc s),
                            map (fun e => fst e) (s_pdisc s))] /\
  s_pdisc s' = [] /\
  s_rdisc s' = s_rdisc s ++ map (fun e : bool * N * list op => (snd (fst e), Some (snd e))) (s_pdisc s) /\
  h_ndid s' = h_ndid s /\ g_ddone s' = g_ddone s /\ m_dout s' = m_dout s ++ [m_nrun s] /\
  logs2 ag' = logs2 ag.
Proof.
  unfold start_disc, note_call. intros H. cbn in H.
  destruct (h_paused s); cbn in H; destruct (m_dscript s) as [|[|] ds]; inversion H; subst; cbn;
    repeat split; reflexivity.
Qed.

Lemma take_next_E s ag s' ag' : InvA s ag -> EI s ag -> take_next s ag = (s', ag') -> EI s' ag'.
Proof.
  unfold take_next. intros HA HE H.
  destruct (negb (s_active s) || s_pending s || negb (is_nil (s_rdisc s))) eqn:G.
  - inversion H; subst; auto.
  - apply orb_false_iff in G. destruct G as [G Gr]. apply negb_false_iff, is_nil_true in Gr.
    destruct (negb (is_nil (s_pdisc s))) eqn:Gd.
    + apply negb_true_iff, is_nil_false in Gd.
      assert (Hd : m_dout s = []) by (eapply AP_rnil_d; eauto).
      apply start_disc_eff in H. destruct H as (K1 & K2 & K3 & K4 & K5 & K6 & K7).
      unfold EI in *. rewrite K1, K2, K3, K4, K5, K6, K7, Gr, Hd. rewrite Gr, Hd in HE.
      apply EP_start; auto.
    + apply maybe_send_ef in H. destruct H. eapply EI_frame; eauto.
Qed.

Lemma step_E_live s f ag s' ag' :
  h_destroying s = false -> InvA s (f :: ag) -> EI s (f :: ag) -> step s f ag = (s', ag') -> EI s' ag'.
Proof.
  intros Hnd HA HE H. pose proof HA as HA0. unfold InvA in HA. cbn [ndone] in HA.
  destruct f as [[sn cb|full nl cb| | |r|]| | | |]; cbn [step do_op] in H; rewrite ?Hnd in H; cbn [negb andb] in H;
    rewrite ?andb_true_r in H; unfold EI in HE; cbn [logs2] in HE.
  - destruct (s_max s <=? len (s_queue s)).
    + inversion H; subst. unfold EI. cbn. rewrite logs2_app, logs2_fop. exact HE.
    + eapply take_next_E; [| |exact H]; [unfold InvA; cbn; apply AP_qapp; exact HA|unfold EI; cbn; exact HE].
  - destruct (s_discov s).
    + eapply take_next_E; [| |exact H]; [unfold InvA; cbn; exact HA|].
      unfold EI; cbn. apply EP_request. exact HE.
    + inversion H; subst. exact HE.
  - inversion H; subst. unfold EI. cbn. exact HE.
  - eapply take_next_E; [| |exact H]; [unfold InvA; cbn; exact HA|unfold EI; cbn; exact HE].
  - destruct (m_out s) as [|i rest].
    + inversion H; subst. exact HE.
    + apply handle_ef in H. destruct H as [H1 H2]. eapply EI_frame; [exact H1|exact H2|].
      unfold EI. cbn. exact HE.
  - destruct (m_dout s) as [|x rest] eqn:Ed.
    + inversion H; subst. unfold EI. rewrite Ed. exact HE.
    + unfold disc_complete in H. inversion H; subst. unfold EI. cbn.
      rewrite logs2_app, logs2_frames. cbn [logs2]. apply EP_complete. exact HE.
  - eapply take_next_E; [| |exact H]; [exact HA|exact HE].
  - inversion H; subst. unfold EI. cbn. apply EP_log. exact HE.
  - assert (Hd : m_dout s = []).
    { destruct HA as (_ & _ & Hn & Hn1 & _). assert (Hz : ndone ag = O) by lia.
      rewrite Hz in Hn1. destruct (Hn1 eq_refl); auto. }
    eapply take_next_E; [| |exact H].
    + unfold InvA; cbn. eapply AP_discdone. exact HA.
    + unfold EI; cbn. rewrite Hd in *. eapply EP_done. exact HE.
  - inversion H; subst. exact HE.
Qed.

Lemma step_E_dying s f ag s' ag' :
  h_destroying s = true -> s_pending s = true -> dframe f ->
  EI s (f :: ag) -> step s f ag = (s', ag') -> EI s' ag'.
Proof.
  intros Hd Hp Hdf HE H.
  destruct f as [[sn cb|full nl cb| | |r|]| | | |]; cbn in Hdf; try contradiction; cbn [step do_op] in H;
    rewrite ?Hd in H; cbn [negb andb] in H; rewrite ?andb_false_r in H; unfold EI in HE; cbn [logs2] in HE.
  - destruct (s_max s <=? len (s_queue s)).
    + inversion H; subst. unfold EI. cbn. rewrite logs2_app, logs2_fop. exact HE.
    + rewrite take_next_blocked in H by (cbn; exact Hp). inversion H; subst. unfold EI. cbn. exact HE.
  - inversion H; subst. exact HE.
  - inversion H; subst. unfold EI. cbn. exact HE.
  - rewrite take_next_blocked in H by (cbn; exact Hp). inversion H; subst. unfold EI. cbn. exact HE.
  - inversion H; subst. exact HE.
  - inversion H; subst. exact HE.
  - unfold destroy_next in H. destruct (s_queue s) as [|[id cb] q]; inversion H; subst; [exact HE|].
    unfold EI. cbn. rewrite logs2_app, logs2_fop. cbn [logs2 app]. exact HE.
Qed.

Lemma step_E s f ag s' ag' : InvA2 s (f :: ag) -> EI s (f :: ag) -> step s f ag = (s', ag') -> EI s' ag'.
Proof.
  intros [[Hnd HA]|(Hd & (Hp & _) & Hdag & _)] HE H.
  - eapply step_E_live; eauto.
  - inversion Hdag; subst. eapply step_E_dying; eauto.
Qed.

Lemma EI_init max discov ms ds : EI (init max discov ms ds) [].
Proof. unfold EI, EP, init; cbn. repeat split; auto. Qed.
Lemma EI_trace l s o : EI s [] -> EI (set_g_trace l s) [FOp o].
Proof. unfold EI; cbn; auto. Qed.
Lemma EI_destroy s : EI s [] -> EI (start_destroy s) [FDestroy].
Proof. unfold EI, start_destroy; cbn; auto. Qed.
