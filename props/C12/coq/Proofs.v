(* C12: every configuration (state, call-stack agenda) that any history can reach, at any instant,
   destruction with live callbacks included, and what the invariants give for it. *)
From OlaBase Require Import Bytes.
From Coq Require Import Sorted Permutation.
From C12 Require Import Gen Model ProofsT ProofsF ProofsA ProofsB ProofsC ProofsD ProofsR ProofsE ProofsE2 ProofsP ProofsV ProofsX.
Local Open Scope N_scope.

Inductive reachable (max : N) (discov : bool) (ms : list mitem) (ds : list bool)
  : st -> list frame -> Prop :=
| R_init : reachable max discov ms ds (init max discov ms ds) []
| R_op s o : reachable max discov ms ds s [] -> h_destroying s = false ->
             reachable max discov ms ds (set_g_trace [] s) [FOp o]
| R_destroy s : reachable max discov ms ds s [] -> h_destroying s = false ->
                reachable max discov ms ds (start_destroy s) [FDestroy]
| R_step s f ag s' ag' : reachable max discov ms ds s (f :: ag) -> step s f ag = (s', ag') ->
                         reachable max discov ms ds s' ag'.

Lemma reach_A2 max discov ms ds s ag : reachable max discov ms ds s ag -> InvA2 s ag.
Proof.
  induction 1.
  - left. split; [reflexivity|]. unfold InvA, AP, init; cbn. repeat split; auto; try lia; intros; lia.
  - destruct IHreachable as [[_ HA]|[Hd _]]; [|congruence]. left. split; [exact H0|].
    unfold InvA in *. cbn. exact HA.
  - destruct IHreachable as [[_ HA]|[Hd _]]; [|congruence]. apply InvA2_destroy; auto.
  - eapply step_A2; eauto.
Qed.
Lemma reach_B max discov ms ds s ag : reachable max discov ms ds s ag -> InvB s.
Proof.
  induction 1.
  - unfold InvB, init; cbn. auto.
  - unfold InvB in *; cbn. auto.
  - unfold InvB, start_destroy in *; cbn. auto.
  - eapply step_B; eauto.
Qed.
Lemma reach_C max discov ms ds s ag : reachable max discov ms ds s ag -> InvC s.
Proof.
  induction 1.
  - apply InvC_init.
  - apply InvC_trace; auto.
  - destruct IHreachable as [? ? ? ? ?]. constructor; cbn; auto.
  - eapply ctrans_C; eauto. eapply step_ctrans; eauto.
Qed.
Lemma reach_D max discov ms ds s ag : reachable max discov ms ds s ag -> DI s.
Proof.
  induction 1.
  - apply DI_init.
  - apply DI_trace; auto.
  - apply DI_destroy; auto.
  - eapply step_D; eauto. eapply reach_A2; eauto.
Qed.
Lemma reach_R max discov ms ds s ag : reachable max discov ms ds s ag -> RI s.
Proof.
  induction 1.
  - apply RI_init.
  - apply RI_trace; auto.
  - unfold RI, start_destroy in *; cbn. auto.
  - eapply step_R; eauto.
Qed.
Lemma reach_E max discov ms ds s ag : reachable max discov ms ds s ag -> EI s ag.
Proof.
  induction 1.
  - apply EI_init.
  - apply EI_trace; auto.
  - apply EI_destroy; auto.
  - eapply step_E; eauto. eapply reach_A2; eauto.
Qed.

Lemma run_reach max discov ms ds : forall fuel s ag s',
  reachable max discov ms ds s ag -> run fuel s ag = Some s' -> reachable max discov ms ds s' [].
Proof.
  induction fuel as [|k IH]; intros s ag s' Hr H.
  - destruct ag; cbn in H; [inversion H; subst; auto|discriminate].
  - destruct ag as [|f ag]; cbn [run] in H; [inversion H; subst; auto|].
    destruct (step s f ag) as [s1 ag1] eqn:E. eapply IH; [|exact H]. eapply R_step; eauto.
Qed.
Lemma run_hd : forall fuel s ag s', run fuel s ag = Some s' -> h_destroying s' = h_destroying s.
Proof.
  induction fuel as [|k IH]; intros s ag s' H.
  - destruct ag; cbn in H; [inversion H; subst; auto|discriminate].
  - destruct ag as [|f ag]; cbn [run] in H; [inversion H; subst; auto|].
    destruct (step s f ag) as [s1 ag1] eqn:E. rewrite (IH _ _ _ H). eapply step_hd; eauto.
Qed.
(* the states between the top-level operations of a history: reachable and not being destroyed *)
Lemma exec_op_reach max discov ms ds s o s' :
  reachable max discov ms ds s [] -> h_destroying s = false -> exec_op s o = Some s' ->
  reachable max discov ms ds s' [] /\ h_destroying s' = false.
Proof.
  unfold exec_op. intros Hr Hnd H. split.
  - eapply run_reach; [|exact H]. apply R_op; auto.
  - rewrite (run_hd _ _ _ _ H). exact Hnd.
Qed.
Lemma exec_ops_reach max discov ms ds : forall h s s',
  reachable max discov ms ds s [] -> h_destroying s = false -> exec_ops s h = Some s' ->
  reachable max discov ms ds s' [] /\ h_destroying s' = false.
Proof.
  induction h as [|o h IH]; intros s s' Hr Hnd H; cbn [exec_ops] in H.
  - inversion H; subst; auto.
  - destruct (exec_op s o) as [s1|] eqn:E; [|discriminate].
    destruct (exec_op_reach _ _ _ _ _ _ _ Hr Hnd E). eapply IH; eauto.
Qed.
Lemma history_reach max discov ms ds h f :
  run_history max discov ms ds h = Some f ->
  reachable max discov ms ds f [] /\ h_destroying f = true.
Proof.
  unfold run_history. destruct (exec_ops (init max discov ms ds) h) as [s|] eqn:E; [|discriminate].
  unfold destroy_run. intros H.
  destruct (exec_ops_reach _ _ _ _ _ _ _ (R_init _ _ _ _) eq_refl E) as [Hr Hnd]. split.
  - eapply run_reach; [|exact H]. apply R_destroy; auto.
  - rewrite (run_hd _ _ _ _ H). reflexivity.
Qed.

Lemma exec_op_total s o : exec_op s o <> None.
Proof. unfold exec_op. apply run_enough. unfold measure, wst; cbn. lia. Qed.
Lemma exec_ops_total : forall h s, exec_ops s h <> None.
Proof.
  induction h as [|o h IH]; intros s; cbn [exec_ops]; [discriminate|].
  destruct (exec_op s o) eqn:E; [apply IH|]. exfalso; eapply exec_op_total; eauto.
Qed.
Lemma run_history_total max discov ms ds h : run_history max discov ms ds h <> None.
Proof.
  unfold run_history. destruct (exec_ops (init max discov ms ds) h) eqn:E.
  - unfold destroy_run. apply run_enough. lia.
  - exfalso; eapply exec_ops_total; eauto.
Qed.

(* after destruction *)
Definition final_ok (f : st) : Prop :=
  (forall i, count_id i (g_done f) = if i <? h_next f then 1%nat else O) /\
  StronglySorted N.lt (accepted_ids (g_done f)) /\
  Forall (fun c => c_kind c = K_ANSWERED \/ c_reply c = mkReply RDM_FAILED_TO_SEND None 0) (g_done f) /\
  s_queue f = [].

Lemma history_final max discov ms ds h f :
  run_history max discov ms ds h = Some f -> final_ok f.
Proof.
  intros H. destruct (history_reach _ _ _ _ _ _ H) as [Hr Hd].
  assert (Hq : s_queue f = []).
  { destruct (reach_A2 _ _ _ _ _ _ Hr) as [[Hnd _]|(_ & _ & _ & Hend)]; [congruence|].
    destruct Hend as [(pre & E)|[_ Hq]]; [destruct pre; discriminate|exact Hq]. }
  destruct (reach_C _ _ _ _ _ _ Hr) as [Hcnt Hacc Hso Hb Hk]. unfold final_ok.
  split; [|split; [|split; [exact Hk|exact Hq]]].
  - intros i. specialize (Hcnt i). rewrite Hq in Hcnt. cbn in Hcnt. lia.
  - rewrite Hq in Hacc. cbn in Hacc. rewrite app_nil_r in Hacc. rewrite <- Hacc. exact Hso.
Qed.

Lemma reach_once max discov ms ds s ag :
  reachable max discov ms ds s ag ->
  (forall i, (count_id i (g_done s) <= 1)%nat) /\ StronglySorted N.lt (accepted_ids (g_done s)).
Proof.
  intros Hr. destruct (reach_C _ _ _ _ _ _ Hr) as [Hcnt Hacc Hso Hb Hk]. split.
  - intros i. specialize (Hcnt i). destruct (i <? h_next s); lia.
  - rewrite Hacc in Hso. clear - Hso.
    induction (accepted_ids (g_done s)) as [|a l IH]; cbn in *; [constructor|].
    inversion Hso; subst. constructor; auto. apply Forall_app in H2. tauto.
Qed.

Lemma reach_paused max discov ms ds s ag :
  reachable max discov ms ds s ag -> h_paused s = negb (s_active s) /\ g_psends s = 0.
Proof. intros Hr. exact (reach_B _ _ _ _ _ _ Hr). Qed.

Lemma reach_outstanding max discov ms ds s ag :
  reachable max discov ms ds s ag ->
  len (m_out s) + len (m_dout s) <= 1 /\ g_conc s <= 1 /\ g_fatal s = false /\
  (h_destroying s = false -> (s_pending s = true <-> m_out s <> []) /\ (m_dout s <> [] -> s_rdisc s <> [])).
Proof.
  intros Hr. destruct (reach_A2 _ _ _ _ _ _ Hr) as [[Hnd HA]|(Hd & (Hp & Hl & Hc & Hf) & _)].
  - destruct HA as (Hout & Hdout & _ & _ & Hc & Hf).
    destruct Hout as [(Ho1 & Ho2)|(i0 & cb0 & rest0 & Ho1 & Ho2 & Ho3 & Ho4)];
    destruct Hdout as [Hd1|(r0 & Hd1 & Hd2 & Hd3)]; try congruence;
    rewrite ?Ho1, ?Hd1, ?Ho3; cbn; repeat split; auto; try lia; try congruence; intros; congruence.
  - repeat split; auto; congruence.
Qed.

Lemma reach_own max discov ms ds s ag :
  reachable max discov ms ds s ag -> Forall comp_ok (g_done s).
Proof. intros Hr. destruct (reach_D _ _ _ _ _ _ Hr) as [Hd _]. exact Hd. Qed.

Lemma nodup_app_l {A} (a b : list A) : NoDup (a ++ b) -> NoDup a.
Proof.
  induction a as [|x a IH]; cbn; intros H; [constructor|].
  inversion H; subst. constructor; [|apply IH; assumption].
  intros Hin. apply H2. apply in_or_app. left. exact Hin.
Qed.

Lemma reach_discovery max discov ms ds s ag :
  reachable max discov ms ds s ag ->
  flat_map run_dids (g_runs s) ++ pdids (s_pdisc s) = nseq (N.to_nat (h_ndid s)) /\
  Forall run_ok (g_runs s) /\
  NoDup (map fst (g_ddone s)) /\
  Forall (fun x => in_run (fst x) (snd x) (g_runs s)) (g_ddone s).
Proof.
  intros Hr. destruct (reach_E _ _ _ _ _ _ Hr) as (E1 & E2 & E3 & E4 & _).
  split; [exact E1|]. split; [exact E2|]. split; [|exact E4].
  apply Permutation_sym in E3. pose proof (Permutation_NoDup E3 (nseq_nodup _)) as Hn.
  apply nodup_app_l in Hn. exact Hn.
Qed.

(* ---- progress, paused step, no leak ---- *)
Lemma reach_W max discov ms ds s ag :
  reachable max discov ms ds s ag -> h_destroying s = false -> WI s ag.
Proof.
  induction 1; intros Hnd.
  - apply WI_not. unfold waiting, init; cbn. intros [_ [Hx|Hx]]; congruence.
  - specialize (IHreachable H0). apply WI_not. intros [Hi Hw].
    assert (Hx : Exists tframe []) by (apply IHreachable; [exact Hi|exact Hw]). inversion Hx.
  - cbn in Hnd. discriminate.
  - assert (Hnd0 : h_destroying s = false) by (rewrite <- (step_hd _ _ _ _ _ H0); exact Hnd).
    destruct (reach_A2 _ _ _ _ _ _ H) as [[_ HA]|[Hd _]]; [|congruence].
    eapply step_W; eauto.
Qed.

Lemma reach_progress max discov ms ds s ag :
  reachable max discov ms ds s ag -> h_destroying s = false ->
  s_active s = true -> s_pending s = false -> s_rdisc s = [] ->
  (s_pdisc s <> [] \/ s_queue s <> []) -> Exists tframe ag.
Proof.
  intros Hr Hnd Ha Hp Hrd Hw. apply (reach_W _ _ _ _ _ _ Hr Hnd); [unfold idle; auto|exact Hw].
Qed.
Lemma reach_quiescent max discov ms ds s :
  reachable max discov ms ds s [] -> h_destroying s = false ->
  s_active s = true -> s_pending s = false -> s_rdisc s = [] ->
  s_pdisc s = [] /\ s_queue s = [].
Proof.
  intros Hr Hnd Ha Hp Hrd.
  destruct (s_pdisc s) eqn:E1; [destruct (s_queue s) eqn:E2; [auto|]|];
    exfalso; assert (Hx : Exists tframe []) by
      (eapply reach_progress; eauto; rewrite ?E1, ?E2; (left; discriminate) || (right; discriminate));
    inversion Hx.
Qed.

Lemma reach_paused_step max discov ms ds s f ag s' ag' :
  reachable max discov ms ds s (f :: ag) -> h_paused s = true -> f <> FOp Resume ->
  step s f ag = (s', ag') -> quiet s s'.
Proof.
  intros Hr Hp Hf H. destruct (reach_B _ _ _ _ _ _ Hr) as [Hb _].
  eapply step_quiet; eauto. rewrite Hp in Hb. destruct (s_active s); [discriminate|reflexivity].
Qed.

Lemma count_q_pos i cb rest j : count_q j ((i, cb) :: rest) = O -> j <> i.
Proof. cbn. intros H Hj. subst. rewrite N.eqb_refl in H. discriminate. Qed.

Lemma reach_no_leak max discov ms ds s ag c :
  reachable max discov ms ds s ag -> h_destroying s = false -> s_resp s = Some c ->
  exists i cb rest, s_queue s = (i, cb) :: rest /\ count_id i (g_done s) = O /\
                    resp_ok i c (g_parts s) /\ Forall (fun x => x = i) (g_from s).
Proof.
  intros Hr Hnd Hc. destruct (reach_D _ _ _ _ _ _ Hr) as [_ Hres]. specialize (Hres Hnd).
  rewrite Hc in Hres. destruct Hres as (i & cb & rest & Hq & Hok & Hf & _).
  exists i, cb, rest. split; [exact Hq|]. split; [|split; assumption].
  destruct (reach_C _ _ _ _ _ _ Hr) as [Hcnt _ _ _ _]. specialize (Hcnt i). rewrite Hq in Hcnt.
  cbn in Hcnt. rewrite N.eqb_refl in Hcnt. destruct (i <? h_next s); lia.
Qed.

Lemma history_verdicts max discov ms ds h f :
  run_history max discov ms ds h = Some f ->
  dups (g_done f) = O /\ sorted_lt (accepted_ids (g_done f)) = true /\ bad_data (g_done f) = O /\
  lost f = O /\ g_conc f <= 1 /\ g_psends f = 0 /\ g_rj f = 0 /\ g_fatal f = false.
Proof.
  intros H. destruct (history_final _ _ _ _ _ _ H) as (Hcnt & Hso & Hk & _).
  destruct (history_reach _ _ _ _ _ _ H) as [Hr _].
  destruct (reach_outstanding _ _ _ _ _ _ Hr) as (_ & Hc & Hf & _).
  destruct (reach_paused _ _ _ _ _ _ Hr) as [_ Hp]. destruct (reach_R _ _ _ _ _ _ Hr) as [_ Hrj].
  split.
  { apply dups_zero. intros i. rewrite Hcnt. destruct (i <? h_next f); lia. }
  split; [apply sorted_lt_true; exact Hso|].
  split; [apply bad_zero; [exact (reach_own _ _ _ _ _ _ Hr)|exact Hk]|].
  split; [apply lost_zero; exact Hcnt|]. auto.
Qed.

(* ---- the discovery verdict ---- *)
Lemma reach_Q max discov ms ds s ag : reachable max discov ms ds s ag -> QI s ag.
Proof.
  induction 1.
  - apply QI_init.
  - apply QI_trace; auto.
  - apply QI_destroy; auto.
  - eapply step_Q; eauto; [eapply reach_A2|eapply reach_E]; eauto.
Qed.
Lemma reach_dv max discov ms ds s : reachable max discov ms ds s [] -> dv_of s = O.
Proof. intros Hr. apply dv_zero; [eapply reach_E|eapply reach_Q]; eauto. Qed.

(* ---- destruction ---- *)
Lemma reach_dying_step max discov ms ds s f ag s' ag' :
  reachable max discov ms ds s (f :: ag) -> h_destroying s = true -> step s f ag = (s', ag') ->
  dying_step s s'.
Proof.
  intros Hr Hd H. destruct (reach_A2 _ _ _ _ _ _ Hr) as [[Hnd _]|(_ & (Hp & _) & Hdag & _)]; [congruence|].
  inversion Hdag; subst. eapply step_dying; eauto.
Qed.
Lemma destroy_after_prefix max discov ms ds h1 :
  exists f, run_history max discov ms ds h1 = Some f /\ final_ok f /\ h_destroying f = true.
Proof.
  destruct (run_history max discov ms ds h1) as [f|] eqn:E.
  - exists f. split; [reflexivity|]. split; [eapply history_final; eauto|].
    destruct (history_reach _ _ _ _ _ _ E); auto.
  - exfalso. eapply run_history_total; eauto.
Qed.

(* ---- a run only takes requests that were already queued ---- *)
Lemma reach_run_after_queue max discov ms ds s f ag s' ag' :
  reachable max discov ms ds s (f :: ag) -> step s f ag = (s', ag') ->
  g_runs s' = g_runs s \/
  exists e, g_runs s' = g_runs s ++ [e] /\
    forall d, In d (run_dids e) -> d < h_ndid s' /\ ~ In d (flat_map run_dids (g_runs s)).
Proof.
  intros Hr H. pose proof (R_step _ _ _ _ _ _ _ _ _ Hr H) as Hr'.
  destruct (step_runs _ _ _ _ _ H) as [E|(e & E)]; [left; exact E|right].
  exists e. split; [exact E|]. intros d Hd. pose proof (reach_E _ _ _ _ _ _ Hr') as HE. split.
  - eapply runs_below; [exact HE| |exact Hd]. rewrite E. apply in_or_app. right. left. reflexivity.
  - pose proof (EP_nodup_runs _ _ _ _ _ _ _ HE) as Hn. rewrite E, flat_map_app in Hn. cbn in Hn.
    rewrite app_nil_r in Hn. intros Hin. eapply nodup_app_disj; [exact Hn|exact Hin|exact Hd].
Qed.
