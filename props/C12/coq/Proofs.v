(* C12: every configuration (state, call-stack agenda) that any history can reach, at any instant,
   and what the invariants of ProofsA/B/C give for it and for complete histories. *)
From OlaBase Require Import Bytes.
From Coq Require Import Sorted.
From Coq Require Import Permutation.
From C12 Require Import Gen Model ProofsT ProofsF ProofsA ProofsB ProofsC ProofsD ProofsR ProofsE.
Local Open Scope N_scope.

Inductive reachable (max : N) (discov : bool) (ms : list mitem) (ds : list bool)
  : st -> list frame -> Prop :=
| R_init : reachable max discov ms ds (init max discov ms ds) []
| R_op s o : reachable max discov ms ds s [] ->
             reachable max discov ms ds (set_g_trace [] s) [FOp o]
| R_step s f ag s' ag' : reachable max discov ms ds s (f :: ag) -> step s f ag = (s', ag') ->
                         reachable max discov ms ds s' ag'.

Lemma reach_B max discov ms ds s ag : reachable max discov ms ds s ag -> InvB s.
Proof.
  induction 1.
  - unfold InvB, init; cbn. auto.
  - unfold InvB in *; cbn. auto.
  - eapply step_B; eauto.
Qed.
Lemma reach_C max discov ms ds s ag : reachable max discov ms ds s ag -> InvC s.
Proof.
  induction 1.
  - apply InvC_init.
  - apply InvC_trace; auto.
  - eapply ctrans_C; eauto. eapply step_ctrans; eauto.
Qed.

Lemma run_reach max discov ms ds : forall fuel s ag s',
  reachable max discov ms ds s ag -> run fuel s ag = Some s' -> reachable max discov ms ds s' [].
Proof.
  induction fuel as [|k IH]; intros s ag s' Hr H.
  - destruct ag; cbn in H; [inversion H; subst; auto|discriminate].
  - destruct ag as [|f ag]; cbn [run] in H; [inversion H; subst; auto|].
    destruct (step s f ag) as [s1 ag1] eqn:E. eapply IH; [|exact H]. eapply R_step; eauto.
Qed.
Lemma exec_op_reach max discov ms ds s o s' :
  reachable max discov ms ds s [] -> exec_op s o = Some s' -> reachable max discov ms ds s' [].
Proof. unfold exec_op. intros Hr H. eapply run_reach; [|exact H]. apply R_op; auto. Qed.
Lemma exec_ops_reach max discov ms ds : forall h s s',
  reachable max discov ms ds s [] -> exec_ops s h = Some s' -> reachable max discov ms ds s' [].
Proof.
  induction h as [|o h IH]; intros s s' Hr H; cbn [exec_ops] in H.
  - inversion H; subst; auto.
  - destruct (exec_op s o) as [s1|] eqn:E; [|discriminate].
    eapply IH; [|exact H]. eapply exec_op_reach; eauto.
Qed.

Lemma exec_op_total s o : exec_op s o <> None.
Proof. unfold exec_op. apply run_enough. unfold measure, wst; cbn. lia. Qed.
Lemma exec_ops_total : forall h s, exec_ops s h <> None.
Proof.
  induction h as [|o h IH]; intros s; cbn [exec_ops]; [discriminate|].
  destruct (exec_op s o) eqn:E; [apply IH|]. exfalso; eapply exec_op_total; eauto.
Qed.
Lemma run_history_total max discov ms ds h : run_history max discov ms ds h <> None.
Proof.
  unfold run_history. destruct (exec_ops (init max discov ms ds) h) eqn:E; [discriminate|].
  exfalso; eapply exec_ops_total; eauto.
Qed.

(* destruction *)
Lemma count_id_destroyed i q :
  count_id i (map (fun e : N * list op => mkComp (fst e) K_DESTROYED (mkReply RDM_FAILED_TO_SEND None 0) [] []) q)
  = count_q i q.
Proof. induction q as [|e q IH]; cbn [count_id count_q map c_id]; auto. Qed.
Lemma accepted_destroyed q :
  accepted_ids (map (fun e : N * list op => mkComp (fst e) K_DESTROYED (mkReply RDM_FAILED_TO_SEND None 0) [] []) q)
  = map fst q.
Proof. unfold accepted_ids. induction q as [|e q IH]; cbn; auto. cbn in IH. rewrite IH. auto. Qed.

Definition final_ok (f : st) : Prop :=
  (forall i, count_id i (g_done f) = if i <? h_next f then 1%nat else O) /\
  StronglySorted N.lt (accepted_ids (g_done f)) /\
  Forall (fun c => c_kind c = K_ANSWERED \/ c_reply c = mkReply RDM_FAILED_TO_SEND None 0) (g_done f) /\
  s_queue f = [].

Lemma destroy_done s :
  g_done (destroy s) = g_done s ++
    map (fun e : N * list op => mkComp (fst e) K_DESTROYED (mkReply RDM_FAILED_TO_SEND None 0) [] []) (s_queue s).
Proof. reflexivity. Qed.
Lemma destroy_next s : h_next (destroy s) = h_next s.
Proof. reflexivity. Qed.
Lemma destroy_queue s : s_queue (destroy s) = [].
Proof. reflexivity. Qed.

Lemma destroy_C s : InvC s -> final_ok (destroy s).
Proof.
  intros [Hcnt Hacc Hso Hb Hk]. unfold final_ok.
  rewrite destroy_done, destroy_next, destroy_queue.
  split; [|split; [|split; [|reflexivity]]].
  - intros i. rewrite count_id_app, count_id_destroyed. apply Hcnt.
  - rewrite accepted_ids_app, accepted_destroyed, <- Hacc. exact Hso.
  - apply Forall_app; split.
    + eapply Forall_impl; [|exact Hk]. cbn. intros c [H|[_ H]]; auto.
    + apply Forall_forall. intros c Hin. apply in_map_iff in Hin. destruct Hin as (e & He & _).
      subst c. right. reflexivity.
Qed.

Lemma history_final max discov ms ds h f :
  run_history max discov ms ds h = Some f -> final_ok f.
Proof.
  unfold run_history. destruct (exec_ops (init max discov ms ds) h) as [s|] eqn:E; [|discriminate].
  intros H; inversion H; subst. apply destroy_C.
  eapply reach_C. eapply exec_ops_reach; [apply R_init|exact E].
Qed.

Lemma reach_once max discov ms ds s ag :
  reachable max discov ms ds s ag ->
  (forall i, (count_id i (g_done s) <= 1)%nat) /\ StronglySorted N.lt (accepted_ids (g_done s)).
Proof.
  intros Hr. destruct (reach_C _ _ _ _ _ _ Hr) as [Hcnt Hacc Hso Hb Hk]. split.
  - intros i. specialize (Hcnt i). destruct (i <? h_next s); lia.
  - rewrite Hacc in Hso. clear - Hso.
    induction (accepted_ids (g_done s)) as [|a l IH]; cbn in *; [constructor|].
    inversion Hso; subst. constructor; auto. apply Forall_app in H2. tauto.
Qed.

Lemma reach_paused max discov ms ds s ag :
  reachable max discov ms ds s ag -> h_paused s = negb (s_active s) /\ g_psends s = 0.
Proof. intros Hr. exact (reach_B _ _ _ _ _ _ Hr). Qed.

(* ---- round 2: one outstanding, own reply / overflow, queue-full bookkeeping, discovery ---- *)
Lemma reach_A max discov ms ds s ag : reachable max discov ms ds s ag -> InvA s ag.
Proof.
  induction 1.
  - unfold InvA, AP, init; cbn. repeat split; auto; try lia; intros; lia.
  - unfold InvA in *. cbn. exact IHreachable.
  - eapply step_A; eauto.
Qed.
Lemma reach_D max discov ms ds s ag : reachable max discov ms ds s ag -> DI s.
Proof.
  induction 1.
  - apply DI_init.
  - apply DI_trace; auto.
  - eapply step_D; eauto. eapply reach_A; eauto.
Qed.
Lemma reach_R max discov ms ds s ag : reachable max discov ms ds s ag -> RI s.
Proof.
  induction 1.
  - apply RI_init.
  - apply RI_trace; auto.
  - eapply step_R; eauto.
Qed.
Lemma reach_E max discov ms ds s ag : reachable max discov ms ds s ag -> EI s ag.
Proof.
  induction 1.
  - apply EI_init.
  - apply EI_trace; auto.
  - eapply step_E; eauto. eapply reach_A; eauto.
Qed.

Lemma reach_outstanding max discov ms ds s ag :
  reachable max discov ms ds s ag ->
  len (m_out s) + len (m_dout s) <= 1 /\ g_conc s <= 1 /\ g_fatal s = false /\
  (s_pending s = true <-> m_out s <> []).
Proof.
  intros Hr. destruct (reach_A _ _ _ _ _ _ Hr) as (Hout & Hdout & _ & _ & Hc & Hf).
  destruct Hout as [(Ho1 & Ho2)|(i0 & cb0 & rest0 & Ho1 & Ho2 & Ho3 & Ho4)];
  destruct Hdout as [Hd1|(r0 & Hd1 & Hd2 & Hd3)]; try congruence;
  rewrite ?Ho1, ?Hd1, ?Ho3; cbn; repeat split; auto; try lia; try congruence; intros; congruence.
Qed.

Lemma destroy_D s : DI s -> Forall comp_ok (g_done (destroy s)).
Proof.
  intros [Hd _]. rewrite destroy_done. apply Forall_app; split; [exact Hd|].
  apply Forall_forall. intros c Hin. apply in_map_iff in Hin. destruct Hin as (e & He & _). subst c.
  unfold comp_ok; cbn. intros Hk; discriminate.
Qed.
Lemma history_own max discov ms ds h f :
  run_history max discov ms ds h = Some f -> Forall comp_ok (g_done f).
Proof.
  unfold run_history. destruct (exec_ops (init max discov ms ds) h) as [s|] eqn:E; [|discriminate].
  intros H; inversion H; subst. apply destroy_D.
  eapply reach_D. eapply exec_ops_reach; [apply R_init|exact E].
Qed.

Lemma nodup_app_l {A} (a b : list A) : NoDup (a ++ b) -> NoDup a.
Proof.
  induction a as [|x a IH]; cbn; intros H; [constructor|].
  inversion H; subst. constructor; [|apply IH; assumption].
  intros Hin. apply H2. apply in_or_app. left. exact Hin.
Qed.

Lemma reach_discovery max discov ms ds s ag :
  reachable max discov ms ds s ag ->
  flat_map run_dids (g_runs s) ++ pdids (s_pdisc s) = nseq (N.to_nat (h_ndid s)) /\
  Forall run_ok (g_runs s) /\
  NoDup (map fst (g_ddone s)) /\
  Forall (fun x => in_run (fst x) (snd x) (g_runs s)) (g_ddone s).
Proof.
  intros Hr. destruct (reach_E _ _ _ _ _ _ Hr) as (E1 & E2 & E3 & E4 & _).
  split; [exact E1|]. split; [exact E2|]. split; [|exact E4].
  apply Permutation_sym in E3. pose proof (Permutation_NoDup E3 (nseq_nodup _)) as Hn.
  apply nodup_app_l in Hn. exact Hn.
Qed.
