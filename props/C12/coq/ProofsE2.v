(* C12: the discovery verdict of the driver (dv_of) is 0 at every quiescent configuration: each run
   has either served none of the requests it took or all of them, so its full flag is the OR of what
   the requests it served asked for, and no discovery callback was served twice. *)
From OlaBase Require Import Bytes.
From Coq Require Import Permutation.
From C12 Require Import Gen Model ProofsA ProofsE.
Local Open Scope N_scope.

(* ---- lists ---- *)
Lemma nodup_app_disj {A} (a b : list A) x : NoDup (a ++ b) -> In x a -> In x b -> False.
Proof.
  induction a as [|y a IH]; cbn; intros Hn Ha Hb; [contradiction|].
  inversion Hn; subst. destruct Ha as [->|Ha].
  - apply H1. apply in_or_app. right. exact Hb.
  - eapply IH; eauto.
Qed.
Lemma nodup_app_r {A} (a b : list A) : NoDup (a ++ b) -> NoDup b.
Proof. induction a as [|y a IH]; cbn; intros Hn; [exact Hn|]. inversion Hn; subst. auto. Qed.
Lemma nodup_app_l' {A} (a b : list A) : NoDup (a ++ b) -> NoDup a.
Proof.
  induction a as [|x a IH]; cbn; intros H; [constructor|].
  inversion H; subst. constructor; [|apply IH; assumption].
  intros Hin. apply H2. apply in_or_app. left. exact Hin.
Qed.
Lemma flat_map_unique {A B} (g : A -> list B) l e1 e2 d :
  NoDup (flat_map g l) -> In e1 l -> In e2 l -> In d (g e1) -> In d (g e2) -> e1 = e2.
Proof.
  induction l as [|a l IH]; cbn; intros Hn H1 H2 D1 D2; [contradiction|].
  destruct H1 as [<-|H1], H2 as [<-|H2]; auto.
  - exfalso. eapply nodup_app_disj; [exact Hn|exact D1|]. apply in_flat_map. eauto.
  - exfalso. eapply nodup_app_disj; [exact Hn|exact D2|]. apply in_flat_map. eauto.
  - apply IH; auto. eapply nodup_app_r; eauto.
Qed.
Lemma filter_none' {A} (f : A -> bool) l : (forall x, In x l -> f x = false) -> filter f l = [].
Proof.
  induction l as [|a l IH]; intros H; cbn; [reflexivity|].
  rewrite (H a (or_introl eq_refl)). apply IH. intros x Hx. apply H. right. exact Hx.
Qed.
Lemma filter_all {A} (f : A -> bool) l : (forall x, In x l -> f x = true) -> filter f l = l.
Proof.
  induction l as [|a l IH]; intros H; cbn; [reflexivity|].
  rewrite (H a (or_introl eq_refl)). f_equal. apply IH. intros x Hx. apply H. right. exact Hx.
Qed.

(* ---- the invariant ---- *)
Definition Dset (dd lg : list (N * N)) : list N := map fst dd ++ map fst lg.

Definition QP (runs : list rrec) (r : list (N * option (list op))) (dd : list (N * N))
              (dout : list N) (lg : list (N * N)) : Prop :=
  (dout <> [] -> exists init e, runs = init ++ [e] /\ somes r = run_dids e) /\
  (forall e, In e runs ->
     (forall d, In d (run_dids e) -> ~ In d (Dset dd lg)) \/
     (forall d, In d (run_dids e) -> In d (Dset dd lg))).

Definition QI (s : st) (ag : list frame) : Prop :=
  QP (g_runs s) (s_rdisc s) (g_ddone s) (m_dout s) (logs2 ag).

Lemma QI_frame s s' ag ag' : eframe s s' -> logs2 ag' = logs2 ag -> QI s ag -> QI s' ag'.
Proof. unfold eframe, QI. intros (K1 & K2 & K3 & K4 & K5 & K6) K7. rewrite K1, K3, K5, K6, K7. auto. Qed.

Lemma QP_start runs dd lg (enew : rrec) reqs nr :
  QP runs [] dd [] lg -> somes reqs = run_dids enew ->
  (forall d, In d (run_dids enew) -> ~ In d (Dset dd lg)) ->
  QP (runs ++ [enew]) ([] ++ reqs) dd ([] ++ [nr]) lg.
Proof.
  intros [_ Q8] Hs Hn. split.
  - intros _. exists runs, enew. split; [reflexivity|exact Hs].
  - intros e He. apply in_app_or in He. destruct He as [He|[<-|[]]]; [apply Q8; exact He|].
    left. exact Hn.
Qed.

Lemma QP_complete runs r dd x lg :
  QP runs r dd [x] lg -> NoDup (flat_map run_dids runs) ->
  QP runs (map (fun e : N * option (list op) => (fst e, @None (list op))) r) dd []
     (map (fun d => (d, x)) (somes r) ++ lg).
Proof.
  intros [Q7 Q8] Hn. destruct (Q7 ltac:(discriminate)) as (init & elast & -> & Hs).
  split; [intros H; congruence|].
  assert (HD : forall d, In d (Dset dd (map (fun d => (d, x)) (somes r) ++ lg)) <->
                         In d (Dset dd lg) \/ In d (run_dids elast)).
  { intros d. unfold Dset. rewrite map_app, map_map. cbn. rewrite map_id, Hs.
    rewrite !in_app_iff. tauto. }
  intros e He. destruct (Q8 e He) as [Hnone|Hall].
  - apply in_app_or in He. destruct He as [He|[<-|[]]].
    + left. intros d Hd Hin. apply HD in Hin. destruct Hin as [Hin|Hin]; [exact (Hnone d Hd Hin)|].
      rewrite flat_map_app in Hn. cbn in Hn. rewrite app_nil_r in Hn.
      eapply nodup_app_disj; [exact Hn| |exact Hin]. apply in_flat_map. eauto.
    + right. intros d Hd. apply HD. right. exact Hd.
  - right. intros d Hd. apply HD. left. exact (Hall d Hd).
Qed.

Lemma QP_log runs r dd dout lg d y :
  QP runs r dd dout ((d, y) :: lg) -> QP runs r (dd ++ [(d, y)]) dout lg.
Proof.
  intros [Q7 Q8]. split; [exact Q7|].
  assert (HD : forall z, In z (Dset (dd ++ [(d, y)]) lg) <-> In z (Dset dd ((d, y) :: lg))).
  { intros z. unfold Dset. rewrite map_app. cbn. rewrite !in_app_iff. cbn. tauto. }
  intros e He. destruct (Q8 e He) as [H|H]; [left|right]; intros z Hz; [rewrite HD|rewrite HD]; auto.
Qed.

Lemma QP_done runs r dd lg : QP runs r dd [] lg -> QP runs [] dd [] lg.
Proof. intros [_ Q8]. split; [intros H; congruence|exact Q8]. Qed.

(* facts taken from EP *)
Lemma EP_nodup_runs runs p r nd dd dout lg : EP runs p r nd dd dout lg -> NoDup (flat_map run_dids runs).
Proof.
  intros (E1 & _). pose proof (nseq_nodup (N.to_nat nd)) as Hn. rewrite <- E1 in Hn.
  eapply nodup_app_l'; eauto.
Qed.
Lemma EP_fresh runs p r nd dd dout lg :
  EP runs p r nd dd dout lg -> forall d, In d (pdids p) -> ~ In d (Dset dd lg).
Proof.
  intros (_ & _ & E3 & _) d Hd Hin.
  apply Permutation_sym in E3. pose proof (Permutation_NoDup E3 (nseq_nodup _)) as Hn.
  rewrite app_assoc in Hn. eapply nodup_app_disj; [exact Hn|exact Hin|].
  apply in_or_app. right. exact Hd.
Qed.

Lemma AP_dout_single o x rest p q r c f n : AP o (x :: rest) p q r c f n -> rest = [].
Proof. intros (_ & [?|(y & Hd & _)] & _); [discriminate|]. inversion Hd; reflexivity. Qed.

(* ---- the model functions ---- *)
Lemma take_next_Q s ag s' ag' :
  InvA s ag -> EI s ag -> QI s ag -> take_next s ag = (s', ag') -> QI s' ag'.
Proof.
  unfold take_next. intros HA HE HQ H.
  destruct (negb (s_active s) || s_pending s || negb (is_nil (s_rdisc s))) eqn:G.
  - inversion H; subst; auto.
  - apply orb_false_iff in G. destruct G as [G Gr]. apply negb_false_iff, is_nil_true in Gr.
    destruct (negb (is_nil (s_pdisc s))) eqn:Gd.
    + assert (Hd : m_dout s = []) by (eapply AP_rnil_d; eauto).
      pose proof (EP_fresh _ _ _ _ _ _ _ HE) as Hfresh.
      apply start_disc_eff in H. destruct H as (K1 & K2 & K3 & K4 & K5 & K6 & K7).
      unfold QI in *. rewrite K1, K3, K5, K6, K7, Gr, Hd. rewrite Gr, Hd in HQ.
      apply QP_start; [exact HQ| |].
      * rewrite somes_reqs. unfold run_dids, pdids. cbn [snd]. rewrite map_map. reflexivity.
      * unfold run_dids. cbn [snd]. rewrite map_map. exact Hfresh.
    + apply maybe_send_ef in H. destruct H. eapply QI_frame; eauto.
Qed.

Lemma step_Q_live s f ag s' ag' :
  h_destroying s = false -> InvA s (f :: ag) -> EI s (f :: ag) -> QI s (f :: ag) ->
  step s f ag = (s', ag') -> QI s' ag'.
Proof.
  intros Hnd HA HE HQ H. pose proof HA as HA0. unfold InvA in HA. cbn [ndone] in HA.
  destruct f as [[sn cb|full nl cb| | |r|]| | | |]; cbn [step do_op] in H; rewrite ?Hnd in H; cbn [negb andb] in H;
    rewrite ?andb_true_r in H; unfold QI in HQ; cbn [logs2] in HQ; unfold EI in HE; cbn [logs2] in HE.
  - destruct (s_max s <=? len (s_queue s)).
    + inversion H; subst. unfold QI. cbn. rewrite logs2_app, logs2_fop. exact HQ.
    + eapply take_next_Q; [| | |exact H]; [unfold InvA; cbn; apply AP_qapp; exact HA|unfold EI; cbn; exact HE|unfold QI; cbn; exact HQ].
  - destruct (s_discov s).
    + eapply take_next_Q; [| | |exact H]; [unfold InvA; cbn; exact HA| |unfold QI; cbn; exact HQ].
      unfold EI; cbn. apply EP_request. exact HE.
    + inversion H; subst. exact HQ.
  - inversion H; subst. unfold QI. cbn. exact HQ.
  - eapply take_next_Q; [| | |exact H]; [unfold InvA; cbn; exact HA|unfold EI; cbn; exact HE|unfold QI; cbn; exact HQ].
  - destruct (m_out s) as [|i rest].
    + inversion H; subst. exact HQ.
    + apply handle_ef in H. destruct H as [H1 H2]. eapply QI_frame; [exact H1|exact H2|].
      unfold QI. cbn. exact HQ.
  - destruct (m_dout s) as [|x rest] eqn:Ed.
    + inversion H; subst. unfold QI. rewrite Ed. exact HQ.
    + pose proof (AP_dout_single _ _ _ _ _ _ _ _ _ HA) as ->.
      pose proof (EP_nodup_runs _ _ _ _ _ _ _ HE) as Hn.
      unfold disc_complete in H. inversion H; subst. unfold QI. cbn.
      rewrite logs2_app, logs2_frames. cbn [logs2]. apply QP_complete; assumption.
  - eapply take_next_Q; [| | |exact H]; [exact HA|exact HE|exact HQ].
  - inversion H; subst. unfold QI. cbn. apply QP_log. exact HQ.
  - assert (Hd : m_dout s = []).
    { destruct HA as (_ & _ & Hn & Hn1 & _). assert (Hz : ndone ag = O) by lia.
      rewrite Hz in Hn1. destruct (Hn1 eq_refl); auto. }
    eapply take_next_Q; [| | |exact H].
    + unfold InvA; cbn. eapply AP_discdone. exact HA.
    + unfold EI; cbn. rewrite Hd in *. eapply EP_done. exact HE.
    + unfold QI; cbn. rewrite Hd in *. eapply QP_done. exact HQ.
  - inversion H; subst. exact HQ.
Qed.

Lemma step_Q_dying s f ag s' ag' :
  h_destroying s = true -> s_pending s = true -> dframe f ->
  QI s (f :: ag) -> step s f ag = (s', ag') -> QI s' ag'.
Proof.
  intros Hd Hp Hdf HQ H.
  destruct f as [[sn cb|full nl cb| | |r|]| | | |]; cbn in Hdf; try contradiction; cbn [step do_op] in H;
    rewrite ?Hd in H; cbn [negb andb] in H; rewrite ?andb_false_r in H; unfold QI in HQ; cbn [logs2] in HQ.
  - destruct (s_max s <=? len (s_queue s)).
    + inversion H; subst. unfold QI. cbn. rewrite logs2_app, logs2_fop. exact HQ.
    + rewrite take_next_blocked in H by (cbn; exact Hp). inversion H; subst. unfold QI. cbn. exact HQ.
  - inversion H; subst. exact HQ.
  - inversion H; subst. unfold QI. cbn. exact HQ.
  - rewrite take_next_blocked in H by (cbn; exact Hp). inversion H; subst. unfold QI. cbn. exact HQ.
  - inversion H; subst. exact HQ.
  - inversion H; subst. exact HQ.
  - unfold destroy_next in H. destruct (s_queue s) as [|[id cb] q]; inversion H; subst; [exact HQ|].
    unfold QI. cbn. rewrite logs2_app, logs2_fop. cbn [logs2 app]. exact HQ.
Qed.

Lemma step_Q s f ag s' ag' :
  InvA2 s (f :: ag) -> EI s (f :: ag) -> QI s (f :: ag) -> step s f ag = (s', ag') -> QI s' ag'.
Proof.
  intros [[Hnd HA]|(Hd & (Hp & _) & Hdag & _)] HE HQ H.
  - eapply step_Q_live; eauto.
  - inversion Hdag; subst. eapply step_Q_dying; eauto.
Qed.

Lemma QI_init max discov ms ds : QI (init max discov ms ds) [].
Proof. unfold QI, QP, init; cbn. split; [intros H; congruence|intros e []]. Qed.
Lemma QI_trace l s o : QI s [] -> QI (set_g_trace l s) [FOp o].
Proof. unfold QI; cbn; auto. Qed.
Lemma QI_destroy s : QI s [] -> QI (start_destroy s) [FDestroy].
Proof. unfold QI, start_destroy; cbn; auto. Qed.

(* ---- the verdict ---- *)
Lemma ddups_zero l : NoDup (map fst l) -> ddups l = O.
Proof.
  induction l as [|e l IH]; cbn [ddups map]; intros Hn; [reflexivity|].
  inversion Hn; subst. rewrite (IH H2).
  destruct (existsb (fun x : N * N => fst x =? fst e) l) eqn:E; [|reflexivity].
  exfalso. apply existsb_exists in E. destruct E as (x & Hx & Heq). apply N.eqb_eq in Heq.
  apply H1. rewrite <- Heq. apply in_map. exact Hx.
Qed.

Lemma dv_zero (s : st) :
  EI s [] -> QI s [] -> dv_of s = O.
Proof.
  intros HE HQ. pose proof (EP_nodup_runs _ _ _ _ _ _ _ HE) as Hnr.
  destruct HE as (_ & E2 & E3 & E4 & _). destruct HQ as [_ Q8]. cbn [logs2] in *.
  assert (Hnd : NoDup (map fst (g_ddone s))).
  { apply Permutation_sym in E3. pose proof (Permutation_NoDup E3 (nseq_nodup _)) as Hn.
    eapply nodup_app_l'; eauto. }
  unfold dv_of. rewrite (ddups_zero _ Hnd). cbn [Nat.add]. rewrite filter_none'; [reflexivity|].
  intros e He. rewrite Forall_forall in E2, E4. destruct (E2 e He) as [Hfull Hne].
  destruct (Q8 e He) as [Hnone|Hall].
  - rewrite filter_none'; [reflexivity|]. intros q Hq.
    destruct (existsb _ (g_ddone s)) eqn:Ex; [|reflexivity]. exfalso.
    apply existsb_exists in Ex. destruct Ex as (x & Hx & Hc). apply andb_prop in Hc. destruct Hc as [Hc _].
    apply N.eqb_eq in Hc. apply (Hnone (snd q)).
    + unfold run_dids. apply in_map. exact Hq.
    + unfold Dset. cbn. rewrite app_nil_r. rewrite <- Hc. apply in_map. exact Hx.
  - rewrite filter_all.
    + rewrite Hfull, Bool.eqb_reflx. cbn. rewrite andb_false_r. reflexivity.
    + intros q Hq. apply existsb_exists.
      assert (Hin : In (snd q) (map fst (g_ddone s))).
      { specialize (Hall (snd q)). unfold Dset in Hall. cbn in Hall. rewrite app_nil_r in Hall.
        apply Hall. unfold run_dids. apply in_map. exact Hq. }
      apply in_map_iff in Hin. destruct Hin as (x & Hx1 & Hx2). exists x. split; [exact Hx2|].
      destruct (E4 x Hx2) as (f' & reqs' & Hr & Hd').
      assert (Heq : (snd x, f', reqs') = e).
      { eapply (flat_map_unique run_dids); [exact Hnr|exact Hr|exact He| |].
        - unfold run_dids; cbn. exact Hd'.
        - unfold run_dids. rewrite Hx1. apply in_map. exact Hq. }
      rewrite <- Heq. cbn. rewrite Hx1, !N.eqb_refl. reflexivity.
Qed.
