ID = 'C12'
GROUPS = ['common']
CXX_SOURCES = []
SPEC_KEYS = ['conc', 'ps', 'dup', 'ooo', 'bad', 'lost', 'rj', 'dv', 'comp', 'oof', 'fatal']
INTERNAL_KEYS = []
PROC_TIMEOUT = 900

# Payload:  "<max> <discov01> <mscript> <dscript> <ops>"
#   reply   := st.ty.src.cc.mc.fill.len.fr   (status, response type (9 = NULL response), source uid,
#              command class, message count, data = fill x len (the mock prepends the id of the request
#              it answers unless len = 0: then the response has no parameter data), number of frames;
#              the response's PID is 100 + fill mod 7, its destination UID 0002:(2 + fill mod 3), its
#              transaction number fill mod 5, its sub-device fill mod 4)
#   mscript := '-' | item(,item)*   item := 'L' (answer later) | 'Y'reply (answer inside SendRDMRequest)
#              -- what the underlying controller does with its k-th SendRDMRequest call
#   dscript := '-' | [01]*          1 = discovery run k completes inside RunFull/IncrementalDiscovery
#   ops     := '-' | op*            op := P (Pause) | R (Resume) | S(ops) submit a request whose completion
#              callback performs ops | F(ops) full discovery | I(ops) incremental discovery |
#              s submit a request with a NULL completion callback |
#              f | i full / incremental discovery with a NULL callback |
#              D reply ; the underlying controller answers its oldest outstanding request |
#              E the underlying controller finishes its oldest outstanding discovery
#   The controller is destroyed after the last op; the completion callbacks the destructor runs are live
#   (S/P/R are executed; F/I/D/E are not: the derived part of the object is gone, the underlying controller does
#   not answer a dying controller).
# Result keys: comp = every completion in order as id:kind:status:type.src.cc.mc.pid.dst.tn.sub:data (property level: exactly
#   once, order, own reply, concatenation), t = per-top-level-op trace of calls reaching the underlying controller (S<id>, X<full>) and of
#   user callbacks (C<id>:<kind>:<status>:<response>:f<frames>, K<did>@<run>), i = internal flags after
#   every op, and the property verdicts computed independently by the harness from what the mock and the
#   callbacks saw: conc (max calls outstanding at once on the underlying port), ps (calls made while
#   paused), dup (repeated completions), ooo (queued requests completed out of submission order), bad
#   (responses whose data is not the concatenation of what the mock answered for that very request), lost
#   (requests never completed), rj (queue-full expectation mismatches), dv (discovery runs whose full flag
#   is not the OR of the requests they served + discovery callbacks run twice).


def gen_consts(v):
    import os
    ents = [(n, 'ola::rdm::' + n) for n in
            'RDM_COMPLETED_OK RDM_FAILED_TO_SEND RDM_INVALID_RESPONSE RDM_ACK ACK_OVERFLOW'.split()]
    ents += [('MAX_OVERFLOW_SIZE', 'ola::rdm::RDMResponse::MAX_OVERFLOW_SIZE'),
             ('GET_COMMAND_RESPONSE', 'ola::rdm::RDMCommand::GET_COMMAND_RESPONSE'),
             ('SET_COMMAND_RESPONSE', 'ola::rdm::RDMCommand::SET_COMMAND_RESPONSE')]
    return v.gen_consts_cpp(ID, ['ola/rdm/RDMCommand.h', 'ola/rdm/RDMEnums.h', 'ola/rdm/RDMResponseCodes.h'],
                            ents, os.path.join(v.VERIF, 'props', ID, 'coq', 'Gen.v'))


RULE = ('exhaustive top-level histories up to length 4 (quick) / 5 (thorough) over {pause, resume, submit, '
        'submit-with-re-entrant-submit, deliver ACK / ACK_OVERFLOW / timeout, full / incremental discovery (with a callback or NULL), '
        'discovery done} under rotating queue limits and mock scripts, plus random histories of up to 25 '
        'top-level ops with nested callback scripts (depth <= 3), queue limits 1-4, replies of every status / '
        'response type / NULL response, overflow part sizes around the 4096-byte limit, synchronous and '
        'deferred answers; non-trivial = at least one call reached the underlying controller and at least one '
        'request completed with an answer; distinct = distinct model output line')
ASSUMPTIONS = ['callbacks run by the destructor may submit, pause and resume, but do not start discovery on the dying object; the underlying controller does not answer during destruction',
               'the underlying controller runs each completion callback at most once per call',
               'operator new does not fail']
TRUSTED = ['modelled rather than verified: QueueingRDMController.cpp (all methods of both classes, with '
           'props/C12/fixes applied), RDMResponse::CombineResponses; constants regenerated into Gen.v; '
           'the property verdict keys conc/ps/dup/ooo/bad/lost/rj are computed by the C++ harness from the '
           "mock's and the callbacks' own observations"]
LEVEL_TEXT = ('Coq theorems over an executable small-step model (explicit call-stack agenda, scripted re-entrant '
              'callbacks, synchronous/deferred answers of the underlying controller, live destructor callbacks, NULL '
              'discovery callbacks) of both queueing controllers, proved by invariants for every configuration any '
              'history can reach: termination (no OutOfFuel, OLA_FATAL branch unreachable); every request completes '
              'exactly once, queued ones in submission order, rejected exactly when the queue is full, non-answers '
              'carry FAILED_TO_SEND, answers are built only from answers to dispatches of that request; at most one '
              'request or discovery outstanding at every instant; nothing sent while paused (counter and step-level '
              'form); ACK_OVERFLOW chains delivered as the in-order concatenation (CombineResponses characterised '
              'exactly, limit 4096 inclusive, type/PID/message count of the result), nothing of a session leaks into '
              'another request; discovery requests each taken by exactly one run that takes all waiting ones and is '
              'full iff one asked for full; progress: an active idle controller has nothing waiting once the call stack '
              'is empty; and the verdict values the model prints, the discovery verdict included, are proved constant; destruction after any prefix, step by step.  Tied to the C++ by a differential '
              'correspondence check after every operation (ASan/UBSan build of the working tree).')
LEVEL_NOTE = ('Trusted: Coq kernel, extraction (ExtrOcamlBasic), OCaml/C++ glue, generator coverage of the '
              'correspondence; model = code is validated by differential testing, not proved.  Destruction is '
              'modelled as the last operation of a history, with live callbacks (submit/pause/resume).  Liveness is proved only in the form of c12_progress '
              '(nothing waits at quiescence); eventual answers of the underlying controller are inputs.  The verdict keys '
              'conc/ps/dup/ooo/bad/lost/rj/dv are computed independently by the C++ harness; the model-side values are proved constants.')
TECHNIQUE = 'Coq invariant proofs on a hand-written executable state-machine model + extracted-model/implementation differential correspondence'
DESIGN_REF = 'DESIGN.md §4 C12'


def rp(st=0, ty=0, src=1, cc=33, mc=0, fill=5, ln=1, fr=1):
    return '%d.%d.%d.%d.%d.%d.%d.%d' % (st, ty, src, cc, mc, fill, ln, fr)


def rand_reply(rng, chain_bias=False):
    st = rng.choice([0, 0, 0, 0, 0, 0, 1, 2, 3, 4, 17])
    ty = rng.choice([0, 0, 0, 3, 3, 3, 1, 2, 9]) if not chain_bias else rng.choice([0, 3, 3, 3, 2, 9])
    src = rng.choice([1, 1, 1, 1, 1, 2])
    cc = rng.choice([33, 33, 33, 33, 49, 49, 17])
    ln = rng.choice([0, 0, 1, 1, 2, 3, 7, 230, 1364, 1365, 2046, 2047, 2048, 4094, 4095, 4096])
    return rp(st, ty, src, cc, rng.choice([0, 0, 1, 255]), rng.randrange(256), ln, rng.choice([0, 1, 1, 2]))


def rand_ops(rng, n, depth, discov, budget):
    out = []
    for _ in range(n):
        if budget[0] <= 0:
            break
        budget[0] -= 1
        k = rng.random()
        if k < 0.30:
            inner = rand_ops(rng, rng.choice([0, 0, 0, 1, 1, 2, 3]), depth + 1, discov, budget) if depth < 3 else ''
            out.append('S(%s)' % inner)
        elif k < 0.55:
            out.append('D%s;' % rand_reply(rng, rng.random() < 0.4))
        elif k < 0.65:
            out.append('P')
        elif k < 0.75:
            out.append('R')
        elif k < 0.87 and discov:
            inner = rand_ops(rng, rng.choice([0, 0, 1, 1, 2]), depth + 1, discov, budget) if depth < 3 else ''
            out.append('%s(%s)' % (rng.choice('FI'), inner))
        elif k < 0.92 and discov:
            out.append('E')
        elif k < 0.96 and discov:
            out.append(rng.choice('fi'))
        else:
            out.append(rng.choice(['S()', 's', 's', 'D%s;' % rp(0, 3), 'D%s;' % rp(0, 0)]))
    return ''.join(out)


def rand_mscript(rng, n):
    if n == 0:
        return '-'
    psync = rng.choice([0.0, 0.2, 0.5, 0.8, 1.0])
    return ','.join(('Y' + rand_reply(rng, rng.random() < 0.5)) if rng.random() < psync else 'L'
                    for _ in range(n))


def rand_dscript(rng, n):
    if n == 0:
        return '-'
    p = rng.choice([0.0, 0.3, 0.7, 1.0])
    return ''.join('1' if rng.random() < p else '0' for _ in range(n))


ALPHABET = ['P', 'R', 'S()', 'S(S())', 'i', 'D%s;' % rp(0, 0, mc=2, fill=9, ln=0), 'D%s;' % rp(0, 0, fill=6), 'D%s;' % rp(0, 3, fill=7),
            'D%s;' % rp(3, 9), 'F()', 'I(S())', 'E']
SCRIPTS = [('-', '-'), ('Y%s' % rp(0, 0), '1'), ('L,Y%s,Y%s' % (rp(0, 3, fill=8), rp(0, 0, fill=9)), '01'),
           ('Y%s,L,Y%s' % (rp(0, 3, fill=8), rp(3, 9)), '10')]


def exhaustive(rng, maxlen, all_cfg):
    import itertools
    k = 0
    for L in range(0, maxlen + 1):
        for seq in itertools.product(ALPHABET, repeat=L):
            ops = ''.join(seq) or '-'
            discov = 1 if any(c in ops for c in 'FIEfi') else rng.choice([0, 1])
            cfgs = [(mx, sc) for mx in (1, 2) for sc in range(len(SCRIPTS))] if all_cfg else \
                   [((k % 3) + 1, (k // 3) % len(SCRIPTS))]
            for mx, sc in cfgs:
                yield '%d %d %s %s %s' % (mx, discov, SCRIPTS[sc][0], SCRIPTS[sc][1], ops)
            k += 1


def scenarios(rng, n):
    """aimed at the three defect families and at the CombineResponses limits"""
    for _ in range(n):
        mx = rng.choice([1, 2, 3, 4])
        discov = rng.choice([0, 1])
        kind = rng.randrange(7)
        ovf = lambda ln=None: rp(0, 3, fill=rng.randrange(256), ln=rng.choice([0, 1, 3]) if ln is None else ln)
        ack = lambda ln=None: rp(0, rng.choice([0, 0, 1, 2]), fill=rng.randrange(256),
                                 ln=rng.choice([0, 1, 3]) if ln is None else ln)
        if kind == 0:      # pause / resume around a request in flight
            pre = ''.join(rng.choice(['S()', 'S()', 'S(S())', 'F()' if discov else 'S()']) for _ in range(rng.randrange(1, 4)))
            mid = ''.join(rng.choice(['P', 'R', 'PR', 'S()', 'E' if discov else 'P']) for _ in range(rng.randrange(1, 4)))
            post = ''.join('D%s;' % rand_reply(rng) for _ in range(rng.randrange(1, 5)))
            yield '%d %d %s %s %s' % (mx, discov, rand_mscript(rng, rng.randrange(3)), rand_dscript(rng, 2), pre + mid + post + 'R' + post)
        elif kind == 1:    # overflow chain interleaved with submissions / pause / discovery
            ops = 'S(%s)' % rng.choice(['', 'S()', 'P', 'R'])
            for _ in range(rng.randrange(1, 4)):
                ops += 'D%s;' % ovf()
                ops += rng.choice(['', 'S()', 'P', 'PR', 'R', 'F()' if discov else '', 'PS()R'])
            ops += 'D%s;' % rng.choice([ack(), ack(), rp(3, 9), rp(0, 9), rp(0, 0, src=2), rp(0, 0, cc=49)])
            ops += rng.choice(['', 'R', 'D%s;' % ack(), 'RD%s;' % ack()]) + rng.choice(['', 'E', 'ED%s;' % ack()])
            yield '%d %d %s %s %s' % (mx, discov, rand_mscript(rng, rng.randrange(4)), rand_dscript(rng, 2), ops)
        elif kind == 2:    # a chain started synchronously inside the completion callback of a chain
            n_l = rng.randrange(0, 3)
            ms = ','.join(['L'] * (1 + n_l) + ['Y' + ovf()] + [rng.choice(['L', 'Y' + ovf(), 'Y' + ack()])])
            ops = 'S(%s)' % rng.choice(['S()', 'S()S()', 'S(S())', 'RS()'])
            ops += ''.join('D%s;' % ovf() for _ in range(n_l))
            ops += 'D%s;' % rng.choice([ack(), rp(3, 9), rp(0, 0, src=2)])
            ops += ''.join('D%s;' % rng.choice([ack(), ovf()]) for _ in range(rng.randrange(1, 4)))
            yield '%d %d %s - %s' % (max(mx, 2), discov, ms, ops)
        elif kind == 3:    # CombineResponses size limit (the mock adds one tag byte per part)
            lens = rng.choice([(2047, 2047), (2047, 2048), (2048, 2047), (4094, 0), (4095, 0), (0, 4095), (0, 4094),
                               (1364, 1364, 1365), (1364, 1365, 1365), (4096, 0), (2046, 2047)])
            ops = 'S()' + ''.join('D%s;' % ovf(l) for l in lens[:-1]) + 'D%s;' % rp(0, 0, fill=1, ln=lens[-1])
            ops += 'S()D%s;' % ack()
            yield '%d %d - - %s' % (mx, discov, ops)
        elif kind == 4:    # discovery coalescing
            ops = rng.choice(['F()', 'I()', 'S()'])
            ops = rng.choice(['F()', 'I()', 'S()', 'f', 'i', 'i'])
            ops += ''.join(rng.choice(['F()', 'I()', 'I(F())', 'F(S())', 'S()', 'P', 'R', 'E', 'f', 'i', 'i', 'S(i)', 'I(f)', 'D%s;' % ack()])
                           for _ in range(rng.randrange(2, 9)))
            ops += 'RE' + rng.choice(['', 'E', 'ED%s;' % ack()])
            yield '%d 1 %s %s %s' % (mx, rand_mscript(rng, rng.randrange(3)), rand_dscript(rng, rng.randrange(4)), ops)
        elif kind == 5:    # destruction with live callbacks: queued / in-flight requests whose callbacks re-enter
            inner = lambda d=0: rng.choice(['', 'S()', 's', 'R', 'P', 'S()S()', 'RS()', 'S(R)', 'PS()R', 'F()', 'E', 'D%s;' % ack()] +
                                           (['S(%s)' % inner(d + 1)] * 3 if d < 2 else []))
            ops = rng.choice(['', 'P', 'F()' if discov else 'P', 'S()D%s;' % ovf()])
            ops += ''.join(rng.choice(['S(%s)' % inner(), 'S(%s)' % inner(), 's']) for _ in range(rng.randrange(1, mx + 2)))
            ops += rng.choice(['', '', 'P', 'D%s;' % ovf(), 'R'])
            yield '%d %d %s %s %s' % (mx, discov, rand_mscript(rng, rng.choice([0, 0, 2, 4])), rand_dscript(rng, 2), ops)
        else:              # queue limit
            ops = rng.choice(['', 'P']) + ''.join(rng.choice(['S()', 'S()', 's']) for _ in range(mx + rng.choice([-1, 0, 1, 2])))
            ops += rng.choice(['', 'R', 'D%s;' % ack(), 'D%s;S()S()' % ack()])
            yield '%d %d %s - %s' % (mx, discov, rand_mscript(rng, rng.randrange(3)), ops)


def gen_cases(rng, tier):
    quick = tier == 'quick'
    for c in exhaustive(rng, 4 if quick else 5, False):
        yield c
    if not quick:
        for c in exhaustive(rng, 3, True):
            yield c
    for c in scenarios(rng, 3000 if quick else 60000):
        yield c
    for _ in range(3000 if quick else 150000):
        mx = rng.choice([1, 2, 3, 4])
        discov = rng.choice([0, 1, 1])
        n = rng.choice([1, 2, 3, 5, 8, 12, 18, 25])
        budget = [120]
        ops = rand_ops(rng, n, 0, discov, budget) or '-'
        yield '%d %d %s %s %s' % (mx, discov, rand_mscript(rng, rng.choice([0, 1, 3, 8, 20])),
                                  rand_dscript(rng, rng.choice([0, 1, 4])), ops)


def nontrivial(payload, md):
    evs = [e for sec in md.get('t', '').split('/') for e in sec.split(',')]
    sent = any(e.startswith('S') or e.startswith('X') for e in evs)
    answered = any(e.startswith('C') and e.split(':')[1] == '0' for e in evs)
    return sent and answered
