ID = 'C16'  # part (b) generator, loaded by prop.py
CXX_SOURCES = []
GROUPS = ['common']
WRAP = ['epoll_wait']
CXXFLAGS = []
SPEC_KEYS = ['e0', 'e1', 'e2', 'e3', 's0', 's1', 's2', 's3']

RULE = ('scenarios over <=4 descriptors (pipe read ends / socketpair ends; plain read, connected, connected+delete_on_close; '
        'optional write registration on sockets) and <=12 ops (add/remove read|write, peer write, peer close, poll with '
        'ascending/descending epoll ready order) with scripted callbacks (read k bytes, remove/add self or another '
        'descriptor); directed classes: data+hang-up in one iteration, close without data, partial reads, removal of a '
        'ready descriptor by an earlier callback (both fd orders, both back-ends), remove+re-add in one iteration, '
        'write readiness, delete_on_close, on_close removing itself, every sequence of <=3 own add/remove actions in the '
        'read/write/close callback of a read+write registered socket (region of theorem c16_backends_agree; the model '
        'output class carries +guards when the theorem\'s guards hold); plus random scenarios. non-trivial = at least one '
        'callback ran on each back-end and at least two polls; distinct = distinct model output line')
ASSUMPTIONS = [
    'kernel readiness as in PModel.p_ep_flags/p_readable/p_writable (level triggered; pipe read end: EPOLLIN iff data, '
    'EPOLLHUP iff writer closed; socketpair end: EPOLLIN iff data or peer closed, EPOLLRDHUP|EPOLLHUP iff peer closed, '
    'EPOLLOUT always; select readable iff data or peer closed) - validated by every run on real fds',
    'the order of the epoll ready list is fixed by the harness (sorted by fd, ascending or descending) through an '
    'epoll_wait interposer; any order is a legal kernel answer',
    'callbacks never close their own fd and never call Poll recursively; a descriptor is registered either through '
    'the plain or through the connected overload, never both; write registrations only on sockets']
TRUSTED = ['modelled rather than verified: EPoller.cpp (Add*/Remove*/LookupOrCreateDescriptor/RemoveDescriptor/'
           'CheckDescriptor/Poll clean-up), SelectPoller.cpp (Insert/RemoveFrom map, Add*/Remove*, AddDescriptorsToSet '
           'tombstone erasure, CheckDescriptors), ConnectedDescriptor::IsClosed/TransferOnClose; invalid-descriptor '
           'branches, MAX_EVENTS truncation, ExportMap counters and timers are not modelled (part (a) covers timers)']

KINDS = ['p', 's']   # ('f' = a pipe whose epoll registration is refused, used by the 'refused' class only)


def hx(bs):
    return ''.join('%02x' % b for b in bs) if bs else '-'


def desc(kind='p', conn=True, doc=False, rk=9, rs=(), ws=(), cs=()):
    j = lambda l: ','.join(l) if l else '-'
    return '%s%s%d:%d:%s:%s:%s' % (kind, 'c' if conn else 'r', 1 if doc else 0, rk, j(rs), j(ws), j(cs))


def payload(cls, descs, ops):
    return 'P %s %s / %s' % (cls, ' '.join(descs), ' '.join(ops))


def rbytes(rng, n):
    return [rng.randrange(256) for _ in range(n)]


def polls(rng, n):
    return [rng.choice('pq') for _ in range(n)]


def directed(rng, quick):
    # --- data and hang-up in the same iteration (the EPOLLHUP-before-EPOLLIN defect), close without data, partial reads
    for kind in KINDS:
        for conn in (True, False):
            for doc in ((False, True) if conn else (False,)):
                for nbytes in (0, 1, 3, 5):
                    for rk in (0, 1, 2, 9):
                        if rk == 0 and nbytes and rng.random() < 0.5:
                            continue
                        for early_poll in (False, True):
                            ops = ['ar0']
                            if nbytes:
                                ops.append('w0:' + hx(rbytes(rng, nbytes)))
                            if early_poll:
                                ops.append(rng.choice('pq'))
                            ops.append('k0')
                            ops += polls(rng, 4 if rk in (1, 2) else 3)
                            cls = 'hup+data' if nbytes else 'close-only'
                            if nbytes and rk in (1, 2):
                                cls = 'hup+partial'
                            yield payload(cls, [desc(kind, conn, doc, rk)], ops)
    # --- on_close handler removing itself / re-adding; ops after the close
    for kind in KINDS:
        for doc in (False, True):
            for cs in (['x0r'], ['x0r', 'a0r'], [] if doc else ['a0r']):
                for after in (['xr0'], ['ar0'], ['xr0', 'ar0'], []):
                    if doc and cs == ['x0r', 'a0r']:
                        continue   # would leave a deleted object registered: API misuse, not generated
                    ops = ['ar0', 'w0:' + hx(rbytes(rng, 2)), 'k0'] + polls(rng, 3) + after + polls(rng, 2)
                    yield payload('on-close-script', [desc(kind, True, doc, 9, cs=cs)], ops)
    # --- removal of a ready descriptor by an earlier callback, both fd orders, both ready orders, all role mixes
    for k0 in KINDS:
        for k1 in KINDS:
            for c0 in (True, False):
                for c1 in (True, False):
                    for remover in (0, 1):
                        for how in ('rm', 'rm+add', 'rm-self', 'rm-self+add'):
                            victim = 1 - remover
                            t = remover if 'self' in how else victim
                            rs = ['x%dr' % t] + (['a%dr' % t] if 'add' in how else [])
                            ds = [desc(k0, c0, False, 1), desc(k1, c1, False, 1)]
                            ds[remover] = desc((k0, k1)[remover], (c0, c1)[remover], False, 1, rs=rs)
                            for order in ('p', 'q'):
                                ops = ['ar0', 'ar1', 'w0:' + hx(rbytes(rng, 2)), 'w1:' + hx(rbytes(rng, 2)),
                                       order, rng.choice('pq'), 'k%d' % victim, order, rng.choice('pq')]
                                yield payload('remove-ready:' + how, ds, ops)
    # --- two descriptors ready in the same batch; the first callback removes the other one and, still inside the
    #     callback, registers a NEW idle descriptor (read and/or write side): the stale ready event of the removed
    #     descriptor must not reach the newcomer (EPollData recycled too early / tombstone re-used)
    for k0 in KINDS:
        for k1 in KINDS:
            for kz in KINDS:
                for cz in (True, False):
                    for c01 in (True, False):
                        for newrole in ('r', 'w', 'rw'):
                            if 'w' in newrole and kz != 's':
                                continue
                            for extra in ((), ('readd',)):
                                add = ['a2%s' % r for r in newrole]
                                rs0 = ['x1r'] + add + (['a1r'] if extra else [])
                                rs1 = ['x0r'] + add + (['a0r'] if extra else [])
                                ds = [desc(k0, c01, False, 1, rs=rs0), desc(k1, not c01 if rng.random() < 0.3 else c01, False, 1, rs=rs1),
                                      desc(kz, cz, False, 9)]
                                for order in ('p', 'q'):
                                    ops = ['ar0', 'ar1', 'w0:' + hx(rbytes(rng, 2)), 'w1:' + hx(rbytes(rng, 2)), order,
                                           rng.choice('pq'), 'w2:' + hx(rbytes(rng, 1)), rng.choice('pq'), rng.choice('pq')]
                                    yield payload('remove-ready+add-new:' + newrole + ('+readd' if extra else ''), ds, ops)
    # --- callbacks that only act on their OWN descriptor (the region of theorem c16_backends_agree): every
    #     sequence of up to 3 own add/remove actions in the read, write or close callback, with data and/or
    #     hang-up, read+write registered; includes the G4 counterexamples (remove read, remove write, add write)
    acts = ['x0r', 'a0r', 'x0w', 'a0w']
    seqs = [[]] + [[a] for a in acts] + [[a, b] for a in acts for b in acts if a != b]
    seqs3 = [[a, b, c3] for a in acts for b in acts for c3 in acts if len({a, b, c3}) == 3]
    for conn in (True, False):
        for which in ('rs', 'ws', 'cs'):
            if which == 'cs' and not conn:
                continue
            pool = seqs + (seqs3 if quick is False or which != 'ws' else rng.sample(seqs3, 6))
            for sc in pool:
                kw = {which: sc}
                ds = [desc('s', conn, False, rng.choice([1, 9]), **kw), desc(rng.choice(KINDS), rng.random() < 0.5, False, 9)]
                ops = ['ar0', 'aw0', 'ar1', 'w0:' + hx(rbytes(rng, 2)), 'w1:' + hx(rbytes(rng, 1)), rng.choice('pq'),
                       rng.choice('pq')]
                if which == 'cs' or rng.random() < 0.5:
                    ops += ['k0', rng.choice('pq'), rng.choice('pq')]
                ops += ['w1:' + hx(rbytes(rng, 1)), rng.choice('pq')]
                yield payload('self-script:' + which, ds, ops)
    # --- scale: a backlog that needs many read callbacks (small read size) before the hang-up may be reported
    for kind in KINDS:
        for doc in (False,):
            for n in ((8, 16, 17, 33) if quick else (8, 15, 16, 17, 18, 31, 32, 33, 40, 64)):
                for rk in (1, 2):
                    nbytes = min(n * rk, 60)
                    npolls = (nbytes + rk - 1) // rk + 3
                    early = rng.choice([0, 1, 3])
                    ops = ['ar0', 'w0:' + hx(rbytes(rng, nbytes))] + polls(rng, early) + ['k0'] + polls(rng, npolls)
                    yield payload('backlog%d' % n, [desc(kind, True, doc, rk)], ops)
                    ops = ['ar0', 'ar1', 'w0:' + hx(rbytes(rng, nbytes)), 'w1:' + hx(rbytes(rng, nbytes)), 'k0', 'k1'] + polls(rng, npolls)
                    yield payload('backlog%d' % n, [desc(kind, True, doc, rk), desc(kind, False, False, rk)], ops)
    # --- scale of the READY set: 9..14 descriptors ready together (sockets that stay writable, readers that do not
    #     drain): EPoller serves one batch of MAX_EVENTS per Poll, SelectPoller all of them
    for n in ((9, 10, 11, 12) if quick else (9, 10, 11, 12, 13, 14)):
        for mode in ('writers', 'readers', 'mixed'):
            ds, ops = [], []
            for d in range(n):
                wr = mode == 'writers' or (mode == 'mixed' and d % 2 == 0)
                if wr:
                    ds.append(desc('s', rng.random() < 0.5, False, 9)); ops.append('aw%d' % d)
                else:
                    ds.append(desc(rng.choice(KINDS), rng.random() < 0.5, False, rng.choice([0, 0, 1])))
                    ops += ['ar%d' % d, 'w%d:%s' % (d, hx(rbytes(rng, 3)))]
            for order in ('p', 'q'):
                yield payload('ready%d:%s' % (n, mode), ds, ops + [order, order, rng.choice('pq'), 'k%d' % rng.randrange(n), order, order])
    # --- registrations the epoll interface refuses (kind 'f': epoll_ctl fails with EPERM as for a regular file),
    #     followed by further registrations on other fds, removal / re-adding of the refused one
    for conn in (False, True):
        for k1 in KINDS:
            for c1 in (False, True):
                for seq in (['ar0', 'ar1'], ['ar0', 'xr0', 'ar1'], ['ar0', 'ar1', 'ar2'], ['ar1', 'ar0', 'xr1', 'ar2'],
                            ['ar0', 'ar0', 'ar1', 'xr0', 'ar0', 'ar2']):
                    ds = [desc('f', conn, False, 9), desc(k1, c1, False, rng.choice([1, 9])), desc(rng.choice(KINDS), rng.random() < 0.5, False, 9)]
                    ops = list(seq) + ['w0:' + hx(rbytes(rng, 2)), 'w1:' + hx(rbytes(rng, 2)), 'w2:' + hx(rbytes(rng, 1))]
                    ops += polls(rng, 2) + ['k1', 'k0'] + polls(rng, 3) + ['xr0'] + polls(rng, 1)
                    yield payload('refused', ds, ops)
    # --- a poll whose wait fails with EINTR (op I): nothing is served and nothing is reported, whatever is registered
    #     (idle descriptors, descriptors with data, writers, hung-up peers, slots erased just before); everything is
    #     served by the following polls as usual
    for kind in KINDS:
        for conn in (True, False):
            for doc in ((False, True) if conn else (False,)):
                for pre in ([], ['w0:' + hx(rbytes(rng, 2))], ['k0'], ['w0:' + hx(rbytes(rng, 1)), 'k0'], ['p'], ['xr0', 'ar0'],
                            ['ar1', 'xr1']):
                    ds = [desc(kind, conn, doc, rng.choice([1, 9])), desc(rng.choice(KINDS), rng.random() < 0.5, False, 9),
                          desc('s', rng.random() < 0.5, False, 9)]
                    ops = ['ar0'] + (['ar1'] if rng.random() < 0.7 else []) + (['aw2'] if rng.random() < 0.4 else [])
                    ops += pre + ['I'] + (['I'] if rng.random() < 0.3 else [])
                    ops += ['w0:' + hx(rbytes(rng, 2)), 'w1:' + hx(rbytes(rng, 1))] + polls(rng, 2) + ['k0', 'I'] + polls(rng, 2)
                    yield payload('eintr', ds, ops)
    # --- write readiness on sockets; write callback removing itself / the read side / another descriptor
    for conn in (True, False):
        for ws in ([], ['x0w'], ['x0r'], ['x0w', 'a0w'], ['x1r'], ['x0r', 'a0r']):
            for rs in ([], ['x0w'], ['a0w']):
                for close in (False, True):
                    ds = [desc('s', conn, False, 9, rs=rs, ws=ws), desc(rng.choice(KINDS), rng.random() < 0.5, False, 9)]
                    ops = ['ar0', 'ar1', 'aw0', rng.choice('pq'), 'w0:' + hx(rbytes(rng, 2)), 'w1:' + hx(rbytes(rng, 1)),
                           rng.choice('pq')]
                    if close:
                        ops += ['k0', rng.choice('pq')]
                    ops += ['xw0', rng.choice('pq')]
                    yield payload('writable' + ('+hup' if close else ''), ds, ops)
    # --- top level remove / re-add between polls, duplicate adds, removes of unregistered descriptors
    for kind in KINDS:
        for conn in (True, False):
            for seq in (['ar0', 'ar0', 'p', 'xr0', 'xr0', 'p'], ['xr0', 'ar0', 'xr0', 'ar0', 'p'],
                        ['ar0', 'xr0', 'p', 'ar0', 'q', 'xr0', 'ar0', 'xr0', 'p', 'ar0', 'p']):
                ops = []
                for o in seq:
                    ops.append(o)
                    if o.startswith('ar') and rng.random() < 0.6:
                        ops.append('w0:' + hx(rbytes(rng, 1)))
                yield payload('toplevel-addremove', [desc(kind, conn, False, 9)], ops)


def random_case(rng):
    n = rng.choice([1, 2, 2, 3, 3, 4])
    ds = []
    has_w = []
    for d in range(n):
        kind = rng.choice(KINDS)
        conn = rng.random() < 0.6
        doc = conn and rng.random() < 0.3
        w = kind == 's' and not doc and rng.random() < 0.4
        has_w.append(w)

        def script(kindcb):
            acts = []
            for _ in range(rng.choice([0, 0, 1, 1, 2, 3])):
                t = rng.choice([d, d, rng.randrange(n)])
                role = 'w' if (rng.random() < 0.3 and has_w_possible(t)) else 'r'
                acts.append('%s%d%s' % (rng.choice('xxa'), t, role))
            return acts

        def has_w_possible(t):
            return t == d and w or (t < d and has_w[t])
        rs, ws, cs = script('r'), (script('w') if w else []), (script('c') if conn else [])
        if doc:
            cs = [a for a in cs if a != 'a%dr' % d]
        ds.append((kind, conn, doc, rng.choice([0, 1, 2, 9, 9, 9]), rs, ws, cs))
    # no script may (re-)add the read side of a delete_on_close descriptor from its own close path; other
    # scripts re-adding it after deletion are skipped by both sides (object gone)
    descs = [desc(*x) for x in ds]
    ops = []
    for d in range(n):
        if rng.random() < 0.85:
            ops.append('ar%d' % d)
        if has_w[d] and rng.random() < 0.7:
            ops.append('aw%d' % d)
    rng.shuffle(ops)
    for _ in range(rng.randrange(3, 13 - min(len(ops), 6))):
        r = rng.random()
        d = rng.randrange(n)
        if r < 0.35:
            ops.append(rng.choice('pq'))
        elif r < 0.6:
            ops.append('w%d:%s' % (d, hx(rbytes(rng, rng.choice([1, 1, 2, 3, 5])))))
        elif r < 0.72:
            ops.append('k%d' % d)
        elif r < 0.82:
            ops.append('xr%d' % d)
        elif r < 0.9:
            ops.append('ar%d' % d)
        elif has_w[d]:
            ops.append(rng.choice(['aw%d', 'xw%d']) % d)
        else:
            ops.append(rng.choice('pq'))
    if rng.random() < 0.2:       # some polls are interrupted (EINTR)
        for _ in range(rng.choice([1, 1, 2])):
            ops.insert(rng.randrange(len(ops) + 1), 'I')
    ops += polls(rng, 2)
    return payload('random%d' % n, descs, ops)


def gen_cases(rng, tier):
    quick = tier == 'quick'
    for c in directed(rng, quick):
        yield c
    for _ in range(1500 if quick else 40000):
        yield random_case(rng)


def nontrivial(payload, md):
    ev_e = any(md.get('e%d' % d, '-') != '-' for d in range(4))
    ev_s = any(md.get('s%d' % d, '-') != '-' for d in range(4))
    ops = payload.split(' / ')[-1].split()
    return ev_e and ev_s and sum(1 for o in ops if o in ('p', 'q')) >= 2


LEVEL_TEXT = ('Coq theorem (c16_registered_only, unbounded: all callback scripts, all op sequences, both back-ends) over an '
              'executable bookkeeping model of EPoller and SelectPoller driven by an explicit kernel readiness model: every '
              'read/write/close callback runs only for a descriptor that is registered, per the add/remove history, at that '
              'moment - also after removal or removal+re-add by an earlier callback of the same iteration. The clauses '
              '"remote close reported exactly once and after the data" and "both back-ends deliver the same callbacks and '
              'bytes" are NOT proved: they are only exercised by the differential correspondence check over real pipes and '
              'socketpairs on both back-ends (per-descriptor callback logs with bytes and the op index of every callback), '
              'which found and now guards the EPOLLHUP-before-EPOLLIN data loss (fix 02) and marks the remaining '
              'else-if-chain divergence as known finding C16-epoll-hup-chain.')
LEVEL_NOTE = ('Trusted: Coq kernel, extraction, OCaml/C++ glue, the kernel readiness model (validated only by the runs), '
              'the epoll_wait interposer that sorts the ready list, generator coverage; model = code is validated by '
              'differential testing, not proved.')
TECHNIQUE = 'Coq proof on hand-written executable model + extracted-model/implementation differential correspondence'
DESIGN_REF = 'DESIGN.md §4 C16 (b)'



def gen_poller_cases(rng, tier):
    """all scenarios on the default fds, plus a sample of them on the boundary fd numbers: 0,1,2 (the descriptors
    replace stdin/stdout/stderr for the duration of the case) and FD_SETSIZE-3 .. FD_SETSIZE-1"""
    quick = tier == 'quick'
    for c in gen_cases(rng, tier):
        yield c
        t = c.split(' ')
        nd = t.index('/') - 2
        if nd <= 3 and rng.random() < (0.12 if quick else 0.3):
            base = rng.choice([0, 0, 3 - nd, 1024 - nd, 1024 - nd, 1021])
            if base + nd <= 3 or (base >= 200 and base + nd <= 1024):
                t[1] = t[1] + '@%d' % base
                yield ' '.join(t)
