ID = 'C16'
CXX_SOURCES = []
GROUPS = ['common']
LIBS = []
WRAP = ['epoll_wait', 'epoll_ctl', 'select', 'clock_gettime']

import importlib.util as _ilu
import os as _os

_HERE = _os.path.dirname(_os.path.abspath(__file__))


def _poller():
    p = _os.path.join(_HERE, 'gen_poller.py')
    if not _os.path.exists(p):
        return None
    spec = _ilu.spec_from_file_location('c16_gen_poller', p)
    m = _ilu.module_from_spec(spec)
    spec.loader.exec_module(m)
    return m


RULE = ('(a) timers: op histories (register single/repeating with interval from a small set so that equal and '
        'distinct deadlines occur, cancel a pending timer, advance the clock by interval-1/interval/interval+1/0, '
        'run ExecuteTimeouts with a list of callback scripts: cancel self / cancel another pending timer / register '
        '/ let time pass / return true|false), <= 6 timers alive, <= 14 ops; the Event allocator hint is 0 (lowest '
        'free address => immediate address re-use) in 70% of registrations; templates aimed at self-cancel followed '
        'by re-registration at the same address, equal deadlines with cross-cancellation, due-boundary, zero '
        'interval; SelectServer-level registration (real SelectServer on a virtual clock, both back-ends) through the '
        'millisecond and the TimeInterval overloads with delays at the 32-bit boundaries of ms*1000 (4294967/4294968 '
        'ms, 2^31/1000, 90 min, 2 h, UINT_MAX ms, small ones), clock advanced to delay-1/delay/delay+1 and to the '
        'value a wrapping conversion would give; scale: 17/33/40/100 timers with equal and staggered deadlines at both '
        'levels, the value ExecuteTimeouts returns compared as key rv; 8..100 cancelled-but-still-queued timers followed '
        'by a self-cancelling repeating timer that returns true / a cancel from another callback / from outside; idle RunOnce(block) with the poller really '
        'sleeping on the virtual clock (epoll_wait/select interposed: the timeout the poller passes advances the '
        'clock), sub-millisecond distances to the deadline, early=1 if a callback runs before registration+interval; whole iterations in which a loop callback (RunInLoop) '
        'and/or a ready descriptor\'s on_data handler register timers (Model.runonce); 1..20 descriptors that stay ready while '
        'timers are pending (>= MAX_EVENTS: one epoll_wait batch per iteration); the same cases on the real ola::Clock '
        'with clock_gettime interposed (CLOCK_MONOTONIC = controlled time, other monotonic ids lag up to a 4 ms tick); intervals built through every '
        'TimeInterval constructor and operator (from us, (sec,usec), ms, operator+, operator*), clock aimed at the denoted '
        'deadline and at whole seconds before it.  non-trivial = at least one callback ran and at least one state-changing op (register/cancel) '
        'happened; distinct = distinct model output line.  (b) pollers: see gen_poller.py RULE.')
ASSUMPTIONS = ['operator new does not fail',
               'callbacks honour the API contract: CancelTimeout is only called with the id of a timer that is '
               'still allocated (pending or currently running), never with a stale id',
               'std::priority_queue::top() returns an element with the smallest NextTime() (libstdc++ trusted; the '
               'tie order among equal deadlines is taken from a simulation of libstdc++ push_heap/pop_heap and '
               'pinned by the correspondence, no theorem depends on it)',
               'the Clock handed to the manager is monotonic']
TRUSTED = ['modelled rather than verified: SelectServer::Register{Single,Repeating}Timeout(unsigned int ms) conversion, '
           'TimeoutManager::{RegisterRepeatingTimeout, RegisterSingleTimeout, '
           'CancelTimeout, ExecuteTimeouts, Event, SingleEvent::Trigger, RepeatingEvent::Trigger}',
           'harness interposes operator new/delete for objects of sizeof(Event subclass) during Register calls to '
           'choose the address deterministically; virtual time through a Clock subclass']
SPEC_KEYS = ['consts', 'tr', 'rv', 'se', 'ss', 'early'] + ['e%d' % i for i in range(16)] + ['s%d' % i for i in range(16)]


def _repo_text(rel):
    for root in (_os.environ.get('VERIF_REPO', '/repo'), '/repo'):
        try:
            with open(_os.path.join(root, rel)) as f:
                return f.read()
        except OSError:
            continue
    return ''


def gen_consts(v):
    """Regenerate coq/Gen.v from the tree under test on every run.  Header constants are printed by a program
    compiled against the headers; constants that are only defined in a .cpp file (EPoller.cpp) are taken as the
    C++ initialiser expression found in that file and evaluated by the same compiled program; the harness
    prints the values the linked code really uses (payload K) and the check compares them."""
    import re
    ents = [('USEC_IN_SECONDS', 'ola::USEC_IN_SECONDS'), ('ONE_THOUSAND', 'ola::ONE_THOUSAND'),
            ('POLL_INTERVAL_SECOND', 'ola::io::SelectServer::POLL_INTERVAL_SECOND'),
            ('POLL_INTERVAL_USECOND', 'ola::io::SelectServer::POLL_INTERVAL_USECOND'),
            ('C_EPOLLIN', 'EPOLLIN'), ('C_EPOLLOUT', 'EPOLLOUT'), ('C_EPOLLHUP', 'EPOLLHUP'),
            ('C_EPOLLRDHUP', 'EPOLLRDHUP'), ('C_FD_SETSIZE', 'FD_SETSIZE'),
            ('INVALID_DESCRIPTOR_PLUS_1', 'ola::io::INVALID_DESCRIPTOR + 1'),
            ('INVALID_TIMEOUT_VALUE', 'reinterpret_cast<uintptr_t>(ola::thread::INVALID_TIMEOUT)')]
    src = _repo_text('common/io/EPoller.cpp')
    for name in ('MAX_EVENTS', 'READ_FLAGS', 'MAX_FREE_DESCRIPTORS'):
        m = re.search(r'EPoller::%s\s*=\s*([^;]+);' % name, src)
        if not m:
            return 'genconsts: EPoller::%s not found in common/io/EPoller.cpp' % name
        ents.append(('EP_' + name, m.group(1).strip()))
    return v.gen_consts_cpp(ID, ['sys/epoll.h', 'sys/select.h', 'ola/Clock.h', 'ola/io/SelectServer.h',
                                 'ola/io/Descriptor.h', 'ola/thread/SchedulerInterface.h'],
                            ents, _os.path.join(v.VERIF, 'props', ID, 'coq', 'Gen.v'),
                            module_comment='C16 constants')


def _internal_keys():
    # The harness prints internal bookkeeping (heap layout / removed set, poller map sizes) only when the
    # private members it reads still exist (SFINAE probes in harness*.{cpp,h}); mirror that here so that an
    # internal refactoring does not turn into a correspondence failure.  Property-level keys are unaffected.
    ks = []
    t = _repo_text('common/io/TimeoutManager.h')
    if not all(n in t for n in ('m_events', 'm_removed_timeouts', 'class RepeatingEvent', 'class SingleEvent')):
        ks.append('st')
    t = _repo_text('common/io/EPoller.h')
    if not all(n in t for n in ('m_descriptor_map', 'm_orphaned_descriptors', 'm_free_descriptors')):
        ks.append('em')
    t = _repo_text('common/io/SelectPoller.h')
    if not all(n in t for n in ('m_read_descriptors', 'm_connected_read_descriptors', 'm_write_descriptors')):
        ks.append('sm')
    return ks


INTERNAL_KEYS = _internal_keys()
COQ_TIMEOUT = 1500

IVS = [0, 1, 2, 3, 5, 10]


def _hint(rng):
    return 0 if rng.random() < 0.7 else rng.randrange(16)


def _reg(rng, rep=None, iv=None):
    if rep is None:
        rep = rng.random() < 0.5
    if iv is None:
        iv = rng.choice(IVS[1:]) if rng.random() < 0.93 else 0
    return 'r%d,%d,%d' % (1 if rep else 0, iv, _hint(rng))


def _script(rng, ret=None, selfp=0.3):
    if ret is None:
        ret = rng.random() < 0.6
    acts = []
    for _ in range(rng.choice([0, 0, 1, 1, 2, 3])):
        k = rng.random()
        if k < selfp:
            acts.append('s')
        elif k < selfp + 0.25:
            acts.append('c%d' % rng.randrange(8))
        elif k < selfp + 0.5:
            acts.append(_reg(rng))
        else:
            acts.append('a%d' % rng.choice([0, 1, 2, 3, 5, 10]))
    return ':'.join(['1' if ret else '0'] + acts)


def _exec(rng, n=None, **kw):
    if n is None:
        n = rng.choice([0, 1, 2, 3, 4, 6, 8])
    return 'x' + '|'.join(_script(rng, **kw) for _ in range(n))


def _adv(rng, iv=None):
    if iv is None:
        return 'a%d' % rng.choice([0, 1, 2, 3, 4, 5, 9, 10, 11])
    return 'a%d' % max(0, iv + rng.choice([-1, 0, 0, 1]))


def _random_case(rng, maxops):
    ops = []
    live = 0
    for _ in range(rng.randrange(3, maxops + 1)):
        k = rng.random()
        if k < 0.3 and live < 6:
            ops.append(_reg(rng)); live += 1
        elif k < 0.42:
            ops.append('c%d' % rng.randrange(8))
        elif k < 0.7:
            ops.append(_adv(rng))
        else:
            ops.append(_exec(rng))
    return 'T ' + ';'.join(ops)


def _templates(rng):
    iv = rng.choice([1, 2, 5])
    iv2 = rng.choice([1, 2, 5, iv, iv])
    rep = rng.choice([0, 1])
    # self-cancel, then the next registration gets the same address (the stale-id defect)
    yield 'T r%d,%d,0;a%d;x%d:s;r%d,%d,0;a%d;x1;a%d;x0' % (rep, iv, iv, 0 if rep else rng.choice([0, 1]),
                                                        rng.choice([0, 1]), iv2, iv2, iv2)
    # self-cancel and re-register from inside the same callback, at the lowest free address
    yield 'T r%d,%d,0;a%d;x0:s:r%d,%d,0;a%d;x1;a%d;x0' % (rep, iv, iv, rng.choice([0, 1]), iv2, iv2, iv2)
    # repeating timer cancels itself but returns true: must not fire again
    yield 'T r1,%d,0;a%d;x1:s;a%d;x1;a%d;x1;%s;a%d;x1' % (iv, iv, iv, iv, _reg(rng, iv=iv2), iv2)
    # equal deadlines, the first to run cancels some other one
    n = rng.choice([2, 3, 4, 6])
    regs = ';'.join(_reg(rng, iv=iv) for _ in range(n))
    yield 'T %s;a%d;x%s' % (regs, iv, '|'.join('%d:c%d' % (rng.choice([0, 1]), rng.randrange(8)) for _ in range(n)))
    # equal and distinct deadlines, a pending timer cancelled from outside before it is due
    yield 'T %s;c%d;%s;x1|1|1|1;%s;x0|1|0|1' % (regs, rng.randrange(8), _adv(rng, iv), _adv(rng, iv))
    # due boundary: interval-1, interval, interval+1
    yield 'T r%d,%d,0;a%d;x1;a1;x1;a1;x1;a%d;x1' % (rep, iv + 1, iv, iv)
    # repeating until false
    k = rng.choice([1, 2, 3])
    yield 'T r1,%d,0;%s' % (iv, ';'.join('a%d;x%d' % (iv, 1 if i < k else 0) for i in range(k + 2)))
    # callback lets time pass beyond its own and another timer's deadline
    yield 'T r1,%d,0;r%d,%d,0;a%d;x1:a%d|1|1|0;x1|1' % (iv, rep, iv2 + iv, iv, iv2 + iv + rng.choice([0, 1]))
    # zero interval
    yield 'T r%d,0,0;x1|1|0:s;%s;x1' % (rep, _reg(rng))
    # cancel twice / cancel then register elsewhere
    yield 'T %s;c0;c0;%s;a%d;x1|1;a%d;x1|1' % (_reg(rng, iv=iv), _reg(rng, iv=iv), iv, iv)


MS_DELAYS = [0, 1, 2, 999, 1000, 1001, 60000, 4294966, 4294967, 4294968, 4294969, 5400000, 7200000,
             8589934, 8589935, 2147483, 2147484, 2147483647, 2147483648, 4294967295]


def _ss_case(rng):
    """SelectServer-level registration through the millisecond / TimeInterval overloads, delays at the 32-bit
    boundaries of ms*1000, clock advanced in large steps aimed at delay-1, delay, delay+1 and at the value a
    32-bit wrapping conversion would give."""
    ops = []
    t = 0
    timers = []
    for _ in range(rng.choice([1, 1, 2, 3])):
        ms = rng.choice(MS_DELAYS) if rng.random() < 0.85 else rng.randrange(1 << 32)
        rep = rng.random() < 0.3 and ms > 0
        if rng.random() < 0.75:
            ops.append('m%d,%d' % (rep, ms)); us = ms * 1000
        else:
            us = ms * 1000 + rng.choice([0, 1, 999])
            if rep and us == 0:
                us = 1
            ops.append('i%d,%d' % (rep, us))
        timers.append(t + us)
        if rng.random() < 0.3:
            d = rng.choice([0, 1000, 1000000]); ops.append('a%d' % d); t += d; ops.append('x')
    points = set()
    for dl in timers:
        us = dl
        for p in (us - 1000, us - 1, us, us + 1, us + 1000, (us % (1 << 32)), (us % (1 << 32)) + 1000,
                  (us % (1 << 31)) + 1, us // 2, 2 * us, 2 * us + 1):
            if p >= t:
                points.add(p)
    pts = sorted(points)
    if len(pts) > 9:
        pts = sorted(rng.sample(pts, 9))
    ops.append('x')
    for p in pts:
        if p > t:
            ops.append('a%d' % (p - t)); t = p
        ops.append('x')
    return 'S ' + ';'.join(ops)


def _many_timer_cases(rng):
    """scale: 17 / 33 / 40 / 100 timers with equal and with staggered deadlines (TimeoutManager level and
    SelectServer level); the value ExecuteTimeouts returns is compared (key rv)"""
    for n in (17, 33, 40, 100):
        iv = rng.choice([1, 5, 10])
        # equal deadlines, all single-shot
        yield 'T ' + ';'.join(['r0,%d,0' % iv] * n + ['a%d' % iv, 'x', 'x', 'a1', 'x'])
        # equal deadlines, a mix, repeating ones keep going
        regs = ['r%d,%d,0' % (rng.random() < 0.4, iv) for _ in range(n)]
        sc = '|'.join(rng.choice(['1', '1', '0']) for _ in range(n))
        yield 'T ' + ';'.join(regs + ['a%d' % iv, 'x' + sc, 'x1|1', 'a%d' % iv, 'x' + sc, 'x'])
        # staggered deadlines, served in one pass after a big step and in several small ones
        regs = ['r0,%d,0' % (1 + k % 7) for k in range(n)]
        yield 'T ' + ';'.join(regs + ['a3', 'x', 'a10', 'x', 'x'])
        # SelectServer level
        yield 'S i0,%d,%d;x;a%d;x;x;a1;x' % (iv * 1000, n, iv * 1000)
        yield 'S m%d,%d,%d;i0,%d,%d;y%d;y%d;x' % (rng.random() < 0.5, iv, n, iv * 1000 + 500, n // 2, iv * 1000, 1000)


def _many_cancel_cases(rng, quick):
    """scale: tens to hundreds of cancelled-but-still-queued timers, then the interesting cancels: a repeating
    timer cancelling itself in its callback and returning true, a cancel from another callback, from outside"""
    for n in ((8, 31, 32, 33, 64) if quick else (8, 16, 17, 31, 32, 33, 34, 40, 63, 64, 65, 100)):
        for extra in (2, n // 2 + 2, n + 4):
            if n + extra + 3 > 120:
                continue
            far = 1000
            regs = ['r%d,%d,0' % (rng.random() < 0.5, far)] * (n + extra)        # long timers, slots 1..n+extra
            cancels = ['c%d' % k for k in range(n)]                               # n of them cancelled, still queued
            # a short repeating timer cancels itself (the (n+1)-th pending cancellation) and returns true
            yield 'T ' + ';'.join(regs + cancels + ['r1,5,0', 'a5', 'x1:s', 'a5', 'x1', 'a5', 'x1', 'a%d' % far,
                                                     'x' + '|'.join(['1'] * 6), 'a%d' % far, 'x1|1|1'])
            # the threshold-crossing cancel comes from another timer's callback / from outside, then a new timer
            yield 'T ' + ';'.join(regs + cancels + ['r1,5,0', 'r0,5,0', 'a5', 'x1:c%d|0' % (n + extra), 'a5', 'x1|1',
                                                     'c%d' % (n + extra + 1), 'r0,3,0', 'a5', 'x1|1', 'a%d' % far,
                                                     'x' + '|'.join(['0'] * 4)])
            # cancel, let half of the cancelled ones come due, cancel more
            yield 'T ' + ';'.join(['r0,%d,0' % (10 + k % 3) for k in range(n + extra)] + cancels +
                                  ['a10', 'x', 'c0', 'c1', 'r1,2,0', 'a2', 'x1:s', 'a2', 'x1', 'a20', 'x'])


def _composition_case(rng):
    """whole SelectServer iterations: timers registered directly, from a loop callback (L) and from a ready
    descriptor's on_data handler (D; the poller then does not sleep), mixed with sleeping iterations"""
    ops = []
    for _ in range(rng.choice([3, 5, 8, 10])):
        k = rng.random()
        us = rng.choice([0, 0, 1, 500, 999, 1000, 1500, 2000, 5000])
        rep = rng.random() < 0.25 and us > 0
        if k < 0.2:
            ops.append('i%d,%d' % (rep, us))
        elif k < 0.4:
            ops += ['L%d,%d' % (rep, us), rng.choice(['x', 'y2000', 'y500'])]
        elif k < 0.6:
            ops += ['D%d,%d' % (rep, us), rng.choice(['x', 'y2000', 'y20000'])]
        elif k < 0.7:
            du = rng.choice([0, 700, 1000])
            ops += ['L%d,%d' % (rep, us), 'D%d,%d' % (rng.random() < 0.2 and du > 0, du), rng.choice(['x', 'y3000'])]
        elif k < 0.9:
            ops.append('y%d' % rng.choice([0, 500, 1000, 1500, 3000, 20000]))
        else:
            ops.append('a%d' % rng.choice([1, 499, 1000]))
    ops.append('y5000'); ops.append('x')
    return 'S ' + ';'.join(ops)


def _eintr_case(rng):
    """SelectServer iterations whose select() / epoll_wait() is interrupted by a signal (I): the loop callbacks and the
    timers that are due before the wait run, nothing else does - no sleep, no descriptor callback (a ready descriptor
    is served by the next ordinary iteration), no second pass over the timers"""
    ops = []
    for _ in range(rng.choice([3, 5, 8])):
        k = rng.random()
        us = rng.choice([0, 0, 1, 500, 1000, 1500, 2000, 5000])
        rep = rng.random() < 0.25 and us > 0
        if k < 0.2:
            ops.append('i%d,%d' % (rep, us))
        elif k < 0.35:
            ops += ['L%d,%d' % (rep, us), rng.choice(['I', 'x', 'y2000'])]
        elif k < 0.6:
            ops += ['D%d,%d' % (rep, us), 'I', 'a%d' % rng.choice([1, 700, 3000]), rng.choice(['I', 'x', 'y2000'])]
        elif k < 0.75:
            ops.append('I')
        elif k < 0.9:
            ops.append('y%d' % rng.choice([0, 500, 1500, 3000]))
        else:
            ops.append('a%d' % rng.choice([1, 499, 1000, 2500]))
    ops += ['I', 'y5000', 'x']
    return 'S ' + ';'.join(ops)


def _busy_case(rng):
    """timers while >= MAX_EVENTS descriptors stay ready (write ends of empty pipes): the poller never sleeps, every
    iteration must still return and serve the due timers, on both back-ends"""
    n = rng.choice([1, 9, 10, 11, 12, 20])
    ops = []
    for _ in range(rng.choice([1, 2, 3])):
        us = rng.choice([0, 1, 1000, 1500, 5000])
        ops.append('i%d,%d' % (rng.random() < 0.3 and us > 0, us))
    ops.append('W%d' % n)
    for _ in range(rng.choice([3, 5])):
        ops.append(rng.choice(['x', 'y2000', 'a1000', 'a1500', 'x']))
    ops += ['a5000', 'x', 'L0,0', 'x']
    return 'S ' + ';'.join(ops)


def _real_clock_case(rng):
    """the same SelectServer cases on the REAL ola::Clock: clock_gettime is interposed, CLOCK_MONOTONIC returns the
    controlled time, any other monotonic clock id a time lagging up to a 4 ms tick behind; registrations late in a
    tick, checks right after a tick boundary"""
    ops = ['a%d' % rng.choice([0, 1, 3999, 7999, 3500, 11999])]
    for _ in range(rng.choice([1, 2, 3])):
        us = rng.choice([1000, 2000, 4000, 5000, 8000, 10000, 12500, 20000])
        rep = rng.random() < 0.25
        ops.append(rng.choice(['i%d,%d' % (rep, us), 'm%d,%d' % (rep, max(1, us // 1000))]))
        if rng.random() < 0.5:
            ops.append('a%d' % rng.choice([1, 3999, 2000]))
    t = 0
    for _ in range(rng.choice([4, 6, 9])):
        k = rng.random()
        if k < 0.55:
            ops += ['a%d' % rng.choice([1, 500, 2000, 3999, 4000, 4001, 1 + 4000 * rng.randrange(1, 4)]), 'x']
        elif k < 0.8:
            ops.append('y%d' % rng.choice([0, 1000, 4000, 20000]))
        else:
            ops += ['D0,%d' % rng.choice([0, 4000]), 'x']
    ops += ['a30000', 'x']
    return 'R ' + ';'.join(ops)


def _iexp(rng, depth=0):
    """an interval built with the TimeInterval constructors and operators (non-negative arguments; the usec argument
    of the (sec, usec) constructor also >= 10^6)"""
    k = rng.random()
    if depth >= 2 or k < 0.45:
        c = rng.random()
        if c < 0.4:
            return 'u%d' % rng.choice([0, 1, 999999, 1000000, 1000001, 200000, 250000, 1500000, 59999999, 3600000000])
        if c < 0.7:
            return 'p%d.%d' % (rng.choice([0, 1, 2, 59, 3600]),
                               rng.choice([0, 1, 500000, 999999, 1000000, 1000001, 2500000, 5000000, 60000000]))
        return 'M%d' % rng.choice([0, 1, 200, 999, 1000, 1001, 2500, 60000])
    if k < 0.8:
        return '*%d(%s)' % (rng.choice([0, 1, 2, 3, 5, 10, 20, 60, 1000]), _iexp(rng, depth + 1))
    return '+(%s)(%s)' % (_iexp(rng, depth + 1), _iexp(rng, depth + 1))


def _iexp_us(e):
    """denoted microseconds (for aiming the clock steps)"""
    if e[0] == 'u':
        return int(e[1:])
    if e[0] == 'M':
        return 1000 * int(e[1:])
    if e[0] == 'p':
        a, b = e[1:].split('.')
        return int(a) * 1000000 + int(b)
    if e[0] == '*':
        i = e.index('(')
        return int(e[1:i]) * _iexp_us(e[i + 1:-1])
    # +(a)(b): split at the matching parenthesis
    depth = 0
    for i, ch in enumerate(e):
        if ch == '(':
            depth += 1
        elif ch == ')':
            depth -= 1
            if depth == 0:
                return _iexp_us(e[2:i]) + _iexp_us(e[i + 2:-1])
    raise ValueError(e)


def _interval_case(rng):
    """timers whose interval is built through every TimeInterval constructor / operator; the clock is advanced to
    the denoted deadline -1 s / -1 us / exactly / +1 us and to whole seconds before it"""
    ops, pts = [], set()
    for _ in range(rng.choice([1, 1, 2])):
        e = _iexp(rng)
        rep = rng.random() < 0.25 and _iexp_us(e) > 0
        ops.append('e%d,%s' % (rep, e))
        us = _iexp_us(e)
        for p in (us - 1000000, us - 1, us, us + 1, us // 2, (us // 1000000) * 1000000, us - us % 1000000 - 1000000 + 999999,
                  2 * us):
            if p >= 0:
                pts.add(p)
    pts = sorted(pts)
    if len(pts) > 8:
        pts = sorted(rng.sample(pts, 8))
    t = 0
    ops.append('x')
    for p in pts:
        if p > t:
            ops.append('a%d' % (p - t)); t = p
        ops.append('x')
    return rng.choice(['S ', 'S ', 'R ']) + ';'.join(ops)


def _sleep_case(rng):
    """idle RunOnce(block interval) with the poller sleeping on the virtual clock: sub-millisecond distances to
    the next deadline (EPoller sleeps whole milliseconds, SelectPoller the exact time)"""
    ops = []
    for _ in range(rng.choice([1, 1, 2, 3])):
        us = rng.choice([900, 999, 1000, 1001, 1500, 1999, 2000, 2500, 10400, 999999, 1000001, rng.randrange(1, 30000)])
        rep = rng.random() < 0.3
        if us % 1000 == 0 and rng.random() < 0.5:
            ops.append('m%d,%d' % (rep, us // 1000))
        else:
            ops.append('i%d,%d' % (rep, us))
    for _ in range(rng.choice([2, 3, 5, 8])):
        k = rng.random()
        if k < 0.7:
            ops.append('y%d' % rng.choice([0, 500, 1000, 1500, 2000, 5000, 20000, 2000000]))
        elif k < 0.85:
            ops.append('a%d' % rng.choice([1, 100, 499, 500, 999, 1000]))
        else:
            ops.append('x')
    return 'S ' + ';'.join(ops)


def gen_cases(rng, tier):
    quick = tier == 'quick'
    yield 'K'
    for _ in range(1 if quick else 20):
        for c in _many_timer_cases(rng):
            yield c
    for c in _many_cancel_cases(rng, quick):
        yield c
    for _ in range(300 if quick else 20000):
        yield _sleep_case(rng)
    for _ in range(300 if quick else 20000):
        yield _composition_case(rng)
    for _ in range(60 if quick else 2000):
        yield _busy_case(rng)
    for _ in range(150 if quick else 8000):
        yield _eintr_case(rng)
    for _ in range(400 if quick else 20000):
        yield _interval_case(rng)
    for _ in range(300 if quick else 20000):
        yield _real_clock_case(rng)
    for _ in range(400 if quick else 20000):
        yield _ss_case(rng)
    for _ in range(60 if quick else 1500):
        for c in _templates(rng):
            yield c
    for _ in range(2500 if quick else 120000):
        yield _random_case(rng, 14)
    pm = _poller()
    if pm is not None:
        for c in pm.gen_poller_cases(rng, tier):
            yield c


def nontrivial(payload, md):
    if payload.startswith('P'):
        pm = _poller()
        return bool(pm and pm.nontrivial(payload, md))
    if payload.startswith('S') or payload.startswith('R'):
        return 'F' in md.get('se', '')
    tr = md.get('tr', '')
    return 'F' in tr and ('G' in tr or 'C' in tr)


LEVEL_TEXT = ('Coq theorems over an executable model of TimeoutManager (every history of register/cancel/'
              'advance/ExecuteTimeouts operations with re-entrant callback scripts, every Event allocator that '
              'returns a non-NULL address not currently allocated, every tie order of the priority queue): no '
              'early firing, nothing overdue after ExecuteTimeouts, a due never-cancelled timer fires in that very '
              'call, single-shot at most once, repeating until false, a cancelled timer never fires and no other '
              'timer is dropped or lost; the loop terminates.  Pollers (models of EPoller and SelectPoller driven by '
              'a small kernel readiness model, every scripted scenario): callbacks only while registered, a remote '
              'close reported at most once, only after all queued data, and at least once for a hung-up connected '
              'descriptor that stays registered; no deleted descriptor object is ever used (under the delete_on_close '
              'contract).  Back-end agreement (c16_backends_agree: per descriptor the same callbacks, bytes and '
              'timing on epoll and select) is proved in general by refining both poller models to one '
              'single-descriptor abstract machine, under four guards stated as boolean functions: callbacks act only '
              'on their own descriptor, no delete_on_close descriptor, no write registration on a pipe read end, no '
              'read/close callback doing remove-read + remove-write + add-write (proposed finding '
              'C16-epoll-write-skipped-after-reregister), and per descriptor under the weaker guard that no OTHER '
              'descriptor aims an action at it (c16_backends_agree_per_descriptor); the close-reported theorem is also '
              'stated on the registration history (invariant from the initial state, non delete_on_close descriptors); a '
              'whole SelectServer iteration (loop callbacks, timers, sleep or descriptor callbacks, timers) is a history of '
              'the timer model and serves every due timer (c16_selectserver_iteration); constants are regenerated into '
              'Gen.v and pinned (c16_consts); two bounded exhaustive theorems remain as sanity checks.  Both '
              'models are tied to the C++ by a differential correspondence check (real classes, virtual clock, '
              'interposed Event allocator, real pipes/socketpairs on both back-ends).')
LEVEL_NOTE = ('Trusted: Coq kernel, extraction (ExtrOcamlBasic), OCaml/C++ glue, generator coverage of the '
              'correspondence (model = code is validated by differential testing, not proved), libstdc++ '
              'priority_queue returning a minimum, callers passing only live ids to CancelTimeout; for the '
              'pollers the kernel readiness model (validated only by the runs on this kernel), the harness '
              'fixing the epoll ready-list order by fd through epoll_wait/epoll_ctl interposers, and the '
              'premise of c16_close_reported being stated on the poller table (shown reachable by an Example).')
TECHNIQUE = 'Coq proof on hand-written executable model + extracted-model/implementation differential correspondence'
DESIGN_REF = 'DESIGN.md §4 C16'

_pm = _poller()
if _pm is not None:
    RULE = RULE + ' ' + _pm.RULE
    ASSUMPTIONS = ASSUMPTIONS + list(_pm.ASSUMPTIONS)
    TRUSTED = TRUSTED + list(_pm.TRUSTED)

