(* C16 model driver.  Part (a) payload: "T op;op;..."  (see harness.cpp) *)
let t_alloc = pool_alloc
let t_pick = pool_pick
let t_parse_script (s : string) : script =
  match String.split_on_char ':' s with
  | [] -> { acts = []; sret = false }
  | r :: rest ->
    let act (f : string) : action =
      let body = String.sub f 1 (String.length f - 1) in
      match f.[0] with
      | 's' -> ACancelSelf
      | 'c' -> ACancel (n_of_string body)
      | 'a' -> AAdvance (n_of_string body)
      | 'r' -> (match String.split_on_char ',' body with
                | [rep; iv; h] -> AReg (rep = "1", n_of_string iv, n_of_string h)
                | _ -> failwith "bad reg action")
      | _ -> failwith "bad action" in
    { acts = List.map act rest; sret = (r = "1") }
let t_entry_s (e : lentry) : string option =
  match e with
  | LReg ev -> Some ("G" ^ string_of_n ev.eser)
  | LCancel (ser, _) -> Some ("C" ^ string_of_n ser)
  | LFire (ev, now) -> Some ("F" ^ string_of_n ev.eser ^ "@" ^ string_of_n now)
  | LRet (ser, b) -> Some ("R" ^ string_of_n ser ^ "." ^ bool01 b)
  | LDrop _ -> None
let t_del_s (e : lentry) : string option =
  match e with
  | LDrop ev -> Some (string_of_n ev.eser)
  | LRet (ser, false) -> Some (string_of_n ser)
  | _ -> None
let rec t_take_new (l : lentry list) (n : int) : lentry list =   (* newest-first list, n new entries *)
  if n <= 0 then [] else match l with [] -> [] | x :: r -> x :: t_take_new r (n - 1)
let t_state_s (s : state) (newl : lentry list) (nx : n) : string =
  let dels = List.filter_map t_del_s newl in
  let hs = List.map (fun (nxt, ser) ->
      let id = match List.find_opt (fun e -> e.eser = ser) s.q with Some e -> string_of_n e.eid | None -> "?" in
      string_of_n ser ^ "." ^ id ^ "." ^ string_of_n nxt) s.hp in
  let rm = List.sort compare (List.map int_of_n s.removed) in
  "d" ^ String.concat "," dels ^ "|h" ^ String.concat "," hs ^ "|r" ^
  String.concat "," (List.map string_of_int rm) ^ "|n" ^ string_of_n nx ^
  "|p" ^ (if s.q = [] then "0" else "1")
let t_handle (p : string) : string =
  let body = String.sub p 2 (String.length p - 2) in
  let ops = String.split_on_char ';' body in
  let st = ref init in
  let trs = ref [] and sts = ref [] and rvs = ref [] in
  let oof = ref false in
  let nfire = ref 0 and ncancel = ref 0 and ndrop = ref 0 and nself = ref 0 and reuse = ref false in
  let seen_ids = Hashtbl.create 16 in
  List.iter (fun o ->
    if o <> "" && not !oof then begin
      let rest = String.sub o 1 (String.length o - 1) in
      let before = List.length !st.log in
      let nx = ref N0 in
      (match o.[0] with
       | 'r' -> (match String.split_on_char ',' rest with
                 | [rep; iv; h] -> st := do_reg t_alloc !st (rep = "1") (n_of_string iv) (n_of_string h)
                 | _ -> failwith "bad reg")
       | 'c' -> st := do_cancel t_pick !st (n_of_string rest)
       | 'a' -> st := do_advance !st (n_of_string rest)
       | 'x' ->
         let cbs = if rest = "" then [] else List.map t_parse_script (String.split_on_char '|' rest) in
         (match do_exec t_alloc t_pick !st cbs with
          | Some (s', now) -> st := s'; nx := next_in s' now
          | None -> oof := true)
       | _ -> failwith "bad op");
      let newl = List.rev (t_take_new !st.log (List.length !st.log - before)) in
      List.iter (fun e -> match e with
          | LFire _ -> incr nfire
          | LCancel (ser, _) -> incr ncancel;
            (match !st.cur with _ -> ());
            ()
          | LDrop _ -> incr ndrop
          | LReg ev -> if Hashtbl.mem seen_ids ev.eid then reuse := true; Hashtbl.replace seen_ids ev.eid ()
          | _ -> ()) newl;
      (* self-cancel: a C entry for serial n between F n and R n *)
      let rec scan cur l = match l with
        | [] -> ()
        | LFire (ev, _) :: r -> scan (Some ev.eser) r
        | LRet (_, _) :: r -> scan None r
        | LCancel (ser, _) :: r -> (if cur = Some ser then incr nself); scan cur r
        | _ :: r -> scan cur r in
      scan None newl;
      trs := String.concat "," (List.filter_map t_entry_s newl) :: !trs;
      sts := t_state_s !st newl !nx :: !sts;
      rvs := (if o.[0] = 'x' then string_of_n !nx else "-") :: !rvs
    end) ops;
  if !oof then "tr=OutOfFuel;class=T:oof" else
  let cls = Printf.sprintf "T:%s%s%s%s%s"
      (if !nfire = 0 then "nofire" else if !nfire < 4 then "fire" else "manyfire")
      (if !ncancel > 0 then "+cancel" else "") (if !nself > 0 then "+selfcancel" else "")
      (if !ndrop > 0 then "+drop" else "") (if !reuse then "+reuse" else "") in
  "tr=" ^ String.concat "/" (List.rev !trs) ^ ";rv=" ^ String.concat "/" (List.rev !rvs) ^
  ";st=" ^ String.concat "/" (List.rev !sts) ^ ";class=" ^ cls ^ (if !nfire > 16 then "+many" else "")

(* C16 part (b) model driver.  payload: "P <class> <desc>... / <op>..."  (see prop.py) *)
let p_parse_act (t : string) : p_act =
  let d = nat_of_int (ios (String.sub t 1 (String.length t - 2))) in
  match t.[0], t.[String.length t - 1] with
  | 'a', 'r' -> PAAddR d | 'a', 'w' -> PAAddW d
  | 'x', 'r' -> PARemR d | 'x', 'w' -> PARemW d
  | _ -> failwith "bad act"
let p_parse_script (t : string) : p_act list =
  if t = "-" then [] else List.map p_parse_act (String.split_on_char ',' t)
let p_parse_desc (t : string) : p_dcfg =
  match String.split_on_char ':' t with
  | [h; rk; rs; ws; cs] ->
    { pc_kind = (if h.[0] = 's' then PSock else if h.[0] = 'f' then PRef else PPipe); pc_conn = (h.[1] = 'c'); pc_doc = (h.[2] = '1');
      pc_rk = nat_of_int (ios rk); pc_rs = p_parse_script rs; pc_ws = p_parse_script ws;
      pc_cs = p_parse_script cs }
  | _ -> failwith "bad desc"
let rec p_parse_opx (t : string) : p_opx =
  if t.[0] = 'I' then PXIntr else PX (p_parse_op t)
and p_parse_op (t : string) : p_op =
  let num i = nat_of_int (ios (String.sub t i (String.length t - i))) in
  match t.[0] with
  | 'p' -> POPoll false
  | 'q' -> POPoll true
  | 'k' -> POClosePeer (num 1)
  | 'w' -> (match String.split_on_char ':' t with
            | [a; h] -> POWrite (nat_of_int (ios (String.sub a 1 (String.length a - 1))), bytes_of_hex h)
            | _ -> failwith "bad write")
  | 'a' -> if t.[1] = 'r' then POAddR (num 2) else POAddW (num 2)
  | 'x' -> if t.[1] = 'r' then PORemR (num 2) else PORemW (num 2)
  | _ -> failwith "bad op"
let p_ev_s (e : p_ev) : string =
  Printf.sprintf "%d.%s" (int_of_nat e.le_op)
    (match e.le_kind with PKRead -> "R" ^ hex_of_bytes e.le_bytes | PKWrite -> "W" | PKClose -> "C")
let p_log_s (d : int) (l : p_ev list) : string =
  match p_proj (nat_of_int d) l with [] -> "-" | pl -> String.concat "," (List.map p_ev_s pl)
let p_bools (f : nat -> bool) (n : int) : string =
  String.concat "" (List.init n (fun d -> bool01 (f (nat_of_int d))))
let p_handle (p : string) : string =
  match split p with
  | "P" :: cls :: rest ->
    let rec cut acc l = match l with
      | "/" :: tl -> (List.rev acc, tl) | x :: tl -> cut (x :: acc) tl | [] -> (List.rev acc, []) in
    let (ds, ops) = cut [] rest in
    let cfg = List.map p_parse_desc ds in
    let opsx = List.map p_parse_opx (List.filter (fun s -> s <> "") ops) in
    (* the guards of the agreement theorems speak about the ordinary operations *)
    let ops = List.filter_map (function PX o -> Some o | PXIntr -> None) opsx in
    let n = List.length cfg in
    let b = Buffer.create 256 in
    let logs = ref [] in
    List.iter (fun (tag, be) ->
      let s = p_runx be cfg opsx in
      let l = p_log s in
      let per = List.init n (fun d -> p_log_s d l) in
      logs := per :: !logs;
      List.iteri (fun d v -> Buffer.add_string b (Printf.sprintf "%s%d=%s;" tag d v)) per;
      Buffer.add_string b (Printf.sprintf "r%s=%s;" tag
        (match List.rev s.st_rets with [] -> "-" | r -> String.concat "" (List.map bool01 r)));
      Buffer.add_string b (Printf.sprintf "d%s=%s;" tag (p_bools s.st_del n));
      Buffer.add_string b (Printf.sprintf "h%s=%s;" tag (bool01 s.st_haz));
      if be then
        Buffer.add_string b (Printf.sprintf "em=%d.%d.%d;" (int_of_nat (p_ep_mapsize cfg s))
          (List.length s.st_ep.ep_orph) (List.length s.st_ep.ep_free))
      else
        Buffer.add_string b (Printf.sprintf "sm=%d.%d.%d;" (int_of_nat (p_sel_size cfg s.st_sel.s_r))
          (int_of_nat (p_sel_size cfg s.st_sel.s_c)) (int_of_nat (p_sel_size cfg s.st_sel.s_w))))
      [("e", true); ("s", false)];
    let agree = match !logs with [a; b] -> a = b | _ -> false in
    (* guards of theorem c16_backends_agree (extracted boolean functions) *)
    let gok = p_cfg_ok cfg && p_ops_ok cfg ops && n <= 10 in
    (* proposed finding C16-epoll-write-skipped-after-reregister: all guards but G4 hold (only own-descriptor
       actions, no delete_on_close, no write registration on a pipe), some read/close script does RemoveRead,
       RemoveWrite and AddWrite, and the two back-ends' logs differ for that descriptor *)
    let target = function PAAddR x | PAAddW x | PARemR x | PARemW x -> x in
    let scripts dc = dc.pc_rs @ dc.pc_ws @ dc.pc_cs in
    let is_addw = function PAAddW _ -> true | _ -> false in
    let g123 = p_ops_ok cfg ops && List.for_all (fun x -> x) (List.mapi (fun i dc ->
        List.for_all (fun a -> target a = nat_of_int i) (scripts dc) && not dc.pc_doc
        && (dc.pc_kind = PSock || not (List.exists is_addw (scripts dc)))) cfg) in
    let g4_fails i = let dc = List.nth cfg i in
      not (p_script_ok dc.pc_rs && p_script_ok dc.pc_cs) in
    let known2 = match !logs with
      | [ls; le] -> g123 && List.exists (fun i -> g4_fails i && List.nth ls i <> List.nth le i) (List.init n (fun i -> i))
      | _ -> false in
    if known2 then Buffer.add_string b "known=C16-epoll-write-skipped-after-reregister;";
    if gok && not agree then Buffer.add_string b "theorem=VIOLATED-c16_backends_agree;";
    (* per-descriptor guards of c16_backends_agree_per_descriptor *)
    let okd = List.init n (fun i -> n <= 10 && p_d_ok cfg (nat_of_int i) && p_ops_ok_d cfg (nat_of_int i) ops) in
    (match !logs with
     | [ls; le] -> List.iteri (fun i ok -> if ok && List.nth ls i <> List.nth le i then
                                  Buffer.add_string b "theorem=VIOLATED-c16_backends_agree_per_descriptor;") okd
     | _ -> ());
    let nokd = List.length (List.filter (fun x -> x) okd) in
    Buffer.add_string b (Printf.sprintf "agree=%s;" (bool01 agree));
    let all = String.concat "," (List.concat !logs) in
    let has c = String.contains all c in
    Buffer.add_string b (Printf.sprintf "class=%s%s%s%s%s" cls
      (if has 'R' then "+r" else "") (if has 'W' then "+w" else "") (if has 'C' then "+c" else "")
      (if agree then "" else "+differ") ^ (if gok then "+guards" else if nokd > 0 then "+guards-some" else ""));
    Buffer.contents b
  | _ -> "bad-payload"

(* SelectServer-level registration: "S op;..."; x / y<us> = one idle RunOnce with poll interval 0 / us:
   Model.poll_once (timers, sleep on the clock - truncated to ms on epoll -, fresh clock read, timers) *)
let z_of_n (x : n) : z = match x with N0 -> Z0 | Npos p -> Zpos p
let n_of_z (x : z) : n = match x with Zpos p -> Npos p | _ -> N0
(* interval expressions: u<us> | p<sec>.<usec> | M<ms> | *<k>(<e>) | +(<e>)(<e>) -> TimeVal.iexp *)
let rec s_parse_iexp (t : string) (i : int ref) : iexp =
  let digits () = let j = ref !i in
    while !j < String.length t && t.[!j] >= '0' && t.[!j] <= '9' do incr j done;
    let v = String.sub t !i (!j - !i) in i := !j; v in
  let k = t.[!i] in incr i;
  match k with
  | 'u' -> IUs (z_of_n (n_of_string (digits ())))
  | 'M' -> IMs (z_of_n (n_of_string (digits ())))
  | 'p' -> let a = digits () in incr i; let b = digits () in
    IPair (z_of_n (n_of_string a), z_of_n (n_of_string b))
  | '*' -> let f = digits () in incr i; let a = s_parse_iexp t i in incr i; IMul (a, z_of_n (n_of_string f))
  | _ -> incr i; let a = s_parse_iexp t i in incr i; incr i; let b = s_parse_iexp t i in incr i; IAdd (a, b)
let s_run (epoll : bool) (ops : string list) : string * bool * int =
  let st = ref init in
  let trs = ref [] in
  let big = ref false and fired = ref 0 in
  let yes = List.init 200 (fun _ -> { acts = []; sret = true }) in
  (* harness labels are given when the op is issued; the model's serial when the registration really happens *)
  let labels = Hashtbl.create 16 and next_label = ref 0 in
  let pend_loop = ref [] and pend_desc = ref [] in
  let busy = ref false in
  let fresh () = let l = !next_label in incr next_label; l in
  List.iter (fun o ->
    if o <> "" then begin
      let rest = String.sub o 1 (String.length o - 1) in
      let before = List.length !st.log in
      (match o.[0] with
       | 'm' | 'i' -> (match String.split_on_char ',' rest with
           | rep :: v :: more ->
             let v = n_of_string v in
             let count = match more with [k] -> ios k | _ -> 1 in
             let iv = if o.[0] = 'm' then ms_to_us v else v in
             (if int_of_n (fst (N.div_eucl iv (n_of_int 1000000))) > 4294 then big := true);
             for _ = 1 to count do
               Hashtbl.replace labels (int_of_n !st.nser) (fresh ());
               st := do_reg t_alloc !st (rep = "1") iv N0 done
           | _ -> failwith "bad reg")
       | 'e' ->
         let comma = String.index rest ',' in
         let rep = String.sub rest 0 comma = "1" in
         let ex = String.sub rest (comma + 1) (String.length rest - comma - 1) in
         let iv = n_of_z (tv_us (ieval (s_parse_iexp ex (ref 0)))) in
         Hashtbl.replace labels (int_of_n !st.nser) (fresh ());
         st := do_reg t_alloc !st rep iv N0
       | 'L' | 'D' -> (match String.split_on_char ',' rest with
           | [rep; v] ->
             let r = (((rep = "1"), n_of_string v), N0) in
             let l = fresh () in
             if o.[0] = 'L' then pend_loop := !pend_loop @ [(r, l)] else pend_desc := !pend_desc @ [(r, l)]
           | _ -> failwith "bad deferred reg")
       | 'a' -> st := do_advance !st (n_of_string rest)
       | 'W' -> if ios rest > 0 then busy := true      (* descriptors that stay ready: the poller never sleeps *)
       | 'I' ->      (* one iteration whose select / epoll_wait is interrupted (EINTR) *)
         let base = int_of_n !st.nser in
         List.iteri (fun i (_, l) -> Hashtbl.replace labels (base + i) l) !pend_loop;
         (match runonce_intr t_alloc t_pick !st (List.map fst !pend_loop) yes with
          | Some s' -> st := s' | None -> failwith "oof");
         pend_loop := []
       | 'x' | 'y' ->
         let b = if o.[0] = 'x' || !busy then N0 else n_of_string rest in
         let base = int_of_n !st.nser in
         List.iteri (fun i (_, l) -> Hashtbl.replace labels (base + i) l) !pend_loop;
         List.iteri (fun j (_, l) -> Hashtbl.replace labels (base + List.length !pend_loop + j) l) !pend_desc;
         (match runonce t_alloc t_pick epoll !st b (List.map fst !pend_loop) (List.map fst !pend_desc) yes yes with
          | Some s' -> st := s' | None -> failwith "oof");
         pend_loop := []; pend_desc := []
       | _ -> failwith "bad op");
      let newl = List.rev (t_take_new !st.log (List.length !st.log - before)) in
      let fs = List.filter_map (fun e -> match e with
          | LFire (ev, now) -> incr fired;
            let l = try Hashtbl.find labels (int_of_n ev.eser) with Not_found -> -1 in
            Some ("F" ^ string_of_int l ^ "@" ^ string_of_n now) | _ -> None) newl in
      trs := String.concat "," fs :: !trs
    end) ops;
  (String.concat "/" (List.rev !trs), !big, !fired)
let s_handle (p : string) : string =
  let body = String.sub p 2 (String.length p - 2) in
  let ops = String.split_on_char ';' body in
  let (te, big, fired) = s_run true ops in
  let (ts, _, _) = s_run false ops in
  let sleeps = List.exists (fun o -> o <> "" && o.[0] = 'y') ops in
  let comp = List.exists (fun o -> o <> "" && (o.[0] = 'L' || o.[0] = 'D')) ops in
  let busyc = List.exists (fun o -> o <> "" && o.[0] = 'W') ops in
  let intr = List.exists (fun o -> o <> "" && o.[0] = 'I') ops in
  let kind = String.make 1 p.[0] in
  Printf.sprintf "se=%s;ss=%s;early=0;class=%s:%s%s%s%s%s" te ts kind (if big then "over32bit-us" else "small")
    (if fired > 0 then "+fire" else "") (if fired > 32 then "+many" else "") ((if sleeps then "+sleep" else "") ^ (if comp then "+callbacks" else "") ^ (if busyc then "+busy" else "") ^ (if intr then "+eintr" else ""))
    (if te <> ts then "+ms-truncation" else "")
(* constants query: the regenerated Gen.v values against what the linked code uses *)
let k_handle () : string =
  Printf.sprintf "consts=%s.%s.%s.%s.%s;class=K:consts" (string_of_n eP_MAX_EVENTS) (string_of_n eP_READ_FLAGS)
    (string_of_n eP_MAX_FREE_DESCRIPTORS) (string_of_n pOLL_INTERVAL_SECOND) (string_of_n pOLL_INTERVAL_USECOND)
let handle (p : string) : string =
  if p = "K" then k_handle ()
  else if String.length p >= 2 && p.[0] = 'T' then t_handle p
  else if String.length p >= 2 && (p.[0] = 'S' || p.[0] = 'R') then s_handle p
  else if String.length p >= 2 && p.[0] = 'P' then p_handle p
  else "bad-payload"
let () = vh_run handle
