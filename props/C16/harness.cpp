// C16 correspondence harness.
// Part (a): the real ola::io::TimeoutManager driven with a virtual Clock subclass (no source hook),
// scripted callbacks that re-enter the manager, and an interposed allocator for the Event objects so
// that address re-use (which malloc is free to do) is chosen by the test input.
// Part (b): see harness_poller.h (pollers over real descriptors).
#include <stdint.h>
#include <stdlib.h>
#include <string.h>
#include <algorithm>
#include <new>
#include <sstream>
#include <iostream>
#include <fstream>
#include <map>
#include <queue>
#include <set>
#include <string>
#include <vector>
#include <sanitizer/asan_interface.h>

#include "ola/Callback.h"
#include "ola/Clock.h"
#include "ola/ExportMap.h"
#include "ola/Logging.h"
#include "ola/thread/SchedulerInterface.h"
#define private public
#include "common/io/TimeoutManager.h"
#undef private
#include "ola/Callback.h"
#include "ola/Clock.h"
#include "ola/Logging.h"
#define private public
#include "ola/io/SelectServer.h"
#undef private
#include "vh.h"

#include "harness_poller.h"
#define HAVE_POLLER 1

using ola::TimeInterval;
using ola::TimeStamp;
using ola::io::TimeoutManager;
using std::string;
using std::vector;

// ---------------------------------------------------------------- Event pool (operator new interposer)
namespace pool {
static const int K = 128;
static const size_t SLOT = 128;
static char mem[K * SLOT] __attribute__((aligned(64)));
static bool first_in_call = false;   // fallback when the Event classes are not nameable
static bool used[K];
static bool on = false;       // set around Register*Timeout calls only
static int want = -1;         // slot the next Event allocation must take
static bool poisoned_init = false;

// sizeof the (private, nested) Event subclasses if they are still nameable; otherwise the Event is taken
// to be the first allocation (<= SLOT bytes) made inside a Register*Timeout call.
template <typename T> struct has_event_classes {
  template <typename U> static char test(typename U::RepeatingEvent *, typename U::SingleEvent *);
  template <typename U> static long test(...);
  static const bool value = sizeof(test<T>(0, 0)) == sizeof(char);
};
template <bool B> struct ev_size { template <class T> static bool is(size_t sz) { return first_in_call && sz <= SLOT; } };
template <> struct ev_size<true> {
  template <class T> static bool is(size_t sz) {
    return sz == sizeof(typename T::RepeatingEvent) || sz == sizeof(typename T::SingleEvent);
  }
};
static bool is_event_size(size_t sz) {
  return ev_size<has_event_classes<TimeoutManager>::value>::is<TimeoutManager>(sz);
}
static int slot_of(const void *p) {
  const char *c = static_cast<const char*>(p);
  if (c < mem || c >= mem + K * SLOT) return -1;
  return static_cast<int>((c - mem) / SLOT);
}
static void reset() {
  ASAN_UNPOISON_MEMORY_REGION(mem, sizeof(mem));
  memset(used, 0, sizeof(used));
  ASAN_POISON_MEMORY_REGION(mem, sizeof(mem));
  on = false; want = -1;
}
// the (h mod nfree)-th free slot in ascending order (Model.pool_alloc); -1 = pool exhausted
static int choose_free(unsigned long long h) {
  vector<int> fr;
  for (int i = 0; i < K; i++) if (!used[i]) fr.push_back(i);
  if (fr.empty()) return -1;
  return fr[h % fr.size()];
}
// the (h mod nused)-th allocated slot in ascending order (Model.pool_pick)
static int choose_used(unsigned long long h) {
  vector<int> us;
  for (int i = 0; i < K; i++) if (used[i]) us.push_back(i);
  if (us.empty()) return -1;
  return us[h % us.size()];
}
static void *ptr_of(int slot) { return mem + slot * SLOT; }
}  // namespace pool

void *operator new(size_t sz) {
  if (pool::on && pool::want >= 0 && pool::is_event_size(sz)) {
    int s = pool::want;
    pool::want = -1;
    pool::first_in_call = false;
    pool::used[s] = true;
    void *p = pool::ptr_of(s);
    ASAN_UNPOISON_MEMORY_REGION(p, pool::SLOT);
    return p;
  }
  void *p = malloc(sz ? sz : 1);
  if (!p) throw std::bad_alloc();
  return p;
}
void operator delete(void *p) noexcept {
  int s = pool::slot_of(p);
  if (s >= 0) {
    pool::used[s] = false;
    ASAN_POISON_MEMORY_REGION(pool::ptr_of(s), pool::SLOT);
    return;
  }
  free(p);
}
void operator delete(void *p, size_t) noexcept { operator delete(p); }
void *operator new[](size_t sz) { void *p = malloc(sz ? sz : 1); if (!p) throw std::bad_alloc(); return p; }
void operator delete[](void *p) noexcept { free(p); }
void operator delete[](void *p, size_t) noexcept { free(p); }

// ---------------------------------------------------------------- virtual clock
class VClock : public ola::Clock {
 public:
  VClock() : m_us(0) {}
  void CurrentMonotonicTime(TimeStamp *ts) const { set(ts); }
  void CurrentRealTime(TimeStamp *ts) const { set(ts); }
  void CurrentTime(TimeStamp *ts) const { set(ts); }
  void Advance(uint64_t d) { m_us += d; }
  uint64_t Now() const { return m_us; }
 private:
  void set(TimeStamp *ts) const {
    struct timeval tv;
    tv.tv_sec = m_us / 1000000ULL;
    tv.tv_usec = m_us % 1000000ULL;
    *ts = tv;
  }
  uint64_t m_us;
};

// ---------------------------------------------------------------- scripted callbacks
namespace ta {
struct Action { char kind; bool rep; uint64_t a, b; };   // s | c a | r rep a b | a a
struct Script { vector<Action> acts; bool ret; };

static VClock *g_clock;
static TimeoutManager *g_tm;
static vector<Script> g_scripts;     // scripts of the running ExecuteTimeouts call
static size_t g_next_script;
static int g_nser;
static int g_slot_ser[pool::K];      // serial of the timer living in each slot
static vector<string> g_trace;       // observable log of the current op
static vector<string> g_dels;        // closures destroyed during the current op
static bool g_quiet = false;
static bool g_pool_exhausted = false;

static void do_cancel_slot(int slot) {
  if (slot < 0) return;
  g_trace.push_back("C" + vh::str(g_slot_ser[slot]));
  g_tm->CancelTimeout(pool::ptr_of(slot));
}
static void do_register(bool rep, uint64_t iv, uint64_t h);

static bool run_script(int ser, bool rep) {
  Script sc;
  sc.ret = false;
  if (g_next_script < g_scripts.size()) sc = g_scripts[g_next_script++];
  // own id: the slot whose current serial is ser (we are allocated while running)
  int self = -1;
  for (int i = 0; i < pool::K; i++) if (pool::used[i] && g_slot_ser[i] == ser) self = i;
  g_trace.push_back("F" + vh::str(ser) + "@" + vh::str(g_clock->Now()));
  for (size_t i = 0; i < sc.acts.size(); i++) {
    const Action &a = sc.acts[i];
    switch (a.kind) {
      case 's': do_cancel_slot(self); break;
      case 'c': do_cancel_slot(pool::choose_used(a.a)); break;
      case 'r': do_register(a.rep, a.a, a.b); break;
      case 'a': g_clock->Advance(a.a); break;
    }
  }
  bool again = rep && sc.ret;
  g_trace.push_back("R" + vh::str(ser) + "." + (again ? "1" : "0"));
  return again;
}

class RepCb : public ola::Callback0<bool> {
 public:
  explicit RepCb(int ser) : m_ser(ser) {}
  ~RepCb() { if (!g_quiet) g_dels.push_back(vh::str(m_ser)); }
 private:
  bool DoRun() { return run_script(m_ser, true); }
  int m_ser;
};
class OneCb : public ola::SingleUseCallback0<void> {
 public:
  explicit OneCb(int ser) : m_ser(ser) {}
  ~OneCb() { if (!g_quiet) g_dels.push_back(vh::str(m_ser)); }
 private:
  void DoRun() { run_script(m_ser, false); }
  int m_ser;
};

static void do_register(bool rep, uint64_t iv, uint64_t h) {
  int slot = pool::choose_free(h);
  if (slot < 0) { g_pool_exhausted = true; return; }
  int ser = g_nser++;
  g_slot_ser[slot] = ser;
  g_trace.push_back("G" + vh::str(ser));
  ola::thread::timeout_id id;
  if (rep) {
    RepCb *cb = new RepCb(ser);
    pool::want = slot; pool::first_in_call = true; pool::on = true;
    id = g_tm->RegisterRepeatingTimeout(TimeInterval(static_cast<int64_t>(iv)), cb);
    pool::on = false;
  } else {
    OneCb *cb = new OneCb(ser);
    pool::want = slot; pool::first_in_call = true; pool::on = true;
    id = g_tm->RegisterSingleTimeout(TimeInterval(static_cast<int64_t>(iv)), cb);
    pool::on = false;
  }
  if (id != pool::ptr_of(slot)) g_trace.push_back("!alloc-not-interposed");
}

static Script parse_script(const string &s) {
  // <ret>[:s][:c<h>][:r<rep>,<iv>,<h>][:a<d>]...
  Script sc;
  vector<string> f = vh::split(s, ':');
  sc.ret = f[0] == "1";
  for (size_t i = 1; i < f.size(); i++) {
    Action a; a.kind = f[i][0]; a.rep = false; a.a = a.b = 0;
    string rest = f[i].substr(1);
    if (a.kind == 'r') {
      vector<string> g = vh::split(rest, ',');
      a.rep = g[0] == "1"; a.a = vh::num(g[1]); a.b = vh::num(g[2]);
    } else if (a.kind != 's') {
      a.a = vh::num(rest);
    }
    sc.acts.push_back(a);
  }
  return sc;
}

static uint64_t ts_us(const TimeStamp &t) {
  return static_cast<uint64_t>(t.Seconds()) * 1000000ULL + t.MicroSeconds();
}

#define C16T_HAS_MEMBER(name) \
  template <typename T> struct t_has_##name { \
    template <typename U> static char test(decltype(&U::name)); \
    template <typename U> static long test(...); \
    static const bool value = sizeof(test<T>(0)) == sizeof(char); };
C16T_HAS_MEMBER(m_events)
C16T_HAS_MEMBER(m_removed_timeouts)

// optional internal observations (heap layout of m_events, content of m_removed_timeouts)
template <class C> static void collect_slots(const C &ids, vector<int> *out) {
  for (typename C::const_iterator it = ids.begin(); it != ids.end(); ++it) out->push_back(pool::slot_of(*it) + 1);
}
template <bool B> struct tm_int { template <class TM> static string get(TM *) { return ""; } };
template <> struct tm_int<true> {
  template <class TM> struct QAccess : public TM::event_queue_t {
    static const typename TM::event_queue_t::container_type &vec(const typename TM::event_queue_t &q) {
      return q.*(&QAccess::c);
    }
  };
  template <class TM> static string get(TM *tm) {
    string s = "|h";
    const typename TM::event_queue_t::container_type &v = QAccess<TM>::vec(tm->m_events);
    for (size_t i = 0; i < v.size(); i++) {
      int slot = pool::slot_of(v[i]);
      s += (i ? "," : "") + vh::str(slot >= 0 ? g_slot_ser[slot] : -1) + "." + vh::str(slot + 1) + "." +
           vh::str(ts_us(v[i]->NextTime()));
    }
    s += "|r";
    vector<int> rm;
    collect_slots(tm->m_removed_timeouts, &rm);     // whatever container the ids are kept in
    std::sort(rm.begin(), rm.end());
    for (size_t i = 0; i < rm.size(); i++) s += (i ? "," : "") + vh::str(rm[i]);
    return s;
  }
};

static string state_s(int64_t next_in) {
  string s = "d";
  for (size_t i = 0; i < g_dels.size(); i++) s += (i ? "," : "") + g_dels[i];
  s += tm_int<t_has_m_events<TimeoutManager>::value && t_has_m_removed_timeouts<TimeoutManager>::value>::get(g_tm);
  s += "|n" + vh::str(next_in);
  s += string("|p") + (g_tm->EventsPending() ? "1" : "0");
  return s;
}

static string handle(const string &payload) {
  // payload: "T op;op;..."   op: r<rep>,<iv>,<h> | c<h> | a<d> | x<script>|<script>...
  pool::reset();
  VClock clock;
  g_clock = &clock;
  g_nser = 0; g_quiet = false; g_pool_exhausted = false;
  memset(g_slot_ser, 0xff, sizeof(g_slot_ser));
  string tr, st, rv;
  {
    TimeoutManager tm(NULL, &clock);
    g_tm = &tm;
    vector<string> ops = vh::split(payload.substr(2), ';');
    for (size_t i = 0; i < ops.size(); i++) {
      const string &o = ops[i];
      g_trace.clear(); g_dels.clear();
      int64_t next_in = 0;
      if (o.empty()) continue;
      string rest = o.substr(1);
      switch (o[0]) {
        case 'r': {
          vector<string> g = vh::split(rest, ',');
          do_register(g[0] == "1", vh::num(g[1]), vh::num(g[2]));
          break;
        }
        case 'c': do_cancel_slot(pool::choose_used(vh::num(rest))); break;
        case 'a': clock.Advance(vh::num(rest)); break;
        case 'x': {
          g_scripts.clear(); g_next_script = 0;
          if (!rest.empty()) {
            vector<string> ss = vh::split(rest, '|');
            for (size_t k = 0; k < ss.size(); k++) g_scripts.push_back(parse_script(ss[k]));
          }
          TimeStamp now;
          clock.CurrentMonotonicTime(&now);
          TimeInterval r = tm.ExecuteTimeouts(&now);
          next_in = r.AsInt();
          g_scripts.clear(); g_next_script = 0;
          break;
        }
      }
      if (i) { tr += "/"; st += "/"; rv += "/"; }
      rv += (o[0] == 'x') ? vh::str(next_in) : string("-");
      for (size_t k = 0; k < g_trace.size(); k++) tr += (k ? "," : "") + g_trace[k];
      st += state_s(next_in);
    }
    g_quiet = true;
  }
  g_tm = NULL;
  if (g_pool_exhausted) return "tr=pool-exhausted";
  return "tr=" + tr + ";rv=" + rv + ";st=" + st;
}
}  // namespace ta

// ---------------------------------------------------------------- SelectServer-level timer registration
// payload: "S op;op;..."  op: m<rep>,<ms> (millisecond overload) | i<rep>,<us> (TimeInterval overload) |
//          a<us> (advance the virtual clock) | x (one RunOnce()); run on both back-ends.
// controlled time for the REAL ola::Clock (payload R): clock_gettime is interposed; CLOCK_MONOTONIC gives the
// controlled time, every other monotonic clock id a time that lags behind it (rounded down to a 4 ms tick)
static bool g_fake_time = false;
static uint64_t g_fake_us = 0;
extern "C" int __real_clock_gettime(clockid_t id, struct timespec *ts);
extern "C" int __wrap_clock_gettime(clockid_t id, struct timespec *ts) {
  if (g_fake_time && id != CLOCK_REALTIME && id != CLOCK_PROCESS_CPUTIME_ID && id != CLOCK_THREAD_CPUTIME_ID) {
    uint64_t t = g_fake_us;
    if (id != CLOCK_MONOTONIC) t = (t / 4000) * 4000;
    ts->tv_sec = t / 1000000ULL; ts->tv_nsec = (t % 1000000ULL) * 1000ULL;
    return 0;
  }
  return __real_clock_gettime(id, ts);
}

namespace ss {
static VClock *g_clock;
static uint64_t now_us() { return g_fake_time ? g_fake_us : g_clock->Now(); }
static void advance_us(uint64_t d) { if (g_fake_time) g_fake_us += d; else g_clock->Advance(d); }
static void on_writable_noop() {}
static vector<string> *g_log;
static bool g_early;
static std::map<int, uint64_t> g_due;        // serial -> earliest legal firing time
static std::map<int, uint64_t> g_interval;
static void on_fire(int ser) {
  uint64_t now = now_us();
  if (now < g_due[ser]) g_early = true;      // clock_now < (registration or last firing) + interval
  g_due[ser] = now + g_interval[ser];
  g_log->push_back("F" + vh::str(ser) + "@" + vh::str(now));
}
static bool fired_rep(int ser) { on_fire(ser); return true; }
static void fired_one(int ser) { on_fire(ser); }

// timers registered from inside a loop callback (L) or from a descriptor's on_data handler (D)
static ola::io::SelectServer *g_server;
struct Deferred;
static vector<Deferred*> g_deferred_done;
static vector<ola::io::LoopbackDescriptor*> g_writers_done;
static void register_timer(bool rep, bool ms_overload, unsigned long long v, int id) {
  uint64_t us = ms_overload ? static_cast<uint64_t>(static_cast<unsigned int>(v)) * 1000ULL : v;
  g_interval[id] = us; g_due[id] = now_us() + us;
  if (ms_overload) {
    if (rep) g_server->RegisterRepeatingTimeout(static_cast<unsigned int>(v), ola::NewCallback(&fired_rep, id));
    else g_server->RegisterSingleTimeout(static_cast<unsigned int>(v), ola::NewSingleCallback(&fired_one, id));
  } else {
    TimeInterval iv(static_cast<int64_t>(v));
    if (rep) g_server->RegisterRepeatingTimeout(iv, ola::NewCallback(&fired_rep, id));
    else g_server->RegisterSingleTimeout(iv, ola::NewSingleCallback(&fired_one, id));
  }
}
// interval expressions built with the real constructors / operators:
//   u<us> | p<sec>.<usec> | M<ms> | *<k>(<expr>) | +(<expr>)(<expr>)
static TimeInterval parse_iexp(const string &t, size_t *i) {
  char k = t[*i]; (*i)++;
  if (k == 'u' || k == 'M') {
    size_t j = *i; while (j < t.size() && isdigit(t[j])) j++;
    unsigned long long v = vh::num(t.substr(*i, j - *i)); *i = j;
    if (k == 'u') return TimeInterval(static_cast<int64_t>(v));
    return TimeInterval(static_cast<int32_t>(v / 1000), static_cast<int32_t>(v % 1000 * 1000));   // as the ms overloads do
  }
  if (k == 'p') {
    size_t j = *i; while (j < t.size() && isdigit(t[j])) j++;
    long sec = atol(t.substr(*i, j - *i).c_str()); *i = j + 1;
    j = *i; while (j < t.size() && isdigit(t[j])) j++;
    long usec = atol(t.substr(*i, j - *i).c_str()); *i = j;
    return TimeInterval(static_cast<int32_t>(sec), static_cast<int32_t>(usec));
  }
  if (k == '*') {
    size_t j = *i; while (j < t.size() && isdigit(t[j])) j++;
    unsigned int f = static_cast<unsigned int>(vh::num(t.substr(*i, j - *i))); *i = j + 1;   // skip '('
    TimeInterval a = parse_iexp(t, i); (*i)++;                                             // skip ')'
    return a * f;
  }
  // '+'
  (*i)++; TimeInterval a = parse_iexp(t, i); (*i)++;
  (*i)++; TimeInterval b = parse_iexp(t, i); (*i)++;
  TimeInterval r = a; r += b;   // TimeInterval offers operator+= (TimerAdd)
  return r;
}

struct Deferred { bool rep; unsigned long long us; int id; bool done; ola::io::LoopbackDescriptor *desc; };
static void loop_cb(Deferred *d) {
  if (d->done) return;
  d->done = true;
  register_timer(d->rep, false, d->us, d->id);
}
static void desc_cb(Deferred *d) {
  uint8_t buf[8]; unsigned int got = 0;
  d->desc->Receive(buf, sizeof(buf), got);
  g_server->RemoveReadDescriptor(d->desc);
  if (!d->done) { d->done = true; register_timer(d->rep, false, d->us, d->id); }
}

// called by the epoll_wait / select interposers when nothing is ready: the poller sleeps on the virtual clock
static void vsleep(long long us) {
  if (us < 0) { if (g_log) g_log->push_back("!sleep-forever"); return; }
  advance_us(static_cast<uint64_t>(us));
}

static string run_backend(const string &payload, bool force_select, bool *early) {
  VClock clock;
  g_clock = &clock;
  bool real_clock = payload[0] == 'R';     // the server creates and uses its own ola::Clock
  g_fake_us = 0; g_fake_time = real_clock;
  g_early = false; g_due.clear(); g_interval.clear();
  string out;
  {
    ola::io::SelectServer::Options opt;
    opt.force_select = force_select;
    opt.clock = real_clock ? NULL : &clock;
    ola::io::SelectServer server(opt);
    g_server = &server;
    vector<ola::io::LoopbackDescriptor*> writers;
    vector<Deferred*> deferred;
    int ser = 0;
    vector<string> ops = vh::split(payload.substr(2), ';');
    for (size_t i = 0; i < ops.size(); i++) {
      const string &o = ops[i];
      vector<string> log;
      g_log = &log;
      if (o.empty()) continue;
      string rest = o.substr(1);
      switch (o[0]) {
        case 'm': case 'i': {
          vector<string> g = vh::split(rest, ',');
          bool rep = g[0] == "1";
          unsigned long long v = vh::num(g[1]);
          int count = g.size() > 2 ? static_cast<int>(vh::num(g[2])) : 1;   // register <count> such timers
          for (int k = 0; k < count; k++) register_timer(rep, o[0] == 'm', v, ser++);
          break;
        }
        case 'e': {     // e<rep>,<interval expression>
          size_t comma = rest.find(',');
          bool rep = rest.substr(0, comma) == "1";
          size_t pos = 0; string ex = rest.substr(comma + 1);
          TimeInterval iv = parse_iexp(ex, &pos);
          int id = ser++;
          g_interval[id] = static_cast<uint64_t>(iv.AsInt()); g_due[id] = now_us() + g_interval[id];
          if (rep) server.RegisterRepeatingTimeout(iv, ola::NewCallback(&fired_rep, id));
          else server.RegisterSingleTimeout(iv, ola::NewSingleCallback(&fired_one, id));
          break;
        }
        case 'L': case 'D': {     // the timer is registered during the next iteration, by a loop / descriptor callback
          vector<string> g = vh::split(rest, ',');
          Deferred *d = new Deferred();
          d->rep = g[0] == "1"; d->us = vh::num(g[1]); d->id = ser++; d->done = false; d->desc = NULL;
          deferred.push_back(d);
          if (o[0] == 'L') {
            server.RunInLoop(ola::NewCallback(&loop_cb, d));
          } else {
            d->desc = new ola::io::LoopbackDescriptor();
            d->desc->Init();
            d->desc->SetOnData(ola::NewCallback(&desc_cb, d));
            uint8_t one = 1;
            d->desc->Send(&one, 1);
            server.AddReadDescriptor(d->desc);
          }
          break;
        }
        case 'a': advance_us(vh::num(rest)); break;
        case 'W': {     // <n> descriptors that stay ready (write ends of empty pipes): the loop is busy from now on
          int n = static_cast<int>(vh::num(rest));
          for (int k = 0; k < n; k++) {
            ola::io::LoopbackDescriptor *w = new ola::io::LoopbackDescriptor();
            w->Init();
            w->SetOnWritable(ola::NewCallback(&on_writable_noop));
            server.AddWriteDescriptor(w);
            writers.push_back(w);
          }
          break;
        }
        case 'I': {     // one iteration whose select() / epoll_wait() is interrupted by a signal (EINTR)
          c16p::p_vsleep = &vsleep;
          c16p::p_intr_next = true;
          server.RunOnce();
          c16p::p_intr_next = false;
          c16p::p_vsleep = NULL;
          break;
        }
        case 'x': case 'y': {
          c16p::p_vsleep = &vsleep;
          if (o[0] == 'x') server.RunOnce();
          else server.RunOnce(TimeInterval(static_cast<int64_t>(vh::num(rest))));
          c16p::p_vsleep = NULL;
          break;
        }
      }
      if (i) out += "/";
      for (size_t k = 0; k < log.size(); k++) out += (k ? "," : "") + log[k];
    }
    g_log = NULL;
    for (size_t k = 0; k < deferred.size(); k++) {
      if (deferred[k]->desc) { server.RemoveReadDescriptor(deferred[k]->desc); }
    }
    for (size_t k = 0; k < writers.size(); k++) server.RemoveWriteDescriptor(writers[k]);
    g_writers_done = writers;
    g_deferred_done = deferred;
  }
  for (size_t k = 0; k < g_writers_done.size(); k++) delete g_writers_done[k];
  g_writers_done.clear();
  g_fake_time = false;
  for (size_t k = 0; k < g_deferred_done.size(); k++) { delete g_deferred_done[k]->desc; delete g_deferred_done[k]; }
  g_deferred_done.clear();
  g_server = NULL;
  if (g_early) *early = true;
  return out;
}
static string handle(const string &payload) {
  bool early = false;
  string e = run_backend(payload, false, &early);
  string s = run_backend(payload, true, &early);
  return "se=" + e + ";ss=" + s + ";early=" + (early ? "1" : "0");
}
}  // namespace ss

static string consts_s() {
  std::ostringstream o;
  o << "consts=" << ola::io::EPoller::MAX_EVENTS << "." << ola::io::EPoller::READ_FLAGS << "."
    << ola::io::EPoller::MAX_FREE_DESCRIPTORS << "." << ola::io::SelectServer::POLL_INTERVAL_SECOND << "."
    << ola::io::SelectServer::POLL_INTERVAL_USECOND;
  return o.str();
}

static string dispatch(const string &payload) {
  if (payload == "K") return consts_s();
  if (payload.size() >= 2 && payload[0] == 'T') return ta::handle(payload);
  if (payload.size() >= 2 && (payload[0] == 'S' || payload[0] == 'R')) return ss::handle(payload);
#ifdef HAVE_POLLER
  if (payload.size() >= 1 && payload[0] == 'P') return c16p::handle(payload);
#endif
  return "bad-payload";
}

int main(int argc, char **argv) {
  ola::InitLogging(ola::OLA_LOG_NONE, ola::OLA_LOG_STDERR);
  return vh::run(argc, argv, dispatch);
}
