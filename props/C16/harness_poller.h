#ifndef C16_HARNESS_POLLER_H_
#define C16_HARNESS_POLLER_H_
// C16 part (b) implementation harness (included by harness.cpp): the real ola::io::EPoller and ola::io::SelectPoller over real pipes and
// socketpairs, driven by the same scripted scenario; per-descriptor callback logs are printed per back-end.
// payload: "P <class> <desc>... / <op>..."   (see prop.py)
#include <errno.h>
#include <fcntl.h>
#include <signal.h>
#include <stdint.h>
#include <string.h>
#include <sys/epoll.h>
#include <sys/select.h>
#include <sys/socket.h>
#include <sys/types.h>
#include <unistd.h>
#include <algorithm>
#include <map>
#include <set>
#include <sstream>
#include <string>
#include <utility>
#include <vector>
#include "vh.h"
#include "ola/Callback.h"
#include "ola/Clock.h"
#include "ola/Logging.h"
#include "ola/io/Descriptor.h"
#define private public
#include "common/io/EPoller.h"
#include "common/io/SelectPoller.h"
#undef private
#include "common/io/TimeoutManager.h"

namespace c16p {
using std::string;
using std::vector;

static int P_FD_BASE = 200;           // descriptor d lives on fd P_FD_BASE+d (fd order == index order);
                                      // the payload may move the base to the boundary fd numbers (0.., ..FD_SETSIZE-1)
static const int P_PEER_BASE = 300;   // its peer end on 300+d

// ---- epoll_wait interposition: the kernel's ready list is re-ordered by fd (ascending/descending) so that
// the cross-descriptor order is the one the model assumes.  Any order is a legal kernel answer.
static ola::io::EPoller *p_cur_ep = NULL;
static bool p_desc_order = false;
// user-data pointer -> fd, learnt from the poller's own epoll_ctl(ADD/MOD) calls (no poller internals)
static std::map<void*, int> p_ptr_fd;
// fds whose registration the epoll interface refuses (descriptor kind 'f'): epoll_ctl(ADD/MOD) fails with EPERM,
// exactly what the kernel answers for a regular file
static std::set<int> p_refused_fds;
// virtual sleeping (timer cases): when set and nothing is ready, the timeout the poller passed is handed to this
// hook (microseconds, negative = forever) instead of being slept for real
static void (*p_vsleep)(long long us) = NULL;
// the next select() / epoll_wait() fails with EINTR (a handled signal arrived during the wait): the kernel leaves
// the fd sets / the event array as they were passed in
static bool p_intr_next = false;

static int p_fd_of(void *ptr) {
  std::map<void*, int>::const_iterator it = p_ptr_fd.find(ptr);
  return it == p_ptr_fd.end() ? -1 : it->second;
}
struct p_ev_lt {
  bool operator()(const epoll_event &a, const epoll_event &b) const {
    int fa = p_fd_of(a.data.ptr), fb = p_fd_of(b.data.ptr);
    return p_desc_order ? fa > fb : fa < fb;
  }
};

// Optional internal observations: compiled only if the (private) members still exist, so that an
// internal refactoring of the pollers does not stop the property-level comparison.
#define C16P_HAS_MEMBER(name) \
  template <typename T> struct p_has_##name { \
    template <typename U> static char test(decltype(&U::name)); \
    template <typename U> static long test(...); \
    static const bool value = sizeof(test<T>(0)) == sizeof(char); };
C16P_HAS_MEMBER(m_descriptor_map)
C16P_HAS_MEMBER(m_orphaned_descriptors)
C16P_HAS_MEMBER(m_free_descriptors)
C16P_HAS_MEMBER(m_read_descriptors)
C16P_HAS_MEMBER(m_connected_read_descriptors)
C16P_HAS_MEMBER(m_write_descriptors)
template <bool B> struct p_ep_int { template <class E> static string get(E *) { return ""; } };
template <> struct p_ep_int<true> {
  template <class E> static string get(E *ep) {
    return "em=" + vh::str(ep->m_descriptor_map.size()) + "." + vh::str(ep->m_orphaned_descriptors.size()) +
           "." + vh::str(ep->m_free_descriptors.size()) + ";";
  }
};
template <bool B> struct p_sel_int { template <class E> static string get(E *) { return ""; } };
template <> struct p_sel_int<true> {
  template <class E> static string get(E *sp) {
    return "sm=" + vh::str(sp->m_read_descriptors.size()) + "." +
           vh::str(sp->m_connected_read_descriptors.size()) + "." + vh::str(sp->m_write_descriptors.size()) + ";";
  }
};

// A ConnectedDescriptor over a raw fd whose destructor tells the harness that the object is gone.
class p_conn : public ola::io::ConnectedDescriptor {
 public:
  p_conn(int fd, bool sock, bool *gone) : m_fd(fd), m_sock(sock), m_gone(gone) {}
  ~p_conn() { *m_gone = true; Close(); }
  ola::io::DescriptorHandle ReadDescriptor() const { return m_fd; }
  ola::io::DescriptorHandle WriteDescriptor() const { return m_fd; }
  bool Close() { if (m_fd >= 0) close(m_fd); m_fd = -1; return true; }
 protected:
  bool IsSocket() const { return m_sock; }
 private:
  int m_fd; bool m_sock; bool *m_gone;
};

struct p_act { char op; char role; int d; };   // op a/x, role r/w
struct p_desc {
  bool sock, conn, doc, refused; unsigned rk;
  vector<p_act> rs, ws, cs;
};
struct p_op { char k; char role; int d; vector<uint8_t> bytes; };

static vector<p_act> p_parse_script(const string &t) {
  vector<p_act> r;
  if (t == "-") return r;
  vector<string> a = vh::split(t, ',');
  for (size_t i = 0; i < a.size(); i++) {
    p_act x; x.op = a[i][0]; x.role = a[i][a[i].size() - 1];
    x.d = atoi(a[i].substr(1, a[i].size() - 2).c_str());
    r.push_back(x);
  }
  return r;
}

class p_run {
 public:
  p_run(const vector<p_desc> &cfg, bool epoll)
      : m_cfg(cfg), m_epoll(epoll), m_tm(NULL, &m_clock), m_ep(NULL), m_sel(NULL), m_opix(0) {
    size_t n = cfg.size();
    m_gone = new bool[n];
    m_peer_open.assign(n, true);
    m_logs.assign(n, string());
    for (size_t d = 0; d < n; d++) {
      m_gone[d] = false;
      int p[2];
      if (cfg[d].sock) {
        if (socketpair(AF_UNIX, SOCK_STREAM, 0, p)) abort();
      } else {
        if (pipe(p)) abort();
      }
      // the kernel hands out the lowest free numbers, which may be the very numbers we are about to place the
      // descriptors on (fds 0..2): park both ends high up first
      int q0 = fcntl(p[0], F_DUPFD, 800), q1 = fcntl(p[1], F_DUPFD, 800);
      if (q0 < 0 || q1 < 0) abort();
      close(p[0]); close(p[1]);
      if (dup2(q0, P_FD_BASE + d) < 0 || dup2(q1, P_PEER_BASE + d) < 0) abort();
      close(q0); close(q1);
      int fd = P_FD_BASE + d;
      if (cfg[d].refused && epoll) p_refused_fds.insert(fd);
      fcntl(fd, F_SETFL, fcntl(fd, F_GETFL, 0) | O_NONBLOCK);
      if (cfg[d].conn) {
        p_conn *c = new p_conn(fd, cfg[d].sock, &m_gone[d]);
        c->SetOnData(ola::NewCallback(this, &p_run::OnRead, static_cast<int>(d)));
        c->SetOnWritable(ola::NewCallback(this, &p_run::OnWrite, static_cast<int>(d)));
        c->SetOnClose(ola::NewSingleCallback(this, &p_run::OnClose, static_cast<int>(d)));
        m_conn.push_back(c); m_raw.push_back(NULL);
      } else {
        ola::io::UnmanagedFileDescriptor *u = new ola::io::UnmanagedFileDescriptor(fd);
        u->SetOnData(ola::NewCallback(this, &p_run::OnRead, static_cast<int>(d)));
        u->SetOnWritable(ola::NewCallback(this, &p_run::OnWrite, static_cast<int>(d)));
        m_conn.push_back(NULL); m_raw.push_back(u);
      }
    }
    if (epoll) { m_ep = new ola::io::EPoller(NULL, &m_clock); m_poller = m_ep; }
    else { m_sel = new ola::io::SelectPoller(NULL, &m_clock); m_poller = m_sel; }
  }

  ~p_run() {
    p_cur_ep = NULL;
    p_ptr_fd.clear();
    p_refused_fds.clear();
    delete m_poller;     // deletes delete_on_close descriptors that are still registered
    for (size_t d = 0; d < m_cfg.size(); d++) {
      if (m_cfg[d].conn) { if (!m_gone[d]) delete m_conn[d]; }
      else { delete m_raw[d]; close(P_FD_BASE + d); }
      if (m_peer_open[d]) close(P_PEER_BASE + d);
    }
    delete[] m_gone;
  }

  bool Add(int d, char role) {
    if (role == 'w') {
      return m_poller->AddWriteDescriptor(m_cfg[d].conn ?
          static_cast<ola::io::WriteFileDescriptor*>(m_conn[d]) :
          static_cast<ola::io::WriteFileDescriptor*>(m_raw[d]));
    }
    if (m_cfg[d].conn) return m_poller->AddReadDescriptor(m_conn[d], m_cfg[d].doc);
    return m_poller->AddReadDescriptor(static_cast<ola::io::ReadFileDescriptor*>(m_raw[d]));
  }
  bool Remove(int d, char role) {
    if (role == 'w') {
      return m_poller->RemoveWriteDescriptor(m_cfg[d].conn ?
          static_cast<ola::io::WriteFileDescriptor*>(m_conn[d]) :
          static_cast<ola::io::WriteFileDescriptor*>(m_raw[d]));
    }
    if (m_cfg[d].conn) return m_poller->RemoveReadDescriptor(m_conn[d]);
    return m_poller->RemoveReadDescriptor(static_cast<ola::io::ReadFileDescriptor*>(m_raw[d]));
  }

  void Script(const vector<p_act> &s) {
    for (size_t i = 0; i < s.size(); i++) {
      if (m_gone[s[i].d]) continue;
      if (s[i].op == 'a') Add(s[i].d, s[i].role); else Remove(s[i].d, s[i].role);
    }
  }
  void Log(int d, const string &what) {
    if (!m_logs[d].empty()) m_logs[d] += ",";
    m_logs[d] += vh::str(m_opix) + "." + what;
  }
  void OnRead(int d) {
    uint8_t buf[64];
    unsigned got = 0;
    unsigned want = std::min(m_cfg[d].rk, 64u);
    if (want) {
      if (m_cfg[d].conn) {
        m_conn[d]->Receive(buf, want, got);
      } else {
        ssize_t r = read(P_FD_BASE + d, buf, want);
        got = r > 0 ? r : 0;
      }
    }
    Log(d, "R" + vh::hex(buf, got));
    Script(m_cfg[d].rs);
  }
  void OnWrite(int d) { Log(d, "W"); Script(m_cfg[d].ws); }
  void OnClose(int d) { Log(d, "C"); Script(m_cfg[d].cs); }

  void Step(const p_op &o) {
    switch (o.k) {
      case 'a': if (!m_gone[o.d]) m_rets += Add(o.d, o.role) ? "1" : "0"; break;
      case 'x': if (!m_gone[o.d]) m_rets += Remove(o.d, o.role) ? "1" : "0"; break;
      case 'w':
        if (!m_gone[o.d] && m_peer_open[o.d] && !o.bytes.empty()) {
          if (write(P_PEER_BASE + o.d, o.bytes.data(), o.bytes.size()) !=
              static_cast<ssize_t>(o.bytes.size())) abort();
        }
        break;
      case 'k':
        if (!m_gone[o.d] && m_peer_open[o.d]) { close(P_PEER_BASE + o.d); m_peer_open[o.d] = false; }
        break;
      case 'p': case 'q':
        p_cur_ep = m_ep; p_desc_order = (o.k == 'q');
        m_poller->Poll(&m_tm, ola::TimeInterval(0, 0));
        break;
      case 'I':     // one Poll whose wait is interrupted
        p_cur_ep = m_ep; p_desc_order = false;
        p_intr_next = true;
        m_poller->Poll(&m_tm, ola::TimeInterval(0, 0));
        p_intr_next = false;
        break;
    }
    m_opix++;
  }

  string Result(const string &tag) {
    std::ostringstream o;
    for (size_t d = 0; d < m_cfg.size(); d++)
      o << tag << d << "=" << (m_logs[d].empty() ? "-" : m_logs[d]) << ";";
    o << "r" << tag << "=" << (m_rets.empty() ? "-" : m_rets) << ";";
    o << "d" << tag << "=";
    for (size_t d = 0; d < m_cfg.size(); d++) o << (m_gone[d] ? "1" : "0");
    o << ";h" << tag << "=0;";
    if (m_ep) {
      o << p_ep_int<p_has_m_descriptor_map<ola::io::EPoller>::value &&
                    p_has_m_orphaned_descriptors<ola::io::EPoller>::value &&
                    p_has_m_free_descriptors<ola::io::EPoller>::value>::get(m_ep);
    } else {
      o << p_sel_int<p_has_m_read_descriptors<ola::io::SelectPoller>::value &&
                     p_has_m_connected_read_descriptors<ola::io::SelectPoller>::value &&
                     p_has_m_write_descriptors<ola::io::SelectPoller>::value>::get(m_sel);
    }
    return o.str();
  }
  vector<string> m_logs;

 private:
  vector<p_desc> m_cfg;
  bool m_epoll;
  ola::Clock m_clock;
  ola::io::TimeoutManager m_tm;
  ola::io::EPoller *m_ep;
  ola::io::SelectPoller *m_sel;
  ola::io::PollerInterface *m_poller;
  vector<p_conn*> m_conn;
  vector<ola::io::UnmanagedFileDescriptor*> m_raw;
  bool *m_gone;
  vector<bool> m_peer_open;
  string m_rets;
  int m_opix;
};

string handle(const string &payload) {
  vector<string> t = vh::split(payload);
  if (t.size() < 2 || t[0] != "P") return "bad-payload";
  // "<class>@<base>": descriptors live on fds base, base+1, ...  (default 200)
  int fd_base = 200;
  size_t at = t[1].rfind('@');
  if (at != string::npos) fd_base = atoi(t[1].c_str() + at + 1);
  size_t ndesc = 0;
  for (size_t k = 2; k < t.size() && t[k] != "/"; k++) ndesc++;
  bool low = fd_base < 3;
  if ((low && fd_base + ndesc > 3) || (!low && fd_base < 200) || fd_base + ndesc > FD_SETSIZE) return "bad-fd-base";
  // descriptors on fds 0..2 replace stdin/stdout/stderr for the duration of the case
  struct StdGuard {
    bool on; int saved[3];
    explicit StdGuard(bool o) : on(o) {
      if (!on) return;
      fflush(stdout); fflush(stderr);
      for (int k = 0; k < 3; k++) saved[k] = fcntl(k, F_DUPFD, 700);
    }
    ~StdGuard() {
      if (!on) return;
      for (int k = 0; k < 3; k++) { dup2(saved[k], k); close(saved[k]); }
    }
  } guard(low);
  P_FD_BASE = fd_base;
  vector<p_desc> cfg;
  vector<p_op> ops;
  size_t i = 2;
  for (; i < t.size() && t[i] != "/"; i++) {
    vector<string> f = vh::split(t[i], ':');
    if (f.size() != 5) return "bad-desc";
    p_desc d;
    d.sock = f[0][0] == 's'; d.refused = f[0][0] == 'f'; d.conn = f[0][1] == 'c'; d.doc = f[0][2] == '1';
    d.rk = atoi(f[1].c_str());
    d.rs = p_parse_script(f[2]); d.ws = p_parse_script(f[3]); d.cs = p_parse_script(f[4]);
    cfg.push_back(d);
  }
  for (i++; i < t.size(); i++) {
    const string &s = t[i];
    if (s.empty()) continue;
    p_op o; o.k = s[0]; o.role = 'r'; o.d = 0;
    if (s[0] == 'a' || s[0] == 'x') { o.role = s[1]; o.d = atoi(s.c_str() + 2); }
    else if (s[0] == 'k') { o.d = atoi(s.c_str() + 1); }
    else if (s[0] == 'w') {
      size_t c = s.find(':');
      o.d = atoi(s.substr(1, c - 1).c_str());
      o.bytes = vh::unhex(s.substr(c + 1));
    }
    ops.push_back(o);
  }
  string out;
  vector<string> le, ls;
  for (int be = 0; be < 2; be++) {
    p_run r(cfg, be == 0);
    for (size_t k = 0; k < ops.size(); k++) r.Step(ops[k]);
    out += r.Result(be == 0 ? "e" : "s");
    (be == 0 ? le : ls) = r.m_logs;
  }
  out += string("agree=") + (le == ls ? "1" : "0");
  return out;
}
}  // namespace c16p

extern "C" int __real_epoll_wait(int epfd, struct epoll_event *events, int maxevents, int timeout);
extern "C" int __wrap_epoll_wait(int epfd, struct epoll_event *events, int maxevents, int timeout) {
  if (c16p::p_intr_next) { c16p::p_intr_next = false; errno = EINTR; return -1; }
  if (c16p::p_vsleep) {
    int n0 = __real_epoll_wait(epfd, events, maxevents, 0);
    if (n0 == 0) c16p::p_vsleep(timeout < 0 ? -1 : static_cast<long long>(timeout) * 1000);
    return n0;
  }
  if (c16p::p_cur_ep) {
    // the kernel may hand back ANY maxevents of the ready descriptors; fix the answer: all ready ones are
    // collected, ordered by fd (ascending / descending) and the first maxevents of them are returned
    struct epoll_event all[64];
    int n = __real_epoll_wait(epfd, all, 64, timeout);
    if (n <= 0) return n;
    std::sort(all, all + n, c16p::p_ev_lt());
    if (n > maxevents) n = maxevents;
    for (int i = 0; i < n; i++) events[i] = all[i];
    return n;
  }
  return __real_epoll_wait(epfd, events, maxevents, timeout);
}
extern "C" int __real_select(int nfds, fd_set *r, fd_set *w, fd_set *x, struct timeval *tv);
extern "C" int __wrap_select(int nfds, fd_set *r, fd_set *w, fd_set *x, struct timeval *tv) {
  if (c16p::p_intr_next) { c16p::p_intr_next = false; errno = EINTR; return -1; }
  if (c16p::p_vsleep && tv) {
    if (tv->tv_sec < 0 || tv->tv_usec < 0) { errno = EINVAL; return -1; }   // what the kernel answers
    struct timeval zero = {0, 0};
    int n0 = __real_select(nfds, r, w, x, &zero);
    if (n0 == 0) c16p::p_vsleep(static_cast<long long>(tv->tv_sec) * 1000000LL + tv->tv_usec);
    return n0;
  }
  return __real_select(nfds, r, w, x, tv);
}
extern "C" int __real_epoll_ctl(int epfd, int op, int fd, struct epoll_event *event);
extern "C" int __wrap_epoll_ctl(int epfd, int op, int fd, struct epoll_event *event) {
  if ((op == EPOLL_CTL_ADD || op == EPOLL_CTL_MOD) && c16p::p_refused_fds.count(fd)) { errno = EPERM; return -1; }
  if (event && (op == EPOLL_CTL_ADD || op == EPOLL_CTL_MOD)) c16p::p_ptr_fd[event->data.ptr] = fd;
  return __real_epoll_ctl(epfd, op, fd, event);
}
#endif  // C16_HARNESS_POLLER_H_
