(* C16 part (a): invariants of the TimeoutManager model and the lemmas behind Properties.v *)
From OlaBase Require Import Bytes.
From C16 Require Import Model.
From Coq Require Import Permutation.
Local Open Scope N_scope.

Definition lser (x : lentry) : N :=
  match x with
  | LReg e => eser e | LCancel n _ => n | LFire e _ => eser e | LRet n _ => n | LDrop e => eser e
  end.

Lemma mem_In x l : mem x l = true <-> In x l.
Proof.
  unfold mem. rewrite existsb_exists. split.
  - intros (y & Hy & E). apply N.eqb_eq in E. subst; auto.
  - intros H; exists x; split; auto. apply N.eqb_refl.
Qed.
Lemma mem_nIn x l : mem x l = false <-> ~ In x l.
Proof. rewrite <- mem_In. destruct (mem x l); split; intros; congruence. Qed.
Lemma del_In x y l : In y (del x l) <-> In y l /\ y <> x.
Proof. unfold del. rewrite filter_In, negb_true_iff, N.eqb_neq. tauto. Qed.
Lemma remove_ser_In n x l : In x (remove_ser n l) <-> In x l /\ eser x <> n.
Proof. unfold remove_ser. rewrite filter_In, negb_true_iff, N.eqb_neq. tauto. Qed.

Lemma NoDup_map_filter {A B} (f : A -> B) p l : NoDup (map f l) -> NoDup (map f (filter p l)).
Proof.
  induction l; simpl; intros H. constructor. inversion H; subst.
  destruct (p a); simpl; auto. constructor; auto. intros Hin. apply H2.
  apply in_map_iff in Hin. destruct Hin as (x & E & Hx). apply filter_In in Hx.
  apply in_map_iff. exists x; tauto.
Qed.
Lemma NoDup_map_inj {A B} (f : A -> B) l x y :
  NoDup (map f l) -> In x l -> In y l -> f x = f y -> x = y.
Proof.
  induction l; simpl; intros H Hx Hy E. tauto. inversion H; subst.
  destruct Hx, Hy; subst; auto.
  - exfalso. apply H2. rewrite E. apply in_map; auto.
  - exfalso. apply H2. rewrite <- E. apply in_map; auto.
Qed.
Lemma NoDup_snoc {A} (l : list A) a : NoDup (l ++ [a]) <-> NoDup (a :: l).
Proof.
  split; intros H.
  - eapply Permutation_NoDup; [apply Permutation_sym, Permutation_cons_append | exact H].
  - eapply Permutation_NoDup; [apply Permutation_cons_append | exact H].
Qed.
Lemma cons_app_split {A} (x : A) l l1 y l2 :
  x :: l = l1 ++ y :: l2 -> (l1 = [] /\ x = y /\ l2 = l) \/ (exists l1', l1 = x :: l1' /\ l = l1' ++ y :: l2).
Proof.
  destruct l1; simpl; intros E; inversion E; subst; [left; auto | right; eauto].
Qed.

Lemma argmin_none l : argmin l = None -> l = [].
Proof. destruct l; simpl; auto. destruct (argmin l); [destruct (enext e <=? enext e0)|]; discriminate. Qed.
Lemma argmin_some l m : argmin l = Some m -> In m l /\ forall x, In x l -> enext m <= enext x.
Proof.
  revert m; induction l as [|e r IH]; simpl; intros m H. discriminate.
  destruct (argmin r) as [m'|] eqn:E.
  - destruct (IH m' eq_refl) as [Hin Hmin].
    destruct (enext e <=? enext m') eqn:C; inversion H; subst.
    + apply N.leb_le in C. split; auto. intros x [<-|Hx]. lia. specialize (Hmin x Hx). lia.
    + apply N.leb_gt in C. split; auto. intros x [<-|Hx]. lia. auto.
  - inversion H; subst. apply argmin_none in E. subst r.
    split; auto. intros x [<-|[]]. lia.
Qed.

Lemma peek_some s e : peek s = Some e -> In e (q s) /\ forall x, In x (q s) -> enext e <= enext x.
Proof.
  unfold peek. intros H.
  assert (G : forall o, o = Some e -> (o = argmin (q s) \/
             (In e (q s) /\ is_min e (q s) = true)) -> In e (q s) /\ forall x, In x (q s) -> enext e <= enext x).
  { intros o Ho [Ha|[Hin Hm]].
    - subst o. symmetry in Ha. apply argmin_some; auto.
    - split; auto. unfold is_min in Hm. rewrite forallb_forall in Hm. intros x Hx. apply N.leb_le; auto. }
  destruct (hp s) as [|[nx ser] t].
  - apply (G _ H); auto.
  - destruct (find (fun e0 => eser e0 =? ser) (q s)) as [e0|] eqn:F.
    + destruct (is_min e0 (q s)) eqn:M.
      * inversion H; subst. apply find_some in F. destruct F as [F _].
        split; auto. unfold is_min in M. rewrite forallb_forall in M. intros x Hx. apply N.leb_le; auto.
      * apply (G _ H); auto.
    + apply (G _ H); auto.
Qed.
Lemma peek_none s : peek s = None -> q s = [].
Proof.
  unfold peek. intros H. apply argmin_none.
  destruct (hp s) as [|[nx ser] t]; auto.
  destruct (find (fun e0 => eser e0 =? ser) (q s)); auto.
  destruct (is_min e (q s)); auto. discriminate.
Qed.

Section Proofs.
Variable alloc : list N -> N -> N.
Variable pickc : list N -> N -> option N.
Hypothesis alloc_ok : forall live h, ~ In (alloc live h) live /\ alloc live h <> 0.
Hypothesis pickc_ok : forall live h id, pickc live h = Some id -> In id live.

Notation do_reg := (do_reg alloc).
Notation do_action := (do_action alloc pickc).
Notation turn := (turn alloc pickc).
Notation loop := (loop alloc pickc).
Notation do_exec := (do_exec alloc pickc).
Notation step := (step alloc pickc).
Notation run := (run alloc pickc).

(* ------------------------------------------------------------ primitive transitions *)
Inductive prim : state -> state -> Prop :=
| PReg s rep iv h : prim s (do_reg s rep iv h)
| PCancel s id : In id (ids s) -> id <> 0 -> prim s (do_cancel_id s id)
| PAdv s d : prim s (do_advance s d)
| PDrop s e : cur s = None -> In e (q s) -> In (eid e) (removed s) -> prim s (drop (popped s e) e)
| PFire s e now : cur s = None -> In e (q s) -> ~ In (eid e) (removed s) -> enext e <= now ->
                  prim s (begin_fire (popped s e) e now)
| PAgain s e now : cur s = Some e -> erep e = true -> prim s (finish_again s e now)
| PDone s e : cur s = Some e -> prim s (finish_done s e).

Inductive star : state -> state -> Prop :=
| star_refl s : star s s
| star_step s1 s2 s3 : prim s1 s2 -> star s2 s3 -> star s1 s3.
Lemma star_trans a b c : star a b -> star b c -> star a c.
Proof. induction 1; auto. intros. econstructor; eauto. Qed.
Lemma star_one a b : prim a b -> star a b.
Proof. intros. econstructor; eauto. constructor. Qed.

(* do_cancel_id with a live target is a primitive step (or nothing for NULL) *)
Lemma cancel_star s id : In id (ids s) -> star s (do_cancel_id s id).
Proof.
  intros H. destruct (N.eq_dec id 0) as [->|Hn].
  - unfold do_cancel_id. simpl. constructor.
  - apply star_one. constructor; auto.
Qed.

Lemma action_star s a : star s (do_action s a).
Proof.
  destruct a; simpl.
  - destruct (cur s) as [e|] eqn:C. 2: constructor.
    apply cancel_star. unfold ids, evs. rewrite C. rewrite map_app. apply in_or_app. right. simpl; auto.
  - unfold do_cancel. destruct (pickc (ids s) h) eqn:P. 2: constructor.
    apply cancel_star. eapply pickc_ok; eauto.
  - apply star_one. constructor.
  - apply star_one. constructor.
Qed.
Lemma actions_star l : forall s, star s (fold_left do_action l s).
Proof.
  induction l; simpl; intros. constructor.
  eapply star_trans. apply action_star. apply IHl.
Qed.

Lemma cur_cancel s id : cur (do_cancel_id s id) = cur s.
Proof. unfold do_cancel_id. destruct (id =? 0); auto. Qed.
Lemma cur_action s a : cur (do_action s a) = cur s.
Proof.
  destruct a; simpl; auto.
  - destruct (cur s) eqn:C; auto. rewrite cur_cancel; auto.
  - unfold do_cancel. destruct (pickc (ids s) h); auto. apply cur_cancel.
Qed.
Lemma cur_actions l : forall s, cur (fold_left do_action l s) = cur s.
Proof. induction l; simpl; intros; auto. rewrite IHl. apply cur_action. Qed.

(* one turn of the loop is a sequence of primitive steps and leaves no event "current" *)
Lemma turn_star s e now cbs s' now' cbs' :
  cur s = None -> In e (q s) -> enext e <= now ->
  turn s e now cbs = (s', now', cbs') -> star s s' /\ cur s' = None.
Proof.
  intros C Hin Hdue. unfold turn.
  destruct (mem (eid e) (removed (popped s e))) eqn:M.
  - intros E; inversion E; subst. split; [|exact C].
    apply star_one. constructor; auto. apply mem_In in M. exact M.
  - destruct (next_script cbs) as [sc r] eqn:NS. intros E.
    apply mem_nIn in M. simpl in M.
    set (s2 := begin_fire (popped s e) e now) in *.
    assert (P2 : prim s s2) by (constructor; auto).
    set (s3 := fold_left do_action (acts sc) s2) in *.
    assert (C3 : cur s3 = Some e) by (unfold s3; rewrite cur_actions; reflexivity).
    assert (S3 : star s s3).
    { eapply star_step. exact P2. apply actions_star. }
    destruct (erep e && sret sc) eqn:A; inversion E; subst.
    + apply andb_true_iff in A. destruct A as [A _]. split; [|reflexivity].
      eapply star_trans. exact S3. apply star_one. constructor; auto.
    + split; [|reflexivity]. eapply star_trans. exact S3. apply star_one. constructor; auto.
Qed.

Lemma loop_star fuel : forall s now cbs s' now',
  cur s = None -> loop fuel s now cbs = Some (s', now') -> star s s' /\ cur s' = None.
Proof.
  induction fuel; simpl; intros s now cbs s' now' C H. discriminate.
  destruct (peek s) as [e|] eqn:P.
  - destruct (enext e <=? now) eqn:D.
    + destruct (turn s e now cbs) as [[s1 now1] cbs1] eqn:T.
      apply peek_some in P. destruct P as [Hin _]. apply N.leb_le in D.
      destruct (turn_star _ _ _ _ _ _ _ C Hin D T) as [S1 C1].
      destruct (IHfuel _ _ _ _ _ C1 H) as [S2 C2]. split; auto. eapply star_trans; eauto.
    + inversion H; subst. split; auto. constructor.
  - inversion H; subst. split; auto. constructor.
Qed.

Lemma step_star s o s' : cur s = None -> step s o = Some s' -> star s s' /\ cur s' = None.
Proof.
  intros C. destruct o; simpl; intros H.
  - inversion H; subst. split. apply star_one; constructor. exact C.
  - inversion H; subst. unfold do_cancel. destruct (pickc (ids s) h) eqn:P.
    + split. apply cancel_star. eapply pickc_ok; eauto. rewrite cur_cancel; auto.
    + split; auto. constructor.
  - inversion H; subst. split. apply star_one; constructor. exact C.
  - unfold Model.do_exec in H. destruct (loop (fuel_of s cbs) s (clock s) cbs) as [[s1 n1]|] eqn:L; inversion H; subst.
    eapply loop_star; eauto.
Qed.
Lemma run_star ops : forall s s', cur s = None -> run s ops = Some s' -> star s s' /\ cur s' = None.
Proof.
  induction ops; simpl; intros s s' C H.
  - inversion H; subst. split; auto. constructor.
  - destruct (step s a) as [s1|] eqn:S; [|discriminate].
    destruct (step_star _ _ _ C S) as [S1 C1]. destruct (IHops _ _ C1 H). split; auto.
    eapply star_trans; eauto.
Qed.
End Proofs.
