(* C16 part (a): second invariant — single-shot once, repeat until false, no timer lost or disturbed *)
From OlaBase Require Import Bytes.
From C16 Require Import Model Proofs Invariant.
Local Open Scope N_scope.

Section Inv2.
Variable alloc : list N -> N -> N.
Variable pickc : list N -> N -> option N.
Hypothesis alloc_ok : forall live h, ~ In (alloc live h) live /\ alloc live h <> 0.
Notation prim := (prim alloc).
Notation star := (star alloc).

Definition unfired (n : N) (l : list lentry) : Prop := forall e now, In (LFire e now) l -> eser e <> n.

Record Inv2 (s : state) : Prop := {
  j_rep : forall e0 now, In (LFire e0 now) (log s) -> forall e, In e (evs s) -> eser e = eser e0 -> erep e = erep e0;
  j_single_gone : forall e0 now, In (LFire e0 now) (log s) -> erep e0 = false ->
                  forall e, In e (evs s) -> eser e = eser e0 -> cur s = Some e;
  j_single_once : forall l1 l2 e now, log s = l1 ++ LFire e now :: l2 -> erep e = false ->
                  unfired (eser e) (l1 ++ l2);
  j_ret_false : forall n, In (LRet n false) (log s) -> forall e, In e (evs s) -> eser e <> n;
  j_ret_order : forall l1 l2 n, log s = l1 ++ LRet n false :: l2 -> unfired n l1;
  j_cons : forall n, n < nser s ->
           (exists e, In e (evs s) /\ eser e = n) \/ In (LRet n false) (log s) \/
           (exists e, In (LDrop e) (log s) /\ eser e = n);
  j_cur_fired : forall e, cur s = Some e -> exists now, In (LFire e now) (log s);
  j_unfired : forall e0, In (LReg e0) (log s) -> forall e, In e (evs s) -> eser e = eser e0 ->
              unfired (eser e0) (log s) -> e = e0
}.

Lemma inv2_init : Inv2 init.
Proof.
  constructor; simpl.
  - intros e0 now [].
  - intros e0 now [].
  - intros l1 l2 e now E. destruct l1; discriminate.
  - intros n [].
  - intros l1 l2 n E. destruct l1; discriminate.
  - intros n H. lia.
  - discriminate.
  - intros e0 [].
Qed.

Lemma cur_notin_q s e : Inv s -> cur s = Some e -> forall x, In x (q s) -> eser x <> eser e.
Proof.
  intros I C x Hx E. pose proof (i_sers _ I) as H. rewrite (evs_cur s e C), map_app in H.
  apply NoDup_snoc in H. simpl in H. inversion H; subst. apply H2. rewrite <- E. apply in_map; auto.
Qed.

Ltac split_log E := apply cons_app_split in E; destruct E as [(-> & E & ->)|(? & -> & E)].

(* a transition that conses a "neutral" entry (not LFire, not LRet false), keeps cur, and does not
   add events other than a fresh one *)
Lemma inv2_reg s rep iv h : Inv s -> Inv2 s -> Inv2 (do_reg alloc s rep iv h).
Proof.
  intros I J.
  set (e0 := mkEv (alloc (ids s) h) (nser s) (clock s) iv (clock s + iv) rep).
  assert (EV : evs (do_reg alloc s rep iv h) = e0 :: evs s) by reflexivity.
  assert (FR : forall x, In x (log s) -> lser x <> nser s).
  { intros x H. apply (i_loglt _ I) in H. lia. }
  constructor; rewrite ?EV; simpl.
  - intros e1 now [H|H]. discriminate. intros e [<-|He] E.
    + exfalso. apply (FR _ H). simpl. auto.
    + eapply (j_rep _ J); eauto.
  - intros e1 now [H|H]. discriminate. intros S e [<-|He] E.
    + exfalso. apply (FR _ H). simpl. auto.
    + eapply (j_single_gone _ J); eauto.
  - intros l1 l2 e now E S. split_log E. discriminate.
    intros e' now' [H|H]. discriminate. eapply (j_single_once _ J); eauto.
  - intros n H. destruct H as [H|H]. discriminate. intros e [<-|He].
    + simpl. intros <-. apply (FR _ H). reflexivity.
    + eapply (j_ret_false _ J); eauto.
  - intros l1 l2 n E. split_log E. discriminate.
    intros e' now' [H|H]. discriminate. eapply (j_ret_order _ J); eauto.
  - intros n Hn. destruct (N.eq_dec n (nser s)) as [->|Hne].
    + left. exists e0. auto.
    + destruct (j_cons _ J n) as [(e & He & E)|[H|(e & He & E)]]. lia.
      * left; exists e; auto.
      * right; left; auto.
      * right; right; exists e; auto.
  - intros e C. destruct (j_cur_fired _ J e C) as (now & H). exists now; auto.
  - intros e1 [H|H].
    + inversion H; subst e1. intros e [<-|He] E U. reflexivity.
      exfalso. apply (i_lt _ I) in He. simpl in E. lia.
    + intros e [<-|He] E U.
      * exfalso. apply (FR _ H). simpl. auto.
      * eapply (j_unfired _ J); eauto. intros x now Hx. apply (U x now). right; auto.
Qed.

Lemma inv2_cancel s id : In id (ids s) -> id <> 0 -> Inv s -> Inv2 s -> Inv2 (do_cancel_id s id).
Proof.
  intros Hin Hnz I J. destruct (cancel_shape s id Hin Hnz) as (e1 & He1 & Eid & ->).
  constructor; unfold evs; simpl; fold (evs s).
  - intros e0 now [H|H]. discriminate. eapply (j_rep _ J); eauto.
  - intros e0 now [H|H]. discriminate. eapply (j_single_gone _ J); eauto.
  - intros l1 l2 e now E S. split_log E. discriminate.
    intros e' now' [H|H]. discriminate. eapply (j_single_once _ J); eauto.
  - intros n [H|H]. discriminate. eapply (j_ret_false _ J); eauto.
  - intros l1 l2 n E. split_log E. discriminate.
    intros e' now' [H|H]. discriminate. eapply (j_ret_order _ J); eauto.
  - intros n Hn. destruct (j_cons _ J n Hn) as [H|[H|(e & He & E)]]; auto.
    right; right; exists e; auto.
  - intros e C. destruct (j_cur_fired _ J e C) as (now & H). exists now; auto.
  - intros e0 [H|H]. discriminate. intros e He E U. eapply (j_unfired _ J); eauto.
    intros x now Hx. apply (U x now). right; auto.
Qed.

Lemma inv2_adv s d : Inv2 s -> Inv2 (do_advance s d).
Proof. intros J. destruct J. constructor; auto. Qed.

Lemma inv2_drop s e : cur s = None -> In e (q s) -> Inv s -> Inv2 s -> Inv2 (drop (popped s e) e).
Proof.
  intros C Hin I J. pose proof (evs_nocur s C) as EV.
  assert (EV' : evs (drop (popped s e) e) = remove_ser (eser e) (q s)).
  { unfold evs; simpl. rewrite C. apply app_nil_r. }
  assert (SUB : forall x, In x (remove_ser (eser e) (q s)) -> In x (evs s)).
  { intros x Hx. apply remove_ser_In in Hx. rewrite EV. tauto. }
  constructor; rewrite ?EV'; simpl.
  - intros e0 now [H|H]. discriminate. intros x Hx. eapply (j_rep _ J); eauto.
  - intros e0 now [H|H]. discriminate. intros S x Hx. eapply (j_single_gone _ J); eauto.
  - intros l1 l2 x now E S. split_log E. discriminate.
    intros e' now' [H|H]. discriminate. eapply (j_single_once _ J); eauto.
  - intros n [H|H]. discriminate. intros x Hx. eapply (j_ret_false _ J); eauto.
  - intros l1 l2 n E. split_log E. discriminate.
    intros e' now' [H|H]. discriminate. eapply (j_ret_order _ J); eauto.
  - intros n Hn. destruct (j_cons _ J n Hn) as [(x & Hx & E)|[H|(x & Hx & E)]]; auto.
    + destruct (N.eq_dec (eser x) (eser e)) as [E2|E2].
      * right; right. exists e. split; auto. congruence.
      * left. exists x. split; auto. apply remove_ser_In. rewrite EV in Hx. auto.
    + right; right; exists x; auto.
  - rewrite C. discriminate.
  - intros e0 [H|H]. discriminate. intros x Hx E U. eapply (j_unfired _ J); eauto.
    intros y now Hy. apply (U y now). right; auto.
Qed.

Lemma inv2_fire s e now : cur s = None -> In e (q s) -> Inv s -> Inv2 s ->
  Inv2 (begin_fire (popped s e) e now).
Proof.
  intros C Hin I J. pose proof (evs_nocur s C) as EV.
  assert (Hev : In e (evs s)) by (rewrite EV; auto).
  pose proof (fire_evs s e now C Hin I) as FE.
  set (s' := begin_fire (popped s e) e now) in *.
  assert (NOCUR : forall x, cur s = Some x -> False) by (intros x H; rewrite C in H; discriminate).
  constructor; simpl.
  - intros e0 now0 [H|H]; intros x Hx E; apply FE in Hx.
    + injection H as E1 E2; subst e0 now0. f_equal. eapply ser_inj; eauto.
    + eapply (j_rep _ J); eauto.
  - intros e0 now0 [H|H] S x Hx E; apply FE in Hx.
    + injection H as E1 E2; subst e0 now0. f_equal. eapply ser_inj; eauto.
    + exfalso. eapply NOCUR. eapply (j_single_gone _ J); eauto.
  - intros l1 l2 x now0 E S. split_log E.
    + injection E as E1 E2; subst x now0. simpl. intros e' now' H Eq.
      assert (R : erep e = erep e') by (eapply (j_rep _ J); eauto).
      eapply NOCUR. eapply (j_single_gone _ J); eauto; congruence.
    + intros e' now' [H|H].
      * injection H as E1 E2; subst e' now'. intros Eq. eapply NOCUR. eapply (j_single_gone _ J).
        2: exact S. rewrite E. apply in_or_app. right. left. reflexivity. exact Hev. exact Eq.
      * eapply (j_single_once _ J); eauto.
  - intros n [H|H]. discriminate. intros x Hx. apply FE in Hx. eapply (j_ret_false _ J); eauto.
  - intros l1 l2 n E. split_log E. discriminate.
    intros e' now' [H|H].
    + injection H as E1 E2; subst e' now'. eapply (j_ret_false _ J); eauto. rewrite E. apply in_or_app. right. left. reflexivity.
    + eapply (j_ret_order _ J); eauto.
  - intros n Hn. destruct (j_cons _ J n Hn) as [(x & Hx & E)|[H|(x & Hx & E)]]; auto.
    + left. exists x. split; auto. apply FE; auto.
    + right; right; exists x; auto.
  - intros x H. injection H as E1; subst x. exists now. left; reflexivity.
  - intros e0 [H|H]. discriminate. intros x Hx E U. apply FE in Hx. eapply (j_unfired _ J); eauto.
    intros y now' Hy. apply (U y now'). right; auto.
Qed.

Lemma inv2_again s e now : cur s = Some e -> erep e = true -> Inv s -> Inv2 s -> Inv2 (finish_again s e now).
Proof.
  intros C R I J. pose proof (evs_cur s e C) as EV.
  assert (Hev : In e (evs s)) by (rewrite EV; apply in_or_app; right; simpl; auto).
  set (e' := mkEv (eid e) (eser e) now (eint e) (now + eint e) (erep e)).
  assert (EV' : evs (finish_again s e now) = e' :: q s).
  { unfold evs; simpl. rewrite app_nil_r. reflexivity. }
  assert (SUB : forall x, In x (q s) -> In x (evs s)) by (intros; rewrite EV; apply in_or_app; auto).
  pose proof (cur_notin_q s e I C) as NQ.
  constructor; rewrite ?EV'; simpl.
  - intros e0 now0 [H|H]. discriminate. intros x [<-|Hx] E.
    + simpl. eapply (j_rep _ J); eauto.
    + eapply (j_rep _ J); eauto.
  - intros e0 now0 [H|H]. discriminate. intros S x [<-|Hx] E; exfalso.
    + simpl in E. assert (erep e = erep e0) by (eapply (j_rep _ J); eauto). congruence.
    + assert (cur s = Some x) by (eapply (j_single_gone _ J); eauto).
      rewrite C in H0. inversion H0; subst. eapply NQ; eauto.
  - intros l1 l2 x now0 E S. split_log E. discriminate.
    intros y now' [H|H]. discriminate. eapply (j_single_once _ J); eauto.
  - intros n [H|H]. discriminate. intros x [<-|Hx].
    + simpl. eapply (j_ret_false _ J); eauto.
    + eapply (j_ret_false _ J); eauto.
  - intros l1 l2 n E. split_log E. discriminate.
    intros y now' [H|H]. discriminate. eapply (j_ret_order _ J); eauto.
  - intros n Hn. destruct (j_cons _ J n Hn) as [(x & Hx & E)|[H|(x & Hx & E)]]; auto.
    + left. rewrite EV in Hx. apply in_app_or in Hx. destruct Hx as [Hx|[<-|[]]].
      * exists x; auto.
      * exists e'; auto.
    + right; right; exists x; auto.
  - discriminate.
  - intros e0 [H|H]. discriminate. intros x [<-|Hx] E U.
    + exfalso. destruct (j_cur_fired _ J e C) as (now0 & Hf). apply (U e now0). right; auto. exact E.
    + eapply (j_unfired _ J); eauto. intros y now' Hy. apply (U y now'). right; auto.
Qed.

Lemma inv2_done s e : cur s = Some e -> Inv s -> Inv2 s -> Inv2 (finish_done s e).
Proof.
  intros C I J. pose proof (evs_cur s e C) as EV.
  assert (Hev : In e (evs s)) by (rewrite EV; apply in_or_app; right; simpl; auto).
  assert (EV' : evs (finish_done s e) = q s).
  { unfold evs; simpl. apply app_nil_r. }
  assert (SUB : forall x, In x (q s) -> In x (evs s)) by (intros; rewrite EV; apply in_or_app; auto).
  pose proof (cur_notin_q s e I C) as NQ.
  constructor; rewrite ?EV'; simpl.
  - intros e0 now0 [H|H]. discriminate. intros x Hx E. eapply (j_rep _ J); eauto.
  - intros e0 now0 [H|H]. discriminate. intros S x Hx E; exfalso.
    assert (cur s = Some x) by (eapply (j_single_gone _ J); eauto).
    rewrite C in H0. inversion H0; subst. eapply NQ; eauto.
  - intros l1 l2 x now0 E S. split_log E. discriminate.
    intros y now' [H|H]. discriminate. eapply (j_single_once _ J); eauto.
  - intros n [H|H]; intros x Hx.
    + inversion H; subst. apply NQ; auto.
    + eapply (j_ret_false _ J); eauto.
  - intros l1 l2 n E. split_log E.
    + intros y now' [].
    + intros y now' [H|H]. discriminate. eapply (j_ret_order _ J); eauto.
  - intros n Hn. destruct (j_cons _ J n Hn) as [(x & Hx & E)|[H|(x & Hx & E)]]; auto.
    + rewrite EV in Hx. apply in_app_or in Hx. destruct Hx as [Hx|[<-|[]]].
      * left. exists x; auto.
      * right; left. left. subst n. reflexivity.
    + right; right; exists x; auto.
  - discriminate.
  - intros e0 [H|H]. discriminate. intros x Hx E U. eapply (j_unfired _ J); eauto.
    intros y now' Hy. apply (U y now'). right; auto.
Qed.

Lemma prim_inv2 s s' : prim s s' -> Inv s -> Inv2 s -> Inv2 s'.
Proof.
  destruct 1; intros I J.
  - apply inv2_reg; auto.
  - apply inv2_cancel; auto.
  - apply inv2_adv; auto.
  - apply inv2_drop; auto.
  - apply inv2_fire; auto.
  - apply inv2_again; auto.
  - apply inv2_done; auto.
Qed.
Lemma star_inv2 s s' : star s s' -> Inv s -> Inv2 s -> Inv s' /\ Inv2 s'.
Proof.
  induction 1; auto. intros I J. apply IHstar.
  - eapply prim_inv; eauto.
  - eapply prim_inv2; eauto.
Qed.
End Inv2.
