(* C16 part (b): a remote close is reported at most once per descriptor, on both back-end models.
   Token argument: (number of close callbacks logged for d) + (1 if d still holds its single-use
   on_close callback) never exceeds 1. *)
Require Import List Arith Bool NArith Lia.
Import ListNotations.
From C16 Require Import PModel.

Definition p_is_close (d : nat) (e : p_ev) : bool :=
  match le_kind e with PKClose => le_d e =? d | _ => false end.
Definition p_nclose (d : nat) (l : list p_ev) : nat := length (filter (p_is_close d) l).
Definition p_tok (s : p_st) (d : nat) : nat := if st_onclose s d then 1 else 0.
Definition p_once (s : p_st) : Prop := forall d, p_nclose d (st_log s) + p_tok s d <= 1.
Definition p_same (s s' : p_st) : Prop := st_log s' = st_log s /\ st_onclose s' = st_onclose s.

Lemma p_same_refl s : p_same s s. Proof. split; reflexivity. Qed.
Lemma p_same_trans a b c : p_same a b -> p_same b c -> p_same a c.
Proof. intros [A1 A2] [B1 B2]. split; congruence. Qed.
Lemma p_once_same s s' : p_same s s' -> p_once s -> p_once s'.
Proof. intros [A B] Q d. unfold p_tok. rewrite A, B. apply Q. Qed.

Lemma p_same_touch s d : p_same s (p_touch s d).
Proof. unfold p_touch. destruct (st_del s d); split; reflexivity. Qed.

Lemma p_same_add_r c s d : p_same s (fst (p_add_r c s d)).
Proof.
  unfold p_add_r. simpl. destruct (st_be s).
  - destruct (p_ep_add_r c (st_ep s) d). split; reflexivity.
  - destruct (p_sel_add_r c (st_sel s) d). split; reflexivity.
Qed.
Lemma p_same_add_w c s d : p_same s (fst (p_add_w c s d)).
Proof.
  unfold p_add_w. simpl. destruct (st_be s).
  - destruct (p_ep_add_w (st_ep s) d). split; reflexivity.
  - destruct (p_sel_add_w (st_sel s) d). split; reflexivity.
Qed.
Lemma p_same_rem_r c s d : p_same s (fst (p_rem_r c s d)).
Proof.
  unfold p_rem_r. simpl. destruct (st_be s).
  - destruct (p_ep_remove (st_ep s) d false). split; reflexivity.
  - destruct (p_sel_rem_r c (st_sel s) d). split; reflexivity.
Qed.
Lemma p_same_rem_w c s d : p_same s (fst (p_rem_w c s d)).
Proof.
  unfold p_rem_w. simpl. destruct (st_be s).
  - destruct (p_ep_remove (st_ep s) d true). split; reflexivity.
  - destruct (p_sel_rem_w (st_sel s) d). split; reflexivity.
Qed.
Lemma p_same_exec_act c s a : p_same s (p_exec_act c s a).
Proof.
  unfold p_exec_act. destruct (st_del s (p_act_target a)). apply p_same_refl.
  destruct a; [apply p_same_add_r|apply p_same_add_w|apply p_same_rem_r|apply p_same_rem_w].
Qed.
Lemma p_same_exec_acts c l : forall s, p_same s (p_exec_acts c s l).
Proof.
  unfold p_exec_acts. induction l; simpl; intros. apply p_same_refl.
  eapply p_same_trans. apply p_same_exec_act. apply IHl.
Qed.

Lemma p_once_cons_nonclose s s' e :
  le_kind e <> PKClose -> st_log s' = e :: st_log s -> st_onclose s' = st_onclose s -> p_once s -> p_once s'.
Proof.
  intros K A B Q d. unfold p_tok, p_nclose. rewrite A, B. simpl.
  unfold p_is_close at 1. destruct (le_kind e); try congruence; apply Q.
Qed.

Lemma p_once_invoke_nonclose c s d k : k <> PKClose -> p_once s -> p_once (p_invoke c s d k).
Proof.
  intros K Q. unfold p_invoke. destruct (st_del s d).
  - eapply p_once_same; [|exact Q]. split; reflexivity.
  - destruct k; try congruence.
    + eapply p_once_same. apply p_same_exec_acts.
      eapply p_once_cons_nonclose; [ | simpl; reflexivity | simpl; reflexivity | exact Q]; simpl; discriminate.
    + eapply p_once_same. apply p_same_exec_acts.
      eapply p_once_cons_nonclose; [ | simpl; reflexivity | simpl; reflexivity | exact Q]; simpl; discriminate.
Qed.

(* TransferOnClose(); if (on_close) on_close->Run() *)
Lemma p_once_close_path c s d :
  p_once s ->
  p_once (let had := st_onclose s d in
          let s1 := p_set_onclose s (p_upd (st_onclose s) d false) in
          if had then p_invoke c s1 d PKClose else s1).
Proof.
  intros Q. simpl. destruct (st_onclose s d) eqn:H.
  - unfold p_invoke. simpl. destruct (st_del s d).
    + intros x. specialize (Q x). unfold p_tok in *. simpl. unfold p_upd.
      destruct (x =? d); [lia|]. exact Q.
    + eapply p_once_same. apply p_same_exec_acts.
      intros x. specialize (Q x). unfold p_tok, p_nclose in *. simpl.
      unfold p_is_close at 1. simpl. unfold p_upd. rewrite (Nat.eqb_sym d x).
      destruct (x =? d) eqn:E.
      * apply Nat.eqb_eq in E. subst x. rewrite H in Q. simpl. lia.
      * exact Q.
  - intros x. specialize (Q x). unfold p_tok in *. simpl. unfold p_upd.
    destruct (x =? d) eqn:E; [|exact Q]. apply Nat.eqb_eq in E. subst x. rewrite H in Q. lia.
Qed.

Lemma p_once_fold {A} (f : p_st -> A -> p_st) l :
  (forall s a, p_once s -> p_once (f s a)) -> forall s, p_once s -> p_once (fold_left f l s).
Proof. intro H. induction l; simpl; intros; auto. Qed.

(* ---------- EPoller ---------- *)
Lemma p_once_ep_close c s id d : p_once s -> p_once (p_ep_close c s id d).
Proof.
  intros Q. unfold p_ep_close.
  assert (Q0 : p_once (p_touch s d)) by (eapply p_once_same; [apply p_same_touch|exact Q]).
  pose proof (p_once_close_path c (p_touch s d) d Q0) as Q1. simpl in Q1.
  set (s1 := if st_onclose (p_touch s d) d
             then p_invoke c (p_set_onclose (p_touch s d) (p_upd (st_onclose (p_touch s d)) d false)) d PKClose
             else p_set_onclose (p_touch s d) (p_upd (st_onclose (p_touch s d)) d false)) in *.
  clearbody s1.
  destruct (e_cd (ep_obj (st_ep s1) id)) as [d2|]; [|exact Q1].
  destruct (e_doc (ep_obj (st_ep s1) id)); [|exact Q1].
  pose proof (p_same_touch s1 d2) as T2. set (s2 := p_touch s1 d2) in *. clearbody s2.
  destruct (p_ep_remove (st_ep s2) d2 false) as [e r].
  eapply p_once_same; [|exact Q1].
  eapply p_same_trans. exact T2.
  simpl. destruct (e_cd (ep_obj e id)) as [d3|].
  - unfold p_touch. simpl. destruct (st_del s2 d3); split; reflexivity.
  - split; reflexivity.
Qed.

Lemma p_once_ep_check c s ev : p_once s -> p_once (p_ep_check c s ev).
Proof.
  intros Q. unfold p_ep_check. destruct ev as [id fl].
  assert (NR : PKRead <> PKClose) by discriminate. assert (NW : PKWrite <> PKClose) by discriminate.
  set (sf := if f_hup fl then _ else _).
  assert (Q1 : p_once (fst sf)).
  { unfold sf. destruct (f_hup fl); [|exact Q].
    destruct (e_rd (ep_obj (st_ep s) id)). simpl. apply p_once_invoke_nonclose; auto.
    destruct (e_cd (ep_obj (st_ep s) id)).
    - simpl. assert (Q0 : p_once (p_touch s n)) by (eapply p_once_same; [apply p_same_touch|exact Q]).
      destruct (p_has_data (p_touch s n) n).
      apply p_once_invoke_nonclose; auto. apply p_once_ep_close; auto.
    - destruct (e_wd (ep_obj (st_ep s) id)); simpl; [|exact Q]. apply p_once_invoke_nonclose; auto. }
  destruct sf as [s1 fl1]. simpl in Q1.
  assert (Q2 : p_once (if f_in fl1
                       then match e_rd (ep_obj (st_ep s1) id), e_cd (ep_obj (st_ep s1) id) with
                            | Some d, _ => p_invoke c s1 d PKRead
                            | None, Some d => p_invoke c s1 d PKRead
                            | None, None => s1 end
                       else s1)).
  { destruct (f_in fl1); [|exact Q1].
    destruct (e_rd (ep_obj (st_ep s1) id)). apply p_once_invoke_nonclose; auto.
    destruct (e_cd (ep_obj (st_ep s1) id)); [|exact Q1]. apply p_once_invoke_nonclose; auto. }
  match goal with |- p_once (if f_out fl1 then match e_wd (ep_obj (st_ep ?s2) id) with _ => _ end else _) =>
    set (s2v := s2) in * end.
  destruct (f_out fl1); [|exact Q2].
  destruct (e_wd (ep_obj (st_ep s2v) id)); [|exact Q2]. apply p_once_invoke_nonclose; auto.
Qed.

Lemma p_once_ep_poll c s desc : p_once s -> p_once (p_ep_poll c s desc).
Proof.
  intros Q. unfold p_ep_poll.
  destruct (p_ep_batch c s (if desc then rev (seq 0 (length c)) else seq 0 (length c))); [exact Q|].
  eapply p_once_same; [split; reflexivity|].
  apply p_once_fold; auto. intros. apply p_once_ep_check; auto.
Qed.

(* ---------- SelectPoller ---------- *)
Lemma p_once_sel_prepare c s : p_once s -> p_once (p_sel_prepare c s).
Proof.
  intros Q. unfold p_sel_prepare. apply p_once_fold.
  - intros s0 d Q0. destruct ((p_is_pres (s_c (st_sel s0) d) || p_is_pres (s_w (st_sel s0) d)) && st_del s0 d); auto.
  - eapply p_once_same; [split; reflexivity|exact Q].
Qed.
Lemma p_once_sel_read_step c rset s d : p_once s -> p_once (p_sel_read_step c rset s d).
Proof.
  intros Q. unfold p_sel_read_step. destruct (p_is_pres (s_r (st_sel s) d) && rset d); auto.
  apply p_once_invoke_nonclose; auto. discriminate.
Qed.
Lemma p_once_sel_write_step c wset s d : p_once s -> p_once (p_sel_write_step c wset s d).
Proof.
  intros Q. unfold p_sel_write_step. destruct (p_is_pres (s_w (st_sel s) d)); auto.
  assert (Q0 : p_once (p_touch s d)) by (eapply p_once_same; [apply p_same_touch|exact Q]).
  destruct (wset d); auto. apply p_once_invoke_nonclose; auto. discriminate.
Qed.
Lemma p_once_sel_conn_step c rset s d : p_once s -> p_once (p_sel_conn_step c rset s d).
Proof.
  intros Q. unfold p_sel_conn_step. destruct (p_is_pres (s_c (st_sel s) d)); auto.
  assert (Q0 : p_once (p_touch s d)) by (eapply p_once_same; [apply p_same_touch|exact Q]).
  set (s0 := p_touch s d) in *. clearbody s0.
  destruct (rset d); auto.
  destruct (negb (p_has_data s0 d)).
  2:{ apply p_once_invoke_nonclose; auto. discriminate. }
  (* close path: the tombstoning p_set_sel sits between TransferOnClose and Run *)
  set (s1 := p_set_onclose s0 (p_upd (st_onclose s0) d false)).
  set (t := st_sel s1).
  set (s2 := p_set_sel s1 (Build_p_sel (s_r t) (p_upd (s_c t) d STomb) (s_cdoc t) (s_w t))).
  assert (Q3 : p_once (if st_onclose s0 d then p_invoke c s2 d PKClose else s2)).
  { pose proof (p_once_close_path c
       (p_set_sel s0 (Build_p_sel (s_r (st_sel s0)) (p_upd (s_c (st_sel s0)) d STomb) (s_cdoc (st_sel s0)) (s_w (st_sel s0)))) d) as X.
    simpl in X. apply X. eapply p_once_same; [split; reflexivity|exact Q0]. }
  set (s3 := if st_onclose s0 d then p_invoke c s2 d PKClose else s2) in *. clearbody s3.
  destruct (s_cdoc t d); auto.
  eapply p_once_same; [|exact Q3].
  unfold p_touch. destruct (st_del s3 d); split; reflexivity.
Qed.
Lemma p_once_sel_poll c s : p_once s -> p_once (p_sel_poll c s).
Proof.
  intros Q. unfold p_sel_poll. pose proof (p_once_sel_prepare c s Q) as Q1.
  set (s1 := p_sel_prepare c s) in *. clearbody s1.
  match goal with |- p_once (if ?b then _ else _) => destruct b end; auto.
  apply p_once_fold. intros; apply p_once_sel_write_step; auto.
  apply p_once_fold. intros; apply p_once_sel_conn_step; auto.
  apply p_once_fold. intros; apply p_once_sel_read_step; auto.
  exact Q1.
Qed.

(* ---------- runs ---------- *)
Lemma p_once_step c s o : p_once s -> p_once (p_step c s o).
Proof.
  intros Q. unfold p_step. eapply p_once_same; [split; reflexivity|].
  destruct o.
  - destruct (st_del s d); auto. pose proof (p_same_add_r c s d) as X. destruct (p_add_r c s d) as [s' r].
    simpl in X. eapply p_once_same; [|exact Q]. destruct X. split; simpl; auto.
  - destruct (st_del s d); auto. pose proof (p_same_add_w c s d) as X. destruct (p_add_w c s d) as [s' r].
    simpl in X. eapply p_once_same; [|exact Q]. destruct X. split; simpl; auto.
  - destruct (st_del s d); auto. pose proof (p_same_rem_r c s d) as X. destruct (p_rem_r c s d) as [s' r].
    simpl in X. eapply p_once_same; [|exact Q]. destruct X. split; simpl; auto.
  - destruct (st_del s d); auto. pose proof (p_same_rem_w c s d) as X. destruct (p_rem_w c s d) as [s' r].
    simpl in X. eapply p_once_same; [|exact Q]. destruct X. split; simpl; auto.
  - destruct (st_del s d || st_closed s d); auto.
  - destruct (st_del s d); auto.
  - destruct (st_be s). apply p_once_ep_poll; auto. apply p_once_sel_poll; auto.
Qed.

Lemma p_once_init be c : p_once (p_init be c).
Proof. intros d. unfold p_tok, p_nclose. simpl. destruct (pc_conn (p_get c d)); lia. Qed.

Lemma p_once_run be c ops : p_once (p_run be c ops).
Proof.
  unfold p_run. generalize (p_once_init be c). generalize (p_init be c).
  induction ops; simpl; intros; auto. apply IHops. apply p_once_step; auto.
Qed.

Lemma p_nclose_rev d l : p_nclose d (rev l) = p_nclose d l.
Proof.
  unfold p_nclose. induction l; simpl; auto.
  rewrite filter_app, app_length, IHl. simpl. destruct (p_is_close d a); simpl; lia.
Qed.

Lemma p_close_at_most_once be c ops d : p_nclose d (p_log (p_run be c ops)) <= 1.
Proof.
  unfold p_log. rewrite p_nclose_rev. pose proof (p_once_run be c ops d). lia.
Qed.

(* ====================================================================================================
   A close is reported only when no byte sent before it is still queued: every close entry of the log
   carries (ghost) the bytes pending at that moment, and that list is always empty. *)
Definition p_cok (s : p_st) : Prop :=
  forall e, In e (st_log s) -> le_kind e = PKClose -> le_bytes e = [].

Lemma p_cok_same s s' : st_log s' = st_log s -> p_cok s -> p_cok s'.
Proof. intros A Q e. rewrite A. apply Q. Qed.
Lemma p_same_log s s' : p_same s s' -> st_log s' = st_log s.
Proof. intros [A _]; exact A. Qed.
Lemma p_pend_touch s d x : st_pend (p_touch s d) x = st_pend s x.
Proof. unfold p_touch. destruct (st_del s d); reflexivity. Qed.
Lemma p_nodata s d : p_has_data s d = false -> st_pend s d = [].
Proof. unfold p_has_data. destruct (st_pend s d); [reflexivity|discriminate]. Qed.

Lemma p_cok_invoke_nonclose c s d k : k <> PKClose -> p_cok s -> p_cok (p_invoke c s d k).
Proof.
  intros K Q. unfold p_invoke. destruct (st_del s d).
  - eapply p_cok_same; [|exact Q]. reflexivity.
  - destruct k; try congruence.
    + eapply p_cok_same. apply p_same_log, p_same_exec_acts.
      intros e [<-|H]; simpl. discriminate. apply Q; auto.
    + eapply p_cok_same. apply p_same_log, p_same_exec_acts.
      intros e [<-|H]; simpl. discriminate. apply Q; auto.
Qed.

Lemma p_cok_close_path c s d :
  st_pend s d = [] -> p_cok s ->
  p_cok (let had := st_onclose s d in
         let s1 := p_set_onclose s (p_upd (st_onclose s) d false) in
         if had then p_invoke c s1 d PKClose else s1).
Proof.
  intros P Q. simpl. destruct (st_onclose s d).
  - unfold p_invoke. simpl. destruct (st_del s d).
    + eapply p_cok_same; [|exact Q]. reflexivity.
    + eapply p_cok_same. apply p_same_log, p_same_exec_acts.
      intros e [<-|H]; simpl. intros _. exact P. apply Q; auto.
  - eapply p_cok_same; [|exact Q]. reflexivity.
Qed.

Lemma p_cok_fold {A} (f : p_st -> A -> p_st) l :
  (forall s a, p_cok s -> p_cok (f s a)) -> forall s, p_cok s -> p_cok (fold_left f l s).
Proof. intro H. induction l; simpl; intros; auto. Qed.

Lemma p_cok_ep_close c s id d : st_pend s d = [] -> p_cok s -> p_cok (p_ep_close c s id d).
Proof.
  intros P Q. unfold p_ep_close.
  assert (Q0 : p_cok (p_touch s d)) by (eapply p_cok_same; [apply p_same_log, p_same_touch|exact Q]).
  assert (P0 : st_pend (p_touch s d) d = []) by (rewrite p_pend_touch; exact P).
  pose proof (p_cok_close_path c (p_touch s d) d P0 Q0) as Q1. simpl in Q1.
  set (s1 := if st_onclose (p_touch s d) d
             then p_invoke c (p_set_onclose (p_touch s d) (p_upd (st_onclose (p_touch s d)) d false)) d PKClose
             else p_set_onclose (p_touch s d) (p_upd (st_onclose (p_touch s d)) d false)) in *.
  clearbody s1.
  destruct (e_cd (ep_obj (st_ep s1) id)) as [d2|]; [|exact Q1].
  destruct (e_doc (ep_obj (st_ep s1) id)); [|exact Q1].
  pose proof (p_same_touch s1 d2) as T2. set (s2 := p_touch s1 d2) in *. clearbody s2.
  destruct (p_ep_remove (st_ep s2) d2 false) as [e r].
  eapply p_cok_same; [|exact Q1].
  transitivity (st_log s2); [|apply p_same_log; exact T2].
  simpl. destruct (e_cd (ep_obj e id)) as [d3|].
  - unfold p_touch. simpl. destruct (st_del s2 d3); reflexivity.
  - reflexivity.
Qed.

Lemma p_cok_ep_check c s ev : p_cok s -> p_cok (p_ep_check c s ev).
Proof.
  intros Q. unfold p_ep_check. destruct ev as [id fl].
  assert (NR : PKRead <> PKClose) by discriminate. assert (NW : PKWrite <> PKClose) by discriminate.
  set (sf := if f_hup fl then _ else _).
  assert (Q1 : p_cok (fst sf)).
  { unfold sf. destruct (f_hup fl); [|exact Q].
    destruct (e_rd (ep_obj (st_ep s) id)). simpl. apply p_cok_invoke_nonclose; auto.
    destruct (e_cd (ep_obj (st_ep s) id)).
    - simpl. assert (Q0 : p_cok (p_touch s n)) by (eapply p_cok_same; [apply p_same_log, p_same_touch|exact Q]).
      destruct (p_has_data (p_touch s n) n) eqn:HD.
      apply p_cok_invoke_nonclose; auto. apply p_cok_ep_close; auto. apply p_nodata; auto.
    - destruct (e_wd (ep_obj (st_ep s) id)); simpl; [|exact Q]. apply p_cok_invoke_nonclose; auto. }
  destruct sf as [s1 fl1]. simpl in Q1.
  assert (Q2 : p_cok (if f_in fl1
                      then match e_rd (ep_obj (st_ep s1) id), e_cd (ep_obj (st_ep s1) id) with
                           | Some d, _ => p_invoke c s1 d PKRead
                           | None, Some d => p_invoke c s1 d PKRead
                           | None, None => s1 end
                      else s1)).
  { destruct (f_in fl1); [|exact Q1].
    destruct (e_rd (ep_obj (st_ep s1) id)). apply p_cok_invoke_nonclose; auto.
    destruct (e_cd (ep_obj (st_ep s1) id)); [|exact Q1]. apply p_cok_invoke_nonclose; auto. }
  match goal with |- p_cok (if f_out fl1 then match e_wd (ep_obj (st_ep ?s2) id) with _ => _ end else _) =>
    set (s2v := s2) in * end.
  destruct (f_out fl1); [|exact Q2].
  destruct (e_wd (ep_obj (st_ep s2v) id)); [|exact Q2]. apply p_cok_invoke_nonclose; auto.
Qed.

Lemma p_cok_ep_poll c s desc : p_cok s -> p_cok (p_ep_poll c s desc).
Proof.
  intros Q. unfold p_ep_poll.
  destruct (p_ep_batch c s (if desc then rev (seq 0 (length c)) else seq 0 (length c))); [exact Q|].
  eapply p_cok_same; [reflexivity|].
  apply p_cok_fold; auto. intros. apply p_cok_ep_check; auto.
Qed.

Lemma p_cok_sel_prepare c s : p_cok s -> p_cok (p_sel_prepare c s).
Proof.
  intros Q. unfold p_sel_prepare. apply p_cok_fold.
  - intros s0 d Q0. destruct ((p_is_pres (s_c (st_sel s0) d) || p_is_pres (s_w (st_sel s0) d)) && st_del s0 d); auto.
  - eapply p_cok_same; [reflexivity|exact Q].
Qed.
Lemma p_cok_sel_read_step c rset s d : p_cok s -> p_cok (p_sel_read_step c rset s d).
Proof.
  intros Q. unfold p_sel_read_step. destruct (p_is_pres (s_r (st_sel s) d) && rset d); auto.
  apply p_cok_invoke_nonclose; auto. discriminate.
Qed.
Lemma p_cok_sel_write_step c wset s d : p_cok s -> p_cok (p_sel_write_step c wset s d).
Proof.
  intros Q. unfold p_sel_write_step. destruct (p_is_pres (s_w (st_sel s) d)); auto.
  assert (Q0 : p_cok (p_touch s d)) by (eapply p_cok_same; [apply p_same_log, p_same_touch|exact Q]).
  destruct (wset d); auto. apply p_cok_invoke_nonclose; auto. discriminate.
Qed.
Lemma p_cok_sel_conn_step c rset s d : p_cok s -> p_cok (p_sel_conn_step c rset s d).
Proof.
  intros Q. unfold p_sel_conn_step. destruct (p_is_pres (s_c (st_sel s) d)); auto.
  assert (Q0 : p_cok (p_touch s d)) by (eapply p_cok_same; [apply p_same_log, p_same_touch|exact Q]).
  set (s0 := p_touch s d) in *. clearbody s0.
  destruct (rset d); auto.
  destruct (negb (p_has_data s0 d)) eqn:HD.
  2:{ apply p_cok_invoke_nonclose; auto. discriminate. }
  apply negb_true_iff in HD. apply p_nodata in HD.
  set (s1 := p_set_onclose s0 (p_upd (st_onclose s0) d false)).
  set (t := st_sel s1).
  set (s2 := p_set_sel s1 (Build_p_sel (s_r t) (p_upd (s_c t) d STomb) (s_cdoc t) (s_w t))).
  assert (Q3 : p_cok (if st_onclose s0 d then p_invoke c s2 d PKClose else s2)).
  { pose proof (p_cok_close_path c
       (p_set_sel s0 (Build_p_sel (s_r (st_sel s0)) (p_upd (s_c (st_sel s0)) d STomb) (s_cdoc (st_sel s0)) (s_w (st_sel s0)))) d) as X.
    simpl in X. apply X. exact HD. eapply p_cok_same; [reflexivity|exact Q0]. }
  set (s3 := if st_onclose s0 d then p_invoke c s2 d PKClose else s2) in *. clearbody s3.
  destruct (s_cdoc t d); auto.
  eapply p_cok_same; [|exact Q3].
  unfold p_touch. destruct (st_del s3 d); reflexivity.
Qed.
Lemma p_cok_sel_poll c s : p_cok s -> p_cok (p_sel_poll c s).
Proof.
  intros Q. unfold p_sel_poll. pose proof (p_cok_sel_prepare c s Q) as Q1.
  set (s1 := p_sel_prepare c s) in *. clearbody s1.
  match goal with |- p_cok (if ?b then _ else _) => destruct b end; auto.
  apply p_cok_fold. intros; apply p_cok_sel_write_step; auto.
  apply p_cok_fold. intros; apply p_cok_sel_conn_step; auto.
  apply p_cok_fold. intros; apply p_cok_sel_read_step; auto.
  exact Q1.
Qed.

Lemma p_cok_step c s o : p_cok s -> p_cok (p_step c s o).
Proof.
  intros Q. unfold p_step. eapply p_cok_same; [reflexivity|].
  destruct o.
  - destruct (st_del s d); auto. pose proof (p_same_add_r c s d) as X. destruct (p_add_r c s d) as [s' r].
    simpl in X. eapply p_cok_same; [|exact Q]. destruct X. simpl; auto.
  - destruct (st_del s d); auto. pose proof (p_same_add_w c s d) as X. destruct (p_add_w c s d) as [s' r].
    simpl in X. eapply p_cok_same; [|exact Q]. destruct X. simpl; auto.
  - destruct (st_del s d); auto. pose proof (p_same_rem_r c s d) as X. destruct (p_rem_r c s d) as [s' r].
    simpl in X. eapply p_cok_same; [|exact Q]. destruct X. simpl; auto.
  - destruct (st_del s d); auto. pose proof (p_same_rem_w c s d) as X. destruct (p_rem_w c s d) as [s' r].
    simpl in X. eapply p_cok_same; [|exact Q]. destruct X. simpl; auto.
  - destruct (st_del s d || st_closed s d); auto.
  - destruct (st_del s d); auto.
  - destruct (st_be s). apply p_cok_ep_poll; auto. apply p_cok_sel_poll; auto.
Qed.

Lemma p_cok_run be c ops : p_cok (p_run be c ops).
Proof.
  unfold p_run. assert (Q : p_cok (p_init be c)) by (intros e []).
  revert Q. generalize (p_init be c).
  induction ops; simpl; intros; auto. apply IHops. apply p_cok_step; auto.
Qed.

Lemma p_close_after_data be c ops e :
  In e (p_log (p_run be c ops)) -> le_kind e = PKClose -> le_bytes e = [].
Proof. unfold p_log. rewrite <- in_rev. apply p_cok_run. Qed.

(* the read callback delivers exactly a prefix of what is queued and removes it from the queue *)
Lemma p_read_delivers c s d :
  st_del s d = false ->
  exists l2, st_log (p_invoke c s d PKRead) =
             l2 ++ Build_p_ev (st_opix s) d PKRead (firstn (pc_rk (p_get c d)) (st_pend s d)) (st_regr s d) :: st_log s
             /\ l2 = [] /\
             st_pend (p_invoke c s d PKRead) d = skipn (pc_rk (p_get c d)) (st_pend s d).
Proof.
  intros D. unfold p_invoke. rewrite D. exists []. simpl.
  set (s2 := p_set_log _ _).
  pose proof (p_same_exec_acts c (pc_rs (p_get c d)) s2) as [A _].
  split; [exact A|]. split; [reflexivity|].
  assert (G : forall l s0, st_pend (p_exec_acts c s0 l) = st_pend s0).
  { unfold p_exec_acts. induction l; simpl; intros; auto. rewrite IHl.
    unfold p_exec_act. destruct (st_del s0 (p_act_target a)); auto.
    destruct a; simpl.
    - unfold p_add_r. simpl. destruct (st_be s0).
      destruct (p_ep_add_r c (st_ep s0) d0); reflexivity. destruct (p_sel_add_r c (st_sel s0) d0); reflexivity.
    - unfold p_add_w. simpl. destruct (st_be s0).
      destruct (p_ep_add_w (st_ep s0) d0); reflexivity. destruct (p_sel_add_w (st_sel s0) d0); reflexivity.
    - unfold p_rem_r. simpl. destruct (st_be s0).
      destruct (p_ep_remove (st_ep s0) d0 false); reflexivity. destruct (p_sel_rem_r c (st_sel s0) d0); reflexivity.
    - unfold p_rem_w. simpl. destruct (st_be s0).
      destruct (p_ep_remove (st_ep s0) d0 true); reflexivity. destruct (p_sel_rem_w (st_sel s0) d0); reflexivity. }
  rewrite G. unfold s2. simpl. unfold p_upd. rewrite Nat.eqb_refl. reflexivity.
Qed.
