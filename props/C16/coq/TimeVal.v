(* C16 part (a): struct-level arithmetic of ola::TimeInterval / TimeStamp (common/utils/Clock.cpp, BaseTimeVal on a
   struct timeval) for every way an interval handed to Register{Single,Repeating}Timeout can be built, and the
   justification for modelling time as a number of microseconds. *)
From Coq Require Import ZArith Lia List Bool.
Local Open Scope Z_scope.

Definition USEC : Z := 1000000.   (* USEC_IN_SECONDS, pinned in c16_consts *)
Record tv := mkTv { tsec : Z; tusec : Z }.
Definition tv_norm (t : tv) : Prop := 0 <= tsec t /\ 0 <= tusec t < USEC.
Definition tv_us (t : tv) : Z := tsec t * USEC + tusec t.                    (* AsInt() *)

Definition tv_of_us (us : Z) : tv := mkTv (Z.quot us USEC) (Z.rem us USEC).   (* Set(int64_t): C division *)
(* BaseTimeVal(int32_t sec, int32_t usec), with fix 04: whole seconds of usec are folded into tv_sec (C division) *)
Definition tv_of_pair (s u : Z) : tv := mkTv (s + Z.quot u USEC) (Z.rem u USEC).
(* the constructor before fix 04 stored its arguments as given *)
Definition tv_of_pair_before_fix (s u : Z) : tv := mkTv s u.
Definition tv_of_ms (ms : Z) : tv := mkTv (Z.quot ms 1000) (Z.rem ms 1000 * 1000).  (* SelectServer ms overloads *)
Definition tv_add (a b : tv) : tv :=                                          (* TimerAdd *)
  let s := tsec a + tsec b in let u := tusec a + tusec b in
  if USEC <=? u then mkTv (s + 1) (u - USEC) else mkTv s u.
Definition tv_mul (a : tv) (i : Z) : tv := tv_of_us (tv_us a * i).            (* operator*(unsigned int) *)
Definition tv_leb (a b : tv) : bool :=                                        (* timercmp(a, b, <=) *)
  (tsec a <? tsec b) || ((tsec a =? tsec b) && (tusec a <=? tusec b)).

(* interval expressions, as the harness builds them with the real constructors and operators *)
Inductive iexp := IUs (us : Z) | IPair (s u : Z) | IMs (ms : Z) | IAdd (a b : iexp) | IMul (a : iexp) (k : Z).
Fixpoint ieval (e : iexp) : tv :=
  match e with
  | IUs us => tv_of_us us | IPair s u => tv_of_pair s u | IMs ms => tv_of_ms ms
  | IAdd a b => tv_add (ieval a) (ieval b) | IMul a k => tv_mul (ieval a) k
  end.
Fixpoint idenote (e : iexp) : Z :=
  match e with
  | IUs us => us | IPair s u => s * USEC + u | IMs ms => 1000 * ms
  | IAdd a b => idenote a + idenote b | IMul a k => idenote a * k
  end.
(* the arguments respect the constructors' contracts: non-negative (a microsecond argument of one second or more is
   fine; NEGATIVE arguments are outside the contract: C division then leaves a negative tv_usec) *)
Fixpoint iwf (e : iexp) : Prop :=
  match e with
  | IUs us => 0 <= us | IPair s u => 0 <= s /\ 0 <= u | IMs ms => 0 <= ms
  | IAdd a b => iwf a /\ iwf b | IMul a k => iwf a /\ 0 <= k
  end.

Lemma tv_of_us_ok us : 0 <= us -> tv_norm (tv_of_us us) /\ tv_us (tv_of_us us) = us.
Proof.
  intros H. unfold tv_norm, tv_us, tv_of_us, USEC. cbn [tsec tusec].
  rewrite Z.quot_div_nonneg, Z.rem_mod_nonneg by lia.
  pose proof (Z.div_mod us 1000000 ltac:(lia)) as D. pose proof (Z.mod_pos_bound us 1000000 ltac:(lia)) as M.
  assert (P : 0 <= us / 1000000) by (apply Z.div_pos; lia).
  repeat split; try lia.
Qed.
Lemma tv_of_ms_ok ms : 0 <= ms -> tv_norm (tv_of_ms ms) /\ tv_us (tv_of_ms ms) = 1000 * ms.
Proof.
  intros H. unfold tv_norm, tv_us, tv_of_ms, USEC. cbn [tsec tusec].
  rewrite Z.quot_div_nonneg, Z.rem_mod_nonneg by lia.
  pose proof (Z.div_mod ms 1000 ltac:(lia)) as D. pose proof (Z.mod_pos_bound ms 1000 ltac:(lia)) as M.
  assert (P : 0 <= ms / 1000) by (apply Z.div_pos; lia).
  repeat split; try lia; try nia.
Qed.
Lemma tv_add_ok a b : tv_norm a -> tv_norm b -> tv_norm (tv_add a b) /\ tv_us (tv_add a b) = tv_us a + tv_us b.
Proof.
  unfold tv_norm, tv_us, tv_add, USEC. intros [A1 A2] [B1 B2].
  destruct (1000000 <=? tusec a + tusec b) eqn:E; simpl.
  - apply Z.leb_le in E. lia.
  - apply Z.leb_gt in E. lia.
Qed.
Lemma tv_mul_ok a i : tv_norm a -> 0 <= i -> tv_norm (tv_mul a i) /\ tv_us (tv_mul a i) = tv_us a * i.
Proof.
  intros [A1 A2] I. unfold tv_mul. apply tv_of_us_ok. unfold tv_us, USEC in *. nia.
Qed.
Lemma tv_leb_ok a b : tv_norm a -> tv_norm b -> (tv_leb a b = true <-> tv_us a <= tv_us b).
Proof.
  unfold tv_norm, tv_us, tv_leb, USEC. intros [A1 A2] [B1 B2].
  rewrite orb_true_iff, andb_true_iff, Z.ltb_lt, Z.eqb_eq, Z.leb_le. split; [intros [H|[H1 H2]]|intros H]; try nia.
Qed.

Lemma ieval_ok e : iwf e -> tv_norm (ieval e) /\ tv_us (ieval e) = idenote e /\ 0 <= idenote e.
Proof.
  induction e; cbn [ieval idenote iwf]; intros W.
  - destruct (tv_of_us_ok us W). auto.
  - destruct W as [A B]. unfold tv_norm, tv_us, tv_of_pair, USEC in *. cbn [tsec tusec].
    rewrite Z.quot_div_nonneg, Z.rem_mod_nonneg by lia.
    pose proof (Z.div_mod u 1000000 ltac:(lia)) as D. pose proof (Z.mod_pos_bound u 1000000 ltac:(lia)) as M.
    assert (P : 0 <= u / 1000000) by (apply Z.div_pos; lia).
    repeat split; try lia; try nia.
  - destruct (tv_of_ms_ok ms W) as [A B]. split; [exact A|]. split; [exact B|lia].
  - destruct W as [W1 W2]. destruct (IHe1 W1) as (N1 & U1 & P1). destruct (IHe2 W2) as (N2 & U2 & P2).
    destruct (tv_add_ok _ _ N1 N2). repeat split; try apply H; lia.
  - destruct W as [W1 W2]. destruct (IHe W1) as (N1 & U1 & P1).
    destruct (tv_mul_ok _ k N1 W2). repeat split; try apply H; nia.
Qed.
