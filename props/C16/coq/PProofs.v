(* C16 part (b): proofs about the poller model. *)
Require Import List Arith Bool NArith Lia.
Import ListNotations.
From C16 Require Import PModel.

(* ---------- invariants tying the pollers' bookkeeping to the ghost registration history ---------- *)
Definition p_ep_inv (e : p_ep) (rr rw : nat -> bool) : Prop :=
  forall id,
   (forall d, e_rd (ep_obj e id) = Some d -> rr d = true /\ ep_map e d = Some id) /\
   (forall d, e_cd (ep_obj e id) = Some d -> rr d = true /\ ep_map e d = Some id) /\
   (forall d, e_wd (ep_obj e id) = Some d -> rw d = true /\ ep_map e d = Some id) /\
   (e_r (ep_obj e id) = false -> e_rd (ep_obj e id) = None /\ e_cd (ep_obj e id) = None) /\
   (e_w (ep_obj e id) = false -> e_wd (ep_obj e id) = None).

Definition p_sel_inv (c : p_cfg) (t : p_sel) (rr rw : nat -> bool) : Prop :=
  forall d, (s_r t d = SPres -> rr d = true /\ pc_conn (p_get c d) = false) /\
            (s_c t d = SPres -> rr d = true /\ pc_conn (p_get c d) = true) /\
            (s_w t d = SPres -> rw d = true).

Definition p_log_ok (l : list p_ev) : Prop := Forall (fun e => le_reg e = true) l.

Definition p_inv (c : p_cfg) (be : bool) (s : p_st) : Prop :=
  st_be s = be /\
  (if be then p_ep_inv (st_ep s) (st_regr s) (st_regw s)
   else p_sel_inv c (st_sel s) (st_regr s) (st_regw s)) /\ p_log_ok (st_log s).

Ltac p_eqb :=
  repeat match goal with
  | H : context [?a =? ?b] |- _ => destruct (a =? b) eqn:?
  | |- context [?a =? ?b] => destruct (a =? b) eqn:?
  end;
  repeat match goal with
  | H : (_ =? _) = true |- _ => apply Nat.eqb_eq in H
  | H : (_ =? _) = false |- _ => apply Nat.eqb_neq in H
  end; subst.

Ltac p_fin :=
  match goal with
  | J : forall d, ?f = Some d -> _ /\ _, H : ?f = Some _ |- _ => destruct (J _ H); assumption
  end.

Lemma p_upd_eq {A} (f : nat -> A) k v : p_upd f k v k = v.
Proof. unfold p_upd. rewrite Nat.eqb_refl. auto. Qed.
Lemma p_upd_neq {A} (f : nat -> A) k v x : x <> k -> p_upd f k v x = f x.
Proof. unfold p_upd. intro. destruct (x =? k) eqn:E; auto. apply Nat.eqb_eq in E. contradiction. Qed.

(* ---------- EPoller primitives ---------- *)
Lemma p_ep_lookup_inv e fd e1 id nw rr rw :
  p_ep_lookup e fd = (e1, id, nw) -> p_ep_inv e rr rw ->
  p_ep_inv e1 rr rw /\ ep_map e1 fd = Some id.
Proof.
  unfold p_ep_lookup. intros L I.
  destruct (ep_map e fd) eqn:M.
  - inversion L; subst. auto.
  - assert (G : forall id0,
       p_ep_inv (Build_p_ep (p_upd (ep_obj e) id0 p_ed0) (p_upd (ep_map e) fd (Some id0))
                            (ep_orph e) (tl (ep_free e)) (ep_next e)) rr rw
       /\ p_upd (ep_map e) fd (Some id0) fd = Some id0).
    { intro id0. split.
      - intro i. specialize (I i). destruct I as (I1 & I2 & I3 & I4 & I5). simpl. unfold p_upd.
        destruct (i =? id0) eqn:E.
        + simpl. repeat split; intros; try discriminate; auto.
        + repeat split; intros.
          * destruct (I1 _ H). auto.
          * destruct (I1 _ H) as [_ Q]. destruct (d =? fd) eqn:F; auto.
            apply Nat.eqb_eq in F. subst. congruence.
          * destruct (I2 _ H). auto.
          * destruct (I2 _ H) as [_ Q]. destruct (d =? fd) eqn:F; auto.
            apply Nat.eqb_eq in F. subst. congruence.
          * destruct (I3 _ H). auto.
          * destruct (I3 _ H) as [_ Q]. destruct (d =? fd) eqn:F; auto.
            apply Nat.eqb_eq in F. subst. congruence.
          * apply I4; auto.
          * apply I4; auto.
          * apply I5; auto.
      - unfold p_upd. rewrite Nat.eqb_refl. auto. }
    destruct (ep_free e) eqn:Fr.
    + inversion L; subst. destruct (G (ep_next e)) as [G1 G2]. split; [|exact G2].
      intro i. specialize (G1 i). simpl in *. exact G1.
    + inversion L; subst. destruct (G id) as [G1 G2]. split; [|exact G2].
      intro i. specialize (G1 i). simpl in *. exact G1.
Qed.

Lemma p_ep_inv_mono e rr rw rr' rw' :
  (forall d, rr d = true -> rr' d = true) -> (forall d, rw d = true -> rw' d = true) ->
  p_ep_inv e rr rw -> p_ep_inv e rr' rw'.
Proof.
  intros A B I id. destruct (I id) as (I1 & I2 & I3 & I4 & I5).
  repeat split; intros; auto.
  - apply A. apply (I1 _ H). - apply (I1 _ H).
  - apply A. apply (I2 _ H). - apply (I2 _ H).
  - apply B. apply (I3 _ H). - apply (I3 _ H).
  - apply I4; auto. - apply I4; auto.
Qed.

Lemma p_upd_true_mono (f : nat -> bool) k d : f d = true -> p_upd f k true d = true.
Proof. unfold p_upd. destruct (d =? k); auto. Qed.

Lemma p_ep_add_r_inv c e d rr rw :
  p_ep_inv e rr rw -> p_ep_inv (fst (p_ep_add_r c e d)) (p_upd rr d true) rw.
Proof.
  intro I. unfold p_ep_add_r.
  destruct (p_ep_lookup e d) as [[e1 id] nw] eqn:L.
  destruct (p_ep_lookup_inv _ _ _ _ _ _ _ L I) as [I1 M].
  assert (I1' : p_ep_inv e1 (p_upd rr d true) rw).
  { eapply p_ep_inv_mono; [| |exact I1]; auto. intros. apply p_upd_true_mono; auto. }
  destruct (e_r (ep_obj e1 id)) eqn:R; simpl; auto.
  destruct (pc_conn (p_get c d)); simpl; intro i; specialize (I1' i);
    unfold p_ep_set_obj; simpl;
    (destruct (Nat.eq_dec i id) as [E|E];
      [|rewrite !(p_upd_neq (ep_obj e1) id) by assumption; exact I1']);
    destruct I1' as (J1 & J2 & J3 & J4 & J5);
    subst i; rewrite !(p_upd_eq (ep_obj e1) id); simpl.
  - repeat split; intros; auto; try discriminate;
      try (inversion H; subst; first [apply p_upd_eq | assumption]);
      try (apply J4 in R; tauto); try p_fin.
  - repeat split; intros; auto; try discriminate;
      try (inversion H; subst; first [apply p_upd_eq | assumption]);
      try (apply J4 in R; tauto); try p_fin.
Qed.

Lemma p_ep_add_w_inv e d rr rw :
  p_ep_inv e rr rw -> p_ep_inv (fst (p_ep_add_w e d)) rr (p_upd rw d true).
Proof.
  intro I. unfold p_ep_add_w.
  destruct (p_ep_lookup e d) as [[e1 id] nw] eqn:L.
  destruct (p_ep_lookup_inv _ _ _ _ _ _ _ L I) as [I1 M].
  assert (I1' : p_ep_inv e1 rr (p_upd rw d true)).
  { eapply p_ep_inv_mono; [| |exact I1]; auto. intros. apply p_upd_true_mono; auto. }
  destruct (e_w (ep_obj e1 id)) eqn:R; simpl; auto.
  intro i; specialize (I1' i);
    unfold p_ep_set_obj; simpl;
    (destruct (Nat.eq_dec i id) as [E|E];
      [|rewrite !(p_upd_neq (ep_obj e1) id) by assumption; exact I1']);
    destruct I1' as (J1 & J2 & J3 & J4 & J5);
    subst i; rewrite !(p_upd_eq (ep_obj e1) id); simpl.
  repeat split; intros; auto; try discriminate;
    try (inversion H; subst; first [apply p_upd_eq | assumption]); try p_fin;
    try (apply J4; assumption).
Qed.

(* removal: afterwards no EPollData points at fd in that role, so the ghost may drop it (or keep it) *)
Lemma p_ep_remove_inv e fd wr rr rw (rr' rw' : nat -> bool) :
  (forall d, d <> fd -> rr d = true -> rr' d = true) ->
  (forall d, d <> fd -> rw d = true -> rw' d = true) ->
  (wr = true -> forall d, rr d = true -> rr' d = true) ->
  (wr = false -> forall d, rw d = true -> rw' d = true) ->
  p_ep_inv e rr rw -> p_ep_inv (fst (p_ep_remove e fd wr)) rr' rw'.
Proof.
  intros A B A2 B2 I. unfold p_ep_remove.
  destruct (ep_map e fd) as [id0|] eqn:M; simpl.
  2:{ intro i. destruct (I i) as (I1 & I2 & I3 & I4 & I5). repeat split; intros; auto.
      - destruct (I1 _ H) as [P Q]. apply A; auto. intro; subst; congruence.
      - apply (I1 _ H).
      - destruct (I2 _ H) as [P Q]. apply A; auto. intro; subst; congruence.
      - apply (I2 _ H).
      - destruct (I3 _ H) as [P Q]. apply B; auto. intro; subst; congruence.
      - apply (I3 _ H).
      - apply I4; auto. - apply I4; auto. }
  (* facts about objects other than id0: they do not point at fd *)
  assert (NP : forall i d, i <> id0 ->
              (e_rd (ep_obj e i) = Some d \/ e_cd (ep_obj e i) = Some d \/ e_wd (ep_obj e i) = Some d) ->
              d <> fd).
  { intros i d Hi H Hd. subst d. destruct (I i) as (I1 & I2 & I3 & _).
    destruct H as [H|[H|H]]; [apply I1 in H|apply I2 in H|apply I3 in H]; destruct H as [_ H];
      rewrite M in H; inversion H; auto. }
  destruct (I id0) as (K1 & K2 & K3 & K4 & K5).
  destruct wr; simpl.
  - (* write side *)
    destruct (e_r (ep_obj e id0) || false) eqn:EV; simpl.
    + intro i. unfold p_ep_set_obj; simpl.
      destruct (Nat.eq_dec i id0) as [E|E];
        [subst i; rewrite !(p_upd_eq (ep_obj e) id0)|rewrite !(p_upd_neq (ep_obj e) id0) by assumption]; simpl.
      * repeat split; intros; auto; try discriminate.
        -- apply A2; auto. apply (K1 _ H). -- apply (K1 _ H).
        -- apply A2; auto. apply (K2 _ H). -- apply (K2 _ H).
        -- apply K4; auto. -- apply K4; auto.
      * destruct (I i) as (I1 & I2 & I3 & I4 & I5).
        repeat split; intros; auto.
        -- apply A2; auto. apply (I1 _ H). -- apply (I1 _ H).
        -- apply A2; auto. apply (I2 _ H). -- apply (I2 _ H).
        -- apply B. ++ eapply NP; eauto. ++ apply (I3 _ H).
        -- apply (I3 _ H).
        -- apply I4; auto. -- apply I4; auto.
    + rewrite orb_false_r in EV. destruct (K4 EV) as [Kr Kc].
      intro i. simpl.
      destruct (Nat.eq_dec i id0) as [E|E];
        [subst i; rewrite !(p_upd_eq (ep_obj e) id0)|rewrite !(p_upd_neq (ep_obj e) id0) by assumption]; simpl.
      * repeat split; intros; auto; try discriminate; try congruence.
      * destruct (I i) as (I1 & I2 & I3 & I4 & I5).
        assert (U : forall d, d <> fd -> p_upd (ep_map e) fd None d = ep_map e d).
        { intros. unfold p_upd. destruct (d =? fd) eqn:F; auto. apply Nat.eqb_eq in F. contradiction. }
        repeat split; intros; auto.
        -- apply A2; auto. apply (I1 _ H).
        -- rewrite U. apply (I1 _ H). eapply NP; eauto.
        -- apply A2; auto. apply (I2 _ H).
        -- rewrite U. apply (I2 _ H). eapply NP; eauto.
        -- apply B. ++ eapply NP; eauto. ++ apply (I3 _ H).
        -- rewrite U. apply (I3 _ H). eapply NP; eauto.
        -- apply I4; auto. -- apply I4; auto.
  - (* read side *)
    destruct (e_w (ep_obj e id0)) eqn:EV; simpl.
    + intro i. unfold p_ep_set_obj; simpl.
      destruct (Nat.eq_dec i id0) as [E|E];
        [subst i; rewrite !(p_upd_eq (ep_obj e) id0)|rewrite !(p_upd_neq (ep_obj e) id0) by assumption]; simpl.
      * repeat split; intros; auto; try discriminate.
        -- apply B2; auto. apply (K3 _ H). -- apply (K3 _ H).
      * destruct (I i) as (I1 & I2 & I3 & I4 & I5).
        repeat split; intros; auto.
        -- apply A. ++ eapply NP; eauto. ++ apply (I1 _ H).
        -- apply (I1 _ H).
        -- apply A. ++ eapply NP; eauto. ++ apply (I2 _ H).
        -- apply (I2 _ H).
        -- apply B2; auto. apply (I3 _ H). -- apply (I3 _ H).
        -- apply I4; auto. -- apply I4; auto.
    + pose proof (K5 eq_refl) as Kw.
      intro i. simpl.
      destruct (Nat.eq_dec i id0) as [E|E];
        [subst i; rewrite !(p_upd_eq (ep_obj e) id0)|rewrite !(p_upd_neq (ep_obj e) id0) by assumption]; simpl.
      * repeat split; intros; auto; try discriminate; try congruence.
      * destruct (I i) as (I1 & I2 & I3 & I4 & I5).
        assert (U : forall d, d <> fd -> p_upd (ep_map e) fd None d = ep_map e d).
        { intros. unfold p_upd. destruct (d =? fd) eqn:F; auto. apply Nat.eqb_eq in F. contradiction. }
        repeat split; intros; auto.
        -- apply A. ++ eapply NP; eauto. ++ apply (I1 _ H).
        -- rewrite U. apply (I1 _ H). eapply NP; eauto.
        -- apply A. ++ eapply NP; eauto. ++ apply (I2 _ H).
        -- rewrite U. apply (I2 _ H). eapply NP; eauto.
        -- apply B2; auto. apply (I3 _ H).
        -- rewrite U. apply (I3 _ H). eapply NP; eauto.
        -- apply I4; auto. -- apply I4; auto.
Qed.

Lemma p_ep_clear_cd_inv e id rr rw :
  p_ep_inv e rr rw ->
  p_ep_inv (p_ep_set_obj e id (Build_p_ed (e_r (ep_obj e id)) (e_w (ep_obj e id)) (e_rd (ep_obj e id))
                                          (e_wd (ep_obj e id)) None (e_doc (ep_obj e id)))) rr rw.
Proof.
  intros I i. unfold p_ep_set_obj; simpl.
  destruct (Nat.eq_dec i id) as [E|E];
    [subst i; rewrite !(p_upd_eq (ep_obj e) id)|rewrite !(p_upd_neq (ep_obj e) id) by assumption; apply I].
  destruct (I id) as (I1 & I2 & I3 & I4 & I5). simpl.
  repeat split; intros; auto; try discriminate; try p_fin. apply I4; auto.
Qed.

(* ---------- SelectPoller primitives ---------- *)
Ltac p_sel_tac I :=
  let x := fresh "x" in
  intro x; specialize (I x); simpl; unfold p_upd;
  match goal with |- context [x =? ?d] =>
    destruct (x =? d) eqn:?E; [apply Nat.eqb_eq in E; subst x|] end;
  intuition (try congruence).

Lemma p_sel_add_r_inv c t d rr rw :
  p_sel_inv c t rr rw -> p_sel_inv c (fst (p_sel_add_r c t d)) (p_upd rr d true) rw.
Proof.
  intro I. unfold p_sel_add_r, p_sel_insert.
  destruct (pc_conn (p_get c d)) eqn:C.
  - destruct (s_c t d) eqn:S; simpl; p_sel_tac I.
  - destruct (s_r t d) eqn:S; simpl; p_sel_tac I.
Qed.
Lemma p_sel_rem_r_inv c t d rr rw :
  p_sel_inv c t rr rw -> p_sel_inv c (fst (p_sel_rem_r c t d)) (p_upd rr d false) rw.
Proof.
  intro I. unfold p_sel_rem_r, p_sel_remove.
  destruct (pc_conn (p_get c d)) eqn:C.
  - destruct (s_c t d) eqn:S; simpl; p_sel_tac I.
  - destruct (s_r t d) eqn:S; simpl; p_sel_tac I.
Qed.
Lemma p_sel_add_w_inv c t d rr rw :
  p_sel_inv c t rr rw -> p_sel_inv c (fst (p_sel_add_w t d)) rr (p_upd rw d true).
Proof.
  intro I. unfold p_sel_add_w, p_sel_insert. destruct (s_w t d) eqn:S; simpl; p_sel_tac I.
Qed.
Lemma p_sel_rem_w_inv c t d rr rw :
  p_sel_inv c t rr rw -> p_sel_inv c (fst (p_sel_rem_w t d)) rr (p_upd rw d false).
Proof.
  intro I. unfold p_sel_rem_w, p_sel_remove. destruct (s_w t d) eqn:S; simpl; p_sel_tac I.
Qed.

(* ---------- API level ---------- *)
Lemma p_inv_add_r c be s d : p_inv c be s -> p_inv c be (fst (p_add_r c s d)).
Proof.
  intros (B & I & L). unfold p_add_r. simpl. rewrite B in *. destruct be.
  - pose proof (p_ep_add_r_inv c (st_ep s) d _ _ I) as X.
    destruct (p_ep_add_r c (st_ep s) d); simpl in *; unfold p_inv; simpl; (split; [assumption|split; [exact X|assumption]]).
  - pose proof (p_sel_add_r_inv c (st_sel s) d _ _ I) as X.
    destruct (p_sel_add_r c (st_sel s) d); simpl in *; unfold p_inv; simpl; (split; [assumption|split; [exact X|assumption]]).
Qed.
Lemma p_inv_add_w c be s d : p_inv c be s -> p_inv c be (fst (p_add_w c s d)).
Proof.
  intros (B & I & L). unfold p_add_w. simpl. rewrite B in *. destruct be.
  - pose proof (p_ep_add_w_inv (st_ep s) d _ _ I) as X.
    destruct (p_ep_add_w (st_ep s) d); simpl in *; unfold p_inv; simpl; (split; [assumption|split; [exact X|assumption]]).
  - pose proof (p_sel_add_w_inv c (st_sel s) d _ _ I) as X.
    destruct (p_sel_add_w (st_sel s) d); simpl in *; unfold p_inv; simpl; (split; [assumption|split; [exact X|assumption]]).
Qed.
Lemma p_upd_false_keep (f : nat -> bool) k d : d <> k -> f d = true -> p_upd f k false d = true.
Proof. intros. rewrite p_upd_neq; auto. Qed.
Lemma p_inv_rem_r c be s d : p_inv c be s -> p_inv c be (fst (p_rem_r c s d)).
Proof.
  intros (B & I & L). unfold p_rem_r. simpl. rewrite B in *. destruct be.
  - assert (X : p_ep_inv (fst (p_ep_remove (st_ep s) d false)) (p_upd (st_regr s) d false) (st_regw s)).
    { eapply p_ep_remove_inv; [| | | |exact I]; auto; try discriminate.
      intros. apply p_upd_false_keep; auto. }
    destruct (p_ep_remove (st_ep s) d false); simpl in *; unfold p_inv; simpl; (split; [assumption|split; [exact X|assumption]]).
  - pose proof (p_sel_rem_r_inv c (st_sel s) d _ _ I) as X.
    destruct (p_sel_rem_r c (st_sel s) d); simpl in *; unfold p_inv; simpl; (split; [assumption|split; [exact X|assumption]]).
Qed.
Lemma p_inv_rem_w c be s d : p_inv c be s -> p_inv c be (fst (p_rem_w c s d)).
Proof.
  intros (B & I & L). unfold p_rem_w. simpl. rewrite B in *. destruct be.
  - assert (X : p_ep_inv (fst (p_ep_remove (st_ep s) d true)) (st_regr s) (p_upd (st_regw s) d false)).
    { eapply p_ep_remove_inv; [| | | |exact I]; auto; try discriminate.
      intros. apply p_upd_false_keep; auto. }
    destruct (p_ep_remove (st_ep s) d true); simpl in *; unfold p_inv; simpl; (split; [assumption|split; [exact X|assumption]]).
  - pose proof (p_sel_rem_w_inv c (st_sel s) d _ _ I) as X.
    destruct (p_sel_rem_w (st_sel s) d); simpl in *; unfold p_inv; simpl; (split; [assumption|split; [exact X|assumption]]).
Qed.

Lemma p_inv_exec_act c be s a : p_inv c be s -> p_inv c be (p_exec_act c s a).
Proof.
  intro I. unfold p_exec_act. destruct (st_del s (p_act_target a)); auto.
  destruct a; [apply p_inv_add_r|apply p_inv_add_w|apply p_inv_rem_r|apply p_inv_rem_w]; auto.
Qed.
Lemma p_inv_exec_acts c be l : forall s, p_inv c be s -> p_inv c be (p_exec_acts c s l).
Proof.
  unfold p_exec_acts. induction l; simpl; intros; auto. apply IHl. apply p_inv_exec_act; auto.
Qed.

Definition p_reg_of (s : p_st) (k : p_cbk) (d : nat) : bool :=
  match k with PKWrite => st_regw s d | _ => st_regr s d end.

Lemma p_inv_invoke c be s d k :
  p_inv c be s -> p_reg_of s k d = true -> p_inv c be (p_invoke c s d k).
Proof.
  intros (B & I & L) R. unfold p_invoke. destruct (st_del s d).
  - repeat split; auto.
  - destruct k; apply p_inv_exec_acts; (split; [exact B|split; [exact I|]]); simpl;
      constructor; auto.
Qed.

Lemma p_inv_touch c be s d : p_inv c be s -> p_inv c be (p_touch s d).
Proof. unfold p_touch. destruct (st_del s d); auto. Qed.

(* reading the registration off the bookkeeping *)
Lemma p_inv_ep_rd c s id d : p_inv c true s -> e_rd (ep_obj (st_ep s) id) = Some d -> st_regr s d = true.
Proof. intros (B & I & L) H. destruct (I id) as (I1 & _). apply (I1 _ H). Qed.
Lemma p_inv_ep_cd c s id d : p_inv c true s -> e_cd (ep_obj (st_ep s) id) = Some d -> st_regr s d = true.
Proof. intros (B & I & L) H. destruct (I id) as (_ & I2 & _). apply (I2 _ H). Qed.
Lemma p_inv_ep_wd c s id d : p_inv c true s -> e_wd (ep_obj (st_ep s) id) = Some d -> st_regw s d = true.
Proof. intros (B & I & L) H. destruct (I id) as (_ & _ & I3 & _). apply (I3 _ H). Qed.

Lemma p_inv_set_ep_same c s e :
  p_inv c true s -> p_ep_inv e (st_regr s) (st_regw s) -> p_inv c true (p_set_ep s e).
Proof. intros (B & I & L) H. split; [exact B|split; [exact H|exact L]]. Qed.

Lemma p_inv_ep_close c s id d :
  p_inv c true s -> st_regr s d = true -> p_inv c true (p_ep_close c s id d).
Proof.
  intros I R. unfold p_ep_close.
  set (s1 := p_set_onclose (p_touch s d) (p_upd (st_onclose (p_touch s d)) d false)).
  assert (I1 : p_inv c true s1).
  { apply p_inv_touch with (d := d) in I. exact I. }
  assert (R1 : st_regr s1 d = true).
  { unfold s1, p_touch. destruct (st_del s d); simpl; auto. }
  set (s2 := if st_onclose (p_touch s d) d then p_invoke c s1 d PKClose else s1).
  assert (I2 : p_inv c true s2).
  { unfold s2. destruct (st_onclose (p_touch s d) d); auto. apply p_inv_invoke; auto. }
  clearbody s2. clear I1 R1 s1.
  destruct (e_cd (ep_obj (st_ep s2) id)) as [d2|]; auto.
  destruct (e_doc (ep_obj (st_ep s2) id)); auto.
  pose proof (p_inv_touch c true s2 d2 I2) as I3.
  set (s3 := p_touch s2 d2) in *. clearbody s3.
  assert (X : p_ep_inv (fst (p_ep_remove (st_ep s3) d2 false)) (st_regr s3) (st_regw s3)).
  { destruct I3 as (B & J & L). eapply p_ep_remove_inv; [| | | |exact J]; auto. }
  destruct (p_ep_remove (st_ep s3) d2 false) as [e b]; simpl in X.
  pose proof (p_inv_set_ep_same c s3 e I3 X) as I4.
  set (s4 := p_set_ep s3 e) in *. clearbody s4.
  set (s5 := match e_cd (ep_obj (st_ep s4) id) with
             | Some d3 => p_set_del (p_touch s4 d3) (p_upd (st_del s4) d3 true)
             | None => s4 end).
  assert (I5 : p_inv c true s5).
  { unfold s5. destruct (e_cd (ep_obj (st_ep s4) id)); auto.
    apply p_inv_touch with (d := n) in I4. exact I4. }
  clearbody s5.
  apply p_inv_set_ep_same; auto. apply p_ep_clear_cd_inv. apply I5.
Qed.

Lemma p_inv_ep_check c s ev : p_inv c true s -> p_inv c true (p_ep_check c s ev).
Proof.
  intro I. destruct ev as [id fl]. unfold p_ep_check.
  set (r := if f_hup fl then _ else _).
  assert (Ir : p_inv c true (fst r)).
  { unfold r. destruct (f_hup fl); simpl; auto.
    destruct (e_rd (ep_obj (st_ep s) id)) eqn:Rd.
    - simpl. apply p_inv_invoke; auto. simpl. eapply p_inv_ep_rd; eauto.
    - destruct (e_cd (ep_obj (st_ep s) id)) eqn:Cd.
      + simpl.
        assert (R : st_regr s n = true) by (eapply p_inv_ep_cd; eauto).
        assert (It : p_inv c true (p_touch s n)) by (apply p_inv_touch; auto).
        assert (Rt : st_regr (p_touch s n) n = true).
        { unfold p_touch. destruct (st_del s n); auto. }
        destruct (p_has_data (p_touch s n) n).
        * apply p_inv_invoke; auto.
        * apply p_inv_ep_close; auto.
      + destruct (e_wd (ep_obj (st_ep s) id)) eqn:Wd; simpl; auto.
        apply p_inv_invoke; auto. simpl. eapply p_inv_ep_wd; eauto. }
  destruct r as [s1 fl1]. simpl in Ir.
  set (s2 := if f_in fl1 then _ else s1).
  assert (I2 : p_inv c true s2).
  { unfold s2. destruct (f_in fl1); auto.
    destruct (e_rd (ep_obj (st_ep s1) id)) eqn:Rd.
    - apply p_inv_invoke; auto. simpl. eapply p_inv_ep_rd; eauto.
    - destruct (e_cd (ep_obj (st_ep s1) id)) eqn:Cd; auto.
      apply p_inv_invoke; auto. simpl. eapply p_inv_ep_cd; eauto. }
  clearbody s2.
  destruct (f_out fl1); auto.
  destruct (e_wd (ep_obj (st_ep s2) id)) eqn:Wd; auto.
  apply p_inv_invoke; auto. simpl. eapply p_inv_ep_wd; eauto.
Qed.

Lemma p_inv_fold {A} c be (f : p_st -> A -> p_st) l :
  (forall s a, p_inv c be s -> p_inv c be (f s a)) ->
  forall s, p_inv c be s -> p_inv c be (fold_left f l s).
Proof. intro H. induction l; simpl; intros; auto. Qed.

Lemma p_inv_ep_poll c s desc : p_inv c true s -> p_inv c true (p_ep_poll c s desc).
Proof.
  intro I. unfold p_ep_poll.
  destruct (p_ep_batch c s (if desc then rev (seq 0 (length c)) else seq 0 (length c))) eqn:E; auto.
  assert (J : p_inv c true (fold_left (p_ep_check c) (p :: l) s)).
  { apply p_inv_fold; auto. intros. apply p_inv_ep_check; auto. }
  set (s1 := fold_left (p_ep_check c) (p :: l) s) in *. clearbody s1.
  apply p_inv_set_ep_same; auto. destruct J as (B & J & L). intro i. apply (J i).
Qed.

(* ---------- SelectPoller::Poll ---------- *)
Lemma p_is_pres_eq x : p_is_pres x = true -> x = SPres.
Proof. destruct x; simpl; auto; discriminate. Qed.

Lemma p_inv_set_sel_same c s t :
  p_inv c false s -> p_sel_inv c t (st_regr s) (st_regw s) -> p_inv c false (p_set_sel s t).
Proof. intros (B & I & L) H. split; [exact B|split; [exact H|exact L]]. Qed.

Lemma p_inv_sel_prepare c s : p_inv c false s -> p_inv c false (p_sel_prepare c s).
Proof.
  intro I. unfold p_sel_prepare.
  apply p_inv_fold.
  - intros s0 a J. destruct ((_ || _) && _); auto.
  - apply p_inv_set_sel_same; auto. destruct I as (B & J & L). intro d. specialize (J d). simpl.
    destruct (s_r (st_sel s) d), (s_c (st_sel s) d), (s_w (st_sel s) d); simpl; intuition congruence.
Qed.

Lemma p_inv_sel_read_step c rset s d : p_inv c false s -> p_inv c false (p_sel_read_step c rset s d).
Proof.
  intro I. unfold p_sel_read_step.
  destruct (p_is_pres (s_r (st_sel s) d)) eqn:P; simpl; auto. destruct (rset d); auto.
  apply p_inv_invoke; auto. simpl. destruct I as (B & J & L). apply p_is_pres_eq in P.
  destruct (J d) as (J1 & J2 & J3). destruct (J1 P); auto.
Qed.

Lemma p_inv_sel_write_step c wset s d : p_inv c false s -> p_inv c false (p_sel_write_step c wset s d).
Proof.
  intro I. unfold p_sel_write_step.
  destruct (p_is_pres (s_w (st_sel s) d)) eqn:P; simpl; auto.
  assert (R : st_regw s d = true).
  { destruct I as (B & J & L). apply p_is_pres_eq in P. destruct (J d) as (J1 & J2 & J3). auto. }
  destruct (wset d); [|apply p_inv_touch; auto].
  apply p_inv_invoke; [apply p_inv_touch; auto|].
  simpl. unfold p_touch. destruct (st_del s d); auto.
Qed.

Lemma p_inv_sel_conn_step c rset s d : p_inv c false s -> p_inv c false (p_sel_conn_step c rset s d).
Proof.
  intro I. unfold p_sel_conn_step.
  destruct (p_is_pres (s_c (st_sel s) d)) eqn:P; simpl; auto.
  assert (R : st_regr s d = true).
  { destruct I as (B & J & L). apply p_is_pres_eq in P. destruct (J d) as (J1 & J2 & J3).
    destruct (J2 P); auto. }
  pose proof (p_inv_touch c false s d I) as It.
  assert (Rt : st_regr (p_touch s d) d = true).
  { unfold p_touch. destruct (st_del s d); auto. }
  set (s1 := p_touch s d) in *. clearbody s1.
  destruct (rset d); auto.
  destruct (negb (p_has_data s1 d)).
  2:{ apply p_inv_invoke; auto. }
  set (s2 := p_set_sel (p_set_onclose s1 (p_upd (st_onclose s1) d false)) _).
  assert (I2 : p_inv c false s2).
  { unfold s2. apply p_inv_set_sel_same.
    - destruct It as (B & J & L). split; [exact B|split; [exact J|exact L]].
    - destruct It as (B & J & L). simpl. intro x. specialize (J x). simpl. unfold p_upd.
      destruct (x =? d); intuition congruence. }
  assert (R2 : st_regr s2 d = true) by (unfold s2; simpl; auto).
  clearbody s2.
  set (s3 := if st_onclose s1 d then p_invoke c s2 d PKClose else s2).
  assert (I3 : p_inv c false s3).
  { unfold s3. destruct (st_onclose s1 d); auto. apply p_inv_invoke; auto. }
  clearbody s3.
  match goal with |- context [if ?b then _ else s3] => destruct b end; auto.
  apply p_inv_touch with (d := d) in I3. exact I3.
Qed.

Lemma p_inv_sel_poll c s : p_inv c false s -> p_inv c false (p_sel_poll c s).
Proof.
  intro I. unfold p_sel_poll.
  pose proof (p_inv_sel_prepare c s I) as J. set (s1 := p_sel_prepare c s) in *. clearbody s1.
  destruct (existsb _ _); auto.
  apply p_inv_fold; [intros; apply p_inv_sel_write_step; auto|].
  apply p_inv_fold; [intros; apply p_inv_sel_conn_step; auto|].
  apply p_inv_fold; [intros; apply p_inv_sel_read_step; auto|]. exact J.
Qed.

(* ---------- whole runs ---------- *)
Lemma p_inv_push_ret c be s b : p_inv c be s -> p_inv c be (p_push_ret s b).
Proof. auto. Qed.

Lemma p_inv_step c be s o : p_inv c be s -> p_inv c be (p_step c s o).
Proof.
  intro I. unfold p_step.
  set (s1 := match o with POAddR _ => _ | _ => _ end).
  assert (I1 : p_inv c be s1).
  { unfold s1. destruct o.
    - destruct (st_del s d); auto. pose proof (p_inv_add_r c be s d I).
      destruct (p_add_r c s d); simpl in *. auto.
    - destruct (st_del s d); auto. pose proof (p_inv_add_w c be s d I).
      destruct (p_add_w c s d); simpl in *. auto.
    - destruct (st_del s d); auto. pose proof (p_inv_rem_r c be s d I).
      destruct (p_rem_r c s d); simpl in *. auto.
    - destruct (st_del s d); auto. pose proof (p_inv_rem_w c be s d I).
      destruct (p_rem_w c s d); simpl in *. auto.
    - destruct (st_del s d || st_closed s d); auto.
    - destruct (st_del s d); auto.
    - destruct I as (B & J & L). rewrite B. destruct be.
      + apply p_inv_ep_poll. split; auto.
      + apply p_inv_sel_poll. split; auto. }
  clearbody s1. auto.
Qed.

Lemma p_inv_init c be : p_inv c be (p_init be c).
Proof.
  split; [reflexivity|split; [|constructor]]. destruct be; simpl.
  - intro id. simpl. repeat split; intros; discriminate.
  - intro d. simpl. repeat split; intros; discriminate.
Qed.

Lemma p_inv_run c be ops : p_inv c be (p_run be c ops).
Proof. unfold p_run. apply p_inv_fold; [intros; apply p_inv_step; auto|apply p_inv_init]. Qed.

(* c16_registered_only *)
Lemma p_registered_only be c ops e : In e (p_log (p_run be c ops)) -> le_reg e = true.
Proof.
  intro H. destruct (p_inv_run c be ops) as (_ & _ & L). unfold p_log in H. apply in_rev in H.
  unfold p_log_ok in L. rewrite Forall_forall in L. auto.
Qed.

(* the ghost really is the add/remove history: what an entry records *)
Lemma p_invoke_logs c s d k :
  st_del s d = false ->
  exists bs, exists l2, st_log (p_invoke c s d k) = l2 ++ Build_p_ev (st_opix s) d k bs (p_reg_of s k d) :: st_log s.
Proof.
  intro D. unfold p_invoke. rewrite D.
  assert (G : forall l s0, exists l2, st_log (p_exec_acts c s0 l) = l2 ++ st_log s0).
  { unfold p_exec_acts. induction l; simpl; intros.
    - exists []. auto.
    - destruct (IHl (p_exec_act c s0 a)) as [l2 E]. exists l2. rewrite E. f_equal.
      unfold p_exec_act. destruct (st_del s0 (p_act_target a)); auto.
      destruct a; simpl; unfold p_add_r, p_add_w, p_rem_r, p_rem_w; simpl;
        destruct (st_be s0); simpl;
        repeat match goal with |- context [let '(_, _) := ?x in _] => destruct x end; simpl; auto. }
  destruct k; simpl.
  - eexists. match goal with |- context [p_exec_acts c ?s0 ?l] => destruct (G l s0) as [l2 E] end.
    exists l2. rewrite E. simpl. reflexivity.
  - eexists. match goal with |- context [p_exec_acts c ?s0 ?l] => destruct (G l s0) as [l2 E] end.
    exists l2. rewrite E. simpl. reflexivity.
  - eexists. match goal with |- context [p_exec_acts c ?s0 ?l] => destruct (G l s0) as [l2 E] end.
    exists l2. rewrite E. simpl. reflexivity.
Qed.

(* the ghost registration is a function of the add/remove calls only *)
Lemma p_ghost_add_r c s d x : st_regr (fst (p_add_r c s d)) x = (if x =? d then true else st_regr s x)
                              /\ st_regw (fst (p_add_r c s d)) x = st_regw s x.
Proof.
  unfold p_add_r; simpl; destruct (st_be s); simpl;
    repeat match goal with |- context [let '(_, _) := ?y in _] => destruct y end; simpl; unfold p_upd; auto.
Qed.
Lemma p_ghost_rem_r c s d x : st_regr (fst (p_rem_r c s d)) x = (if x =? d then false else st_regr s x)
                              /\ st_regw (fst (p_rem_r c s d)) x = st_regw s x.
Proof.
  unfold p_rem_r; simpl; destruct (st_be s); simpl;
    repeat match goal with |- context [let '(_, _) := ?y in _] => destruct y end; simpl; unfold p_upd; auto.
Qed.
Lemma p_ghost_add_w c s d x : st_regw (fst (p_add_w c s d)) x = (if x =? d then true else st_regw s x)
                              /\ st_regr (fst (p_add_w c s d)) x = st_regr s x.
Proof.
  unfold p_add_w; simpl; destruct (st_be s); simpl;
    repeat match goal with |- context [let '(_, _) := ?y in _] => destruct y end; simpl; unfold p_upd; auto.
Qed.
Lemma p_ghost_rem_w c s d x : st_regw (fst (p_rem_w c s d)) x = (if x =? d then false else st_regw s x)
                              /\ st_regr (fst (p_rem_w c s d)) x = st_regr s x.
Proof.
  unfold p_rem_w; simpl; destruct (st_be s); simpl;
    repeat match goal with |- context [let '(_, _) := ?y in _] => destruct y end; simpl; unfold p_upd; auto.
Qed.
