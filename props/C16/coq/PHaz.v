(* C16 part (b): the hazard flag st_haz (a deleted descriptor object is used by the poller or handed to a
   callback) is unreachable.
   SelectPoller deletes a delete_on_close descriptor after its on_close callback.  The guard [p_hz_cfg]/
   [p_hz_ops] is the API contract for such descriptors: a delete_on_close descriptor is never given a write
   registration, and its on_close callback does not register it again (the poller is about to delete it).
   EPoller (model of the code as it is) never deletes anything: see PHaz epoll part. *)
Require Import List Arith Bool NArith Lia.
Import ListNotations.
From C16 Require Import PModel PProofs PClose.

Definition p_act_ok (c : p_cfg) (a : p_act) : Prop :=
  match a with PAAddW d => pc_doc (p_get c d) = false | _ => True end.
Definition p_hz_cfg (c : p_cfg) : Prop :=
  forall d, Forall (p_act_ok c) (pc_rs (p_get c d)) /\ Forall (p_act_ok c) (pc_ws (p_get c d)) /\
            Forall (p_act_ok c) (pc_cs (p_get c d)) /\
            (pc_doc (p_get c d) = true -> ~ In (PAAddR d) (pc_cs (p_get c d))).
Definition p_op_ok (c : p_cfg) (o : p_op) : Prop :=
  match o with POAddW d => pc_doc (p_get c d) = false | _ => True end.
Definition p_hz_ops (c : p_cfg) (ops : list p_op) : Prop := Forall (p_op_ok c) ops.

Ltac p_u x d := unfold p_upd in *; let E := fresh "E" in
  destruct (x =? d) eqn:E; [apply Nat.eqb_eq in E; subst | apply Nat.eqb_neq in E].

(* ================= SelectPoller ================= *)
Record p_hs (c : p_cfg) (s : p_st) : Prop := {
  hs_be : st_be s = false;
  hs_haz : st_haz s = false;
  hs_del_c : forall d, st_del s d = true -> s_c (st_sel s) d <> SPres;
  hs_del_doc : forall d, st_del s d = true -> pc_doc (p_get c d) = true /\ pc_conn (p_get c d) = true;
  hs_w : forall d, pc_doc (p_get c d) = true -> s_w (st_sel s) d <> SPres;
  hs_cdoc : forall d, s_c (st_sel s) d = SPres -> s_cdoc (st_sel s) d = pc_doc (p_get c d);
  hs_r : forall d, s_r (st_sel s) d = SPres -> pc_conn (p_get c d) = false;
  hs_c : forall d, s_c (st_sel s) d = SPres -> pc_conn (p_get c d) = true
}.

Lemma p_hs_add_r c s d : st_del s d = false -> p_hs c s -> p_hs c (fst (p_add_r c s d)).
Proof.
  intros D H. destruct H. unfold p_add_r. simpl. rewrite hs_be0. unfold p_sel_add_r, p_sel_insert.
  destruct (pc_conn (p_get c d)) eqn:CN.
  - destruct (s_c (st_sel s) d) eqn:SC; simpl; constructor; simpl; auto;
      try (intros x Hx; p_u x d; auto; congruence);
      try (intros x Hx Hy; p_u x d; [congruence | eapply hs_del_c0; eauto]).
  - destruct (s_r (st_sel s) d) eqn:SR; simpl; constructor; simpl; auto;
      try (intros x Hx; p_u x d; auto; congruence).
Qed.
Lemma p_hs_add_w c s d : pc_doc (p_get c d) = false -> p_hs c s -> p_hs c (fst (p_add_w c s d)).
Proof.
  intros D H. destruct H. unfold p_add_w. simpl. rewrite hs_be0. unfold p_sel_add_w, p_sel_insert.
  destruct (s_w (st_sel s) d) eqn:SW; simpl; constructor; simpl; auto;
    try (intros x Hx; p_u x d; [congruence | apply hs_w0; auto]).
Qed.
Lemma p_hs_rem_r c s d : p_hs c s -> p_hs c (fst (p_rem_r c s d)).
Proof.
  intros H. destruct H. unfold p_rem_r. simpl. rewrite hs_be0. unfold p_sel_rem_r, p_sel_remove.
  destruct (pc_conn (p_get c d)) eqn:CN.
  - destruct (s_c (st_sel s) d) eqn:SC; simpl; constructor; simpl; auto;
      try (intros x Hx; p_u x d; auto; congruence);
      try (intros x Hx Hy; p_u x d; [congruence | eapply hs_del_c0; eauto]).
  - destruct (s_r (st_sel s) d) eqn:SR; simpl; constructor; simpl; auto;
      try (intros x Hx; p_u x d; auto; congruence).
Qed.
Lemma p_hs_rem_w c s d : p_hs c s -> p_hs c (fst (p_rem_w c s d)).
Proof.
  intros H. destruct H. unfold p_rem_w. simpl. rewrite hs_be0. unfold p_sel_rem_w, p_sel_remove.
  destruct (s_w (st_sel s) d) eqn:SW; simpl; constructor; simpl; auto;
    try (intros x Hx; p_u x d; [congruence | apply hs_w0; auto]).
Qed.

Lemma p_hs_exec_act c s a : p_act_ok c a -> p_hs c s -> p_hs c (p_exec_act c s a).
Proof.
  intros A H. unfold p_exec_act. destruct (st_del s (p_act_target a)) eqn:D; auto.
  destruct a; simpl in *.
  - apply p_hs_add_r; auto. - apply p_hs_add_w; auto. - apply p_hs_rem_r; auto. - apply p_hs_rem_w; auto.
Qed.
Lemma p_hs_exec_acts c l : Forall (p_act_ok c) l -> forall s, p_hs c s -> p_hs c (p_exec_acts c s l).
Proof.
  unfold p_exec_acts. induction 1; simpl; intros; auto. apply IHForall. apply p_hs_exec_act; auto.
Qed.

Lemma p_hs_invoke c s d k : p_hz_cfg c -> st_del s d = false -> p_hs c s -> p_hs c (p_invoke c s d k).
Proof.
  intros G D H. unfold p_invoke. rewrite D. destruct (G d) as (G1 & G2 & G3 & _).
  destruct k; apply p_hs_exec_acts; auto; destruct H; constructor; simpl; auto.
Qed.

(* what a script can do to the connected slot / deleted flags of descriptor d *)
Lemma p_c_exec_act c s a d : st_be s = false -> a <> PAAddR d ->
  s_c (st_sel (p_exec_act c s a)) d = SPres -> s_c (st_sel s) d = SPres.
Proof.
  intros B N. unfold p_exec_act. destruct (st_del s (p_act_target a)); auto.
  destruct a; simpl.
  - assert (d0 <> d) by (intro; subst; apply N; reflexivity).
    unfold p_add_r. simpl. rewrite B. unfold p_sel_add_r, p_sel_insert.
    destruct (pc_conn (p_get c d0)).
    + destruct (s_c (st_sel s) d0) eqn:SC; simpl; auto; unfold p_upd;
        destruct (d =? d0) eqn:E; auto; apply Nat.eqb_eq in E; congruence.
    + destruct (s_r (st_sel s) d0); simpl; auto.
  - unfold p_add_w. simpl. rewrite B. unfold p_sel_add_w, p_sel_insert. destruct (s_w (st_sel s) d0); simpl; auto.
  - unfold p_rem_r. simpl. rewrite B. unfold p_sel_rem_r, p_sel_remove.
    destruct (pc_conn (p_get c d0)).
    + destruct (s_c (st_sel s) d0) eqn:SC; simpl; auto; unfold p_upd;
        destruct (d =? d0) eqn:E; auto; discriminate.
    + destruct (s_r (st_sel s) d0); simpl; auto.
  - unfold p_rem_w. simpl. rewrite B. unfold p_sel_rem_w, p_sel_remove. destruct (s_w (st_sel s) d0); simpl; auto.
Qed.
Lemma p_del_exec_act c s a : st_del (p_exec_act c s a) = st_del s.
Proof.
  unfold p_exec_act. destruct (st_del s (p_act_target a)); auto.
  destruct a; simpl.
  - unfold p_add_r. simpl. destruct (st_be s). destruct (p_ep_add_r c (st_ep s) d); auto. destruct (p_sel_add_r c (st_sel s) d); auto.
  - unfold p_add_w. simpl. destruct (st_be s). destruct (p_ep_add_w (st_ep s) d); auto. destruct (p_sel_add_w (st_sel s) d); auto.
  - unfold p_rem_r. simpl. destruct (st_be s). destruct (p_ep_remove (st_ep s) d false); auto. destruct (p_sel_rem_r c (st_sel s) d); auto.
  - unfold p_rem_w. simpl. destruct (st_be s). destruct (p_ep_remove (st_ep s) d true); auto. destruct (p_sel_rem_w (st_sel s) d); auto.
Qed.
Lemma p_del_exec_acts c l : forall s, st_del (p_exec_acts c s l) = st_del s.
Proof. unfold p_exec_acts. induction l; simpl; intros; auto. rewrite IHl. apply p_del_exec_act. Qed.
Lemma p_del_invoke c s d k : st_del (p_invoke c s d k) = st_del s.
Proof. unfold p_invoke. destruct (st_del s d); auto. destruct k; rewrite p_del_exec_acts; reflexivity. Qed.
Lemma p_be_exec_act c s a : st_be (p_exec_act c s a) = st_be s.
Proof.
  unfold p_exec_act. destruct (st_del s (p_act_target a)); auto.
  destruct a; simpl.
  - unfold p_add_r. simpl. destruct (st_be s) eqn:B. destruct (p_ep_add_r c (st_ep s) d); auto. destruct (p_sel_add_r c (st_sel s) d); auto.
  - unfold p_add_w. simpl. destruct (st_be s) eqn:B. destruct (p_ep_add_w (st_ep s) d); auto. destruct (p_sel_add_w (st_sel s) d); auto.
  - unfold p_rem_r. simpl. destruct (st_be s) eqn:B. destruct (p_ep_remove (st_ep s) d false); auto. destruct (p_sel_rem_r c (st_sel s) d); auto.
  - unfold p_rem_w. simpl. destruct (st_be s) eqn:B. destruct (p_ep_remove (st_ep s) d true); auto. destruct (p_sel_rem_w (st_sel s) d); auto.
Qed.
Lemma p_c_exec_acts c d l : ~ In (PAAddR d) l -> forall s, st_be s = false ->
  s_c (st_sel (p_exec_acts c s l)) d = SPres -> s_c (st_sel s) d = SPres.
Proof.
  unfold p_exec_acts. induction l; simpl; intros N s B H; auto.
  apply (p_c_exec_act c s a d B). intro; subst; apply N; auto.
  apply IHl; auto. rewrite p_be_exec_act; auto.
Qed.

Lemma p_hs_sel_prepare c s : p_hs c s -> p_hs c (p_sel_prepare c s).
Proof.
  intros H. unfold p_sel_prepare.
  set (s1 := p_set_sel s _).
  assert (H1 : p_hs c s1).
  { destruct H. unfold s1. constructor; simpl; auto.
    - intros d D. specialize (hs_del_c0 d D). destruct (s_c (st_sel s) d); simpl; congruence.
    - intros d D. specialize (hs_w0 d D). destruct (s_w (st_sel s) d); simpl; congruence.
    - intros d D. apply hs_cdoc0. destruct (s_c (st_sel s) d); simpl in D; congruence.
    - intros d D. apply hs_r0. destruct (s_r (st_sel s) d); simpl in D; congruence.
    - intros d D. apply hs_c0. destruct (s_c (st_sel s) d); simpl in D; congruence. }
  clearbody s1. revert s1 H1. induction (seq 0 (length c)); simpl; intros; auto.
  apply IHl.
  assert (X : (p_is_pres (s_c (st_sel s1) a) || p_is_pres (s_w (st_sel s1) a)) && st_del s1 a = false).
  { destruct (st_del s1 a) eqn:D; [|apply andb_false_r].
    destruct H1. destruct (hs_del_doc0 a D) as [DC _].
    specialize (hs_del_c0 a D). specialize (hs_w0 a DC).
    destruct (s_c (st_sel s1) a); destruct (s_w (st_sel s1) a); simpl; congruence. }
  rewrite X. exact H1.
Qed.

Lemma p_hs_sel_read_step c rset s d : p_hz_cfg c -> p_hs c s -> p_hs c (p_sel_read_step c rset s d).
Proof.
  intros G H. unfold p_sel_read_step.
  destruct (p_is_pres (s_r (st_sel s) d)) eqn:P; simpl; auto. destruct (rset d); auto.
  apply p_hs_invoke; auto. apply p_is_pres_eq in P.
  destruct (st_del s d) eqn:D; auto. destruct H. destruct (hs_del_doc0 d D). rewrite (hs_r0 d P) in *. discriminate.
Qed.
Lemma p_hs_sel_write_step c wset s d : p_hz_cfg c -> p_hs c s -> p_hs c (p_sel_write_step c wset s d).
Proof.
  intros G H. unfold p_sel_write_step.
  destruct (p_is_pres (s_w (st_sel s) d)) eqn:P; auto. apply p_is_pres_eq in P.
  assert (D : st_del s d = false).
  { destruct (st_del s d) eqn:D; auto. destruct H. destruct (hs_del_doc0 d D) as [DC _].
    exfalso. apply (hs_w0 d DC P). }
  unfold p_touch. rewrite D. destruct (wset d); auto. apply p_hs_invoke; auto.
Qed.
Lemma p_hs_sel_conn_step c rset s d : p_hz_cfg c -> p_hs c s -> p_hs c (p_sel_conn_step c rset s d).
Proof.
  intros G H. unfold p_sel_conn_step.
  destruct (p_is_pres (s_c (st_sel s) d)) eqn:P; auto. apply p_is_pres_eq in P.
  assert (D : st_del s d = false).
  { destruct (st_del s d) eqn:D; auto. destruct H. exfalso. apply (hs_del_c0 d D P). }
  assert (TS : p_touch s d = s) by (unfold p_touch; rewrite D; reflexivity).
  rewrite !TS.
  destruct (rset d); auto.
  destruct (negb (p_has_data s d)); [|apply p_hs_invoke; auto].
  pose proof (hs_cdoc _ _ H d P) as CD. pose proof (hs_c _ _ H d P) as CC.
  set (s1 := p_set_onclose s (p_upd (st_onclose s) d false)).
  set (t := st_sel s1).
  set (s2 := p_set_sel s1 (Build_p_sel (s_r t) (p_upd (s_c t) d STomb) (s_cdoc t) (s_w t))).
  assert (H2 : p_hs c s2).
  { destruct H. unfold s2, t, s1. constructor; simpl; auto.
    - intros x Hx. p_u x d; [congruence | apply hs_del_c0; auto].
    - intros x Hx. p_u x d; [congruence | apply hs_cdoc0; auto].
    - intros x Hx. p_u x d; [congruence | apply hs_c0; auto]. }
  assert (D2 : st_del s2 d = false) by exact D.
  assert (T2 : s_c (st_sel s2) d <> SPres).
  { unfold s2. simpl. unfold p_upd. rewrite Nat.eqb_refl. discriminate. }
  set (s3 := if st_onclose s d then p_invoke c s2 d PKClose else s2).
  assert (H3 : p_hs c s3).
  { unfold s3. destruct (st_onclose s d); auto. apply p_hs_invoke; auto. }
  change (s_cdoc t d) with (s_cdoc (st_sel s) d). rewrite CD.
  destruct (pc_doc (p_get c d)) eqn:DOC; auto.
  assert (T3 : s_c (st_sel s3) d <> SPres).
  { unfold s3. destruct (st_onclose s d); auto. unfold p_invoke. rewrite D2. intros X. apply T2.
    destruct (G d) as (_ & _ & _ & G4). specialize (G4 DOC).
    eapply (p_c_exec_acts c d (pc_cs (p_get c d)) G4) in X; [exact X|]. simpl. apply (hs_be _ _ H2). }
  unfold p_touch.
  assert (D3 : p_hs c (p_set_del s3 (p_upd (st_del s3) d true))).
  { destruct H3. constructor; simpl; auto.
    - intros x Hx. p_u x d; auto.
    - intros x Hx. p_u x d; auto. }
  assert (D3' : st_del s3 d = false).
  { unfold s3. destruct (st_onclose s d); auto. rewrite p_del_invoke. exact D2. }
  rewrite D3'. exact D3.
Qed.

Lemma p_hs_fold {A} c (f : p_st -> A -> p_st) l :
  (forall s a, p_hs c s -> p_hs c (f s a)) -> forall s, p_hs c s -> p_hs c (fold_left f l s).
Proof. intro H. induction l; simpl; intros; auto. Qed.

Lemma p_hs_sel_poll c s : p_hz_cfg c -> p_hs c s -> p_hs c (p_sel_poll c s).
Proof.
  intros G H. unfold p_sel_poll. pose proof (p_hs_sel_prepare c s H) as H1.
  set (s1 := p_sel_prepare c s) in *. clearbody s1.
  match goal with |- p_hs c (if ?b then _ else _) => destruct b end; auto.
  apply p_hs_fold. intros; apply p_hs_sel_write_step; auto.
  apply p_hs_fold. intros; apply p_hs_sel_conn_step; auto.
  apply p_hs_fold. intros; apply p_hs_sel_read_step; auto.
  exact H1.
Qed.

Lemma p_hs_frame c s s' :
  st_be s' = st_be s -> st_haz s' = st_haz s -> st_del s' = st_del s -> st_sel s' = st_sel s ->
  p_hs c s -> p_hs c s'.
Proof. intros A B C D H. destruct H. constructor; rewrite ?A, ?B, ?C, ?D; auto. Qed.

Lemma p_hs_step c s o : p_hz_cfg c -> p_op_ok c o -> p_hs c s -> p_hs c (p_step c s o).
Proof.
  intros G O H. unfold p_step. cbv zeta.
  match goal with |- p_hs c (p_set_opix ?x _) => apply (p_hs_frame c x); try reflexivity end.
  destruct o.
  - destruct (st_del s d) eqn:D; [exact H|]. pose proof (p_hs_add_r c s d D H) as X.
    destruct (p_add_r c s d) as [s' r]. simpl in X. apply (p_hs_frame c s'); try reflexivity. exact X.
  - destruct (st_del s d) eqn:D; [exact H|]. simpl in O. pose proof (p_hs_add_w c s d O H) as X.
    destruct (p_add_w c s d) as [s' r]. simpl in X. apply (p_hs_frame c s'); try reflexivity. exact X.
  - destruct (st_del s d) eqn:D; [exact H|]. pose proof (p_hs_rem_r c s d H) as X.
    destruct (p_rem_r c s d) as [s' r]. simpl in X. apply (p_hs_frame c s'); try reflexivity. exact X.
  - destruct (st_del s d) eqn:D; [exact H|]. pose proof (p_hs_rem_w c s d H) as X.
    destruct (p_rem_w c s d) as [s' r]. simpl in X. apply (p_hs_frame c s'); try reflexivity. exact X.
  - destruct (st_del s d || st_closed s d); [exact H|]. apply (p_hs_frame c s); try reflexivity. exact H.
  - destruct (st_del s d); [exact H|]. apply (p_hs_frame c s); try reflexivity. exact H.
  - rewrite (hs_be _ _ H). apply p_hs_sel_poll; auto.
Qed.

Lemma p_hs_init c : p_hs c (p_init false c).
Proof. constructor; simpl; auto; try discriminate; intros; discriminate. Qed.

(* ================= EPoller: nothing is ever deleted ================= *)
Definition p_he (s : p_st) : Prop := st_be s = true /\ st_haz s = false /\ forall d, st_del s d = false.

Lemma p_haz_exec_act c s a : st_haz (p_exec_act c s a) = st_haz s.
Proof.
  unfold p_exec_act. destruct (st_del s (p_act_target a)); auto.
  destruct a; simpl.
  - unfold p_add_r. simpl. destruct (st_be s). destruct (p_ep_add_r c (st_ep s) d); auto. destruct (p_sel_add_r c (st_sel s) d); auto.
  - unfold p_add_w. simpl. destruct (st_be s). destruct (p_ep_add_w (st_ep s) d); auto. destruct (p_sel_add_w (st_sel s) d); auto.
  - unfold p_rem_r. simpl. destruct (st_be s). destruct (p_ep_remove (st_ep s) d false); auto. destruct (p_sel_rem_r c (st_sel s) d); auto.
  - unfold p_rem_w. simpl. destruct (st_be s). destruct (p_ep_remove (st_ep s) d true); auto. destruct (p_sel_rem_w (st_sel s) d); auto.
Qed.
Lemma p_he_exec_acts c l : forall s, p_he s -> p_he (p_exec_acts c s l).
Proof.
  unfold p_exec_acts. induction l as [|a l IHl]; simpl; intros s (B & Z & D). repeat split; auto. apply IHl.
  split; [|split].
  - rewrite p_be_exec_act; auto.
  - rewrite p_haz_exec_act; auto.
  - rewrite p_del_exec_act; auto.
Qed.
Lemma p_he_invoke c s d k : p_he s -> p_he (p_invoke c s d k).
Proof.
  intros (B & Z & D). unfold p_invoke. rewrite D.
  destruct k; apply p_he_exec_acts; repeat split; auto.
Qed.
Lemma p_he_touch s d : p_he s -> p_touch s d = s.
Proof. intros (_ & _ & D). unfold p_touch. rewrite D. reflexivity. Qed.

Lemma p_ep_remove_cd e d2 id : ep_map e d2 = Some id ->
  e_cd (ep_obj (fst (p_ep_remove e d2 false)) id) = None.
Proof.
  intros M. unfold p_ep_remove. rewrite M.
  simpl. destruct (e_w (ep_obj e id)); unfold p_ep_set_obj; simpl; unfold p_upd; rewrite Nat.eqb_refl; reflexivity.
Qed.

Lemma p_he_ep_close c s id d : p_inv c true s -> st_regr s d = true -> p_he s -> p_he (p_ep_close c s id d).
Proof.
  intros I R H. unfold p_ep_close. rewrite !(p_he_touch s d H).
  set (s1 := p_set_onclose s (p_upd (st_onclose s) d false)).
  assert (I1 : p_inv c true s1) by exact I.
  assert (H1 : p_he s1) by exact H.
  set (s2 := if st_onclose s d then p_invoke c s1 d PKClose else s1).
  assert (I2 : p_inv c true s2).
  { unfold s2. destruct (st_onclose s d); auto. apply p_inv_invoke; auto. }
  assert (H2 : p_he s2).
  { unfold s2. destruct (st_onclose s d); auto. apply p_he_invoke; auto. }
  clearbody s2.
  destruct (e_cd (ep_obj (st_ep s2) id)) as [d2|] eqn:CD; auto.
  destruct (e_doc (ep_obj (st_ep s2) id)); auto.
  rewrite !(p_he_touch s2 d2 H2).
  assert (M : ep_map (st_ep s2) d2 = Some id).
  { destruct I2 as (_ & J & _). destruct (J id) as (_ & J2 & _). destruct (J2 d2 CD). auto. }
  pose proof (p_ep_remove_cd (st_ep s2) d2 id M) as X.
  destruct (p_ep_remove (st_ep s2) d2 false) as [e r]. simpl in X. simpl. rewrite X.
  destruct H2 as (B & Z & D). repeat split; auto.
Qed.

Lemma p_he_ep_check c s ev : p_inv c true s -> p_he s -> p_he (p_ep_check c s ev).
Proof.
  intros I H. unfold p_ep_check. destruct ev as [id fl].
  set (sf := if f_hup fl then _ else _).
  assert (H1 : p_he (fst sf)).
  { unfold sf. destruct (f_hup fl); [|exact H].
    destruct (e_rd (ep_obj (st_ep s) id)). simpl. apply p_he_invoke; auto.
    destruct (e_cd (ep_obj (st_ep s) id)) eqn:CD.
    - simpl. rewrite !(p_he_touch s n H).
      destruct (p_has_data s n). apply p_he_invoke; auto.
      apply p_he_ep_close; auto. eapply p_inv_ep_cd; eauto.
    - destruct (e_wd (ep_obj (st_ep s) id)); simpl; [|exact H]. apply p_he_invoke; auto. }
  destruct sf as [s1 fl1]. simpl in H1.
  assert (H2 : p_he (if f_in fl1
                     then match e_rd (ep_obj (st_ep s1) id), e_cd (ep_obj (st_ep s1) id) with
                          | Some d, _ => p_invoke c s1 d PKRead
                          | None, Some d => p_invoke c s1 d PKRead
                          | None, None => s1 end
                     else s1)).
  { destruct (f_in fl1); [|exact H1].
    destruct (e_rd (ep_obj (st_ep s1) id)). apply p_he_invoke; auto.
    destruct (e_cd (ep_obj (st_ep s1) id)); [|exact H1]. apply p_he_invoke; auto. }
  match goal with |- p_he (if f_out fl1 then match e_wd (ep_obj (st_ep ?s2) id) with _ => _ end else _) =>
    set (s2v := s2) in * end.
  destruct (f_out fl1); [|exact H2].
  destruct (e_wd (ep_obj (st_ep s2v) id)); [|exact H2]. apply p_he_invoke; auto.
Qed.

Lemma p_he_ep_poll c s desc : p_inv c true s -> p_he s -> p_he (p_ep_poll c s desc).
Proof.
  intros I H. unfold p_ep_poll.
  destruct (p_ep_batch c s (if desc then rev (seq 0 (length c)) else seq 0 (length c))); [exact H|].
  assert (X : forall l s0, p_inv c true s0 -> p_he s0 -> p_he (fold_left (p_ep_check c) l s0)).
  { induction l0; simpl; intros; auto. apply IHl0. apply p_inv_ep_check; auto. apply p_he_ep_check; auto. }
  specialize (X (p :: l) s I H). destruct X as (B & Z & D). repeat split; auto.
Qed.

Lemma p_he_step c s o : p_inv c true s -> p_he s -> p_he (p_step c s o).
Proof.
  intros I H. unfold p_step.
  assert (X : p_he (match o with
    | POAddR d => if st_del s d then s else let '(s', r) := p_add_r c s d in p_push_ret s' r
    | POAddW d => if st_del s d then s else let '(s', r) := p_add_w c s d in p_push_ret s' r
    | PORemR d => if st_del s d then s else let '(s', r) := p_rem_r c s d in p_push_ret s' r
    | PORemW d => if st_del s d then s else let '(s', r) := p_rem_w c s d in p_push_ret s' r
    | POWrite d bs => if st_del s d || st_closed s d then s else p_set_pend s (p_upd (st_pend s) d (st_pend s d ++ bs))
    | POClosePeer d => if st_del s d then s else p_set_closed s (p_upd (st_closed s) d true)
    | POPoll desc => if st_be s then p_ep_poll c s desc else p_sel_poll c s end)).
  { destruct H as (B & Z & D). destruct o; rewrite ?D; simpl.
    - pose proof (p_he_exec_acts c [PAAddR d] s (conj B (conj Z D))) as X. unfold p_exec_acts, p_exec_act in X.
      simpl in X. rewrite D in X. destruct (p_add_r c s d) as [s' r]. exact X.
    - pose proof (p_he_exec_acts c [PAAddW d] s (conj B (conj Z D))) as X. unfold p_exec_acts, p_exec_act in X.
      simpl in X. rewrite D in X. destruct (p_add_w c s d) as [s' r]. exact X.
    - pose proof (p_he_exec_acts c [PARemR d] s (conj B (conj Z D))) as X. unfold p_exec_acts, p_exec_act in X.
      simpl in X. rewrite D in X. destruct (p_rem_r c s d) as [s' r]. exact X.
    - pose proof (p_he_exec_acts c [PARemW d] s (conj B (conj Z D))) as X. unfold p_exec_acts, p_exec_act in X.
      simpl in X. rewrite D in X. destruct (p_rem_w c s d) as [s' r]. exact X.
    - destruct (st_closed s d); repeat split; auto.
    - repeat split; auto.
    - rewrite B. apply p_he_ep_poll; auto. repeat split; auto. }
  destruct X as (B & Z & D). repeat split; auto.
Qed.

(* ================= runs ================= *)
Lemma p_no_hazard be c ops : p_hz_cfg c -> p_hz_ops c ops -> st_haz (p_run be c ops) = false.
Proof.
  intros G O. unfold p_run. destruct be.
  - assert (X : forall l s, p_inv c true s -> p_he s -> p_he (fold_left (p_step c) l s)).
    { induction l; simpl; intros; auto. apply IHl. apply p_inv_step; auto. apply p_he_step; auto. }
    apply (X ops (p_init true c)). apply p_inv_init. repeat split; auto.
  - assert (X : forall l s, Forall (p_op_ok c) l -> p_hs c s -> p_hs c (fold_left (p_step c) l s)).
    { induction l; simpl; intros s F H; auto. inversion F; subst. apply IHl; auto. apply p_hs_step; auto. }
    apply (hs_haz c). apply X; auto. apply p_hs_init.
Qed.
