(* C16 part (b): a descriptor whose registration the epoll interface refuses never gets a callback from EPoller,
   and the descriptors registered after it are served as if the refused Add had not happened. *)
Require Import List Arith Bool NArith Lia.
Import ListNotations.
From C16 Require Import PModel PProofs PClose PHaz PWf PLive PAbs PSimS PSimE PSim.

Definition p_nr (c : p_cfg) (s : p_st) : Prop := forall e, In e (st_log s) -> p_refused c (le_d e) = false.
(* every refused descriptor r: the EPollData id belongs to somebody else or is parked on the orphan list *)
Definition p_qr (c : p_cfg) (s : p_st) (id : nat) : Prop := forall r, p_refused c r = true -> p_qs r s id.

Lemma p_nr_same c s s' : st_log s' = st_log s -> p_nr c s -> p_nr c s'.
Proof. intros E N e. rewrite E. apply N. Qed.

Lemma p_nr_invoke c s x k : p_refused c x = false -> p_nr c s -> p_nr c (p_invoke c s x k).
Proof.
  intros R N. unfold p_invoke. destruct (st_del s x). exact N.
  destruct k; (eapply p_nr_same; [apply p_same_log, p_same_exec_acts|]); intros e [<-|H]; simpl; auto.
Qed.
Lemma p_nr_touch c s x : p_nr c s -> p_nr c (p_touch s x).
Proof. intros N. unfold p_touch. destruct (st_del s x); exact N. Qed.

(* a pointer found in the EPollData of an event that is not a refused descriptor's is not a refused descriptor *)
Lemma p_ptr_not_refused c s id x : p_inv c true s -> p_wfs s -> p_qr c s id ->
  (e_rd (ep_obj (st_ep s) id) = Some x \/ e_cd (ep_obj (st_ep s) id) = Some x \/ e_wd (ep_obj (st_ep s) id) = Some x) ->
  p_refused c x = false.
Proof.
  intros (_ & J & _) (_ & W) Q H. destruct (p_refused c x) eqn:R; auto. exfalso.
  assert (M : ep_map (st_ep s) x = Some id).
  { destruct (J id) as (J1 & J2 & J3 & _). destruct H as [H|[H|H]];
      [destruct (J1 x H)|destruct (J2 x H)|destruct (J3 x H)]; auto. }
  exact (p_q_not_d x (st_ep s) id W (Q x R) M).
Qed.

Lemma p_qr_invoke c s x k id : p_qr c s id -> p_qr c (p_invoke c s x k) id.
Proof. intros Q r R. apply p_qs_invoke. apply Q; auto. Qed.
Lemma p_qr_touch c s x id : p_qr c s id -> p_qr c (p_touch s x) id.
Proof. intros Q r R. apply p_qs_touch. apply Q; auto. Qed.

Lemma p_nr_ep_close c s id x : p_refused c x = false -> p_nr c s -> p_nr c (p_ep_close c s id x).
Proof.
  intros R N. unfold p_ep_close.
  pose proof (p_nr_touch c s x N) as N0. set (s0 := p_touch s x) in *. clearbody s0.
  set (s1 := p_set_onclose s0 _).
  set (s2 := if st_onclose s0 x then p_invoke c s1 x PKClose else s1).
  assert (N2 : p_nr c s2) by (unfold s2; destruct (st_onclose s0 x); [apply p_nr_invoke; auto|]; exact N0).
  clearbody s2. destruct (e_cd (ep_obj (st_ep s2) id)) as [d2|]; auto.
  destruct (e_doc (ep_obj (st_ep s2) id)); auto.
  pose proof (p_nr_touch c s2 d2 N2) as N3. set (s3 := p_touch s2 d2) in *. clearbody s3.
  destruct (p_ep_remove (st_ep s3) d2 false) as [e r]. simpl.
  eapply p_nr_same; [|exact N3]. destruct (e_cd (ep_obj e id)) as [d3|]; simpl; auto.
  unfold p_touch. simpl. destruct (st_del s3 d3); reflexivity.
Qed.

Lemma p_nr_ep_check c s id fl : p_inv c true s -> p_wfs s -> p_qr c s id -> p_nr c s ->
  p_nr c (p_ep_check c s (id, fl)).
Proof.
  intros I W Q N. unfold p_ep_check.
  set (sf := if f_hup fl then _ else _).
  assert (X1 : p_nr c (fst sf) /\ p_inv c true (fst sf) /\ p_wfs (fst sf) /\ p_qr c (fst sf) id).
  { unfold sf. destruct (f_hup fl); [|auto].
    destruct (e_rd (ep_obj (st_ep s) id)) eqn:RD.
    { assert (p_refused c n = false) by (eapply p_ptr_not_refused; eauto).
      simpl. split; [apply p_nr_invoke; auto|]. split; [apply p_inv_invoke; auto; simpl; eapply p_inv_ep_rd; eauto|].
      split; [apply p_wfs_invoke; auto|apply p_qr_invoke; auto]. }
    destruct (e_cd (ep_obj (st_ep s) id)) eqn:CD.
    - assert (R : p_refused c n = false) by (eapply p_ptr_not_refused; eauto).
      simpl. pose proof (p_nr_touch c s n N) as N0. pose proof (p_inv_touch c true s n I) as I0.
      pose proof (p_wfs_touch s n W) as W0. pose proof (p_qr_touch c s n id Q) as Q0.
      assert (RG : st_regr (p_touch s n) n = true).
      { unfold p_touch. destruct (st_del s n); simpl; eapply p_inv_ep_cd; eauto. }
      destruct (p_has_data (p_touch s n) n).
      + split; [apply p_nr_invoke; auto|]. split; [apply p_inv_invoke; auto|].
        split; [apply p_wfs_invoke; auto|apply p_qr_invoke; auto].
      + split; [apply p_nr_ep_close; auto|]. split; [apply p_inv_ep_close; auto|].
        split; [apply p_wfs_ep_close; auto|]. intros r Rr. apply p_qs_ep_close. apply Q0; auto.
    - destruct (e_wd (ep_obj (st_ep s) id)) eqn:WD; simpl; [|auto].
      assert (p_refused c n = false) by (eapply p_ptr_not_refused; eauto).
      split; [apply p_nr_invoke; auto|]. split; [apply p_inv_invoke; auto; simpl; eapply p_inv_ep_wd; eauto|].
      split; [apply p_wfs_invoke; auto|apply p_qr_invoke; auto]. }
  destruct sf as [s1 fl1]. simpl in X1. destruct X1 as (N1 & I1 & W1 & Q1).
  set (s2 := if f_in fl1 then _ else s1).
  assert (X2 : p_nr c s2 /\ p_inv c true s2 /\ p_wfs s2 /\ p_qr c s2 id).
  { unfold s2. destruct (f_in fl1); [|auto].
    destruct (e_rd (ep_obj (st_ep s1) id)) eqn:RD.
    { assert (p_refused c n = false) by (eapply p_ptr_not_refused; eauto).
      split; [apply p_nr_invoke; auto|]. split; [apply p_inv_invoke; auto; simpl; eapply p_inv_ep_rd; eauto|].
      split; [apply p_wfs_invoke; auto|apply p_qr_invoke; auto]. }
    destruct (e_cd (ep_obj (st_ep s1) id)) eqn:CD; [|auto].
    assert (p_refused c n = false) by (eapply p_ptr_not_refused; eauto).
    split; [apply p_nr_invoke; auto|]. split; [apply p_inv_invoke; auto; simpl; eapply p_inv_ep_cd; eauto|].
    split; [apply p_wfs_invoke; auto|apply p_qr_invoke; auto]. }
  clearbody s2. destruct X2 as (N2 & I2 & W2 & Q2).
  destruct (f_out fl1); auto.
  destruct (e_wd (ep_obj (st_ep s2) id)) eqn:WD; auto.
  apply p_nr_invoke; auto. eapply p_ptr_not_refused; eauto.
Qed.

(* the ids in the ready list belong to descriptors that are not refused *)
Lemma p_ready_qr c s ds : forall ev, In ev (p_ep_ready c s ds) -> p_qr c s (fst ev).
Proof.
  induction ds as [|x ds IH]; simpl; intros ev H. tauto.
  destruct (ep_map (st_ep s) x) as [i|] eqn:M; [|apply IH; auto].
  destruct (p_flag_any (p_ep_flags c s (ep_obj (st_ep s) i) x)) eqn:FA; [|apply IH; auto].
  destruct H as [<-|H]; [|apply IH; auto].
  intros r R. left. exists x. split; auto. intro; subst x. unfold p_ep_flags in FA. rewrite R in FA. discriminate.
Qed.

Lemma p_nr_fold c : forall evs s, (forall ev, In ev evs -> p_qr c s (fst ev)) ->
  p_inv c true s -> p_wfs s -> p_nr c s -> p_nr c (fold_left (p_ep_check c) evs s).
Proof.
  induction evs as [|[i fl] evs IH]; intros s Q I W N; cbn [fold_left]; auto.
  apply IH.
  - intros ev H r R. apply p_qs_ep_check. apply (Q ev (or_intror H)); auto.
  - apply p_inv_ep_check; auto.
  - apply p_wfs_ep_check; auto.
  - apply p_nr_ep_check; auto. apply (Q (i, fl)). left; auto.
Qed.

Lemma p_nr_ep_poll c s desc : p_inv c true s -> p_wfs s -> p_nr c s -> p_nr c (p_ep_poll c s desc).
Proof.
  intros I W N. unfold p_ep_poll.
  destruct (p_ep_batch c s (if desc then rev (seq 0 (length c)) else seq 0 (length c))) as [|ev evs] eqn:B; auto.
  eapply p_nr_same; [reflexivity|]. apply p_nr_fold; auto.
  intros ev' H. apply (p_ready_qr c s (if desc then rev (seq 0 (length c)) else seq 0 (length c))).
  unfold p_ep_batch in B. rewrite <- (firstn_skipn p_max_events). apply in_or_app. left. rewrite B. exact H.
Qed.

Lemma p_nr_step c s o : st_be s = true -> p_inv c true s -> p_wfs s -> p_nr c s -> p_nr c (p_step c s o).
Proof.
  intros BE I W N. unfold p_step. cbv zeta. eapply p_nr_same; [reflexivity|].
  destruct o.
  - destruct (st_del s d); auto. pose proof (p_same_add_r c s d) as X. destruct (p_add_r c s d) as [s' r].
    eapply p_nr_same; [|exact N]. destruct X; simpl in *; auto.
  - destruct (st_del s d); auto. pose proof (p_same_add_w c s d) as X. destruct (p_add_w c s d) as [s' r].
    eapply p_nr_same; [|exact N]. destruct X; simpl in *; auto.
  - destruct (st_del s d); auto. pose proof (p_same_rem_r c s d) as X. destruct (p_rem_r c s d) as [s' r].
    eapply p_nr_same; [|exact N]. destruct X; simpl in *; auto.
  - destruct (st_del s d); auto. pose proof (p_same_rem_w c s d) as X. destruct (p_rem_w c s d) as [s' r].
    eapply p_nr_same; [|exact N]. destruct X; simpl in *; auto.
  - destruct (st_del s d || st_closed s d); auto.
  - destruct (st_del s d); auto.
  - rewrite BE. apply p_nr_ep_poll; auto.
Qed.

Theorem p_refused_never_called c ops e :
  In e (p_log (p_run true c ops)) -> p_refused c (le_d e) = false.
Proof.
  unfold p_log. rewrite <- in_rev. revert e.
  change (p_nr c (p_run true c ops)). unfold p_run.
  assert (X : forall l s, st_be s = true -> p_inv c true s -> p_wfs s -> p_nr c s ->
                p_nr c (fold_left (p_step c) l s)).
  { induction l as [|o l IH]; simpl; intros s B I W N; auto. apply IH.
    - destruct (p_inv_step c true s o I) as (B' & _). exact B'.
    - apply p_inv_step; auto.
    - apply p_wfs_step; auto.
    - apply p_nr_step; auto. }
  apply X. reflexivity. apply p_inv_init. apply (p_wfs_run c []). intros e [].
Qed.

(* ---------- the other descriptors are served as if the refused Add had not happened ---------- *)
(* an operation that is not a poll and is aimed at a descriptor other than d *)
Definition p_op_other (d : nat) (o : p_op) : bool :=
  match o with
  | POAddR x | POAddW x | PORemR x | PORemW x | POWrite x _ | POClosePeer x => negb (x =? d)
  | POPoll _ => false
  end.
Definition p_same_for (d : nat) (o o' : p_op) : Prop := o = o' \/ (p_op_other d o = true /\ p_op_other d o' = true).

Lemma l_step_other c d n a o : p_op_other d o = true -> l_step c d n a o = a.
Proof. destruct o; simpl; intros H; try discriminate; apply negb_true_iff in H; rewrite H; reflexivity. Qed.

Lemma l_run_ext c d : forall ops ops', Forall2 (p_same_for d) ops ops' ->
  forall n a, l_run c d n a ops = l_run c d n a ops'.
Proof.
  induction 1 as [|o o' ops ops' S F IH]; intros n a; simpl; auto.
  destruct S as [->|[S1 S2]]; [apply IH|]. rewrite (l_step_other c d n a o S1), (l_step_other c d n a o' S2). apply IH.
Qed.

Theorem p_other_ops_invisible c d ops ops' be :
  p_d_ok c d = true -> d < length c -> length c <= p_max_events ->
  p_ops_ok_d c d ops = true -> p_ops_ok_d c d ops' = true -> Forall2 (p_same_for d) ops ops' ->
  p_proj d (p_log (p_run be c ops)) = p_proj d (p_log (p_run be c ops')).
Proof.
  intros GD L LM GO GO' F. rewrite (p_refine_d c d GD L LM ops be GO), (p_refine_d c d GD L LM ops' be GO').
  rewrite (l_run_ext c d ops ops' F). reflexivity.
Qed.

(* the operation list with every Add of r replaced, in place, by a zero-byte write (the positions, hence the
   operation indices recorded in the log, stay the same) *)
Definition p_op_is_add (r : nat) (o : p_op) : bool :=
  match o with POAddR x | POAddW x => x =? r | _ => false end.
Definition p_without_adds (r : nat) (ops : list p_op) : list p_op :=
  map (fun o => if p_op_is_add r o then POWrite r [] else o) ops.

Theorem p_refused_add_invisible c r d ops be :
  d <> r -> p_d_ok c d = true -> d < length c -> length c <= p_max_events -> p_ops_ok_d c d ops = true ->
  p_proj d (p_log (p_run be c ops)) = p_proj d (p_log (p_run be c (p_without_adds r ops))).
Proof.
  intros N GD L LM GO. apply p_other_ops_invisible; auto.
  - unfold p_ops_ok_d, p_without_adds in *. rewrite forallb_forall in *. intros o H. apply in_map_iff in H.
    destruct H as (o0 & <- & H). specialize (GO o0 H). destruct (p_op_is_add r o0); auto.
  - unfold p_without_adds. clear GO. induction ops as [|o ops IH]; simpl; constructor; auto.
    destruct (p_op_is_add r o) eqn:A; [|left; reflexivity]. right.
    assert (E : negb (r =? d) = true) by (apply negb_true_iff, Nat.eqb_neq; auto).
    split; [|exact E]. destruct o; simpl in *; try discriminate; apply Nat.eqb_eq in A; subst; exact E.
Qed.
