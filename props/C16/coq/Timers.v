(* C16 part (a): the lemmas that Properties.v states as theorems *)
From OlaBase Require Import Bytes.
From C16 Require Import Model Proofs Invariant Invariant2.
Local Open Scope N_scope.

Section Timers.
Variable alloc : list N -> N -> N.
Variable pickc : list N -> N -> option N.
Hypothesis alloc_ok : forall live h, ~ In (alloc live h) live /\ alloc live h <> 0.
Hypothesis pickc_ok : forall live h id, pickc live h = Some id -> In id live.
Notation do_action := (do_action alloc pickc).
Notation turn := (turn alloc pickc).
Notation loop := (loop alloc pickc).
Notation do_exec := (do_exec alloc pickc).
Notation run := (run alloc pickc).

Lemma reach_inv ops s : run init ops = Some s -> Inv s /\ cur s = None.
Proof.
  intros H. destruct (run_star alloc pickc pickc_ok ops init s eq_refl H) as [S C].
  split; auto. eapply (star_inv alloc pickc alloc_ok); eauto. apply inv_init.
Qed.

(* ---------------------------------------------------------------- nothing overdue after ExecuteTimeouts *)
Lemma turn_now s e now cbs s' now' cbs' :
  now = clock s -> turn s e now cbs = (s', now', cbs') -> now' = clock s'.
Proof. clear alloc_ok pickc_ok.
  intros -> . unfold Model.turn.
  destruct (mem (eid e) (removed (popped s e))).
  - intros E; inversion E; subst. reflexivity.
  - destruct (next_script cbs) as [sc r]. intros E; inversion E; subst. reflexivity.
Qed.

Lemma loop_post fuel : forall s now cbs s' now',
  now = clock s -> loop fuel s now cbs = Some (s', now') ->
  now' = clock s' /\ forall x, In x (q s') -> clock s' < enext x.
Proof. clear alloc_ok pickc_ok.
  induction fuel; simpl; intros s now cbs s' now' Hn H. discriminate.
  destruct (peek s) as [e|] eqn:P.
  - destruct (enext e <=? now) eqn:D.
    + destruct (turn s e now cbs) as [[s1 now1] cbs1] eqn:T.
      eapply IHfuel; [|exact H]. eapply turn_now; eauto.
    + inversion H; subst. split; auto. apply N.leb_gt in D. apply peek_some in P. destruct P as [_ Hmin].
      intros x Hx. specialize (Hmin x Hx). lia.
  - inversion H; subst. split; auto. apply peek_none in P. rewrite P. intros x [].
Qed.

Lemma exec_post s cbs s' now' :
  do_exec s cbs = Some (s', now') -> now' = clock s' /\ forall x, In x (q s') -> clock s' < enext x.
Proof. clear alloc_ok pickc_ok. unfold Model.do_exec. apply loop_post. reflexivity. Qed.

(* ---------------------------------------------------------------- the loop terminates (no OutOfFuel) *)
Lemma q_cancel s id : q (do_cancel_id s id) = q s.
Proof. unfold do_cancel_id. destruct (id =? 0); reflexivity. Qed.
Definition isreg (a : action) : bool := match a with AReg _ _ _ => true | _ => false end.
Lemma q_actions l : forall s,
  length (q (fold_left do_action l s)) = (length (q s) + length (filter isreg l))%nat.
Proof. clear alloc_ok pickc_ok.
  induction l as [|a l IH]; simpl; intros s. lia.
  rewrite IH. destruct a; simpl.
  - destruct (cur s); rewrite ?q_cancel; lia.
  - unfold do_cancel. destruct (pickc (ids s) h); rewrite ?q_cancel; lia.
  - lia.
  - lia.
Qed.
Lemma filter_len_le {A} (p : A -> bool) l : (length (filter p l) <= length l)%nat.
Proof. clear alloc_ok pickc_ok. induction l; simpl; auto. destruct (p a); simpl; lia. Qed.
Lemma remove_ser_len e l : In e l -> (length (remove_ser (eser e) l) < length l)%nat.
Proof. clear alloc_ok pickc_ok.
  induction l as [|a l IH]; simpl; intros H. tauto.
  destruct H as [->|H].
  - rewrite N.eqb_refl. simpl. pose proof (filter_len_le (fun e0 => negb (eser e0 =? eser e)) l). 
    unfold remove_ser in *. lia.
  - specialize (IH H). destruct (negb (eser a =? eser e)); simpl; lia.
Qed.

Lemma loop_fuel fuel : forall s now cbs,
  (length (q s) + weight cbs < fuel)%nat -> loop fuel s now cbs <> None.
Proof. clear alloc_ok pickc_ok.
  induction fuel; simpl; intros s now cbs Hf. lia.
  destruct (peek s) as [e|] eqn:P; [|discriminate].
  destruct (enext e <=? now); [|discriminate].
  apply peek_some in P. destruct P as [Hin _].
  pose proof (remove_ser_len e (q s) Hin) as Hlen.
  unfold Model.turn.
  destruct (mem (eid e) (removed (popped s e))).
  - apply IHfuel. simpl. lia.
  - destruct cbs as [|c r]; simpl.
    + rewrite andb_false_r. apply IHfuel. simpl. lia.
    + set (s3 := fold_left do_action (acts c) (begin_fire (popped s e) e now)).
      assert (L3 : length (q s3) = (length (remove_ser (eser e) (q s)) + nregs c)%nat).
      { unfold s3. rewrite q_actions. reflexivity. }
      destruct (erep e && sret c); apply IHfuel; simpl; simpl in Hf; lia.
Qed.

Lemma exec_terminates s cbs : do_exec s cbs <> None.
Proof. clear alloc_ok pickc_ok. unfold Model.do_exec. apply loop_fuel. unfold fuel_of. lia. Qed.

Lemma run_total ops : forall s, run s ops <> None.
Proof. clear alloc_ok pickc_ok.
  induction ops as [|o ops IH]; simpl; intros s. discriminate.
  destruct o; simpl; try apply IH.
  pose proof (exec_terminates s cbs) as H.
  destruct (do_exec s cbs) as [[s1 n1]|]; [apply IH|congruence].
Qed.

Lemma reach_inv2 ops s : run init ops = Some s -> Inv s /\ Inv2 s /\ cur s = None.
Proof.
  intros H. destruct (run_star alloc pickc pickc_ok ops init s eq_refl H) as [S C].
  assert (X : Inv s /\ Inv2 s).
  { eapply (star_inv2 alloc pickc alloc_ok); eauto. apply inv_init. apply (inv2_init alloc pickc alloc_ok). }
  tauto.
Qed.

Lemma reach_q ops s : run init ops = Some s -> evs s = q s.
Proof. intros H. apply reach_inv in H. destruct H as [_ C]. apply evs_nocur; auto. Qed.

Lemma t_not_early ops s e now : run init ops = Some s -> In (LFire e now) (log s) ->
  enext e = earm e + eint e /\ earm e + eint e <= now.
Proof.
  intros H Hf. apply reach_inv in H. destruct H as [I _].
  destruct (i_fire_time _ I e now Hf) as [A B]. split; auto. lia.
Qed.

Lemma t_single_once ops s l1 l2 e now : run init ops = Some s ->
  log s = l1 ++ LFire e now :: l2 -> erep e = false ->
  forall e' now', In (LFire e' now') (l1 ++ l2) -> eser e' <> eser e.
Proof. intros H E S. apply reach_inv2 in H. destruct H as (_ & J & _). exact (j_single_once _ J l1 l2 e now E S). Qed.

Lemma t_ret_false_last ops s l1 l2 n : run init ops = Some s ->
  log s = l1 ++ LRet n false :: l2 -> forall e now, In (LFire e now) l1 -> eser e <> n.
Proof. intros H E. apply reach_inv2 in H. destruct H as (_ & J & _). exact (j_ret_order _ J l1 l2 n E). Qed.

Lemma t_conservation ops s n : run init ops = Some s -> n < nser s ->
  (exists e, In e (q s) /\ eser e = n) \/ In (LRet n false) (log s) \/
  (exists e, In (LDrop e) (log s) /\ eser e = n /\ exists id, In (LCancel n id) (log s)).
Proof.
  intros H Hn. pose proof (reach_q _ _ H) as EQ. apply reach_inv2 in H. destruct H as (I & J & _).
  destruct (j_cons _ J n Hn) as [(e & He & E)|[Hr|(e & He & E)]].
  - left. exists e. rewrite <- EQ. auto.
  - right; left; auto.
  - right; right. exists e. repeat split; auto. subst n. apply (i_drop _ I); auto.
Qed.

Lemma t_no_fire_after_cancel ops s l1 l2 e now : run init ops = Some s ->
  log s = l1 ++ LFire e now :: l2 -> forall id, ~ In (LCancel (eser e) id) l2.
Proof. intros H E. apply reach_inv in H. destruct H as [I _]. exact (i_fire_nocancel _ I l1 l2 e now E). Qed.

Lemma t_drop_only_cancelled ops s e : run init ops = Some s -> In (LDrop e) (log s) ->
  exists id, In (LCancel (eser e) id) (log s).
Proof. intros H. apply reach_inv in H. destruct H as [I _]. apply (i_drop _ I). Qed.

Lemma t_no_stale_id ops s id : run init ops = Some s -> In id (removed s) ->
  exists e, In e (q s) /\ eid e = id /\ exists id', In (LCancel (eser e) id') (log s).
Proof.
  intros H Hid. pose proof (reach_q _ _ H) as EQ. apply reach_inv in H. destruct H as [I _].
  pose proof (i_rm _ I id Hid) as Hin. apply ids_ev in Hin. destruct Hin as (e & He & E).
  exists e. rewrite <- EQ. repeat split; auto. apply (i_canc _ I e He). congruence.
Qed.

Lemma t_marked_iff_cancelled ops s e : run init ops = Some s -> In e (q s) ->
  (In (eid e) (removed s) <-> exists id, In (LCancel (eser e) id) (log s)).
Proof.
  intros H He. pose proof (reach_q _ _ H) as EQ. apply reach_inv in H. destruct H as [I _].
  apply (i_canc _ I). rewrite EQ; auto.
Qed.

Lemma t_untouched ops s e0 e : run init ops = Some s -> In (LReg e0) (log s) -> In e (q s) ->
  eser e = eser e0 -> (forall e1 now, In (LFire e1 now) (log s) -> eser e1 <> eser e0) -> e = e0.
Proof.
  intros H Hr He E U. pose proof (reach_q _ _ H) as EQ. apply reach_inv2 in H. destruct H as (_ & J & _).
  eapply (j_unfired _ J); eauto. rewrite EQ; auto.
Qed.

(* ---------------------------------------------------------------- value returned by ExecuteTimeouts *)
Lemma t_next_nonneg s cbs s' now' : do_exec s cbs = Some (s', now') ->
  (0 <= next_in_z s' now')%Z /\ Z.of_N (next_in s' now') = next_in_z s' now' /\
  (q s' <> [] -> (0 < next_in_z s' now')%Z).
Proof.
  clear alloc_ok pickc_ok. intros H. destruct (exec_post s cbs s' now' H) as [E P]. subst now'.
  unfold next_in_z, next_in. destruct (peek s') as [e|] eqn:PK.
  - apply peek_some in PK. destruct PK as [Hin _]. specialize (P e Hin). repeat split; try lia.
  - apply peek_none in PK. repeat split; try lia. congruence.
Qed.
Lemma t_poll_sleep_bounded ep s now b e : peek s = Some e -> now < enext e ->
  now + poll_sleep ep s now b <= enext e.
Proof.
  clear alloc_ok pickc_ok. intros PK L. unfold poll_sleep. rewrite PK.
  assert (X : N.min (enext e - now) b <= enext e - now) by apply N.le_min_l.
  destruct ep; [|lia].
  pose proof (N.div_mod (N.min (enext e - now) b) 1000). lia.
Qed.
End Timers.

(* ---------------------------------------------------------------- the hypotheses are satisfiable *)
Definition fresh_alloc (live : list N) (h : N) : N := 1 + fold_right N.max 0 live.
Lemma fresh_alloc_ok live h : ~ In (fresh_alloc live h) live /\ fresh_alloc live h <> 0.
Proof.
  unfold fresh_alloc. split; [|lia].
  assert (B : forall x, In x live -> x <= fold_right N.max 0 live).
  { induction live; simpl; intros x []. subst. lia. specialize (IHlive _ H). lia. }
  intros H. apply B in H. lia.
Qed.

Lemma nth_mod_in (l : list N) h : l <> [] -> In (nth (N.to_nat (h mod len l)) l 0) l.
Proof.
  intros Hl. apply nth_In. unfold len.
  assert (N.of_nat (length l) <> 0) by (destruct l; [congruence|simpl; lia]).
  pose proof (N.mod_upper_bound h (N.of_nat (length l)) H). lia.
Qed.
Lemma pool_slots_nz x : In x pool_slots -> x <> 0.
Proof. unfold pool_slots. rewrite in_map_iff. intros (n & <- & H). apply in_seq in H. lia. Qed.
Lemma pool_alloc_ok live h : ~ In (pool_alloc live h) live /\ pool_alloc live h <> 0.
Proof.
  unfold pool_alloc. destruct (filter (fun i => negb (mem i live)) pool_slots) as [|a r] eqn:F.
  - apply (fresh_alloc_ok live h).
  - assert (In (nth (N.to_nat (h mod len (a :: r))) (a :: r) 0) (a :: r)) by (apply nth_mod_in; discriminate).
    remember (nth (N.to_nat (h mod len (a :: r))) (a :: r) 0) as x. clear Heqx.
    rewrite <- F in H. apply filter_In in H. destruct H as [H1 H2].
    split. apply negb_true_iff, mem_nIn in H2. exact H2. apply pool_slots_nz; auto.
Qed.
Lemma pool_pick_ok live h id : pool_pick live h = Some id -> In id live.
Proof.
  unfold pool_pick. remember (filter (fun i => mem i live) pool_slots) as u eqn:F.
  destruct u as [|a r]. discriminate.
  intros E.
  assert (H : In id (a :: r)).
  { assert (E2 : nth (N.to_nat (h mod len (a :: r))) (a :: r) 0 = id) by (injection E as E; exact E).
    rewrite <- E2. apply nth_mod_in. discriminate. }
  rewrite F in H. apply filter_In in H. destruct H as [_ H]. apply mem_In; auto.
Qed.

(* ---------------------------------------------------------------- millisecond registration overloads *)
Lemma ms_to_us_exact ms : ms_to_us ms = 1000 * ms.
Proof. unfold ms_to_us. pose proof (N.div_mod ms 1000). lia. Qed.
Lemma ms_to_us_args_fit ms : ms < 4294967296 -> ms / 1000 < 2147483648 /\ ms mod 1000 * 1000 < 2147483648.
Proof.
  intros H. split.
  - apply N.div_lt_upper_bound; lia.
  - pose proof (N.mod_upper_bound ms 1000). lia.
Qed.
