(* C16 — Event-loop timers and descriptor callbacks honour their registration contract.
   Only theorem statements here; proofs are in Proofs.v / Invariant.v / Invariant2.v / Timers.v
   (part (a), timers) and PProofs*.v (part (b), pollers).

   Part (a) vocabulary (Model.v).  A history is a list of operations [op] (register / cancel a timer
   that is still allocated / advance the clock / ExecuteTimeouts with the scripts of the callbacks it
   will run, which may themselves cancel their own or another timer, register timers, let time pass
   and return true or false).  [run alloc pickc init ops = Some s] : the history ran from the empty
   manager to state s.  [alloc] is the Event allocator (ids are addresses and may be re-used), [pickc]
   chooses which allocated timer a cancel is aimed at; theorems hold for EVERY allocator returning a
   non-NULL address that is not currently allocated and every choice of live cancel targets.
   [log s] is the chronological trace, NEWEST FIRST: in [log s = l1 ++ x :: l2], l2 happened before x
   and l1 after.  [eser] is the never re-used serial number of one registration ("the timer");
   [earm e] is the time e was registered or last re-armed, [enext e] its deadline (m_next). *)
From OlaBase Require Import Bytes.
From C16 Require Import Gen Model TimeVal Proofs Invariant Invariant2 Timers Due PModel PProofs PClose PAgree PAgreeW PHaz PWf PLive PAbs PSimS PSimE PSim PReg PRefused PIntr.
Local Open Scope N_scope.

Definition allocator_ok (alloc : list N -> N -> N) : Prop :=
  forall live h, ~ In (alloc live h) live /\ alloc live h <> 0.
Definition cancel_target_ok (pickc : list N -> N -> option N) : Prop :=
  forall live h id, pickc live h = Some id -> In id live.

(* Side obligations tying the regenerated constants (Gen.v: printed from the headers of the tree under test, the
   EPoller.cpp-only ones from their initialiser expressions; the harness reports the linked values, payload K) to
   the numbers the models and the harness assumptions use: the EPollData free-list bound of PModel.p_max_free,
   epoll's read interest = EPOLLIN|EPOLLRDHUP and the hang-up bits being distinct from EPOLLIN/EPOLLOUT (the three
   flag booleans of PModel.p_flags), microseconds per second / per millisecond of Model.ms_to_us, NULL and -1 as the
   invalid timeout id / descriptor, the default poll interval, FD_SETSIZE of the boundary-fd cases, and
   MAX_EVENTS = PModel.p_max_events, the size of one epoll_wait batch (p_ep_batch). *)
Theorem c16_consts :
  N.of_nat p_max_free = EP_MAX_FREE_DESCRIPTORS /\ N.of_nat p_max_events = EP_MAX_EVENTS /\ EP_MAX_EVENTS = 10 /\
  EP_READ_FLAGS = N.lor C_EPOLLIN C_EPOLLRDHUP /\
  N.land (N.lor C_EPOLLHUP C_EPOLLRDHUP) (N.lor C_EPOLLIN C_EPOLLOUT) = 0 /\ N.land C_EPOLLIN C_EPOLLOUT = 0 /\
  USEC_IN_SECONDS = 1000000 /\ ONE_THOUSAND = 1000 /\
  (forall ms, ms_to_us ms = (ms / ONE_THOUSAND) * USEC_IN_SECONDS + ms mod ONE_THOUSAND * ONE_THOUSAND) /\
  INVALID_TIMEOUT_VALUE = 0 /\ INVALID_DESCRIPTOR_PLUS_1 = 0 /\
  (POLL_INTERVAL_SECOND, POLL_INTERVAL_USECOND) = (10, 0) /\ C_FD_SETSIZE = 1024.
Proof. repeat split; reflexivity. Qed.
Print Assumptions c16_consts.

(* ExecuteTimeouts always returns: the model's loop never runs out of fuel, for any history,
   allocator and callback behaviour (callback scripts are finite). *)
Theorem c16_total : forall alloc pickc ops s, run alloc pickc s ops <> None.
Proof. exact run_total. Qed.
Print Assumptions c16_total.

(* A timer never fires before its interval has elapsed: whenever a callback ran (LFire e now), the
   time is at least the time e was (re)armed plus its interval. *)
Theorem c16_not_early : forall alloc pickc, allocator_ok alloc -> cancel_target_ok pickc ->
  forall ops s e now, run alloc pickc init ops = Some s ->
  In (LFire e now) (log s) -> enext e = earm e + eint e /\ earm e + eint e <= now.
Proof. exact t_not_early. Qed.
Print Assumptions c16_not_early.

(* ... where "armed" means: at registration the current clock value, at re-arm the time of the firing. *)
Theorem c16_arm_points : forall alloc s rep iv h e now,
  (exists e0, log (do_reg alloc s rep iv h) = LReg e0 :: log s /\ In e0 (q (do_reg alloc s rep iv h)) /\
              earm e0 = clock s /\ eint e0 = iv /\ erep e0 = rep /\ enext e0 = clock s + iv /\
              eser e0 = nser s) /\
  (exists e1, In e1 (q (finish_again s e now)) /\ earm e1 = now /\ enext e1 = now + eint e /\
              eint e1 = eint e /\ eser e1 = eser e /\ eid e1 = eid e /\ erep e1 = erep e).
Proof.
  intros. split.
  - exists (mkEv (alloc (ids s) h) (nser s) (clock s) iv (clock s + iv) rep).
    simpl. repeat split; auto.
  - exists (mkEv (eid e) (eser e) now (eint e) (now + eint e) (erep e)).
    simpl. repeat split; auto.
Qed.
Print Assumptions c16_arm_points.

(* The millisecond overloads SelectServer::Register{Single,Repeating}Timeout(unsigned int ms, ...) hand the
   TimeoutManager exactly 1000 * ms microseconds, for every 32-bit ms, and the two int32_t arguments of the
   TimeInterval(sec, usec) constructor they compute (ms / 1000 and ms % 1000 * 1000) do not overflow; a timer
   registered that way has interval 1000 * ms, so c16_not_early applies with that interval. *)
Theorem c16_ms_conversion : forall ms, ms < 2^32 ->
  ms_to_us ms = 1000 * ms /\ ms / 1000 < 2^31 /\ ms mod 1000 * 1000 < 2^31 /\
  forall alloc s rep h, exists e0,
    log (do_reg alloc s rep (ms_to_us ms) h) = LReg e0 :: log s /\ eint e0 = 1000 * ms /\
    enext e0 = clock s + 1000 * ms.
Proof.
  intros ms H. change (2^32) with 4294967296 in H. change (2^31) with 2147483648.
  destruct (ms_to_us_args_fit ms H) as [A B]. repeat split; auto. apply ms_to_us_exact.
  intros alloc s rep h. eexists. simpl. rewrite (ms_to_us_exact ms). repeat split; reflexivity.
Qed.
Print Assumptions c16_ms_conversion.

(* It fires on the first loop iteration after the interval has elapsed: when ExecuteTimeouts returns,
   no queued timer (cancelled or not) is due, i.e. everything that was due has been taken out of the
   queue — by c16_cancel/c16_no_timer_lost below only by running it or because it was cancelled. *)
Theorem c16_fires_when_due : forall alloc pickc s cbs s' now',
  do_exec alloc pickc s cbs = Some (s', now') ->
  now' = clock s' /\ forall x, In x (q s') -> clock s' < enext x.
Proof. exact exec_post. Qed.
Print Assumptions c16_fires_when_due.

(* A due, never-cancelled timer fires in the first ExecuteTimeouts with now >= deadline: if timer e is
   queued in a reachable state s with deadline <= clock s, ExecuteTimeouts is run (now = clock s) and no cancel
   is ever aimed at e (neither before nor by a callback of this very call), then e's callback runs during
   this call (an LFire of e among the entries the call adds to the log). *)
Theorem c16_due_timer_fires : forall alloc pickc, allocator_ok alloc -> cancel_target_ok pickc ->
  forall ops s cbs s' e, run alloc pickc init ops = Some s ->
  In e (q s) -> enext e <= clock s ->
  step alloc pickc s (OExec cbs) = Some s' ->
  (forall id, ~ In (LCancel (eser e) id) (log s')) ->
  exists l now, log s' = l ++ log s /\ In (LFire e now) l.
Proof. exact t_due_fires. Qed.
Print Assumptions c16_due_timer_fires.

(* The interval ExecuteTimeouts returns ("time until the next event", used by the pollers as the sleep time)
   is never negative, for any number of timers and any callbacks: it is 0 exactly when the queue is empty and
   strictly positive otherwise (every due timer has been served, c16_fires_when_due, which holds for ANY number
   of timers); the model's N-valued [next_in] (the key compared with the implementation) is that value. *)
Theorem c16_next_interval_nonneg : forall alloc pickc s cbs s' now',
  do_exec alloc pickc s cbs = Some (s', now') ->
  (0 <= next_in_z s' now')%Z /\ Z.of_N (next_in s' now') = next_in_z s' now' /\
  (q s' <> [] -> (0 < next_in_z s' now')%Z).
Proof. exact t_next_nonneg. Qed.
Print Assumptions c16_next_interval_nonneg.

(* An idle poller iteration never sleeps past the next deadline (EPoller: truncated to whole milliseconds,
   SelectPoller: exact), and the timers are then run against a FRESH clock reading (poll_once), so
   c16_not_early applies to timers served after a sleep as well. *)
Theorem c16_poll_sleep_bounded : forall epoll s now b e,
  peek s = Some e -> now < enext e -> now + poll_sleep epoll s now b <= enext e.
Proof. exact (t_poll_sleep_bounded (fun _ _ => 0) (fun _ _ => None)). Qed.
Print Assumptions c16_poll_sleep_bounded.

(* ... and more generally in ANY continuation of the history: whatever happens first (registrations,
   cancellations of other timers, time passing - e.g. loop callbacks or descriptor callbacks using the timer
   API), the next ExecuteTimeouts serves a timer that was already due, unless a cancel was aimed at it. *)
Theorem c16_due_timer_fires_later : forall alloc pickc, allocator_ok alloc -> cancel_target_ok pickc ->
  forall ops0 s pre cbs post s' e, run alloc pickc init ops0 = Some s ->
  In e (q s) -> enext e <= clock s ->
  run alloc pickc s (pre ++ OExec cbs :: post) = Some s' ->
  (forall id, ~ In (LCancel (eser e) id) (log s')) ->
  exists l now, log s' = l ++ log s /\ In (LFire e now) l.
Proof. exact t_due_fires_later. Qed.
Print Assumptions c16_due_timer_fires_later.

(* SelectServer level: one loop iteration (RunOnce -> CheckForEvents -> Poller::Poll; Model.runonce: the loop
   callbacks and the timers they register, the due timers, then EITHER the poller sleeps min(time to the next timer,
   poll interval) - whole milliseconds on epoll - OR the ready descriptors' callbacks run and register timers, then a
   fresh clock reading and the due timers again), for both back-ends:
   (1) it is the TimeoutManager history runonce_ops, so every trace theorem of this file applies to timers that are
       registered by loop / descriptor callbacks and to any sequence of iterations; the sleep is poll_sleep, which
       never passes the next deadline (c16_poll_sleep_bounded);
   (2) a timer that is due when the iteration starts, and at which no cancel is aimed, fires in this iteration;
   (3) when the iteration ends no queued timer is overdue (so a timer whose deadline is reached by the wake-up time
       has fired, or was cancelled: c16_no_timer_lost / c16_cancel_others_unaffected). *)
Theorem c16_selectserver_iteration : forall alloc pickc, allocator_ok alloc -> cancel_target_ok pickc ->
  forall ops0 s epoll b loop_regs desc_regs cbs1 cbs2 s',
  run alloc pickc init ops0 = Some s ->
  runonce alloc pickc epoll s b loop_regs desc_regs cbs1 cbs2 = Some s' ->
  (exists sleep, run alloc pickc s (runonce_ops epoll sleep loop_regs desc_regs cbs1 cbs2) = Some s' /\
     forall s1 now1, do_exec alloc pickc (do_regs alloc s loop_regs) cbs1 = Some (s1, now1) ->
       sleep = poll_sleep epoll s1 now1 b) /\
  (forall e, In e (q s) -> enext e <= clock s -> (forall id, ~ In (LCancel (eser e) id) (log s')) ->
     exists l now, log s' = l ++ log s /\ In (LFire e now) l) /\
  (forall x, In x (q s') -> clock s' < enext x).
Proof.
  intros alloc pickc Ha Hp ops0 s epoll b lr dr cbs1 cbs2 s' Hr H. split; [|split].
  - exact (runonce_run alloc pickc epoll s b lr dr cbs1 cbs2 s' H).
  - intros e Hq Hd Hnc. exact (t_runonce_fires_due alloc pickc Ha Hp ops0 s epoll b lr dr cbs1 cbs2 s' e Hr Hq Hd H Hnc).
  - exact (t_runonce_post alloc pickc epoll s b lr dr cbs1 cbs2 s' H).
Qed.
Print Assumptions c16_selectserver_iteration.

(* The iteration whose select() / epoll_wait() fails with EINTR (a handled signal arrived during the wait): Poll
   returns at once.  As far as timers are concerned it is the history "loop registrations, ONE ExecuteTimeouts" - no
   sleep, no descriptor callback, no second pass - so again every trace theorem of this file applies to runs that
   contain such iterations, and a due timer is not lost: it is served by the ExecuteTimeouts of this or of the next
   iteration (c16_fires_when_due). *)
Theorem c16_interrupted_iteration : forall alloc pickc s loop_regs cbs1 s',
  runonce_intr alloc pickc s loop_regs cbs1 = Some s' ->
  run alloc pickc s (map (fun r : reg3 => let '(rep, iv, h) := r in OReg rep iv h) loop_regs ++ [OExec cbs1]) = Some s'.
Proof. exact runonce_intr_run. Qed.
Print Assumptions c16_interrupted_iteration.

(* Single-shot timers fire once: no other firing in the whole trace has the same serial. *)
Theorem c16_single_once : forall alloc pickc, allocator_ok alloc -> cancel_target_ok pickc ->
  forall ops s l1 l2 e now, run alloc pickc init ops = Some s ->
  log s = l1 ++ LFire e now :: l2 -> erep e = false ->
  forall e' now', In (LFire e' now') (l1 ++ l2) -> eser e' <> eser e.
Proof. exact t_single_once. Qed.
Print Assumptions c16_single_once.

(* Repeating timers re-arm until their callback returns false: after Trigger returned false (LRet n
   false) timer n never fires again ... *)
Theorem c16_repeat_until_false : forall alloc pickc, allocator_ok alloc -> cancel_target_ok pickc ->
  forall ops s l1 l2 n, run alloc pickc init ops = Some s ->
  log s = l1 ++ LRet n false :: l2 -> forall e now, In (LFire e now) l1 -> eser e <> n.
Proof. exact t_ret_false_last. Qed.
Print Assumptions c16_repeat_until_false.

(* ... and until then it stays queued.  No timer is ever lost: every timer registered so far is
   still in the queue, or its Trigger returned false (single-shot timers: after their one run), or it
   was deleted unrun after a cancel aimed at that very timer. *)
Theorem c16_no_timer_lost : forall alloc pickc, allocator_ok alloc -> cancel_target_ok pickc ->
  forall ops s n, run alloc pickc init ops = Some s -> n < nser s ->
  (exists e, In e (q s) /\ eser e = n) \/ In (LRet n false) (log s) \/
  (exists e, In (LDrop e) (log s) /\ eser e = n /\ exists id, In (LCancel n id) (log s)).
Proof. exact t_conservation. Qed.
Print Assumptions c16_no_timer_lost.

(* A timer cancelled while pending — from outside, from another timer's callback or from its own —
   never fires afterwards (no LFire of that timer after an LCancel aimed at it) ... *)
Theorem c16_cancel : forall alloc pickc, allocator_ok alloc -> cancel_target_ok pickc ->
  forall ops s l1 l2 e now, run alloc pickc init ops = Some s ->
  log s = l1 ++ LFire e now :: l2 -> forall id, ~ In (LCancel (eser e) id) l2.
Proof. exact t_no_fire_after_cancel. Qed.
Print Assumptions c16_cancel.

(* ... while every other timer is unaffected: (1) only a timer at which a cancel was aimed is ever
   deleted unrun; (2) the removed set holds no stale address: each entry is the address of a queued
   timer at which a cancel was aimed, and a queued timer is marked iff a cancel was aimed at it (so
   re-use of a freed address cannot cancel the newcomer); (3) a queued timer that has not fired yet
   is exactly as registered (same address, interval and deadline). *)
Theorem c16_cancel_others_unaffected : forall alloc pickc, allocator_ok alloc -> cancel_target_ok pickc ->
  forall ops s, run alloc pickc init ops = Some s ->
  (forall e, In (LDrop e) (log s) -> exists id, In (LCancel (eser e) id) (log s)) /\
  (forall id, In id (removed s) ->
     exists e, In e (q s) /\ eid e = id /\ exists id', In (LCancel (eser e) id') (log s)) /\
  (forall e, In e (q s) ->
     (In (eid e) (removed s) <-> exists id, In (LCancel (eser e) id) (log s))) /\
  (forall e0 e, In (LReg e0) (log s) -> In e (q s) -> eser e = eser e0 ->
     (forall e1 now, In (LFire e1 now) (log s) -> eser e1 <> eser e0) -> e = e0).
Proof.
  intros alloc pickc Ha Hp ops s H. repeat split.
  - intros e. exact (t_drop_only_cancelled alloc pickc Ha Hp ops s e H).
  - intros id. exact (t_no_stale_id alloc pickc Ha Hp ops s id H).
  - exact (proj1 (t_marked_iff_cancelled alloc pickc Ha Hp ops s e H H0)).
  - exact (proj2 (t_marked_iff_cancelled alloc pickc Ha Hp ops s e H H0)).
  - intros e0 e Hr He E U. exact (t_untouched alloc pickc Ha Hp ops s e0 e H Hr He E U).
Qed.
Print Assumptions c16_cancel_others_unaffected.

(* The hypotheses are satisfiable; in particular by the allocator / target choice the
   correspondence harness uses (lowest-free-slot pool => immediate address re-use). *)
Example c16_allocators_exist :
  allocator_ok fresh_alloc /\ allocator_ok pool_alloc /\ cancel_target_ok pool_pick.
Proof. repeat split; try apply fresh_alloc_ok; try apply pool_alloc_ok. exact pool_pick_ok. Qed.

(* The history that exposed the defect in the unfixed tree: a single-shot timer cancels itself in its
   callback, the next timer is allocated at the same address (1) and, when due, fires. *)
Example c16_selfcancel_reuse_fires :
  match run pool_alloc pool_pick init
     [OReg false 5 0; OAdvance 5; OExec [mkScript [ACancelSelf] false];
      OReg true 5 0; OAdvance 5; OExec [mkScript [] true]] with
  | Some s =>
      existsb (fun x => match x with
                        | LFire e now => (now =? 10) && (eser e =? 1) && (eid e =? 1)
                        | _ => false end) (log s)
      && match removed s with [] => true | _ => false end
  | None => false
  end = true.
Proof. vm_compute. reflexivity. Qed.

(* Intervals are handed to the TimeoutManager as TimeInterval structs (a struct timeval).  For every interval built
   with the constructors and operators of ola::TimeInterval - from microseconds (Set), from (seconds, microseconds),
   from milliseconds (the SelectServer overloads), operator+ (TimerAdd), operator*(unsigned) - out of arguments that
   respect the constructors' contracts (non-negative; the microsecond argument of the (sec, usec) constructor may be
   ANY non-negative value, also 10^6 or more, since fix 04; negative arguments are outside the contract: C division
   would leave a negative tv_usec) the struct is normalised and denotes
   exactly the arithmetic value (TimeVal.idenote); TimerAdd of normalised values (deadline = now + interval) and
   timercmp (deadline <= now) agree with +, <= on microseconds.  Hence the microsecond model of Model.v. *)
Theorem c16_timeval :
  (forall e, iwf e -> tv_norm (ieval e) /\ tv_us (ieval e) = idenote e /\ (0 <= idenote e)%Z) /\
  (forall a b, tv_norm a -> tv_norm b -> tv_norm (tv_add a b) /\ tv_us (tv_add a b) = (tv_us a + tv_us b)%Z) /\
  (forall a i, tv_norm a -> (0 <= i)%Z -> tv_norm (tv_mul a i) /\ tv_us (tv_mul a i) = (tv_us a * i)%Z) /\
  (forall a b, tv_norm a -> tv_norm b -> (tv_leb a b = true <-> (tv_us a <= tv_us b)%Z)).
Proof. exact (conj ieval_ok (conj tv_add_ok (conj tv_mul_ok tv_leb_ok))). Qed.
Print Assumptions c16_timeval.

(* witness of the defect repaired by fix 04: with the old constructor (arguments stored as given) the 2.5 s interval
   TimeInterval(0, 2500000) registered at time 0 gives the deadline {1 s, 1500000 us}, which timercmp already finds
   reached at 2.0 s; with the fixed constructor the deadline is {2 s, 500000 us}, reached at 2.5 s and not before. *)
Example c16_timeinterval_before_fix :
  let old_deadline := tv_add (mkTv 0 0) (tv_of_pair_before_fix 0 2500000) in
  let new_deadline := tv_add (mkTv 0 0) (tv_of_pair 0 2500000) in
  old_deadline = mkTv 1 1500000 /\ tv_leb old_deadline (mkTv 2 0) = true /\
  new_deadline = mkTv 2 500000 /\ tv_leb new_deadline (mkTv 2 0) = false /\ tv_leb new_deadline (mkTv 2 499999) = false /\
  tv_leb new_deadline (mkTv 2 500000) = true.
Proof. vm_compute. repeat split; reflexivity. Qed.

Example c16_timeval_ex :
  tv_us (ieval (IMul (IUs 200000) 20)) = 4000000%Z /\ ieval (IMul (IUs 200000) 20) = mkTv 4 0 /\
  ieval (IAdd (IPair 1 600000) (IMs 1500)) = mkTv 3 100000.
Proof. vm_compute. repeat split; reflexivity. Qed.

(* Scale does not matter (the theorems above hold for any number of timers / pending cancellations); a concrete
   instance: 33 cancelled timers are still queued when a repeating timer cancels itself inside its own callback
   (the 34th pending cancellation) and returns true: it runs once and never again, none of the 33 ever runs. *)
Example c16_many_pending_cancellations :
  let regs := repeat (OReg true 1000 0) 35 in
  let cancels := map (fun k => OCancel (N.of_nat k)) (seq 0 33) in
  match run pool_alloc pool_pick init
          (regs ++ cancels ++ [OReg true 5 0; OAdvance 5; OExec [mkScript [ACancelSelf] true]; OAdvance 5;
                               OExec [mkScript [] true]; OAdvance 2000; OExec (repeat (mkScript [] false) 6)]) with
  | Some s => (length (filter (fun x => match x with LFire e _ => eser e =? 35 | _ => false end) (log s)),
               length (filter (fun x => match x with LFire _ _ => true | _ => false end) (log s)),
               length (filter (fun x => match x with LDrop _ => true | _ => false end) (log s)))
  | None => (0, 0, 0)%nat
  end = (1, 3, 34)%nat.
Proof. vm_compute. reflexivity. Qed.

(* ====================================================================== part (b): descriptor pollers *)
Local Close Scope N_scope.
(* A callback runs only while its descriptor is registered.
   Every entry of the callback log of EVERY run (any configuration of scripted callbacks, any sequence of
   add/remove/write/close-peer/poll operations, either back-end: be = true EPoller, be = false SelectPoller)
   carries le_reg = true, where le_reg is the value, at the moment the callback is invoked, of the ghost
   registration st_regr/st_regw (read and close callbacks: read side; write callback: write side).  The ghost
   is set by an Add*Descriptor call, cleared by a Remove*Descriptor call (from the top level or from inside a
   callback) and touched by nothing else (c16_ghost_is_history below); it does not look at the pollers' maps.
   This covers removal, and removal followed by re-adding, by an earlier callback of the same iteration. *)
Theorem c16_registered_only :
  forall (be : bool) (c : p_cfg) (ops : list p_op) (e : p_ev),
    In e (p_log (p_run be c ops)) -> le_reg e = true.
Proof. exact p_registered_only. Qed.
Print Assumptions c16_registered_only.

(* what a log entry records: the ghost registration of (descriptor, role) in the state in which the poller
   invoked the callback, before the callback's own script runs *)
Theorem c16_log_entry_records_registration :
  forall (c : p_cfg) (s : p_st) (d : nat) (k : p_cbk),
    st_del s d = false ->
    exists bs l2,
      st_log (p_invoke c s d k) = l2 ++ Build_p_ev (st_opix s) d k bs (p_reg_of s k d) :: st_log s.
Proof. exact p_invoke_logs. Qed.
Print Assumptions c16_log_entry_records_registration.

Theorem c16_ghost_is_history :
  forall (c : p_cfg) (s : p_st) (d x : nat),
    (st_regr (fst (p_add_r c s d)) x = (if x =? d then true else st_regr s x) /\
     st_regw (fst (p_add_r c s d)) x = st_regw s x) /\
    (st_regr (fst (p_rem_r c s d)) x = (if x =? d then false else st_regr s x) /\
     st_regw (fst (p_rem_r c s d)) x = st_regw s x) /\
    (st_regw (fst (p_add_w c s d)) x = (if x =? d then true else st_regw s x) /\
     st_regr (fst (p_add_w c s d)) x = st_regr s x) /\
    (st_regw (fst (p_rem_w c s d)) x = (if x =? d then false else st_regw s x) /\
     st_regr (fst (p_rem_w c s d)) x = st_regr s x).
Proof.
  exact (fun c s d x => conj (p_ghost_add_r c s d x) (conj (p_ghost_rem_r c s d x)
                         (conj (p_ghost_add_w c s d x) (p_ghost_rem_w c s d x)))).
Qed.
Print Assumptions c16_ghost_is_history.

(* A remote close is reported at most once per descriptor and only when nothing that was sent before it
   is still queued: in every run (any callback scripts, any operations, either back-end) the log holds
   at most one close callback for each descriptor, and the bytes still pending on the descriptor at the
   moment a close callback is invoked (recorded, as a ghost, in the close entry's le_bytes) are none.
   "At least once" is c16_close_reported below. *)
Theorem c16_close_once_after_data :
  forall (be : bool) (c : p_cfg) (ops : list p_op),
    (forall d, p_nclose d (p_log (p_run be c ops)) <= 1) /\
    (forall e, In e (p_log (p_run be c ops)) -> le_kind e = PKClose -> le_bytes e = []).
Proof. exact (fun be c ops => conj (p_close_at_most_once be c ops) (p_close_after_data be c ops)). Qed.
Print Assumptions c16_close_once_after_data.

(* ... where "delivered" means: a read callback hands over exactly the first pc_rk bytes of the queue and
   removes exactly those from it (bytes leave the queue in no other way: only p_invoke PKRead and the
   peer's writes change st_pend in PModel.v). *)
Theorem c16_read_takes_queue_prefix :
  forall (c : p_cfg) (s : p_st) (d : nat), st_del s d = false ->
    exists l2, st_log (p_invoke c s d PKRead) =
               l2 ++ Build_p_ev (st_opix s) d PKRead (firstn (pc_rk (p_get c d)) (st_pend s d)) (st_regr s d) :: st_log s
               /\ l2 = [] /\
               st_pend (p_invoke c s d PKRead) d = skipn (pc_rk (p_get c d)) (st_pend s d).
Proof. exact p_read_delivers. Qed.
Print Assumptions c16_read_takes_queue_prefix.

(* A remote close IS reported.  Let d be a connected descriptor that is in the poller's table (SelectPoller:
   its slot in the connected map is present; EPoller: the fd is mapped to an EPollData whose
   connected_descriptor is d, in a state reached by any run), whose peer has hung up, whose queued data has all
   been read, which still holds its on_close callback and has not been deleted.  Then ONE Poll() runs d's
   on_close callback, provided d stays registered during that iteration: no scripted callback action (of any
   descriptor) is aimed at d.  Other callbacks may add/remove any other descriptors meanwhile, the kernel may
   report the ready descriptors in either order, d may also have a write registration (fix 03).
   With c16_close_once_after_data: reported exactly once, after the data. *)
Theorem c16_close_reported :
  forall (c : p_cfg) (d : nat) (desc : bool),
    (forall d' a, In a (pc_rs (p_get c d') ++ pc_ws (p_get c d') ++ pc_cs (p_get c d')) -> p_act_target a <> d) ->
    d < length c -> length c <= p_max_events -> p_refused c d = false ->
    (forall s, st_be s = false -> s_c (st_sel s) d = SPres ->
       st_closed s d = true -> st_pend s d = [] -> st_onclose s d = true -> st_del s d = false ->
       exists e, In e (st_log (p_step c s (POPoll desc))) /\ le_d e = d /\ le_kind e = PKClose) /\
    (forall ops id, let s := p_run true c ops in
       ep_map (st_ep s) d = Some id -> e_cd (ep_obj (st_ep s) id) = Some d ->
       e_rd (ep_obj (st_ep s) id) = None -> e_r (ep_obj (st_ep s) id) = true ->
       st_closed s d = true -> st_pend s d = [] -> st_onclose s d = true -> st_del s d = false ->
       exists e, In e (st_log (p_step c s (POPoll desc))) /\ le_d e = d /\ le_kind e = PKClose).
Proof.
  intros c d desc G L LM NR. split.
  - intros s B C1 C2 C3 C4 C5. apply (p_sel_close_reported c d s desc G L). constructor; auto.
  - intros ops id s M C R E C2 C3 C4 C5. apply (p_ep_close_reported c ops d id desc NR LM G L).
    constructor; auto. exact (proj1 (p_inv_run c true ops)). repeat split; auto.
Qed.
Print Assumptions c16_close_reported.

(* The same with the premise stated on the HISTORY instead of on the poller tables: in any state reached by any
   run of either back-end (arbitrary scripts, also ones that add/remove other descriptors, any operations), a
   connected, not delete_on_close descriptor d that is registered according to the Add/Remove calls made so far
   (ghost st_regr: set by AddReadDescriptor, cleared by RemoveReadDescriptor, nothing else), whose peer has hung
   up, whose data is drained and whose on_close has not run yet gets its close callback from ONE Poll(), provided no
   scripted action is aimed at d.  (That "registered per history" implies "in the poller's table" is an invariant
   proved from the initial state: PReg.p_ws_run / p_we_run.  For delete_on_close descriptors only the table-level
   theorem above is available.) *)
Theorem c16_close_reported_history :
  forall (c : p_cfg) (ops : list p_op) (d : nat) (desc be : bool),
    (forall d' a, In a (pc_rs (p_get c d') ++ pc_ws (p_get c d') ++ pc_cs (p_get c d')) -> p_act_target a <> d) ->
    d < length c -> length c <= p_max_events -> p_refused c d = false ->
    pc_conn (p_get c d) = true -> pc_doc (p_get c d) = false ->
    let s := p_run be c ops in
    st_regr s d = true -> st_closed s d = true -> st_pend s d = [] -> st_onclose s d = true -> st_del s d = false ->
    exists e, In e (st_log (p_step c s (POPoll desc))) /\ le_d e = d /\ le_kind e = PKClose.
Proof. exact (fun c ops d desc be G L LM NR => p_close_reported_history c ops d desc be NR LM G L). Qed.
Print Assumptions c16_close_reported_history.

(* SelectPoller alone: the same for ANY connected descriptor, delete_on_close or not, and without the bound on the
   number of descriptors or the "not refused" premise (both are epoll matters).  For EPoller the delete_on_close
   case stays out: EPoller never deletes such a descriptor (noted difference, not a property-level defect), and the
   history-level invariant PReg.p_we_run is only proved for descriptors that are not delete_on_close. *)
Theorem c16_close_reported_history_select :
  forall (c : p_cfg) (ops : list p_op) (d : nat) (desc : bool),
    (forall d' a, In a (pc_rs (p_get c d') ++ pc_ws (p_get c d') ++ pc_cs (p_get c d')) -> p_act_target a <> d) ->
    d < length c -> pc_conn (p_get c d) = true ->
    let s := p_run false c ops in
    st_regr s d = true -> st_closed s d = true -> st_pend s d = [] -> st_onclose s d = true -> st_del s d = false ->
    exists e, In e (st_log (p_step c s (POPoll desc))) /\ le_d e = d /\ le_kind e = PKClose.
Proof. exact p_close_reported_history_select. Qed.
Print Assumptions c16_close_reported_history_select.

(* non-vacuous for a delete_on_close descriptor: the premises hold after register / data / drain / peer hang-up *)
Example c16_close_reported_history_select_premises :
  (fun s => (st_regr s 0, st_closed s 0, st_pend s 0, st_onclose s 0, st_del s 0, pc_doc (p_get
     [Build_p_dcfg PSock true true 9 [] [] []] 0)))
    (p_run false [Build_p_dcfg PSock true true 9 [] [] []] [POAddR 0; POWrite 0 [4%N]; POPoll true; POClosePeer 0])
  = (true, true, [], true, false, true).
Proof. cbv beta; vm_compute; reflexivity. Qed.

Example c16_close_reported_history_premises :
  forall be,
  (fun s => (st_regr s 0, st_closed s 0, st_pend s 0, st_onclose s 0, st_del s 0))
    (p_run be [Build_p_dcfg PSock true false 9 [] [] []; Build_p_dcfg PSock false false 9 [PAAddW 1; PARemR 1] [PARemW 1] []]
              [POAddR 0; POAddR 1; POWrite 0 [4%N]; POWrite 1 [5%N]; POPoll true; POClosePeer 0])
  = (true, true, [], true, false).
Proof. intros be; destruct be; cbv beta; vm_compute; reflexivity. Qed.

(* the premises are reachable: register, peer closes -> the descriptor is in the table in the required state
   (with another descriptor whose callbacks add/remove itself), on both back-ends *)
Example c16_close_reported_premises :
  let c := [Build_p_dcfg PSock true false 9 [] [] []; Build_p_dcfg PSock false false 9 [PAAddW 1] [PARemW 1] []] in
  let ops := [POAddR 0; POAddR 1; POWrite 1 [5%N]; POClosePeer 0] in
  p_no_target c 0 /\ p_ks 0 (p_run false c ops) /\ p_ke 0 0 (p_run true c ops).
Proof.
  split; [|split].
  - intros d' a. unfold p_scripts. destruct d' as [|[|[|d']]]; simpl; intuition (subst; simpl; discriminate).
  - constructor; vm_compute; reflexivity.
  - constructor; try (vm_compute; reflexivity). repeat split; vm_compute; reflexivity.
Qed.

(* No deleted descriptor object is ever used: the model's hazard flag st_haz (set whenever a poller
   dereferences, or hands to a callback, a descriptor object that delete_on_close has already deleted) stays
   false in every run on both back-end models, under the API contract for delete_on_close descriptors
   (guard p_hz_cfg / p_hz_ops, spelled out): a delete_on_close descriptor never gets a write registration
   (from a script or from the top level) and its own on_close callback does not register it again.
   (The EPoller model, like the code, never deletes a delete_on_close descriptor at all; the guard is only
   needed by the SelectPoller half.) *)
Theorem c16_no_use_of_deleted_descriptor :
  forall (be : bool) (c : p_cfg) (ops : list p_op),
    (forall d, Forall (p_act_ok c) (pc_rs (p_get c d)) /\ Forall (p_act_ok c) (pc_ws (p_get c d)) /\
               Forall (p_act_ok c) (pc_cs (p_get c d)) /\
               (pc_doc (p_get c d) = true -> ~ In (PAAddR d) (pc_cs (p_get c d)))) ->
    Forall (p_op_ok c) ops ->
    st_haz (p_run be c ops) = false.
Proof. exact p_no_hazard. Qed.
Print Assumptions c16_no_use_of_deleted_descriptor.

(* the guard is satisfiable by a configuration that does use delete_on_close, with a script *)
Example c16_hazard_guard_satisfiable :
  let c := [Build_p_dcfg PSock true true 9 [PARemR 0] [] [PARemR 0];
            Build_p_dcfg PSock false false 9 [PAAddW 1] [PARemW 1] []] in
  p_hz_cfg c /\ p_hz_ops c [POAddR 0; POAddR 1; POAddW 1; POWrite 0 [1%N]; POClosePeer 0; POPoll false] /\
  exists e, In e (p_log (p_run false c [POAddR 0; POClosePeer 0; POPoll false])) /\ le_kind e = PKClose.
Proof.
  split; [|split].
  - intros d. destruct d as [|[|[|d]]]; simpl; (split; [|split; [|split]]);
      repeat constructor; simpl; auto; try discriminate; intros _ H; simpl in H; intuition discriminate.
  - repeat constructor; simpl; auto.
  - vm_compute. eexists. split. left. reflexivity. reflexivity.
Qed.

(* BOTH POLLER BACK-ENDS DELIVER, PER DESCRIPTOR, THE SAME CALLBACKS AND THE SAME BYTES.
   For every configuration c of scripted descriptors, every operation sequence ops (add/remove read|write, peer
   writes, peer closes, Poll with ascending or descending epoll ready order) and every descriptor d of c, the
   per-descriptor projection of the callback log (p_proj d: the entries of d, in order, each with its kind, the
   bytes delivered, the operation during which it ran and the ghost registration flag) of the EPoller model
   equals that of the SelectPoller model - the order in which the two back-ends serve DIFFERENT descriptors is
   irrelevant by construction.  Guards, boolean functions of the configuration / operation list:
   p_cfg_ok c: for every descriptor x of c
     G1  every scripted callback action of x is aimed at x itself (a callback may add/remove its own read and
         write side; with actions aimed at other descriptors the back-ends legitimately differ, because they serve
         ready descriptors in different orders);
     G2  x is not delete_on_close (EPoller never deletes such a descriptor - RemoveDescriptor nulls the pointer
         before the delete - so operations on it after its close still take effect there);
     G3  if x is a pipe read end none of its scripts registers it for writing (outside the kernel model);
     G4  neither the read script nor the close script of x contains all three of RemoveRead, RemoveWrite and
         AddWrite (such a callback makes EPoller recycle the EPollData in the middle of its own event and the write
         callback of that iteration is skipped on epoll but not on select: proposed finding
         C16-epoll-write-skipped-after-reregister; any two of the three are fine);
     G5  the epoll interface accepts x (x is not of kind PRef: a descriptor whose epoll_ctl(ADD) fails gets no
         callbacks from EPoller at all, while SelectPoller, which has no registration step, serves it);
   p_ops_ok c ops: no top-level AddWrite on a pipe read end (G3).
   Proof: both models refine one single-descriptor abstract machine (PAbs.l_run), per descriptor.
   length c <= p_max_events (= EPoller::MAX_EVENTS = 10): with more ready descriptors than one epoll_wait batch holds,
   EPoller serves the rest only in a later iteration while SelectPoller serves all at once (c16_epoll_batch below). *)
Theorem c16_backends_agree :
  forall (c : p_cfg) (ops : list p_op) (d : nat),
    p_cfg_ok c = true -> p_ops_ok c ops = true -> d < length c -> length c <= p_max_events ->
    p_proj d (p_log (p_run true c ops)) = p_proj d (p_log (p_run false c ops)).
Proof. exact p_backends_agree. Qed.
Print Assumptions c16_backends_agree.

(* G1 relaxed, per descriptor: for the log of descriptor d it suffices that no OTHER descriptor's callback aims an
   action at d.  d's own callbacks may add/remove any descriptor (also others), and the other descriptors may do to
   each other whatever they like: the service order of the back-ends then changes THEIR logs, not d's.
   p_d_ok c d: (G1') no script of a descriptor x <> d contains an action aimed at d; (G2) d is not delete_on_close;
   (G3) d's own actions register d for writing only if d is a socket; (G4) the actions of d's read / close script
   that are aimed at d do not contain all of RemoveRead, RemoveWrite, AddWrite.  p_ops_ok_d: no top-level AddWrite
   of d if d is a pipe.  (c16_backends_agree is the special case where this holds for every descriptor.) *)
Theorem c16_backends_agree_per_descriptor :
  forall (c : p_cfg) (ops : list p_op) (d : nat),
    p_d_ok c d = true -> p_ops_ok_d c d ops = true -> d < length c -> length c <= p_max_events ->
    p_proj d (p_log (p_run true c ops)) = p_proj d (p_log (p_run false c ops)).
Proof. exact (fun c ops d G O L LM => p_agree_d c d G L LM ops O). Qed.
Print Assumptions c16_backends_agree_per_descriptor.

(* guard met by a descriptor whose callback removes ANOTHER ready descriptor: d0's log is the same on both
   back-ends although d1's is not (epoll serves d1 first when the ready list is in descending order) *)
Example c16_per_descriptor_guard_satisfiable :
  let c := [Build_p_dcfg PSock false false 9 [PARemR 1; PAAddW 0] [PARemW 0] [];
            Build_p_dcfg PPipe false false 9 [] [] []] in
  let ops := [POAddR 0; POAddR 1; POWrite 0 [1%N]; POWrite 1 [2%N]; POPoll true; POPoll false] in
  p_d_ok c 0 = true /\ p_ops_ok_d c 0 ops = true /\ p_d_ok c 1 = false /\ p_cfg_ok c = false /\
  length (p_proj 0 (p_log (p_run true c ops))) = 2 /\
  p_proj 1 (p_log (p_run true c ops)) <> p_proj 1 (p_log (p_run false c ops)).
Proof. vm_compute. repeat split; try reflexivity. discriminate. Qed.

(* ... and both equal the run of the single-descriptor abstract machine (what "the callbacks of d" are). *)
Theorem c16_backends_refine_abstract :
  forall (c : p_cfg) (ops : list p_op) (d : nat) (be : bool),
    p_cfg_ok c = true -> p_ops_ok c ops = true -> d < length c -> length c <= p_max_events ->
    p_proj d (p_log (p_run be c ops)) = rev (a_log (l_run c d 0 (l_init c d) ops)).
Proof. exact p_backends_refine. Qed.
Print Assumptions c16_backends_refine_abstract.

(* The guards are satisfiable by a scenario with: data followed by hang-up on a connected socket that also has
   a write registration made from its own read callback, a descriptor that removes and re-adds itself inside its
   own callback, and a plain pipe; the callbacks really run (non-vacuous) and the two logs agree. *)
Example c16_backends_agree_guard_satisfiable :
  let c := [Build_p_dcfg PSock true false 2 [PAAddW 0] [PARemW 0] [PARemR 0];
            Build_p_dcfg PSock false false 9 [PARemR 1; PAAddR 1] [] [];
            Build_p_dcfg PPipe true false 1 [] [] []] in
  let ops := [POAddR 0; POAddR 1; POAddR 2; POAddW 1; POWrite 0 [1%N; 2%N; 3%N]; POWrite 1 [7%N];
              POWrite 2 [8%N; 9%N]; POClosePeer 0; POClosePeer 2; POPoll true; POPoll false; POPoll true; POPoll false] in
  p_cfg_ok c = true /\ p_ops_ok c ops = true /\
  map (fun e => (le_kind e, le_bytes e)) (p_proj 0 (p_log (p_run true c ops))) =
    [(PKRead, [1%N; 2%N]); (PKRead, [3%N]); (PKWrite, []); (PKClose, [])] /\
  length (p_proj 1 (p_log (p_run true c ops))) = 5 /\
  map (fun e => (le_kind e, le_bytes e)) (p_proj 2 (p_log (p_run false c ops))) =
    [(PKRead, [8%N]); (PKRead, [9%N]); (PKClose, [])].
Proof. vm_compute. repeat split; reflexivity. Qed.

(* G4 cannot simply be dropped: the smallest counterexample (also reproduced on the real pollers) *)
Example c16_backends_agree_needs_g4 :
  let c := [Build_p_dcfg PSock false false 9 [PARemW 0; PARemR 0; PAAddW 0] [] []] in
  let ops := [POAddR 0; POAddW 0; POWrite 0 [1%N]; POPoll false; POPoll false] in
  p_cfg_ok c = false /\
  map (fun e => (le_op e, le_kind e)) (p_proj 0 (p_log (p_run true c ops))) = [(3, PKRead); (4, PKWrite)] /\
  map (fun e => (le_op e, le_kind e)) (p_proj 0 (p_log (p_run false c ops))) = [(3, PKRead); (3, PKWrite); (4, PKWrite)].
Proof. vm_compute. repeat split; reflexivity. Qed.

(* One EPoller::Poll serves at most MAX_EVENTS ready descriptors: the batch it works on is a prefix of the
   kernel's ready list of length <= 10; whatever is left is only served by a later Poll (and the timers run in
   between: Poll returns after ONE batch, c16_selectserver_iteration).  SelectPoller serves every ready descriptor. *)
Theorem c16_epoll_batch : forall c s ds,
  length (p_ep_batch c s ds) <= 10 /\
  exists rest, p_ep_ready c s ds = p_ep_batch c s ds ++ rest.
Proof.
  intros c s ds. split. unfold p_ep_batch. apply firstn_le_length.
  exists (skipn p_max_events (p_ep_ready c s ds)). unfold p_ep_batch. symmetry. apply firstn_skipn.
Qed.
Print Assumptions c16_epoll_batch.

(* 12 sockets that stay writable: one Poll gives 10 of them their write callback on epoll, all 12 on select *)
Example c16_ex_epoll_batch :
  let c := repeat (Build_p_dcfg PSock false false 9 [] [] []) 12 in
  let ops := map POAddW (seq 0 12) ++ [POPoll false] in
  (length (p_log (p_run true c ops)), length (p_log (p_run false c ops)),
   map le_d (p_log (p_run true c ops))) = (10, 12, seq 0 10).
Proof. vm_compute. reflexivity. Qed.

(* A registration the epoll interface refuses (kind PRef: epoll_ctl fails, AddReadDescriptor returns false): the
   descriptor is never in the kernel's ready list, so no event of a Poll belongs to it, whatever else is registered
   before or after; SelectPoller treats it like any pipe.  (That no OTHER descriptor's event reaches its handler is
   c16_registered_only together with the table invariants PWf/PProofs; the correspondence checks it on the real
   poller with epoll_ctl made to fail.) *)
Theorem c16_refused_never_ready : forall c s d id,
  p_refused c d = true -> ep_map (st_ep s) d = Some id ->
  (forall d', d' <> d -> ep_map (st_ep s) d' <> Some id) ->       (* the fd -> EPollData map is injective: PWf *)
  forall ds, ~ In id (map fst (p_ep_ready c s ds)).
Proof.
  intros c s d id R M INJ. induction ds as [|x ds IH]; simpl; auto.
  destruct (ep_map (st_ep s) x) as [i|] eqn:MX; auto.
  destruct (p_flag_any (p_ep_flags c s (ep_obj (st_ep s) i) x)) eqn:FA; auto.
  simpl. intros [E|H]; auto. subst i.
  destruct (Nat.eq_dec x d) as [->|N]; [|apply (INJ x N MX)].
  unfold p_ep_flags in FA. rewrite R in FA. discriminate.
Qed.
Print Assumptions c16_refused_never_ready.

(* The full statement, over whole runs of the EPoller model from the initial state (any configuration, any scripts,
   any operations): no callback is ever invoked for a descriptor whose registration the epoll interface refuses ... *)
Theorem c16_refused_never_called :
  forall (c : p_cfg) (ops : list p_op) (e : p_ev),
    In e (p_log (p_run true c ops)) -> p_refused c (le_d e) = false.
Proof. exact p_refused_never_called. Qed.
Print Assumptions c16_refused_never_called.

(* ... and every other descriptor d (under the per-descriptor guard of c16_backends_agree_per_descriptor) is served,
   by either back-end, exactly as in the run in which every Add of r is replaced in place by a zero-byte write, i.e.
   as if the refused Add had not happened: same callbacks, same bytes, same registration flags, same operation
   indices.  (The statement does not need r to be refused: on epoll the refused Add is the case of interest, on
   select it says that registrations of one descriptor do not disturb another.)  More generally any two operation
   lists that differ only in non-poll operations aimed at descriptors other than d serve d identically. *)
Theorem c16_refused_add_invisible :
  forall (c : p_cfg) (r d : nat) (ops : list p_op) (be : bool),
    d <> r -> p_d_ok c d = true -> d < length c -> length c <= p_max_events -> p_ops_ok_d c d ops = true ->
    p_proj d (p_log (p_run be c ops)) = p_proj d (p_log (p_run be c (p_without_adds r ops))).
Proof. exact p_refused_add_invisible. Qed.
Print Assumptions c16_refused_add_invisible.

Theorem c16_other_ops_invisible :
  forall (c : p_cfg) (d : nat) (ops ops' : list p_op) (be : bool),
    p_d_ok c d = true -> d < length c -> length c <= p_max_events ->
    p_ops_ok_d c d ops = true -> p_ops_ok_d c d ops' = true ->
    Forall2 (fun o o' => o = o' \/ (p_op_other d o = true /\ p_op_other d o' = true)) ops ops' ->
    p_proj d (p_log (p_run be c ops)) = p_proj d (p_log (p_run be c ops')).
Proof. exact p_other_ops_invisible. Qed.
Print Assumptions c16_other_ops_invisible.

(* what "replaced in place" is, and a run in which the descriptor registered after the refused one gets its data *)
Example c16_ex_without_adds :
  p_without_adds 0 [POAddR 0; POAddR 1; POAddW 0; POWrite 0 [1%N]; POPoll false] =
    [POWrite 0 []; POAddR 1; POWrite 0 []; POWrite 0 [1%N]; POPoll false].
Proof. reflexivity. Qed.
Example c16_ex_refused_add_invisible :
  let c := [Build_p_dcfg PRef false false 9 [] [] []; Build_p_dcfg PPipe false false 9 [] [] []] in
  let ops := [POAddR 0; POAddR 1; POWrite 0 [1%N]; POWrite 1 [2%N]; POPoll false; PORemR 0; POPoll false] in
  p_d_ok c 1 = true /\ p_ops_ok_d c 1 ops = true /\
  map (fun e => (le_op e, le_d e, le_bytes e)) (p_log (p_run true c ops)) = [(4, 1, [2%N])] /\
  map (fun e => (le_op e, le_d e, le_bytes e)) (p_log (p_run true c (p_without_adds 0 ops))) = [(4, 1, [2%N])].
Proof. vm_compute. repeat split; reflexivity. Qed.

Example c16_ex_refused :
  let c := [Build_p_dcfg PRef false false 9 [] [] []; Build_p_dcfg PPipe false false 9 [] [] []] in
  let ops := [POAddR 0; POAddR 1; POWrite 0 [1%N]; POWrite 1 [2%N]; POPoll false; PORemR 0; POPoll false] in
  map (fun e => (le_d e, le_bytes e)) (p_log (p_run true c ops)) = [(1, [2%N])] /\
  map (fun e => (le_d e, le_bytes e)) (p_log (p_run false c ops)) = [(0, [1%N]); (1, [2%N])].
Proof. vm_compute. split; reflexivity. Qed.

(* Sanity checks kept from earlier rounds (bounded, by exhaustive evaluation): *)
(* Both back-ends deliver, per descriptor, the same callbacks and the same bytes — proved here ONLY on a
   bounded domain by exhaustive evaluation (hence _bounded_partial): one descriptor (pipe or socket, plain
   or connected, read size 0/1/9, callbacks without scripted add/remove), all sequences of at most 5
   operations from {AddRead, RemoveRead, peer writes 2 bytes, peer closes, Poll}.  A general (unbounded)
   simulation theorem between the two poller models is NOT proved; with callbacks that add/remove OTHER
   descriptors the back-ends legitimately differ (the order in which ready descriptors are served differs),
   and EPoller never deletes a delete_on_close descriptor; agreement is otherwise tested by the
   correspondence runs (key agree=). *)
Theorem c16_backends_agree_bounded_partial :
  forall c ops, In c p_ag_cfgs -> In ops (p_ag_seqs 5) ->
    p_cbs_eqb (p_proj 0 (p_log (p_run true c ops))) (p_proj 0 (p_log (p_run false c ops))) = true.
Proof. exact p_ag_bounded_forall. Qed.
Print Assumptions c16_backends_agree_bounded_partial.

(* Second bounded domain, with write registrations (the region repaired by fix 03: a socket registered for
   reading AND writing whose peer hangs up): one socket descriptor, all sequences of at most 5 operations from
   {AddRead, RemoveRead, AddWrite, RemoveWrite, peer writes 2 bytes, peer closes, Poll}. *)
Theorem c16_backends_agree_rw_bounded_partial :
  forall c ops, In c p_ag_socks -> In ops (p_ag_seqs_w 5) ->
    p_cbs_eqb (p_proj 0 (p_log (p_run true c ops))) (p_proj 0 (p_log (p_run false c ops))) = true.
Proof. exact p_ag_bounded_w_forall. Qed.
Print Assumptions c16_backends_agree_rw_bounded_partial.

(* Non-vacuity and the data-before-close behaviour on concrete runs. *)
Definition p_ex_cfg (k : p_kind) : p_cfg := [Build_p_dcfg k true false 9 [] [] []].
Definition p_ex_ops : list p_op := [POAddR 0; POWrite 0 [1%N; 2%N]; POClosePeer 0; POPoll false; POPoll false; POPoll false].
Definition p_ex_kinds (s : p_st) : list (p_cbk * list N * bool) :=
  map (fun e => (le_kind e, le_bytes e, le_reg e)) (p_log s).
Example c16_ex_epoll_pipe :
  p_ex_kinds (p_run true (p_ex_cfg PPipe) p_ex_ops) = [(PKRead, [1%N; 2%N], true); (PKClose, [], true)].
Proof. vm_compute. reflexivity. Qed.
Example c16_ex_epoll_sock :
  p_ex_kinds (p_run true (p_ex_cfg PSock) p_ex_ops) = [(PKRead, [1%N; 2%N], true); (PKClose, [], true)].
Proof. vm_compute. reflexivity. Qed.
Example c16_ex_select_sock :
  p_ex_kinds (p_run false (p_ex_cfg PSock) p_ex_ops) = [(PKRead, [1%N; 2%N], true); (PKClose, [], true)].
Proof. vm_compute. reflexivity. Qed.
(* a backlog that needs 17 read callbacks after the hang-up: all 17 bytes are delivered, then the close, on both
   back-ends (instance of c16_close_once_after_data / c16_backends_agree; no bound on the number of reads) *)
Example c16_ex_backlog :
  let c := [Build_p_dcfg PSock true false 1 [] [] []] in
  let ops := [POAddR 0; POWrite 0 (map N.of_nat (seq 1 17)); POClosePeer 0] ++ repeat (POPoll false) 19 in
  map (fun e => (le_kind e, le_bytes e)) (p_log (p_run true c ops)) =
    map (fun k => (PKRead, [N.of_nat k])) (seq 1 17) ++ [(PKClose, [])] /\
  p_log (p_run true c ops) = p_log (p_run false c ops).
Proof. vm_compute. split; reflexivity. Qed.
(* removal by an earlier callback of the same iteration: d0's read callback removes d1, both are ready *)
Example c16_ex_remove_ready :
  let c := [Build_p_dcfg PPipe true false 9 [PARemR 1] [] []; Build_p_dcfg PPipe true false 9 [] [] []] in
  let ops := [POAddR 0; POAddR 1; POWrite 0 [7%N]; POWrite 1 [8%N]; POPoll false; POPoll false] in
  map (fun e => (le_d e, le_kind e)) (p_log (p_run true c ops)) = [(0, PKRead)] /\
  map (fun e => (le_d e, le_kind e)) (p_log (p_run false c ops)) = [(0, PKRead)].
Proof. vm_compute. split; reflexivity. Qed.


(* ---------- polls whose wait system call is interrupted (EINTR) ---------- *)
(* select() / epoll_wait() returning -1/EINTR leave the fd sets / the event array as they were passed in; both
   pollers return without looking at them.  In any state, of either back-end: no callback runs (the log is unchanged),
   no close is reported, no byte is consumed, no registration changes, nothing is deleted; the operation index moves
   on by one.  (SelectPoller has rebuilt its fd sets before the wait, which purges erased slots: PIntr.p_intr.) *)
Theorem c16_interrupted_poll_serves_nothing : forall (c : p_cfg) (s : p_st),
  let s' := p_intr c s in
  st_log s' = st_log s /\ st_onclose s' = st_onclose s /\ st_pend s' = st_pend s /\ st_closed s' = st_closed s /\
  st_regr s' = st_regr s /\ st_regw s' = st_regw s /\ st_del s' = st_del s /\ st_rets s' = st_rets s /\
  st_ep s' = st_ep s /\ st_opix s' = S (st_opix s).
Proof. exact p_intr_serves_nothing. Qed.
Print Assumptions c16_interrupted_poll_serves_nothing.

(* ... and runs that contain interrupted polls anywhere (p_runx; PXIntr = an interrupted poll) still give every
   descriptor d that satisfies the per-descriptor guard the same callbacks with the same bytes on both back-ends,
   namely those of the single-descriptor abstract machine, for which an interrupted poll is a no-op. *)
Theorem c16_backends_agree_with_interrupts :
  forall (c : p_cfg) (d : nat) (ops : list p_opx),
    p_d_ok c d = true -> d < length c -> length c <= p_max_events -> p_ops_ok_d c d (p_px_ops ops) = true ->
    p_proj d (p_log (p_runx true c ops)) = p_proj d (p_log (p_runx false c ops)).
Proof. exact (fun c d ops GD L LM => p_agree_dx c d GD L LM ops). Qed.
Print Assumptions c16_backends_agree_with_interrupts.

Theorem c16_backends_refine_abstract_with_interrupts :
  forall (c : p_cfg) (d : nat) (ops : list p_opx) (be : bool),
    p_d_ok c d = true -> d < length c -> length c <= p_max_events -> p_ops_ok_d c d (p_px_ops ops) = true ->
    p_proj d (p_log (p_runx be c ops)) = rev (a_log (l_runx c d 0 (l_init c d) ops)).
Proof. exact (fun c d ops be GD L LM => p_refine_dx c d GD L LM ops be). Qed.
Print Assumptions c16_backends_refine_abstract_with_interrupts.

(* an idle connected descriptor and a pipe with unread data: the interrupted poll (operation 3) serves neither and
   reports no close; the next poll delivers the data; the hang-up is reported once, after a further interrupted poll *)
Example c16_ex_interrupted_poll :
  let c := [Build_p_dcfg PSock true false 9 [] [] []; Build_p_dcfg PPipe false false 9 [] [] []] in
  let ops := [PX (POAddR 0); PX (POAddR 1); PX (POWrite 1 [7%N]); PXIntr; PX (POPoll false); PX (POClosePeer 0); PXIntr;
              PX (POPoll false)] in
  p_d_ok c 0 = true /\ p_d_ok c 1 = true /\
  (fun be => map (fun e => (le_op e, le_d e, le_kind e, le_bytes e)) (p_log (p_runx be c ops))) true =
    [(4, 1, PKRead, [7%N]); (7, 0, PKClose, [])] /\
  (fun be => map (fun e => (le_op e, le_d e, le_kind e, le_bytes e)) (p_log (p_runx be c ops))) false =
    [(4, 1, PKRead, [7%N]); (7, 0, PKClose, [])].
Proof. cbv beta. vm_compute. repeat split; reflexivity. Qed.
