(* C16 part (a): a due, never-cancelled timer fires in the first ExecuteTimeouts with now >= deadline *)
From OlaBase Require Import Bytes.
From C16 Require Import Model Proofs Invariant Invariant2 Timers.
Local Open Scope N_scope.

Section Due.
Variable alloc : list N -> N -> N.
Variable pickc : list N -> N -> option N.
Hypothesis alloc_ok : forall live h, ~ In (alloc live h) live /\ alloc live h <> 0.
Hypothesis pickc_ok : forall live h id, pickc live h = Some id -> In id live.
Notation prim := (prim alloc).
Notation star := (star alloc).

(* relative to a base log L0: timer e is still queued and untouched, or it has fired since, or a cancel was
   aimed at it *)
Definition rel (L0 : list lentry) (e : event) (s : state) : Prop :=
  exists l, log s = l ++ L0 /\
    ((In e (q s) /\ forall x, In x (evs s) -> eser x = eser e -> x = e) \/
     (exists now, In (LFire e now) l) \/
     (exists id, In (LCancel (eser e) id) (log s))).

Lemma prim_clock s s' : prim s s' -> clock s <= clock s'.
Proof. clear alloc_ok pickc_ok. destruct 1; simpl; try lia.
  unfold do_cancel_id. destruct (id =? 0); simpl; lia. Qed.
Lemma star_clock s s' : star s s' -> clock s <= clock s'.
Proof. induction 1. lia. apply prim_clock in H. lia. Qed.

Lemma rel_grow L0 e s s' x l :
  log s = l ++ L0 -> log s' = x :: log s ->
  ((exists now, In (LFire e now) l) \/ (exists id, In (LCancel (eser e) id) (log s))) ->
  rel L0 e s'.
Proof.
  intros E E' H. exists (x :: l). split. rewrite E', E. reflexivity.
  right. destruct H as [(now & H)|(id & H)].
  - left. exists now. right; auto.
  - right. exists id. rewrite E'. right; auto.
Qed.

Lemma prim_rel L0 e s s' : prim s s' -> Inv s -> rel L0 e s -> rel L0 e s'.
Proof.
  intros P I (l & E & R). destruct P.
  - (* register *)
    destruct R as [[Hq Hu]|R]; [|eapply rel_grow; eauto; reflexivity].
    exists (LReg (mkEv (alloc (ids s) h) (nser s) (clock s) iv (clock s + iv) rep) :: l). split.
    simpl. rewrite E. reflexivity. left. split. simpl; auto.
    intros x Hx Ex. change (evs (do_reg alloc s rep iv h)) with
      (mkEv (alloc (ids s) h) (nser s) (clock s) iv (clock s + iv) rep :: evs s) in Hx.
    destruct Hx as [<-|Hx]; auto. simpl in Ex.
    assert (Hin : In e (evs s)) by (unfold evs; apply in_or_app; auto).
    apply (i_lt _ I) in Hin. lia.
  - (* cancel *)
    destruct (cancel_shape s id H H0) as (e1 & He1 & Eid & ->).
    destruct R as [[Hq Hu]|R]; [|eapply rel_grow; eauto; reflexivity].
    exists (LCancel (eser e1) id :: l). split. simpl. rewrite E. reflexivity.
    left. split; auto.
  - (* advance *)
    exists l. split; auto.
  - (* drop *)
    destruct R as [[Hq Hu]|R]; [|eapply rel_grow; eauto; reflexivity].
    destruct (N.eq_dec (eser e0) (eser e)) as [Es|Es].
    + assert (e0 = e). { apply Hu; auto. rewrite (evs_nocur s H). auto. } subst e0.
      eapply rel_grow; eauto. reflexivity. right.
      apply (i_canc _ I e). rewrite (evs_nocur s H); auto. auto.
    + exists (LDrop e0 :: l). split. simpl. rewrite E. reflexivity. left. split.
      * simpl. apply remove_ser_In. split; auto.
      * intros x Hx Ex. apply Hu; auto. unfold evs in Hx. simpl in Hx. rewrite H in Hx.
        rewrite app_nil_r in Hx. apply remove_ser_In in Hx. rewrite (evs_nocur s H). tauto.
  - (* fire *)
    destruct R as [[Hq Hu]|R]; [|eapply rel_grow; eauto; reflexivity].
    destruct (N.eq_dec (eser e0) (eser e)) as [Es|Es].
    + assert (e0 = e). { apply Hu; auto. rewrite (evs_nocur s H). auto. } subst e0.
      exists (LFire e now :: l). split. simpl. rewrite E. reflexivity.
      right; left. exists now. left; auto.
    + exists (LFire e0 now :: l). split. simpl. rewrite E. reflexivity. left. split.
      * simpl. apply remove_ser_In. split; auto.
      * intros x Hx Ex. apply Hu; auto. apply (fire_evs s e0 now H H0 I); auto.
  - (* again *)
    destruct R as [[Hq Hu]|R]; [|eapply rel_grow; eauto; reflexivity].
    exists (LRet (eser e0) true :: l). split. simpl. rewrite E. reflexivity. left. split.
    + simpl. auto.
    + intros x Hx Ex. unfold evs in Hx. simpl in Hx. rewrite app_nil_r in Hx. destruct Hx as [<-|Hx].
      * simpl in Ex. exfalso. eapply cur_notin_q; eauto.
      * apply Hu; auto. rewrite (evs_cur s e0 H). apply in_or_app; auto.
  - (* done *)
    destruct R as [[Hq Hu]|R]; [|eapply rel_grow; eauto; reflexivity].
    exists (LRet (eser e0) false :: l). split. simpl. rewrite E. reflexivity. left. split.
    + simpl. auto.
    + intros x Hx Ex. unfold evs in Hx. simpl in Hx. rewrite app_nil_r in Hx.
      apply Hu; auto. rewrite (evs_cur s e0 H). apply in_or_app; auto.
Qed.

Lemma star_rel L0 e s s' : star s s' -> Inv s -> rel L0 e s -> rel L0 e s'.
Proof.
  induction 1; auto. intros I R. apply IHstar.
  - eapply (prim_inv alloc pickc alloc_ok); eauto.
  - eapply prim_rel; eauto.
Qed.

Lemma t_due_fires ops s cbs s' e :
  run alloc pickc init ops = Some s -> In e (q s) -> enext e <= clock s ->
  step alloc pickc s (OExec cbs) = Some s' ->
  (forall id, ~ In (LCancel (eser e) id) (log s')) ->
  exists l now, log s' = l ++ log s /\ In (LFire e now) l.
Proof.
  intros Hr Hq Hdue Hs Hnc.
  destruct (reach_inv alloc pickc alloc_ok pickc_ok ops s Hr) as [I C].
  destruct (step_star alloc pickc pickc_ok s (OExec cbs) s' C Hs) as [S C'].
  assert (R0 : rel (log s) e s).
  { exists []. split; auto. left. split; auto. intros x Hx Ex.
    eapply ser_inj; eauto. rewrite (evs_nocur s C); auto. }
  destruct (star_rel (log s) e s s' S I R0) as (l & E & [[Hq' _]|[(now & Hf)|(id & Hc)]]).
  - exfalso. simpl in Hs. destruct (do_exec alloc pickc s cbs) as [[s1 n1]|] eqn:X; inversion Hs; subst s1.
    destruct (exec_post alloc pickc s cbs s' n1 X) as [_ P]. specialize (P e Hq').
    pose proof (star_clock s s' S). lia.
  - exists l, now. auto.
  - exfalso. eapply Hnc; eauto.
Qed.

(* ---------------------------------------------------------------- a due timer fires at the next
   ExecuteTimeouts of ANY continuation of the history *)
Lemma prim_log s s' : prim s s' -> log s' = log s \/ exists x, log s' = x :: log s.
Proof.
  clear alloc_ok pickc_ok. destruct 1; simpl; eauto.
  unfold do_cancel_id. destruct (id =? 0); auto. simpl.
  destruct (find (fun e => eid e =? id) (evs s)); eauto.
Qed.
Definition rel23 (L0 : list lentry) (e : event) (s : state) : Prop :=
  exists l, log s = l ++ L0 /\
    ((exists now, In (LFire e now) l) \/ (exists id, In (LCancel (eser e) id) (log s))).
Lemma prim_rel23 L0 e s s' : prim s s' -> rel23 L0 e s -> rel23 L0 e s'.
Proof.
  intros P (l & E & H). destruct (prim_log s s' P) as [X|(x & X)].
  - exists l. rewrite X. auto.
  - exists (x :: l). rewrite X, E. split; auto. destruct H as [(now & H)|(id & H)].
    + left. exists now. right; auto.
    + right. exists id. rewrite <- E. right; auto.
Qed.
Lemma star_rel23 L0 e s s' : star s s' -> rel23 L0 e s -> rel23 L0 e s'.
Proof. induction 1; auto. intros. apply IHstar. eapply prim_rel23; eauto. Qed.

Lemma run_app ops1 : forall ops2 s, run alloc pickc s (ops1 ++ ops2) =
  match run alloc pickc s ops1 with Some s1 => run alloc pickc s1 ops2 | None => None end.
Proof.
  induction ops1 as [|o ops1 IH]; simpl; intros; auto.
  destruct (step alloc pickc s o); auto.
Qed.

Lemma t_due_fires_later ops0 s pre cbs post s' e :
  run alloc pickc init ops0 = Some s -> In e (q s) -> enext e <= clock s ->
  run alloc pickc s (pre ++ OExec cbs :: post) = Some s' ->
  (forall id, ~ In (LCancel (eser e) id) (log s')) ->
  exists l now, log s' = l ++ log s /\ In (LFire e now) l.
Proof.
  intros Hr Hq Hdue Hs Hnc.
  destruct (reach_inv alloc pickc alloc_ok pickc_ok ops0 s Hr) as [I C].
  rewrite run_app in Hs. destruct (run alloc pickc s pre) as [s1|] eqn:R1; [|discriminate].
  change (run alloc pickc s1 (OExec cbs :: post)) with
    (match step alloc pickc s1 (OExec cbs) with Some x => run alloc pickc x post | None => None end) in Hs.
  destruct (step alloc pickc s1 (OExec cbs)) as [s2|] eqn:R2; [|discriminate].
  destruct (run_star alloc pickc pickc_ok pre s s1 C R1) as [S1 C1].
  destruct (step_star alloc pickc pickc_ok s1 (OExec cbs) s2 C1 R2) as [S2 C2].
  destruct (run_star alloc pickc pickc_ok post s2 s' C2 Hs) as [S3 C3].
  assert (R0 : rel (log s) e s).
  { exists []. split; auto. left. split; auto. intros x Hx Ex.
    eapply ser_inj; eauto. rewrite (evs_nocur s C); auto. }
  assert (S12 : star s s2) by (eapply star_trans; eauto).
  assert (R23 : rel23 (log s) e s2).
  { destruct (star_rel (log s) e s s2 S12 I R0) as (l & E & [[Hq' _]|H]).
    - exfalso. simpl in R2. destruct (do_exec alloc pickc s1 cbs) as [[sx n1]|] eqn:X; inversion R2; subst sx.
      destruct (exec_post alloc pickc s1 cbs s2 n1 X) as [_ P]. specialize (P e Hq').
      pose proof (star_clock s s1 S1). pose proof (star_clock s1 s2 S2). lia.
    - exists l. split; auto. }
  destruct (star_rel23 (log s) e s2 s' S3 R23) as (l & E & [(now & Hf)|(id & Hc)]).
  - exists l, now. auto.
  - exfalso. eapply Hnc; eauto.
Qed.

(* a SelectServer iteration is the history runonce_ops *)
Lemma do_regs_run l : forall s,
  run alloc pickc s (map (fun r : reg3 => let '(rep, iv, h) := r in OReg rep iv h) l) = Some (do_regs alloc s l).
Proof.
  clear alloc_ok pickc_ok. unfold do_regs. induction l as [|[[rep iv] h] l IH]; simpl; intros; auto.
Qed.
Lemma runonce_run epoll s b lr dr cbs1 cbs2 s' :
  runonce alloc pickc epoll s b lr dr cbs1 cbs2 = Some s' ->
  exists sleep, run alloc pickc s (runonce_ops epoll sleep lr dr cbs1 cbs2) = Some s' /\
    (forall s1 now1, do_exec alloc pickc (do_regs alloc s lr) cbs1 = Some (s1, now1) ->
       sleep = poll_sleep epoll s1 now1 b).
Proof.
  clear alloc_ok pickc_ok. unfold runonce, runonce_ops. intros H.
  destruct (do_exec alloc pickc (do_regs alloc s lr) cbs1) as [[s1 now1]|] eqn:E1; [|discriminate].
  exists (poll_sleep epoll s1 now1 b). split; [|intros ? ? X; inversion X; subst; reflexivity].
  rewrite run_app, do_regs_run. simpl. rewrite E1.
  destruct dr as [|r dr].
  - simpl. destruct (do_exec alloc pickc (do_advance s1 (poll_sleep epoll s1 now1 b)) cbs2) as [[s3 n3]|]; auto.
  - rewrite run_app, do_regs_run. set (s2 := do_regs alloc s1 (r :: dr)) in *. clearbody s2.
    simpl. destruct (do_exec alloc pickc s2 cbs2) as [[s3 n3]|]; auto.
Qed.

(* an iteration whose wait is interrupted is the history: loop registrations, then ONE ExecuteTimeouts *)
Lemma runonce_intr_run s lr cbs1 s' :
  runonce_intr alloc pickc s lr cbs1 = Some s' ->
  run alloc pickc s (map (fun r : reg3 => let '(rep, iv, h) := r in OReg rep iv h) lr ++ [OExec cbs1]) = Some s'.
Proof.
  clear alloc_ok pickc_ok. unfold runonce_intr. intros H.
  destruct (do_exec alloc pickc (do_regs alloc s lr) cbs1) as [[s1 now1]|] eqn:E1; [|discriminate].
  rewrite run_app, do_regs_run. simpl. rewrite E1. exact H.
Qed.

Lemma t_runonce_fires_due ops0 s epoll b lr dr cbs1 cbs2 s' e :
  run alloc pickc init ops0 = Some s -> In e (q s) -> enext e <= clock s ->
  runonce alloc pickc epoll s b lr dr cbs1 cbs2 = Some s' ->
  (forall id, ~ In (LCancel (eser e) id) (log s')) ->
  exists l now, log s' = l ++ log s /\ In (LFire e now) l.
Proof.
  intros Hr Hq Hd H Hnc. destruct (runonce_run _ _ _ _ _ _ _ _ H) as (sl & R & _).
  unfold runonce_ops in R.
  eapply (t_due_fires_later ops0 s _ cbs1 _ s' e Hr Hq Hd R Hnc).
Qed.

Lemma t_runonce_post epoll s b lr dr cbs1 cbs2 s' :
  runonce alloc pickc epoll s b lr dr cbs1 cbs2 = Some s' -> forall x, In x (q s') -> clock s' < enext x.
Proof.
  clear alloc_ok pickc_ok. unfold runonce. intros H.
  destruct (do_exec alloc pickc (do_regs alloc s lr) cbs1) as [[s1 now1]|]; [|discriminate].
  match type of H with match do_exec alloc pickc ?s2 cbs2 with _ => _ end = _ =>
    destruct (do_exec alloc pickc s2 cbs2) as [[s3 n3]|] eqn:E; [|discriminate] end.
  inversion H; subst. apply (exec_post alloc pickc _ _ _ _ E).
Qed.
End Due.
