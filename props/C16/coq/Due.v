(* C16 part (a): a due, never-cancelled timer fires in the first ExecuteTimeouts with now >= deadline *)
From OlaBase Require Import Bytes.
From C16 Require Import Model Proofs Invariant Invariant2 Timers.
Local Open Scope N_scope.

Section Due.
Variable alloc : list N -> N -> N.
Variable pickc : list N -> N -> option N.
Hypothesis alloc_ok : forall live h, ~ In (alloc live h) live /\ alloc live h <> 0.
Hypothesis pickc_ok : forall live h id, pickc live h = Some id -> In id live.
Notation prim := (prim alloc).
Notation star := (star alloc).

(* relative to a base log L0: timer e is still queued and untouched, or it has fired since, or a cancel was
   aimed at it *)
Definition rel (L0 : list lentry) (e : event) (s : state) : Prop :=
  exists l, log s = l ++ L0 /\
    ((In e (q s) /\ forall x, In x (evs s) -> eser x = eser e -> x = e) \/
     (exists now, In (LFire e now) l) \/
     (exists id, In (LCancel (eser e) id) (log s))).

Lemma prim_clock s s' : prim s s' -> clock s <= clock s'.
Proof. clear alloc_ok pickc_ok. destruct 1; simpl; try lia.
  unfold do_cancel_id. destruct (id =? 0); simpl; lia. Qed.
Lemma star_clock s s' : star s s' -> clock s <= clock s'.
Proof. induction 1. lia. apply prim_clock in H. lia. Qed.

Lemma rel_grow L0 e s s' x l :
  log s = l ++ L0 -> log s' = x :: log s ->
  ((exists now, In (LFire e now) l) \/ (exists id, In (LCancel (eser e) id) (log s))) ->
  rel L0 e s'.
Proof.
  intros E E' H. exists (x :: l). split. rewrite E', E. reflexivity.
  right. destruct H as [(now & H)|(id & H)].
  - left. exists now. right; auto.
  - right. exists id. rewrite E'. right; auto.
Qed.

Lemma prim_rel L0 e s s' : prim s s' -> Inv s -> rel L0 e s -> rel L0 e s'.
Proof.
  intros P I (l & E & R). destruct P.
  - (* register *)
    destruct R as [[Hq Hu]|R]; [|eapply rel_grow; eauto; reflexivity].
    exists (LReg (mkEv (alloc (ids s) h) (nser s) (clock s) iv (clock s + iv) rep) :: l). split.
    simpl. rewrite E. reflexivity. left. split. simpl; auto.
    intros x Hx Ex. change (evs (do_reg alloc s rep iv h)) with
      (mkEv (alloc (ids s) h) (nser s) (clock s) iv (clock s + iv) rep :: evs s) in Hx.
    destruct Hx as [<-|Hx]; auto. simpl in Ex.
    assert (Hin : In e (evs s)) by (unfold evs; apply in_or_app; auto).
    apply (i_lt _ I) in Hin. lia.
  - (* cancel *)
    destruct (cancel_shape s id H H0) as (e1 & He1 & Eid & ->).
    destruct R as [[Hq Hu]|R]; [|eapply rel_grow; eauto; reflexivity].
    exists (LCancel (eser e1) id :: l). split. simpl. rewrite E. reflexivity.
    left. split; auto.
  - (* advance *)
    exists l. split; auto.
  - (* drop *)
    destruct R as [[Hq Hu]|R]; [|eapply rel_grow; eauto; reflexivity].
    destruct (N.eq_dec (eser e0) (eser e)) as [Es|Es].
    + assert (e0 = e). { apply Hu; auto. rewrite (evs_nocur s H). auto. } subst e0.
      eapply rel_grow; eauto. reflexivity. right.
      apply (i_canc _ I e). rewrite (evs_nocur s H); auto. auto.
    + exists (LDrop e0 :: l). split. simpl. rewrite E. reflexivity. left. split.
      * simpl. apply remove_ser_In. split; auto.
      * intros x Hx Ex. apply Hu; auto. unfold evs in Hx. simpl in Hx. rewrite H in Hx.
        rewrite app_nil_r in Hx. apply remove_ser_In in Hx. rewrite (evs_nocur s H). tauto.
  - (* fire *)
    destruct R as [[Hq Hu]|R]; [|eapply rel_grow; eauto; reflexivity].
    destruct (N.eq_dec (eser e0) (eser e)) as [Es|Es].
    + assert (e0 = e). { apply Hu; auto. rewrite (evs_nocur s H). auto. } subst e0.
      exists (LFire e now :: l). split. simpl. rewrite E. reflexivity.
      right; left. exists now. left; auto.
    + exists (LFire e0 now :: l). split. simpl. rewrite E. reflexivity. left. split.
      * simpl. apply remove_ser_In. split; auto.
      * intros x Hx Ex. apply Hu; auto. apply (fire_evs s e0 now H H0 I); auto.
  - (* again *)
    destruct R as [[Hq Hu]|R]; [|eapply rel_grow; eauto; reflexivity].
    exists (LRet (eser e0) true :: l). split. simpl. rewrite E. reflexivity. left. split.
    + simpl. auto.
    + intros x Hx Ex. unfold evs in Hx. simpl in Hx. rewrite app_nil_r in Hx. destruct Hx as [<-|Hx].
      * simpl in Ex. exfalso. eapply cur_notin_q; eauto.
      * apply Hu; auto. rewrite (evs_cur s e0 H). apply in_or_app; auto.
  - (* done *)
    destruct R as [[Hq Hu]|R]; [|eapply rel_grow; eauto; reflexivity].
    exists (LRet (eser e0) false :: l). split. simpl. rewrite E. reflexivity. left. split.
    + simpl. auto.
    + intros x Hx Ex. unfold evs in Hx. simpl in Hx. rewrite app_nil_r in Hx.
      apply Hu; auto. rewrite (evs_cur s e0 H). apply in_or_app; auto.
Qed.

Lemma star_rel L0 e s s' : star s s' -> Inv s -> rel L0 e s -> rel L0 e s'.
Proof.
  induction 1; auto. intros I R. apply IHstar.
  - eapply (prim_inv alloc pickc alloc_ok); eauto.
  - eapply prim_rel; eauto.
Qed.

Lemma t_due_fires ops s cbs s' e :
  run alloc pickc init ops = Some s -> In e (q s) -> enext e <= clock s ->
  step alloc pickc s (OExec cbs) = Some s' ->
  (forall id, ~ In (LCancel (eser e) id) (log s')) ->
  exists l now, log s' = l ++ log s /\ In (LFire e now) l.
Proof.
  intros Hr Hq Hdue Hs Hnc.
  destruct (reach_inv alloc pickc alloc_ok pickc_ok ops s Hr) as [I C].
  destruct (step_star alloc pickc pickc_ok s (OExec cbs) s' C Hs) as [S C'].
  assert (R0 : rel (log s) e s).
  { exists []. split; auto. left. split; auto. intros x Hx Ex.
    eapply ser_inj; eauto. rewrite (evs_nocur s C); auto. }
  destruct (star_rel (log s) e s s' S I R0) as (l & E & [[Hq' _]|[(now & Hf)|(id & Hc)]]).
  - exfalso. simpl in Hs. destruct (do_exec alloc pickc s cbs) as [[s1 n1]|] eqn:X; inversion Hs; subst s1.
    destruct (exec_post alloc pickc s cbs s' n1 X) as [_ P]. specialize (P e Hq').
    pose proof (star_clock s s' S). lia.
  - exists l, now. auto.
  - exfalso. eapply Hnc; eauto.
Qed.
End Due.
