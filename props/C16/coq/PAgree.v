(* C16 part (b): bounded exhaustive comparison of the two back-end models (NOT a general theorem).
   Domain: one descriptor (pipe or socket; plain or connected; read size 0, 1 or 9; callbacks without
   scripted actions), every sequence of at most 5 operations out of
   { AddRead, RemoveRead, peer writes 2 bytes, peer closes, Poll }. *)
Require Import List Arith Bool NArith Lia.
Import ListNotations.
From C16 Require Import PModel.

Definition p_ag_cfgs : list p_cfg :=
  flat_map (fun k => flat_map (fun conn => map (fun rk => [Build_p_dcfg k conn false rk [] [] []]) [0; 1; 9])
                              [true; false]) [PPipe; PSock].
Definition p_ag_alpha : list p_op :=
  [POAddR 0; PORemR 0; POWrite 0 [1%N; 2%N]; POClosePeer 0; POPoll false].
Fixpoint p_ag_seqs_of (al : list p_op) (n : nat) : list (list p_op) :=
  match n with
  | O => [[]]
  | S m => [] :: flat_map (fun o => map (cons o) (p_ag_seqs_of al m)) al
  end.
Definition p_ag_seqs := p_ag_seqs_of p_ag_alpha.
(* second domain: with write registrations (sockets get EPOLLOUT; the region of fix 03) *)
Definition p_ag_alpha_w : list p_op :=
  [POAddR 0; PORemR 0; POAddW 0; PORemW 0; POWrite 0 [1%N; 2%N]; POClosePeer 0; POPoll false].
Definition p_ag_seqs_w := p_ag_seqs_of p_ag_alpha_w.
Definition p_kind_eqb (a b : p_cbk) : bool :=
  match a, b with PKRead, PKRead | PKWrite, PKWrite | PKClose, PKClose => true | _, _ => false end.
Fixpoint p_bytes_eqb (a b : list N) : bool :=
  match a, b with
  | [], [] => true
  | x :: a', y :: b' => N.eqb x y && p_bytes_eqb a' b'
  | _, _ => false
  end.
Fixpoint p_cbs_eqb (a b : list p_ev) : bool :=
  match a, b with
  | [], [] => true
  | x :: a', y :: b' => p_kind_eqb (le_kind x) (le_kind y) && p_bytes_eqb (le_bytes x) (le_bytes y)
                        && Nat.eqb (le_op x) (le_op y) && p_cbs_eqb a' b'
  | _, _ => false
  end.
(* same callbacks, same bytes, at the same operation, for descriptor 0 *)
Definition p_ag_case (c : p_cfg) (ops : list p_op) : bool :=
  p_cbs_eqb (p_proj 0 (p_log (p_run true c ops))) (p_proj 0 (p_log (p_run false c ops))).
Definition p_ag_all (n : nat) : bool :=
  forallb (fun c => forallb (p_ag_case c) (p_ag_seqs n)) p_ag_cfgs.

Lemma p_ag_bounded : p_ag_all 5 = true.
Proof. vm_compute. reflexivity. Qed.

Lemma p_ag_bounded_forall c ops :
  In c p_ag_cfgs -> In ops (p_ag_seqs 5) -> p_ag_case c ops = true.
Proof.
  intros Hc Ho. pose proof p_ag_bounded as H. unfold p_ag_all in H.
  rewrite forallb_forall in H. specialize (H c Hc). rewrite forallb_forall in H. exact (H ops Ho).
Qed.

