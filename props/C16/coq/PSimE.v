(* C16 part (b): the EPoller model refines the single-descriptor abstract machine (per descriptor d). *)
Require Import List Arith Bool NArith Lia Permutation.
Import ListNotations.
From C16 Require Import PModel PProofs PClose PHaz PWf PLive PAbs PSimS.

Arguments l_invoke : simpl never.
Arguments l_close_path : simpl never.
Arguments l_read_part : simpl never.
Arguments l_poll : simpl never.
Arguments p_invoke : simpl never.

Section SimE.
Variable c : p_cfg.
Variable d : nat.
Hypothesis G1 : forall x a, x <> d -> In a (pc_rs (p_get c x) ++ pc_ws (p_get c x) ++ pc_cs (p_get c x)) -> p_act_target a <> d.
Hypothesis G2d : pc_doc (p_get c d) = false.
Hypothesis G5 : p_refused c d = false.
Local Notation conn := (pc_conn (p_get c d)).
Local Notation sock := (p_is_sock c d).

(* d's row of the EPoller table *)
Definition p_tab (e : p_ep) (ar aw : bool) : Prop :=
  match ep_map e d with
  | None => ar = false /\ aw = false
  | Some id =>
    let o := ep_obj e id in
    e_rd o = (if ar && negb conn then Some d else None) /\
    e_cd o = (if ar && conn then Some d else None) /\
    e_wd o = (if aw then Some d else None) /\
    e_r o = ar /\ e_w o = aw /\ ar || aw = true /\ e_doc o = false
  end.
(* while d's event (EPollData id0) is being processed *)
Definition p_mid (e : p_ep) (cut : bool) (id0 : nat) : Prop :=
  if cut then In id0 (ep_orph e) /\ e_rd (ep_obj e id0) = None /\ e_cd (ep_obj e id0) = None /\
              e_wd (ep_obj e id0) = None
  else ep_map e d = Some id0.

Lemma p_lookup_some e fd id : ep_map e fd = Some id -> p_ep_lookup e fd = (e, id, false).
Proof. intros M. unfold p_ep_lookup. rewrite M. reflexivity. Qed.

Lemma p_lookup_new e fd e1 idn nw : p_wf e -> ep_map e fd = None -> p_ep_lookup e fd = (e1, idn, nw) ->
  ep_orph e1 = ep_orph e /\ ~ In idn (ep_orph e) /\ ep_obj e1 idn = p_ed0 /\ ep_map e1 fd = Some idn /\
  (forall id', id' <> idn -> ep_obj e1 id' = ep_obj e id') /\ p_wf e1.
Proof.
  intros W M L. destruct (p_wf_lookup _ _ _ _ _ W L) as (W1 & M1 & _ & F2 & _).
  destruct W as (_ & W2 & W3 & W4).
  unfold p_ep_lookup in L. rewrite M in L.
  destruct (ep_free e) as [|i fr] eqn:F; inversion L; subst; simpl in *.
  - split; [reflexivity|]. split.
    { intros X. assert (ep_next e < ep_next e) by (apply W3; auto). lia. }
    split. { unfold p_upd. rewrite Nat.eqb_refl. reflexivity. }
    split; [exact M1|]. split; [exact F2|exact W1].
  - split; [reflexivity|]. split.
    { intros X. inversion W4; subst. apply H1. apply in_or_app. auto. }
    split. { unfold p_upd. rewrite Nat.eqb_refl. reflexivity. }
    split; [exact M1|]. split; [exact F2|exact W1].
Qed.

Lemma p_mapped_not_orph e x id id0 : p_wf e -> ep_map e x = Some id -> In id0 (ep_orph e) -> id <> id0.
Proof. intros (_ & W2 & _) M I E. subst. apply W2 in M. destruct M as [_ M]. apply M. apply in_or_app; auto. Qed.

Lemma p_upd_other {A} (f : nat -> A) k v x : x <> k -> p_upd f k v x = f x.
Proof. intros N. unfold p_upd. apply Nat.eqb_neq in N. rewrite N. reflexivity. Qed.

Lemma p_tab_add_r e ar aw : p_wf e -> p_tab e ar aw ->
  p_wf (fst (p_ep_add_r c e d)) /\ p_tab (fst (p_ep_add_r c e d)) true aw /\
  forall cut id0, p_mid e cut id0 -> p_mid (fst (p_ep_add_r c e d)) cut id0.
Proof.
  intros W T. unfold p_ep_add_r, p_tab in *.
  destruct (ep_map e d) as [id|] eqn:M.
  - rewrite (p_lookup_some e d id M). destruct T as (T1 & T2 & T3 & T4 & T5 & T6 & T7).
    rewrite T4. destruct ar; simpl.
    + split; auto. split. rewrite M. repeat split; auto.
      intros cut id0 X; exact X.
    + split; [destruct conn; exact W|]. split.
      * destruct conn eqn:CN; simpl; rewrite M; unfold p_ep_set_obj; simpl; rewrite p_upd_same; simpl;
          simpl in T1, T2; repeat split; auto; try apply G2d.
      * intros cut id0 X. unfold p_mid in *. destruct cut.
        -- destruct X as (X1 & X2). assert (id <> id0) by (eapply p_mapped_not_orph; eauto).
           destruct conn; simpl; rewrite p_upd_other; auto.
        -- destruct conn; simpl; exact X.
  - destruct T as [-> ->].
    destruct (p_ep_lookup e d) as [[e1 idn] nw] eqn:L.
    destruct (p_lookup_new _ _ _ _ _ W M L) as (O1 & O2 & O3 & O4 & O5 & W1).
    rewrite O3. simpl. split; [destruct conn; exact W1|]. split.
    + destruct conn eqn:CN; simpl; rewrite O4; unfold p_ep_set_obj; simpl; rewrite p_upd_same; simpl;
        repeat split; auto; try apply G2d.
    + intros cut id0 X. unfold p_mid in *. destruct cut; [|congruence].
      destruct X as (X1 & X2). assert (id0 <> idn) by (intro; subst; auto).
      destruct conn; simpl; rewrite O1, p_upd_other, O5; auto.
Qed.

Lemma p_tab_add_w e ar aw : p_wf e -> p_tab e ar aw ->
  p_wf (fst (p_ep_add_w e d)) /\ p_tab (fst (p_ep_add_w e d)) ar true /\
  forall cut id0, p_mid e cut id0 -> p_mid (fst (p_ep_add_w e d)) cut id0.
Proof.
  intros W T. unfold p_ep_add_w, p_tab in *.
  destruct (ep_map e d) as [id|] eqn:M.
  - rewrite (p_lookup_some e d id M). destruct T as (T1 & T2 & T3 & T4 & T5 & T6 & T7).
    rewrite T5. destruct aw; simpl.
    + split; auto. split. rewrite M. repeat split; auto.
      intros cut id0 X; exact X.
    + split; [exact W|]. split.
      * simpl; rewrite M; unfold p_ep_set_obj; simpl; rewrite p_upd_same; simpl; repeat split; auto.
        apply orb_true_r.
      * intros cut id0 X. unfold p_mid in *. destruct cut.
        -- destruct X as (X1 & X2). assert (id <> id0) by (eapply p_mapped_not_orph; eauto).
           simpl; rewrite p_upd_other; auto.
        -- simpl; exact X.
  - destruct T as [-> ->].
    destruct (p_ep_lookup e d) as [[e1 idn] nw] eqn:L.
    destruct (p_lookup_new _ _ _ _ _ W M L) as (O1 & O2 & O3 & O4 & O5 & W1).
    rewrite O3. simpl. split; [exact W1|]. split.
    + simpl; rewrite O4; unfold p_ep_set_obj; simpl; rewrite p_upd_same; simpl; repeat split; auto.
    + intros cut id0 X. unfold p_mid in *. destruct cut; [|congruence].
      destruct X as (X1 & X2). assert (id0 <> idn) by (intro; subst; auto).
      simpl; rewrite O1, p_upd_other, O5; auto.
Qed.

Lemma p_tab_rem_r e ar aw : p_wf e -> p_tab e ar aw ->
  p_wf (fst (p_ep_remove e d false)) /\ p_tab (fst (p_ep_remove e d false)) false aw /\
  forall cut id0, p_mid e cut id0 -> p_mid (fst (p_ep_remove e d false)) (cut || negb aw) id0.
Proof.
  intros W T. pose proof (p_wf_remove e d false W) as W'. split; [exact W'|]. clear W'.
  unfold p_ep_remove, p_tab in *.
  destruct (ep_map e d) as [id|] eqn:M.
  - destruct T as (T1 & T2 & T3 & T4 & T5 & T6 & T7). simpl. rewrite T5.
    destruct aw; simpl.
    + split.
      * rewrite M. unfold p_ep_set_obj; simpl. rewrite p_upd_same; simpl. repeat split; auto.
      * intros cut id0 X. rewrite orb_false_r. unfold p_mid in *. destruct cut; simpl; auto.
        destruct X as (X1 & X2). assert (id <> id0) by (eapply p_mapped_not_orph; eauto).
        rewrite p_upd_other; auto.
    + split.
      * rewrite p_upd_same. auto.
      * intros cut id0 X. rewrite orb_true_r. unfold p_mid in *. simpl. destruct cut.
        -- destruct X as (X1 & X2). assert (id <> id0) by (eapply p_mapped_not_orph; eauto).
           split. apply in_or_app; auto. rewrite p_upd_other; auto.
        -- assert (id0 = id) by congruence. subst id0. split. apply in_or_app; right; simpl; auto.
           rewrite p_upd_same. simpl. auto.
  - destruct T as [-> ->]. simpl. split. rewrite M; auto.
    intros cut id0 X. unfold p_mid in *. destruct cut; simpl; auto. congruence.
Qed.

Lemma p_tab_rem_w e ar aw : p_wf e -> p_tab e ar aw ->
  p_wf (fst (p_ep_remove e d true)) /\ p_tab (fst (p_ep_remove e d true)) ar false /\
  forall cut id0, p_mid e cut id0 -> p_mid (fst (p_ep_remove e d true)) (cut || negb ar) id0.
Proof.
  intros W T. pose proof (p_wf_remove e d true W) as W'. split; [exact W'|]. clear W'.
  unfold p_ep_remove, p_tab in *.
  destruct (ep_map e d) as [id|] eqn:M.
  - destruct T as (T1 & T2 & T3 & T4 & T5 & T6 & T7). simpl. rewrite T4.
    destruct ar; simpl.
    + split.
      * rewrite M. unfold p_ep_set_obj; simpl. rewrite p_upd_same; simpl. repeat split; auto.
      * intros cut id0 X. rewrite orb_false_r. unfold p_mid in *. destruct cut; simpl; auto.
        destruct X as (X1 & X2). assert (id <> id0) by (eapply p_mapped_not_orph; eauto).
        rewrite p_upd_other; auto.
    + split.
      * rewrite p_upd_same. auto.
      * intros cut id0 X. rewrite orb_true_r. unfold p_mid in *. simpl. destruct cut.
        -- destruct X as (X1 & X2). assert (id <> id0) by (eapply p_mapped_not_orph; eauto).
           split. apply in_or_app; auto. rewrite p_upd_other; auto.
        -- assert (id0 = id) by congruence. subst id0. split. apply in_or_app; right; simpl; auto.
           rewrite p_upd_same. simpl. simpl in T1, T2. auto.
  - destruct T as [-> ->]. simpl. split. rewrite M; auto.
    intros cut id0 X. unfold p_mid in *. destruct cut; simpl; auto. congruence.
Qed.

(* ---------- the relation ---------- *)
Record p_re (s : p_st) (a : p_a) : Prop := {
  re_be : st_be s = true;
  re_pend : st_pend s d = a_pend a;
  re_closed : st_closed s d = a_closed a;
  re_on : st_onclose s d = a_on a;
  re_regr : st_regr s d = a_regr a;
  re_regw : st_regw s d = a_regw a;
  re_del : st_del s d = false;
  re_log : p_proj d (st_log s) = a_log a;
  re_tab : p_tab (st_ep s) (a_r a) (a_w a);
  re_sock : a_w a = true -> sock = true;
  re_wf : p_wf (st_ep s)
}.

Lemma p_re_ext s a a' :
  a_r a' = a_r a -> a_w a' = a_w a -> a_pend a' = a_pend a -> a_closed a' = a_closed a -> a_on a' = a_on a ->
  a_regr a' = a_regr a -> a_regw a' = a_regw a -> a_log a' = a_log a -> p_re s a -> p_re s a'.
Proof.
  intros E1 E2 E3 E4 E5 E6 E7 E8 R. destruct R.
  constructor; rewrite ?E1, ?E2, ?E3, ?E4, ?E5, ?E6, ?E7, ?E8; auto.
Qed.

(* ---------- d's own actions ---------- *)
Lemma p_re_act_self s a x : p_act_target x = d -> (p_is_addw x = true -> sock = true) -> p_re s a ->
  p_re (p_exec_act c s x) (l_act a x) /\
  forall id0, p_mid (st_ep s) (a_cut a) id0 -> p_mid (st_ep (p_exec_act c s x)) (a_cut (l_act a x)) id0.
Proof.
  intros T SK R. unfold p_exec_act. rewrite T. rewrite (re_del _ _ R). destruct R.
  destruct x; simpl in T; subst d0; simpl.
  - unfold p_add_r. simpl. rewrite re_be0.
    destruct (p_tab_add_r _ _ _ re_wf0 re_tab0) as (W & TT & MM).
    destruct (p_ep_add_r c (st_ep s) d) as [e r]. simpl in *. split.
    + constructor; simpl; rewrite ?p_upd_same; auto.
    + intros id0. apply MM.
  - unfold p_add_w. simpl. rewrite re_be0.
    destruct (p_tab_add_w _ _ _ re_wf0 re_tab0) as (W & TT & MM).
    destruct (p_ep_add_w (st_ep s) d) as [e r]. simpl in *. split.
    + constructor; simpl; rewrite ?p_upd_same; auto.
    + intros id0. apply MM.
  - unfold p_rem_r. simpl. rewrite re_be0.
    destruct (p_tab_rem_r _ _ _ re_wf0 re_tab0) as (W & TT & MM).
    destruct (p_ep_remove (st_ep s) d false) as [e r]. simpl in *. split.
    + constructor; simpl; rewrite ?p_upd_same; auto.
    + intros id0. apply MM.
  - unfold p_rem_w. simpl. rewrite re_be0.
    destruct (p_tab_rem_w _ _ _ re_wf0 re_tab0) as (W & TT & MM).
    destruct (p_ep_remove (st_ep s) d true) as [e r]. simpl in *. split.
    + constructor; simpl; rewrite ?p_upd_same; auto; try (intros; discriminate).
    + intros id0. apply MM.
Qed.

Definition p_rm (s : p_st) (a : p_a) (id0 : nat) : Prop := p_re s a /\ p_mid (st_ep s) (a_cut a) id0.

(* ---------- frames: actions aimed at another descriptor ---------- *)
Lemma p_tab_frame e e' ar aw : ep_map e' d = ep_map e d ->
  (forall id, ep_map e d = Some id -> ep_obj e' id = ep_obj e id) -> p_tab e ar aw -> p_tab e' ar aw.
Proof.
  intros M O T. unfold p_tab in *. rewrite M. destruct (ep_map e d) as [id|]; auto. rewrite (O id eq_refl). exact T.
Qed.

Lemma p_other_lookup e d0 e1 id0 nw : p_wf e -> d0 <> d -> p_ep_lookup e d0 = (e1, id0, nw) ->
  ep_map e1 d = ep_map e d /\ (forall id, ep_map e d = Some id -> id <> id0 /\ ep_obj e1 id = ep_obj e id).
Proof.
  intros W N L. destruct (p_wf_lookup _ _ _ _ _ W L) as (_ & _ & F1 & F2 & F3).
  split. apply F1; auto. intros id M.
  assert (X : id <> id0). { intro; subst. apply (F3 d); auto. }
  split; auto.
Qed.
Lemma p_other_add_r e d0 : p_wf e -> d0 <> d ->
  ep_map (fst (p_ep_add_r c e d0)) d = ep_map e d /\
  (forall id, ep_map e d = Some id -> ep_obj (fst (p_ep_add_r c e d0)) id = ep_obj e id).
Proof.
  intros W N. unfold p_ep_add_r. destruct (p_ep_lookup e d0) as [[e1 id0] nw] eqn:L.
  destruct (p_other_lookup _ _ _ _ _ W N L) as [A B].
  destruct (e_r (ep_obj e1 id0)); [|destruct (pc_conn (p_get c d0))]; simpl; split; auto;
    intros id M; destruct (B id M) as [X Y]; auto; rewrite p_upd_other; auto.
Qed.
Lemma p_other_add_w e d0 : p_wf e -> d0 <> d ->
  ep_map (fst (p_ep_add_w e d0)) d = ep_map e d /\
  (forall id, ep_map e d = Some id -> ep_obj (fst (p_ep_add_w e d0)) id = ep_obj e id).
Proof.
  intros W N. unfold p_ep_add_w. destruct (p_ep_lookup e d0) as [[e1 id0] nw] eqn:L.
  destruct (p_other_lookup _ _ _ _ _ W N L) as [A B].
  destruct (e_w (ep_obj e1 id0)); simpl; split; auto;
    intros id M; destruct (B id M) as [X Y]; auto; rewrite p_upd_other; auto.
Qed.
Lemma p_other_remove e d0 wr : p_wf e -> d0 <> d ->
  ep_map (fst (p_ep_remove e d0 wr)) d = ep_map e d /\
  (forall id, ep_map e d = Some id -> ep_obj (fst (p_ep_remove e d0 wr)) id = ep_obj e id).
Proof.
  intros W N. split.
  - unfold p_ep_remove. destruct (ep_map e d0) as [id0|]; auto.
    match goal with |- context [if ?b then _ else _] => destruct b end; simpl; auto.
    rewrite p_upd_other; auto.
  - intros id M. apply (p_remove_other e d0 wr W d id (not_eq_sym N) M).
Qed.

Lemma p_wf_add_r e d0 : p_wf e -> p_wf (fst (p_ep_add_r c e d0)).
Proof.
  intros W. unfold p_ep_add_r. destruct (p_ep_lookup e d0) as [[e1 id0] nw] eqn:L.
  destruct (p_wf_lookup _ _ _ _ _ W L) as (W1 & _).
  destruct (e_r (ep_obj e1 id0)); [|destruct (pc_conn (p_get c d0))]; simpl; auto.
Qed.
Lemma p_wf_add_w e d0 : p_wf e -> p_wf (fst (p_ep_add_w e d0)).
Proof.
  intros W. unfold p_ep_add_w. destruct (p_ep_lookup e d0) as [[e1 id0] nw] eqn:L.
  destruct (p_wf_lookup _ _ _ _ _ W L) as (W1 & _).
  destruct (e_w (ep_obj e1 id0)); simpl; auto.
Qed.

Lemma p_re_exec_act_other s a x : p_act_target x <> d -> p_re s a -> p_re (p_exec_act c s x) a.
Proof.
  intros N R. unfold p_exec_act. destruct (st_del s (p_act_target x)); auto.
  destruct R. destruct x; simpl in N.
  - unfold p_add_r. simpl. rewrite re_be0.
    destruct (p_other_add_r (st_ep s) d0 re_wf0 N) as [A B]. pose proof (p_wf_add_r (st_ep s) d0 re_wf0) as W.
    destruct (p_ep_add_r c (st_ep s) d0) as [e r]. simpl in *.
    constructor; simpl; rewrite ?p_upd_other; auto. eapply p_tab_frame; eauto.
  - unfold p_add_w. simpl. rewrite re_be0.
    destruct (p_other_add_w (st_ep s) d0 re_wf0 N) as [A B]. pose proof (p_wf_add_w (st_ep s) d0 re_wf0) as W.
    destruct (p_ep_add_w (st_ep s) d0) as [e r]. simpl in *.
    constructor; simpl; rewrite ?p_upd_other; auto. eapply p_tab_frame; eauto.
  - unfold p_rem_r. simpl. rewrite re_be0.
    destruct (p_other_remove (st_ep s) d0 false re_wf0 N) as [A B]. pose proof (p_wf_remove (st_ep s) d0 false re_wf0) as W.
    destruct (p_ep_remove (st_ep s) d0 false) as [e r]. simpl in *.
    constructor; simpl; rewrite ?p_upd_other; auto. eapply p_tab_frame; eauto.
  - unfold p_rem_w. simpl. rewrite re_be0.
    destruct (p_other_remove (st_ep s) d0 true re_wf0 N) as [A B]. pose proof (p_wf_remove (st_ep s) d0 true re_wf0) as W.
    destruct (p_ep_remove (st_ep s) d0 true) as [e r]. simpl in *.
    constructor; simpl; rewrite ?p_upd_other; auto. eapply p_tab_frame; eauto.
Qed.
Lemma p_re_exec_acts_other l : (forall x, In x l -> p_act_target x <> d) ->
  forall s a, p_re s a -> p_re (p_exec_acts c s l) a.
Proof.
  unfold p_exec_acts. induction l as [|y l IH]; simpl; intros N s a R; auto.
  apply IH. intros; apply N; auto. apply p_re_exec_act_other; auto.
Qed.

(* the orphaned EPollData of d's event is not touched by actions aimed at other descriptors *)
Lemma p_lookup_orph e t e1 id nw : p_ep_lookup e t = (e1, id, nw) -> ep_orph e1 = ep_orph e.
Proof.
  unfold p_ep_lookup. destruct (ep_map e t). intros E; inversion E; auto.
  destruct (ep_free e); intros E; inversion E; reflexivity.
Qed.
Lemma p_mid_other_ep e e' cut id0 : p_mid e cut id0 ->
  ep_map e' d = ep_map e d -> (In id0 (ep_orph e) -> In id0 (ep_orph e') /\ ep_obj e' id0 = ep_obj e id0) ->
  p_mid e' cut id0.
Proof.
  unfold p_mid. intros M A B. destruct cut; [|congruence].
  destruct M as (M1 & M2). destruct (B M1) as [B1 B2]. rewrite B2. auto.
Qed.
Lemma p_orph_add_r e t id0 : p_wf e -> In id0 (ep_orph e) ->
  In id0 (ep_orph (fst (p_ep_add_r c e t))) /\ ep_obj (fst (p_ep_add_r c e t)) id0 = ep_obj e id0.
Proof.
  intros W H. unfold p_ep_add_r. destruct (p_ep_lookup e t) as [[e1 id] nw] eqn:L.
  destruct (p_wf_lookup _ _ _ _ _ W L) as (W1 & M1 & _ & F2 & _). pose proof (p_lookup_orph _ _ _ _ _ L) as O.
  assert (N : id0 <> id). { intro; subst. eapply (p_mapped_not_orph e1 t id id); eauto. rewrite O; auto. }
  destruct (e_r (ep_obj e1 id)); [|destruct (pc_conn (p_get c t))]; simpl; rewrite ?O, ?p_upd_other, ?F2; auto.
Qed.
Lemma p_orph_add_w e t id0 : p_wf e -> In id0 (ep_orph e) ->
  In id0 (ep_orph (fst (p_ep_add_w e t))) /\ ep_obj (fst (p_ep_add_w e t)) id0 = ep_obj e id0.
Proof.
  intros W H. unfold p_ep_add_w. destruct (p_ep_lookup e t) as [[e1 id] nw] eqn:L.
  destruct (p_wf_lookup _ _ _ _ _ W L) as (W1 & M1 & _ & F2 & _). pose proof (p_lookup_orph _ _ _ _ _ L) as O.
  assert (N : id0 <> id). { intro; subst. eapply (p_mapped_not_orph e1 t id id); eauto. rewrite O; auto. }
  destruct (e_w (ep_obj e1 id)); simpl; rewrite ?O, ?p_upd_other, ?F2; auto.
Qed.
Lemma p_orph_remove e t wr id0 : p_wf e -> In id0 (ep_orph e) ->
  In id0 (ep_orph (fst (p_ep_remove e t wr))) /\ ep_obj (fst (p_ep_remove e t wr)) id0 = ep_obj e id0.
Proof.
  intros W H. unfold p_ep_remove. destruct (ep_map e t) as [id|] eqn:M; auto.
  assert (N : id0 <> id). { intro; subst. eapply (p_mapped_not_orph e t id id); eauto. }
  match goal with |- context [if ?b then _ else _] => destruct b end; simpl; rewrite ?p_upd_other; auto.
  split; auto. apply in_or_app; auto.
Qed.
Lemma p_mid_exec_act_other s x cut id0 : p_act_target x <> d -> st_be s = true -> p_wf (st_ep s) ->
  p_mid (st_ep s) cut id0 -> p_mid (st_ep (p_exec_act c s x)) cut id0.
Proof.
  intros N B W M. unfold p_exec_act. destruct (st_del s (p_act_target x)); auto.
  destruct x; simpl in N.
  - unfold p_add_r. simpl. rewrite B. destruct (p_other_add_r (st_ep s) d0 W N) as [A _].
    pose proof (p_orph_add_r (st_ep s) d0 id0 W) as O.
    destruct (p_ep_add_r c (st_ep s) d0). simpl in *. eapply p_mid_other_ep; eauto.
  - unfold p_add_w. simpl. rewrite B. destruct (p_other_add_w (st_ep s) d0 W N) as [A _].
    pose proof (p_orph_add_w (st_ep s) d0 id0 W) as O.
    destruct (p_ep_add_w (st_ep s) d0). simpl in *. eapply p_mid_other_ep; eauto.
  - unfold p_rem_r. simpl. rewrite B. destruct (p_other_remove (st_ep s) d0 false W N) as [A _].
    pose proof (p_orph_remove (st_ep s) d0 false id0 W) as O.
    destruct (p_ep_remove (st_ep s) d0 false). simpl in *. eapply p_mid_other_ep; eauto.
  - unfold p_rem_w. simpl. rewrite B. destruct (p_other_remove (st_ep s) d0 true W N) as [A _].
    pose proof (p_orph_remove (st_ep s) d0 true id0 W) as O.
    destruct (p_ep_remove (st_ep s) d0 true). simpl in *. eapply p_mid_other_ep; eauto.
Qed.

Hypothesis G3 : forall a, In a (pc_rs (p_get c d) ++ pc_ws (p_get c d) ++ pc_cs (p_get c d)) ->
  p_act_target a = d -> p_is_addw a = true -> sock = true.

Lemma p_rm_acts_mixed l : (forall x, In x l -> p_act_target x = d -> p_is_addw x = true -> sock = true) ->
  forall s a id0, p_rm s a id0 -> p_rm (p_exec_acts c s l) (l_acts a (l_own d l)) id0.
Proof.
  unfold p_exec_acts, l_acts, l_own. induction l as [|y l IH]; simpl; intros K s a id0 R; auto.
  destruct R as [R M]. unfold p_act_self at 1. destruct (p_act_target y =? d) eqn:E.
  - apply Nat.eqb_eq in E. simpl.
    destruct (p_re_act_self s a y E (K y (or_introl eq_refl) E) R) as [R' M'].
    apply IH. intros x Hx. apply K. right; exact Hx. split; auto.
  - apply Nat.eqb_neq in E. apply IH. intros x Hx. apply K. right; exact Hx.
    split. apply p_re_exec_act_other; auto.
    apply p_mid_exec_act_other; auto. apply (re_be _ _ R). apply (re_wf _ _ R).
Qed.

Lemma p_rm_invoke_self s a k n id0 : st_opix s = n -> p_rm s a id0 ->
  p_rm (p_invoke c s d k) (l_invoke c d n a k) id0.
Proof.
  intros O [R M]. unfold p_invoke. rewrite (re_del _ _ R).
  assert (K1 : forall x, In x (pc_rs (p_get c d)) -> p_act_target x = d -> p_is_addw x = true -> sock = true)
    by (intros; apply (G3 x); auto; apply in_or_app; auto).
  assert (K2 : forall x, In x (pc_ws (p_get c d)) -> p_act_target x = d -> p_is_addw x = true -> sock = true)
    by (intros; apply (G3 x); auto; apply in_or_app; right; apply in_or_app; auto).
  assert (K3 : forall x, In x (pc_cs (p_get c d)) -> p_act_target x = d -> p_is_addw x = true -> sock = true)
    by (intros; apply (G3 x); auto; apply in_or_app; right; apply in_or_app; auto).
  unfold l_invoke. destruct k.
  - apply p_rm_acts_mixed; auto. split; [|exact M]. destruct R.
    constructor; simpl; rewrite ?p_upd_same, ?Nat.eqb_refl; auto; congruence.
  - apply p_rm_acts_mixed; auto. split; [|exact M]. destruct R.
    constructor; simpl; rewrite ?Nat.eqb_refl; auto; congruence.
  - apply p_rm_acts_mixed; auto. split; [|exact M]. destruct R.
    constructor; simpl; rewrite ?Nat.eqb_refl; auto; congruence.
Qed.

Lemma p_re_invoke_other s a x k : x <> d -> p_re s a -> p_re (p_invoke c s x k) a.
Proof.
  intros N R. unfold p_invoke. destruct (st_del s x).
  - destruct R; constructor; auto.
  - assert (Nd : (x =? d) = false) by (apply Nat.eqb_neq; auto).
    assert (T : forall l, (forall y, In y l -> In y (pc_rs (p_get c x) ++ pc_ws (p_get c x) ++ pc_cs (p_get c x))) ->
                          forall y, In y l -> p_act_target y <> d).
    { intros l H y Hy. apply (G1 x y N (H y Hy)). }
    destruct k.
    + apply p_re_exec_acts_other. apply T. intros; apply in_or_app; auto.
      destruct R; constructor; simpl; auto. rewrite p_upd_other; auto. rewrite Nd. exact re_log0.
    + apply p_re_exec_acts_other. apply T. intros; apply in_or_app; right; apply in_or_app; auto.
      destruct R; constructor; simpl; auto. rewrite Nd. exact re_log0.
    + apply p_re_exec_acts_other. apply T. intros; apply in_or_app; right; apply in_or_app; auto.
      destruct R; constructor; simpl; auto. rewrite Nd. exact re_log0.
Qed.
Lemma p_re_touch s a x : p_re s a -> p_re (p_touch s x) a.
Proof. intros R. unfold p_touch. destruct (st_del s x); auto. destruct R; constructor; auto. Qed.

(* ---------- the abstract machine alone: G4 and the recycled EPollData ---------- *)
Lemma l_cut_w l : p_script_ok l = true -> forall a, a_cut a = false -> a_r a = true -> a_w a = true ->
  a_cut (l_acts a l) = true -> a_w (l_acts a l) = false.
Proof.
  intros OK. unfold p_script_ok in OK. apply negb_true_iff in OK.
  apply andb_false_iff in OK. destruct OK as [OK|OK]; [apply andb_false_iff in OK; destruct OK as [OK|OK]|].
  - (* no AddW *)
    assert (X : forall l a, existsb p_is_addw l = false -> (a_cut a = true -> a_w a = false) ->
                 a_cut (l_acts a l) = true -> a_w (l_acts a l) = false).
    { unfold l_acts. induction l0 as [|y l0 IH]; simpl; intros a E I; auto.
      apply orb_false_iff in E. destruct E as [E1 E2]. apply IH; auto.
      destruct y; simpl in *; try discriminate; auto.
      intros C0. apply orb_true_iff in C0. destruct C0 as [C0|C0]; auto. apply negb_true_iff in C0; auto. }
    intros a C0 _ _. apply X; auto. congruence.
  - (* no RemW *)
    assert (X : forall l a, existsb p_is_remw l = false -> a_w a = true /\ a_cut a = false ->
                 a_cut (l_acts a l) = false).
    { unfold l_acts. induction l0 as [|y l0 IH]; simpl; intros a E [I1 I2]; auto.
      apply orb_false_iff in E. destruct E as [E1 E2]. apply IH; auto.
      destruct y; simpl in *; try discriminate; auto. rewrite I1, I2. auto. }
    intros a C0 _ W0 C1. rewrite (X l a OK (conj W0 C0)) in C1. discriminate.
  - (* no RemR *)
    assert (X : forall l a, existsb p_is_remr l = false -> a_r a = true /\ a_cut a = false ->
                 a_cut (l_acts a l) = false).
    { unfold l_acts. induction l0 as [|y l0 IH]; simpl; intros a E [I1 I2]; auto.
      apply orb_false_iff in E. destruct E as [E1 E2]. apply IH; auto.
      destruct y; simpl in *; try discriminate; auto. rewrite I1, I2. auto. }
    intros a C0 R0 _ C1. rewrite (X l a OK (conj R0 C0)) in C1. discriminate.
Qed.

Hypothesis G4r : p_script_ok (l_own d (pc_rs (p_get c d))) = true.
Hypothesis G4c : p_script_ok (l_own d (pc_cs (p_get c d))) = true.

Lemma p_opix_rm_invoke s k : st_opix (p_invoke c s d k) = st_opix s.
Proof. apply p_opix_invoke. Qed.

(* the write part of d's event *)
Lemma p_out_part s2 a1 id0 n ww : st_opix s2 = n -> p_rm s2 a1 id0 ->
  (a_cut a1 = true -> ww && a_w a1 = false) ->
  p_re (if ww then match e_wd (ep_obj (st_ep s2) id0) with Some x => p_invoke c s2 x PKWrite | None => s2 end else s2)
       (if ww && a_w a1 then l_invoke c d n a1 PKWrite else a1).
Proof.
  intros O [R M] CW. destruct ww; simpl; [|exact R].
  unfold p_mid in M. destruct (a_cut a1) eqn:CU.
  - destruct M as (_ & _ & _ & M). rewrite M. simpl in CW. rewrite (CW eq_refl). exact R.
  - pose proof (re_tab _ _ R) as T. unfold p_tab in T. rewrite M in T.
    destruct T as (_ & _ & T3 & _). rewrite T3. destruct (a_w a1) eqn:AW.
    + apply (p_rm_invoke_self s2 a1 PKWrite n id0 O). split; auto. unfold p_mid. rewrite CU. exact M.
    + exact R.
Qed.

Lemma l_invoke_cut_w n a k : (k = PKRead \/ k = PKClose) ->
  a_cut a = false -> a_r a = true -> a_w a = true ->
  a_cut (l_invoke c d n a k) = true -> a_w (l_invoke c d n a k) = false.
Proof.
  intros K C0 R0 W0. unfold l_invoke. destruct K as [->| ->].
  - apply l_cut_w; auto.
  - apply l_cut_w; auto.
Qed.

Lemma p_rm_ep_close_self s a n id0 : st_opix s = n -> p_rm s a id0 ->
  p_rm (p_ep_close c s id0 d) (l_close_path c d n a) id0 /\ st_opix (p_ep_close c s id0 d) = n.
Proof.
  intros O [R M]. unfold p_ep_close.
  assert (TS : p_touch s d = s) by (unfold p_touch; rewrite (re_del _ _ R); reflexivity).
  rewrite !TS. unfold l_close_path. rewrite (re_on _ _ R).
  set (s1 := p_set_onclose s _). set (a1 := l_set_on a false).
  assert (R1 : p_rm s1 a1 id0).
  { split; [|exact M]. destruct R. constructor; simpl; rewrite ?p_upd_same; auto. }
  set (s2 := if a_on a then p_invoke c s1 d PKClose else s1).
  set (a2 := if a_on a then l_invoke c d n a1 PKClose else a1).
  assert (R2 : p_rm s2 a2 id0 /\ st_opix s2 = n).
  { unfold s2, a2. destruct (a_on a); [|split; auto].
    split. apply p_rm_invoke_self; auto. rewrite p_opix_rm_invoke. exact O. }
  clearbody s2 a2. destruct R2 as [[R2 M2] O2].
  assert (X : match e_cd (ep_obj (st_ep s2) id0) with
              | Some d2 => e_doc (ep_obj (st_ep s2) id0) = false
              | None => True end).
  { unfold p_mid in M2. destruct (a_cut a2).
    - destruct M2 as (_ & _ & M2 & _). rewrite M2. exact I.
    - pose proof (re_tab _ _ R2) as T. unfold p_tab in T. rewrite M2 in T.
      destruct T as (_ & _ & _ & _ & _ & _ & T7). rewrite T7. destruct (e_cd _); auto. }
  destruct (e_cd (ep_obj (st_ep s2) id0)); [rewrite X|]; split; auto; split; auto.
Qed.

Lemma p_re_cut s a b : p_re s a -> p_re s (l_set_cut a b).
Proof. intros R. eapply p_re_ext; [..|exact R]; reflexivity. Qed.

Lemma l_read_part_cut_w n a0 : a_cut a0 = false -> a_w a0 = true ->
  a_cut (l_read_part c d n a0) = true -> a_w (l_read_part c d n a0) = false.
Proof.
  intros C0 W0. unfold l_read_part.
  destruct (a_closed a0).
  - destruct (a_r a0) eqn:R0; [|congruence].
    destruct conn.
    + destruct (l_has_data a0). apply l_invoke_cut_w; auto.
      unfold l_close_path. destruct (a_on a0); simpl; [|congruence].
      apply l_invoke_cut_w; auto.
    + apply l_invoke_cut_w; auto.
  - destruct (a_r a0) eqn:R0; simpl; [|congruence].
    destruct (l_has_data a0); [|congruence]. apply l_invoke_cut_w; auto.
Qed.

Lemma p_re_check_self s a n id0 : st_opix s = n -> p_re s a -> ep_map (st_ep s) d = Some id0 ->
  p_re (p_ep_check c s (id0, p_ep_flags c s (ep_obj (st_ep s) id0) d)) (l_poll c d n a).
Proof.
  intros O R M.
  set (a0 := l_set_cut a false).
  assert (R0 : p_rm s a0 id0) by (split; [apply p_re_cut; auto|exact M]).
  pose proof (re_tab _ _ R) as T. unfold p_tab in T. rewrite M in T.
  destruct T as (T1 & T2 & T3 & T4 & T5 & T6 & T7).
  assert (HD : p_has_data s d = l_has_data a0)
    by (unfold p_has_data, l_has_data; rewrite (re_pend _ _ R); reflexivity).
  assert (TS : p_touch s d = s) by (unfold p_touch; rewrite (re_del _ _ R); reflexivity).
  assert (EF : p_ep_flags c s (ep_obj (st_ep s) id0) d =
               Build_p_flags (a_r a && (if sock then l_has_data a0 || a_closed a else l_has_data a0))
                             (a_w a && sock) (a_closed a)).
  { unfold p_ep_flags, p_readable. rewrite G5, T4, T5, HD, (re_closed _ _ R).
    destruct sock eqn:SK; auto; destruct (a_w a) eqn:AW; auto. }
  rewrite EF. unfold p_ep_check, l_poll. fold a0. cbn [f_hup f_in f_out].
  change (a_w a0) with (a_w a). change (a_closed a0) with (a_closed a) in *.
  set (ww := a_w a && sock).
  assert (CW : forall a1, a1 = l_read_part c d n a0 -> a_cut a1 = true -> ww && a_w a1 = false).
  { intros a1 -> C1. unfold ww. destruct (a_w a) eqn:AW; auto. simpl.
    rewrite (l_read_part_cut_w n a0); auto. apply andb_false_r. }
  destruct (a_closed a) eqn:CL.
  - (* hang-up *)
    rewrite T1, T2, T3.
    assert (LR : l_read_part c d n a0 =
                 if a_r a then (if conn then (if l_has_data a0 then l_invoke c d n a0 PKRead else l_close_path c d n a0)
                                else l_invoke c d n a0 PKRead) else a0).
    { unfold l_read_part. change (a_closed a0) with (a_closed a). rewrite CL. reflexivity. }
    destruct (a_r a) eqn:AR; simpl.
    + destruct conn eqn:CN; simpl.
      * rewrite !TS, HD.
        destruct (l_has_data a0) eqn:H0.
        -- cbn [f_in f_out]. apply p_out_part. rewrite p_opix_rm_invoke; auto.
           rewrite LR. apply p_rm_invoke_self; auto. apply (CW _ eq_refl).
        -- destruct (p_rm_ep_close_self s a0 n id0 O R0) as [RC OC].
           cbn [f_in f_out]. apply p_out_part; [exact OC | rewrite LR; exact RC | apply (CW _ eq_refl)].
      * cbn [f_in f_out]. apply p_out_part. rewrite p_opix_rm_invoke; auto.
        rewrite LR. apply p_rm_invoke_self; auto. apply (CW _ eq_refl).
    + (* only the write side is registered *)
      assert (AW : a_w a = true) by (simpl in T6; exact T6).
      rewrite AW. cbn [f_in f_out]. rewrite LR.
      assert (SK : sock = true) by (apply (re_sock _ _ R AW)).
      unfold ww. rewrite AW, SK. simpl.
      destruct (p_rm_invoke_self s a0 PKWrite n id0 O R0) as [RR _].
      change (a_w a0) with (a_w a). rewrite ?AW. exact RR.
  - (* no hang-up *)
    cbn [f_in f_out].
    assert (LR : l_read_part c d n a0 = if a_r a && l_has_data a0 then l_invoke c d n a0 PKRead else a0).
    { unfold l_read_part. change (a_closed a0) with (a_closed a). rewrite CL. reflexivity. }
    assert (FI : a_r a && (if sock then l_has_data a0 || false else l_has_data a0) = a_r a && l_has_data a0).
    { destruct sock; rewrite ?orb_false_r; reflexivity. }
    rewrite FI, LR.
    destruct (a_r a && l_has_data a0) eqn:IN.
    + apply andb_true_iff in IN. destruct IN as [AR H1]. rewrite T1, T2, AR.
      assert (LR2 : l_read_part c d n a0 = l_invoke c d n a0 PKRead).
      { unfold l_read_part. change (a_closed a0) with (a_closed a). rewrite CL.
        change (a_r a0) with (a_r a). rewrite AR, H1. reflexivity. }
      destruct conn; simpl; (apply p_out_part; [rewrite p_opix_rm_invoke; auto|apply p_rm_invoke_self; auto|
        rewrite <- LR2; apply (CW _ eq_refl)]).
    + apply p_out_part; auto; intros C1; discriminate.
Qed.

(* ---------- events of other descriptors ---------- *)
(* an EPollData that belongs to another descriptor, or is parked on the orphan list, never becomes d's *)
Definition p_q (e : p_ep) (id : nat) : Prop :=
  (exists x, x <> d /\ ep_map e x = Some id) \/ In id (ep_orph e).
Lemma p_q_not_d e id : p_wf e -> p_q e id -> ep_map e d <> Some id.
Proof.
  intros (W1 & W2 & _) [(x & N & M)|O] X.
  - apply N. eapply W1; eauto.
  - apply W2 in X. destruct X as [_ X]. apply X. apply in_or_app; auto.
Qed.

Lemma p_q_lookup e t e1 idn nw id : p_ep_lookup e t = (e1, idn, nw) -> p_q e id -> p_q e1 id.
Proof.
  unfold p_ep_lookup. destruct (ep_map e t) as [i|] eqn:M.
  - intros E; inversion E; subst; auto.
  - assert (X : forall i, p_q e id ->
        (exists x, x <> d /\ p_upd (ep_map e) t (Some i) x = Some id) \/ In id (ep_orph e)).
    { intros i [(x & N & Mx)|O]; auto. left. exists x. split; auto. unfold p_upd.
      destruct (x =? t) eqn:E; auto. apply Nat.eqb_eq in E. subst. congruence. }
    destruct (ep_free e); intros E Q; inversion E; subst; unfold p_q; simpl; apply X; auto.
Qed.
Lemma p_q_set_obj e i o id : p_q e id -> p_q (p_ep_set_obj e i o) id.
Proof. intros Q; exact Q. Qed.
Lemma p_q_add_r e t id : p_q e id -> p_q (fst (p_ep_add_r c e t)) id.
Proof.
  intros Q. unfold p_ep_add_r. destruct (p_ep_lookup e t) as [[e1 idn] nw] eqn:L.
  pose proof (p_q_lookup _ _ _ _ _ _ L Q) as Q1.
  destruct (e_r (ep_obj e1 idn)); [|destruct (pc_conn (p_get c t))]; simpl; auto.
Qed.
Lemma p_q_add_w e t id : p_q e id -> p_q (fst (p_ep_add_w e t)) id.
Proof.
  intros Q. unfold p_ep_add_w. destruct (p_ep_lookup e t) as [[e1 idn] nw] eqn:L.
  pose proof (p_q_lookup _ _ _ _ _ _ L Q) as Q1.
  destruct (e_w (ep_obj e1 idn)); simpl; auto.
Qed.
Lemma p_q_remove e t wr id : p_q e id -> p_q (fst (p_ep_remove e t wr)) id.
Proof.
  intros Q. unfold p_ep_remove. destruct (ep_map e t) as [i|] eqn:M; auto.
  match goal with |- context [if ?b then _ else _] => destruct b end; simpl; auto.
  destruct Q as [(x & N & Mx)|O].
  - destruct (Nat.eq_dec x t) as [->|Nt].
    + right. simpl. assert (i = id) by congruence. subst. apply in_or_app; right; simpl; auto.
    + left. exists x. split; auto. simpl. rewrite p_upd_other; auto.
  - right. simpl. apply in_or_app; auto.
Qed.

Definition p_qs (s : p_st) (id : nat) : Prop := p_q (st_ep s) id.
Lemma p_qs_exec_act s y id : p_qs s id -> p_qs (p_exec_act c s y) id.
Proof.
  intros Q. unfold p_exec_act, p_qs in *. destruct (st_del s (p_act_target y)); auto.
  destruct y; simpl.
  - unfold p_add_r. simpl. destruct (st_be s); [|destruct (p_sel_add_r c (st_sel s) d0); exact Q].
    pose proof (p_q_add_r (st_ep s) d0 id Q) as X. destruct (p_ep_add_r c (st_ep s) d0); exact X.
  - unfold p_add_w. simpl. destruct (st_be s); [|destruct (p_sel_add_w (st_sel s) d0); exact Q].
    pose proof (p_q_add_w (st_ep s) d0 id Q) as X. destruct (p_ep_add_w (st_ep s) d0); exact X.
  - unfold p_rem_r. simpl. destruct (st_be s); [|destruct (p_sel_rem_r c (st_sel s) d0); exact Q].
    pose proof (p_q_remove (st_ep s) d0 false id Q) as X. destruct (p_ep_remove (st_ep s) d0 false); exact X.
  - unfold p_rem_w. simpl. destruct (st_be s); [|destruct (p_sel_rem_w (st_sel s) d0); exact Q].
    pose proof (p_q_remove (st_ep s) d0 true id Q) as X. destruct (p_ep_remove (st_ep s) d0 true); exact X.
Qed.
Lemma p_qs_exec_acts l id : forall s, p_qs s id -> p_qs (p_exec_acts c s l) id.
Proof. unfold p_exec_acts. induction l; simpl; intros; auto. apply IHl. apply p_qs_exec_act; auto. Qed.
Lemma p_qs_invoke s x k id : p_qs s id -> p_qs (p_invoke c s x k) id.
Proof. intros Q. unfold p_invoke. destruct (st_del s x); auto. destruct k; apply p_qs_exec_acts; exact Q. Qed.
Lemma p_qs_touch s x id : p_qs s id -> p_qs (p_touch s x) id.
Proof. intros Q. unfold p_touch. destruct (st_del s x); exact Q. Qed.
Lemma p_qs_ep_close s i x id : p_qs s id -> p_qs (p_ep_close c s i x) id.
Proof.
  intros Q. unfold p_ep_close.
  pose proof (p_qs_touch s x id Q) as Q0. set (s0 := p_touch s x) in *. clearbody s0.
  set (s1 := p_set_onclose s0 _).
  set (s2 := if st_onclose s0 x then p_invoke c s1 x PKClose else s1).
  assert (Q2 : p_qs s2 id) by (unfold s2; destruct (st_onclose s0 x); [apply p_qs_invoke|]; exact Q0).
  clearbody s2. destruct (e_cd (ep_obj (st_ep s2) i)) as [d2|]; auto.
  destruct (e_doc (ep_obj (st_ep s2) i)); auto.
  pose proof (p_qs_touch s2 d2 id Q2) as Q3. set (s3 := p_touch s2 d2) in *. clearbody s3.
  pose proof (p_q_remove (st_ep s3) d2 false id Q3) as X.
  destruct (p_ep_remove (st_ep s3) d2 false) as [e r]. simpl in *.
  destruct (e_cd (ep_obj e i)) as [d3|]; simpl; auto.
  unfold p_touch. simpl. destruct (st_del s3 d3); simpl; exact X.
Qed.
Lemma p_qs_ep_check s ev id : p_qs s id -> p_qs (p_ep_check c s ev) id.
Proof.
  intros Q. unfold p_ep_check. destruct ev as [i fl].
  set (sf := if f_hup fl then _ else _).
  assert (Q1 : p_qs (fst sf) id).
  { unfold sf. destruct (f_hup fl); [|exact Q].
    destruct (e_rd (ep_obj (st_ep s) i)). simpl. apply p_qs_invoke; auto.
    destruct (e_cd (ep_obj (st_ep s) i)).
    - simpl. pose proof (p_qs_touch s n id Q). destruct (p_has_data (p_touch s n) n).
      apply p_qs_invoke; auto. apply p_qs_ep_close; auto.
    - destruct (e_wd (ep_obj (st_ep s) i)); simpl; [|exact Q]. apply p_qs_invoke; auto. }
  destruct sf as [s1 fl1]. simpl in Q1.
  set (s2 := if f_in fl1 then _ else s1).
  assert (Q2 : p_qs s2 id).
  { unfold s2. destruct (f_in fl1); [|exact Q1].
    destruct (e_rd (ep_obj (st_ep s1) i)). apply p_qs_invoke; auto.
    destruct (e_cd (ep_obj (st_ep s1) i)); [|exact Q1]. apply p_qs_invoke; auto. }
  clearbody s2. destruct (f_out fl1); auto.
  destruct (e_wd (ep_obj (st_ep s2) i)); auto. apply p_qs_invoke; auto.
Qed.

Definition p_rei (s : p_st) (a : p_a) (m : option nat) : Prop := p_re s a /\ ep_map (st_ep s) d = m.

Lemma p_rei_exec_act_other s a m x : p_act_target x <> d -> p_rei s a m -> p_rei (p_exec_act c s x) a m.
Proof.
  intros N [R M]. split. apply p_re_exec_act_other; auto.
  unfold p_exec_act. destruct (st_del s (p_act_target x)); auto.
  destruct R. destruct x; simpl in N.
  - unfold p_add_r. simpl. rewrite re_be0. destruct (p_other_add_r (st_ep s) d0 re_wf0 N) as [A _].
    destruct (p_ep_add_r c (st_ep s) d0). simpl in *. congruence.
  - unfold p_add_w. simpl. rewrite re_be0. destruct (p_other_add_w (st_ep s) d0 re_wf0 N) as [A _].
    destruct (p_ep_add_w (st_ep s) d0). simpl in *. congruence.
  - unfold p_rem_r. simpl. rewrite re_be0. destruct (p_other_remove (st_ep s) d0 false re_wf0 N) as [A _].
    destruct (p_ep_remove (st_ep s) d0 false). simpl in *. congruence.
  - unfold p_rem_w. simpl. rewrite re_be0. destruct (p_other_remove (st_ep s) d0 true re_wf0 N) as [A _].
    destruct (p_ep_remove (st_ep s) d0 true). simpl in *. congruence.
Qed.
Lemma p_rei_exec_acts_other l : (forall x, In x l -> p_act_target x <> d) ->
  forall s a m, p_rei s a m -> p_rei (p_exec_acts c s l) a m.
Proof.
  unfold p_exec_acts. induction l as [|y l IH]; simpl; intros N s a m R; auto.
  apply IH. intros; apply N; auto. apply p_rei_exec_act_other; auto.
Qed.
Lemma p_rei_invoke_other s a m x k : x <> d -> p_rei s a m -> p_rei (p_invoke c s x k) a m.
Proof.
  intros N [R M]. split. apply p_re_invoke_other; auto.
  unfold p_invoke. destruct (st_del s x); auto.
  assert (T : forall l, (forall y, In y l -> In y (pc_rs (p_get c x) ++ pc_ws (p_get c x) ++ pc_cs (p_get c x))) ->
                        forall y, In y l -> p_act_target y <> d).
  { intros l H y Hy. apply (G1 x y N (H y Hy)). }
  assert (Nd : (x =? d) = false) by (apply Nat.eqb_neq; auto).
  destruct k.
  - refine (proj2 (p_rei_exec_acts_other _ _ _ a m _)). apply T. intros; apply in_or_app; auto.
    split; [|exact M]. destruct R; constructor; simpl; auto. rewrite p_upd_other; auto. rewrite Nd. exact re_log0.
  - refine (proj2 (p_rei_exec_acts_other _ _ _ a m _)). apply T. intros; apply in_or_app; right; apply in_or_app; auto.
    split; [|exact M]. destruct R; constructor; simpl; auto. rewrite Nd. exact re_log0.
  - refine (proj2 (p_rei_exec_acts_other _ _ _ a m _)). apply T. intros; apply in_or_app; right; apply in_or_app; auto.
    split; [|exact M]. destruct R; constructor; simpl; auto. rewrite Nd. exact re_log0.
Qed.
Lemma p_rei_touch s a m x : p_rei s a m -> p_rei (p_touch s x) a m.
Proof. intros [R M]. split. apply p_re_touch; auto. unfold p_touch. destruct (st_del s x); exact M. Qed.

Lemma p_inv_ptr_other s m i x : p_inv c true s -> ep_map (st_ep s) d = m -> m <> Some i ->
  (e_rd (ep_obj (st_ep s) i) = Some x \/ e_cd (ep_obj (st_ep s) i) = Some x \/ e_wd (ep_obj (st_ep s) i) = Some x) ->
  x <> d.
Proof.
  intros (_ & J & _) M N H E. subst x. destruct (J i) as (J1 & J2 & J3 & _).
  destruct H as [H|[H|H]]; [destruct (J1 d H)|destruct (J2 d H)|destruct (J3 d H)]; congruence.
Qed.

Lemma p_rei_ep_close_other s a m i x :
  p_inv c true s -> st_regr s x = true -> m <> Some i -> x <> d -> p_rei s a m ->
  p_rei (p_ep_close c s i x) a m /\ p_inv c true (p_ep_close c s i x).
Proof.
  intros I RG Ni Nd R. split; [|apply p_inv_ep_close; auto]. unfold p_ep_close.
  pose proof (p_rei_touch s a m x R) as R0. pose proof (p_inv_touch c true s x I) as I0.
  assert (RG0 : st_regr (p_touch s x) x = true) by (unfold p_touch; destruct (st_del s x); auto).
  set (s0 := p_touch s x) in *. clearbody s0.
  set (s1 := p_set_onclose s0 (p_upd (st_onclose s0) x false)).
  assert (R1 : p_rei s1 a m).
  { destruct R0 as [R0 M0]. split; [|exact M0]. destruct R0. unfold s1. constructor; simpl; auto.
    rewrite p_upd_other; auto. }
  assert (I1 : p_inv c true s1) by exact I0.
  set (s2 := if st_onclose s0 x then p_invoke c s1 x PKClose else s1).
  assert (R2 : p_rei s2 a m) by (unfold s2; destruct (st_onclose s0 x); auto; apply p_rei_invoke_other; auto).
  assert (I2 : p_inv c true s2) by (unfold s2; destruct (st_onclose s0 x); auto; apply p_inv_invoke; auto).
  clearbody s2.
  destruct (e_cd (ep_obj (st_ep s2) i)) as [d2|] eqn:CD; auto.
  destruct (e_doc (ep_obj (st_ep s2) i)); auto.
  assert (N2 : d2 <> d) by (eapply (p_inv_ptr_other s2 m i d2 I2 (proj2 R2) Ni); auto).
  pose proof (p_rei_touch s2 a m d2 R2) as R3.
  assert (M3 : ep_map (st_ep (p_touch s2 d2)) d2 = Some i).
  { destruct I2 as (_ & J & _). destruct (J i) as (_ & J2 & _). destruct (J2 d2 CD) as [_ M].
    unfold p_touch. destruct (st_del s2 d2); exact M. }
  set (s3 := p_touch s2 d2) in *. clearbody s3. destruct R3 as [R3 MM3].
  destruct (p_other_remove (st_ep s3) d2 false (re_wf _ _ R3) N2) as [A B].
  pose proof (p_wf_remove (st_ep s3) d2 false (re_wf _ _ R3)) as W.
  pose proof (p_ep_remove_cd (st_ep s3) d2 i M3) as Y.
  destruct (p_ep_remove (st_ep s3) d2 false) as [e r]. simpl in *. rewrite Y.
  assert (TF : p_tab e (a_r a) (a_w a)) by (eapply p_tab_frame; eauto; apply (re_tab _ _ R3)).
  split; simpl.
  - destruct R3. constructor; simpl; auto.
    eapply p_tab_frame; [| |exact TF]; simpl; auto.
    intros id Mid. rewrite p_upd_other; auto. intro; subst. apply Ni. congruence.
  - congruence.
Qed.

Lemma p_rei_ep_check_other s a m i fl : p_inv c true s -> m <> Some i -> p_rei s a m ->
  p_rei (p_ep_check c s (i, fl)) a m.
Proof.
  intros I Ni R. unfold p_ep_check.
  set (sf := if f_hup fl then _ else _).
  assert (X1 : p_rei (fst sf) a m /\ p_inv c true (fst sf)).
  { unfold sf. destruct (f_hup fl); [|split; auto].
    destruct (e_rd (ep_obj (st_ep s) i)) eqn:RD.
    { simpl. assert (n <> d) by (eapply (p_inv_ptr_other s m i n I (proj2 R) Ni); auto).
      split. apply p_rei_invoke_other; auto. apply p_inv_invoke; auto. simpl. eapply p_inv_ep_rd; eauto. }
    destruct (e_cd (ep_obj (st_ep s) i)) eqn:CD.
    - simpl. assert (Nd : n <> d) by (eapply (p_inv_ptr_other s m i n I (proj2 R) Ni); auto).
      pose proof (p_rei_touch s a m n R) as R0. pose proof (p_inv_touch c true s n I) as I0.
      assert (RG : st_regr (p_touch s n) n = true).
      { unfold p_touch. destruct (st_del s n); simpl; eapply p_inv_ep_cd; eauto. }
      destruct (p_has_data (p_touch s n) n).
      + split. apply p_rei_invoke_other; auto. apply p_inv_invoke; auto.
      + apply p_rei_ep_close_other; auto.
    - destruct (e_wd (ep_obj (st_ep s) i)) eqn:WD; simpl; [|split; auto].
      assert (n <> d) by (eapply (p_inv_ptr_other s m i n I (proj2 R) Ni); auto).
      split. apply p_rei_invoke_other; auto. apply p_inv_invoke; auto. simpl. eapply p_inv_ep_wd; eauto. }
  destruct sf as [s1 fl1]. simpl in X1. destruct X1 as [R1 I1].
  set (s2 := if f_in fl1 then _ else s1).
  assert (X2 : p_rei s2 a m /\ p_inv c true s2).
  { unfold s2. destruct (f_in fl1); [|split; auto].
    destruct (e_rd (ep_obj (st_ep s1) i)) eqn:RD.
    { assert (n <> d) by (eapply (p_inv_ptr_other s1 m i n I1 (proj2 R1) Ni); auto).
      split. apply p_rei_invoke_other; auto. apply p_inv_invoke; auto. simpl. eapply p_inv_ep_rd; eauto. }
    destruct (e_cd (ep_obj (st_ep s1) i)) eqn:CD; [|split; auto].
    assert (n <> d) by (eapply (p_inv_ptr_other s1 m i n I1 (proj2 R1) Ni); auto).
    split. apply p_rei_invoke_other; auto. apply p_inv_invoke; auto. simpl. eapply p_inv_ep_cd; eauto. }
  clearbody s2. destruct X2 as [R2 I2].
  destruct (f_out fl1); auto.
  destruct (e_wd (ep_obj (st_ep s2) i)) eqn:WD; auto.
  assert (n <> d) by (eapply (p_inv_ptr_other s2 m i n I2 (proj2 R2) Ni); auto).
  apply p_rei_invoke_other; auto.
Qed.

(* ---------- st_opix is not touched by a Poll ---------- *)
Lemma p_opix_ep_close s i x : st_opix (p_ep_close c s i x) = st_opix s.
Proof.
  unfold p_ep_close. set (s0 := p_touch s x).
  assert (O0 : st_opix s0 = st_opix s) by apply p_opix_touch.
  clearbody s0. set (s1 := p_set_onclose s0 _).
  set (s2 := if st_onclose s0 x then p_invoke c s1 x PKClose else s1).
  assert (O2 : st_opix s2 = st_opix s).
  { unfold s2. destruct (st_onclose s0 x); [rewrite p_opix_invoke|]; exact O0. }
  clearbody s2. destruct (e_cd (ep_obj (st_ep s2) i)) as [d2|]; auto.
  destruct (e_doc (ep_obj (st_ep s2) i)); auto.
  set (s3 := p_touch s2 d2). assert (O3 : st_opix s3 = st_opix s) by (unfold s3; rewrite p_opix_touch; exact O2).
  clearbody s3. destruct (p_ep_remove (st_ep s3) d2 false) as [e r]. simpl.
  destruct (e_cd (ep_obj e i)) as [d3|]; simpl; auto.
  unfold p_touch. simpl. destruct (st_del s3 d3); simpl; exact O3.
Qed.
Lemma p_opix_ep_check s ev : st_opix (p_ep_check c s ev) = st_opix s.
Proof.
  unfold p_ep_check. destruct ev as [i fl].
  set (sf := if f_hup fl then _ else _).
  assert (O1 : st_opix (fst sf) = st_opix s).
  { unfold sf. destruct (f_hup fl); auto.
    destruct (e_rd (ep_obj (st_ep s) i)). simpl. apply p_opix_invoke.
    destruct (e_cd (ep_obj (st_ep s) i)).
    - simpl. destruct (p_has_data (p_touch s n) n).
      rewrite p_opix_invoke. apply p_opix_touch. rewrite p_opix_ep_close. apply p_opix_touch.
    - destruct (e_wd (ep_obj (st_ep s) i)); simpl; auto. apply p_opix_invoke. }
  destruct sf as [s1 fl1]. simpl in O1.
  set (s2 := if f_in fl1 then _ else s1).
  assert (O2 : st_opix s2 = st_opix s).
  { unfold s2. destruct (f_in fl1); auto.
    destruct (e_rd (ep_obj (st_ep s1) i)). rewrite p_opix_invoke; auto.
    destruct (e_cd (ep_obj (st_ep s1) i)); auto. rewrite p_opix_invoke; auto. }
  clearbody s2. destruct (f_out fl1); auto.
  destruct (e_wd (ep_obj (st_ep s2) i)); auto. rewrite p_opix_invoke; auto.
Qed.

(* ---------- one Poll ---------- *)
Definition l_flags (a : p_a) : p_flags :=
  Build_p_flags (a_r a && (if sock then l_has_data a || a_closed a else l_has_data a)) (a_w a && sock) (a_closed a).
Lemma p_flags_of s a id : p_re s a -> ep_map (st_ep s) d = Some id ->
  p_ep_flags c s (ep_obj (st_ep s) id) d = l_flags a.
Proof.
  intros R M. pose proof (re_tab _ _ R) as T. unfold p_tab in T. rewrite M in T.
  destruct T as (_ & _ & _ & T4 & T5 & _).
  unfold p_ep_flags, p_readable, l_flags, p_has_data, l_has_data. rewrite G5, T4, T5, (re_pend _ _ R), (re_closed _ _ R).
  destruct sock eqn:SK; auto; destruct (a_w a) eqn:AW; auto.
Qed.

Lemma l_poll_idle s a n : p_re s a ->
  (ep_map (st_ep s) d = None \/ p_flag_any (l_flags a) = false) -> p_re s (l_poll c d n a).
Proof.
  intros R H.
  assert (X : l_poll c d n a = l_set_cut a false).
  { unfold l_poll, l_read_part. simpl.
    destruct H as [H|H].
    - pose proof (re_tab _ _ R) as T. unfold p_tab in T. rewrite H in T. destruct T as [-> ->]. simpl.
      destruct (a_closed a); reflexivity.
    - unfold p_flag_any, l_flags in H. simpl in H.
      apply orb_false_iff in H. destruct H as [H H3]. apply orb_false_iff in H. destruct H as [H1 H2].
      rewrite H3, H2. simpl.
      assert (Y : a_r a && l_has_data (l_set_cut a false) = false).
      { unfold l_has_data in *. simpl. destruct (a_r a); auto. simpl in *. rewrite H3 in H1.
        destruct sock; rewrite ?orb_false_r in H1; exact H1. }
      rewrite Y. reflexivity. }
  rewrite X. apply p_re_cut; auto.
Qed.

Lemma p_ep_ready_app s l1 l2 : p_ep_ready c s (l1 ++ l2) = p_ep_ready c s l1 ++ p_ep_ready c s l2.
Proof.
  induction l1 as [|x l1 IH]; simpl; auto.
  destruct (ep_map (st_ep s) x); auto. destruct (p_flag_any _); simpl; rewrite IH; auto.
Qed.
Lemma p_ep_ready_other s l : ~ In d l -> forall ev, In ev (p_ep_ready c s l) -> p_qs s (fst ev).
Proof.
  induction l as [|x l IH]; simpl; intros N ev H. tauto.
  assert (Nx : x <> d) by (intro; apply N; auto). assert (Nl : ~ In d l) by (intro; apply N; auto).
  destruct (ep_map (st_ep s) x) as [i|] eqn:M; [|apply IH; auto].
  destruct (p_flag_any _); [|apply IH; auto].
  destruct H as [<-|H]; [|apply IH; auto]. left. exists x. auto.
Qed.

Lemma p_fold_others a n : forall evs s m,
  (forall ev, In ev evs -> p_qs s (fst ev)) -> p_inv c true s -> p_rei s a m -> st_opix s = n ->
  let s' := fold_left (p_ep_check c) evs s in
  p_rei s' a m /\ p_inv c true s' /\ st_opix s' = n /\ (forall id, p_qs s id -> p_qs s' id).
Proof.
  induction evs as [|[i fl] evs IH]; intros s m Q I R O; cbn [fold_left]; cbv zeta.
  - split; [exact R|]. split; [exact I|]. split; [exact O|]. auto.
  - assert (Ni : m <> Some i).
    { destruct R as [R M]. rewrite <- M. apply p_q_not_d. apply (re_wf _ _ R). apply (Q (i, fl)). left; auto. }
    destruct (IH (p_ep_check c s (i, fl)) m) as (A & B & C & D).
    + intros ev H. apply p_qs_ep_check. apply Q. right; auto.
    + apply p_inv_ep_check; auto.
    + apply p_rei_ep_check_other; auto.
    + rewrite p_opix_ep_check; auto.
    + split; [exact A|]. split; [exact B|]. split; [exact C|]. intros id H. apply D. apply p_qs_ep_check; auto.
Qed.

Lemma p_re_ep_poll s a n desc : length c <= p_max_events -> d < length c -> p_inv c true s -> st_opix s = n -> p_re s a ->
  p_re (p_ep_poll c s desc) (l_poll c d n a) /\ st_opix (p_ep_poll c s desc) = n.
Proof.
  intros LM L I O R. unfold p_ep_poll. rewrite (p_batch_all c s desc LM).
  set (ds := if desc then rev (seq 0 (length c)) else seq 0 (length c)).
  assert (ND : NoDup ds).
  { unfold ds. destruct desc; [apply NoDup_rev|]; apply seq_NoDup. }
  assert (Hd : In d ds).
  { unfold ds. destruct desc; [apply -> in_rev|]; apply in_seq; lia. }
  destruct (in_split d ds Hd) as (l1 & l2 & E).
  assert (N1 : ~ In d l1 /\ ~ In d l2).
  { rewrite E in ND. apply NoDup_remove_2 in ND. split; intro; apply ND; apply in_or_app; auto. }
  destruct N1 as [N1 N2].
  set (evs := p_ep_ready c s ds).
  assert (EE : evs = p_ep_ready c s l1 ++ p_ep_ready c s [d] ++ p_ep_ready c s l2).
  { unfold evs. rewrite E. rewrite p_ep_ready_app. change (d :: l2) with ([d] ++ l2). rewrite p_ep_ready_app. reflexivity. }
  (* the whole callback phase *)
  assert (MAIN : p_re (fold_left (p_ep_check c) evs s) (l_poll c d n a) /\
                 st_opix (fold_left (p_ep_check c) evs s) = n).
  { rewrite EE. rewrite !fold_left_app.
    destruct (p_fold_others a n (p_ep_ready c s l1) s (ep_map (st_ep s) d)
                (p_ep_ready_other s l1 N1) I (conj R eq_refl) O) as ((R1 & M1) & I1 & O1 & Q1).
    set (s1 := fold_left (p_ep_check c) (p_ep_ready c s l1) s) in *. clearbody s1.
    assert (QC : forall ev, In ev (p_ep_ready c s l2) -> p_qs s1 (fst ev)).
    { intros ev H. apply Q1. apply (p_ep_ready_other s l2 N2); auto. }
    assert (MID : exists s2, s2 = fold_left (p_ep_check c) (p_ep_ready c s [d]) s1 /\
              p_re s2 (l_poll c d n a) /\ p_inv c true s2 /\ st_opix s2 = n /\
              (forall id, p_qs s1 id -> p_qs s2 id)).
    { eexists. split; [reflexivity|]. cbn [p_ep_ready].
      destruct (ep_map (st_ep s) d) as [id0|] eqn:M.
      - rewrite (p_flags_of s a id0 R M).
        destruct (p_flag_any (l_flags a)) eqn:FA; cbn [fold_left].
        + rewrite <- (p_flags_of s1 a id0 R1 M1).
          split. apply p_re_check_self; auto.
          split. apply p_inv_ep_check; auto.
          split. rewrite p_opix_ep_check; auto.
          intros id H. apply p_qs_ep_check; auto.
        + split. apply l_poll_idle; auto. split; [exact I1|]. split; [exact O1|]. auto.
      - cbn [fold_left]. split. apply l_poll_idle; auto. split; [exact I1|]. split; [exact O1|]. auto. }
    destruct MID as (s2 & E2 & R2 & I2 & O2 & Q2). rewrite <- E2.
    destruct (p_fold_others (l_poll c d n a) n (p_ep_ready c s l2) s2 (ep_map (st_ep s2) d))
      as ((R3 & _) & _ & O3 & _); auto.
    split; auto. }
  destruct MAIN as [RM OM].
  destruct evs as [|ev evs'] eqn:EV.
  - simpl in RM, OM. split; auto.
  - split; [|exact OM].
    pose proof (p_wfs_ep_poll c s desc (conj (re_be _ _ R) (re_wf _ _ R))) as [_ WP].
    unfold p_ep_poll in WP. rewrite (p_batch_all c s desc LM) in WP. fold ds in WP. fold evs in WP. rewrite EV in WP.
    set (sf := fold_left (p_ep_check c) (ev :: evs') s) in *. clearbody sf.
    destruct RM. constructor; simpl; auto.
Qed.

(* ---------- runs ---------- *)
Lemma p_re_frame s s' a :
  st_be s' = st_be s -> st_pend s' = st_pend s -> st_closed s' = st_closed s -> st_onclose s' = st_onclose s ->
  st_regr s' = st_regr s -> st_regw s' = st_regw s -> st_del s' = st_del s -> st_log s' = st_log s ->
  st_ep s' = st_ep s -> p_re s a -> p_re s' a.
Proof.
  intros E1 E2 E3 E4 E5 E6 E7 E8 E9 R. destruct R.
  constructor; rewrite ?E1, ?E2, ?E3, ?E4, ?E5, ?E6, ?E7, ?E8, ?E9; auto.
Qed.

Lemma p_re_step s a o n : length c <= p_max_events -> d < length c -> st_opix s = n -> p_inv c true s ->
  (forall x, o = POAddW x -> x = d -> sock = true) -> p_re s a ->
  p_re (p_step c s o) (l_step c d n a o) /\ st_opix (p_step c s o) = S n.
Proof.
  intros LM L O I OK R. unfold p_step. cbv zeta.
  match goal with |- p_re (p_set_opix ?x _) _ /\ _ =>
    assert (X : p_re x (l_step c d n a o) /\ st_opix x = n) end.
  { assert (ACT : forall y, (p_is_addw y = true -> p_act_target y = d -> sock = true) ->
                   p_re (p_exec_act c s y) (if p_act_target y =? d then l_act a y else a)).
    { intros y K. destruct (p_act_target y =? d) eqn:E.
      - apply Nat.eqb_eq in E. apply p_re_act_self; auto.
      - apply Nat.eqb_neq in E. apply p_re_exec_act_other; auto. }
    assert (OA : forall y, st_opix (p_exec_act c s y) = st_opix s).
    { intros y. apply (p_opix_exec_acts c [y]). }
    destruct o; simpl l_step.
    - assert (A := ACT (PAAddR d0)). specialize (OA (PAAddR d0)). unfold p_exec_act in A, OA. simpl in A, OA.
      destruct (st_del s d0). split; [|exact O]. apply A. intros; discriminate.
      destruct (p_add_r c s d0) as [s' r]. simpl in A, OA. split; [|simpl; congruence].
      eapply p_re_frame; [..|apply A; intros; discriminate]; reflexivity.
    - assert (A := ACT (PAAddW d0)). specialize (OA (PAAddW d0)). unfold p_exec_act in A, OA. simpl in A, OA.
      assert (K : true = true -> d0 = d -> sock = true) by (intros _ E; apply (OK d0); auto).
      destruct (st_del s d0). split; [|exact O]. apply A; auto.
      destruct (p_add_w c s d0) as [s' r]. simpl in A, OA. split; [|simpl; congruence].
      eapply p_re_frame; [..|apply A; auto]; reflexivity.
    - assert (A := ACT (PARemR d0)). specialize (OA (PARemR d0)). unfold p_exec_act in A, OA. simpl in A, OA.
      destruct (st_del s d0). split; [|exact O]. apply A. intros; discriminate.
      destruct (p_rem_r c s d0) as [s' r]. simpl in A, OA. split; [|simpl; congruence].
      eapply p_re_frame; [..|apply A; intros; discriminate]; reflexivity.
    - assert (A := ACT (PARemW d0)). specialize (OA (PARemW d0)). unfold p_exec_act in A, OA. simpl in A, OA.
      destruct (st_del s d0). split; [|exact O]. apply A. intros; discriminate.
      destruct (p_rem_w c s d0) as [s' r]. simpl in A, OA. split; [|simpl; congruence].
      eapply p_re_frame; [..|apply A; intros; discriminate]; reflexivity.
    - split; [|destruct (st_del s d0 || st_closed s d0); exact O].
      destruct (d0 =? d) eqn:E.
      + apply Nat.eqb_eq in E. subst d0. rewrite (re_del _ _ R), (re_closed _ _ R). simpl.
        destruct (a_closed a) eqn:CL; auto.
        destruct R. constructor; simpl; rewrite ?p_upd_same; auto; congruence.
      + apply Nat.eqb_neq in E. destruct (st_del s d0 || st_closed s d0); auto.
        destruct R. constructor; simpl; auto. rewrite p_upd_other; auto.
    - split; [|destruct (st_del s d0); exact O].
      destruct (d0 =? d) eqn:E.
      + apply Nat.eqb_eq in E. subst d0. rewrite (re_del _ _ R).
        destruct R. constructor; simpl; rewrite ?p_upd_same; auto.
      + apply Nat.eqb_neq in E. destruct (st_del s d0); auto.
        destruct R. constructor; simpl; auto. rewrite p_upd_other; auto.
    - rewrite (re_be _ _ R). apply p_re_ep_poll; auto. }
  destruct X as [X1 X2]. split; [|simpl; congruence].
  eapply p_re_frame; [..|exact X1]; reflexivity.
Qed.

Lemma p_re_run ops : length c <= p_max_events -> d < length c ->
  (forall o x, In o ops -> o = POAddW x -> x = d -> sock = true) ->
  forall s a n, st_opix s = n -> p_inv c true s -> p_re s a ->
  p_re (fold_left (p_step c) ops s) (l_run c d n a ops).
Proof.
  intros LM L. induction ops as [|o ops IH]; simpl; intros OK s a n O I R; auto.
  destruct (p_re_step s a o n LM L O I (fun x => OK o x (or_introl eq_refl)) R) as [R1 O1].
  apply IH with (n := S n); auto. intros o' x H. apply OK. right; auto. apply p_inv_step; auto.
Qed.

Lemma p_re_init : p_re (p_init true c) (l_init c d).
Proof.
  constructor; simpl; auto; try (intros; discriminate).
  - unfold p_tab. simpl. auto.
  - unfold p_wf; simpl. split; [|split; [|split]]; try (intros; discriminate); try (intros ? []). constructor.
Qed.
End SimE.
