(* C16 part (b): both poller back-ends deliver, per descriptor, the same callbacks and the same bytes.
   Both models refine the same single-descriptor abstract machine (PAbs.v): PSimS.v (SelectPoller),
   PSimE.v (EPoller). *)
Require Import List Arith Bool NArith Lia.
Import ListNotations.
From C16 Require Import PModel PProofs PAbs PSimS PSimE.

Lemma p_get_overflow c x : length c <= x -> p_get c x = p_dflt.
Proof. intros H. unfold p_get. apply nth_overflow. exact H. Qed.

Lemma p_proj_rev d l : p_proj d (rev l) = rev (p_proj d l).
Proof.
  unfold p_proj. induction l; simpl; auto. rewrite filter_app, IHl. simpl.
  destruct (le_d a =? d); simpl; auto. rewrite app_nil_r. reflexivity.
Qed.

(* ---------- per-descriptor form: only actions aimed AT d by other descriptors are excluded ---------- *)
Section PerD.
Variable c : p_cfg.
Variable d : nat.
Hypothesis GD : p_d_ok c d = true.
Hypothesis L : d < length c.
Hypothesis LM : length c <= p_max_events.

Lemma p_d_ok_parts :
  (forall x a, x <> d -> In a (pc_rs (p_get c x) ++ pc_ws (p_get c x) ++ pc_cs (p_get c x)) -> p_act_target a <> d) /\
  pc_doc (p_get c d) = false /\
  (forall a, In a (pc_rs (p_get c d) ++ pc_ws (p_get c d) ++ pc_cs (p_get c d)) ->
     p_act_target a = d -> p_is_addw a = true -> p_is_sock c d = true) /\
  p_script_ok (l_own d (pc_rs (p_get c d))) = true /\ p_script_ok (l_own d (pc_cs (p_get c d))) = true /\
  p_refused c d = false.
Proof.
  pose proof GD as K. unfold p_d_ok in K.
  apply andb_true_iff in K. destruct K as [K G5b].
  apply andb_true_iff in K. destruct K as [K G4c].
  apply andb_true_iff in K. destruct K as [K G4r].
  apply andb_true_iff in K. destruct K as [K G3b].
  apply andb_true_iff in K. destruct K as [G1b G2b].
  split; [|split; [|split; [|split; [|split]]]].
  - intros x a N H. destruct (Nat.lt_ge_cases x (length c)) as [Lx|Lx].
    + rewrite forallb_forall in G1b. assert (Hx : In x (seq 0 (length c))) by (apply in_seq; lia).
      specialize (G1b x Hx). apply orb_true_iff in G1b. destruct G1b as [E|F].
      * apply Nat.eqb_eq in E. congruence.
      * rewrite forallb_forall in F. specialize (F a H). apply negb_true_iff in F. apply Nat.eqb_neq in F. exact F.
    + rewrite (p_get_overflow c x Lx) in H. simpl in H. destruct H.
  - apply negb_true_iff. exact G2b.
  - intros a H T W. apply orb_true_iff in G3b. destruct G3b as [S|N]; auto.
    apply negb_true_iff in N.
    assert (X : existsb p_is_addw (filter (fun a0 => p_act_target a0 =? d)
                 (pc_rs (p_get c d) ++ pc_ws (p_get c d) ++ pc_cs (p_get c d))) = true).
    { apply existsb_exists. exists a. split; auto. apply filter_In. split; auto. apply Nat.eqb_eq; auto. }
    congruence.
  - exact G4r.
  - exact G4c.
  - apply negb_true_iff. exact G5b.
Qed.

Theorem p_refine_d ops be : p_ops_ok_d c d ops = true ->
  p_proj d (p_log (p_run be c ops)) = rev (a_log (l_run c d 0 (l_init c d) ops)).
Proof.
  intros GO. destruct p_d_ok_parts as (G1 & G2d & G3 & G4r & G4c & G5).
  assert (GO' : forall o x, In o ops -> o = POAddW x -> x = d -> p_is_sock c d = true).
  { intros o x H -> ->. unfold p_ops_ok_d in GO. rewrite forallb_forall in GO. specialize (GO _ H). simpl in GO.
    rewrite Nat.eqb_refl in GO. exact GO. }
  unfold p_log, p_run. rewrite p_proj_rev. f_equal. destruct be.
  - apply (re_log _ _ _ _ (p_re_run c d G1 G2d G5 G3 G4r G4c ops LM L GO' (p_init true c) (l_init c d) 0 eq_refl
                (p_inv_init c true) (p_re_init c d))).
  - apply (rs_log _ _ _ _ (p_rs_run c d G1 G2d ops L (p_init false c) (l_init c d) 0 eq_refl (p_rs_init c d))).
Qed.

Theorem p_agree_d ops : p_ops_ok_d c d ops = true ->
  p_proj d (p_log (p_run true c ops)) = p_proj d (p_log (p_run false c ops)).
Proof. intros GO. rewrite (p_refine_d ops true GO), (p_refine_d ops false GO). reflexivity. Qed.
End PerD.

(* ---------- the global guard of round 3 implies the per-descriptor one ---------- *)
Lemma p_cfg_ok_at c x : p_cfg_ok c = true -> p_dcfg_ok c x = true.
Proof.
  intros H. destruct (Nat.lt_ge_cases x (length c)) as [L|L].
  - unfold p_cfg_ok in H. rewrite forallb_forall in H. apply H. apply in_seq. lia.
  - unfold p_dcfg_ok, p_refused. rewrite (p_get_overflow c x L). simpl. rewrite orb_true_r. reflexivity.
Qed.
Lemma existsb_filter_le {A} (f g : A -> bool) l : existsb f (filter g l) = true -> existsb f l = true.
Proof.
  rewrite !existsb_exists. intros (x & H & F). apply filter_In in H. exists x. tauto.
Qed.
Lemma p_script_ok_filter g l : p_script_ok l = true -> p_script_ok (filter g l) = true.
Proof.
  unfold p_script_ok. rewrite !negb_true_iff. intros H.
  destruct (existsb p_is_addw (filter g l)) eqn:A; auto.
  destruct (existsb p_is_remw (filter g l)) eqn:B; auto.
  destruct (existsb p_is_remr (filter g l)) eqn:C; auto.
  rewrite (existsb_filter_le _ _ _ A), (existsb_filter_le _ _ _ B), (existsb_filter_le _ _ _ C) in H. discriminate.
Qed.
Lemma p_cfg_ok_d c d : p_cfg_ok c = true -> p_d_ok c d = true.
Proof.
  intros GC. pose proof (p_cfg_ok_at c d GC) as K. unfold p_dcfg_ok in K.
  apply andb_true_iff in K. destruct K as [K G5b].
  apply andb_true_iff in K. destruct K as [K G4c].
  apply andb_true_iff in K. destruct K as [K G4r].
  apply andb_true_iff in K. destruct K as [K G3b].
  apply andb_true_iff in K. destruct K as [G1b G2b].
  unfold p_d_ok. rewrite G2b, G5b. rewrite (p_script_ok_filter _ _ G4r), (p_script_ok_filter _ _ G4c).
  assert (G3' : p_is_sock c d || negb (existsb p_is_addw (filter (fun a => p_act_target a =? d)
                  (pc_rs (p_get c d) ++ pc_ws (p_get c d) ++ pc_cs (p_get c d)))) = true).
  { apply orb_true_iff in G3b. destruct G3b as [->|N]; auto. rewrite orb_true_iff. right.
    apply negb_true_iff. apply negb_true_iff in N.
    destruct (existsb p_is_addw (filter _ _)) eqn:X; auto. rewrite (existsb_filter_le _ _ _ X) in N. discriminate. }
  rewrite G3'. rewrite !andb_true_r. apply forallb_forall. intros x Hx.
  destruct (x =? d) eqn:E; auto. simpl. apply forallb_forall. intros a Ha.
  pose proof (p_cfg_ok_at c x GC) as Kx. unfold p_dcfg_ok in Kx.
  repeat (apply andb_true_iff in Kx; destruct Kx as [Kx ?]).
  rewrite forallb_forall in Kx. specialize (Kx a Ha). unfold p_act_self in Kx. apply Nat.eqb_eq in Kx.
  apply negb_true_iff. rewrite Kx. exact E.
Qed.
Lemma p_ops_ok_d_of c d ops : p_ops_ok c ops = true -> p_ops_ok_d c d ops = true.
Proof.
  unfold p_ops_ok, p_ops_ok_d. rewrite !forallb_forall. intros H o Ho. specialize (H o Ho).
  destruct o; auto. simpl in *. destruct (d0 =? d) eqn:E; auto. apply Nat.eqb_eq in E. subst. exact H.
Qed.

Theorem p_backends_agree c ops d :
  p_cfg_ok c = true -> p_ops_ok c ops = true -> d < length c -> length c <= p_max_events ->
  p_proj d (p_log (p_run true c ops)) = p_proj d (p_log (p_run false c ops)).
Proof. intros GC GO L LM. apply p_agree_d; auto. apply p_cfg_ok_d; auto. apply p_ops_ok_d_of; auto. Qed.

Theorem p_backends_refine c ops d be :
  p_cfg_ok c = true -> p_ops_ok c ops = true -> d < length c -> length c <= p_max_events ->
  p_proj d (p_log (p_run be c ops)) = rev (a_log (l_run c d 0 (l_init c d) ops)).
Proof. intros GC GO L LM. apply p_refine_d; auto. apply p_cfg_ok_d; auto. apply p_ops_ok_d_of; auto. Qed.
