(* C16 part (b): both poller back-ends deliver, per descriptor, the same callbacks and the same bytes.
   Both models refine the same single-descriptor abstract machine (PAbs.v): PSimS.v (SelectPoller),
   PSimE.v (EPoller). *)
Require Import List Arith Bool NArith Lia.
Import ListNotations.
From C16 Require Import PModel PProofs PAbs PSimS PSimE.

Lemma p_get_overflow c x : length c <= x -> p_get c x = p_dflt.
Proof. intros H. unfold p_get. apply nth_overflow. exact H. Qed.

Lemma p_cfg_ok_at c x : p_cfg_ok c = true -> p_dcfg_ok c x = true.
Proof.
  intros H. destruct (Nat.lt_ge_cases x (length c)) as [L|L].
  - unfold p_cfg_ok in H. rewrite forallb_forall in H. apply H. apply in_seq. lia.
  - unfold p_dcfg_ok. rewrite (p_get_overflow c x L). simpl. rewrite orb_true_r. reflexivity.
Qed.

Lemma p_proj_rev d l : p_proj d (rev l) = rev (p_proj d l).
Proof.
  unfold p_proj. induction l; simpl; auto. rewrite filter_app, IHl. simpl.
  destruct (le_d a =? d); simpl; auto. rewrite app_nil_r. reflexivity.
Qed.

Theorem p_backends_agree c ops d :
  p_cfg_ok c = true -> p_ops_ok c ops = true -> d < length c ->
  p_proj d (p_log (p_run true c ops)) = p_proj d (p_log (p_run false c ops)).
Proof.
  intros GC GO L.
  assert (G1 : forall x a, In a (pc_rs (p_get c x) ++ pc_ws (p_get c x) ++ pc_cs (p_get c x)) -> p_act_target a = x).
  { intros x a H. pose proof (p_cfg_ok_at c x GC) as K. unfold p_dcfg_ok in K.
    repeat (apply andb_true_iff in K; destruct K as [K ?]).
    rewrite forallb_forall in K. apply Nat.eqb_eq. apply (K a H). }
  assert (G2 : forall x, pc_doc (p_get c x) = false).
  { intros x. pose proof (p_cfg_ok_at c x GC) as K. unfold p_dcfg_ok in K.
    repeat (apply andb_true_iff in K; destruct K as [K ?]).
    apply negb_true_iff. assumption. }
  pose proof (p_cfg_ok_at c d GC) as K. unfold p_dcfg_ok in K.
  apply andb_true_iff in K. destruct K as [K G4c].
  apply andb_true_iff in K. destruct K as [K G4r].
  apply andb_true_iff in K. destruct K as [K G3b].
  assert (G3 : forall a, In a (pc_rs (p_get c d) ++ pc_ws (p_get c d) ++ pc_cs (p_get c d)) ->
                 p_is_addw a = true -> p_is_sock c d = true).
  { intros a H W. apply orb_true_iff in G3b. destruct G3b as [S|N]; auto.
    apply negb_true_iff in N. assert (existsb p_is_addw (pc_rs (p_get c d) ++ pc_ws (p_get c d) ++ pc_cs (p_get c d)) = true)
      by (apply existsb_exists; exists a; auto). congruence. }
  assert (GO' : forall o x, In o ops -> o = POAddW x -> x = d -> p_is_sock c d = true).
  { intros o x H -> ->. unfold p_ops_ok in GO. rewrite forallb_forall in GO. apply (GO _ H). }
  pose proof (p_re_run c d G1 G2 G3 G4r G4c ops L GO' (p_init true c) (l_init c d) 0 eq_refl
                (p_inv_init c true) (p_re_init c d)) as RE.
  pose proof (p_rs_run c d G1 G2 ops L (p_init false c) (l_init c d) 0 eq_refl (p_rs_init c d)) as RS.
  unfold p_log, p_run. rewrite !p_proj_rev. f_equal.
  rewrite (re_log _ _ _ _ RE), (rs_log _ _ _ _ RS). reflexivity.
Qed.

Theorem p_backends_refine c ops d be :
  p_cfg_ok c = true -> p_ops_ok c ops = true -> d < length c ->
  p_proj d (p_log (p_run be c ops)) = rev (a_log (l_run c d 0 (l_init c d) ops)).
Proof.
  intros GC GO L.
  assert (G1 : forall x a, In a (pc_rs (p_get c x) ++ pc_ws (p_get c x) ++ pc_cs (p_get c x)) -> p_act_target a = x).
  { intros x a H. pose proof (p_cfg_ok_at c x GC) as K. unfold p_dcfg_ok in K.
    repeat (apply andb_true_iff in K; destruct K as [K ?]).
    rewrite forallb_forall in K. apply Nat.eqb_eq. apply (K a H). }
  assert (G2 : forall x, pc_doc (p_get c x) = false).
  { intros x. pose proof (p_cfg_ok_at c x GC) as K. unfold p_dcfg_ok in K.
    repeat (apply andb_true_iff in K; destruct K as [K ?]).
    apply negb_true_iff. assumption. }
  pose proof (p_cfg_ok_at c d GC) as K. unfold p_dcfg_ok in K.
  apply andb_true_iff in K. destruct K as [K G4c].
  apply andb_true_iff in K. destruct K as [K G4r].
  apply andb_true_iff in K. destruct K as [K G3b].
  assert (G3 : forall a, In a (pc_rs (p_get c d) ++ pc_ws (p_get c d) ++ pc_cs (p_get c d)) ->
                 p_is_addw a = true -> p_is_sock c d = true).
  { intros a H W. apply orb_true_iff in G3b. destruct G3b as [S|N]; auto.
    apply negb_true_iff in N. assert (existsb p_is_addw (pc_rs (p_get c d) ++ pc_ws (p_get c d) ++ pc_cs (p_get c d)) = true)
      by (apply existsb_exists; exists a; auto). congruence. }
  assert (GO' : forall o x, In o ops -> o = POAddW x -> x = d -> p_is_sock c d = true).
  { intros o x H -> ->. unfold p_ops_ok in GO. rewrite forallb_forall in GO. apply (GO _ H). }
  unfold p_log, p_run. rewrite p_proj_rev. f_equal. destruct be.
  - apply (re_log _ _ _ _ (p_re_run c d G1 G2 G3 G4r G4c ops L GO' (p_init true c) (l_init c d) 0 eq_refl
                (p_inv_init c true) (p_re_init c d))).
  - apply (rs_log _ _ _ _ (p_rs_run c d G1 G2 ops L (p_init false c) (l_init c d) 0 eq_refl (p_rs_init c d))).
Qed.
