(* C16 part (b): "registered according to the add/remove history" implies "in the poller's table", for every
   reachable state: the premise of c16_close_reported follows from the ghost registration st_regr. *)
Require Import List Arith Bool NArith Lia.
Import ListNotations.
From C16 Require Import PModel PProofs PClose PHaz PWf PLive PSimS.

(* ================= SelectPoller ================= *)
Definition p_ws (c : p_cfg) (s : p_st) : Prop :=
  st_be s = false /\
  forall d, pc_conn (p_get c d) = true -> st_regr s d = true -> st_onclose s d = true ->
            s_c (st_sel s) d = SPres.

Lemma p_ws_exec_act c s a : p_ws c s -> p_ws c (p_exec_act c s a).
Proof.
  intros [B W]. unfold p_exec_act. destruct (st_del s (p_act_target a)). split; auto.
  destruct a; simpl.
  - unfold p_add_r. simpl. rewrite B. unfold p_sel_add_r, p_sel_insert.
    destruct (pc_conn (p_get c d)) eqn:CN.
    + destruct (s_c (st_sel s) d) eqn:SC; simpl; (split; [auto|]); simpl; intros x CX RX OX; unfold p_upd in *;
        destruct (x =? d) eqn:E; auto; apply Nat.eqb_eq in E; subst; auto.
    + destruct (s_r (st_sel s) d); simpl; (split; [auto|]); simpl; intros x CX RX OX; unfold p_upd in *;
        destruct (x =? d) eqn:E; auto; apply Nat.eqb_eq in E; subst; congruence.
  - unfold p_add_w. simpl. rewrite B. unfold p_sel_add_w, p_sel_insert.
    destruct (s_w (st_sel s) d); simpl; (split; [auto|]); simpl; auto.
  - unfold p_rem_r. simpl. rewrite B. unfold p_sel_rem_r, p_sel_remove.
    destruct (pc_conn (p_get c d)) eqn:CN.
    + destruct (s_c (st_sel s) d) eqn:SC; simpl; (split; [auto|]); simpl; intros x CX RX OX; unfold p_upd in *;
        destruct (x =? d) eqn:E; try discriminate; auto.
    + destruct (s_r (st_sel s) d); simpl; (split; [auto|]); simpl; intros x CX RX OX; unfold p_upd in *;
        destruct (x =? d) eqn:E; try discriminate; auto.
  - unfold p_rem_w. simpl. rewrite B. unfold p_sel_rem_w, p_sel_remove.
    destruct (s_w (st_sel s) d); simpl; (split; [auto|]); simpl; auto.
Qed.
Lemma p_ws_exec_acts c l : forall s, p_ws c s -> p_ws c (p_exec_acts c s l).
Proof. unfold p_exec_acts. induction l; simpl; intros; auto. apply IHl. apply p_ws_exec_act; auto. Qed.
Lemma p_ws_invoke c s d k : p_ws c s -> p_ws c (p_invoke c s d k).
Proof.
  intros W. unfold p_invoke. destruct (st_del s d). exact W.
  destruct k; apply p_ws_exec_acts; exact W.
Qed.
Lemma p_ws_touch c s d : p_ws c s -> p_ws c (p_touch s d).
Proof. intros W. unfold p_touch. destruct (st_del s d); exact W. Qed.

Lemma p_ws_sel_prepare c s : p_ws c s -> p_ws c (p_sel_prepare c s).
Proof.
  intros [B W]. unfold p_sel_prepare. set (s1 := p_set_sel s _).
  assert (W1 : p_ws c s1).
  { split; auto. unfold s1. simpl. intros d CX RX OX. rewrite (W d CX RX OX). reflexivity. }
  clearbody s1. revert s1 W1. induction (seq 0 (length c)); simpl; intros; auto.
  apply IHl. destruct (_ && _); auto.
Qed.
Lemma p_ws_read_step c rset s d : p_ws c s -> p_ws c (p_sel_read_step c rset s d).
Proof. intros W. unfold p_sel_read_step. destruct (_ && _); auto. apply p_ws_invoke; auto. Qed.
Lemma p_ws_write_step c wset s d : p_ws c s -> p_ws c (p_sel_write_step c wset s d).
Proof.
  intros W. unfold p_sel_write_step. destruct (p_is_pres _); auto.
  destruct (wset d); [apply p_ws_invoke|]; apply p_ws_touch; auto.
Qed.
Lemma p_ws_conn_step c rset s d : p_ws c s -> p_ws c (p_sel_conn_step c rset s d).
Proof.
  intros W. unfold p_sel_conn_step. destruct (p_is_pres _); auto.
  pose proof (p_ws_touch c s d W) as W0. set (s0 := p_touch s d) in *. clearbody s0.
  destruct (rset d); auto.
  destruct (negb (p_has_data s0 d)); [|apply p_ws_invoke; auto].
  set (s2 := p_set_sel _ _).
  assert (W2 : p_ws c s2).
  { destruct W0 as [B W0]. split; auto. unfold s2. simpl. intros x CX RX OX. unfold p_upd in *.
    destruct (x =? d) eqn:E; try discriminate. auto. }
  set (s3 := if st_onclose s0 d then p_invoke c s2 d PKClose else s2).
  assert (W3 : p_ws c s3) by (unfold s3; destruct (st_onclose s0 d); auto; apply p_ws_invoke; auto).
  clearbody s3. destruct (s_cdoc _ d); auto.
  pose proof (p_ws_touch c s3 d W3) as [B4 W4]. split; auto.
Qed.
Lemma p_ws_fold {A} c (f : p_st -> A -> p_st) l :
  (forall s a, p_ws c s -> p_ws c (f s a)) -> forall s, p_ws c s -> p_ws c (fold_left f l s).
Proof. intro H. induction l; simpl; intros; auto. Qed.
Lemma p_ws_sel_poll c s : p_ws c s -> p_ws c (p_sel_poll c s).
Proof.
  intros W. unfold p_sel_poll. pose proof (p_ws_sel_prepare c s W) as W1.
  set (s1 := p_sel_prepare c s) in *. clearbody s1.
  match goal with |- p_ws c (if ?b then _ else _) => destruct b end; auto.
  apply p_ws_fold. intros; apply p_ws_write_step; auto.
  apply p_ws_fold. intros; apply p_ws_conn_step; auto.
  apply p_ws_fold. intros; apply p_ws_read_step; auto. exact W1.
Qed.
Lemma p_ws_step c s o : p_ws c s -> p_ws c (p_step c s o).
Proof.
  intros W. unfold p_step. cbv zeta.
  match goal with |- p_ws c (p_set_opix ?x _) => assert (X : p_ws c x) end.
  { destruct o.
    - destruct (st_del s d) eqn:D; auto. pose proof (p_ws_exec_act c s (PAAddR d) W) as X.
      unfold p_exec_act in X. simpl in X. rewrite D in X. destruct (p_add_r c s d). exact X.
    - destruct (st_del s d) eqn:D; auto. pose proof (p_ws_exec_act c s (PAAddW d) W) as X.
      unfold p_exec_act in X. simpl in X. rewrite D in X. destruct (p_add_w c s d). exact X.
    - destruct (st_del s d) eqn:D; auto. pose proof (p_ws_exec_act c s (PARemR d) W) as X.
      unfold p_exec_act in X. simpl in X. rewrite D in X. destruct (p_rem_r c s d). exact X.
    - destruct (st_del s d) eqn:D; auto. pose proof (p_ws_exec_act c s (PARemW d) W) as X.
      unfold p_exec_act in X. simpl in X. rewrite D in X. destruct (p_rem_w c s d). exact X.
    - destruct (st_del s d || st_closed s d); exact W.
    - destruct (st_del s d); exact W.
    - destruct W as [B W]. rewrite B. apply p_ws_sel_poll. split; auto. }
  exact X.
Qed.
Lemma p_ws_run c ops : p_ws c (p_run false c ops).
Proof.
  unfold p_run. assert (W : p_ws c (p_init false c)) by (split; simpl; auto; intros; discriminate).
  revert W. generalize (p_init false c). induction ops; simpl; intros; auto. apply IHops. apply p_ws_step; auto.
Qed.

(* ================= EPoller ================= *)
From C16 Require Import PSimE.

Section RegE.
Variable c : p_cfg.
Local Notation connd d := (pc_conn (p_get c d)).

(* the EPollData mapped to d, if its read interest is set, holds d in the slot that matches d's kind *)
Definition p_ti (e : p_ep) (d : nat) : Prop :=
  forall id, ep_map e d = Some id ->
    let o := ep_obj e id in
    (e_r o = true -> if connd d then e_cd o = Some d /\ e_rd o = None else e_rd o = Some d /\ e_cd o = None) /\
    (e_r o = false -> e_rd o = None /\ e_cd o = None).
Definition p_docinv (e : p_ep) : Prop :=
  forall id x, e_cd (ep_obj e id) = Some x -> e_doc (ep_obj e id) = pc_doc (p_get c x).
Definition p_ei (e : p_ep) : Prop := p_wf e /\ (forall d, p_ti e d) /\ p_docinv e.

Lemma p_ti_frame e e' d : ep_map e' d = ep_map e d ->
  (forall id, ep_map e d = Some id -> ep_obj e' id = ep_obj e id) -> p_ti e d -> p_ti e' d.
Proof. intros M O T id H. rewrite M in H. rewrite (O id H). apply T; auto. Qed.

Lemma p_ei_add_r e t : p_ei e -> p_ei (fst (p_ep_add_r c e t)) /\
  exists id, ep_map (fst (p_ep_add_r c e t)) t = Some id /\ e_r (ep_obj (fst (p_ep_add_r c e t)) id) = true.
Proof.
  intros (W & T & D).
  assert (OTH : forall d, d <> t -> p_ti (fst (p_ep_add_r c e t)) d).
  { intros d N. destruct (p_other_add_r c d e t W (not_eq_sym N)) as [A B]. eapply p_ti_frame; eauto. }
  pose proof (p_wf_add_r c e t W) as W'.
  unfold p_ep_add_r in *. destruct (p_ep_lookup e t) as [[e1 id] nw] eqn:L.
  destruct (p_wf_lookup _ _ _ _ _ W L) as (W1 & M1 & F1 & F2 & F3).
  assert (O1 : (e_r (ep_obj e1 id) = false -> e_rd (ep_obj e1 id) = None /\ e_cd (ep_obj e1 id) = None) /\
               (e_r (ep_obj e1 id) = true -> ep_map e t = Some id /\ e1 = e)).
  { unfold p_ep_lookup in L. destruct (ep_map e t) as [i|] eqn:M.
    - inversion L; subst. split; auto. intros H. apply (T t id M); auto.
    - destruct (ep_free e); inversion L; subst; simpl; rewrite p_upd_same; simpl; split; auto; discriminate. }
  destruct O1 as [O1 O2].
  assert (D1 : p_docinv e1).
  { unfold p_ep_lookup in L. destruct (ep_map e t) as [i|] eqn:M. inversion L; subst; auto.
    destruct (ep_free e); inversion L; subst; intros i x; simpl; unfold p_upd;
      destruct (i =? _); simpl; try discriminate; apply D. }
  destruct (e_r (ep_obj e1 id)) eqn:ER.
  - destruct (O2 eq_refl) as [M ->]. simpl in *. split. split; [exact W|split; [exact T|exact D]].
    exists id. auto.
  - destruct (O1 eq_refl) as [R0 C0].
    destruct (connd t) eqn:CN; simpl in *.
    + split. split; [exact W'|split].
      * intros d. destruct (Nat.eq_dec d t) as [->|N]; [|apply OTH; auto].
        intros i Mi. simpl in Mi. rewrite M1 in Mi. inversion Mi; subst i. simpl. rewrite p_upd_same. simpl.
        rewrite CN. split; [auto|discriminate].
      * intros i x. simpl. unfold p_upd. destruct (i =? id) eqn:E; simpl; [|apply D1].
        intros H; inversion H; subst. reflexivity.
      * exists id. simpl. rewrite p_upd_same. auto.
    + split. split; [exact W'|split].
      * intros d. destruct (Nat.eq_dec d t) as [->|N]; [|apply OTH; auto].
        intros i Mi. simpl in Mi. rewrite M1 in Mi. inversion Mi; subst i. simpl. rewrite p_upd_same. simpl.
        rewrite CN. split; [auto|discriminate].
      * intros i x. simpl. unfold p_upd. destruct (i =? id) eqn:E; simpl; [|apply D1].
        apply Nat.eqb_eq in E. subst i. apply D1.
      * exists id. simpl. rewrite p_upd_same. auto.
Qed.

Definition p_lk (e : p_ep) (d : nat) : Prop := exists id, ep_map e d = Some id /\ e_r (ep_obj e id) = true.
Lemma p_lk_frame e e' d : ep_map e' d = ep_map e d ->
  (forall id, ep_map e d = Some id -> ep_obj e' id = ep_obj e id) -> p_lk e d -> p_lk e' d.
Proof. intros M O (id & A & B). exists id. rewrite M, (O id A). auto. Qed.

Lemma p_lk_add_r e t d : p_ei e -> p_lk e d -> p_lk (fst (p_ep_add_r c e t)) d.
Proof.
  intros E L. destruct (Nat.eq_dec d t) as [->|N].
  - destruct (p_ei_add_r e t E) as [_ X]. exact X.
  - destruct E as (W & _). destruct (p_other_add_r c d e t W (not_eq_sym N)) as [A B]. eapply p_lk_frame; eauto.
Qed.

Lemma p_ei_add_w e t : p_ei e -> p_ei (fst (p_ep_add_w e t)) /\ forall d, p_lk e d -> p_lk (fst (p_ep_add_w e t)) d.
Proof.
  intros (W & T & D).
  assert (OTH : forall d, d <> t -> p_ti (fst (p_ep_add_w e t)) d /\ (p_lk e d -> p_lk (fst (p_ep_add_w e t)) d)).
  { intros d N. destruct (p_other_add_w d e t W (not_eq_sym N)) as [A B]. split.
    eapply p_ti_frame; eauto. intros; eapply p_lk_frame; eauto. }
  pose proof (p_wf_add_w e t W) as W'.
  unfold p_ep_add_w in *. destruct (p_ep_lookup e t) as [[e1 id] nw] eqn:L.
  destruct (p_wf_lookup _ _ _ _ _ W L) as (W1 & M1 & F1 & F2 & F3).
  assert (T1 : p_ti e1 t /\ p_docinv e1 /\ (p_lk e t -> p_lk e1 t)).
  { unfold p_ep_lookup in L. destruct (ep_map e t) as [i|] eqn:M.
    - inversion L; subst. auto.
    - destruct (ep_free e); inversion L; subst; (split; [|split]).
      + intros i Mi. simpl in Mi. rewrite p_upd_same in Mi. inversion Mi; subst. simpl. rewrite p_upd_same. simpl.
        split; [discriminate|auto].
      + intros i x; simpl; unfold p_upd; destruct (i =? _); simpl; try discriminate; apply D.
      + intros (i & A & _). congruence.
      + intros i Mi. simpl in Mi. rewrite p_upd_same in Mi. inversion Mi; subst. simpl. rewrite p_upd_same. simpl.
        split; [discriminate|auto].
      + intros i x; simpl; unfold p_upd; destruct (i =? _); simpl; try discriminate; apply D.
      + intros (i & A & _). congruence. }
  destruct T1 as (T1 & D1 & K1).
  destruct (e_w (ep_obj e1 id)) eqn:EW; simpl in *.
  - split. split; [exact W'|split; [|exact D1]].
    + intros d. destruct (Nat.eq_dec d t) as [->|N]; [exact T1|apply OTH; auto].
    + intros d. destruct (Nat.eq_dec d t) as [->|N]; [exact K1|apply OTH; auto].
  - split. split; [exact W'|split].
    + intros d. destruct (Nat.eq_dec d t) as [->|N]; [|apply OTH; auto].
      intros i Mi. simpl in Mi. rewrite M1 in Mi. inversion Mi; subst i. simpl. rewrite p_upd_same. simpl.
      apply (T1 id M1).
    + intros i x. simpl. unfold p_upd. destruct (i =? id) eqn:E; simpl; [|apply D1].
      apply Nat.eqb_eq in E. subst i. apply D1.
    + intros d. destruct (Nat.eq_dec d t) as [->|N]; [|apply OTH; auto].
      intros K. destruct (K1 K) as (i & A & B). exists i. simpl. split; auto.
      assert (i = id) by congruence. subst i. rewrite p_upd_same. simpl. exact B.
Qed.

Lemma p_ei_remove e t wr : p_ei e -> p_ei (fst (p_ep_remove e t wr)) /\
  (forall d, (d <> t \/ wr = true) -> p_lk e d -> p_lk (fst (p_ep_remove e t wr)) d).
Proof.
  intros (W & T & D).
  assert (OTH : forall d, d <> t -> p_ti (fst (p_ep_remove e t wr)) d /\ (p_lk e d -> p_lk (fst (p_ep_remove e t wr)) d)).
  { intros d N. destruct (p_other_remove d e t wr W (not_eq_sym N)) as [A B]. split.
    eapply p_ti_frame; eauto. intros; eapply p_lk_frame; eauto. }
  pose proof (p_wf_remove e t wr W) as W'.
  unfold p_ep_remove in *. destruct (ep_map e t) as [id|] eqn:M.
  2:{ simpl in *. split. split; [exact W|split; [exact T|exact D]]. intros d _ K. exact K. }
  pose proof (T t id M) as Tt. simpl in Tt. destruct Tt as [Tt1 Tt2].
  set (o := ep_obj e id) in *.
  set (o' := if wr then Build_p_ed (e_r o) false (e_rd o) None (e_cd o) (e_doc o)
             else Build_p_ed false (e_w o) None (e_wd o) None (e_doc o)) in *.
  assert (TO : (e_r o' = true -> if connd t then e_cd o' = Some t /\ e_rd o' = None else e_rd o' = Some t /\ e_cd o' = None) /\
               (e_r o' = false -> e_rd o' = None /\ e_cd o' = None)).
  { unfold o'. destruct wr; simpl; auto. split; [discriminate|auto]. }
  assert (DO : forall x, e_cd o' = Some x -> e_doc o' = pc_doc (p_get c x)).
  { unfold o'. destruct wr; simpl; [apply D|discriminate]. }
  destruct (e_r o' || e_w o') eqn:EV; simpl in *.
  - split. split; [exact W'|split].
    + intros d. destruct (Nat.eq_dec d t) as [->|N]; [|apply OTH; auto].
      intros i Mi. simpl in Mi. rewrite M in Mi. inversion Mi; subst i. simpl. rewrite p_upd_same. exact TO.
    + intros i x. simpl. unfold p_upd. destruct (i =? id) eqn:E; [apply DO|apply D].
    + intros d [N|WR] K; [apply OTH; auto|]. subst wr.
      destruct (Nat.eq_dec d t) as [->|N]; [|apply OTH; auto].
      destruct K as (i & A & B). assert (i = id) by congruence. subst i.
      exists id. simpl. rewrite p_upd_same. unfold o'. simpl. auto.
  - split. split; [exact W'|split].
    + intros d. destruct (Nat.eq_dec d t) as [->|N]; [|apply OTH; auto].
      intros i Mi. simpl in Mi. rewrite p_upd_same in Mi. discriminate.
    + intros i x. simpl. unfold p_upd. destruct (i =? id) eqn:E; [apply DO|apply D].
    + intros d [N|WR] K; [apply OTH; auto|]. subst wr.
      destruct (Nat.eq_dec d t) as [->|N]; [|apply OTH; auto].
      destruct K as (i & A & B). assert (i = id) by congruence. subst i.
      exfalso. unfold o' in EV. simpl in EV. fold o in B. rewrite B in EV. discriminate.
Qed.

(* ---- states ---- *)
Definition p_we (s : p_st) : Prop :=
  st_be s = true /\ p_ei (st_ep s) /\
  forall d, connd d = true -> pc_doc (p_get c d) = false -> st_regr s d = true -> st_onclose s d = true ->
            p_lk (st_ep s) d.

Lemma p_we_exec_act s a : p_we s -> p_we (p_exec_act c s a).
Proof.
  intros (B & E & K). unfold p_exec_act. destruct (st_del s (p_act_target a)). split; [exact B|split; [exact E|exact K]].
  destruct a; simpl.
  - unfold p_add_r. simpl. rewrite B. destruct (p_ei_add_r (st_ep s) d E) as [E' L'].
    pose proof (fun x => p_lk_add_r (st_ep s) d x E) as KK.
    destruct (p_ep_add_r c (st_ep s) d) as [e r]. simpl in *. split; auto. split; auto.
    intros x CX DX RX OX. simpl in RX, OX. unfold p_upd in RX. destruct (x =? d) eqn:EQ.
    + apply Nat.eqb_eq in EQ. subst x. exact L'.
    + apply KK. apply K; auto.
  - unfold p_add_w. simpl. rewrite B. destruct (p_ei_add_w (st_ep s) d E) as [E' KK].
    destruct (p_ep_add_w (st_ep s) d) as [e r]. simpl in *. split; auto.
  - unfold p_rem_r. simpl. rewrite B. destruct (p_ei_remove (st_ep s) d false E) as [E' KK].
    destruct (p_ep_remove (st_ep s) d false) as [e r]. simpl in *. split; auto. split; auto.
    intros x CX DX RX OX. simpl in RX, OX. unfold p_upd in RX. destruct (x =? d) eqn:EQ; [discriminate|].
    apply Nat.eqb_neq in EQ. apply KK; auto.
  - unfold p_rem_w. simpl. rewrite B. destruct (p_ei_remove (st_ep s) d true E) as [E' KK].
    destruct (p_ep_remove (st_ep s) d true) as [e r]. simpl in *. split; auto.
Qed.
Lemma p_we_exec_acts l : forall s, p_we s -> p_we (p_exec_acts c s l).
Proof. unfold p_exec_acts. induction l; simpl; intros; auto. apply IHl. apply p_we_exec_act; auto. Qed.
Lemma p_we_invoke s d k : p_we s -> p_we (p_invoke c s d k).
Proof.
  intros W. unfold p_invoke. destruct (st_del s d). exact W.
  destruct k; apply p_we_exec_acts; exact W.
Qed.
Lemma p_we_touch s d : p_we s -> p_we (p_touch s d).
Proof. intros W. unfold p_touch. destruct (st_del s d); exact W. Qed.

(* clearing a connected_descriptor field that is already NULL changes nothing *)
Lemma p_ei_clear_cd e id : e_cd (ep_obj e id) = None -> p_ei e ->
  let o := ep_obj e id in
  let e' := p_ep_set_obj e id (Build_p_ed (e_r o) (e_w o) (e_rd o) (e_wd o) None (e_doc o)) in
  p_ei e' /\ forall d, p_lk e d -> p_lk e' d.
Proof.
  intros CD (W & T & D). cbv zeta.
  assert (F : forall i, let o' := ep_obj (p_ep_set_obj e id (Build_p_ed (e_r (ep_obj e id)) (e_w (ep_obj e id))
                 (e_rd (ep_obj e id)) (e_wd (ep_obj e id)) None (e_doc (ep_obj e id)))) i in
              e_r o' = e_r (ep_obj e i) /\ e_rd o' = e_rd (ep_obj e i) /\ e_cd o' = e_cd (ep_obj e i) /\
              e_doc o' = e_doc (ep_obj e i)).
  { intros i. simpl. unfold p_upd. destruct (i =? id) eqn:E; auto. apply Nat.eqb_eq in E. subst. simpl. auto. }
  split. split; [exact W|split].
  - intros d i Mi. destruct (F i) as (F1 & F2 & F3 & F4). simpl in Mi. cbv zeta. rewrite F1, F2, F3. apply T; auto.
  - intros i x. destruct (F i) as (F1 & F2 & F3 & F4). rewrite F3, F4. apply D.
  - intros d (i & A & B). exists i. split; auto. destruct (F i) as (F1 & _). rewrite F1. exact B.
Qed.

Lemma p_we_ep_close s id d : p_inv c true s -> st_regr s d = true -> p_we s ->
  p_we (p_ep_close c s id d).
Proof.
  intros I RG W. unfold p_ep_close.
  pose proof (p_we_touch s d W) as W0. pose proof (p_inv_touch c true s d I) as I0.
  assert (RG0 : st_regr (p_touch s d) d = true) by (unfold p_touch; destruct (st_del s d); auto).
  set (s0 := p_touch s d) in *. clearbody s0.
  set (s1 := p_set_onclose s0 (p_upd (st_onclose s0) d false)).
  assert (W1 : p_we s1).
  { destruct W0 as (B & E & K). split; [exact B|]. split; [exact E|]. unfold s1. simpl.
    intros x CX DX RX OX. unfold p_upd in OX. destruct (x =? d); [discriminate|]. apply K; auto. }
  assert (I1 : p_inv c true s1) by exact I0.
  set (s2 := if st_onclose s0 d then p_invoke c s1 d PKClose else s1).
  assert (W2 : p_we s2) by (unfold s2; destruct (st_onclose s0 d); auto; apply p_we_invoke; auto).
  assert (I2 : p_inv c true s2) by (unfold s2; destruct (st_onclose s0 d); auto; apply p_inv_invoke; auto).
  clearbody s2.
  destruct (e_cd (ep_obj (st_ep s2) id)) as [d2|] eqn:CD; auto.
  destruct (e_doc (ep_obj (st_ep s2) id)) eqn:DOC; auto.
  assert (DD : pc_doc (p_get c d2) = true).
  { destruct W2 as (_ & (_ & _ & D) & _). rewrite <- (D id d2 CD). exact DOC. }
  pose proof (p_we_touch s2 d2 W2) as W3.
  assert (M3 : ep_map (st_ep (p_touch s2 d2)) d2 = Some id).
  { destruct I2 as (_ & J & _). destruct (J id) as (_ & J2 & _). destruct (J2 d2 CD) as [_ M].
    unfold p_touch. destruct (st_del s2 d2); exact M. }
  set (s3 := p_touch s2 d2) in *. clearbody s3. destruct W3 as (B3 & E3 & K3).
  destruct (p_ei_remove (st_ep s3) d2 false E3) as [E4 K4].
  pose proof (p_ep_remove_cd (st_ep s3) d2 id M3) as Y.
  destruct (p_ep_remove (st_ep s3) d2 false) as [e r]. simpl in *. rewrite Y.
  destruct (p_ei_clear_cd e id Y E4) as [E5 K5]. cbv zeta in E5, K5.
  split; [exact B3|]. split; [exact E5|].
  intros x CX DX RX OX. simpl. apply K5. apply K4.
  - left. intro; subst x. congruence.
  - apply K3; auto.
Qed.

Lemma p_we_ep_check s ev : p_inv c true s -> p_we s -> p_we (p_ep_check c s ev).
Proof.
  intros I W. unfold p_ep_check. destruct ev as [i fl].
  set (sf := if f_hup fl then _ else _).
  assert (X1 : p_we (fst sf) /\ p_inv c true (fst sf)).
  { unfold sf. destruct (f_hup fl); [|split; auto].
    destruct (e_rd (ep_obj (st_ep s) i)) eqn:RD.
    { simpl. split. apply p_we_invoke; auto. apply p_inv_invoke; auto. simpl. eapply p_inv_ep_rd; eauto. }
    destruct (e_cd (ep_obj (st_ep s) i)) eqn:CD.
    - simpl. pose proof (p_we_touch s n W) as W0. pose proof (p_inv_touch c true s n I) as I0.
      assert (RG : st_regr (p_touch s n) n = true).
      { unfold p_touch. destruct (st_del s n); simpl; eapply p_inv_ep_cd; eauto. }
      destruct (p_has_data (p_touch s n) n).
      + split. apply p_we_invoke; auto. apply p_inv_invoke; auto.
      + split. apply p_we_ep_close; auto. apply p_inv_ep_close; auto.
    - destruct (e_wd (ep_obj (st_ep s) i)) eqn:WD; simpl; [|split; auto].
      split. apply p_we_invoke; auto. apply p_inv_invoke; auto. simpl. eapply p_inv_ep_wd; eauto. }
  destruct sf as [s1 fl1]. simpl in X1. destruct X1 as [W1 I1].
  set (s2 := if f_in fl1 then _ else s1).
  assert (W2 : p_we s2).
  { unfold s2. destruct (f_in fl1); auto.
    destruct (e_rd (ep_obj (st_ep s1) i)). apply p_we_invoke; auto.
    destruct (e_cd (ep_obj (st_ep s1) i)); auto. apply p_we_invoke; auto. }
  clearbody s2. destruct (f_out fl1); auto.
  destruct (e_wd (ep_obj (st_ep s2) i)); auto. apply p_we_invoke; auto.
Qed.

Lemma p_we_ep_poll s desc : p_inv c true s -> p_we s -> p_we (p_ep_poll c s desc).
Proof.
  intros I W. pose proof (p_wfs_ep_poll c s desc (conj (proj1 W) (proj1 (proj1 (proj2 W))))) as [_ WP].
  unfold p_ep_poll in *.
  destruct (p_ep_batch c s (if desc then rev (seq 0 (length c)) else seq 0 (length c))); [exact W|].
  assert (X : forall l0 s0, p_inv c true s0 -> p_we s0 -> p_we (fold_left (p_ep_check c) l0 s0)).
  { induction l0; simpl; intros; auto. apply IHl0. apply p_inv_ep_check; auto. apply p_we_ep_check; auto. }
  specialize (X (p :: l) s I W). set (sf := fold_left (p_ep_check c) (p :: l) s) in *. clearbody sf.
  destruct X as (B & (W1 & T & D) & K). split; auto. split. split; [exact WP|split]; auto. exact K.
Qed.

Lemma p_we_step s o : p_inv c true s -> p_we s -> p_we (p_step c s o).
Proof.
  intros I W. unfold p_step. cbv zeta.
  match goal with |- p_we (p_set_opix ?x _) => assert (X : p_we x) end.
  { destruct o.
    - destruct (st_del s d) eqn:D; auto. pose proof (p_we_exec_act s (PAAddR d) W) as X.
      unfold p_exec_act in X. simpl in X. rewrite D in X. destruct (p_add_r c s d). exact X.
    - destruct (st_del s d) eqn:D; auto. pose proof (p_we_exec_act s (PAAddW d) W) as X.
      unfold p_exec_act in X. simpl in X. rewrite D in X. destruct (p_add_w c s d). exact X.
    - destruct (st_del s d) eqn:D; auto. pose proof (p_we_exec_act s (PARemR d) W) as X.
      unfold p_exec_act in X. simpl in X. rewrite D in X. destruct (p_rem_r c s d). exact X.
    - destruct (st_del s d) eqn:D; auto. pose proof (p_we_exec_act s (PARemW d) W) as X.
      unfold p_exec_act in X. simpl in X. rewrite D in X. destruct (p_rem_w c s d). exact X.
    - destruct (st_del s d || st_closed s d); exact W.
    - destruct (st_del s d); exact W.
    - rewrite (proj1 W). apply p_we_ep_poll; auto. }
  exact X.
Qed.
Lemma p_we_run ops : p_we (p_run true c ops).
Proof.
  unfold p_run. assert (W : p_we (p_init true c)).
  { split; [reflexivity|]. split.
    - split; [|split].
      + unfold p_wf; simpl. split; [|split; [|split]]; try (intros; discriminate); try (intros ? []). constructor.
      + intros d id M. discriminate.
      + intros id x H. discriminate.
    - simpl. intros; discriminate. }
  assert (I : p_inv c true (p_init true c)) by apply p_inv_init.
  revert W I. generalize (p_init true c). induction ops; simpl; intros; auto.
  apply IHops. apply p_we_step; auto. apply p_inv_step; auto.
Qed.
End RegE.

(* ---------- the premise of c16_close_reported from the registration history ---------- *)
Theorem p_close_reported_history c ops d desc be :
  p_refused c d = false -> length c <= p_max_events -> p_no_target c d -> d < length c -> pc_conn (p_get c d) = true -> pc_doc (p_get c d) = false ->
  let s := p_run be c ops in
  st_regr s d = true -> st_closed s d = true -> st_pend s d = [] -> st_onclose s d = true -> st_del s d = false ->
  p_closed_logged d (p_step c s (POPoll desc)).
Proof.
  intros NR LM G L CN DC s RG CL PD ON DL. destruct be.
  - destruct (p_we_run c ops) as (B & (W & T & D) & K). fold s in B, W, T, K.
    destruct (K d CN DC RG ON) as (id & M & ER).
    destruct (T d id M) as [T1 _]. specialize (T1 ER). rewrite CN in T1. destruct T1 as [T1 T2].
    apply (p_ep_close_reported c ops d id desc NR LM G L). constructor; auto. repeat split; auto.
  - destruct (p_ws_run c ops) as [B W]. fold s in B, W.
    apply (p_sel_close_reported c d s desc G L). constructor; auto.
Qed.

(* ---------- on the select back-end the history-level theorem needs no delete_on_close restriction ---------- *)
Theorem p_close_reported_history_select c ops d desc :
  p_no_target c d -> d < length c -> pc_conn (p_get c d) = true ->
  let s := p_run false c ops in
  st_regr s d = true -> st_closed s d = true -> st_pend s d = [] -> st_onclose s d = true -> st_del s d = false ->
  p_closed_logged d (p_step c s (POPoll desc)).
Proof.
  intros G L CN s RG CL PD ON DL. destruct (p_ws_run c ops) as [B W]. fold s in B, W.
  apply (p_sel_close_reported c d s desc G L). constructor; auto.
Qed.
