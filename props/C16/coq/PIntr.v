(* C16 part (b): a poll whose wait system call fails with EINTR (a handled signal arrived at the loop thread
   during select() / epoll_wait()).  The kernel leaves the fd sets / the event array as they were passed in;
   both pollers return at once: no descriptor is served, no close is reported (common/io/SelectPoller.cpp and
   EPoller.cpp, "if (errno == EINTR) return true").  What has happened BEFORE the wait stays: SelectPoller has
   already rebuilt its fd sets (AddDescriptorsToSet: erased slots are purged); EPoller has done nothing. *)
Require Import List Arith Bool NArith Lia.
Import ListNotations.
From C16 Require Import PModel PProofs PClose PAbs PSimS PSimE PSim.

Inductive p_opx := PX (o : p_op) | PXIntr.

Definition p_intr (c : p_cfg) (s : p_st) : p_st :=
  let s1 := if st_be s then s else p_sel_prepare c s in
  p_set_opix s1 (S (st_opix s1)).
Definition p_stepx (c : p_cfg) (s : p_st) (o : p_opx) : p_st :=
  match o with PX o => p_step c s o | PXIntr => p_intr c s end.
Definition p_runx (be : bool) (c : p_cfg) (ops : list p_opx) : p_st := fold_left (p_stepx c) ops (p_init be c).

(* the single-descriptor abstract machine: an interrupted poll only consumes an operation index *)
Definition l_stepx (c : p_cfg) (d n : nat) (a : p_a) (o : p_opx) : p_a :=
  match o with PX o => l_step c d n a o | PXIntr => a end.
Fixpoint l_runx (c : p_cfg) (d n : nat) (a : p_a) (ops : list p_opx) : p_a :=
  match ops with [] => a | o :: r => l_runx c d (S n) (l_stepx c d n a o) r end.

Definition p_px_ops (ops : list p_opx) : list p_op :=
  flat_map (fun o => match o with PX o => [o] | PXIntr => [] end) ops.

(* ---------- an interrupted poll serves nothing and reports nothing ---------- *)
Lemma p_haz_fold_fields (f : p_st -> nat -> bool) : forall l s,
  let s' := fold_left (fun s d => if f s d then p_set_haz s else s) l s in
  st_be s' = st_be s /\ st_log s' = st_log s /\ st_onclose s' = st_onclose s /\ st_pend s' = st_pend s /\
  st_closed s' = st_closed s /\ st_regr s' = st_regr s /\ st_regw s' = st_regw s /\ st_del s' = st_del s /\
  st_rets s' = st_rets s /\ st_ep s' = st_ep s /\ st_opix s' = st_opix s.
Proof.
  induction l as [|x l IH]; intros s; cbn [fold_left]. repeat split.
  cbv zeta in IH. destruct (f s x); [|apply IH].
  destruct (IH (p_set_haz s)) as (A1 & A2 & A3 & A4 & A5 & A6 & A7 & A8 & A9 & A10 & A11).
  repeat split; assumption.
Qed.

Theorem p_intr_serves_nothing c s :
  let s' := p_intr c s in
  st_log s' = st_log s /\ st_onclose s' = st_onclose s /\ st_pend s' = st_pend s /\ st_closed s' = st_closed s /\
  st_regr s' = st_regr s /\ st_regw s' = st_regw s /\ st_del s' = st_del s /\ st_rets s' = st_rets s /\
  st_ep s' = st_ep s /\ st_opix s' = S (st_opix s).
Proof.
  unfold p_intr. destruct (st_be s). simpl. repeat split.
  unfold p_sel_prepare. set (s0 := p_set_sel s _).
  match goal with |- context [fold_left ?g ?l s0] =>
    pose proof (p_haz_fold_fields (fun s d => (p_is_pres (s_c (st_sel s) d) || p_is_pres (s_w (st_sel s) d)) && st_del s d) l s0) as H
  end.
  cbv zeta in H. destruct H as (A1 & A2 & A3 & A4 & A5 & A6 & A7 & A8 & A9 & A10 & A11).
  simpl. rewrite A2, A3, A4, A5, A6, A7, A8, A9, A10, A11. repeat split.
Qed.

(* ---------- both back-ends still refine the single-descriptor abstract machine ---------- *)
Lemma p_inv_intr c be s : p_inv c be s -> p_inv c be (p_intr c s).
Proof.
  intros I. unfold p_intr. destruct I as (B & J). rewrite B. destruct be.
  - split; [exact B|exact J].
  - pose proof (p_inv_sel_prepare c s (conj B J)) as K. set (s1 := p_sel_prepare c s) in *. clearbody s1. exact K.
Qed.

Section PerDX.
Variable c : p_cfg.
Variable d : nat.
Hypothesis GD : p_d_ok c d = true.
Hypothesis L : d < length c.
Hypothesis LM : length c <= p_max_events.

Lemma p_rs_stepx s a o n : st_opix s = n -> p_rs c d s a ->
  p_rs c d (p_stepx c s o) (l_stepx c d n a o) /\ st_opix (p_stepx c s o) = S n.
Proof.
  destruct (p_d_ok_parts c d GD L LM) as (G1 & G2d & G3 & G4r & G4c & G5).
  intros O R. destruct o as [o|]; simpl.
  - apply p_rs_step; auto.
  - unfold p_intr. rewrite (rs_be _ _ _ _ R). destruct (p_rs_sel_prepare c d s a R) as [R1 O1].
    set (s1 := p_sel_prepare c s) in *. clearbody s1. split; [|simpl; congruence].
    eapply p_rs_frame; [..|exact R1]; reflexivity.
Qed.

Lemma p_re_stepx s a o n : st_opix s = n -> p_inv c true s ->
  (forall o0 x, o = PX o0 -> o0 = POAddW x -> x = d -> p_is_sock c d = true) -> p_re c d s a ->
  p_re c d (p_stepx c s o) (l_stepx c d n a o) /\ st_opix (p_stepx c s o) = S n.
Proof.
  destruct (p_d_ok_parts c d GD L LM) as (G1 & G2d & G3 & G4r & G4c & G5).
  intros O I OK R. destruct o as [o|]; simpl.
  - apply p_re_step; auto. intros x E1 E2. eapply OK; eauto.
  - unfold p_intr. rewrite (re_be _ _ _ _ R). split; [|simpl; congruence].
    eapply p_re_frame; [..|exact R]; reflexivity.
Qed.

Theorem p_refine_dx ops be : p_ops_ok_d c d (p_px_ops ops) = true ->
  p_proj d (p_log (p_runx be c ops)) = rev (a_log (l_runx c d 0 (l_init c d) ops)).
Proof.
  intros GO.
  assert (GO' : forall o o0 x, In o ops -> o = PX o0 -> o0 = POAddW x -> x = d -> p_is_sock c d = true).
  { intros o o0 x H -> -> ->. unfold p_ops_ok_d in GO. rewrite forallb_forall in GO.
    assert (H1 : In (POAddW d) (p_px_ops ops)) by (unfold p_px_ops; apply in_flat_map; exists (PX (POAddW d)); simpl; auto).
    specialize (GO _ H1). simpl in GO. rewrite Nat.eqb_refl in GO. exact GO. }
  clear GO. unfold p_log, p_runx. rewrite p_proj_rev. f_equal. destruct be.
  - assert (X : forall l s a n, (forall o o0 x, In o l -> o = PX o0 -> o0 = POAddW x -> x = d -> p_is_sock c d = true) ->
                 st_opix s = n -> p_inv c true s -> p_re c d s a ->
                 p_re c d (fold_left (p_stepx c) l s) (l_runx c d n a l)).
    { induction l as [|o l IH]; simpl; intros s a n OK O I R; auto.
      destruct (p_re_stepx s a o n O I (fun o0 x => OK o o0 x (or_introl eq_refl)) R) as [R1 O1].
      apply IH; auto. intros o' o0 x H. apply (OK o' o0 x). right; auto.
      destruct o; simpl; [apply p_inv_step|apply p_inv_intr]; auto. }
    apply (re_log _ _ _ _ (X ops (p_init true c) (l_init c d) 0 GO' eq_refl (p_inv_init c true) (p_re_init c d))).
  - assert (X : forall l s a n, st_opix s = n -> p_rs c d s a ->
                 p_rs c d (fold_left (p_stepx c) l s) (l_runx c d n a l)).
    { induction l as [|o l IH]; simpl; intros s a n O R; auto.
      destruct (p_rs_stepx s a o n O R) as [R1 O1]. apply IH; auto. }
    apply (rs_log _ _ _ _ (X ops (p_init false c) (l_init c d) 0 eq_refl (p_rs_init c d))).
Qed.

Theorem p_agree_dx ops : p_ops_ok_d c d (p_px_ops ops) = true ->
  p_proj d (p_log (p_runx true c ops)) = p_proj d (p_log (p_runx false c ops)).
Proof. intros GO. rewrite (p_refine_dx ops true GO), (p_refine_dx ops false GO). reflexivity. Qed.
End PerDX.

(* runs without interrupted polls are the runs of PModel *)
Lemma p_runx_px be c ops : p_runx be c (map PX ops) = p_run be c ops.
Proof.
  unfold p_runx, p_run. generalize (p_init be c). induction ops as [|o ops IH]; simpl; intros s; auto.
Qed.
